#!/bin/bash
# matrix.sh : run every seeded change against its own property's quick check (full pipeline) and
# record the verdicts in seeded/RESULTS.txt
cd /verif
export VERIF_SHRINK_SECONDS=${VERIF_SHRINK_SECONDS:-8}
out=seeded/RESULTS.txt; : > $out
for d in seeded/C*/; do
  id=$(basename $d)
  start=$(date +%s)
  line=$(./tools/run_seeded.sh $id 2>&1 | tail -1)
  end=$(date +%s)
  verdict=$(echo "$line" | grep -o 'exit=[0-9]*')
  kind=$(echo "$line" | grep -q 'no-failing-input-found' && echo "correspondence/proof only" || echo "failing input found")
  echo "$id $verdict ($kind) $((end-start))s :: $(echo "$line" | sed 's/.*:: //' | cut -c1-160)" >> $out
done
git -C /repo status --short >> $out
