#!/bin/bash
# run_seeded.sh <seeded-id> [property ...] : apply a seeded change to /repo, run the checks, undo it.
cd /verif
id=$1; shift
props="$@"; [ -z "$props" ] && props=${id:0:3}
[ -z "$(git -C /repo status --porcelain)" ] || { echo "/repo is not clean"; exit 2; }
git -C /repo apply /verif/seeded/$id/patch.diff || exit 2
for p in $props; do
  out=$(./check $p 2>&1); rc=$?
  echo "$id -> $p exit=$rc :: $(echo "$out" | grep -E '^VIOLATION|^KNOWN' | head -2 | tr '\n' ' ') :: $(echo "$out" | tail -1)"
done
git -C /repo checkout -- .
