#!/bin/bash
# validate_mutant.sh <PID> <variant> : confirm in a scratch worktree that the candidate change
#   (1) compiles and passes the existing test-suite, (2) makes its demonstration fail,
#   (3) the demonstration passes without it.  On success copies it to /verif/seeded/<PID><variant>/.
set -u
pid=$1; var=$2
src=${MUTOUT:-/tmp/mutout}/$pid/$var
wt=/tmp/mutval_$pid$var
export CARGO_NET_OFFLINE=true
[ -f $src/patch.diff ] || { echo "$pid$var: no patch"; exit 2; }
git -C /repo worktree add -q --detach $wt HEAD || exit 2
cleanup() { git -C /repo worktree remove --force $wt >/dev/null 2>&1; }
trap cleanup EXIT
cd $wt
git apply $src/patch.diff || { echo "$pid$var: patch does not apply"; exit 3; }
suite=$(timeout 900 cargo test --offline 2>&1 | grep -E "^test result" | awk '{p+=$4; f+=$6} END {print p" "f}')
cargo build --offline --features itree_verif >/dev/null 2>&1; featbuild=$?
cp $src/demo_mut.rs tests/demo_mut.rs
timeout 600 cargo test --offline --test demo_mut >/tmp/mutval_$pid$var.with.log 2>&1; with=$?
git checkout -- . ; 
timeout 600 cargo test --offline --test demo_mut >/tmp/mutval_$pid$var.without.log 2>&1; without=$?
echo "$pid$var: suite(pass fail)=$suite featbuild=$featbuild demo_with_patch_exit=$with demo_without_patch_exit=$without"
read p f <<< "$suite"
if [ "$p" = "59" ] && [ "$f" = "0" ] && [ $featbuild = 0 ] && [ $with != 0 ] && [ $without = 0 ]; then
  d=/verif/seeded/$pid${SUFFIX:-}$var; mkdir -p $d
  cp $src/patch.diff $d/patch.diff; cp $src/demo_mut.rs $d/demo_mut.rs; cp $src/notes.md $d/notes.md 2>/dev/null
  python3 - <<PY
import json
json.dump({"property":"$pid","variant":"$var","validated":{"existing_suite":"59 passed, 0 failed with the patch applied","feature_build":"cargo build --features itree_verif ok","demo_with_patch":"fails (exit $with)","demo_without_patch":"passes"},
 "ran":["git apply patch.diff","cargo test --offline","cargo build --offline --features itree_verif","cargo test --offline --test demo_mut (with and without the patch)"],
 "needs":open("$src/notes.md").read()[:1500]}, open("$d/meta.json","w"), indent=1)
PY
  echo "$pid$var: KEPT"
else
  echo "$pid$var: REJECTED"
fi
