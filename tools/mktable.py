#!/usr/bin/env python3
"""mktable.py : rewrite the table of DESIGN.md section 14 from seeded/RESULTS.txt (last matrix run)
and the first descriptive line of each seeded change's notes.md."""
import os, re, json
ROOT = os.path.dirname(os.path.dirname(os.path.abspath(__file__)))
rows = []
for line in open(os.path.join(ROOT, 'seeded/RESULTS.txt')):
    m = re.match(r'(C\d\d\w*) exit=(\d+) \(([^)]*)\) (\d+)s', line)
    if not m:
        continue
    sid, rc, kind, secs = m.groups()
    notes = ''
    try:
        for l in open(os.path.join(ROOT, 'seeded', sid, 'notes.md')):
            l = l.strip()
            if not l or l.startswith('#') or l.lower().startswith(('## ', 'mutant', 'commands', '**mutant')):
                continue
            if 'src/' in l or len(l) > 60:
                notes = l.lstrip('*- ').replace('|', '/')[:110]
                break
    except OSError:
        pass
    verdict = 'VIOLATION' if rc == '1' else 'MISSED'
    found = 'failing input' if 'failing input' in kind else 'no-failing-input-found'
    rows.append('| %s | %s | %s | %ss | %s |' % (sid, verdict, found if rc == '1' else '-', secs, notes))
    # keep meta.json in step
    mp = os.path.join(ROOT, 'seeded', sid, 'meta.json')
    try:
        meta = json.load(open(mp))
        meta['detected_by'] = dict(own_check=sid[:3], verdict=verdict,
                                   found_as=('failing input (property predicate fails on the real code)' if found == 'failing input' else found) if rc == '1' else 'not detected',
                                   seconds=[secs + 's'])
        if 'w4' in sid: meta['wave'] = 4
        if 'w5' in sid: meta['wave'] = 5
        json.dump(meta, open(mp, 'w'), indent=1)
    except OSError:
        pass
p = os.path.join(ROOT, 'DESIGN.md')
s = open(p).read()
head = '| seeded change | own check (quick) | found as | time | what it is (from its notes) |\n|---|---|---|---|---|\n'
i = s.index(head)
j = s.index('\n\n', i)
s = s[:i] + head + '\n'.join(rows) + s[j:]
open(p, 'w').write(s)
print(len(rows), 'rows;', sum('VIOLATION' in r for r in rows), 'detected;', sum('| failing input |' in r for r in rows), 'with a failing input')
