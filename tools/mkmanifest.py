#!/usr/bin/env python3
"""Regenerates /verif/MANIFEST.json from the table below (run after claiming a new property)."""
import json, os
ROOT = os.path.dirname(os.path.dirname(os.path.abspath(__file__)))
props = [json.loads(l) for l in open(os.path.join(ROOT, 'properties.jsonl'))]

TB = ("Trusted: Coq 8.16.1 kernel (vm_compute for finite sweeps/examples, no native_compute), no axioms (every property theorem "
      "prints 'Closed under the global context'); extraction with ExtrOcamlBasic only; the OCaml driver, the Rust harness, the read-only "
      "hooks (feature itree_verif) and this orchestrator; rustc/std. The Gallina model is hand-written: it is tied to /repo only by the "
      "correspondence run (same histories on real code and extracted model, full state compared after every operation); arena encoding "
      "(parent links, sentinel, unchecked indexing), std behaviour and generic instantiation are modelled, not verified (DESIGN.md section 8).")

CLAIMS = {
 # id: (level text, technique, design_ref)
 'C10': ("PARTIAL by nature (runtime behaviour is not modelled): theorems (Rocq) that the model never returns an error value - ErrStuck where the code would index with EMPTY_REF, ErrPool for popping an empty free list, ErrHandle, ErrIndex, ErrFuel for an exhausted loop measure - on any valid history of the map/set trees, the expiring-key tree (lazy expiry included), the map/set lists, and that every slot linked into a tree or on its free list lies in 1..buffer length-1; removal from a valid red-black tree never needs a missing sibling or nephew. The runtime half is decided on the real code: every history of this check runs in a debug build (overflow checks, debug assertions, library unsafe-precondition checks on get_unchecked) and a release build, each history in its own watchdog-guarded thread, the process restarted after an abort; a panic, abort, crash, hang or an out-of-bounds / sentinel / cyclic link in the snapshot is a failing input.",
         "Rocq totality theorems over the model's error values + debug/release execution of all histories under a watchdog", "6 C10"),
 'C11': ("Theorems (Rocq): in every reachable state of the map/set trees and of the expiring-key tree (slots freed by lazy expiry included) the tree's slots and the free list are duplicate-free together and are exactly the slots 1..blen-1 (slot 0, the sentinel, in neither); clear returns every slot (free list = permutation of 1..blen-1, buffer length unchanged); the number of slots ever allocated is at most 3*(peak population+1)+max(hint,8) for every valid map/set history of any length (peak computed on the reference semantics), via two pool-step lemmas shared by all three trees. For the expiring-key tree the bound itself is checked on the real code after every operation (peak = physically stored entries). Tie: exact slot numbers, free-list order, buffer length and free-list capacity of the three real trees compared with the model after every operation, capacity hints 0/1/8/9/20/64/300, long churn.",
         "Rocq invariant proof (slot partition, pool growth bound by induction over histories) + slot-exact correspondence run", "6 C11"),
 'C18': ("PARTIAL by nature (unwinding is runtime behaviour). Theorems (Rocq): expiring-key tree - at every callback event (expiration(), key comparison, comparator closure) of every operation from any related state, the state handed over satisfies the full representation invariant and is related to the same bag (contents = those before the operation); expiring-key list - a panic at any position of the purge leaves a buffer that still refines the same bag. Map, set, list binary searches and the segment iterator have no modelled mid-operation callbacks: for them and for the runtime half the property is decided by the injection run on the real code: a panic injected at EVERY callback invocation index of every generated history on all seven collections, state snapshotted after catch_unwind, checked structurally (red-black, order, links, slot partition), against the before/after contents, against the model's event states, and used further.",
         "Rocq theorems over the model's callback-event states + exhaustive panic injection per callback index on the real code", "6 C18"),
 'C01': ("Theorem (Rocq, all valid histories of any length, all capacity hints): the expiring-key tree model - including lazy expiry, i.e. physical deletion and rebalancing of expired entries while a search holds a slot - runs every valid history to completion and every first_less / first_less_or_equal / first_less_or_equal_by answer equals the reference answer over exactly the entries with expiration > t (for comparators: monotone with at most one live Equal key); the search-loop theorem is proved from ANY state satisfying the invariant. Tie to code: answers and full state of the real KeyExpTree compared with the extracted model and reference semantics after every operation; exhaustive closure over 3 keys x expirations time+{0,1,2} x clock 0..3 with every operation from every reachable state.",
         "Rocq proof (loop invariant of the lazy-expiry search under deletions around the held node; refinement to the bag semantics) + correspondence run", "6 C01, 13.5"),
 'C06': ("Same refinement theorem as C01 for get_value (output = ref_get of the bag: value of the entry with key k and expiration > t, else None), plus the one-step form from any related state. Tie: G operations on the real tree for stored / expired / absent keys at every clock value of the exhaustive closure and random histories.",
         "Rocq refinement proof + correspondence run", "6 C06"),
 'C07': ("Theorems (Rocq): from any state related to a bag the export returns map val (sort-by-key (entries with expiration > t)) and leaves the state unchanged; for every valid history the tree model and the sorted-list model run to completion and agree on every output (all exports included). Tie: V operations on real tree and real list at every time relative to the stored expirations.",
         "Rocq proof (export = filter live of the in-order list; uniqueness of the sorted permutation) + correspondence run", "6 C07"),
 'C19': ("Theorems (Rocq): the capacity the (repaired) export requests equals the number of stored entries and the exported vector fits; the formula of the unrepaired code is refuted by a 1000-entry witness (2 097 152 slots). Partial by nature: allocation is runtime behaviour - the check compares Vec::capacity() of the real export with the model's request and with the bound 4n+16 on trees up to 300 000 entries (thorough: 5 000 000), three insertion orders, list variant included.",
         "Rocq theorem about the requested capacity + direct measurement of Vec::capacity on the real export", "6 C19"),
 'C20': ("Theorem (Rocq): for every valid history h ++ [o], every stored entity that the last operation hands to the caller's ordering / comparator (the model's EvCmp events, produced by insert, the three predecessor queries and exact lookup) has expiration > t and is stored; for the list: the purge leaves exactly the live entries whether or not the cached-minimum shortcut fires, and the cached minimum is a lower bound in every reachable state. Tie: instrumented Ord / closure in the harness record every stored key they are shown; predicate exp > t evaluated on each; the set per operation compared with the model's events.",
         "Rocq proof over the model's callback-event lists + instrumented comparison callbacks on the real code", "6 C20"),

 'C02': ("Theorems (Rocq, all inputs): insertion and removal of the shared red-black core preserve red-black validity (root colour free) and removal never needs a missing sibling/nephew; every valid RB tree has height <= 2*log2(n+1)+1; every state of the map/set model and of the expiring-key tree model (lazy expiry included) reachable by ANY valid history is a valid RB tree, a search tree in key order, with pairwise distinct slots. Mutual consistency of parent/child links and 'sentinel linked nowhere' are true of an inductive tree by construction and are decided for the real arena by the snapshot abstraction on every explored state. Tie to code: shape+colours+entities of all three real trees compared with the model after every operation (exhaustive closure over <=5 keys, random histories to thousands of entries), invariant checkers rb_ok/bst_ok/height_ok/links evaluated on the implementation's own snapshots.",
         "Rocq proof (induction over histories, status-indexed RB invariants) + model/implementation correspondence run", "6 C02, 13.4"),
 'C04': ("Theorem (Rocq, all valid histories, all capacity hints): the tree model run on any history with keys inserted only while absent produces exactly the outputs of the association-list reference semantics for every operation (get_value, is_empty, handle reads, ...), never errs, and its abstraction (in-order entries) is a permutation of the reference state after every step; deleting an absent key returns the identical state. Tie to code: answers and full state of the real MapTree<MKey, Box<i64>> compared with the extracted model and the extracted reference semantics after every operation.",
         "Rocq refinement proof to an abstract map + correspondence run", "6 C04"),
 'C05': ("Same refinement theorem as C04 for the set (entity = key + payload moves as a unit); SetTree is a separate copy of the code, so it has its own correspondence run (SetTree<MKey, SVal> with String payloads) including every reachable shape over <=5 keys.",
         "Rocq refinement proof + correspondence run on SetTree", "6 C05"),
 'C08': ("Theorems (Rocq): in every reachable state and for every probe the predecessor handle is empty exactly when the reference predecessor is None, otherwise reading yields the reference predecessor, writing yields a state whose abstraction is a_update of exactly that key, deleting yields a_remove of exactly that key (invariant preserved); comparator form for every comparator monotone on the stored keys with at most one Equal key; key form = comparator form. Tie: F/FB/FT/W/X operations on real map and set from every reachable shape <=5 keys x every probe.",
         "Rocq proof (descent = list pick on the in-order list; characterisation of the reference predecessor) + correspondence run", "6 C08"),
 'C09': ("Theorems (Rocq): in every reachable state, if the in-order (slot, entry) sequence is A ++ (x,e) :: B then index_after x is the first slot of B (empty sentinel iff B empty) and index_before x the last slot of A; read through the stepped handle = reference a_next / a_prev. Hence a forward walk enumerates the strictly increasing in-order sequence once and stops. Tie: A/B/WF/WB operations on the real SetTree from every reachable shape, every entry, both directions, step-bounded walks.",
         "Rocq proof (climb = successor in the in-order list) + correspondence run", "6 C09"),
 'C13': ("Theorems (Rocq, 33 statements): the binary-search contract; MapList/SetList steps preserve 'sorted permutation of the reference map' and return the reference answers (lookup, predecessor by key and by monotone comparator, write/delete through positions, neighbour steps with the empty sentinel past either end), history-level refinement for all valid histories; KeyExpList: cached min_exp is a lower bound of all stored expirations in every reachable state, the purge equals filter-live whether or not the shortcut fires, every query/export equals the bag reference semantics, history-level refinement; counterexamples showing each contract clause is needed. Tie: all three real lists compared (answers and full buffer incl. min_exp) with the extracted model after every operation.",
         "Rocq refinement proofs for the three list models + correspondence run", "6 C13"),
 'C17': ("Theorem (Rocq): from any state satisfying the representation invariant, after ANY sequence of insertions and lookups every previously stored (slot, entry) pair is still stored at the same slot (value_by_index returns the same entry, and the predecessor query of its key returns the same handle); one insertion is sorted insertion into the in-order list with a slot that was not in use. Tie: handles held across insertions on real map and set (every reachable shape <=5 keys x every insertion order of the absent keys, plus random).",
         "Rocq proof (insertion never changes a stored slot/entity pair) + correspondence run", "6 C17"),
}

PENDING = "theorems for this property are still being written in this session; its correspondence check exists but the property is not claimed until its Rocq theorems are in place"

checks, na = [], []
for p in props:
    pid = p['id']
    if pid in CLAIMS:
        text, tech, ref = CLAIMS[pid]
        checks.append(dict(
            property_id=pid, quick_cmd='./check %s' % pid, thorough_cmd='./check %s --tier thorough' % pid,
            evidence_file='/verif/evidence/%s.json' % pid, replay_cmd_template='./check %s --replay {path}' % pid,
            engine='rocq+correspondence',
            level_claimed=dict(category='proof', text=text, design_ref='DESIGN.md section ' + ref),
            level_note=TB, technique=tech))
    else:
        na.append(dict(property_id=pid, reason=PENDING))

m = dict(version=1, setup_cmd='./build.sh all',
         hooks=dict(guard='itree_verif (cargo feature of /repo, off by default)',
                    enable='the harness crate /verif/harness depends on /repo by path with features = ["itree_verif"]; cargo build --offline',
                    baseline_off_cmd='cd /repo && cargo test --workspace --no-fail-fast --offline',
                    source_commits=['ea6fd43', 'de077fd'], add_only=True),
         engines=[dict(name='rocq+correspondence', path='/verif/check', serves_properties=sorted(CLAIMS),
                       kind_free_text='Rocq (Coq 8.16.1) theorems about a hand-written executable Gallina model; model tied to the code by a correspondence run (extracted OCaml model vs real Rust code on the same histories)')],
         checks=checks, not_applicable=na,
         notes='See DESIGN.md. known_findings.json lists five defects of the pinned commit that were repaired by fix: commits.')
json.dump(m, open(os.path.join(ROOT, 'MANIFEST.json'), 'w'), indent=1)
print('claimed', sorted(CLAIMS), 'pending', [x['property_id'] for x in na])
