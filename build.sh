#!/bin/bash
# Builds the framework from files on disk only (offline): Coq development, extraction, model
# runner, harness.  Usage: ./build.sh [coq|ocaml|harness|all]
set -e
cd "$(dirname "$0")"
what=${1:-all}
export CARGO_NET_OFFLINE=true
if [ "$what" = coq ] || [ "$what" = all ]; then
  (cd coq && coq_makefile -f _CoqProject -o Makefile > /dev/null && timeout 3000 make -j16 2>&1 | grep -v "^COQDEP\|^COQC\|Nothing to be done" || true)
  (cd coq && timeout 3000 make -j16 > /dev/null)
fi
if [ "$what" = ocaml ] || [ "$what" = all ]; then
  mkdir -p _build/ocaml _build/extract
  if [ ! -f _build/extract/model.ml ] || [ -n "$(find coq/theories/Model coq/theories/Spec ocaml/Extract.v -newer _build/extract/model.ml 2>/dev/null)" ]; then
    cp ocaml/Extract.v _build/extract/
    (cd _build/extract && timeout 600 coqc -Q ../../coq/theories ITree Extract.v > /dev/null)
  fi
  if [ ! -f _build/ocaml/modelrun ] || [ _build/extract/model.ml -nt _build/ocaml/modelrun ] || [ ocaml/run.ml -nt _build/ocaml/modelrun ]; then
    cp _build/extract/model.ml _build/extract/model.mli ocaml/run.ml _build/ocaml/
    (cd _build/ocaml && ocamlfind ocamlopt -O3 -w -a model.mli model.ml run.ml -o modelrun 2>&1 | grep -v "options -O3 is only relevant" || true)
    test -x _build/ocaml/modelrun
  fi
fi
if [ "$what" = harness ] || [ "$what" = all ]; then
  (cd harness && cargo build --offline 2>&1 | grep -E "^error" -A12 || true)
  (cd harness && cargo build --offline --release 2>&1 | grep -E "^error" -A12 || true)
  test -x _build/cargo/debug/itv && test -x _build/cargo/release/itv
fi
