
(** val negb : bool -> bool **)

let negb = function
| true -> false
| false -> true

type nat =
| O
| S of nat

(** val option_map : ('a1 -> 'a2) -> 'a1 option -> 'a2 option **)

let option_map f = function
| Some a -> Some (f a)
| None -> None

(** val fst : ('a1 * 'a2) -> 'a1 **)

let fst = function
| (x, _) -> x

(** val snd : ('a1 * 'a2) -> 'a2 **)

let snd = function
| (_, y) -> y

(** val length : 'a1 list -> nat **)

let rec length = function
| [] -> O
| _ :: l' -> S (length l')

(** val app : 'a1 list -> 'a1 list -> 'a1 list **)

let rec app l m =
  match l with
  | [] -> m
  | a :: l1 -> a :: (app l1 m)

type comparison =
| Eq
| Lt
| Gt

(** val compOpp : comparison -> comparison **)

let compOpp = function
| Eq -> Eq
| Lt -> Gt
| Gt -> Lt

module Coq__1 = struct
 (** val add : nat -> nat -> nat **)
 let rec add n0 m =
   match n0 with
   | O -> m
   | S p -> S (add p m)
end
include Coq__1

(** val mul : nat -> nat -> nat **)

let rec mul n0 m =
  match n0 with
  | O -> O
  | S p -> add m (mul p m)

(** val sub : nat -> nat -> nat **)

let rec sub n0 m =
  match n0 with
  | O -> n0
  | S k -> (match m with
            | O -> n0
            | S l -> sub k l)

type err =
| ErrStuck
| ErrFuel
| ErrPool
| ErrHandle
| ErrIndex
| ErrRange

type 'a res =
| Ret of 'a
| Err of err

(** val bind : 'a1 res -> ('a1 -> 'a2 res) -> 'a2 res **)

let bind r f =
  match r with
  | Ret a -> f a
  | Err e -> Err e

module Nat =
 struct
  (** val pred : nat -> nat **)

  let pred n0 = match n0 with
  | O -> n0
  | S u -> u

  (** val eqb : nat -> nat -> bool **)

  let rec eqb n0 m =
    match n0 with
    | O -> (match m with
            | O -> true
            | S _ -> false)
    | S n' -> (match m with
               | O -> false
               | S m' -> eqb n' m')

  (** val leb : nat -> nat -> bool **)

  let rec leb n0 m =
    match n0 with
    | O -> true
    | S n' -> (match m with
               | O -> false
               | S m' -> leb n' m')

  (** val ltb : nat -> nat -> bool **)

  let ltb n0 m =
    leb (S n0) m

  (** val max : nat -> nat -> nat **)

  let rec max n0 m =
    match n0 with
    | O -> m
    | S n' -> (match m with
               | O -> n0
               | S m' -> S (max n' m'))

  (** val log2_iter : nat -> nat -> nat -> nat -> nat **)

  let rec log2_iter k p q r =
    match k with
    | O -> p
    | S k' ->
      (match r with
       | O -> log2_iter k' (S p) (S q) q
       | S r' -> log2_iter k' p (S q) r')

  (** val log2 : nat -> nat **)

  let log2 n0 =
    log2_iter (pred n0) O (S O) O
 end

(** val nth : nat -> 'a1 list -> 'a1 -> 'a1 **)

let rec nth n0 l default =
  match n0 with
  | O -> (match l with
          | [] -> default
          | x :: _ -> x)
  | S m -> (match l with
            | [] -> default
            | _ :: t -> nth m t default)

(** val nth_error : 'a1 list -> nat -> 'a1 option **)

let rec nth_error l = function
| O -> (match l with
        | [] -> None
        | x :: _ -> Some x)
| S n1 -> (match l with
           | [] -> None
           | _ :: l0 -> nth_error l0 n1)

(** val last : 'a1 list -> 'a1 -> 'a1 **)

let rec last l d =
  match l with
  | [] -> d
  | a :: l0 -> (match l0 with
                | [] -> a
                | _ :: _ -> last l0 d)

(** val removelast : 'a1 list -> 'a1 list **)

let rec removelast = function
| [] -> []
| a :: l0 -> (match l0 with
              | [] -> []
              | _ :: _ -> a :: (removelast l0))

(** val map : ('a1 -> 'a2) -> 'a1 list -> 'a2 list **)

let rec map f = function
| [] -> []
| a :: t -> (f a) :: (map f t)

(** val flat_map : ('a1 -> 'a2 list) -> 'a1 list -> 'a2 list **)

let rec flat_map f = function
| [] -> []
| x :: t -> app (f x) (flat_map f t)

(** val fold_left : ('a1 -> 'a2 -> 'a1) -> 'a2 list -> 'a1 -> 'a1 **)

let rec fold_left f l a0 =
  match l with
  | [] -> a0
  | b :: t -> fold_left f t (f a0 b)

(** val fold_right : ('a2 -> 'a1 -> 'a1) -> 'a1 -> 'a2 list -> 'a1 **)

let rec fold_right f a0 = function
| [] -> a0
| b :: t -> f b (fold_right f a0 t)

(** val existsb : ('a1 -> bool) -> 'a1 list -> bool **)

let rec existsb f = function
| [] -> false
| a :: l0 -> (||) (f a) (existsb f l0)

(** val forallb : ('a1 -> bool) -> 'a1 list -> bool **)

let rec forallb f = function
| [] -> true
| a :: l0 -> (&&) (f a) (forallb f l0)

(** val filter : ('a1 -> bool) -> 'a1 list -> 'a1 list **)

let rec filter f = function
| [] -> []
| x :: l0 -> if f x then x :: (filter f l0) else filter f l0

(** val find : ('a1 -> bool) -> 'a1 list -> 'a1 option **)

let rec find f = function
| [] -> None
| x :: tl -> if f x then Some x else find f tl

(** val firstn : nat -> 'a1 list -> 'a1 list **)

let rec firstn n0 l =
  match n0 with
  | O -> []
  | S n1 -> (match l with
             | [] -> []
             | a :: l0 -> a :: (firstn n1 l0))

(** val skipn : nat -> 'a1 list -> 'a1 list **)

let rec skipn n0 l =
  match n0 with
  | O -> l
  | S n1 -> (match l with
             | [] -> []
             | _ :: l0 -> skipn n1 l0)

(** val repeat : 'a1 -> nat -> 'a1 list **)

let rec repeat x = function
| O -> []
| S k -> x :: (repeat x k)

type positive =
| XI of positive
| XO of positive
| XH

type n =
| N0
| Npos of positive

type z =
| Z0
| Zpos of positive
| Zneg of positive

module Pos =
 struct
  type mask =
  | IsNul
  | IsPos of positive
  | IsNeg
 end

module Coq_Pos =
 struct
  (** val succ : positive -> positive **)

  let rec succ = function
  | XI p -> XO (succ p)
  | XO p -> XI p
  | XH -> XO XH

  (** val add : positive -> positive -> positive **)

  let rec add x y =
    match x with
    | XI p ->
      (match y with
       | XI q -> XO (add_carry p q)
       | XO q -> XI (add p q)
       | XH -> XO (succ p))
    | XO p ->
      (match y with
       | XI q -> XI (add p q)
       | XO q -> XO (add p q)
       | XH -> XI p)
    | XH -> (match y with
             | XI q -> XO (succ q)
             | XO q -> XI q
             | XH -> XO XH)

  (** val add_carry : positive -> positive -> positive **)

  and add_carry x y =
    match x with
    | XI p ->
      (match y with
       | XI q -> XI (add_carry p q)
       | XO q -> XO (add_carry p q)
       | XH -> XI (succ p))
    | XO p ->
      (match y with
       | XI q -> XO (add_carry p q)
       | XO q -> XI (add p q)
       | XH -> XO (succ p))
    | XH ->
      (match y with
       | XI q -> XI (succ q)
       | XO q -> XO (succ q)
       | XH -> XI XH)

  (** val pred_double : positive -> positive **)

  let rec pred_double = function
  | XI p -> XI (XO p)
  | XO p -> XI (pred_double p)
  | XH -> XH

  (** val pred_N : positive -> n **)

  let pred_N = function
  | XI p -> Npos (XO p)
  | XO p -> Npos (pred_double p)
  | XH -> N0

  type mask = Pos.mask =
  | IsNul
  | IsPos of positive
  | IsNeg

  (** val succ_double_mask : mask -> mask **)

  let succ_double_mask = function
  | IsNul -> IsPos XH
  | IsPos p -> IsPos (XI p)
  | IsNeg -> IsNeg

  (** val double_mask : mask -> mask **)

  let double_mask = function
  | IsPos p -> IsPos (XO p)
  | x0 -> x0

  (** val double_pred_mask : positive -> mask **)

  let double_pred_mask = function
  | XI p -> IsPos (XO (XO p))
  | XO p -> IsPos (XO (pred_double p))
  | XH -> IsNul

  (** val sub_mask : positive -> positive -> mask **)

  let rec sub_mask x y =
    match x with
    | XI p ->
      (match y with
       | XI q -> double_mask (sub_mask p q)
       | XO q -> succ_double_mask (sub_mask p q)
       | XH -> IsPos (XO p))
    | XO p ->
      (match y with
       | XI q -> succ_double_mask (sub_mask_carry p q)
       | XO q -> double_mask (sub_mask p q)
       | XH -> IsPos (pred_double p))
    | XH -> (match y with
             | XH -> IsNul
             | _ -> IsNeg)

  (** val sub_mask_carry : positive -> positive -> mask **)

  and sub_mask_carry x y =
    match x with
    | XI p ->
      (match y with
       | XI q -> succ_double_mask (sub_mask_carry p q)
       | XO q -> double_mask (sub_mask p q)
       | XH -> IsPos (pred_double p))
    | XO p ->
      (match y with
       | XI q -> double_mask (sub_mask_carry p q)
       | XO q -> succ_double_mask (sub_mask_carry p q)
       | XH -> double_pred_mask p)
    | XH -> IsNeg

  (** val mul : positive -> positive -> positive **)

  let rec mul x y =
    match x with
    | XI p -> add y (XO (mul p y))
    | XO p -> XO (mul p y)
    | XH -> y

  (** val iter : ('a1 -> 'a1) -> 'a1 -> positive -> 'a1 **)

  let rec iter f x = function
  | XI n' -> f (iter f (iter f x n') n')
  | XO n' -> iter f (iter f x n') n'
  | XH -> f x

  (** val div2 : positive -> positive **)

  let div2 = function
  | XI p0 -> p0
  | XO p0 -> p0
  | XH -> XH

  (** val div2_up : positive -> positive **)

  let div2_up = function
  | XI p0 -> succ p0
  | XO p0 -> p0
  | XH -> XH

  (** val size : positive -> positive **)

  let rec size = function
  | XI p0 -> succ (size p0)
  | XO p0 -> succ (size p0)
  | XH -> XH

  (** val compare_cont : comparison -> positive -> positive -> comparison **)

  let rec compare_cont r x y =
    match x with
    | XI p ->
      (match y with
       | XI q -> compare_cont r p q
       | XO q -> compare_cont Gt p q
       | XH -> Gt)
    | XO p ->
      (match y with
       | XI q -> compare_cont Lt p q
       | XO q -> compare_cont r p q
       | XH -> Gt)
    | XH -> (match y with
             | XH -> r
             | _ -> Lt)

  (** val compare : positive -> positive -> comparison **)

  let compare =
    compare_cont Eq

  (** val eqb : positive -> positive -> bool **)

  let rec eqb p q =
    match p with
    | XI p0 -> (match q with
                | XI q0 -> eqb p0 q0
                | _ -> false)
    | XO p0 -> (match q with
                | XO q0 -> eqb p0 q0
                | _ -> false)
    | XH -> (match q with
             | XH -> true
             | _ -> false)

  (** val coq_Nsucc_double : n -> n **)

  let coq_Nsucc_double = function
  | N0 -> Npos XH
  | Npos p -> Npos (XI p)

  (** val coq_Ndouble : n -> n **)

  let coq_Ndouble = function
  | N0 -> N0
  | Npos p -> Npos (XO p)

  (** val coq_lor : positive -> positive -> positive **)

  let rec coq_lor p q =
    match p with
    | XI p0 ->
      (match q with
       | XI q0 -> XI (coq_lor p0 q0)
       | XO q0 -> XI (coq_lor p0 q0)
       | XH -> p)
    | XO p0 ->
      (match q with
       | XI q0 -> XI (coq_lor p0 q0)
       | XO q0 -> XO (coq_lor p0 q0)
       | XH -> XI p0)
    | XH -> (match q with
             | XO q0 -> XI q0
             | _ -> q)

  (** val coq_land : positive -> positive -> n **)

  let rec coq_land p q =
    match p with
    | XI p0 ->
      (match q with
       | XI q0 -> coq_Nsucc_double (coq_land p0 q0)
       | XO q0 -> coq_Ndouble (coq_land p0 q0)
       | XH -> Npos XH)
    | XO p0 ->
      (match q with
       | XI q0 -> coq_Ndouble (coq_land p0 q0)
       | XO q0 -> coq_Ndouble (coq_land p0 q0)
       | XH -> N0)
    | XH -> (match q with
             | XO _ -> N0
             | _ -> Npos XH)

  (** val coq_lxor : positive -> positive -> n **)

  let rec coq_lxor p q =
    match p with
    | XI p0 ->
      (match q with
       | XI q0 -> coq_Ndouble (coq_lxor p0 q0)
       | XO q0 -> coq_Nsucc_double (coq_lxor p0 q0)
       | XH -> Npos (XO p0))
    | XO p0 ->
      (match q with
       | XI q0 -> coq_Nsucc_double (coq_lxor p0 q0)
       | XO q0 -> coq_Ndouble (coq_lxor p0 q0)
       | XH -> Npos (XI p0))
    | XH ->
      (match q with
       | XI q0 -> Npos (XO q0)
       | XO q0 -> Npos (XI q0)
       | XH -> N0)

  (** val shiftl : positive -> n -> positive **)

  let shiftl p = function
  | N0 -> p
  | Npos n1 -> iter (fun x -> XO x) p n1

  (** val testbit : positive -> n -> bool **)

  let rec testbit p n0 =
    match p with
    | XI p0 -> (match n0 with
                | N0 -> true
                | Npos n1 -> testbit p0 (pred_N n1))
    | XO p0 -> (match n0 with
                | N0 -> false
                | Npos n1 -> testbit p0 (pred_N n1))
    | XH -> (match n0 with
             | N0 -> true
             | Npos _ -> false)

  (** val iter_op : ('a1 -> 'a1 -> 'a1) -> positive -> 'a1 -> 'a1 **)

  let rec iter_op op p a =
    match p with
    | XI p0 -> op a (iter_op op p0 (op a a))
    | XO p0 -> iter_op op p0 (op a a)
    | XH -> a

  (** val to_nat : positive -> nat **)

  let to_nat x =
    iter_op Coq__1.add x (S O)

  (** val of_succ_nat : nat -> positive **)

  let rec of_succ_nat = function
  | O -> XH
  | S x -> succ (of_succ_nat x)
 end

module N =
 struct
  (** val add : n -> n -> n **)

  let add n0 m =
    match n0 with
    | N0 -> m
    | Npos p -> (match m with
                 | N0 -> n0
                 | Npos q -> Npos (Coq_Pos.add p q))

  (** val sub : n -> n -> n **)

  let sub n0 m =
    match n0 with
    | N0 -> N0
    | Npos n' ->
      (match m with
       | N0 -> n0
       | Npos m' ->
         (match Coq_Pos.sub_mask n' m' with
          | Coq_Pos.IsPos p -> Npos p
          | _ -> N0))

  (** val mul : n -> n -> n **)

  let mul n0 m =
    match n0 with
    | N0 -> N0
    | Npos p -> (match m with
                 | N0 -> N0
                 | Npos q -> Npos (Coq_Pos.mul p q))

  (** val compare : n -> n -> comparison **)

  let compare n0 m =
    match n0 with
    | N0 -> (match m with
             | N0 -> Eq
             | Npos _ -> Lt)
    | Npos n' -> (match m with
                  | N0 -> Gt
                  | Npos m' -> Coq_Pos.compare n' m')

  (** val eqb : n -> n -> bool **)

  let eqb n0 m =
    match n0 with
    | N0 -> (match m with
             | N0 -> true
             | Npos _ -> false)
    | Npos p -> (match m with
                 | N0 -> false
                 | Npos q -> Coq_Pos.eqb p q)

  (** val leb : n -> n -> bool **)

  let leb x y =
    match compare x y with
    | Gt -> false
    | _ -> true

  (** val ltb : n -> n -> bool **)

  let ltb x y =
    match compare x y with
    | Lt -> true
    | _ -> false

  (** val max : n -> n -> n **)

  let max n0 n' =
    match compare n0 n' with
    | Gt -> n0
    | _ -> n'

  (** val div2 : n -> n **)

  let div2 = function
  | N0 -> N0
  | Npos p0 -> (match p0 with
                | XI p -> Npos p
                | XO p -> Npos p
                | XH -> N0)

  (** val coq_lor : n -> n -> n **)

  let coq_lor n0 m =
    match n0 with
    | N0 -> m
    | Npos p -> (match m with
                 | N0 -> n0
                 | Npos q -> Npos (Coq_Pos.coq_lor p q))

  (** val coq_land : n -> n -> n **)

  let coq_land n0 m =
    match n0 with
    | N0 -> N0
    | Npos p -> (match m with
                 | N0 -> N0
                 | Npos q -> Coq_Pos.coq_land p q)

  (** val coq_lxor : n -> n -> n **)

  let coq_lxor n0 m =
    match n0 with
    | N0 -> m
    | Npos p -> (match m with
                 | N0 -> n0
                 | Npos q -> Coq_Pos.coq_lxor p q)

  (** val shiftl : n -> n -> n **)

  let shiftl a n0 =
    match a with
    | N0 -> N0
    | Npos a0 -> Npos (Coq_Pos.shiftl a0 n0)

  (** val shiftr : n -> n -> n **)

  let shiftr a = function
  | N0 -> a
  | Npos p -> Coq_Pos.iter div2 a p

  (** val testbit : n -> n -> bool **)

  let testbit a n0 =
    match a with
    | N0 -> false
    | Npos p -> Coq_Pos.testbit p n0

  (** val to_nat : n -> nat **)

  let to_nat = function
  | N0 -> O
  | Npos p -> Coq_Pos.to_nat p

  (** val of_nat : nat -> n **)

  let of_nat = function
  | O -> N0
  | S n' -> Npos (Coq_Pos.of_succ_nat n')
 end

module Z =
 struct
  (** val double : z -> z **)

  let double = function
  | Z0 -> Z0
  | Zpos p -> Zpos (XO p)
  | Zneg p -> Zneg (XO p)

  (** val succ_double : z -> z **)

  let succ_double = function
  | Z0 -> Zpos XH
  | Zpos p -> Zpos (XI p)
  | Zneg p -> Zneg (Coq_Pos.pred_double p)

  (** val pred_double : z -> z **)

  let pred_double = function
  | Z0 -> Zneg XH
  | Zpos p -> Zpos (Coq_Pos.pred_double p)
  | Zneg p -> Zneg (XI p)

  (** val pos_sub : positive -> positive -> z **)

  let rec pos_sub x y =
    match x with
    | XI p ->
      (match y with
       | XI q -> double (pos_sub p q)
       | XO q -> succ_double (pos_sub p q)
       | XH -> Zpos (XO p))
    | XO p ->
      (match y with
       | XI q -> pred_double (pos_sub p q)
       | XO q -> double (pos_sub p q)
       | XH -> Zpos (Coq_Pos.pred_double p))
    | XH ->
      (match y with
       | XI q -> Zneg (XO q)
       | XO q -> Zneg (Coq_Pos.pred_double q)
       | XH -> Z0)

  (** val add : z -> z -> z **)

  let add x y =
    match x with
    | Z0 -> y
    | Zpos x' ->
      (match y with
       | Z0 -> x
       | Zpos y' -> Zpos (Coq_Pos.add x' y')
       | Zneg y' -> pos_sub x' y')
    | Zneg x' ->
      (match y with
       | Z0 -> x
       | Zpos y' -> pos_sub y' x'
       | Zneg y' -> Zneg (Coq_Pos.add x' y'))

  (** val opp : z -> z **)

  let opp = function
  | Z0 -> Z0
  | Zpos x0 -> Zneg x0
  | Zneg x0 -> Zpos x0

  (** val sub : z -> z -> z **)

  let sub m n0 =
    add m (opp n0)

  (** val mul : z -> z -> z **)

  let mul x y =
    match x with
    | Z0 -> Z0
    | Zpos x' ->
      (match y with
       | Z0 -> Z0
       | Zpos y' -> Zpos (Coq_Pos.mul x' y')
       | Zneg y' -> Zneg (Coq_Pos.mul x' y'))
    | Zneg x' ->
      (match y with
       | Z0 -> Z0
       | Zpos y' -> Zneg (Coq_Pos.mul x' y')
       | Zneg y' -> Zpos (Coq_Pos.mul x' y'))

  (** val compare : z -> z -> comparison **)

  let compare x y =
    match x with
    | Z0 -> (match y with
             | Z0 -> Eq
             | Zpos _ -> Lt
             | Zneg _ -> Gt)
    | Zpos x' -> (match y with
                  | Zpos y' -> Coq_Pos.compare x' y'
                  | _ -> Gt)
    | Zneg x' ->
      (match y with
       | Zneg y' -> compOpp (Coq_Pos.compare x' y')
       | _ -> Lt)

  (** val leb : z -> z -> bool **)

  let leb x y =
    match compare x y with
    | Gt -> false
    | _ -> true

  (** val ltb : z -> z -> bool **)

  let ltb x y =
    match compare x y with
    | Lt -> true
    | _ -> false

  (** val eqb : z -> z -> bool **)

  let eqb x y =
    match x with
    | Z0 -> (match y with
             | Z0 -> true
             | _ -> false)
    | Zpos p -> (match y with
                 | Zpos q -> Coq_Pos.eqb p q
                 | _ -> false)
    | Zneg p -> (match y with
                 | Zneg q -> Coq_Pos.eqb p q
                 | _ -> false)

  (** val min : z -> z -> z **)

  let min n0 m =
    match compare n0 m with
    | Gt -> m
    | _ -> n0

  (** val to_N : z -> n **)

  let to_N = function
  | Zpos p -> Npos p
  | _ -> N0

  (** val div2 : z -> z **)

  let div2 = function
  | Z0 -> Z0
  | Zpos p -> (match p with
               | XH -> Z0
               | _ -> Zpos (Coq_Pos.div2 p))
  | Zneg p -> Zneg (Coq_Pos.div2_up p)

  (** val log2 : z -> z **)

  let log2 = function
  | Zpos p0 ->
    (match p0 with
     | XI p -> Zpos (Coq_Pos.size p)
     | XO p -> Zpos (Coq_Pos.size p)
     | XH -> Z0)
  | _ -> Z0

  (** val shiftl : z -> z -> z **)

  let shiftl a = function
  | Z0 -> a
  | Zpos p -> Coq_Pos.iter (mul (Zpos (XO XH))) a p
  | Zneg p -> Coq_Pos.iter div2 a p

  (** val shiftr : z -> z -> z **)

  let shiftr a n0 =
    shiftl a (opp n0)
 end

type color =
| Red
| Black

(** val color_eqb : color -> color -> bool **)

let color_eqb a b =
  match a with
  | Red -> (match b with
            | Red -> true
            | Black -> false)
  | Black -> (match b with
              | Red -> false
              | Black -> true)

type dir =
| L
| R

type status =
| Ok
| NewRed
| RedRed of dir

type 'ent tree =
| E
| T of color * 'ent tree * n * 'ent * 'ent tree

(** val is_black : 'a1 tree -> bool **)

let is_black = function
| E -> true
| T (c, _, _, _, _) -> (match c with
                        | Red -> false
                        | Black -> true)

(** val is_red_node : 'a1 tree -> bool **)

let is_red_node = function
| E -> false
| T (c, _, _, _, _) -> (match c with
                        | Red -> true
                        | Black -> false)

(** val paint : color -> 'a1 tree -> 'a1 tree **)

let paint c = function
| E -> E
| T (_, l, s, e, r) -> T (c, l, s, e, r)

(** val fix_ins_left :
    color -> 'a1 tree -> n -> 'a1 -> 'a1 tree -> dir -> 'a1 tree * status **)

let fix_ins_left c p gs ge u d2 =
  if is_red_node u
  then ((T (Red, (paint Black p), gs, ge, (paint Black u))), NewRed)
  else (match p with
        | E -> ((T (c, p, gs, ge, u)), Ok)
        | T (pc, pl0, ps, pe, pr) ->
          (match d2 with
           | L -> ((T (Black, pl0, ps, pe, (T (Red, pr, gs, ge, u)))), Ok)
           | R ->
             (match pr with
              | E -> ((T (c, p, gs, ge, u)), Ok)
              | T (_, nl, ns, ne, nr) ->
                ((T (Black, (T (pc, pl0, ps, pe, nl)), ns, ne, (T (Red, nr,
                  gs, ge, u)))), Ok))))

(** val fix_ins_right :
    color -> 'a1 tree -> n -> 'a1 -> 'a1 tree -> dir -> 'a1 tree * status **)

let fix_ins_right c u gs ge p d2 =
  if is_red_node u
  then ((T (Red, (paint Black u), gs, ge, (paint Black p))), NewRed)
  else (match p with
        | E -> ((T (c, u, gs, ge, p)), Ok)
        | T (pc, pl0, ps, pe, pr) ->
          (match d2 with
           | L ->
             (match pl0 with
              | E -> ((T (c, u, gs, ge, p)), Ok)
              | T (_, nl, ns, ne, nr) ->
                ((T (Black, (T (Red, u, gs, ge, nl)), ns, ne, (T (pc, nr, ps,
                  pe, pr)))), Ok))
           | R -> ((T (Black, (T (Red, u, gs, ge, pl0)), ps, pe, pr)), Ok)))

(** val up_left :
    color -> 'a1 tree -> n -> 'a1 -> 'a1 tree -> status -> 'a1 tree * status **)

let up_left c l' s e r = function
| Ok -> ((T (c, l', s, e, r)), Ok)
| NewRed ->
  (match c with
   | Red -> ((T (c, l', s, e, r)), (RedRed L))
   | Black -> ((T (c, l', s, e, r)), Ok))
| RedRed d2 -> fix_ins_left c l' s e r d2

(** val up_right :
    color -> 'a1 tree -> n -> 'a1 -> 'a1 tree -> status -> 'a1 tree * status **)

let up_right c l s e r' = function
| Ok -> ((T (c, l, s, e, r')), Ok)
| NewRed ->
  (match c with
   | Red -> ((T (c, l, s, e, r')), (RedRed R))
   | Black -> ((T (c, l, s, e, r')), Ok))
| RedRed d2 -> fix_ins_right c l s e r' d2

(** val ins : ('a1 -> z) -> 'a1 tree -> n -> 'a1 -> 'a1 tree * status **)

let rec ins key_of t ns ne =
  match t with
  | E -> ((T (Red, E, ns, ne, E)), NewRed)
  | T (c, l, s, e, r) ->
    if Z.ltb (key_of ne) (key_of e)
    then let (l', st) = ins key_of l ns ne in up_left c l' s e r st
    else let (r', st) = ins key_of r ns ne in up_right c l s e r' st

(** val finish_insert : ('a1 tree * status) -> 'a1 tree **)

let finish_insert ts =
  match snd ts with
  | RedRed _ -> paint Black (fst ts)
  | _ -> fst ts

(** val insert_tree : ('a1 -> z) -> 'a1 tree -> n -> 'a1 -> 'a1 tree **)

let insert_tree key_of t ns ne =
  match t with
  | E -> T (Black, E, ns, ne, E)
  | T (_, _, _, _, _) -> finish_insert (ins key_of t ns ne)

(** val fixL36 :
    color -> 'a1 tree -> n -> 'a1 -> 'a1 tree -> ('a1 tree * bool) option **)

let fixL36 c l s e = function
| E -> None
| T (_, sl, ss, se, sr) ->
  if (&&) (is_black sl) (is_black sr)
  then Some ((T (Black, l, s, e, (T (Red, sl, ss, se, sr)))),
         (color_eqb c Black))
  else if is_black sr
       then (match sl with
             | E -> None
             | T (_, sll, sls, sle, slr) ->
               Some ((T (c, (T (Black, l, s, e, sll)), sls, sle, (T (Black,
                 slr, ss, se, sr)))), false))
       else Some ((T (c, (T (Black, l, s, e, sl)), ss, se,
              (paint Black sr))), false)

(** val fixL :
    color -> 'a1 tree -> n -> 'a1 -> 'a1 tree -> ('a1 tree * bool) option **)

let fixL c l s e r = match r with
| E -> None
| T (c0, sl, ss, se, sr) ->
  (match c0 with
   | Red ->
     (match fixL36 Red l s e sl with
      | Some p ->
        let (inner, d) = p in Some ((T (Black, inner, ss, se, sr)), d)
      | None -> None)
   | Black -> fixL36 c l s e r)

(** val fixR36 :
    color -> 'a1 tree -> n -> 'a1 -> 'a1 tree -> ('a1 tree * bool) option **)

let fixR36 c l s e r =
  match l with
  | E -> None
  | T (_, sl, ss, se, sr) ->
    if (&&) (is_black sl) (is_black sr)
    then Some ((T (Black, (T (Red, sl, ss, se, sr)), s, e, r)),
           (color_eqb c Black))
    else if is_black sl
         then (match sr with
               | E -> None
               | T (_, srl, srs, sre, srr) ->
                 Some ((T (c, (T (Black, sl, ss, se, srl)), srs, sre, (T
                   (Black, srr, s, e, r)))), false))
         else Some ((T (c, (paint Black sl), ss, se, (T (Black, sr, s, e,
                r)))), false)

(** val fixR :
    color -> 'a1 tree -> n -> 'a1 -> 'a1 tree -> ('a1 tree * bool) option **)

let fixR c l s e r =
  match l with
  | E -> None
  | T (c0, sl, ss, se, sr) ->
    (match c0 with
     | Red ->
       (match fixR36 Red sr s e r with
        | Some p ->
          let (inner, d) = p in Some ((T (Black, sl, ss, se, inner)), d)
        | None -> None)
     | Black -> fixR36 c l s e r)

(** val del_min : 'a1 tree -> ((('a1 tree * bool) * n) * 'a1) option **)

let rec del_min = function
| E -> None
| T (c, l, s, e, r) ->
  (match l with
   | E ->
     (match r with
      | E -> Some (((E, (color_eqb c Black)), s), e)
      | T (_, _, _, _, _) -> Some (((r, true), s), e))
   | T (_, _, _, _, _) ->
     (match del_min l with
      | Some p ->
        let (p0, me) = p in
        let (p1, ms) = p0 in
        let (l', d) = p1 in
        if d
        then (match fixL c l' s e r with
              | Some p2 -> Some ((p2, ms), me)
              | None -> None)
        else Some ((((T (c, l', s, e, r)), false), ms), me)
      | None -> None))

type 'ent dres =
| NotFound
| Stuck
| Done of 'ent tree * bool * n

(** val del : 'a1 tree -> n -> 'a1 dres **)

let rec del t x =
  match t with
  | E -> NotFound
  | T (c, l, s, e, r) ->
    if N.eqb s x
    then (match l with
          | E ->
            (match r with
             | E -> Done (E, (color_eqb c Black), s)
             | T (_, _, _, _, _) -> Done (r, true, s))
          | T (_, _, _, _, _) ->
            (match r with
             | E -> Done (l, true, s)
             | T (_, _, _, _, _) ->
               (match del_min r with
                | Some p ->
                  let (p0, me) = p in
                  let (p1, ms) = p0 in
                  let (r', d) = p1 in
                  if d
                  then (match fixR c l s me r' with
                        | Some p2 -> let (t', d') = p2 in Done (t', d', ms)
                        | None -> Stuck)
                  else Done ((T (c, l, s, me, r')), false, ms)
                | None -> Stuck)))
    else (match del l x with
          | NotFound ->
            (match del r x with
             | Done (r', d, f) ->
               if d
               then (match fixR c l s e r' with
                     | Some p -> let (t', d') = p in Done (t', d', f)
                     | None -> Stuck)
               else Done ((T (c, l, s, e, r')), false, f)
             | x0 -> x0)
          | Stuck -> Stuck
          | Done (l', d, f) ->
            if d
            then (match fixL c l' s e r with
                  | Some p -> let (t', d') = p in Done (t', d', f)
                  | None -> Stuck)
            else Done ((T (c, l', s, e, r)), false, f))

(** val elements : 'a1 tree -> (n * 'a1) list **)

let rec elements = function
| E -> []
| T (_, l, s, e, r) -> app (elements l) ((s, e) :: (elements r))

(** val slots : 'a1 tree -> n list **)

let slots t =
  map fst (elements t)

(** val ents : 'a1 tree -> 'a1 list **)

let ents t =
  map snd (elements t)

(** val keys : ('a1 -> z) -> 'a1 tree -> z list **)

let keys key_of t =
  map (fun p -> key_of (snd p)) (elements t)

(** val size0 : 'a1 tree -> nat **)

let rec size0 = function
| E -> O
| T (_, l, _, _, r) -> S (add (size0 l) (size0 r))

(** val height : 'a1 tree -> nat **)

let rec height = function
| E -> O
| T (_, l, _, _, r) -> S (Nat.max (height l) (height r))

(** val sub0 : 'a1 tree -> n -> 'a1 tree option **)

let rec sub0 t x =
  match t with
  | E -> None
  | T (_, l, s, _, r) ->
    if N.eqb s x
    then Some t
    else (match sub0 l x with
          | Some u -> Some u
          | None -> sub0 r x)

(** val ent_at : 'a1 tree -> n -> 'a1 option **)

let ent_at t x =
  match sub0 t x with
  | Some t0 -> (match t0 with
                | E -> None
                | T (_, _, _, e, _) -> Some e)
  | None -> None

(** val set_at : 'a1 tree -> n -> 'a1 -> 'a1 tree **)

let rec set_at t x ne =
  match t with
  | E -> E
  | T (c, l, s, e, r) ->
    if N.eqb s x
    then T (c, l, s, ne, r)
    else T (c, (set_at l x ne), s, e, (set_at r x ne))

(** val root_slots : 'a1 tree -> n list **)

let root_slots = function
| E -> []
| T (_, _, s, _, _) -> s :: []

(** val children : 'a1 tree -> 'a1 tree list **)

let children = function
| E -> []
| T (_, l, _, _, r) ->
  app (match l with
       | E -> []
       | T (_, _, _, _, _) -> l :: [])
    (match r with
     | E -> []
     | T (_, _, _, _, _) -> r :: [])

(** val bfs : nat -> 'a1 tree list -> n list **)

let rec bfs fuel level =
  match fuel with
  | O -> []
  | S f ->
    (match level with
     | [] -> []
     | _ :: _ ->
       app (flat_map root_slots level) (bfs f (flat_map children level)))

(** val level_order : 'a1 tree -> n list **)

let level_order t =
  bfs (S (height t)) (t :: [])

(** val find_slot : ('a1 -> z) -> 'a1 tree -> z -> n option **)

let rec find_slot key_of t k =
  match t with
  | E -> None
  | T (_, l, s, e, r) ->
    (match Z.compare k (key_of e) with
     | Eq -> Some s
     | Lt -> find_slot key_of l k
     | Gt -> find_slot key_of r k)

(** val first_by :
    ('a1 -> z) -> 'a1 tree -> (z -> comparison) -> n option -> n option **)

let rec first_by key_of t f res0 =
  match t with
  | E -> res0
  | T (_, l, s, e, r) ->
    (match f (key_of e) with
     | Eq -> Some s
     | Lt -> first_by key_of r f (Some s)
     | Gt -> first_by key_of l f res0)

(** val leftmost : 'a1 tree -> n option -> n option **)

let rec leftmost t dflt =
  match t with
  | E -> dflt
  | T (_, l, s, _, _) -> leftmost l (Some s)

(** val rightmost : 'a1 tree -> n option -> n option **)

let rec rightmost t dflt =
  match t with
  | E -> dflt
  | T (_, _, s, _, r) -> rightmost r (Some s)

(** val after_in : 'a1 tree -> n -> n option -> n option option **)

let rec after_in t x anc =
  match t with
  | E -> None
  | T (_, l, s, _, r) ->
    if N.eqb s x
    then Some (leftmost r anc)
    else (match after_in l x (Some s) with
          | Some a -> Some a
          | None -> after_in r x anc)

(** val before_in : 'a1 tree -> n -> n option -> n option option **)

let rec before_in t x anc =
  match t with
  | E -> None
  | T (_, l, s, _, r) ->
    if N.eqb s x
    then Some (rightmost l anc)
    else (match before_in l x anc with
          | Some a -> Some a
          | None -> before_in r x (Some s))

type pool = { blen : n; unused : n list; ucap : n }

(** val range : n -> nat -> n list **)

let rec range a = function
| O -> []
| S n' -> a :: (range (N.add a (Npos XH)) n')

(** val pool_new : n -> pool **)

let pool_new capacity =
  let c = N.max capacity (Npos (XO (XO (XO XH)))) in
  { blen = c; unused = (range N0 (N.to_nat c)); ucap = c }

(** val pool_get : pool -> (n * pool) option **)

let pool_get p =
  match p.unused with
  | [] ->
    if N.eqb p.ucap N0
    then None
    else Some (p.blen, { blen = (N.add p.blen p.ucap); unused =
           (range (N.add p.blen (Npos XH)) (sub (N.to_nat p.ucap) (S O)));
           ucap = p.ucap })
  | x :: rest0 -> Some (x, { blen = p.blen; unused = rest0; ucap = p.ucap })

(** val pool_put : pool -> n -> pool **)

let pool_put p i =
  let len = N.of_nat (length p.unused) in
  { blen = p.blen; unused = (i :: p.unused); ucap =
  (if N.eqb len p.ucap then N.mul (Npos (XO XH)) p.ucap else p.ucap) }

type ment = z * z

(** val mkey : ment -> z **)

let mkey =
  fst

type mstate = { root : ment tree; pl : pool }

(** val tree_pool_new : n -> pool **)

let tree_pool_new cap =
  let p = pool_new cap in
  (match pool_get p with
   | Some p0 -> let (_, p') = p0 in p'
   | None -> p)

(** val m_new : n -> mstate **)

let m_new cap =
  { root = E; pl = (tree_pool_new cap) }

(** val m_insert : mstate -> z -> z -> mstate res **)

let m_insert s k v =
  match pool_get s.pl with
  | Some p ->
    let (i, p') = p in
    Ret { root = (insert_tree mkey s.root i (k, v)); pl = p' }
  | None -> Err ErrPool

(** val m_delete_at : mstate -> n -> mstate res **)

let m_delete_at s x =
  match del s.root x with
  | NotFound -> Err ErrHandle
  | Stuck -> Err ErrStuck
  | Done (t', _, f) -> Ret { root = t'; pl = (pool_put s.pl f) }

(** val m_delete : mstate -> z -> mstate res **)

let m_delete s k =
  match find_slot mkey s.root k with
  | Some x -> m_delete_at s x
  | None -> Ret s

(** val m_get : mstate -> z -> ment option **)

let m_get s k =
  match find_slot mkey s.root k with
  | Some x -> ent_at s.root x
  | None -> None

(** val m_is_empty : mstate -> bool **)

let m_is_empty s =
  match s.root with
  | E -> true
  | T (_, _, _, _, _) -> false

(** val m_first_by : mstate -> (z -> comparison) -> n option **)

let m_first_by s f =
  first_by mkey s.root f None

(** val cmp_to : z -> z -> comparison **)

let cmp_to k stored =
  Z.compare stored k

(** val m_first : mstate -> z -> n option **)

let m_first s k =
  m_first_by s (cmp_to k)

(** val m_value_at : mstate -> n -> ment res **)

let m_value_at s h =
  match ent_at s.root h with
  | Some e -> Ret e
  | None -> Err ErrHandle

(** val m_set_at : mstate -> n -> z -> mstate res **)

let m_set_at s h v =
  match ent_at s.root h with
  | Some e -> Ret { root = (set_at s.root h ((fst e), v)); pl = s.pl }
  | None -> Err ErrHandle

(** val m_after : mstate -> n -> n option res **)

let m_after s h =
  match after_in s.root h None with
  | Some a -> Ret a
  | None -> Err ErrHandle

(** val m_before : mstate -> n -> n option res **)

let m_before s h =
  match before_in s.root h None with
  | Some a -> Ret a
  | None -> Err ErrHandle

(** val m_clear : mstate -> mstate **)

let m_clear s =
  { root = E; pl = (fold_left pool_put (level_order s.root) s.pl) }

type mop =
| MIns of z * z
| MDel of z
| MDelAt of n
| MGet of z
| MIsEmpty
| MFirst of z
| MFirstBy of (z -> comparison)
| MValAt of n
| MSetAt of n * z
| MAfter of n
| MBefore of n
| MClear

type mout =
| ONone
| OEnt of ment option
| OBool of bool
| OHandle of n option

(** val m_step : mstate -> mop -> (mstate * mout) res **)

let m_step s = function
| MIns (k, v) -> bind (m_insert s k v) (fun s' -> Ret (s', ONone))
| MDel k -> bind (m_delete s k) (fun s' -> Ret (s', ONone))
| MDelAt h -> bind (m_delete_at s h) (fun s' -> Ret (s', ONone))
| MGet k -> Ret (s, (OEnt (m_get s k)))
| MIsEmpty -> Ret (s, (OBool (m_is_empty s)))
| MFirst k -> Ret (s, (OHandle (m_first s k)))
| MFirstBy f -> Ret (s, (OHandle (m_first_by s f)))
| MValAt h -> bind (m_value_at s h) (fun e -> Ret (s, (OEnt (Some e))))
| MSetAt (h, v) -> bind (m_set_at s h v) (fun s' -> Ret (s', ONone))
| MAfter h -> bind (m_after s h) (fun a -> Ret (s, (OHandle a)))
| MBefore h -> bind (m_before s h) (fun a -> Ret (s, (OHandle a)))
| MClear -> Ret ((m_clear s), ONone)

(** val m_run : mstate -> mop list -> (mstate * mout list) res **)

let rec m_run s = function
| [] -> Ret (s, [])
| o :: h' ->
  bind (m_step s o) (fun so ->
    bind (m_run (fst so) h') (fun sr -> Ret ((fst sr),
      ((snd so) :: (snd sr)))))

type kent = { kk : z; kexp : z; kval : z }

(** val live : z -> kent -> bool **)

let live time e =
  Z.ltb time e.kexp

type kstate = { kroot : kent tree; kpl : pool }

type evkind =
| EvExp
| EvCmp

type event = (evkind * kent) * kstate

(** val k_new : n -> kstate **)

let k_new cap =
  { kroot = E; kpl = (tree_pool_new cap) }

(** val kdelete : kstate -> n -> kstate res **)

let kdelete s x =
  match del s.kroot x with
  | NotFound -> Err ErrHandle
  | Stuck -> Err ErrStuck
  | Done (t', _, f) -> Ret { kroot = t'; kpl = (pool_put s.kpl f) }

(** val ksize : kstate -> nat **)

let ksize s =
  size0 s.kroot

(** val expire_root : nat -> kstate -> z -> (kstate * event list) res **)

let rec expire_root fuel s time =
  match s.kroot with
  | E -> Ret (s, [])
  | T (_, _, x, e, _) ->
    let ev = ((EvExp, e), s) in
    if live time e
    then Ret (s, (ev :: []))
    else (match fuel with
          | O -> Err ErrFuel
          | S f ->
            bind (kdelete s x) (fun s' ->
              bind (expire_root f s' time) (fun r -> Ret ((fst r),
                (ev :: (snd r))))))

(** val child : dir -> kent tree -> n -> kent tree option **)

let child d t x =
  match sub0 t x with
  | Some t0 ->
    (match t0 with
     | E -> None
     | T (_, l, _, _, r) -> Some (match d with
                                  | L -> l
                                  | R -> r))
  | None -> None

(** val expire_child :
    nat -> dir -> kstate -> n -> z -> ((kstate * n option) * event list) res **)

let rec expire_child fuel d s x time =
  match child d s.kroot x with
  | Some t ->
    (match t with
     | E -> Ret ((s, None), [])
     | T (_, _, y, e, _) ->
       let ev = ((EvExp, e), s) in
       if live time e
       then Ret ((s, (Some y)), (ev :: []))
       else (match fuel with
             | O -> Err ErrFuel
             | S f ->
               bind (kdelete s y) (fun s' ->
                 bind (expire_child f d s' x time) (fun r -> Ret
                   (((fst (fst r)), (snd (fst r))), (ev :: (snd r)))))))
  | None -> Err ErrHandle

type qkind =
| QLess
| QLessEq
| QGet

(** val search :
    nat -> qkind -> (z -> comparison) -> kstate -> n -> z -> z option ->
    ((kstate * z option) * event list) res **)

let rec search fuel q f s x time res0 =
  match fuel with
  | O -> Err ErrFuel
  | S fu ->
    (match ent_at s.kroot x with
     | Some e ->
       let ev = ((EvCmp, e), s) in
       let go = fun d res' ->
         bind (expire_child (ksize s) d s x time) (fun r ->
           match snd (fst r) with
           | Some y ->
             bind (search fu q f (fst (fst r)) y time res') (fun r2 -> Ret
               (((fst (fst r2)), (snd (fst r2))),
               (ev :: (app (snd r) (snd r2)))))
           | None -> Ret (((fst (fst r)), res'), (ev :: (snd r))))
       in
       (match q with
        | QLess ->
          (match f e.kk with
           | Lt -> go R (Some e.kval)
           | _ -> go L res0)
        | QLessEq ->
          (match f e.kk with
           | Eq -> Ret ((s, (Some e.kval)), (ev :: []))
           | Lt -> go R (Some e.kval)
           | Gt -> go L res0)
        | QGet ->
          (match f e.kk with
           | Eq -> Ret ((s, (Some e.kval)), (ev :: []))
           | Lt -> go R res0
           | Gt -> go L res0))
     | None -> Err ErrHandle)

(** val k_query :
    qkind -> (z -> comparison) -> kstate -> z -> ((kstate * z option) * event
    list) res **)

let k_query q f s time =
  bind (expire_root (ksize s) s time) (fun r1 ->
    let s1 = fst r1 in
    (match s1.kroot with
     | E -> Ret ((s1, None), (snd r1))
     | T (_, _, x, _, _) ->
       bind (search (S (ksize s1)) q f s1 x time None) (fun r2 -> Ret
         (((fst (fst r2)), (snd (fst r2))), (app (snd r1) (snd r2))))))

(** val k_first_less :
    kstate -> z -> z -> ((kstate * z option) * event list) res **)

let k_first_less s time key =
  k_query QLess (cmp_to key) s time

(** val k_first_less_or_equal :
    kstate -> z -> z -> ((kstate * z option) * event list) res **)

let k_first_less_or_equal s time key =
  k_query QLessEq (cmp_to key) s time

(** val k_first_less_or_equal_by :
    kstate -> z -> (z -> comparison) -> ((kstate * z option) * event list) res **)

let k_first_less_or_equal_by s time f =
  k_query QLessEq f s time

(** val k_get_value :
    kstate -> z -> z -> ((kstate * z option) * event list) res **)

let k_get_value s time key =
  k_query QGet (cmp_to key) s time

(** val ins_descend :
    nat -> kstate -> n -> z -> kent -> (kstate * event list) res **)

let rec ins_descend fuel s x time ne =
  match fuel with
  | O -> Err ErrFuel
  | S fu ->
    (match ent_at s.kroot x with
     | Some e ->
       let ev = ((EvCmp, e), s) in
       let d = if Z.ltb ne.kk e.kk then L else R in
       bind (expire_child (ksize s) d s x time) (fun r ->
         match snd (fst r) with
         | Some y ->
           bind (ins_descend fu (fst (fst r)) y time ne) (fun r2 -> Ret
             ((fst r2), (ev :: (app (snd r) (snd r2)))))
         | None -> Ret ((fst (fst r)), (ev :: (snd r))))
     | None -> Err ErrHandle)

(** val k_link : kstate -> kent -> kstate res **)

let k_link s ne =
  match pool_get s.kpl with
  | Some p ->
    let (i, p') = p in
    Ret { kroot = (insert_tree (fun k -> k.kk) s.kroot i ne); kpl = p' }
  | None -> Err ErrPool

(** val k_insert : kstate -> kent -> z -> (kstate * event list) res **)

let k_insert s ne time =
  bind (expire_root (ksize s) s time) (fun r1 ->
    let s1 = fst r1 in
    (match s1.kroot with
     | E -> bind (k_link s1 ne) (fun s2 -> Ret (s2, (snd r1)))
     | T (_, _, x, _, _) ->
       bind (ins_descend (S (ksize s1)) s1 x time ne) (fun r2 ->
         bind (k_link (fst r2) ne) (fun s3 -> Ret (s3,
           (app (snd r1) (snd r2)))))))

(** val k_is_empty : kstate -> bool **)

let k_is_empty s =
  match s.kroot with
  | E -> true
  | T (_, _, _, _, _) -> false

(** val k_clear : kstate -> kstate **)

let k_clear s =
  { kroot = E; kpl = (fold_left pool_put (level_order s.kroot) s.kpl) }

(** val k_export : kstate -> z -> z list **)

let k_export s time =
  map (fun k -> k.kval) (filter (live time) (ents s.kroot))

(** val k_export_capacity : kstate -> n **)

let k_export_capacity s =
  N.of_nat (ksize s)

(** val left_black_below : kent tree -> n **)

let rec left_black_below = function
| E -> N0
| T (_, l, _, _, _) ->
  N.add
    (match l with
     | E -> N0
     | T (c0, _, _, _, _) -> (match c0 with
                              | Red -> N0
                              | Black -> Npos XH)) (left_black_below l)

(** val old_height : kent tree -> n **)

let old_height t = match t with
| E -> N0
| T (_, _, _, _, _) ->
  N.mul (Npos (XO XH)) (N.add (Npos XH) (left_black_below t))

(** val old_export_capacity : kent tree -> n **)

let old_export_capacity t =
  N.shiftl (Npos (XO (XO (XO XH)))) (old_height t)

type kop =
| KIns of z * z * z * z
| KLess of z * z
| KLessEq of z * z
| KLessEqBy of z * (z -> comparison)
| KGet of z * z
| KIsEmpty
| KClear
| KExport of z

type kout =
| KONone
| KOVal of z option
| KOBool of bool
| KOList of z list

(** val k_step : kstate -> kop -> ((kstate * kout) * event list) res **)

let k_step s o =
  let q = fun r ->
    bind r (fun x -> Ret (((fst (fst x)), (KOVal (snd (fst x)))), (snd x)))
  in
  (match o with
   | KIns (k, e, v, time) ->
     bind (k_insert s { kk = k; kexp = e; kval = v } time) (fun r -> Ret
       (((fst r), KONone), (snd r)))
   | KLess (time, key) -> q (k_first_less s time key)
   | KLessEq (time, key) -> q (k_first_less_or_equal s time key)
   | KLessEqBy (time, f) -> q (k_first_less_or_equal_by s time f)
   | KGet (time, key) -> q (k_get_value s time key)
   | KIsEmpty -> Ret ((s, (KOBool (k_is_empty s))), [])
   | KClear -> Ret (((k_clear s), KONone), [])
   | KExport time -> Ret ((s, (KOList (k_export s time))), []))

(** val k_run : kstate -> kop list -> (kstate * kout list) res **)

let rec k_run s = function
| [] -> Ret (s, [])
| o :: h' ->
  bind (k_step s o) (fun so ->
    bind (k_run (fst (fst so)) h') (fun sr -> Ret ((fst sr),
      ((snd (fst so)) :: (snd sr)))))

(** val bsearch :
    ('a1 -> z) -> (z -> comparison) -> 'a1 list -> bool * nat **)

let rec bsearch key_of f = function
| [] -> (false, O)
| x :: l' ->
  (match f (key_of x) with
   | Eq -> (true, O)
   | Lt -> let (b, i) = bsearch key_of f l' in (b, (S i))
   | Gt -> (false, O))

(** val insert_at : 'a1 list -> nat -> 'a1 -> 'a1 list **)

let rec insert_at l i x =
  match i with
  | O -> x :: l
  | S j -> (match l with
            | [] -> x :: []
            | y :: l' -> y :: (insert_at l' j x))

(** val remove_at : 'a1 list -> nat -> 'a1 list **)

let rec remove_at l i =
  match l with
  | [] -> []
  | y :: l' -> (match i with
                | O -> l'
                | S j -> y :: (remove_at l' j))

(** val update_at : 'a1 list -> nat -> ('a1 -> 'a1) -> 'a1 list **)

let rec update_at l i g =
  match l with
  | [] -> []
  | y :: l' ->
    (match i with
     | O -> (g y) :: l'
     | S j -> y :: (update_at l' j g))

(** val l_insert : ('a1 -> z) -> 'a1 list -> 'a1 -> 'a1 list **)

let l_insert key_of l x =
  insert_at l (snd (bsearch key_of (cmp_to (key_of x)) l)) x

(** val l_delete : ('a1 -> z) -> 'a1 list -> z -> 'a1 list **)

let l_delete key_of l k =
  let (b, i) = bsearch key_of (cmp_to k) l in if b then remove_at l i else l

(** val l_get : ('a1 -> z) -> 'a1 list -> z -> 'a1 option **)

let l_get key_of l k =
  let (b, i) = bsearch key_of (cmp_to k) l in
  if b then nth_error l i else None

(** val l_first_by :
    ('a1 -> z) -> 'a1 list -> (z -> comparison) -> nat option **)

let l_first_by key_of l f =
  let (b, i) = bsearch key_of f l in
  if b then Some i else (match i with
                         | O -> None
                         | S j -> Some j)

type lstate = ment list

(** val ml_delete_at : lstate -> n -> lstate res **)

let ml_delete_at l h =
  if Nat.ltb (N.to_nat h) (length l)
  then Ret (remove_at l (N.to_nat h))
  else Err ErrIndex

(** val ml_value_at : lstate -> n -> ment res **)

let ml_value_at l h =
  match nth_error l (N.to_nat h) with
  | Some e -> Ret e
  | None -> Err ErrIndex

(** val ml_set_at : lstate -> n -> z -> lstate res **)

let ml_set_at l h v =
  if Nat.ltb (N.to_nat h) (length l)
  then Ret (update_at l (N.to_nat h) (fun e -> ((fst e), v)))
  else Err ErrIndex

(** val ml_after : lstate -> n -> n option res **)

let ml_after l h =
  if Nat.ltb (N.to_nat h) (length l)
  then Ret
         (if Nat.ltb (S (N.to_nat h)) (length l)
          then Some (N.add h (Npos XH))
          else None)
  else Err ErrIndex

(** val ml_before : lstate -> n -> n option res **)

let ml_before l h =
  if Nat.ltb (N.to_nat h) (length l)
  then Ret (if N.eqb h N0 then None else Some (N.sub h (Npos XH)))
  else Err ErrIndex

(** val ml_step : lstate -> mop -> (lstate * mout) res **)

let ml_step l = function
| MIns (k, v) -> Ret ((l_insert mkey l (k, v)), ONone)
| MDel k -> Ret ((l_delete mkey l k), ONone)
| MDelAt h -> bind (ml_delete_at l h) (fun l' -> Ret (l', ONone))
| MGet k -> Ret (l, (OEnt (l_get mkey l k)))
| MIsEmpty -> Ret (l, (OBool (match l with
                              | [] -> true
                              | _ :: _ -> false)))
| MFirst k ->
  Ret (l, (OHandle (option_map N.of_nat (l_first_by mkey l (cmp_to k)))))
| MFirstBy f -> Ret (l, (OHandle (option_map N.of_nat (l_first_by mkey l f))))
| MValAt h -> bind (ml_value_at l h) (fun e -> Ret (l, (OEnt (Some e))))
| MSetAt (h, v) -> bind (ml_set_at l h v) (fun l' -> Ret (l', ONone))
| MAfter h -> bind (ml_after l h) (fun a -> Ret (l, (OHandle a)))
| MBefore h -> bind (ml_before l h) (fun a -> Ret (l, (OHandle a)))
| MClear -> Ret ([], ONone)

(** val ml_run : lstate -> mop list -> (lstate * mout list) res **)

let rec ml_run l = function
| [] -> Ret (l, [])
| o :: h' ->
  bind (ml_step l o) (fun so ->
    bind (ml_run (fst so) h') (fun sr -> Ret ((fst sr),
      ((snd so) :: (snd sr)))))

type klstate = { kbuf : kent list; kmin : z }

(** val kl_new : z -> klstate **)

let kl_new max_exp =
  { kbuf = []; kmin = max_exp }

(** val kl_clear_expired : z -> klstate -> z -> klstate **)

let kl_clear_expired max_exp s time =
  if Z.ltb time s.kmin
  then s
  else let b = filter (live time) s.kbuf in
       { kbuf = b; kmin = (fold_left (fun m e -> Z.min m e.kexp) b max_exp) }

(** val kl_insert : z -> klstate -> kent -> z -> klstate **)

let kl_insert max_exp s ne time =
  let s1 = kl_clear_expired max_exp s time in
  { kbuf = (l_insert (fun k -> k.kk) s1.kbuf ne); kmin =
  (Z.min s1.kmin ne.kexp) }

(** val kl_get : z -> klstate -> z -> z -> klstate * z option **)

let kl_get max_exp s time key =
  let s1 = kl_clear_expired max_exp s time in
  (s1, (option_map (fun k -> k.kval) (l_get (fun k -> k.kk) s1.kbuf key)))

(** val kl_first_less : z -> klstate -> z -> z -> klstate * z option **)

let kl_first_less max_exp s time key =
  let s1 = kl_clear_expired max_exp s time in
  let i = snd (bsearch (fun k -> k.kk) (cmp_to key) s1.kbuf) in
  (s1,
  (match i with
   | O -> None
   | S j -> option_map (fun k -> k.kval) (nth_error s1.kbuf j)))

(** val kl_first_less_or_equal_by :
    z -> klstate -> z -> (z -> comparison) -> klstate * z option **)

let kl_first_less_or_equal_by max_exp s time f =
  let s1 = kl_clear_expired max_exp s time in
  (s1,
  (match l_first_by (fun k -> k.kk) s1.kbuf f with
   | Some i -> option_map (fun k -> k.kval) (nth_error s1.kbuf i)
   | None -> None))

(** val kl_export : z -> klstate -> z -> z list **)

let kl_export max_exp s time =
  map (fun k -> k.kval) (kl_clear_expired max_exp s time).kbuf

(** val kl_step : z -> klstate -> kop -> klstate * kout **)

let kl_step max_exp s = function
| KIns (k, e, v, time) ->
  ((kl_insert max_exp s { kk = k; kexp = e; kval = v } time), KONone)
| KLess (time, key) ->
  let (s', r) = kl_first_less max_exp s time key in (s', (KOVal r))
| KLessEq (time, key) ->
  let (s', r) = kl_first_less_or_equal_by max_exp s time (cmp_to key) in
  (s', (KOVal r))
| KLessEqBy (time, f) ->
  let (s', r) = kl_first_less_or_equal_by max_exp s time f in (s', (KOVal r))
| KGet (time, key) ->
  let (s', r) = kl_get max_exp s time key in (s', (KOVal r))
| KIsEmpty -> (s, (KOBool (match s.kbuf with
                           | [] -> true
                           | _ :: _ -> false)))
| KClear -> ((kl_new max_exp), KONone)
| KExport time -> (s, (KOList (kl_export max_exp s time)))

(** val kl_run : z -> klstate -> kop list -> klstate * kout list **)

let rec kl_run max_exp s = function
| [] -> (s, [])
| o :: h' ->
  let (s1, out) = kl_step max_exp s o in
  let (s2, outs) = kl_run max_exp s1 h' in (s2, (out :: outs))

(** val fill : n -> n -> n **)

let fill start end_ =
  N.shiftl
    (N.sub (N.shiftl (Npos XH) (N.add (N.sub end_ start) (Npos XH))) (Npos
      XH)) start

(** val order_to_heap_index : n -> n **)

let order_to_heap_index o =
  N.add o (Npos (XI (XI (XI (XI XH)))))

(** val fill_mask : n -> n -> n **)

let fill_mask s e =
  fill (order_to_heap_index s) (order_to_heap_index e)

(** val bit : n -> n -> n **)

let bit w i =
  N.coq_land (N.shiftr w i) (Npos XH)

(** val visit_inner : nat -> n -> n -> n **)

let rec visit_inner cnt lt w =
  match cnt with
  | O -> w
  | S c ->
    let rt = N.add lt (Npos XH) in
    let pt = N.shiftr lt (Npos XH) in
    let pb = N.coq_lor (bit w lt) (bit w rt) in
    visit_inner c (N.add lt (Npos (XO XH))) (N.coq_lor w (N.shiftl pb pt))

(** val visit_outer : nat -> n -> n -> n **)

let rec visit_outer lv shift w =
  match lv with
  | O -> w
  | S l ->
    let lt = N.sub shift (Npos XH) in
    let shift' = N.shiftr shift (Npos XH) in
    visit_outer l shift' (visit_inner (N.to_nat shift') lt w)

(** val visit_mask : n -> n -> n **)

let visit_mask s e =
  visit_outer (S (S (S (S (S (S O)))))) (Npos (XO (XO (XO (XO (XO XH))))))
    (fill_mask s e)

(** val place_inner : nat -> n -> (n * n) -> n * n **)

let rec place_inner cnt lt wm =
  match cnt with
  | O -> wm
  | S c ->
    let (w, m) = wm in
    let rt = N.add lt (Npos XH) in
    let pt = N.shiftr lt (Npos XH) in
    let lb = bit w lt in
    let rb = bit w rt in
    let pb = N.coq_land lb rb in
    let w' = N.coq_lor w (N.shiftl pb pt) in
    let m' =
      N.coq_lor (N.coq_lor m (N.shiftl (N.coq_lxor lb pb) lt))
        (N.shiftl (N.coq_lxor rb pb) rt)
    in
    place_inner c (N.add lt (Npos (XO XH))) (w', m')

(** val place_outer : nat -> n -> (n * n) -> n * n **)

let rec place_outer lv shift wm =
  match lv with
  | O -> wm
  | S l ->
    let lt = N.sub shift (Npos XH) in
    let shift' = N.shiftr shift (Npos XH) in
    place_outer l shift' (place_inner (N.to_nat shift') lt wm)

(** val place_mask : n -> n -> n **)

let place_mask s e =
  if N.eqb (N.sub e s) (Npos (XI (XI (XI (XI XH)))))
  then Npos XH
  else snd
         (place_outer (S (S (S (S (S (S O)))))) (Npos (XO (XO (XO (XO (XO
           XH)))))) ((fill_mask s e), N0))

(** val bits_from : nat -> n -> n -> n list **)

let rec bits_from fuel i w =
  match fuel with
  | O -> []
  | S f ->
    if N.testbit w i
    then i :: (bits_from f (N.add i (Npos XH)) w)
    else bits_from f (N.add i (Npos XH)) w

(** val bits : n -> n list **)

let bits w =
  bits_from (S (S (S (S (S (S (S (S (S (S (S (S (S (S (S (S (S (S (S (S (S (S
    (S (S (S (S (S (S (S (S (S (S (S (S (S (S (S (S (S (S (S (S (S (S (S (S
    (S (S (S (S (S (S (S (S (S (S (S (S (S (S (S (S (S (S
    O)))))))))))))))))))))))))))))))))))))))))))))))))))))))))))))))) N0 w

(** val lowbit : n -> n **)

let lowbit w =
  match bits w with
  | [] -> Npos (XO (XO (XO (XO (XO (XO XH))))))
  | b :: _ -> b

type sval = z * z

(** val sexp : sval -> z **)

let sexp =
  snd

type copy = sval * n

type layout = { lmin : z; lmax : z; lscale : z }

(** val layout_new : z -> z -> layout option **)

let layout_new lo hi =
  let len = Z.add (Z.sub hi lo) (Zpos XH) in
  if Z.ltb len (Zpos (XI (XO XH)))
  then None
  else let p = Z.add (Z.log2 (Z.sub len (Zpos XH))) (Zpos XH) in
       if Z.ltb p (Zpos (XI (XO XH)))
       then None
       else Some { lmin = lo; lmax = hi; lscale =
              (Z.sub p (Zpos (XI (XO XH)))) }

(** val zindex : layout -> z -> z **)

let zindex l v =
  Z.shiftr (Z.sub v l.lmin) l.lscale

(** val lindex : layout -> z -> n **)

let lindex l v =
  Z.to_N (zindex l v)

(** val lcount : layout -> n **)

let lcount l =
  N.add (order_to_heap_index (lindex l l.lmax)) (Npos XH)

type seg = { lay : layout; chunks : copy list list }

(** val seg_new : z -> z -> seg option **)

let seg_new lo hi =
  match layout_new lo hi with
  | Some l -> Some { lay = l; chunks = (repeat [] (N.to_nat (lcount l))) }
  | None -> None

(** val upd : 'a1 list -> nat -> ('a1 -> 'a1) -> 'a1 list **)

let rec upd l i f =
  match l with
  | [] -> []
  | x :: xs -> (match i with
                | O -> (f x) :: xs
                | S j -> x :: (upd xs j f))

(** val push_copy : copy -> copy list list -> n -> copy list list **)

let push_copy c cs i =
  upd cs (N.to_nat i) (fun ch -> app ch (c :: []))

(** val insert_mask : layout -> z -> z -> n **)

let insert_mask l a b =
  place_mask (lindex l a) (lindex l b)

(** val intersect_mask : layout -> z -> z -> n **)

let intersect_mask l a b =
  visit_mask (lindex l a) (lindex l b)

(** val backed : copy list list -> n -> bool **)

let backed cs m =
  forallb (fun i -> N.ltb i (N.of_nat (length cs))) (bits m)

(** val seg_insert : seg -> z -> z -> sval -> seg res **)

let seg_insert s a b v =
  let m = insert_mask s.lay a b in
  if backed s.chunks m
  then Ret { lay = s.lay; chunks =
         (fold_left (push_copy (v, m)) (bits m) s.chunks) }
  else Err ErrIndex

(** val swap_remove : 'a1 list -> nat -> 'a1 list **)

let swap_remove l i =
  match skipn i l with
  | [] -> l
  | _ :: rest0 ->
    (match rest0 with
     | [] -> firstn i l
     | y :: _ -> app (firstn i l) ((last rest0 y) :: (removelast rest0)))

type iter0 = { i0 : n option; i1 : nat; qmask : n; rest : n list; itime : z }

(** val chunk_at : copy list list -> n -> copy list **)

let chunk_at cs p =
  nth (N.to_nat p) cs []

(** val next_nonempty : copy list list -> n list -> n option * n list **)

let rec next_nonempty cs = function
| [] -> (None, [])
| b :: bs' ->
  (match chunk_at cs b with
   | [] -> next_nonempty cs bs'
   | _ :: _ -> ((Some b), bs'))

(** val scan :
    nat -> copy list -> nat -> n -> n -> z -> (copy list * (sval * nat)
    option) res **)

let rec scan fuel c i place qm time =
  match nth_error c i with
  | Some c0 ->
    let (v, m) = c0 in
    (match fuel with
     | O -> Err ErrFuel
     | S f ->
       if Z.ltb (sexp v) time
       then scan f (swap_remove c i) i place qm time
       else if N.eqb (lowbit (N.coq_land m qm)) place
            then Ret (c, (Some (v, (S i))))
            else scan f c (S i) place qm time)
  | None -> Ret (c, None)

(** val set_iter : iter0 -> n option -> nat -> n list -> iter0 **)

let set_iter it p i rs =
  { i0 = p; i1 = i; qmask = it.qmask; rest = rs; itime = it.itime }

(** val next :
    nat -> copy list list -> iter0 -> ((copy list list * iter0) * sval
    option) res **)

let rec next fuel cs it =
  match it.i0 with
  | Some p ->
    if N.leb (N.of_nat (length cs)) p
    then Ret ((cs, it), None)
    else let c = chunk_at cs p in
         bind (scan (length c) c it.i1 p it.qmask it.itime) (fun cr ->
           let cs' = upd cs (N.to_nat p) (fun _ -> fst cr) in
           (match snd cr with
            | Some p0 ->
              let (v, i') = p0 in
              Ret ((cs', (set_iter it (Some p) i' it.rest)), (Some v))
            | None ->
              (match fuel with
               | O -> Err ErrFuel
               | S f ->
                 let (nx, rs) = next_nonempty cs' it.rest in
                 next f cs' (set_iter it nx O rs))))
  | None -> Ret ((cs, it), None)

(** val iter_new : seg -> z -> z -> z -> iter0 **)

let iter_new s a b time =
  let qm = intersect_mask s.lay a b in
  let (nx, rs) = next_nonempty s.chunks (bits qm) in
  { i0 = nx; i1 = O; qmask = qm; rest = rs; itime = time }

(** val next_fuel : iter0 -> nat **)

let next_fuel it =
  S (length it.rest)

(** val take_n :
    nat -> copy list list -> iter0 -> (copy list list * sval list) res **)

let rec take_n n0 cs it =
  match n0 with
  | O -> Ret (cs, [])
  | S k ->
    bind (next (next_fuel it) cs it) (fun r ->
      match snd r with
      | Some v ->
        bind (take_n k (fst (fst r)) (snd (fst r))) (fun r2 -> Ret ((fst r2),
          (v :: (snd r2))))
      | None -> Ret ((fst (fst r)), []))

(** val total_copies : copy list list -> nat **)

let total_copies cs =
  fold_right (fun c n0 -> add (length c) n0) O cs

(** val seg_query :
    seg -> z -> z -> z -> nat option -> (seg * sval list) res **)

let seg_query s a b time n0 =
  if negb (backed s.chunks (intersect_mask s.lay a b))
  then Err ErrIndex
  else let k = match n0 with
               | Some k -> k
               | None -> S (total_copies s.chunks)
       in
       bind (take_n k s.chunks (iter_new s a b time)) (fun r -> Ret ({ lay =
         s.lay; chunks = (fst r) }, (snd r)))

(** val seg_clear : seg -> seg **)

let seg_clear s =
  { lay = s.lay; chunks = (map (fun _ -> []) s.chunks) }

type sop =
| SIns of z * z * sval
| SQuery of z * z * z * nat option
| SClear

(** val seg_step : seg -> sop -> (seg * sval list) res **)

let seg_step s = function
| SIns (a, b, v) -> bind (seg_insert s a b v) (fun s' -> Ret (s', []))
| SQuery (a, b, time, n0) -> seg_query s a b time n0
| SClear -> Ret ((seg_clear s), [])

(** val seg_run : seg -> sop list -> (seg * sval list list) res **)

let rec seg_run s = function
| [] -> Ret (s, [])
| o :: h' ->
  bind (seg_step s o) (fun so ->
    bind (seg_run (fst so) h') (fun sr -> Ret ((fst sr),
      ((snd so) :: (snd sr)))))

(** val rb_bh : 'a1 tree -> nat option **)

let rec rb_bh = function
| E -> Some O
| T (c, l, _, _, r) ->
  (match rb_bh l with
   | Some a ->
     (match rb_bh r with
      | Some b ->
        if Nat.eqb a b
        then (match c with
              | Red -> if (&&) (is_black l) (is_black r) then Some a else None
              | Black -> Some (S a))
        else None
      | None -> None)
   | None -> None)

(** val rb_ok : 'a1 tree -> bool **)

let rb_ok t =
  match rb_bh t with
  | Some _ -> true
  | None -> false

(** val strictly_increasing : z list -> bool **)

let rec strictly_increasing = function
| [] -> true
| x :: l' ->
  (match l' with
   | [] -> true
   | y :: _ -> (&&) (Z.ltb x y) (strictly_increasing l'))

(** val bst_ok : ('a1 -> z) -> 'a1 tree -> bool **)

let bst_ok key_of t =
  strictly_increasing (keys key_of t)

(** val height_ok : 'a1 tree -> bool **)

let height_ok t =
  Nat.leb (height t)
    (add (mul (S (S O)) (Nat.log2 (add (size0 t) (S O)))) (S O))

(** val nodupN : n list -> bool **)

let rec nodupN = function
| [] -> true
| x :: l' -> (&&) (negb (existsb (N.eqb x) l')) (nodupN l')

(** val pool_ok : 'a1 tree -> pool -> bool **)

let pool_ok t p =
  let all = app (slots t) p.unused in
  (&&)
    ((&&)
      ((&&) (nodupN all)
        (forallb (fun x -> (&&) (N.ltb N0 x) (N.ltb x p.blen)) all))
      (N.eqb (N.add (N.of_nat (length all)) (Npos XH)) p.blen))
    (N.leb (N.of_nat (length p.unused)) p.ucap)

type amap = ment list

(** val a_insert : amap -> z -> z -> amap **)

let a_insert m k v =
  (k, v) :: m

(** val a_remove : amap -> z -> amap **)

let a_remove m k =
  filter (fun e -> negb (Z.eqb (fst e) k)) m

(** val a_lookup : amap -> z -> ment option **)

let a_lookup m k =
  find (fun e -> Z.eqb (fst e) k) m

(** val a_update : amap -> z -> z -> amap **)

let a_update m k v =
  map (fun e -> if Z.eqb (fst e) k then (k, v) else e) m

(** val best : (ment -> bool) -> amap -> ment option **)

let best ok m =
  fold_right (fun e acc ->
    if ok e
    then (match acc with
          | Some b -> if Z.ltb (fst b) (fst e) then Some e else acc
          | None -> Some e)
    else acc) None m

(** val a_pred : amap -> z -> ment option **)

let a_pred m q =
  best (fun e -> Z.leb (fst e) q) m

(** val a_pred_by : amap -> (z -> comparison) -> ment option **)

let a_pred_by m f =
  match find (fun e -> match f (fst e) with
                       | Eq -> true
                       | _ -> false) m with
  | Some e -> Some e
  | None -> best (fun e -> match f (fst e) with
                           | Lt -> true
                           | _ -> false) m

(** val a_next : amap -> z -> ment option **)

let a_next m k =
  fold_right (fun e acc ->
    if Z.ltb k (fst e)
    then (match acc with
          | Some b -> if Z.ltb (fst e) (fst b) then Some e else acc
          | None -> Some e)
    else acc) None m

(** val a_prev : amap -> z -> ment option **)

let a_prev m k =
  best (fun e -> Z.ltb (fst e) k) m

type bag = kent list

(** val alive : z -> bag -> bag **)

let alive t b =
  filter (live t) b

(** val kbest : (kent -> bool) -> bag -> kent option **)

let kbest ok b =
  fold_right (fun e acc ->
    if ok e
    then (match acc with
          | Some x -> if Z.ltb x.kk e.kk then Some e else acc
          | None -> Some e)
    else acc) None b

(** val ref_less : bag -> z -> z -> z option **)

let ref_less b t q =
  option_map (fun k -> k.kval) (kbest (fun e -> Z.ltb e.kk q) (alive t b))

(** val ref_less_eq : bag -> z -> z -> z option **)

let ref_less_eq b t q =
  option_map (fun k -> k.kval) (kbest (fun e -> Z.leb e.kk q) (alive t b))

(** val ref_less_eq_by : bag -> z -> (z -> comparison) -> z option **)

let ref_less_eq_by b t f =
  match find (fun e -> match f e.kk with
                       | Eq -> true
                       | _ -> false) (alive t b) with
  | Some e -> Some e.kval
  | None ->
    option_map (fun k -> k.kval)
      (kbest (fun e -> match f e.kk with
                       | Lt -> true
                       | _ -> false) (alive t b))

(** val ref_get : bag -> z -> z -> z option **)

let ref_get b t q =
  option_map (fun k -> k.kval) (find (fun e -> Z.eqb e.kk q) (alive t b))

(** val kinsert_sorted : kent -> kent list -> kent list **)

let rec kinsert_sorted e l = match l with
| [] -> e :: []
| x :: l' -> if Z.ltb e.kk x.kk then e :: l else x :: (kinsert_sorted e l')

(** val ksort : kent list -> kent list **)

let ksort l =
  fold_right kinsert_sorted [] l

(** val ref_export : bag -> z -> z list **)

let ref_export b t =
  map (fun k -> k.kval) (ksort (alive t b))

type sentry = (z * z) * sval

(** val bucket_overlap : layout -> z -> z -> z -> z -> bool **)

let bucket_overlap l a b c d =
  (&&) (Z.leb (zindex l a) (zindex l d)) (Z.leb (zindex l c) (zindex l b))

(** val ref_query : layout -> sentry list -> z -> z -> z -> sval list **)

let ref_query l ins0 a b t =
  map snd
    (filter (fun e ->
      let (y, v) = e in
      let (c, d) = y in (&&) (Z.leb t (sexp v)) (bucket_overlap l c d a b))
      ins0)
