(** * C10 — no operation within its contract reads or writes out of bounds, panics or hangs.
    PARTIAL, and said so.  A theorem cannot exhibit an invalid memory access, an allocator failure or a
    watchdog timeout: those are runtime behaviour.  The model carries the LOGIC of safety: every place
    where the Rust code would index with EMPTY_REF (a missing sibling / nephew / successor), pop an
    empty free list, use a handle that designates nothing, index a list position >= len or a place
    >= count, or loop past its termination measure returns an [Err] value ([ErrStuck], [ErrPool],
    [ErrHandle], [ErrIndex], [ErrFuel]); the theorems below state that no in-contract history ever
    produces one, and that every slot the trees touch is a slot of the buffer.  The harness carries the
    rest: every history of every check also runs in a debug build (overflow checks, debug assertions,
    the library's unsafe-precondition checks on get_unchecked) and in a release build, in a child
    process with a per-history watchdog. *)
From Coq Require Import List NArith ZArith.
Import ListNotations.
Require Import ITree.Model.Common ITree.Model.RBTree ITree.Model.Pool ITree.Model.MapModel ITree.Model.KeyModel
  ITree.Model.ListModel.
Require Import ITree.Spec.Spec ITree.Spec.MapSpec.
Require Import ITree.Proofs.RBInv ITree.Proofs.PoolProofs ITree.Proofs.MapProofs ITree.Proofs.MapTheorems
  ITree.Proofs.KeyListProofs ITree.Proofs.KeyProofs ITree.Proofs.KeyRefine ITree.Proofs.KeyTheorems.
Require ITree.Proofs.ListProofs ITree.Model.SegModel ITree.Proofs.SegProofs ITree.Proofs.LayoutProofs.
Require ITree.Model.ArenaModel ITree.Proofs.ArenaProofs ITree.Model.ArenaDelete ITree.Proofs.ArenaDeleteProofs ITree.Model.ArenaKey ITree.Proofs.ArenaKeyProofs.

(* removal from a valid red-black tree never needs a sibling or nephew that is missing (the Rust code
   would dereference node(EMPTY_REF) there) *)
Theorem C10_delete_never_stuck : forall (ent: Type) (t: tree ent) (x: N), rbi ent t ->
  match del ent t x with NotFound => True | Stuck => False | Done t' d f => rbi ent t' end.
Proof. exact delete_rb_total. Qed.

(* the free list is never popped while empty, and the slot handed out is fresh and not the sentinel *)
Theorem C10_pool_get_total : forall (used: list N) (p: pool), pool_wf used p ->
  exists i p', pool_get p = Some (i, p') /\ ~ In i used /\ i <> 0%N /\ pool_wf (i :: used) p'.
Proof. exact pool_get_wf. Qed.

(* ordered map / set trees: every valid user-level history runs without any Err *)
Theorem C10_total_map : forall (cap: N) (h: list uop), valid_history [] h ->
  exists s, u_run (m_new cap) h = Ret (s, snd (a_run [] h)).
Proof. exact map_refines. Qed.

(* ... and every slot linked into the tree or on the free list is a slot of the buffer, never slot 0 *)
Theorem C10_slots_in_bounds_map : forall (cap: N) (s: mstate), reachable cap s ->
  forall x, In x (slots ment (root s) ++ unused (pl s)) -> (1 <= x < blen (pl s))%N.
Proof. intros cap s H x Hx. apply (proj2 (map_slot_partition cap s H) x). exact Hx. Qed.

(* expiring-key tree: every valid history (lazy expiry inside queries and inserts included) runs
   without Err: no missing sibling, no exhausted loop measure, no dangling held slot, no empty pool *)
Theorem C10_total_key : forall (cap: N) (h: list kop), kvalid_hist ([], None) h ->
  exists s outs, k_run (k_new cap) h = Ret (s, outs) /\ kobs_run ([], None) h outs.
Proof. exact keytree_refines. Qed.

Theorem C10_slots_in_bounds_key : forall (cap: N) (h: list kop) (s: kstate) (outs: list kout),
  kvalid_hist ([], None) h -> k_run (k_new cap) h = Ret (s, outs) ->
  forall x, In x (slots kent (kroot s) ++ unused (kpl s)) -> (1 <= x < blen (kpl s))%N.
Proof.
  intros cap h s outs V Hr x Hx. destruct (keytree_rb_bst cap h s outs V Hr) as (_ & _ & _ & _ & _ & B).
  apply B. exact Hx.
Qed.

(* sorted-list variants: every position used is inside the buffer *)
Theorem C10_total_maplist : forall (h: list ListProofs.uop), ListProofs.uvalid_hist [] h ->
  exists l', ListProofs.ul_run [] h = Ret (l', snd (ListProofs.ua_run [] h)) /\ ListProofs.R l' (fst (ListProofs.ua_run [] h)).
Proof. exact ListProofs.maplist_refines. Qed.

(* segment tree: no valid history fails (every place an insert writes to or a query looks at is inside
   the chunk vector, every iterator loop ends within its measure) *)
Theorem C10_total_seg : forall (lo hi: Z) (s0: SegModel.seg) (h: list SegModel.sop),
  SegModel.seg_new lo hi = Some s0 -> ITree.Proofs.SegProofs.seg_valid (SegModel.lay s0) h ->
  exists s outs, SegModel.seg_run s0 h = Ret (s, outs).
Proof. exact ITree.Proofs.SegProofs.seg_run_no_error. Qed.

(* layout arithmetic stays inside the machine types the Rust code uses (i64 subtraction, usize length,
   u32 shift amount below 64, bucket index below 32) for every domain whose length fits i64 *)
Theorem C10_layout_machine_ranges : forall lo hi : Z,
  (lo <= hi)%Z -> (- 2 ^ 63 <= lo)%Z -> (hi < 2 ^ 63)%Z -> (hi - lo + 1 < 2 ^ 63)%Z ->
  (0 <= hi - lo < 2 ^ 63)%Z /\ (0 < hi - lo + 1 < 2 ^ 63)%Z /\
  forall L, SegModel.layout_new lo hi = Some L -> (0 <= SegModel.lscale L <= 58)%Z /\ (48 <= SegModel.lcount L <= 63)%N.
Proof.
  intros lo hi H1 H2 H3 H4. destruct (ITree.Proofs.LayoutProofs.machine_ranges lo hi H1 H2 H3 H4) as (A & B & _ & C).
  split; [exact A|]. split; [exact B|]. intros L HL. destruct (C L HL) as (_ & _ & D & E & _). split; assumption.
Qed.

(* the parent-pointer loops themselves (Model/ArenaModel.v, Model/ArenaDelete.v transcribe the Rust
   statements): on an arena that represents a tree with consistent links, insertion needs at most
   2*height+2 iterations of its descent and repair loops, removal of a stored slot of a valid
   red-black tree at most height-many of each loop (find_left_minimum, the repair recursion), and
   neither ever reads node(EMPTY_REF) ([ErrStuck]) or runs out of its bound ([ErrFuel]) *)
Theorem C10_arena_insert_total : forall (s: ArenaModel.astate ment) (t: tree ment) (ni: N) (e: ment) (fuel: nat),
  ArenaProofs.Rep s ArenaModel.EMPTY (ArenaModel.aroot s) t -> List.NoDup (slots ment t) ->
  ~ List.In ni (slots ment t) -> ni <> ArenaModel.EMPTY -> (2 * height ment t + 2 <= fuel)%nat ->
  exists s', ArenaModel.arena_insert mkey fuel s ni e = Ret s'.
Proof.
  intros s t ni e fuel H1 H2 H3 H4 H5.
  destruct (ArenaProofs.arena_insert_refines mkey s t ni e fuel H1 H2 H3 H4 H5) as (s' & Hs' & _). exists s'. exact Hs'.
Qed.

Theorem C10_arena_delete_total : forall (s: ArenaModel.astate ment) (t: tree ment) (x: N) (fuel: nat),
  ArenaProofs.Rep s ArenaModel.EMPTY (ArenaModel.aroot s) t -> List.NoDup (slots ment t) ->
  ~ List.In 0%N (slots ment t) -> rbi ment t -> List.In x (slots ment t) -> (height ment t <= fuel)%nat ->
  exists s' f, ArenaDelete.arena_delete fuel s x = Ret (s', f).
Proof.
  intros s t x fuel H1 H2 H3 H4 H5 H6.
  destruct (ArenaDeleteProofs.arena_delete_refines_frame s t x fuel H1 H2 H3 H4 H5 H6) as (t' & d & f & s' & _ & Hs' & _).
  exists s', f. exact Hs'.
Qed.

(* the expiring-key tree's own loops on the arena (Model/ArenaKey.v: expire_root, expire_left / right,
   the search loops, insert_entity): within the contract every query and every insertion returns
   normally - no loop exceeds ksize-many (repair: 2*ksize+2) iterations, nothing is read through
   EMPTY_REF, the free list is never popped empty - and leaves an arena that represents the model's
   tree with consistent links *)
Theorem C10_arena_key_query_total : forall (q: qkind) (f: Z -> comparison) (time: Z) (s: kstate)
  (a: ArenaModel.astate kent) (dfuel efuel sfuel: nat),
  KeyProofs.monotone f -> KInv s -> one_eq_live f time (kroot s) ->
  ArenaProofs.Rep a ArenaModel.EMPTY (ArenaModel.aroot a) (kroot s) ->
  (size kent (kroot s) <= dfuel)%nat -> (size kent (kroot s) < efuel)%nat -> (S (size kent (kroot s)) < sfuel)%nat ->
  exists s' out evs a', k_query q f s time = Ret (s', out, evs) /\
    ArenaKey.arena_query dfuel efuel sfuel q f (a, kpl s) time = Ret ((a', kpl s'), out) /\
    ArenaProofs.Rep a' ArenaModel.EMPTY (ArenaModel.aroot a') (kroot s') /\ KInv s'.
Proof. exact ArenaKeyProofs.arena_query_total. Qed.

Theorem C10_arena_key_insert_total : forall (ne: kent) (time: Z) (s: kstate) (a: ArenaModel.astate kent)
  (dfuel efuel sfuel ifuel: nat),
  KInv s -> (forall e, In e (ents kent (kroot s)) -> live time e = true -> kk e <> kk ne) ->
  ArenaProofs.Rep a ArenaModel.EMPTY (ArenaModel.aroot a) (kroot s) ->
  (size kent (kroot s) <= dfuel)%nat -> (size kent (kroot s) < efuel)%nat -> (size kent (kroot s) < sfuel)%nat ->
  (2 * size kent (kroot s) + 2 <= ifuel)%nat -> (blen (kpl s) < ArenaModel.EMPTY)%N ->
  exists s' evs a', k_insert s ne time = Ret (s', evs) /\
    ArenaKey.arena_k_insert dfuel efuel sfuel ifuel (a, kpl s) ne time = Ret (a', kpl s') /\
    ArenaProofs.Rep a' ArenaModel.EMPTY (ArenaModel.aroot a') (kroot s') /\ KInv s'.
Proof. exact ArenaKeyProofs.arena_k_insert_total. Qed.
