(** * C10 — no operation within its contract reads or writes out of bounds, panics or hangs.
    PARTIAL, and said so.  A theorem cannot exhibit an invalid memory access, an allocator failure or a
    watchdog timeout: those are runtime behaviour.  The model carries the LOGIC of safety: every place
    where the Rust code would index with EMPTY_REF (a missing sibling / nephew / successor), pop an
    empty free list, use a handle that designates nothing, index a list position >= len or a place
    >= count, or loop past its termination measure returns an [Err] value ([ErrStuck], [ErrPool],
    [ErrHandle], [ErrIndex], [ErrFuel]); the theorems below state that no in-contract history ever
    produces one, and that every slot the trees touch is a slot of the buffer.  The harness carries the
    rest: every history of every check also runs in a debug build (overflow checks, debug assertions,
    the library's unsafe-precondition checks on get_unchecked) and in a release build, in a child
    process with a per-history watchdog. *)
From Coq Require Import List NArith ZArith.
Import ListNotations.
Require Import ITree.Model.Common ITree.Model.RBTree ITree.Model.Pool ITree.Model.MapModel ITree.Model.KeyModel
  ITree.Model.ListModel.
Require Import ITree.Spec.Spec ITree.Spec.MapSpec.
Require Import ITree.Proofs.RBInv ITree.Proofs.PoolProofs ITree.Proofs.MapProofs ITree.Proofs.MapTheorems
  ITree.Proofs.KeyListProofs ITree.Proofs.KeyProofs ITree.Proofs.KeyRefine ITree.Proofs.KeyTheorems.
Require ITree.Proofs.ListProofs.

(* removal from a valid red-black tree never needs a sibling or nephew that is missing (the Rust code
   would dereference node(EMPTY_REF) there) *)
Theorem C10_delete_never_stuck : forall (ent: Type) (t: tree ent) (x: N), rbi ent t ->
  match del ent t x with NotFound => True | Stuck => False | Done t' d f => rbi ent t' end.
Proof. exact delete_rb_total. Qed.

(* the free list is never popped while empty, and the slot handed out is fresh and not the sentinel *)
Theorem C10_pool_get_total : forall (used: list N) (p: pool), pool_wf used p ->
  exists i p', pool_get p = Some (i, p') /\ ~ In i used /\ i <> 0%N /\ pool_wf (i :: used) p'.
Proof. exact pool_get_wf. Qed.

(* ordered map / set trees: every valid user-level history runs without any Err *)
Theorem C10_total_map : forall (cap: N) (h: list uop), valid_history [] h ->
  exists s, u_run (m_new cap) h = Ret (s, snd (a_run [] h)).
Proof. exact map_refines. Qed.

(* ... and every slot linked into the tree or on the free list is a slot of the buffer, never slot 0 *)
Theorem C10_slots_in_bounds_map : forall (cap: N) (s: mstate), reachable cap s ->
  forall x, In x (slots ment (root s) ++ unused (pl s)) -> (1 <= x < blen (pl s))%N.
Proof. intros cap s H x Hx. apply (proj2 (map_slot_partition cap s H) x). exact Hx. Qed.

(* expiring-key tree: every valid history (lazy expiry inside queries and inserts included) runs
   without Err: no missing sibling, no exhausted loop measure, no dangling held slot, no empty pool *)
Theorem C10_total_key : forall (cap: N) (h: list kop), kvalid_hist ([], None) h ->
  exists s outs, k_run (k_new cap) h = Ret (s, outs) /\ kobs_run ([], None) h outs.
Proof. exact keytree_refines. Qed.

Theorem C10_slots_in_bounds_key : forall (cap: N) (h: list kop) (s: kstate) (outs: list kout),
  kvalid_hist ([], None) h -> k_run (k_new cap) h = Ret (s, outs) ->
  forall x, In x (slots kent (kroot s) ++ unused (kpl s)) -> (1 <= x < blen (kpl s))%N.
Proof.
  intros cap h s outs V Hr x Hx. destruct (keytree_rb_bst cap h s outs V Hr) as (_ & _ & _ & _ & _ & B).
  apply B. exact Hx.
Qed.

(* sorted-list variants: every position used is inside the buffer *)
Theorem C10_total_maplist : forall (h: list ListProofs.uop), ListProofs.uvalid_hist [] h ->
  exists l', ListProofs.ul_run [] h = Ret (l', snd (ListProofs.ua_run [] h)) /\ ListProofs.R l' (fst (ListProofs.ua_run [] h)).
Proof. exact ListProofs.maplist_refines. Qed.
