(** * C14 — the coordinate layout (src/seg/layout.rs): the domain [lo, hi] is cut into at most 32
    buckets of equal power-of-two width, the smallest such width that fits.
    Only statements; proofs are in Proofs/LayoutProofs.v (pure arithmetic over all of Z; the only
    enumeration used is the bound on mask bits from Proofs/HeapSweep.v, in C14_backed).
    [layout_new] = Layout::new, [zindex]/[lindex] = Layout::index, [lcount] = Layout::count. *)
From Coq Require Import List NArith ZArith Bool.
Import ListNotations.
Require Import ITree.Model.Heap ITree.Model.SegModel ITree.Proofs.LayoutProofs.
Local Open Scope Z_scope.

(* a layout is refused exactly for domains of at most 16 points *)
Theorem C14_new : forall lo hi, lo <= hi -> (layout_new lo hi = None <-> hi - lo + 1 <= 16).
Proof. exact layout_new_none. Qed.

Theorem C14_layout : forall lo hi L, lo <= hi -> layout_new lo hi = Some L ->
  lmin L = lo /\ lmax L = hi /\ 0 <= lscale L /\
  zindex L lo = 0 /\ 16 <= zindex L hi < 32 /\
  (forall v, zindex L v = (v - lo) / 2 ^ lscale L) /\                 (* equal power-of-two width *)
  (forall v w, lo <= v -> v <= w -> w <= hi -> 0 <= zindex L v <= zindex L w /\ zindex L w < 32) /\
  hi - lo + 1 <= 32 * 2 ^ lscale L /\                                  (* 32 buckets cover the domain *)
  (0 < lscale L -> 32 * 2 ^ (lscale L - 1) < hi - lo + 1).             (* ... and it is the smallest *)
Proof. exact layout_new_spec. Qed.

(* every place an in-domain insert writes to / an in-domain query looks at is allocated *)
Theorem C14_backed : forall lo hi L a b, lo <= hi -> layout_new lo hi = Some L ->
  lo <= a -> a <= b -> b <= hi ->
  (forall i, In i (bits (insert_mask L a b)) -> (i < lcount L)%N) /\
  (forall i, In i (bits (intersect_mask L a b)) -> (i < lcount L)%N).
Proof. exact masks_backed. Qed.

(* ... so the model's (and the debug build's) bounds test passes on the chunk vector of seg_new *)
Theorem C14_backed_bool : forall lo hi L a b (cs: list (list copy)),
  lo <= hi -> layout_new lo hi = Some L -> lo <= a -> a <= b -> b <= hi ->
  length cs = N.to_nat (lcount L) ->
  backed cs (insert_mask L a b) = true /\ backed cs (intersect_mask L a b) = true.
Proof. exact masks_backed_bool. Qed.

(* at most 32 points: one point per bucket *)
Theorem C14_small_exact : forall lo hi L, layout_new lo hi = Some L -> hi - lo + 1 <= 32 ->
  lscale L = 0 /\ forall v, zindex L v = v - lo.
Proof. exact layout_small_exact. Qed.

(* between 48 and 63 places are allocated *)
Theorem C14_count : forall lo hi L, layout_new lo hi = Some L -> (48 <= lcount L <= 63)%N.
Proof. exact lcount_range. Qed.

(* for i64 bounds whose width fits i64, no intermediate of Layout::new / Layout::index leaves its
   machine type: max - min + 1 in [1, 2^63) (i64, cast to usize exact), len - 1 > 0 where ilog2 is
   taken, p <= 63, p - 5 >= 0, scale <= 58 (< 64: the shift is defined), value - min in [0, 2^63),
   index in [0, 32) (cast to u32 exact), count <= 63 *)
Theorem C14_machine_ranges : forall lo hi,
  lo <= hi -> - 2 ^ 63 <= lo -> hi < 2 ^ 63 -> hi - lo + 1 < 2 ^ 63 ->
  0 <= hi - lo < 2 ^ 63 /\ 0 < hi - lo + 1 < 2 ^ 63 /\
  (5 <= hi - lo + 1 -> 0 < hi - lo + 1 - 1 /\ 3 <= Z.log2 (hi - lo + 1 - 1) + 1 <= 63) /\
  forall L, layout_new lo hi = Some L ->
    5 <= Z.log2 (hi - lo + 1 - 1) + 1 /\ lscale L = Z.log2 (hi - lo + 1 - 1) + 1 - 5 /\
    0 <= lscale L <= 58 /\
    (48 <= lcount L <= 63)%N /\
    forall v, lo <= v <= hi ->
      - 2 ^ 63 <= v < 2 ^ 63 /\ 0 <= v - lo < 2 ^ 63 /\ 0 <= zindex L v < 32 /\
      Z.of_N (lindex L v) = zindex L v.
Proof. exact machine_ranges. Qed.

(** Non-vacuity (the layout of layout.rs test_03, the two sides of the 16-point threshold, and the
    widest domain the machine-range theorem allows) *)
Example C14_ex : exists L, layout_new (-10240) 15360 = Some L /\ lscale L = 10 /\
  zindex L (-10240) = 0 /\ zindex L 15360 = 25 /\ lcount L = 57%N /\
  bits (insert_mask L (-10240) 10240) = [1; 11; 51] %N.
Proof. eexists. split; [vm_compute; reflexivity|]. vm_compute. repeat split. Qed.
Example C14_ex_threshold : layout_new 0 15 = None /\ exists L, layout_new 0 16 = Some L /\ lscale L = 0.
Proof. exact ex_layout_small. Qed.
Example C14_ex_wide : exists L, layout_new (- 2 ^ 62) (2 ^ 62 - 2) = Some L /\ lscale L = 58 /\
  zindex L (2 ^ 62 - 2) = 31.
Proof. exact ex_layout_big. Qed.
