(** * C05 — ordered set: keyed values are found, kept intact and removed exactly.
    SetTree is the same red-black core as MapTree; in the model an entity is the pair
    (key, payload) in both cases (for the set the payload stands for the rest of the value that
    carries its own key), so the refinement theorem is the one of C04 read with payloads.  The
    set tree is a separate textual copy of the code: its tie to this model is its own
    correspondence run (harness instantiation SetTree<MKey, SVal> with String payloads). *)
From Coq Require Import List NArith ZArith.
Import ListNotations.
Require Import ITree.Model.Common ITree.Model.RBTree ITree.Model.MapModel.
Require Import ITree.Spec.Spec ITree.Spec.MapSpec ITree.Proofs.MapProofs ITree.Proofs.MapTheorems.

Theorem C05_set_refines : forall (cap: N) (h: list uop), valid_history [] h ->
  exists s, u_run (m_new cap) h = Ret (s, snd (a_run [] h)).
Proof. exact map_refines. Qed.

Theorem C05_delete_absent : forall (s: mstate) (k: Z), m_get s k = None -> m_delete s k = Ret s.
Proof. exact map_delete_absent. Qed.

(* removal of a two-children node moves the successor's entity (key AND payload together) *)
Example C05_example :
  let h := [UIns 2 200; UIns 1 100; UIns 4 400; UIns 3 300; UDel 2; UGet 3; UGet 4; UGet 1; UGet 2] in
  valid_history [] h /\ snd (a_run [] h) =
    [UNone; UNone; UNone; UNone; UNone; UEnt (Some (3, 300)%Z); UEnt (Some (4, 400)%Z); UEnt (Some (1, 100)%Z); UEnt None].
Proof. vm_compute. repeat split. Qed.
