(** * C18 — a panicking user callback leaves every collection valid and un-torn.
    PARTIAL, and said so: unwinding itself (drop order, Vec::retain's drop guard, what a half-executed
    Rust statement leaves behind) is runtime behaviour that no Gallina model exhibits.  What the model
    carries is WHERE user code runs and what the state is there; the rest is decided on the real code
    by the injection run (a panic injected at every callback invocation index of every history, the
    collection snapshotted after catch_unwind, checked structurally and against the before / after
    contents, and used further).
    - ordered map, ordered set, the three lists' binary search: the model has no callbacks at all
      inside an operation that has started to write (all comparisons of insert / delete / the handle
      queries precede the first write; the model's operations are pure functions of the state), so
      the model statement is trivial and the injection run carries the property;
    - expiring-key tree: theorem below (callbacks sit between COMPLETE physical deletions);
    - expiring-key list: theorem below (panic inside the purge);
    - segment-tree iterator: expiration() is called between complete swap_removes (injection run only). *)
From Coq Require Import List NArith ZArith.
Import ListNotations.
Require Import ITree.Model.Common ITree.Model.RBTree ITree.Model.KeyModel ITree.Model.ListModel.
Require Import ITree.Spec.Spec ITree.Proofs.KeyListProofs ITree.Proofs.KeyProofs ITree.Proofs.KeyRefine ITree.Proofs.PanicStates.

(* expiring-key tree: at EVERY callback event of EVERY operation from any state related to a bag, the
   state handed over satisfies the representation invariant (valid red-black search tree, slots
   partitioned) and is related to the same bag at the operation's time: its observable contents are
   exactly those before the operation, so continuing after a caught panic is safe and un-torn *)
Theorem C18_key_callbacks : forall (s: kstate) (b: bag) (now: option Z) (o: kop) (s': kstate) (out: kout) (evs: list event),
  RKT s b now -> kvalid (b, now) o -> k_step s o = Ret (s', out, evs) ->
  forall ev, In ev evs -> KInv (snd ev) /\ RKT (snd ev) b (Some (op_time o)).
Proof. exact callback_states. Qed.

(* expiring-key list: a panic at the k-th element of the purge leaves a buffer that still refines the
   same bag (sorted, cached minimum still a lower bound, only expired entries missing) *)
Theorem C18_keylist_partial_purge : forall (s: klstate) (b: bag) (now: option Z) (t: Z) (k: nat),
  RK s b now -> time_ok now t -> RK (retain_partial t k s) b (Some t).
Proof. exact retain_partial_refines. Qed.
