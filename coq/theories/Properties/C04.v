(** * C04 — ordered map: insert / delete / lookup behave as a map over distinct keys.
    [u_run] executes a user-level history (Spec/MapSpec.v: insert, delete by key, get_value,
    is_empty, predecessor-handle read / write / delete, clear) on the tree model from a new tree
    with capacity hint [cap]; [a_run] executes it on the reference semantics (an association list).
    [valid_history]: a key is inserted only while absent, comparators are monotone on the stored keys. *)
From Coq Require Import List NArith ZArith.
Import ListNotations.
Require Import ITree.Model.Common ITree.Model.RBTree ITree.Model.MapModel.
Require Import ITree.Spec.Spec ITree.Spec.MapSpec ITree.Proofs.MapProofs ITree.Proofs.MapTheorems.
Require ITree.Model.ArenaModel ITree.Model.ArenaQuery ITree.Proofs.ArenaProofs ITree.Proofs.ArenaQueryProofs.

(* every valid history runs to completion and produces exactly the reference outputs: lookups return
   the value inserted (as last written through a handle) exactly when the key is present, emptiness is
   reported exactly when nothing is stored; values are opaque identifiers, so none is altered,
   duplicated or lost *)
Theorem C04_map_refines : forall (cap: N) (h: list uop), valid_history [] h ->
  exists s, u_run (m_new cap) h = Ret (s, snd (a_run [] h)).
Proof. exact map_refines. Qed.

(* the abstraction of every reachable state is the reference state, from any starting state that
   satisfies the representation invariant *)
Theorem C04_step : forall (s: mstate) (m: amap) (o: uop), MInv s -> Rel s m -> valid_op m o ->
  exists s' out, u_step s o = Ret (s', out) /\ a_step m o = (fst (a_step m o), out) /\
                 MInv s' /\ Rel s' (fst (a_step m o)).
Proof. exact u_step_refines. Qed.

(* deleting an absent key changes nothing: the state is returned unchanged *)
Theorem C04_delete_absent : forall (s: mstate) (k: Z), m_get s k = None -> m_delete s k = Ret s.
Proof. exact map_delete_absent. Qed.

(* non-vacuity: a history with deletions of interior nodes and a write through a handle *)
Example C04_example :
  let h := [UIns 5 50; UIns 2 20; UIns 8 80; UIns 1 10; UIns 3 30; UDel 2; UWrite 4 33; UGet 3; UGet 2; UDel 7; UIsEmpty] in
  valid_history [] h /\ snd (a_run [] h) =
    [UNone; UNone; UNone; UNone; UNone; UNone; UNone; UEnt (Some (3, 33)%Z); UEnt None; UNone; UBool false].
Proof. vm_compute. repeat split. Qed.

(* the whole MapCollection / SetCollection interface on the parent-pointer arena (Model/ArenaQuery.v:
   [arena_m_step] = insert, delete by key, delete / read / write through handles, get_value,
   first_index_less(_by), index_after / index_before, is_empty, clear, each the statement-by-statement
   transcription of the Rust function, with the slot pool): along any history whose insertions respect
   the contract it returns the outputs of the tree-level model - the model that C04_map_refines relates
   to the reference map - and represents its tree with consistent links after every step *)
Theorem C04_arena_run : forall (fuel: nat) (h: list mop) (a: ArenaModel.astate ment) (s s': mstate) (outs: list mout),
  MInv s -> ArenaProofs.Rep a ArenaModel.EMPTY (ArenaModel.aroot a) (root s) ->
  ArenaQueryProofs.run_ok fuel s h -> m_run s h = Ret (s', outs) ->
  exists a', ArenaQuery.arena_m_run fuel (a, pl s) h = Ret ((a', pl s'), outs) /\
             ArenaProofs.Rep a' ArenaModel.EMPTY (ArenaModel.aroot a') (root s') /\ MInv s'.
Proof. exact ArenaQueryProofs.arena_m_run_refines. Qed.
