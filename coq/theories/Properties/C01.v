(** * C01 — expiring-key tree: predecessor queries match the reference semantics.
    A history is a list of [kop] (insert with key / expiration / value / time, first_less,
    first_less_or_equal, first_less_or_equal_by with a comparator, get_value, is_empty, clear, export).
    Reference semantics [kr_step] (Proofs/KeyListProofs.v, shared with the list variant): the state is
    the bag of entries inserted since the last clear plus the latest time; a query at time t looks
    only at the entries with expiration > t ([alive t b]) and returns the value of the greatest-keyed
    one satisfying the bound ([ref_less], [ref_less_eq], [ref_less_eq_by] of Spec/Spec.v).
    Contract [kvalid_hist]: times never decrease between clears; a key is inserted only when no entry
    of the bag with that key is live (an expired equal key is allowed, and expiration == time is
    allowed); comparators are monotone with at most one live Equal key.
    [kobs_run]: every output equals the reference output (is_empty, which the property text leaves
    open for expired-but-unremoved entries, is constrained by two implications only). *)
From Coq Require Import List NArith ZArith Lia.
Import ListNotations.
Require Import ITree.Model.Common ITree.Model.RBTree ITree.Model.MapModel ITree.Model.KeyModel.
Require Import ITree.Spec.Spec ITree.Proofs.KeyListProofs ITree.Proofs.KeyProofs ITree.Proofs.KeyRefine.
Require ITree.Model.Pool ITree.Model.ArenaModel ITree.Model.ArenaKey ITree.Proofs.ArenaProofs ITree.Proofs.ArenaKeyProofs.
Require ITree.Model.ArenaKeyRun ITree.Proofs.ArenaKeyRunProofs.

(* every valid history, of any length, from a new tree with any capacity hint, runs to completion on
   the tree model (lazy expiry, physical removal and rebalancing included) and every predecessor query
   returns the reference answer *)
Theorem C01_pred_queries : forall (cap: N) (h: list kop), kvalid_hist ([], None) h ->
  exists s outs, k_run (k_new cap) h = Ret (s, outs) /\ kobs_run ([], None) h outs.
Proof. exact keytree_refines. Qed.

(* one operation from ANY state related to a bag: reference answer, relation kept *)
Theorem C01_step : forall (s: kstate) (b: bag) (now: option Z) (o: kop), RKT s b now -> kvalid (b, now) o ->
  exists s' out evs, k_step s o = Ret (s', out, evs) /\
    kobs_ok (b, now) o out /\
    RKT s' (fst (fst (kr_step (b, now) o))) (snd (fst (kr_step (b, now) o))) /\
    cmp_live (op_time o) (kroot s) evs.
Proof. exact k_step_refines. Qed.

(* the loop at the heart of it: a search that holds a slot while expired entries below it are
   physically deleted (and the tree is rotated around the held node) returns the greatest live
   candidate of the final tree, which has lost only entries that are not live *)
Theorem C01_search : forall q f time, KeyProofs.monotone f -> forall fuel s cx lx x ex rx res0 rg,
  KInv s -> Subtree.subtree kent (T cx lx x ex rx) (kroot s) -> live time ex = true ->
  (size kent (T cx lx x ex rx) < fuel)%nat ->
  one_eq_live f time (kroot s) ->
  res0 = option_map kval rg ->
  (forall r, rg = Some r -> In r (ents kent (kroot s)) /\ cand q f time r) ->
  (forall e, In e (ents kent (kroot s)) -> cand q f time e ->
     In e (ents kent (T cx lx x ex rx)) \/ exists r, rg = Some r /\ (kk e <= kk r)%Z) ->
  (forall r e, rg = Some r -> In e (ents kent (T cx lx x ex rx)) -> (kk r < kk e)%Z) ->
  post_search q f time s (search fuel q f s x time res0).
Proof. exact search_spec. Qed.

(* non-vacuity: re-insertion of an expired key, expiration == time, expired entries on the path *)
Example C01_example :
  let h := [KIns 10 5 100 0; KIns 5 7 50 0; KIns 15 9 150 0; KIns 7 3 70 3; KLessEq 4 12; KLess 5 10;
            KIns 10 20 101 6; KLessEq 6 12; KLessEq 7 7; KLessEq 8 20] in
  kvalid_hist ([], None) h /\
  exists s, k_run (k_new 8) h = Ret (s, [KONone; KONone; KONone; KONone; KOVal (Some 100%Z); KOVal (Some 50%Z);
                                         KONone; KOVal (Some 101%Z); KOVal None; KOVal (Some 150%Z)]).
Proof. split; [kvalid_tac|]. eexists. vm_compute. reflexivity. Qed.

(* the parent-pointer loops of the expiring-key tree themselves (Model/ArenaKey.v transcribes
   expire_root, expire_left / expire_right with their delete_index + put_back, and the four search
   loops of src/key/tree.rs statement by statement onto the arena): from an arena representing the
   model's tree with consistent links and the same pool, each query returns the model's answer (the
   one the theorems above are about), within ksize-many iterations of every loop, and the arena
   represents the model's tree again *)
Theorem C01_arena_query : forall (q: KeyModel.qkind) (f: Z -> comparison) (time: Z) (s: KeyModel.kstate)
  (a: ArenaModel.astate KeyModel.kent) (s': KeyModel.kstate) (out: option Z) (evs: list KeyModel.event)
  (dfuel efuel sfuel: nat),
  KeyProofs.KInv s -> ArenaProofs.Rep a ArenaModel.EMPTY (ArenaModel.aroot a) (KeyModel.kroot s) ->
  (size KeyModel.kent (KeyModel.kroot s) <= dfuel)%nat -> (size KeyModel.kent (KeyModel.kroot s) < efuel)%nat ->
  (S (size KeyModel.kent (KeyModel.kroot s)) < sfuel)%nat ->
  KeyModel.k_query q f s time = Ret (s', out, evs) ->
  exists a', ArenaKey.arena_query dfuel efuel sfuel q f (a, KeyModel.kpl s) time = Ret ((a', KeyModel.kpl s'), out) /\
    ArenaProofs.Rep a' ArenaModel.EMPTY (ArenaModel.aroot a') (KeyModel.kroot s') /\ KeyProofs.KInv s' /\
    (size KeyModel.kent (KeyModel.kroot s') <= size KeyModel.kent (KeyModel.kroot s))%nat.
Proof. exact ArenaKeyProofs.arena_query_refines. Qed.

(* ... and insertion: expire_root, the purging descent, insert_as_left / insert_as_right at the node
   the code holds (the tree-level model re-descends from the root; the two coincide because the
   purging descent keeps the held node on the search path of the new key) *)
Theorem C01_arena_insert : forall (ne: KeyModel.kent) (time: Z) (s: KeyModel.kstate)
  (a: ArenaModel.astate KeyModel.kent) (s': KeyModel.kstate) (evs: list KeyModel.event) (dfuel efuel sfuel ifuel: nat),
  KeyProofs.KInv s -> ArenaProofs.Rep a ArenaModel.EMPTY (ArenaModel.aroot a) (KeyModel.kroot s) ->
  (size KeyModel.kent (KeyModel.kroot s) <= dfuel)%nat -> (size KeyModel.kent (KeyModel.kroot s) < efuel)%nat ->
  (size KeyModel.kent (KeyModel.kroot s) < sfuel)%nat -> (2 * size KeyModel.kent (KeyModel.kroot s) + 2 <= ifuel)%nat ->
  (Pool.blen (KeyModel.kpl s) < ArenaModel.EMPTY)%N ->
  KeyModel.k_insert s ne time = Ret (s', evs) ->
  exists a', ArenaKey.arena_k_insert dfuel efuel sfuel ifuel (a, KeyModel.kpl s) ne time = Ret (a', KeyModel.kpl s') /\
    ArenaProofs.Rep a' ArenaModel.EMPTY (ArenaModel.aroot a') (KeyModel.kroot s').
Proof. exact ArenaKeyProofs.arena_k_insert_refines. Qed.

(* the WHOLE interface of the expiring-key tree as one arena-level step function ([arena_k_step]: the
   function the model runner executes against the implementation's raw buffer, DESIGN.md section 4.6):
   along every history that keeps the insertion contract it returns the outputs of the tree-level
   model, and the arena keeps representing the model's tree with consistent links *)
Theorem C01_arena_run : forall (fuel: nat) (h: list kop) (a: ArenaModel.astate kent) (s s': kstate) (outs: list kout),
  KeyProofs.KInv s -> ArenaProofs.Rep a ArenaModel.EMPTY (ArenaModel.aroot a) (kroot s) ->
  ArenaKeyRunProofs.krun_ok fuel s h -> k_run s h = Ret (s', outs) ->
  exists a', ArenaKeyRun.arena_k_run fuel (a, kpl s) h = Ret ((a', kpl s'), outs) /\
             ArenaProofs.Rep a' ArenaModel.EMPTY (ArenaModel.aroot a') (kroot s') /\ KeyProofs.KInv s'.
Proof. exact ArenaKeyRunProofs.arena_k_run_refines. Qed.

(* its side conditions hold on a concrete history (three insertions, a query that removes an expired
   root, export, clear, re-insertion of the key, lookup) *)
Theorem C01_arena_run_nonvacuous : ArenaKeyRunProofs.krun_ok 16 (k_new 8) ArenaKeyRunProofs.demo_hist.
Proof. exact ArenaKeyRunProofs.krun_ok_demo. Qed.

