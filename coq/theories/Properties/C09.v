(** * C09 — ordered set: neighbour steps walk the keys in order and stop at the ends. *)
From Coq Require Import List NArith ZArith.
Import ListNotations.
Require Import ITree.Model.Common ITree.Model.RBTree ITree.Model.MapModel.
Require Import ITree.Spec.Spec ITree.Spec.MapSpec ITree.Proofs.TreeLookup ITree.Proofs.MapProofs ITree.Proofs.MapTheorems.
Require ITree.Model.ArenaModel ITree.Model.ArenaQuery ITree.Proofs.ArenaProofs ITree.Proofs.ArenaKeyProofs ITree.Proofs.ArenaQueryProofs.

(* In every reachable state, for every stored handle x: if the in-order sequence of (slot, entry)
   pairs is A ++ (x, e) :: B then the successor step returns the first slot of B (the empty sentinel
   when B is empty, i.e. at the largest value) and the predecessor step the last slot of A (the empty
   sentinel at the smallest value).  The in-order sequence is strictly increasing in key (C02), so
   repeated successor steps from its first slot enumerate it once, in order, and end. *)
Theorem C09_steps : forall (cap: N) (s: mstate) (A: list (N * ment)) (x: N) (e: ment) (B: list (N * ment)),
  reachable cap s -> elements ment (root s) = A ++ (x, e) :: B ->
  m_after s x = Ret (hd_slot ment B None) /\ m_before s x = Ret (last_slot ment A None).
Proof. exact neighbour_steps. Qed.

(* against the reference semantics: the entry read through the stepped handle is the stored entry with
   the next larger / next smaller key *)
Theorem C09_next : forall (s: mstate) (m: amap) (x: N) (e: ment), MInv s -> Rel s m ->
  In (x, e) (elements ment (root s)) ->
  exists a r, m_after s x = Ret a /\ read_at s a = Ret r /\ a_next m (fst e) = r.
Proof. exact neighbour_next. Qed.

Theorem C09_prev : forall (s: mstate) (m: amap) (x: N) (e: ment), MInv s -> Rel s m ->
  In (x, e) (elements ment (root s)) ->
  exists a r, m_before s x = Ret a /\ read_at s a = Ret r /\ a_prev m (fst e) = r.
Proof. exact neighbour_prev. Qed.

Example C09_example :
  let h := [UIns 10 1; UIns 5 2; UIns 15 3; UAfter 15; UBefore 5; UAfter 5; UBefore 15; UAfter 12] in
  valid_history [] h /\ snd (a_run [] h) =
    [UNone; UNone; UNone; UEnt None; UEnt None; UEnt (Some (10, 1)%Z); UEnt (Some (10, 1)%Z); UEnt (Some (15, 3)%Z)].
Proof. vm_compute. repeat split. Qed.

(* the neighbour steps as the code performs them, on the parent-pointer arena (Model/ArenaQuery.v:
   index_after / index_before descend to the leftmost / rightmost node of a subtree or CLIMB the parent
   links while the node is a right / left child): for every stored slot they return the handle of the
   tree-level [after_in] / [before_in] (the in-order successor / predecessor, EMPTY_REF at the ends),
   within height-many iterations *)
Theorem C09_arena_index_after : forall (a: ArenaModel.astate ment) (t: tree ment) (x: N) (fuel: nat),
  ArenaProofs.Rep a ArenaModel.EMPTY (ArenaModel.aroot a) t -> NoDup (slots ment t) -> In x (slots ment t) ->
  (height ment t <= fuel)%nat ->
  exists y, after_in ment t x None = Some y /\
            ArenaQuery.arena_index_after fuel a x = Ret (ArenaKeyProofs.olink y).
Proof. exact ArenaQueryProofs.arena_index_after_refines. Qed.

Theorem C09_arena_index_before : forall (a: ArenaModel.astate ment) (t: tree ment) (x: N) (fuel: nat),
  ArenaProofs.Rep a ArenaModel.EMPTY (ArenaModel.aroot a) t -> NoDup (slots ment t) -> In x (slots ment t) ->
  (height ment t <= fuel)%nat ->
  exists y, before_in ment t x None = Some y /\
            ArenaQuery.arena_index_before fuel a x = Ret (ArenaKeyProofs.olink y).
Proof. exact ArenaQueryProofs.arena_index_before_refines. Qed.
