(** * C06 — expiring-key tree: exact lookup finds every live key wherever it sits. *)
From Coq Require Import List NArith ZArith Lia.
Import ListNotations.
Require Import ITree.Model.Common ITree.Model.RBTree ITree.Model.MapModel ITree.Model.KeyModel.
Require Import ITree.Spec.Spec ITree.Proofs.KeyListProofs ITree.Proofs.KeyProofs ITree.Proofs.KeyRefine.

(* [kobs_run] requires of every [KGet t k] output that it equals [ref_get b t k]: the value of the entry
   of the bag with key k whose expiration is > t, None if there is none — for every valid history, so
   for every position the entry can have in the tree *)
Theorem C06_get_value : forall (cap: N) (h: list kop), kvalid_hist ([], None) h ->
  exists s outs, k_run (k_new cap) h = Ret (s, outs) /\ kobs_run ([], None) h outs.
Proof. exact keytree_refines. Qed.

(* the lookup step itself, from any related state *)
Theorem C06_get_step : forall (s: kstate) (b: bag) (now: option Z) (t k: Z), RKT s b now -> time_ok now t ->
  exists s' out evs, k_step s (KGet t k) = Ret (s', out, evs) /\ out = KOVal (ref_get b t k) /\ RKT s' b (Some t).
Proof.
  intros s b now t k HR T. destruct (k_step_refines s b now (KGet t k) HR T) as (s' & out & evs & H1 & H2 & H3 & _).
  exists s', out, evs. split; [exact H1|]. split; [exact H2|exact H3].
Qed.

(* root, left subtree, right subtree, and a key that expired *)
Example C06_example :
  let h := [KIns 10 100 1 0; KIns 5 100 2 0; KIns 15 4 3 0; KGet 0 5; KGet 0 15; KGet 0 10; KGet 0 7; KGet 4 15; KGet 4 5] in
  kvalid_hist ([], None) h /\
  exists s, k_run (k_new 8) h = Ret (s, [KONone; KONone; KONone; KOVal (Some 2%Z); KOVal (Some 3%Z); KOVal (Some 1%Z);
                                         KOVal None; KOVal None; KOVal (Some 2%Z)]).
Proof. split; [kvalid_tac|]. eexists. vm_compute. reflexivity. Qed.
