(** * C06 — expiring-key tree: exact lookup finds every live key wherever it sits. *)
From Coq Require Import List NArith ZArith Lia.
Import ListNotations.
Require Import ITree.Model.Common ITree.Model.RBTree ITree.Model.MapModel ITree.Model.KeyModel.
Require Import ITree.Spec.Spec ITree.Proofs.KeyListProofs ITree.Proofs.KeyProofs ITree.Proofs.KeyRefine.
Require ITree.Model.ArenaModel ITree.Model.ArenaKey ITree.Proofs.ArenaProofs ITree.Proofs.ArenaKeyProofs.

(* [kobs_run] requires of every [KGet t k] output that it equals [ref_get b t k]: the value of the entry
   of the bag with key k whose expiration is > t, None if there is none — for every valid history, so
   for every position the entry can have in the tree *)
Theorem C06_get_value : forall (cap: N) (h: list kop), kvalid_hist ([], None) h ->
  exists s outs, k_run (k_new cap) h = Ret (s, outs) /\ kobs_run ([], None) h outs.
Proof. exact keytree_refines. Qed.

(* the lookup step itself, from any related state *)
Theorem C06_get_step : forall (s: kstate) (b: bag) (now: option Z) (t k: Z), RKT s b now -> time_ok now t ->
  exists s' out evs, k_step s (KGet t k) = Ret (s', out, evs) /\ out = KOVal (ref_get b t k) /\ RKT s' b (Some t).
Proof.
  intros s b now t k HR T. destruct (k_step_refines s b now (KGet t k) HR T) as (s' & out & evs & H1 & H2 & H3 & _).
  exists s', out, evs. split; [exact H1|]. split; [exact H2|exact H3].
Qed.

(* root, left subtree, right subtree, and a key that expired *)
Example C06_example :
  let h := [KIns 10 100 1 0; KIns 5 100 2 0; KIns 15 4 3 0; KGet 0 5; KGet 0 15; KGet 0 10; KGet 0 7; KGet 4 15; KGet 4 5] in
  kvalid_hist ([], None) h /\
  exists s, k_run (k_new 8) h = Ret (s, [KONone; KONone; KONone; KOVal (Some 2%Z); KOVal (Some 3%Z); KOVal (Some 1%Z);
                                         KOVal None; KOVal None; KOVal (Some 2%Z)]).
Proof. split; [kvalid_tac|]. eexists. vm_compute. reflexivity. Qed.

(* get_value as the code performs it (expire_root, then the descent with expire_left / expire_right,
   each removal a full delete_index on the parent-pointer arena): the arena-level search returns the
   answer of the tree-level [k_get_value] - the one the theorems above relate to the reference
   semantics - and leaves an arena that represents the model's tree *)
Theorem C06_arena_get_value : forall (time key: Z) (s: kstate) (a: ArenaModel.astate kent) (s': kstate)
  (out: option Z) (evs: list event) (dfuel efuel sfuel: nat),
  KInv s -> ArenaProofs.Rep a ArenaModel.EMPTY (ArenaModel.aroot a) (kroot s) ->
  (size kent (kroot s) <= dfuel)%nat -> (size kent (kroot s) < efuel)%nat -> (S (size kent (kroot s)) < sfuel)%nat ->
  k_get_value s time key = Ret (s', out, evs) ->
  exists a', ArenaKey.arena_search_value dfuel efuel sfuel (a, kpl s) time key = Ret ((a', kpl s'), out) /\
    ArenaProofs.Rep a' ArenaModel.EMPTY (ArenaModel.aroot a') (kroot s').
Proof.
  intros time key s a s' out evs dfuel efuel sfuel HI HR Hd He Hf H.
  exact (ArenaKeyProofs.arena_search_value_refines s a s' out evs dfuel efuel sfuel time HI HR Hd He Hf key H).
Qed.
