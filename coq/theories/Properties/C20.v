(** * C20 — expiring collections hand only live keys to the caller's comparison code.
    Every function of the tree model returns the list of its callback events; an [EvCmp] event carries
    the stored entity handed to the caller's ordering / comparator closure. *)
From Coq Require Import List NArith ZArith.
Import ListNotations.
Require Import ITree.Model.Common ITree.Model.RBTree ITree.Model.KeyModel ITree.Model.ListModel.
Require Import ITree.Spec.Spec ITree.Proofs.KeyListProofs ITree.Proofs.KeyProofs ITree.Proofs.KeyRefine.

(* for every valid history h ++ [o] (o of any kind: insert, the three predecessor queries, exact
   lookup): the last operation runs to completion and every stored key it hands to comparison code is
   live at the operation's time (expiration > t) and is stored in the collection *)
Theorem C20_live_only : forall (cap: N) (h: list kop) (o: kop) (s: kstate) (outs: list kout),
  kvalid_hist ([], None) (h ++ [o]) -> k_run (k_new cap) h = Ret (s, outs) ->
  exists s' out evs, k_step s o = Ret (s', out, evs) /\
    forall ev, In ev evs -> fst (fst ev) = EvCmp ->
      live (op_time o) (snd (fst ev)) = true /\ In (snd (fst ev)) (ents kent (kroot s)).
Proof. exact cmp_sees_only_live. Qed.

(* the list variant: it searches only the purged buffer, and the purge (done or skipped through the
   cached earliest expiration) leaves exactly the live entries *)
Theorem C20_list_purged : forall (max_exp: Z) (s: klstate) (t: Z), min_ok s ->
  kbuf (kl_clear_expired max_exp s t) = filter (live t) (kbuf s).
Proof. exact clear_expired_buf. Qed.

Theorem C20_list_min_ok : forall (max_exp: Z) (h: list kop) (e: kent),
  In e (kbuf (fst (kl_run max_exp (kl_new max_exp) h))) -> (kmin (fst (kl_run max_exp (kl_new max_exp) h)) <= kexp e)%Z.
Proof. exact min_exp_reachable. Qed.
