(** * C15 — the masks of the 63-node implicit heap (src/seg/heap.rs).
    Only statements; proofs are in Proofs/HeapSweep.v (complete enumeration of the 528 bucket ranges
    a <= b < 32, and of all 528 x 528 pairs of them, by vm_compute).
    [place_mask a b] = Heap32::range_to_place_mask (the places an insert of buckets a..b writes to),
    [visit_mask c d] = Heap32::range_to_intersect_mask (the places a query of buckets c..d looks at),
    [bits] = BitIter, [lowbit] = u64::trailing_zeros. *)
From Coq Require Import List NArith Bool.
Import ListNotations.
Require Import ITree.Model.Heap ITree.Model.Checkers ITree.Proofs.HeapSweep.
Local Open Scope N_scope.

(* a stored range and a queried range share a place exactly when the bucket ranges overlap *)
Theorem C15_meet_iff_overlap : forall a b c d : N, a <= b -> b < 32 -> c <= d -> d < 32 ->
  (N.land (place_mask a b) (visit_mask c d) <> 0 <-> (a <= d /\ c <= b)).
Proof. exact meet_iff_overlap. Qed.

(* the places of an insert tile its bucket range: for every bucket x in 0..31 exactly one stored-at
   place is x's leaf or an ancestor of it iff a <= x <= b, none otherwise; at most 8 places *)
Theorem C15_tiling : forall a b : N, a <= b -> b < 32 ->
  tiles_ok (bits (place_mask a b)) a b = true.
Proof. exact tiling. Qed.

(* ... what the boolean checker means *)
Theorem C15_tiles_ok_spec : forall ps a b, tiles_ok ps a b = true ->
  (length ps <= 8)%nat /\
  forall x, x < 32 -> covers ps x = (if (a <=? x) && (x <=? b) then 1%nat else 0%nat).
Proof. exact tiles_ok_spec. Qed.

(* ... and the same tiling stated without the checker *)
Theorem C15_tiling_prop : forall a b : N, a <= b -> b < 32 ->
  let ps := bits (place_mask a b) in
  NoDup ps /\ (length ps <= 8)%nat /\
  forall x, x < 32 ->
    (a <= x <= b -> exists p, In p ps /\ In p (ancestors 6 (x + 31)) /\
                      forall q, In q ps -> In q (ancestors 6 (x + 31)) -> q = p) /\
    (~ (a <= x <= b) -> forall q, In q ps -> ~ In q (ancestors 6 (x + 31))).
Proof. exact tiling_prop. Qed.

(* both masks use only the 63 places (bits 0..62) and an insert always stores somewhere *)
Theorem C15_masks_fit : forall a b : N, a <= b -> b < 32 ->
  place_mask a b < 2^63 /\ visit_mask a b < 2^63 /\ place_mask a b <> 0.
Proof. exact masks_fit. Qed.

(* the place at which the iterator reports an overlapping copy (lowest common bit) is one the query
   visits and one the copy is stored at *)
Theorem C15_lowbit_common : forall a b c d : N, a <= b -> b < 32 -> c <= d -> d < 32 ->
  a <= d -> c <= b ->
  In (lowbit (N.land (place_mask a b) (visit_mask c d))) (bits (visit_mask c d)) /\
  In (lowbit (N.land (place_mask a b) (visit_mask c d))) (bits (place_mask a b)).
Proof. exact lowbit_common. Qed.

(* no place of a range lies behind the leaf of its last bucket (what makes Layout::count enough) *)
Theorem C15_mask_bits_bound : forall a b : N, a <= b -> b < 32 ->
  (forall i, In i (bits (place_mask a b)) -> i <= 31 + b) /\
  (forall i, In i (bits (visit_mask a b)) -> i <= 31 + b).
Proof. exact mask_bits_bound. Qed.

(** General facts about BitIter / trailing_zeros (all words, no enumeration) *)
Theorem C15_bits_In : forall w i, In i (bits w) <-> (N.testbit w i = true /\ i < 64).
Proof. exact bits_In. Qed.
Theorem C15_bits_increasing : forall w, Sorted.StronglySorted N.lt (bits w).
Proof. exact bits_sorted. Qed.
Theorem C15_bits_NoDup : forall w, NoDup (bits w).
Proof. exact bits_NoDup. Qed.
Theorem C15_lowbit_64_iff : forall w, lowbit w = 64 <-> w mod 2^64 = 0.
Proof. exact lowbit_64_iff. Qed.
Theorem C15_lowbit_spec : forall w, w <> 0 -> w < 2^64 ->
  N.testbit w (lowbit w) = true /\ forall j, j < lowbit w -> N.testbit w j = false.
Proof. exact lowbit_spec. Qed.
Theorem C15_bits_land : forall x y i, In i (bits (N.land x y)) <-> In i (bits x) /\ In i (bits y).
Proof. exact bits_land. Qed.

(** Non-vacuity: the hypotheses hold on non-trivial instances *)
Example C15_ex_ranges : (3 <= 17 /\ 17 < 32 /\ 17 <= 20 /\ 20 < 32 /\ 3 <= 20 /\ 17 <= 17)
  /\ N.land (place_mask 3 17) (visit_mask 17 20) <> 0
  /\ bits (place_mask 3 17) = [4; 8; 23; 34]
  /\ lowbit (N.land (place_mask 3 17) (visit_mask 17 20)) = 23.
Proof.
  split; [repeat split; (apply N.leb_le || apply N.ltb_lt); reflexivity|].
  split; [|split]; vm_compute; [discriminate|reflexivity|reflexivity].
Qed.
