(** * C13 — the sorted-Vec variants (MapList, SetList, KeyExpList) refine the same reference
    semantics as the trees.  Only statements; the proofs are in Proofs/ListGen.v (binary search and
    generic list facts), Proofs/ListProofs.v (MapList / SetList) and Proofs/KeyListProofs.v
    (KeyExpList).

    Vocabulary (all defined in Proofs/):
    - [sorted A key l]: the keys of [l] are strictly increasing;
    - [monotone f]: for a < b, (f b = Lt -> f a = Lt) and (f a = Gt -> f b = Gt);
    - [one_eq A key f l]: the stored keys that [f] answers Eq on are all equal;
    - [R l m] := sorted l /\ Permutation l m /\ NoDup (map fst m)   (buffer / association list);
    - [valid_pos l h]: the position is inside the buffer; [entry_at l h]: the entry designated by an
      optional position;
    - [RK s b now]: the buffer is sorted, [kmin] is a lower bound of the stored expirations, and the
      bag [b] (everything inserted since the last clear) is the buffer plus entries that had expired
      at the latest time [now]; [time_ok now t]: t is not earlier than [now];
    - user-level histories [uop] / [ul_run] / [ua_run] / [uvalid_hist] for the map and set lists and
      [kop] / [kl_run] / [kr_step] / [kvalid_hist] / [kobs_run] for the expiring list. *)
From Coq Require Import List NArith ZArith Bool Permutation.
Import ListNotations.
Require Import ITree.Model.Common ITree.Model.MapModel ITree.Model.KeyModel ITree.Model.ListModel.
Require Import ITree.Spec.Spec.
Require Import ITree.Proofs.ListGen ITree.Proofs.ListProofs ITree.Proofs.KeyListProofs.
Local Open Scope Z_scope.

(** ** 1. binary search (the contract of [binary_search_by] assumed by the model) *)

(* Ok i: the i-th element is the first Eq element and everything before it is Lt
   (true of the model without any hypothesis) *)
Theorem C13_bsearch_found : forall (A: Type) (key_of: A -> Z) (f: Z -> comparison) (l: list A) (i: nat),
  bsearch A key_of f l = (true, i) <->
  (Forall (fun x => f (key_of x) = Lt) (firstn i l) /\
   exists x, nth_error l i = Some x /\ f (key_of x) = Eq).
Proof. exact bsearch_found_iff. Qed.

(* Err i: the first i elements are Lt, all the others Gt *)
Theorem C13_bsearch_notfound : forall (A: Type) (key_of: A -> Z) (f: Z -> comparison) (l: list A) (i: nat),
  sorted A key_of l -> monotone f ->
  (bsearch A key_of f l = (false, i) <->
   ((i <= length l)%nat /\
    Forall (fun x => f (key_of x) = Lt) (firstn i l) /\
    Forall (fun x => f (key_of x) = Gt) (skipn i l))).
Proof. exact bsearch_notfound_iff. Qed.

(* in both cases the index is the number of Lt elements *)
Theorem C13_bsearch_index : forall (A: Type) (key_of: A -> Z) (f: Z -> comparison) (l: list A),
  sorted A key_of l -> monotone f ->
  snd (bsearch A key_of f l) = length (filter (fun x => isLt (f (key_of x))) l).
Proof. exact bsearch_index_count. Qed.

Theorem C13_cmp_to_monotone : forall k, monotone (cmp_to k) /\ (forall a, cmp_to k a = Eq <-> a = k).
Proof. intro k. split; [exact (monotone_cmp_to k) | exact (cmp_to_eq k)]. Qed.

Example C13_bsearch_ex :
  sorted ment mkey exL /\
  bsearch ment mkey (cmp_to 3) exL = (true, 1%nat) /\
  bsearch ment mkey (cmp_to 4) exL = (false, 2%nat) /\
  bsearch ment mkey (fun k => if k <? 2 then Lt else if k <? 6 then Eq else Gt) exL = (true, 1%nat).
Proof. split; [exact (proj1 ex_R) | vm_compute; auto]. Qed.

(** ** 2. MapList / SetList, one operation at a time *)

Theorem C13_map_insert : forall l m k v,
  R l m -> a_lookup m k = None ->
  exists l', ml_step l (MIns k v) = Ret (l', ONone) /\ R l' (a_insert m k v).
Proof. exact step_insert. Qed.

Example C13_map_insert_ex :
  R exL exM /\ a_lookup exM 4 = None /\
  ml_step exL (MIns 4 40) = Ret ([(1, 10); (3, 30); (4, 40); (5, 50)], ONone).
Proof. split; [exact ex_R | vm_compute; auto]. Qed.

(* the key must be absent: a second insert of a stored key leaves two entries with that key *)
Example C13_map_insert_present_refuted :
  let l := [(1, 10)] in
  R l l /\ ml_step l (MIns 1 20) = Ret ([(1, 20); (1, 10)], ONone) /\
  ~ sorted ment mkey [(1, 20); (1, 10)].
Proof. exact insert_present_breaks_order. Qed.

Theorem C13_map_delete : forall l m k,
  R l m -> exists l', ml_step l (MDel k) = Ret (l', ONone) /\ R l' (a_remove m k).
Proof. exact step_delete. Qed.

Example C13_map_delete_ex :
  ml_step exL (MDel 3) = Ret ([(1, 10); (5, 50)], ONone) /\ ml_step exL (MDel 4) = Ret (exL, ONone).
Proof. vm_compute; auto. Qed.

Theorem C13_map_get : forall l m k,
  R l m -> ml_step l (MGet k) = Ret (l, OEnt (a_lookup m k)).
Proof. exact step_get. Qed.

Example C13_map_get_ex :
  ml_step exL (MGet 5) = Ret (exL, OEnt (Some (5, 50))) /\ a_lookup exM 5 = Some (5, 50).
Proof. vm_compute; auto. Qed.

Theorem C13_map_is_empty : forall l m,
  R l m -> ml_step l MIsEmpty = Ret (l, OBool (match m with [] => true | _ => false end)).
Proof. exact step_is_empty. Qed.

Theorem C13_map_clear : forall l, ml_step l MClear = Ret ([], ONone) /\ R [] [].
Proof. exact step_clear. Qed.

(* first_index_less: the position of the predecessor entry, EMPTY_REF exactly when there is none *)
Theorem C13_map_first : forall l m q,
  R l m ->
  exists h, ml_step l (MFirst q) = Ret (l, OHandle h) /\
            valid_opos l h /\ entry_at l h = a_pred m q /\
            (h = None <-> a_pred m q = None).
Proof. exact step_first. Qed.

Example C13_map_first_ex :
  ml_step exL (MFirst 4) = Ret (exL, OHandle (Some 1%N)) /\ a_pred exM 4 = Some (3, 30) /\
  ml_step exL (MFirst 0) = Ret (exL, OHandle None) /\ a_pred exM 0 = None.
Proof. vm_compute; auto. Qed.

Theorem C13_map_first_by : forall l m f,
  R l m -> monotone f -> one_eq ment mkey f m ->
  exists h, ml_step l (MFirstBy f) = Ret (l, OHandle h) /\
            valid_opos l h /\ entry_at l h = a_pred_by m f /\
            (h = None <-> a_pred_by m f = None).
Proof. exact step_first_by. Qed.

Example C13_map_first_by_ex :
  let f := fun k => if k <? 2 then Lt else if k <? 4 then Eq else Gt in
  ml_step exL (MFirstBy f) = Ret (exL, OHandle (Some 1%N)) /\ a_pred_by exM f = Some (3, 30).
Proof. vm_compute; auto. Qed.

(* "at most one stored key is Eq" cannot be dropped: the buffer yields the first Eq entry in key
   order, the reference the first one in insertion order *)
Example C13_map_first_by_many_eq_refuted :
  let f := fun _ : Z => Eq in
  let l := [(1, 10); (2, 20)] in
  let m := [(2, 20); (1, 10)] in
  R l m /\ monotone f /\
  ml_step l (MFirstBy f) = Ret (l, OHandle (Some 0%N)) /\
  entry_at l (Some 0%N) = Some (1, 10) /\ a_pred_by m f = Some (2, 20).
Proof. exact first_by_needs_one_eq. Qed.

(* first_index_less is first_index_less_by with the key comparator, on both sides *)
Theorem C13_map_first_by_cmp_to : forall l m q,
  ml_step l (MFirstBy (cmp_to q)) = ml_step l (MFirst q) /\
  (NoDup (map fst m) -> a_pred_by m (cmp_to q) = a_pred m q).
Proof. intros l m q. split; [exact (step_first_by_cmp_to l q) | exact (a_pred_by_cmp_to m q)]. Qed.

Theorem C13_map_value_at : forall l i,
  valid_pos l i ->
  exists e, nth_error l (N.to_nat i) = Some e /\ ml_step l (MValAt i) = Ret (l, OEnt (Some e)).
Proof. exact step_value_at. Qed.

Theorem C13_map_set_at : forall l m i e v,
  R l m -> nth_error l (N.to_nat i) = Some e ->
  exists l', ml_step l (MSetAt i v) = Ret (l', ONone) /\ R l' (a_update m (fst e) v).
Proof. exact step_set_at. Qed.

Example C13_map_set_at_ex :
  nth_error exL (N.to_nat 1) = Some (3, 30) /\
  ml_step exL (MSetAt 1 31) = Ret ([(1, 10); (3, 31); (5, 50)], ONone) /\
  a_update exM 3 31 = [(3, 31); (5, 50); (1, 10)].
Proof. vm_compute; auto. Qed.

Theorem C13_map_delete_at : forall l m i e,
  R l m -> nth_error l (N.to_nat i) = Some e ->
  exists l', ml_step l (MDelAt i) = Ret (l', ONone) /\ R l' (a_remove m (fst e)).
Proof. exact step_delete_at. Qed.

Example C13_map_delete_at_ex :
  ml_step exL (MDelAt 1) = Ret ([(1, 10); (5, 50)], ONone) /\ a_remove exM 3 = [(5, 50); (1, 10)].
Proof. vm_compute; auto. Qed.

(* index_after / index_before as repaired *)
Theorem C13_map_after : forall l m i e,
  R l m -> nth_error l (N.to_nat i) = Some e ->
  exists h, ml_step l (MAfter i) = Ret (l, OHandle h) /\
            valid_opos l h /\ entry_at l h = a_next m (fst e) /\
            (h = None <-> S (N.to_nat i) = length l).
Proof. exact step_after. Qed.

Theorem C13_map_before : forall l m i e,
  R l m -> nth_error l (N.to_nat i) = Some e ->
  exists h, ml_step l (MBefore i) = Ret (l, OHandle h) /\
            valid_opos l h /\ entry_at l h = a_prev m (fst e) /\
            (h = None <-> i = 0%N).
Proof. exact step_before. Qed.

Example C13_map_after_before_ex :
  ml_step exL (MAfter 1) = Ret (exL, OHandle (Some 2%N)) /\ a_next exM 3 = Some (5, 50) /\
  ml_step exL (MAfter 2) = Ret (exL, OHandle None) /\ a_next exM 5 = None /\
  ml_step exL (MBefore 1) = Ret (exL, OHandle (Some 0%N)) /\ a_prev exM 3 = Some (1, 10) /\
  ml_step exL (MBefore 0) = Ret (exL, OHandle None) /\ a_prev exM 1 = None.
Proof. vm_compute. repeat split. Qed.

(* no operation fails when the positions it is given are inside the buffer *)
Theorem C13_map_no_err : forall l o, mop_valid_pos l o -> exists r, ml_step l o = Ret r.
Proof. exact ml_step_no_err. Qed.

(** ** MapList / SetList, whole histories of user-level operations *)
Theorem C13_maplist_refines : forall h,
  uvalid_hist [] h ->
  exists l', ul_run [] h = Ret (l', snd (ua_run [] h)) /\ R l' (fst (ua_run [] h)).
Proof. exact maplist_refines. Qed.

(* SetList is the same model: the stored value carries its key *)
Theorem C13_setlist_refines : forall h,
  uvalid_hist [] h ->
  exists l', ul_run [] h = Ret (l', snd (ua_run [] h)) /\ R l' (fst (ua_run [] h)).
Proof. exact maplist_refines. Qed.

Example C13_maplist_refines_ex :
  uvalid_hist [] ex_hist /\
  ul_run [] ex_hist =
  Ret ([], [UONone; UONone; UONone; UOEnt (Some (3, 30)); UOEnt (Some (3, 30));
            UOEnt (Some (5, 50)); UOEnt (Some (1, 10)); UOEnt2 (Some (1, 11)) (Some (3, 30));
            UOEnt2 (Some (3, 30)) (Some (1, 11)); UOEnt2 (Some (5, 50)) None;
            UOEnt2 (Some (1, 11)) None; UOEnt (Some (3, 30)); UONone; UOBool false; UOEnt None;
            UOEnt None; UONone; UOBool true]).
Proof. split; [exact ex_hist_valid | vm_compute; reflexivity]. Qed.

(** ** 3. KeyExpList *)

(* the cached minimum never exceeds a stored expiration, after ANY history (no contract needed) *)
Theorem C13_min_exp : forall (max_exp: Z) (h: list kop) (e: kent),
  let s := fst (kl_run max_exp (kl_new max_exp) h) in
  In e (kbuf s) -> kmin s <= kexp e.
Proof. exact min_exp_reachable. Qed.

(* so the skipped purge hides nothing *)
Theorem C13_min_exp_shortcut : forall (s: klstate) (t: Z),
  min_ok s -> t < kmin s -> forall e, In e (kbuf s) -> live t e = true.
Proof. exact shortcut_all_live. Qed.

Example C13_min_exp_ex :
  kl_run 100 (kl_new 100) [KIns 4 5 40 0; KIns 1 3 10 1; KIns 2 9 20 2; KGet 3 1] =
  ({| kbuf := [ {| kk := 2; kexp := 9; kval := 20 |}; {| kk := 4; kexp := 5; kval := 40 |} ];
      kmin := 5 |}, [KONone; KONone; KONone; KOVal None]).
Proof. vm_compute. reflexivity. Qed.

(* clear_expired = filter by liveness, whether or not the shortcut fires; order and bound kept *)
Theorem C13_clear_expired : forall (max_exp: Z) (s: klstate) (t: Z),
  min_ok s ->
  kbuf (kl_clear_expired max_exp s t) = filter (live t) (kbuf s) /\
  min_ok (kl_clear_expired max_exp s t) /\
  (sorted kent kk (kbuf s) -> sorted kent kk (kbuf (kl_clear_expired max_exp s t))).
Proof.
  intros max_exp s t MO. split; [exact (clear_expired_buf max_exp s t MO)|].
  split; [exact (clear_expired_min_ok max_exp s t MO) | exact (clear_expired_sorted max_exp s t MO)].
Qed.

Example C13_clear_expired_ex :
  min_ok ex_kstate /\
  kl_clear_expired 100 ex_kstate 3 = ex_kstate /\
  kl_clear_expired 100 ex_kstate 6 =
    {| kbuf := [ {| kk := 2; kexp := 9; kval := 20 |} ]; kmin := 9 |}.
Proof. split; [exact (proj1 (proj2 ex_RK)) | vm_compute; auto]. Qed.

(* what RK gives (the form of the invariant suggested for this property) *)
Theorem C13_key_relation : forall (max_exp: Z) s b now,
  RK s b now ->
  sorted kent kk (kbuf s) /\ min_ok s /\ incl (kbuf s) b /\
  (forall t e, time_ok now t -> In e b -> kexp e > t -> In e (kbuf s)) /\
  (forall t, time_ok now t -> key_inj kent kk (alive t b)) /\
  (forall t, time_ok now t -> Permutation (alive t b) (kbuf (kl_clear_expired max_exp s t))).
Proof.
  intros max_exp s b now HR. split; [apply HR|]. split; [apply HR|].
  split; [exact (RK_incl s b now HR)|].
  split; [intros t e T He Hl; exact (RK_live_stored s b now t e HR T He Hl)|].
  split; [intros t T; exact (alive_key_inj max_exp s b now t HR T)|].
  intros t T. exact (proj2 (proj2 (RK_query max_exp s b now t HR T))).
Qed.

Theorem C13_key_insert : forall (max_exp: Z) s b now ne t,
  RK s b now -> time_ok now t -> fresh_key b t (kk ne) ->
  RK (kl_insert max_exp s ne t) (ne :: b) (Some t).
Proof. exact RK_insert. Qed.

Theorem C13_key_get : forall (max_exp: Z) s b now t q,
  RK s b now -> time_ok now t ->
  snd (kl_get max_exp s t q) = ref_get b t q /\
  RK (fst (kl_get max_exp s t q)) b (Some t).
Proof.
  intros max_exp s b now t q HR T. split; [exact (RK_get max_exp s b now t q HR T)|].
  exact (proj1 (RK_query max_exp s b now t HR T)).
Qed.

Theorem C13_key_first_less : forall (max_exp: Z) s b now t q,
  RK s b now -> time_ok now t ->
  snd (kl_first_less max_exp s t q) = ref_less b t q /\
  RK (fst (kl_first_less max_exp s t q)) b (Some t).
Proof.
  intros max_exp s b now t q HR T. split; [exact (RK_first_less max_exp s b now t q HR T)|].
  exact (proj1 (RK_query max_exp s b now t HR T)).
Qed.

Theorem C13_key_first_less_or_equal : forall (max_exp: Z) s b now t q,
  RK s b now -> time_ok now t ->
  snd (kl_first_less_or_equal_by max_exp s t (cmp_to q)) = ref_less_eq b t q /\
  RK (fst (kl_first_less_or_equal_by max_exp s t (cmp_to q))) b (Some t).
Proof.
  intros max_exp s b now t q HR T.
  split; [exact (RK_first_less_or_equal max_exp s b now t q HR T)|].
  exact (proj1 (RK_query max_exp s b now t HR T)).
Qed.

Theorem C13_key_first_less_or_equal_by : forall (max_exp: Z) s b now t f,
  RK s b now -> time_ok now t -> monotone f -> one_eq kent kk f (alive t b) ->
  snd (kl_first_less_or_equal_by max_exp s t f) = ref_less_eq_by b t f /\
  RK (fst (kl_first_less_or_equal_by max_exp s t f)) b (Some t).
Proof.
  intros max_exp s b now t f HR T M O.
  split; [exact (RK_first_less_or_equal_by max_exp s b now t f HR T M O)|].
  exact (proj1 (RK_query max_exp s b now t HR T)).
Qed.

Theorem C13_key_export : forall (max_exp: Z) s b now t,
  RK s b now -> time_ok now t -> kl_export max_exp s t = ref_export b t.
Proof. exact RK_export. Qed.

(* is_empty reads the buffer, purged or not: only two implications hold *)
Theorem C13_key_is_empty : forall (max_exp: Z) s b now,
  RK s b now ->
  (b = [] -> kbuf s = []) /\
  (kbuf s = [] -> forall t, time_ok now t -> alive t b = []).
Proof. exact RK_is_empty. Qed.

Example C13_key_queries_ex :
  RK ex_kstate ex_kbag (Some 3) /\ time_ok (Some 3) 6 /\
  kl_get 100 ex_kstate 6 2 = ({| kbuf := [ {| kk := 2; kexp := 9; kval := 20 |} ]; kmin := 9 |}, Some 20) /\
  ref_get ex_kbag 6 2 = Some 20 /\
  snd (kl_first_less 100 ex_kstate 3 4) = Some 20 /\ ref_less ex_kbag 3 4 = Some 20 /\
  snd (kl_first_less_or_equal_by 100 ex_kstate 3 (cmp_to 4)) = Some 40 /\
  ref_less_eq ex_kbag 3 4 = Some 40 /\
  kl_export 100 ex_kstate 3 = [20; 40] /\ ref_export ex_kbag 3 = [20; 40] /\
  kl_export 100 ex_kstate 6 = [20] /\ ref_export ex_kbag 6 = [20].
Proof. split; [exact ex_RK|]. vm_compute. repeat split; congruence. Qed.

(** ** KeyExpList, whole histories.  [kobs_run] demands, step by step, that the output equals the
    reference output [snd (kr_step st o)] — except for is_empty, where it demands the two
    implications above. *)
Theorem C13_keylist_refines : forall (max_exp: Z) (h: list kop),
  kvalid_hist ([], None) h ->
  kobs_run ([], None) h (snd (kl_run max_exp (kl_new max_exp) h)).
Proof. exact keylist_refines. Qed.

(* and the relation holds in every state reached under the contract *)
Theorem C13_keylist_invariant : forall (max_exp: Z) (h: list kop),
  kvalid_hist ([], None) h ->
  let s := fst (kl_run max_exp (kl_new max_exp) h) in
  let st := kr_state ([], None) h in
  sorted kent kk (kbuf s) /\ incl (kbuf s) (fst st) /\
  (forall t e, time_ok (snd st) t -> In e (fst st) -> kexp e > t -> In e (kbuf s)) /\
  (forall t, time_ok (snd st) t -> key_inj kent kk (alive t (fst st))).
Proof. exact keylist_invariant. Qed.

Example C13_keylist_refines_ex :
  kvalid_hist ([], None) ex_khist /\
  snd (kl_run 100 (kl_new 100) ex_khist) =
  [KONone; KONone; KONone; KOVal (Some 10); KOVal (Some 20); KOVal (Some 40); KOBool false;
   KOVal (Some 20); KOList [20; 40]; KONone; KOVal None; KOList [11; 20]; KONone;
   KOVal (Some 41); KOBool false; KONone; KOBool true; KONone; KOVal (Some 70)].
Proof. split; [exact ex_khist_valid | vm_compute; reflexivity]. Qed.

(* the contract "times do not decrease" cannot be dropped: after a purge at time 10 a query at
   the earlier time 3 no longer sees an entry that is live at time 3 *)
Example C13_keylist_time_order_needed :
  let h := [KIns 1 5 10 0; KGet 10 1; KGet 3 1] in
  snd (kl_run 100 (kl_new 100) h) = [KONone; KOVal None; KOVal None] /\
  ref_get [ {| kk := 1; kexp := 5; kval := 10 |} ] 3 1 = Some 10.
Proof. vm_compute. split; reflexivity. Qed.

(* is_empty is not a function of the reference state: same bag, same latest time, different
   answers (the export does not purge the stored buffer, the query does) *)
Example C13_keylist_is_empty_not_determined :
  let h1 := [KIns 1 5 10 0; KGet 7 9; KIsEmpty] in
  let h2 := [KIns 1 5 10 0; KExport 7; KIsEmpty] in
  kr_state ([], None) h1 = kr_state ([], None) h2 /\
  snd (kl_run 100 (kl_new 100) h1) = [KONone; KOVal None; KOBool true] /\
  snd (kl_run 100 (kl_new 100) h2) = [KONone; KOList []; KOBool false].
Proof. vm_compute. repeat split. Qed.
