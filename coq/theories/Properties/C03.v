(** * C03 — a segment-tree query yields every live value whose bucket range meets that of the
    query range exactly once, and nothing else; a partially consumed query yields a prefix;
    no operation of a valid history fails.
    Only statements; proofs are in Proofs/ (SegMasks, SegScan, SegInv, SegProofs).

    - [seg_valid L h]: every insert / query range satisfies [lmin L <= a <= b <= lmax L] and the
      query times do not decrease between two clears.
    - [inserted h]: the entries [(a, b, v)] inserted since the last clear, in insertion order.
    - [ref_query L ins a b t] (Spec.v): the values of [ins] with [exp >= t] whose bucket range
      meets that of [a, b].
    - a query [SQuery a b t n] makes [n] calls of [next] ([n = None]: until exhausted). *)
From Coq Require Import List NArith ZArith Permutation.
Import ListNotations.
Require Import ITree.Model.Common ITree.Model.SegModel ITree.Spec.Spec.
Require Import ITree.Proofs.SegInv ITree.Proofs.SegProofs.
Require ITree.Proofs.SegExtras.

(* the output of any query of a valid history is a prefix (everything, when fully consumed) of
   some arrangement of the reference answer: each live overlapping value once per insertion *)
Theorem C03_query : forall lo hi s0 h1 a b t n h2 s outs,
  seg_new lo hi = Some s0 ->
  seg_valid (lay s0) (h1 ++ SQuery a b t n :: h2) ->
  seg_run s0 (h1 ++ SQuery a b t n :: h2) = Ret (s, outs) ->
  exists Lst, Permutation Lst (ref_query (lay s0) (inserted h1) a b t) /\
              nth (length h1) outs [] = match n with Some k => firstn k Lst | None => Lst end.
Proof. exact seg_query_correct. Qed.

(* the same for all operations of the history at once ([outs_ok] is defined in SegProofs.v) *)
Theorem C03_query_all : forall lo hi s0 h s outs,
  seg_new lo hi = Some s0 -> seg_valid (lay s0) h -> seg_run s0 h = Ret (s, outs) ->
  outs_ok (lay s0) [] h outs.
Proof. exact seg_query_all. Qed.

(* a valid history never returns an error (no place index outside the chunk vector, no loop
   past its termination measure) *)
Theorem C03_total : forall lo hi s0 h,
  seg_new lo hi = Some s0 -> seg_valid (lay s0) h ->
  exists s outs, seg_run s0 h = Ret (s, outs).
Proof. exact seg_run_no_error. Qed.

Example C03_instance :
  exists s0 s outs,
    seg_new 0 128 = Some s0 /\
    seg_valid (lay s0) (ex_h1 ++ SQuery 0 128 6 (Some 2%nat) :: ex_h2) /\
    seg_run s0 (ex_h1 ++ SQuery 0 128 6 (Some 2%nat) :: ex_h2) = Ret (s, outs) /\
    nth (length ex_h1) outs [] = [(5, 8); (2, 9)]%Z /\
    ref_query (lay s0) (inserted ex_h1) 0 128 6 = [(2, 9); (4, 7); (5, 8)]%Z.
Proof. exact seg_query_instance. Qed.

(* when the domain has at most 32 points every bucket holds one point: two ranges share a bucket
   exactly when they intersect, so the answer is exactly the intersecting unexpired values *)
Theorem C03_small : forall lo hi L c d a b, layout_new lo hi = Some L -> (hi - lo + 1 <= 32)%Z ->
  bucket_overlap L c d a b = ((c <=? b)%Z && (a <=? d)%Z)%bool.
Proof. exact ITree.Proofs.SegExtras.small_domain_exact. Qed.
