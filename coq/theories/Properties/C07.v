(** * C07 — ordered export is exactly the live entries in key order; the list variant agrees. *)
From Coq Require Import List NArith ZArith Lia.
Import ListNotations.
Require Import ITree.Model.Common ITree.Model.RBTree ITree.Model.MapModel ITree.Model.KeyModel ITree.Model.ListModel.
Require Import ITree.Spec.Spec ITree.Proofs.KeyListProofs ITree.Proofs.KeyProofs ITree.Proofs.KeyRefine ITree.Proofs.KeyTheorems.
Require ITree.Model.ArenaModel ITree.Model.ArenaQuery ITree.Proofs.ArenaProofs ITree.Proofs.ArenaQueryProofs.

(* the export step from any state related to a bag: the values of exactly the entries of the bag with
   expiration > t, sorted by key ([ref_export]); the state is not changed *)
Theorem C07_export : forall (s: kstate) (b: bag) (now: option Z) (t: Z), RKT s b now -> time_ok now t ->
  k_step s (KExport t) = Ret (s, KOList (ref_export b t), []).
Proof.
  intros s b now t HR T. destruct (k_step_refines s b now (KExport t) HR T) as (s' & out & evs & H1 & H2 & _).
  simpl in H1. inversion H1; subst. unfold kobs_ok in H2. simpl in H2. rewrite <- H2. reflexivity.
Qed.

(* tree and sorted-list variant: for every valid history both run to completion and give the same
   answer to every operation (all exports included) *)
Theorem C07_list_agrees : forall (cap: N) (max_exp: Z) (h: list kop), kvalid_hist ([], None) h ->
  exists s outs, k_run (k_new cap) h = Ret (s, outs) /\ agree h outs (snd (kl_run max_exp (kl_new max_exp) h)).
Proof. exact tree_list_agree. Qed.

Example C07_example :
  let h := [KIns 10 5 1 0; KIns 5 7 2 0; KIns 15 9 3 0; KExport 4; KExport 5; KExport 7; KExport 9] in
  kvalid_hist ([], None) h /\
  exists s, k_run (k_new 8) h = Ret (s, [KONone; KONone; KONone; KOList [2; 1; 3]%Z; KOList [2; 3]%Z; KOList [3%Z]; KOList []]).
Proof. split; [kvalid_tac|]. eexists. vm_compute. reflexivity. Qed.

(* the export as the code performs it (src/key/array.rs, create_ordered_list: in-order traversal with
   an explicit stack of (index, left, right) records), on the arena: the list of the tree-level
   [k_export], within 3*size iterations *)
Theorem C07_arena_export : forall (a: ArenaModel.astate kent) (s: kstate) (time: Z) (fuel: nat),
  ArenaProofs.Rep a ArenaModel.EMPTY (ArenaModel.aroot a) (kroot s) -> (3 * KeyModel.ksize s < fuel)%nat ->
  ArenaQuery.arena_export fuel a time = Ret (k_export s time).
Proof. exact ArenaQueryProofs.arena_k_export. Qed.
