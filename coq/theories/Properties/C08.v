(** * C08 — map and set: predecessor handles designate the right entry for read / write / delete. *)
From Coq Require Import List NArith ZArith.
Import ListNotations.
Require Import ITree.Model.Common ITree.Model.RBTree ITree.Model.MapModel.
Require Import ITree.Spec.Spec ITree.Spec.MapSpec ITree.Proofs.MapProofs ITree.Proofs.MapTheorems.
Require ITree.Model.ArenaModel ITree.Model.ArenaQuery ITree.Proofs.ArenaProofs ITree.Proofs.ArenaKeyProofs ITree.Proofs.ArenaQueryProofs.

(* In every reachable state, for every probe: the handle is the empty sentinel exactly when no stored
   key is <= the probe ([a_pred] = None); otherwise reading through it yields the entry with the
   greatest key <= probe, writing changes exactly that entry ([a_update] of its key), deleting removes
   exactly that entry ([a_remove] of its key) — the abstraction of the resulting state is the
   reference result, and the representation invariant still holds. *)
Theorem C08_handle : forall (cap: N) (s: mstate) (m: amap) (q: Z), reachable cap s -> Rel s m ->
  (m_first s q = None <-> a_pred m q = None) /\
  (forall x, m_first s q = Some x -> exists e, m_value_at s x = Ret e /\ a_pred m q = Some e /\
     (forall v, exists s', m_set_at s x v = Ret s' /\ MInv s' /\ Rel s' (a_update m (fst e) v)) /\
     (exists s', m_delete_at s x = Ret s' /\ MInv s' /\ Rel s' (a_remove m (fst e)))).
Proof. exact handle_designates_pred. Qed.

(* the comparator form: for every comparator that is monotone on the stored keys with at most one
   Equal key, the handle read yields the reference predecessor (the Equal entry if one is stored, else
   the greatest Less entry) *)
Theorem C08_by : forall (s: mstate) (m: amap) (f: Z -> comparison), MInv s -> Rel s m ->
  monotone_on (stored m) f -> exists r, read_at s (m_first_by s f) = Ret r /\ a_pred_by m f = r.
Proof. exact first_by_is_pred. Qed.

(* the key-based and the comparator-based form agree *)
Theorem C08_by_agrees : forall (s: mstate) (q: Z), m_first s q = m_first_by s (cmp_to q).
Proof. exact first_by_agrees. Qed.

Example C08_example :
  let h := [UIns 5 50; UIns 2 20; UIns 8 80; UFirst 1; UFirst 2; UFirst 7; UFirst 9; UDelAt 7; UFirst 7; UWrite 100 81; UGet 8] in
  valid_history [] h /\ snd (a_run [] h) =
    [UNone; UNone; UNone; UEnt None; UEnt (Some (2, 20)%Z); UEnt (Some (5, 50)%Z); UEnt (Some (8, 80)%Z); UNone;
     UEnt (Some (2, 20)%Z); UNone; UEnt (Some (8, 81)%Z)].
Proof. vm_compute. repeat split. Qed.

(* the predecessor handle as the code computes it (search_first_less / search_first_less_by), on the
   parent-pointer arena: the handle of the tree-level [m_first_by] (EMPTY_REF for none), within
   height-many iterations *)
Theorem C08_arena_first_by : forall (a: ArenaModel.astate ment) (s: mstate) (f: Z -> comparison) (fuel: nat),
  ArenaProofs.Rep a ArenaModel.EMPTY (ArenaModel.aroot a) (root s) -> (height ment (root s) < fuel)%nat ->
  ArenaQuery.arena_search_first_less_by mkey fuel a f = Ret (ArenaKeyProofs.olink (m_first_by s f)).
Proof. intros a s f fuel HR Hf. exact (ArenaQueryProofs.arena_map_first_by a s HR f fuel Hf). Qed.
