(** * C12 — clear() makes every collection indistinguishable from a new one. *)
From Coq Require Import List NArith ZArith.
Import ListNotations.
Require Import ITree.Model.Common ITree.Model.RBTree ITree.Model.Pool ITree.Model.MapModel ITree.Model.KeyModel
  ITree.Model.ListModel.
Require Import ITree.Spec.MapSpec ITree.Proofs.MapProofs ITree.Proofs.MapTheorems
  ITree.Proofs.KeyListProofs ITree.Proofs.KeyProofs ITree.Proofs.KeyRefine ITree.Proofs.KeyTheorems.
Require ITree.Model.SegModel ITree.Proofs.SegProofs ITree.Proofs.SegExtras.
Require ITree.Model.ArenaModel ITree.Model.ArenaQuery ITree.Proofs.ArenaProofs ITree.Proofs.ArenaQueryProofs.

(* map / set tree: from any reachable state, after clear every valid history runs to completion with
   exactly the outputs it has on a new tree (whatever the capacity hints) *)
Theorem C12_map : forall (cap cap': N) (s: mstate) (h: list uop), reachable cap s -> valid_history [] h ->
  exists s1 s2 outs, u_run (m_clear s) h = Ret (s1, outs) /\ u_run (m_new cap') h = Ret (s2, outs).
Proof. exact map_clear_is_new. Qed.

(* expiring-key tree: it reports empty, and every later valid history (its clock may restart at any
   time) gets the same answers as on a new tree; [agree] compares every output except is_empty, which
   the reference semantics constrains but does not determine *)
Theorem C12_key : forall (cap cap': N) (h0: list kop) (s: kstate) (outs0: list kout) (h: list kop),
  kvalid_hist ([], None) h0 -> k_run (k_new cap) h0 = Ret (s, outs0) -> kvalid_hist ([], None) h ->
  k_is_empty (k_clear s) = true /\
  exists s1 s2 o1 o2, k_run (k_clear s) h = Ret (s1, o1) /\ k_run (k_new cap') h = Ret (s2, o2) /\ agree h o1 o2.
Proof. exact keytree_clear_is_new. Qed.

(* the three sorted-list variants: clear yields literally the state of a new list *)
Theorem C12_maplist : forall (l: lstate), ml_step l MClear = Ret ([], ONone).
Proof. reflexivity. Qed.

Theorem C12_keylist : forall (max_exp: Z) (s: klstate), kl_step max_exp s KClear = (kl_new max_exp, KONone).
Proof. reflexivity. Qed.

(* segment tree: after any valid history, clear yields literally the state of a new tree over the
   same domain, so every later history (its clock may restart) behaves as on a new tree *)
Theorem C12_seg : forall (lo hi: Z) (s0: SegModel.seg) (h: list SegModel.sop) (s: SegModel.seg) (outs: list (list SegModel.sval)),
  SegModel.seg_new lo hi = Some s0 -> ITree.Proofs.SegProofs.seg_valid (SegModel.lay s0) h ->
  SegModel.seg_run s0 h = Ret (s, outs) -> SegModel.seg_clear s = s0.
Proof. exact ITree.Proofs.SegExtras.seg_clear_is_new. Qed.

(* clear as the code performs it, on the arena (Model/ArenaQuery.v: the level-by-level walk that uses
   the free list itself as its queue): it ends within height-many rounds, leaves the root empty and
   the free list EXACTLY the one of the tree-level model (same order), without writing any node *)
Theorem C12_arena_clear_map : forall (a: ArenaModel.astate ment) (s: mstate) (fuel: nat),
  ArenaProofs.Rep a ArenaModel.EMPTY (ArenaModel.aroot a) (root s) -> (height ment (root s) < fuel)%nat ->
  exists a', ArenaQuery.arena_clear fuel (a, pl s) = Ret (a', pl (m_clear s)) /\
             ArenaProofs.Rep a' ArenaModel.EMPTY (ArenaModel.aroot a') (root (m_clear s)) /\
             (forall j, ArenaModel.nodes a' j = ArenaModel.nodes a j).
Proof. intros a s fuel HR Hf. exact (ArenaQueryProofs.arena_map_clear a s HR fuel Hf). Qed.

Theorem C12_arena_clear_key : forall (a: ArenaModel.astate kent) (s: kstate) (fuel: nat),
  ArenaProofs.Rep a ArenaModel.EMPTY (ArenaModel.aroot a) (kroot s) -> (height kent (kroot s) < fuel)%nat ->
  exists a', ArenaQuery.arena_clear fuel (a, kpl s) = Ret (a', kpl (k_clear s)) /\
             ArenaProofs.Rep a' ArenaModel.EMPTY (ArenaModel.aroot a') (kroot (k_clear s)) /\
             (forall j, ArenaModel.nodes a' j = ArenaModel.nodes a j).
Proof. exact ArenaQueryProofs.arena_k_clear. Qed.
