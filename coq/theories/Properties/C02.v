(** * C02 — all three trees stay valid red-black search trees (logarithmic height).
    Only statements; proofs are in Proofs/.  [rbi]: no red node has a red child and every path from
    the root to a leaf passes the same number of black nodes (root colour unconstrained, as in the
    code).  [bst]: the in-order key list is strictly increasing. *)
From Coq Require Import List NArith ZArith.
Import ListNotations.
Require Import ITree.Model.Common ITree.Model.RBTree ITree.Model.MapModel ITree.Spec.MapSpec.
Require Import ITree.Proofs.RBElems ITree.Proofs.RBInv ITree.Proofs.MapProofs ITree.Proofs.MapTheorems.
Require ITree.Model.KeyModel ITree.Proofs.KeyListProofs ITree.Proofs.KeyTheorems.
Require ITree.Model.ArenaModel ITree.Proofs.ArenaProofs ITree.Model.ArenaDelete ITree.Proofs.ArenaDeleteProofs ITree.Proofs.ArenaMap.

(* insertion (the shared core of MapTree / SetTree / KeyExpTree::insert) keeps red-black validity *)
Theorem C02_insert_rb : forall (ent: Type) (key_of: ent -> Z) (t: tree ent) (slot: N) (e: ent),
  rbi ent t -> rbi ent (insert_tree ent key_of t slot e).
Proof. exact insert_tree_rb. Qed.

(* removal of any stored slot (delete by key, by handle, lazy expiry) keeps red-black validity and
   never needs a sibling / nephew that is missing *)
Theorem C02_delete_rb : forall (ent: Type) (t: tree ent) (x: N),
  rbi ent t ->
  match del ent t x with
  | NotFound => True
  | Stuck => False
  | Done t' d f => rbi ent t'
  end.
Proof. exact delete_rb_total. Qed.

(* a valid red-black tree (root colour free) with n nodes has height at most 2*log2(n+1)+1 *)
Theorem C02_height : forall (ent: Type) (t: tree ent),
  rbi ent t -> (height ent t <= 2 * Nat.log2 (size ent t + 1) + 1)%nat.
Proof. exact rb_height_bound. Qed.

(* map / set: in every state reachable by a valid user-level history (insert, delete by key, delete
   and write through handles, clear, all queries) the tree is a valid red-black tree, a search tree in
   key order, no slot occurs twice, and the height bound holds *)
Theorem C02_map : forall (cap: N) (s: mstate), reachable cap s ->
  rbi ment (root s) /\ bst ment mkey (root s) /\ List.NoDup (slots ment (root s)) /\
  (height ment (root s) <= 2 * Nat.log2 (size ment (root s) + 1) + 1)%nat.
Proof. exact map_rb_bst. Qed.

(* expiring-key tree: in every state reached by a valid history (inserts and queries that lazily
   remove expired entries while descending, clear) the tree is a valid red-black search tree with
   distinct slots and logarithmic height *)
Theorem C02_key : forall (cap: N) (h: list KeyModel.kop) (s: KeyModel.kstate) (outs: list KeyModel.kout),
  KeyListProofs.kvalid_hist ([], None) h -> KeyModel.k_run (KeyModel.k_new cap) h = Ret (s, outs) ->
  rbi KeyModel.kent (KeyModel.kroot s) /\ bst KeyModel.kent KeyModel.kk (KeyModel.kroot s) /\
  List.NoDup (slots KeyModel.kent (KeyModel.kroot s)) /\
  (height KeyModel.kent (KeyModel.kroot s) <= 2 * Nat.log2 (size KeyModel.kent (KeyModel.kroot s) + 1) + 1)%nat.
Proof.
  intros cap h s outs V Hr. destruct (KeyTheorems.keytree_rb_bst cap h s outs V Hr) as (A & B & C & D & _).
  repeat split; assumption.
Qed.

(* the parent-pointer code itself (Model/ArenaModel.v: insert_entity, insert_as_left / insert_as_right,
   fix_red_black_properties_after_insert with its rotations and replace_parents_child, statement by
   statement on an arena of nodes with parent / left / right links): if the arena represents a tree
   with consistent links ([Rep]: every child's parent field names the node it hangs from), then the
   arena-level insertion terminates within 2*height+2 loop iterations and the arena represents, again
   with consistent links, exactly the tree of the tree-level model used by every other theorem *)
Theorem C02_arena_insert : forall (s: ArenaModel.astate ment) (t: tree ment) (ni: N) (e: ment) (fuel: nat),
  ArenaProofs.Rep s ArenaModel.EMPTY (ArenaModel.aroot s) t -> List.NoDup (slots ment t) ->
  ~ List.In ni (slots ment t) -> ni <> ArenaModel.EMPTY -> (2 * height ment t + 2 <= fuel)%nat ->
  exists s', ArenaModel.arena_insert mkey fuel s ni e = Ret s' /\
             ArenaProofs.Rep s' ArenaModel.EMPTY (ArenaModel.aroot s') (insert_tree ment mkey t ni e).
Proof. exact (ArenaProofs.arena_insert_refines mkey). Qed.

(* ... and as one step of the map / set: from any state satisfying the invariant, with the pool handing
   out the slot *)
Theorem C02_arena_map_insert : forall (a: ArenaModel.astate ment) (s: mstate) (k v: Z),
  MInv s -> (forall e, List.In e (ents ment (root s)) -> fst e <> k) ->
  ArenaProofs.Rep a ArenaModel.EMPTY (ArenaModel.aroot a) (root s) -> (Pool.blen (pl s) < ArenaModel.EMPTY)%N ->
  exists s' a' i p', Pool.pool_get (pl s) = Some (i, p') /\ m_insert s k v = Ret s' /\
    ArenaModel.arena_insert mkey (2 * height ment (root s) + 2) a i (k, v) = Ret a' /\
    ArenaProofs.Rep a' ArenaModel.EMPTY (ArenaModel.aroot a') (root s') /\ MInv s'.
Proof. exact ArenaMap.arena_map_insert. Qed.

(* the harness's snapshot function (follow the links from the root, check each parent link) is the
   executable form of [Rep] *)
Theorem C02_snapshot_is_rep : forall (fuel: nat) (s: ArenaModel.astate ment) (p x: N) (t: tree ment),
  ArenaProofs.read_tree fuel s p x = Some t -> ArenaProofs.Rep s p x t.
Proof. exact ArenaProofs.read_tree_sound. Qed.

(* removal on the parent-pointer code (Model/ArenaDelete.v: delete_index with the successor's entity
   copied into the node, the sentinel slot 0 linked as a red leaf in place of a removed black leaf,
   fix_red_black_properties_after_delete with its six cases, handle_red_sibling,
   handle_black_sibling_with_at_least_one_red_child, find_left_minimum): from an arena representing a
   valid red-black tree with consistent links, not using the sentinel slot, the arena-level removal
   of a stored slot terminates within height-many iterations of each loop, never indexes the arena
   with EMPTY_REF, returns the slot the tree-level model frees, represents the tree-level result with
   consistent links again (the sentinel is unlinked), and writes nothing outside the tree's slots and
   the sentinel *)
Theorem C02_arena_delete : forall (s: ArenaModel.astate ment) (t: tree ment) (x: N) (fuel: nat),
  ArenaProofs.Rep s ArenaModel.EMPTY (ArenaModel.aroot s) t -> List.NoDup (slots ment t) ->
  ~ List.In 0%N (slots ment t) -> rbi ment t -> List.In x (slots ment t) -> (height ment t <= fuel)%nat ->
  exists t' d f s', del ment t x = Done t' d f /\
    ArenaDelete.arena_delete fuel s x = Ret (s', f) /\
    ArenaProofs.Rep s' ArenaModel.EMPTY (ArenaModel.aroot s') t' /\
    ArenaDeleteProofs.same_off (0%N :: slots ment t) s s'.
Proof. exact ArenaDeleteProofs.arena_delete_refines_frame. Qed.

(* ... and as one step of the map / set (delete through a handle), with the pool taking the slot back *)
Theorem C02_arena_map_delete : forall (a: ArenaModel.astate ment) (s: mstate) (x: N) (e: ment),
  MInv s -> List.In (x, e) (elements ment (root s)) ->
  ArenaProofs.Rep a ArenaModel.EMPTY (ArenaModel.aroot a) (root s) ->
  exists s' a' f, m_delete_at s x = Ret s' /\
    ArenaDelete.arena_delete (height ment (root s)) a x = Ret (a', f) /\
    pl s' = Pool.pool_put (pl s) f /\
    ArenaProofs.Rep a' ArenaModel.EMPTY (ArenaModel.aroot a') (root s') /\ MInv s' /\
    (forall j, ~ List.In j (slots ment (root s)) -> j <> 0%N -> ArenaModel.nodes a' j = ArenaModel.nodes a j).
Proof. exact ArenaMap.arena_map_delete_at. Qed.

(* the two arena-level refinement theorems hold for every entity type and key function: the repair
   loops, rotations and replace_parents_child are shared verbatim by MapTree, SetTree and KeyExpTree,
   and nothing but the descent of insert_entity looks inside an entity (through its key) *)
Theorem C02_arena_insert_any : forall (ent: Type) (key_of: ent -> Z)
  (s: ArenaModel.astate ent) (t: tree ent) (ni: N) (e: ent) (fuel: nat),
  ArenaProofs.Rep s ArenaModel.EMPTY (ArenaModel.aroot s) t -> List.NoDup (slots ent t) ->
  ~ List.In ni (slots ent t) -> ni <> ArenaModel.EMPTY -> (2 * height ent t + 2 <= fuel)%nat ->
  exists s', ArenaModel.arena_insert key_of fuel s ni e = Ret s' /\
             ArenaProofs.Rep s' ArenaModel.EMPTY (ArenaModel.aroot s') (insert_tree ent key_of t ni e).
Proof. intros ent key_of. exact (ArenaProofs.arena_insert_refines key_of). Qed.

Theorem C02_arena_delete_any : forall (ent: Type) (s: ArenaModel.astate ent) (t: tree ent) (x: N) (fuel: nat),
  ArenaProofs.Rep s ArenaModel.EMPTY (ArenaModel.aroot s) t -> List.NoDup (slots ent t) ->
  ~ List.In 0%N (slots ent t) -> rbi ent t -> List.In x (slots ent t) -> (height ent t <= fuel)%nat ->
  exists t' d f s', del ent t x = Done t' d f /\
    ArenaDelete.arena_delete fuel s x = Ret (s', f) /\
    ArenaProofs.Rep s' ArenaModel.EMPTY (ArenaModel.aroot s') t' /\
    ArenaDeleteProofs.same_off (0%N :: slots ent t) s s'.
Proof. intros ent. exact ArenaDeleteProofs.arena_delete_refines_frame. Qed.
