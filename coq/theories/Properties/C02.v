(** * C02 — all three trees stay valid red-black search trees (logarithmic height).
    Only statements; proofs are in Proofs/.  [rbi]: no red node has a red child and every path from
    the root to a leaf passes the same number of black nodes (root colour unconstrained, as in the
    code).  [bst]: the in-order key list is strictly increasing. *)
From Coq Require Import List NArith ZArith.
Require Import ITree.Model.RBTree ITree.Proofs.RBElems ITree.Proofs.RBInv.

(* insertion (the shared core of MapTree / SetTree / KeyExpTree::insert) keeps red-black validity *)
Theorem C02_insert_rb : forall (ent: Type) (key_of: ent -> Z) (t: tree ent) (slot: N) (e: ent),
  rbi ent t -> rbi ent (insert_tree ent key_of t slot e).
Proof. exact insert_tree_rb. Qed.

(* removal of any stored slot (delete by key, by handle, lazy expiry) keeps red-black validity and
   never needs a sibling / nephew that is missing *)
Theorem C02_delete_rb : forall (ent: Type) (t: tree ent) (x: N),
  rbi ent t ->
  match del ent t x with
  | NotFound => True
  | Stuck => False
  | Done t' d f => rbi ent t'
  end.
Proof.
  intros ent t x H. pose proof (del_rb ent t x H) as K.
  destruct (del ent t x); auto. apply K.
Qed.
