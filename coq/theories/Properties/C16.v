(** * C16 — a fully consumed query over the whole domain purges every expired copy.
    Only statements; proofs are in Proofs/ (SegMasks, SegScan, SegInv, SegProofs).

    After [SQuery lo hi t None] (the whole domain of [seg_new lo hi], consumed to the end) every
    copy stored in every chunk has [exp >= t]; as a value has at most 8 copies (the place mask of
    a bucket range has at most 8 bits), at most 8 copies per live inserted value remain. *)
From Coq Require Import List NArith ZArith.
Import ListNotations.
Require Import ITree.Model.Common ITree.Model.SegModel ITree.Spec.Spec.
Require Import ITree.Proofs.SegInv ITree.Proofs.SegProofs.

Theorem C16_purge : forall lo hi s0 h1 t s outs,
  seg_new lo hi = Some s0 ->
  seg_valid (lay s0) (h1 ++ [SQuery lo hi t None]) ->
  seg_run s0 (h1 ++ [SQuery lo hi t None]) = Ret (s, outs) ->
  (forall ch c, In ch (chunks s) -> In c ch -> (t <= sexp (fst c))%Z) /\
  (total_copies (chunks s)
   <= 8 * length (filter (fun e: sentry => (t <=? sexp (snd e))%Z) (inserted h1)))%nat.
Proof. exact seg_purge. Qed.

Example C16_instance :
  exists s0 s outs,
    seg_new 0 128 = Some s0 /\
    seg_valid (lay s0) (ex_h1 ++ [SQuery 0 128 6 None]) /\
    seg_run s0 (ex_h1 ++ [SQuery 0 128 6 None]) = Ret (s, outs) /\
    total_copies (chunks s) = 8%nat /\
    length (filter (fun e: sentry => (6 <=? sexp (snd e))%Z) (inserted ex_h1)) = 3%nat.
Proof. exact seg_purge_instance. Qed.
