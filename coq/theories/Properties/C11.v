(** * C11 — arena slots are never double-used or lost; clear returns every slot. *)
From Coq Require Import List NArith ZArith Permutation.
Import ListNotations.
Require Import ITree.Model.Common ITree.Model.RBTree ITree.Model.Pool ITree.Model.MapModel ITree.Model.KeyModel.
Require ITree.Proofs.RBInv ITree.Model.ArenaModel ITree.Model.ArenaDelete ITree.Proofs.ArenaProofs ITree.Proofs.ArenaDeleteProofs.
Require Import ITree.Spec.MapSpec ITree.Proofs.PoolProofs ITree.Proofs.MapProofs ITree.Proofs.MapTheorems
  ITree.Proofs.KeyListProofs ITree.Proofs.KeyProofs ITree.Proofs.KeyRefine ITree.Proofs.KeyTheorems ITree.Proofs.PoolBound.

(* map / set: in every reachable state the slots of the tree and the free list are duplicate-free
   together and are exactly the slots 1 .. blen-1 (slot 0, the sentinel, is in neither) *)
Theorem C11_partition_map : forall (cap: N) (s: mstate), reachable cap s ->
  NoDup (slots ment (root s) ++ unused (pl s)) /\
  (forall x, In x (slots ment (root s) ++ unused (pl s)) <-> (1 <= x < blen (pl s))%N).
Proof. exact map_slot_partition. Qed.

(* clear: the tree is empty, the buffer keeps its length, the free list is a permutation of 1 .. blen-1 *)
Theorem C11_clear_map : forall (cap: N) (s: mstate), reachable cap s ->
  root (m_clear s) = E /\ blen (pl (m_clear s)) = blen (pl s) /\
  Permutation (unused (pl (m_clear s))) (range 1 (N.to_nat (blen (pl s)) - 1)).
Proof. exact map_clear_frees_all. Qed.

(* expiring-key tree, including the slots freed by lazy expiry inside queries and inserts *)
Theorem C11_partition_key : forall (cap: N) (h: list kop) (s: kstate) (outs: list kout),
  kvalid_hist ([], None) h -> k_run (k_new cap) h = Ret (s, outs) ->
  NoDup (slots kent (kroot s) ++ unused (kpl s)) /\
  (forall x, In x (slots kent (kroot s) ++ unused (kpl s)) <-> (1 <= x < blen (kpl s))%N).
Proof.
  intros cap h s outs V Hr. destruct (keytree_rb_bst cap h s outs V Hr) as (_ & _ & _ & _ & A & B). split; assumption.
Qed.

(* the pool operations themselves *)
Theorem C11_get : forall (used: list N) (p: pool), pool_wf used p ->
  exists i p', pool_get p = Some (i, p') /\ ~ In i used /\ i <> 0%N /\ pool_wf (i :: used) p'.
Proof. exact pool_get_wf. Qed.

Theorem C11_put : forall (used: list N) (p: pool) (f: N), pool_wf (f :: used) p -> pool_wf used (pool_put p f).
Proof. exact pool_put_wf. Qed.

(* storage bound (map / set): the number of slots ever allocated is at most
   3 * (peak population + 1) + max(capacity hint, 8), for every valid history of any length; [peak] is
   the largest number of simultaneously stored entries, computed on the reference semantics *)
Theorem C11_bound_map : forall (cap: N) (h: list uop) (s: mstate) (outs: list uout),
  valid_history [] h -> u_run (m_new cap) h = Ret (s, outs) ->
  (blen (pl s) <= 3 * (PoolBound.peak [] h + 1) + N.max cap 8)%N.
Proof. exact PoolBound.map_slots_bounded. Qed.

(* the two pool steps behind it, shared by all three trees (the expiring-key tree frees slots from
   inside queries; its bound is checked on the real code after every operation of the correspondence
   run, against the peak number of physically stored entries) *)
Theorem C11_bound_get : forall (c0 p: N) (used: list N) (pl: pool) (i: N) (pl': pool),
  pool_wf used pl -> pool_get pl = Some (i, pl') -> (N.of_nat (length used) <= p)%N ->
  PoolBound.Bnd c0 p pl -> PoolBound.Bnd c0 (N.max p (N.of_nat (length used) + 1)) pl'.
Proof. exact PoolBound.pool_get_bnd. Qed.

Theorem C11_bound_put : forall (c0 p: N) (used: list N) (pl: pool) (f: N),
  pool_wf (f :: used) pl -> PoolBound.Bnd c0 p pl -> PoolBound.Bnd c0 p (pool_put pl f).
Proof. exact PoolBound.pool_put_bnd. Qed.

(* on the parent-pointer arena: a removal writes no slot outside the tree it removes from and the
   sentinel (in particular none that is on the free list or belongs to nobody), and returns exactly
   the slot the tree-level model frees *)
Theorem C11_arena_delete_frame : forall (s: ArenaModel.astate ment) (t: tree ment) (x: N) (fuel: nat)
  (s': ArenaModel.astate ment) (f: N),
  ArenaProofs.Rep s ArenaModel.EMPTY (ArenaModel.aroot s) t -> NoDup (slots ment t) -> ~ In 0%N (slots ment t) ->
  RBInv.rbi ment t -> In x (slots ment t) -> (height ment t <= fuel)%nat ->
  ArenaDelete.arena_delete fuel s x = Ret (s', f) ->
  forall j, ~ In j (slots ment t) -> j <> 0%N -> ArenaModel.nodes s' j = ArenaModel.nodes s j.
Proof. exact (@ArenaDeleteProofs.arena_delete_frame ment). Qed.
