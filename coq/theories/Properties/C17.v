(** * C17 — map and set handles stay valid across insertions. *)
From Coq Require Import List NArith ZArith.
Import ListNotations.
Require Import ITree.Model.Common ITree.Model.RBTree ITree.Model.MapModel.
Require Import ITree.Spec.Spec ITree.Spec.MapSpec ITree.Proofs.MapProofs ITree.Proofs.MapTheorems.
Require ITree.Model.Pool ITree.Model.ArenaModel ITree.Model.ArenaQuery ITree.Proofs.ArenaStable.

(* From any state satisfying the representation invariant, after ANY sequence of insertions and
   lookups (no deletion, no clear, no write): every handle x that designated entry e still designates
   the same entry (same key, same value), and the predecessor query for e's key still returns x. *)
Theorem C17_stable : forall (h: list uop) (s: mstate) (m: amap) (outs: list uout) (s': mstate),
  MInv s -> Rel s m -> valid_history m h -> Forall non_deleting h ->
  u_run s h = Ret (s', outs) ->
  forall x e, In (x, e) (elements ment (root s)) -> m_value_at s' x = Ret e /\ m_first s' (fst e) = Some x.
Proof. exact handles_stable. Qed.

(* one insertion: no stored (slot, entry) pair changes; the new entry gets a slot that was not in use *)
Theorem C17_insert : forall (s: mstate) (k v: Z), MInv s -> (forall e, In e (ents ment (root s)) -> fst e <> k) ->
  exists s' i, m_insert s k v = Ret s' /\ MInv s' /\
    elements ment (root s') = RBElems.list_ins ment mkey (i, (k, v)) (elements ment (root s)) /\
    ~ In i (slots ment (root s)) /\
    Permutation.Permutation (ents ment (root s')) ((k, v) :: ents ment (root s)).
Proof. exact m_insert_spec. Qed.

(* The same on the parent-pointer ARENA (Model/ArenaModel.v, the statement-by-statement transcription
   that the model runner executes against the implementation's raw buffer): insert_entity with all its
   rotations and recolourings writes link and colour fields only - the entity stored in every slot
   other than the new one is untouched, for ANY arena (no invariant needed) *)
Theorem C17_arena_insert : forall (ent: Type) (key_of: ent -> Z) (fuel: nat) (a: ArenaModel.astate ent) (ni: N) (e: ent)
  (a': ArenaModel.astate ent),
  ArenaModel.arena_insert key_of fuel a ni e = Ret a' ->
  (forall i, i <> ni -> ArenaModel.aent (ArenaModel.nodes a' i) = ArenaModel.aent (ArenaModel.nodes a i)) /\
  ArenaModel.aent (ArenaModel.nodes a' ni) = e.
Proof. exact ArenaStable.arena_insert_keeps_entities. Qed.

(* ... and along every history of the whole map / set interface on the arena that contains no
   deletion, no clear and no write through the handle i itself: if slot i is in use at the start
   (not on the free list, below the buffer length), then at the end it still holds the same entity
   and is still in use - the pool never hands it out again *)
Theorem C17_arena_run : forall (fuel: nat) (i: N) (h: list mop) (a: ArenaModel.astate ment) (p: Pool.pool)
  (a': ArenaModel.astate ment) (p': Pool.pool) (outs: list mout),
  Forall (ArenaStable.quiet_op i) h ->
  ~ In i (Pool.unused p) /\ (i < Pool.blen p)%N ->
  ArenaQuery.arena_m_run fuel (a, p) h = Ret ((a', p'), outs) ->
  ArenaModel.aent (ArenaModel.nodes a' i) = ArenaModel.aent (ArenaModel.nodes a i) /\
  (~ In i (Pool.unused p') /\ (i < Pool.blen p')%N).
Proof. exact ArenaStable.arena_run_keeps_handle. Qed.

