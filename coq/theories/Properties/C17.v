(** * C17 — map and set handles stay valid across insertions. *)
From Coq Require Import List NArith ZArith.
Import ListNotations.
Require Import ITree.Model.Common ITree.Model.RBTree ITree.Model.MapModel.
Require Import ITree.Spec.Spec ITree.Spec.MapSpec ITree.Proofs.MapProofs ITree.Proofs.MapTheorems.

(* From any state satisfying the representation invariant, after ANY sequence of insertions and
   lookups (no deletion, no clear, no write): every handle x that designated entry e still designates
   the same entry (same key, same value), and the predecessor query for e's key still returns x. *)
Theorem C17_stable : forall (h: list uop) (s: mstate) (m: amap) (outs: list uout) (s': mstate),
  MInv s -> Rel s m -> valid_history m h -> Forall non_deleting h ->
  u_run s h = Ret (s', outs) ->
  forall x e, In (x, e) (elements ment (root s)) -> m_value_at s' x = Ret e /\ m_first s' (fst e) = Some x.
Proof. exact handles_stable. Qed.

(* one insertion: no stored (slot, entry) pair changes; the new entry gets a slot that was not in use *)
Theorem C17_insert : forall (s: mstate) (k v: Z), MInv s -> (forall e, In e (ents ment (root s)) -> fst e <> k) ->
  exists s' i, m_insert s k v = Ret s' /\ MInv s' /\
    elements ment (root s') = RBElems.list_ins ment mkey (i, (k, v)) (elements ment (root s)) /\
    ~ In i (slots ment (root s)) /\
    Permutation.Permutation (ents ment (root s')) ((k, v) :: ents ment (root s)).
Proof. exact m_insert_spec. Qed.
