(** * C19 — ordered export allocates in proportion to the number of entries.
    Partial: the allocator and Vec::with_capacity are runtime behaviour; the theorem is about the
    capacity the model requests, the correspondence run compares it with Vec::capacity() of the real
    export (trees to 300 000 entries in quick, 5 000 000 in thorough, three insertion orders). *)
From Coq Require Import List NArith ZArith.
Import ListNotations.
Require Import ITree.Model.Common ITree.Model.RBTree ITree.Model.KeyModel ITree.Model.Checkers.
Require Import ITree.Proofs.KeyTheorems.

(* the requested capacity is exactly the number of stored entries (so at most 1 x entries + 0), and the
   exported vector fits in it *)
Theorem C19_capacity : forall (s: kstate) (t: Z),
  k_export_capacity s = N.of_nat (length (ents kent (kroot s))) /\
  (N.of_nat (length (k_export s t)) <= k_export_capacity s)%N.
Proof. exact export_capacity_linear. Qed.

(* the formula of the code before the repair (8 << 2*(1 + black nodes on the left spine)) is not
   linear: a valid red-black tree with 1000 entries for which it asks for 2 097 152 slots *)
Theorem C19_old_refuted :
  exists t: tree kent, rb_ok kent t = true /\ size kent t = 1000%nat /\ (old_export_capacity t = 2097152)%N.
Proof. exact old_capacity_refuted. Qed.
