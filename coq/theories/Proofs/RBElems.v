(** * In-order elements of the red-black core: insertion = sorted list insertion, removal deletes
    exactly the entry of the given slot and frees exactly one slot. *)
From Coq Require Import List NArith ZArith Bool Lia Permutation Sorted.
Import ListNotations.
Require Import ITree.Model.RBTree.

Section Elems.
Variable ent : Type.
Variable key_of : ent -> Z.
Notation tree := (tree ent).
Notation elements := (elements ent).
Notation slots := (slots ent).
Notation ents := (ents ent).
Notation keys := (keys ent key_of).

Lemma paint_elements c t : elements (paint ent c t) = elements t.
Proof. destruct t; reflexivity. Qed.

Ltac norm := simpl; rewrite ?paint_elements; repeat (rewrite <- app_assoc || rewrite <- app_comm_cons); try reflexivity.

(* ---------- insertion ---------- *)
Lemma fix_ins_left_elems c p gs ge u d2 :
  elements (fst (fix_ins_left ent c p gs ge u d2)) = elements p ++ (gs, ge) :: elements u.
Proof.
  unfold fix_ins_left. destruct (is_red_node ent u); [norm|].
  destruct p as [|pc pl ps pe pr]; [norm|]. destruct d2; [norm|].
  destruct pr as [|nc nl ns ne nr]; norm.
Qed.

Lemma fix_ins_right_elems c u gs ge p d2 :
  elements (fst (fix_ins_right ent c u gs ge p d2)) = elements u ++ (gs, ge) :: elements p.
Proof.
  unfold fix_ins_right. destruct (is_red_node ent u); [norm|].
  destruct p as [|pc pl ps pe pr]; [norm|]. destruct d2; [|norm].
  destruct pl as [|nc nl ns ne nr]; norm.
Qed.

Lemma up_left_elems c l' s e r st :
  elements (fst (up_left ent c l' s e r st)) = elements l' ++ (s, e) :: elements r.
Proof. destruct st; simpl; [reflexivity | destruct c; reflexivity | apply fix_ins_left_elems]. Qed.

Lemma up_right_elems c l s e r' st :
  elements (fst (up_right ent c l s e r' st)) = elements l ++ (s, e) :: elements r'.
Proof. destruct st; simpl; [reflexivity | destruct c; reflexivity | apply fix_ins_right_elems]. Qed.

Fixpoint list_ins (x: N * ent) (l: list (N * ent)) : list (N * ent) :=
  match l with
  | [] => [x]
  | y :: l' => if Z.ltb (key_of (snd x)) (key_of (snd y)) then x :: y :: l' else y :: list_ins x l'
  end.

Lemma list_ins_app_lt x a y b :
  (key_of (snd x) < key_of (snd y))%Z -> list_ins x (a ++ y :: b) = list_ins x a ++ y :: b.
Proof.
  intros H. induction a as [|z a IH]; simpl.
  - apply Z.ltb_lt in H. rewrite H. reflexivity.
  - destruct (Z.ltb _ _); [reflexivity|]. rewrite IH. reflexivity.
Qed.

Lemma list_ins_app_ge x a y b :
  (forall z, In z a -> (key_of (snd z) <= key_of (snd x))%Z) ->
  (key_of (snd y) <= key_of (snd x))%Z ->
  list_ins x (a ++ y :: b) = a ++ y :: list_ins x b.
Proof.
  intros Ha Hy. induction a as [|z a IH]; simpl.
  - destruct (Z.ltb_spec (key_of (snd x)) (key_of (snd y))); [lia|reflexivity].
  - destruct (Z.ltb_spec (key_of (snd x)) (key_of (snd z))).
    + specialize (Ha z (or_introl eq_refl)). lia.
    + rewrite IH; auto. intros; apply Ha; right; auto.
Qed.

Definition bst (t: tree) : Prop := StronglySorted Z.lt (keys t).

Lemma bst_inv c l s e r : bst (T c l s e r) ->
  bst l /\ bst r /\ (forall z, In z (elements l) -> (key_of (snd z) < key_of e)%Z)
  /\ (forall z, In z (elements r) -> (key_of e < key_of (snd z))%Z).
Proof.
  unfold bst, keys. simpl. rewrite map_app. simpl. intros H.
  assert (forall (a b: list Z) x, StronglySorted Z.lt (a ++ x :: b) ->
     StronglySorted Z.lt a /\ StronglySorted Z.lt b /\ (forall z, In z a -> (z < x)%Z) /\ (forall z, In z b -> (x < z)%Z)) as K.
  { induction a as [|y a IH]; simpl; intros b x Hs.
    - inversion Hs; subst. repeat split; auto. constructor. intros z []. rewrite Forall_forall in H3. auto.
    - inversion Hs; subst. destruct (IH _ _ H2) as (Ha & Hb & Hlt & Hgt). repeat split; auto.
      + constructor; auto. rewrite Forall_forall in *. intros z Hz. apply H3. rewrite in_app_iff. auto.
      + intros z [->|Hz]; auto. rewrite Forall_forall in H3. apply H3. rewrite in_app_iff. simpl. auto. }
  destruct (K _ _ _ H) as (Ha & Hb & Hlt & Hgt). repeat split; auto.
  - intros z Hz. apply Hlt. apply in_map_iff. exists z. auto.
  - intros z Hz. apply Hgt. apply in_map_iff. exists z. auto.
Qed.

Lemma ins_elems t ns ne : bst t -> elements (fst (ins ent key_of t ns ne)) = list_ins (ns, ne) (elements t).
Proof.
  induction t as [|c l IHl s e r IHr]; intros Hb; [reflexivity|].
  apply bst_inv in Hb. destruct Hb as (Hl & Hr & Hlt & Hgt).
  simpl. destruct (Z.ltb_spec (key_of ne) (key_of e)) as [Hk|Hk].
  - rewrite list_ins_app_lt by (simpl; auto). rewrite <- IHl by auto.
    destruct (ins ent key_of l ns ne) as [l' st]. simpl. apply up_left_elems.
  - rewrite list_ins_app_ge; simpl; auto.
    2:{ intros z Hz. specialize (Hlt z Hz). lia. }
    rewrite <- IHr by auto.
    destruct (ins ent key_of r ns ne) as [r' st]. simpl. apply up_right_elems.
Qed.

Lemma insert_tree_elems t ns ne : bst t -> elements (insert_tree ent key_of t ns ne) = list_ins (ns, ne) (elements t).
Proof.
  intros Hb. unfold insert_tree. destruct t as [|c l s e r]; [reflexivity|].
  rewrite <- (ins_elems _ ns ne Hb).
  unfold finish_insert. destruct (ins ent key_of (T c l s e r) ns ne) as [t' st]. destruct st; simpl; rewrite ?paint_elements; reflexivity.
Qed.

(* ---------- deletion ---------- *)
Lemma fixL36_elems c l s e r t' d : fixL36 ent c l s e r = Some (t', d) -> elements t' = elements l ++ (s, e) :: elements r.
Proof.
  unfold fixL36. destruct r as [|sc sl ss se sr]; [discriminate|].
  destruct (is_black ent sl && is_black ent sr). { intros H; inversion H; subst. norm. }
  destruct (is_black ent sr).
  - destruct sl as [|? sll sls sle slr]; [discriminate|]. intros H; inversion H; subst. norm.
  - intros H; inversion H; subst. norm.
Qed.

Lemma fixR36_elems c l s e r t' d : fixR36 ent c l s e r = Some (t', d) -> elements t' = elements l ++ (s, e) :: elements r.
Proof.
  unfold fixR36. destruct l as [|sc sl ss se sr]; [discriminate|].
  destruct (is_black ent sl && is_black ent sr). { intros H; inversion H; subst. norm. }
  destruct (is_black ent sl).
  - destruct sr as [|? srl srs sre srr]; [discriminate|]. intros H; inversion H; subst. norm.
  - intros H; inversion H; subst. norm.
Qed.

Lemma fixL_elems c l s e r t' d : fixL ent c l s e r = Some (t', d) -> elements t' = elements l ++ (s, e) :: elements r.
Proof.
  unfold fixL. destruct r as [|[] sl ss se sr]; [discriminate| |apply fixL36_elems].
  destruct (fixL36 ent Red l s e sl) as [[inner d']|] eqn:Hi; [|discriminate].
  intros H; inversion H; subst. apply fixL36_elems in Hi. simpl. rewrite Hi. norm.
Qed.

Lemma fixR_elems c l s e r t' d : fixR ent c l s e r = Some (t', d) -> elements t' = elements l ++ (s, e) :: elements r.
Proof.
  unfold fixR. destruct l as [|[] sl ss se sr]; [discriminate| |apply fixR36_elems].
  destruct (fixR36 ent Red sr s e r) as [[inner d']|] eqn:Hi; [|discriminate].
  intros H; inversion H; subst. apply fixR36_elems in Hi. simpl. rewrite Hi. norm.
Qed.

Lemma del_min_elems t t' d ms me : del_min ent t = Some (t', d, ms, me) -> elements t = (ms, me) :: elements t'.
Proof.
  revert t' d ms me. induction t as [|c l IHl s e r _]; intros t' d ms me; [discriminate|].
  simpl. destruct l as [|lc ll ls le lr].
  - destruct r; intros H; inversion H; subst; reflexivity.
  - destruct (del_min ent (T lc ll ls le lr)) as [[[[l' dl] ms'] me']|] eqn:Hm; [|discriminate].
    specialize (IHl _ _ _ _ eq_refl).
    destruct dl.
    + destruct (fixL ent c l' s e r) as [[t'' d'']|] eqn:Hf; [|discriminate].
      intros H; inversion H; subst. apply fixL_elems in Hf. rewrite Hf. rewrite IHl. reflexivity.
    + intros H; inversion H; subst. rewrite IHl. reflexivity.
Qed.

Lemma NoDup_app_inv {A} (l1 l2: list A) : NoDup (l1 ++ l2) -> NoDup l1 /\ NoDup l2 /\ (forall x, In x l1 -> In x l2 -> False).
Proof.
  induction l1; simpl; intros H. { repeat split; auto. constructor. }
  inversion H; subst. destruct (IHl1 H3) as (?&?&?). repeat split; auto.
  - constructor; auto. rewrite in_app_iff in H2. tauto.
  - intros x [->|Hx] Hy; [apply H2; rewrite in_app_iff; auto | eauto].
Qed.

(* entities after deleting slot x: the entry paired with x disappears; slot list loses [freed] *)
Lemma elements_T c l s e r : elements (T c l s e r) = elements l ++ (s, e) :: elements r.
Proof. reflexivity. Qed.

Lemma elements_E : elements E = [].
Proof. reflexivity. Qed.

Local Arguments RBTree.elements : simpl never.

Lemma del_spec t x : NoDup (slots t) ->
  match del ent t x with
  | NotFound => ~ In x (slots t)
  | Stuck => True
  | Done t' d f =>
      exists A e B, elements t = A ++ (x, e) :: B /\
        ents t' = map snd A ++ map snd B /\
        Permutation (f :: slots t') (slots t)
  end.
Proof.
  unfold slots, ents.
  induction t as [|c l IHl s e r IHr]; intros ND; [simpl; tauto|].
  rewrite elements_T, map_app in ND. simpl in ND.
  destruct (NoDup_app_inv _ _ ND) as (NDl & NDr' & _).
  assert (NDr: NoDup (map fst (elements r))) by (inversion NDr'; auto).
  simpl. destruct (N.eqb_spec s x) as [->|Hsx].
  - (* found here *)
    destruct l as [|lc ll ls le lr], r as [|rc rl rs re rr].
    + exists [], e, []. split; [reflexivity|]. split; reflexivity.
    + exists [], e, (elements (T rc rl rs re rr)). split; [reflexivity|]. split; reflexivity.
    + exists (elements (T lc ll ls le lr)), e, []. split; [reflexivity|]. split.
      * simpl. rewrite app_nil_r. reflexivity.
      * rewrite (elements_T c _ x e E), elements_E, map_app. simpl. apply Permutation_cons_append.
    + remember (T lc ll ls le lr) as Lt. remember (T rc rl rs re rr) as Rt.
      destruct (del_min ent Rt) as [[[[r' dr] ms] me]|] eqn:Hm; [|exact I].
      pose proof (del_min_elems _ _ _ _ _ Hm) as Hr.
      assert (Hperm: forall t'', elements t'' = elements Lt ++ (x, me) :: elements r' ->
         Permutation (ms :: map fst (elements t'')) (map fst (elements (T c Lt x e Rt)))).
      { intros t'' ->. rewrite elements_T, Hr. rewrite !map_app. simpl.
        etransitivity; [apply Permutation_middle|]. apply Permutation_app_head. apply perm_swap. }
      assert (Hents: forall t'', elements t'' = elements Lt ++ (x, me) :: elements r' ->
         map snd (elements t'') = map snd (elements Lt) ++ map snd (elements Rt)).
      { intros t'' ->. rewrite Hr. rewrite !map_app. reflexivity. }
      destruct dr.
      * destruct (fixR ent c Lt x me r') as [[t'' d'']|] eqn:Hf; [|exact I].
        apply fixR_elems in Hf.
        exists (elements Lt), e, (elements Rt). split; [reflexivity|]. split; auto.
      * exists (elements Lt), e, (elements Rt). split; [reflexivity|]. split; [apply Hents|apply Hperm]; reflexivity.
  - (* not here *)
    specialize (IHl NDl). destruct (del ent l x) as [| |l' dl f] eqn:Hdl.
    + specialize (IHr NDr). destruct (del ent r x) as [| |r' dr f] eqn:Hdr.
      * rewrite elements_T, map_app, in_app_iff. simpl. intros [H|[H|H]]; auto.
      * exact I.
      * destruct IHr as (A & e0 & B & He & Hents & Hp).
        assert (G: forall t'', elements t'' = elements l ++ (s, e) :: elements r' ->
          exists A0 e1 B0, elements (T c l s e r) = A0 ++ (x, e1) :: B0 /\
            map snd (elements t'') = map snd A0 ++ map snd B0 /\
            Permutation (f :: map fst (elements t'')) (map fst (elements (T c l s e r)))).
        { intros t'' ->. exists (elements l ++ (s, e) :: A), e0, B. split.
          { rewrite elements_T, He. rewrite <- app_assoc. reflexivity. }
          split.
          { rewrite !map_app. simpl. rewrite Hents. rewrite <- app_assoc. reflexivity. }
          { rewrite elements_T, !map_app. simpl. rewrite Permutation_middle.
            apply Permutation_app_head. rewrite perm_swap. apply perm_skip. exact Hp. } }
        destruct dr.
        -- destruct (fixR ent c l s e r') as [[t'' d'']|] eqn:Hf; [|exact I]. apply fixR_elems in Hf. apply G; auto.
        -- apply G. reflexivity.
    + exact I.
    + destruct IHl as (A & e0 & B & He & Hents & Hp).
      assert (G: forall t'', elements t'' = elements l' ++ (s, e) :: elements r ->
          exists A0 e1 B0, elements (T c l s e r) = A0 ++ (x, e1) :: B0 /\
            map snd (elements t'') = map snd A0 ++ map snd B0 /\
            Permutation (f :: map fst (elements t'')) (map fst (elements (T c l s e r)))).
      { intros t'' ->. exists A, e0, (B ++ (s, e) :: elements r). split.
        { rewrite elements_T, He. rewrite <- app_assoc. reflexivity. }
        split.
        { rewrite !map_app. simpl. rewrite Hents. rewrite ?map_app. simpl. rewrite <- app_assoc. reflexivity. }
        { rewrite elements_T, !map_app. simpl. rewrite app_comm_cons. apply Permutation_app_tail. exact Hp. } }
      destruct dl.
      * destruct (fixL ent c l' s e r) as [[t'' d'']|] eqn:Hf; [|exact I]. apply fixL_elems in Hf. apply G; auto.
      * apply G. reflexivity.
Qed.

End Elems.
