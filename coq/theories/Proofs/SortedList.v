(** * Lists of (slot, entity) with strictly increasing keys: sorted insertion, the predecessor pick,
    neighbours. *)
From Coq Require Import List NArith ZArith Bool Lia Permutation Sorted.
Import ListNotations.
Require Import ITree.Model.RBTree ITree.Proofs.RBElems ITree.Proofs.TreeLookup.

Section SL.
Variable ent : Type.
Variable key_of : ent -> Z.
Local Open Scope Z_scope.
Notation pkey := (fun p : N * ent => key_of (snd p)).
Notation lpick := (lpick ent key_of).
Notation mono_list := (mono_list ent key_of).
Notation list_ins := (list_ins ent key_of).

Definition sorted (l: list (N * ent)) : Prop := StronglySorted Z.lt (map pkey l).

Lemma sorted_cons_inv p l : sorted (p :: l) -> sorted l /\ forall q, In q l -> pkey p < pkey q.
Proof.
  unfold sorted. simpl. intros H. inversion H; subst. split; auto.
  intros q Hq. rewrite Forall_forall in H3. apply H3. apply in_map_iff. exists q. auto.
Qed.

Lemma sorted_cons p l : sorted l -> (forall q, In q l -> pkey p < pkey q) -> sorted (p :: l).
Proof.
  unfold sorted. simpl. intros H K. constructor; auto. rewrite Forall_forall.
  intros z Hz. apply in_map_iff in Hz. destruct Hz as (q & <- & Hq). auto.
Qed.

Lemma sorted_app_inv a p b : sorted (a ++ p :: b) ->
  sorted a /\ sorted b /\ (forall q, In q a -> pkey q < pkey p) /\ (forall q, In q b -> pkey p < pkey q)
  /\ (forall q r, In q a -> In r b -> pkey q < pkey r).
Proof.
  induction a as [|x a IH]; simpl; intros H.
  - apply sorted_cons_inv in H. destruct H as (Hb & Hpb).
    split; [constructor|]. split; [exact Hb|]. split; [intros q []|]. split; [exact Hpb|]. intros q r [].
  - apply sorted_cons_inv in H. destruct H as (H & Hx).
    destruct (IH H) as (Ha & Hb & Hap & Hpb & Hab). repeat split; auto.
    + apply sorted_cons; auto. intros q Hq. apply Hx. apply in_or_app. auto.
    + intros q [<-|Hq]; auto. apply Hx. apply in_or_app. simpl. auto.
    + intros q r [<-|Hq] Hr; auto. apply Hx. apply in_or_app. simpl. auto.
Qed.

Lemma sorted_app_remove a p b : sorted (a ++ p :: b) -> sorted (a ++ b).
Proof.
  induction a as [|x a IH]; simpl; intros H.
  - apply sorted_cons_inv in H. tauto.
  - apply sorted_cons_inv in H. destruct H as (H & Hx). apply sorted_cons; auto.
    intros q Hq. apply Hx. apply in_app_or in Hq. apply in_or_app. simpl. tauto.
Qed.

Lemma sorted_key_inj l p q : sorted l -> In p l -> In q l -> pkey p = pkey q -> p = q.
Proof.
  induction l as [|x l IH]; simpl; intros H Hp Hq Hk; [tauto|].
  apply sorted_cons_inv in H. destruct H as (H & Hx).
  destruct Hp as [->|Hp], Hq as [->|Hq]; auto.
  - specialize (Hx q Hq). simpl in *. lia.
  - specialize (Hx p Hp). simpl in *. lia.
Qed.

Lemma sorted_nodup_keys l : sorted l -> NoDup (map pkey l).
Proof.
  induction l as [|x l IH]; simpl; intros H; [constructor|].
  apply sorted_cons_inv in H. destruct H as (H & Hx). constructor; auto.
  intros Hin. apply in_map_iff in Hin. destruct Hin as (q & Hk & Hq). specialize (Hx q Hq). simpl in *. lia.
Qed.

(** ** sorted insertion *)
Lemma list_ins_perm x l : Permutation (list_ins x l) (x :: l).
Proof.
  induction l as [|y l IH]; simpl; [reflexivity|].
  destruct (Z.ltb _ _); [reflexivity|]. rewrite IH. apply perm_swap.
Qed.

Lemma list_ins_sorted x l : sorted l -> (forall q, In q l -> pkey q <> pkey x) -> sorted (list_ins x l).
Proof.
  induction l as [|y l IH]; simpl; intros H Hne.
  - apply sorted_cons; [constructor|]. intros q [].
  - apply sorted_cons_inv in H. destruct H as (H & Hy).
    destruct (Z.ltb_spec (key_of (snd x)) (key_of (snd y))).
    + apply sorted_cons.
      * apply sorted_cons; auto.
      * intros q [<-|Hq]; simpl; [lia|]. specialize (Hy q Hq). simpl in *. lia.
    + apply sorted_cons.
      * apply IH; auto.
      * intros q Hq. eapply Permutation_in in Hq; [|apply list_ins_perm].
        destruct Hq as [<-|Hq]; auto. specialize (Hne y (or_introl eq_refl)). simpl in *. lia.
Qed.

(** ** the predecessor pick on a sorted list *)
Lemma lpick_spec f l : sorted l -> mono_list f l -> forall acc,
  (lpick f l acc = acc /\ forall p, In p l -> f (pkey p) = Gt) \/
  (exists s e, lpick f l acc = Some s /\ In (s, e) l /\ f (key_of e) <> Gt /\
               forall p, In p l -> f (pkey p) <> Gt -> pkey p <= key_of e).
Proof.
  induction l as [|[s e] l IH]; intros Hs Hm acc.
  - left. split; [reflexivity|]. intros p [].
  - apply sorted_cons_inv in Hs. destruct Hs as (Hs & Hlt).
    assert (Hm': mono_list f l). { intros p q Hp Hq. apply Hm; simpl; auto. }
    simpl. destruct (f (key_of e)) eqn:Hf.
    + right. exists s, e. split; [reflexivity|]. split; [simpl; auto|]. split; [congruence|].
      intros p [<-|Hp] Hng; simpl; [lia|].
      destruct (Hm (s, e) p (or_introl eq_refl) (or_intror Hp) (Hlt p Hp)) as (_ & _ & K). simpl in K.
      exfalso. apply Hng. apply K. exact Hf.
    + destruct (IH Hs Hm' (Some s)) as [(Hacc & Hall)|(s' & e' & Hp' & Hin & Hng & Hmax)].
      * right. exists s, e. split; [exact Hacc|]. split; [simpl; auto|]. split; [congruence|].
        intros p [<-|Hp] Hngp; simpl; [lia|]. exfalso. apply Hngp. apply Hall. exact Hp.
      * right. exists s', e'. split; [exact Hp'|]. split; [simpl; auto|]. split; [exact Hng|].
        intros p [<-|Hp] Hngp; auto. specialize (Hlt (s', e') Hin). simpl in *. lia.
    + left. split; [reflexivity|]. intros p [<-|Hp]; simpl; auto.
      destruct (Hm (s, e) p (or_introl eq_refl) (or_intror Hp) (Hlt p Hp)) as (_ & K & _). simpl in K. auto.
Qed.

(** ** neighbours on a sorted list with distinct slots *)
Notation lnext := (lnext ent).
Notation lprev := (lprev ent).
Notation hd_slot := (hd_slot ent).

Lemma lnext_split x e a b anc : ~ In x (map fst a) -> lnext x (a ++ (x, e) :: b) anc = Some (hd_slot b anc).
Proof.
  intros H. rewrite (lnext_app_notin ent key_of) by exact H. simpl. rewrite N.eqb_refl. reflexivity.
Qed.

Lemma lprev_split x e a b anc : ~ In x (map fst a) ->
  lprev x (a ++ (x, e) :: b) anc = Some (last_slot ent a anc).
Proof.
  intros H. rewrite (lprev_app_notin ent key_of) by exact H. simpl. rewrite N.eqb_refl. reflexivity.
Qed.

Lemma in_split_nodup (l: list (N * ent)) x e : NoDup (map fst l) -> In (x, e) l ->
  exists a b, l = a ++ (x, e) :: b /\ ~ In x (map fst a) /\ ~ In x (map fst b).
Proof.
  intros ND Hin. apply in_split in Hin. destruct Hin as (a & b & ->). exists a, b. split; auto.
  rewrite map_app in ND. simpl in ND. apply NoDup_remove_2 in ND. rewrite in_app_iff in ND. tauto.
Qed.

End SL.
