(** * Two small consequences for the segment tree: exact interval intersection on domains of at
    most 32 points (C03), and clear = new (C12). *)
From Coq Require Import List NArith ZArith Bool Lia Permutation.
Import ListNotations.
Require Import ITree.Model.Common ITree.Model.Heap ITree.Model.SegModel ITree.Spec.Spec.
Require Import ITree.Proofs.LayoutProofs ITree.Proofs.SegInv ITree.Proofs.SegProofs.
Local Open Scope Z_scope.

(* with at most 32 points there is one point per bucket: buckets overlap iff the ranges intersect *)
Theorem small_domain_exact lo hi L c d a b : layout_new lo hi = Some L -> hi - lo + 1 <= 32 ->
  bucket_overlap L c d a b = ((c <=? b) && (a <=? d)).
Proof.
  intros HL Hs. destruct (layout_small_exact lo hi L HL Hs) as (_ & Hz).
  unfold bucket_overlap. rewrite !Hz.
  destruct (Z.leb_spec c b), (Z.leb_spec a d), (Z.leb_spec (c - lo) (b - lo)), (Z.leb_spec (a - lo) (d - lo)); simpl; auto; lia.
Qed.

Lemma map_nil_repeat {A B} (l: list A) : map (fun _ => @nil B) l = repeat [] (length l).
Proof. induction l as [|x l IH]; simpl; auto. rewrite IH. reflexivity. Qed.

(* after any valid history, clear yields literally the state of a new tree over the same domain *)
Theorem seg_clear_is_new lo hi s0 h s outs : seg_new lo hi = Some s0 -> seg_valid (lay s0) h ->
  seg_run s0 h = Ret (s, outs) -> seg_clear s = s0.
Proof.
  intros Hn Hv Hr. destruct (seg_new_inv lo hi s0 Hn) as (G & _ & _ & HI0).
  destruct (seg_run_spec (lay s0) G h s0 [] None s outs eq_refl HI0 Hv Hr) as (HL & HI & _).
  pose proof (inv_len _ _ _ _ HI) as Hlen. pose proof (inv_len _ _ _ _ HI0) as Hlen0.
  unfold seg_clear. rewrite map_nil_repeat, HL, Hlen.
  unfold seg_new in Hn. destruct (layout_new lo hi) as [L|]; [|discriminate]. inversion Hn; subst s0. reflexivity.
Qed.
