(** * The arena-level loops of KeyExpTree (Model/ArenaKey.v) refine the tree-level model
    (Model/KeyModel.v): under the representation relation [Rep a EMPTY (aroot a) (kroot s)] (same pool)
    and the invariant [KInv s],

    - [arena_kdelete] (delete_index + put_back) refines [kdelete],
    - [arena_expire_root] refines [expire_root], [arena_expire_child] refines [expire_child]
      (expire_left / expire_right): same new pool, same index returned, the new arena represents the
      new tree,
    - [arena_search] / [arena_query] refine [search] / [k_query] (search_value, search_first_less,
      search_first_less_or_equal(_by)): same answers,
    - [arena_ins_descend] followed by insert_as_left / insert_as_right AT THE HELD NODE, and
      [arena_k_insert] (insert_entity), refine [ins_descend] + [k_link] and [k_insert], although
      [k_link] inserts with a fresh descent from the root ([insert_tree]): the purging descent keeps the
      held node on the search path of the new key ([inpath], [inpath_on_path]), so both place the node
      at the same leaf.

    Every physical deletion goes through [arena_delete_refines_frame] (Proofs/ArenaDeleteProofs.v), the
    link + repair through [descend_spec] / [ins_plug] (Proofs/ArenaProofs.v), both at the entity [kent].
    The statements need no contract on the keys or times: they follow the run of the tree-level model,
    whatever it is; [arena_query_total] / [arena_k_insert_total] add the contract and conclude that the
    arena-level operations do not fail. *)
From Coq Require Import List NArith ZArith Bool Lia Permutation Sorted.
Import ListNotations.
Require Import ITree.Model.Common ITree.Model.RBTree ITree.Model.Pool ITree.Model.MapModel ITree.Model.KeyModel.
Require Import ITree.Model.ArenaModel ITree.Model.ArenaDelete ITree.Model.ArenaKey.
Require Import ITree.Proofs.RBElems ITree.Proofs.RBInv ITree.Proofs.Subtree ITree.Proofs.TreeLookup
  ITree.Proofs.SortedList ITree.Proofs.PoolProofs ITree.Proofs.KeyProofs
  ITree.Proofs.ArenaProofs ITree.Proofs.ArenaDeleteProofs.
Local Open Scope N_scope.

(** ** validation of the transcription by evaluation (before any proof): the same history run on the
    tree-level model and on the arena; after every operation the arena read back by [read_tree] is the
    tree of the model, the pools are equal, and the answers are equal *)
Inductive vop := VIns (k e v t: Z) | VQ (q: qkind) (t key: Z) | VBy (t: Z) (lo hi: Z).

Definition agree (s: kstate) (st: kast) : Prop :=
  read_tree 64 (fst st) EMPTY (aroot (fst st)) = Some (kroot s) /\ snd st = kpl s.

(* a comparator for first_less_or_equal_by: Eq on [lo, hi] *)
Definition band (lo hi: Z) (k: Z) : comparison :=
  if Z.ltb k lo then Lt else if Z.ltb hi k then Gt else Eq.

Fixpoint vrun (n: nat) (s: kstate) (st: kast) (ops: list vop) : Prop :=
  match ops with
  | [] => True
  | VIns k e v t :: ops' =>
    let ne := {| kk := k; kexp := e; kval := v |} in
    match k_insert s ne t, arena_k_insert n n n n st ne t with
    | Ret (s', _), Ret st' => agree s' st' /\ vrun n s' st' ops'
    | _, _ => False
    end
  | VQ q t key :: ops' =>
    match k_query q (cmp_to key) s t, arena_query n n n q (cmp_to key) st t with
    | Ret (s', o1, _), Ret (st', o2) => agree s' st' /\ o1 = o2 /\ vrun n s' st' ops'
    | _, _ => False
    end
  | VBy t lo hi :: ops' =>
    match k_query QLessEq (band lo hi) s t, arena_query n n n QLessEq (band lo hi) st t with
    | Ret (s', o1, _), Ret (st', o2) => agree s' st' /\ o1 = o2 /\ vrun n s' st' ops'
    | _, _ => False
    end
  end.

Definition kent0 : kent := {| kk := 0; kexp := 0; kval := 0 |}.
Definition vstart (ops: list vop) : Prop := vrun 64 (k_new 8) (empty_arena kent0, kpl (k_new 8)) ops.

(* thirty entries with scattered keys and expirations, inserted at time 0 *)
Definition vins (n: nat) : list vop :=
  map (fun i => let z := Z.of_nat i in VIns ((z * 17) mod 41) (5 + (z * 7) mod 23) (100 + z) 0) (seq 1 n).

(* how many entries the queries of a history physically remove (non-vacuity of the expiry loops) *)
Fixpoint vsizes (s: kstate) (ops: list vop) : list nat :=
  match ops with
  | [] => [KeyModel.ksize s]
  | VIns k e v t :: ops' =>
    match k_insert s {| kk := k; kexp := e; kval := v |} t with Ret (s', _) => KeyModel.ksize s :: vsizes s' ops' | _ => [] end
  | VQ q t key :: ops' =>
    match k_query q (cmp_to key) s t with Ret (s', _, _) => KeyModel.ksize s :: vsizes s' ops' | _ => [] end
  | VBy t lo hi :: ops' =>
    match k_query QLessEq (band lo hi) s t with Ret (s', _, _) => KeyModel.ksize s :: vsizes s' ops' | _ => [] end
  end.

Definition hist_a : list vop :=
  vins 30 ++ [VQ QGet 6 20; VQ QLess 8 33; VQ QLessEq 10 12; VBy 11 14 19; VQ QGet 12 40; VQ QLess 13 5;
              VIns 50 40 150 14; VIns 3 40 151 15; VQ QLessEq 16 41; VIns 22 60 152 17; VQ QGet 18 22;
              VQ QLess 20 100; VIns 1 90 153 21; VQ QLess 24 2; VBy 26 0 100; VQ QGet 28 50; VQ QLessEq 100 100].
Definition hist_b : list vop :=
  vins 40 ++ [VQ QLess 30 100; VQ QLess 30 0].
Definition hist_c : list vop :=
  vins 25 ++ [VIns 100 50 1 9; VIns 0 50 2 12; VIns 21 50 3 15; VIns 20 50 4 18; VIns 19 50 5 21; VIns 41 50 6 27;
              VQ QGet 49 21; VQ QGet 50 21].

Example arena_key_agrees : vstart hist_a /\ vstart hist_b /\ vstart hist_c.
Proof. vm_compute. repeat split; reflexivity. Qed.

(* the entries stored before each operation (and at the end): the queries and insertions of these
   histories physically remove entries, at the root and below held nodes *)
Example arena_key_purges :
  skipn 30 (vsizes (k_new 8) hist_a) = [30; 30; 30; 29; 29; 24; 22; 22; 23; 22; 20; 20; 18; 17; 14; 14; 10; 0]%nat /\
  skipn 40 (vsizes (k_new 8) hist_b) = [40; 0; 0]%nat /\
  skipn 25 (vsizes (k_new 8) hist_c) = [25; 25; 23; 20; 20; 19; 12; 9; 0]%nat.
Proof. vm_compute. repeat split; reflexivity. Qed.

(** ** reading the arena at a node of the represented tree *)
Notation RepK a t := (Rep a EMPTY (aroot a) t).

Lemma Rep_subtree (a: karena) (u t: ktree) : subtree kent u t -> forall p x, Rep a p x t ->
  exists p', Rep a p' (rlink u) u.
Proof.
  induction 1 as [|c l s e r Hs IH|c l s e r Hs IH]; intros p x HR.
  - exists p. rewrite <- (Rep_link _ _ _ _ HR). exact HR.
  - apply Rep_inv_T in HR. destruct HR as (_ & _ & _ & _ & _ & Hl & _). eapply IH; eauto.
  - apply Rep_inv_T in HR. destruct HR as (_ & _ & _ & _ & _ & _ & Hr). eapply IH; eauto.
Qed.

Lemma node_of_subtree (a: karena) (t: ktree) c l x e r : RepK a t -> subtree kent (T c l x e r) t ->
  x <> EMPTY /\ aent (nodes a x) = e /\ lft (nodes a x) = rlink l /\ rgt (nodes a x) = rlink r /\
  Rep a x (rlink l) l /\ Rep a x (rlink r) r.
Proof.
  intros HR Hs. destruct (Rep_subtree a _ _ Hs _ _ HR) as (p' & Hu). cbn [rlink] in Hu.
  apply Rep_inv_T in Hu. destruct Hu as (_ & Nx & _ & _ & He & Hl & Hr).
  pose proof (Rep_link _ _ _ _ Hl) as El. pose proof (Rep_link _ _ _ _ Hr) as Er.
  repeat split; auto; congruence.
Qed.

Lemma child_link_of (a: karena) (t: ktree) d c l x e r : RepK a t -> subtree kent (T c l x e r) t ->
  child_link d a x = rlink (child_of d l r) /\ Rep a x (rlink (child_of d l r)) (child_of d l r).
Proof.
  intros HR Hs. destruct (node_of_subtree a t c l x e r HR Hs) as (_ & _ & El & Er & Hl & Hr).
  destruct d; cbn [child_link child_of]; auto.
Qed.

(** ** what the invariant provides *)
Lemma height_le_size (t: ktree) : (height kent t <= ksize t)%nat.
Proof. induction t as [|c l IHl s e r IHr]; simpl; lia. Qed.

Lemma KInv_arena s : KInv s ->
  NoDup (kslots (kroot s)) /\ ~ In 0 (kslots (kroot s)) /\ rbi kent (kroot s).
Proof.
  intros ((ND & Hrb & _) & (_ & Hrange & _)). repeat split; auto.
  intros K. assert (K': In 0 (kslots (kroot s) ++ unused (kpl s))) by (apply in_or_app; auto).
  apply Hrange in K'. lia.
Qed.

Lemma kdelete_facts s y e s' : KInv s -> In (y, e) (kel (kroot s)) -> kdelete s y = Ret s' ->
  KInv s' /\ (ksize (kroot s') < ksize (kroot s))%nat.
Proof.
  intros HI Hin Hk. destruct (kdelete_spec s y e HI Hin) as (s1 & d & f & A & B & Hk1 & HI1 & _ & He & Hents).
  rewrite Hk in Hk1. inversion Hk1; subst s1. split; [exact HI1|].
  destruct (tdel_ents _ _ _ _ _ _ He Hents) as (_ & Hlen).
  rewrite !size_elements. unfold RBTree.ents in Hlen. rewrite !map_length in Hlen. lia.
Qed.

(** ** delete_index + put_back *)
Lemma arena_kdelete_refines dfuel s (a: karena) y s' :
  KInv s -> RepK a (kroot s) -> In y (kslots (kroot s)) -> (ksize (kroot s) <= dfuel)%nat ->
  kdelete s y = Ret s' ->
  exists a', arena_kdelete dfuel (a, kpl s) y = Ret (a', kpl s') /\ RepK a' (kroot s').
Proof.
  intros HI HR Hy Hf Hk. destruct (KInv_arena s HI) as (ND & H0 & Hrb).
  pose proof (height_le_size (kroot s)) as Hh.
  destruct (arena_delete_refines_frame a (kroot s) y dfuel HR ND H0 Hrb Hy ltac:(lia)) as (t' & d & f & a' & Hd & Ha & HR' & _).
  unfold kdelete in Hk. rewrite Hd in Hk. inversion Hk; subst s'. cbn [kroot kpl].
  exists a'. split; [|exact HR']. unfold arena_kdelete. cbn [fst snd]. rewrite Ha. reflexivity.
Qed.

(** ** expire_root *)
Theorem arena_expire_root_refines time dfuel : forall fuel s (a: karena) s' evs efuel,
  KInv s -> RepK a (kroot s) -> (ksize (kroot s) <= dfuel)%nat -> (fuel < efuel)%nat ->
  expire_root fuel s time = Ret (s', evs) ->
  exists a', arena_expire_root dfuel efuel (a, kpl s) time = Ret ((a', kpl s'), rlink (kroot s')) /\
    RepK a' (kroot s') /\ KInv s' /\ (ksize (kroot s') <= ksize (kroot s))%nat.
Proof.
  induction fuel as [|fuel IH]; intros s a s' evs efuel HI HR Hd Hf Hrun;
    (destruct efuel as [|ef]; [lia|]); cbn [arena_expire_root fst snd]; cbn [expire_root] in Hrun.
  - destruct (kroot s) as [|c l x e r] eqn:Hr.
    + inversion Hrun; subst s' evs. rewrite Hr. pose proof (Rep_inv_E _ _ _ HR) as Ex. rewrite Ex, N.eqb_refl.
      exists a. cbn [rlink]. split; [reflexivity|]. split; [exact HR|]. split; [exact HI|]. lia.
    + pose proof (Rep_inv_T _ _ _ _ _ _ _ _ HR) as (Hx & Nx & _ & _ & He & _).
      destruct (live time e) eqn:Hl; [|discriminate]. inversion Hrun; subst s' evs.
      rewrite Hx. apply N.eqb_neq in Nx. rewrite Nx. unfold not_expired. rewrite He, Hl.
      exists a. rewrite Hr. cbn [rlink]. split; [reflexivity|]. split; [exact HR|]. split; [exact HI|]. lia.
  - destruct (kroot s) as [|c l x e r] eqn:Hr.
    + inversion Hrun; subst s' evs. rewrite Hr. pose proof (Rep_inv_E _ _ _ HR) as Ex. rewrite Ex, N.eqb_refl.
      exists a. cbn [rlink]. split; [reflexivity|]. split; [exact HR|]. split; [exact HI|]. lia.
    + pose proof (Rep_inv_T _ _ _ _ _ _ _ _ HR) as (Hx & Nx & _ & _ & He & _).
      rewrite Hx. pose proof Nx as Nx'. apply N.eqb_neq in Nx'. rewrite Nx'. unfold not_expired. rewrite He.
      destruct (live time e) eqn:Hl.
      * inversion Hrun; subst s' evs. exists a. rewrite Hr. cbn [rlink]. split; [reflexivity|]. split; [exact HR|]. split; [exact HI|]. lia.
      * destruct (kdelete s x) as [s1|err] eqn:Hk; [|discriminate]. cbn [bind] in Hrun.
        destruct (expire_root fuel s1 time) as [[s2 evs2]|err] eqn:Hex; [|discriminate]. cbn [bind fst snd] in Hrun.
        inversion Hrun; subst s' evs.
        assert (Hin: In (x, e) (kel (kroot s))) by (rewrite Hr; simpl; apply in_or_app; simpl; auto).
        destruct (kdelete_facts s x e s1 HI Hin Hk) as (HI1 & Hsz).
        assert (HRs: RepK a (kroot s)) by (rewrite Hr; exact HR).
        destruct (arena_kdelete_refines dfuel s a x s1 HI HRs) as (a1 & Ha1 & HR1); auto.
        { eapply in_elements_slots; eauto. } { rewrite Hr. exact Hd. }
        rewrite Ha1. cbn [bind].
        destruct (IH s1 a1 s2 evs2 ef HI1 HR1) as (a2 & Ha2 & HR2 & HI2 & Hsz2); auto; try lia.
        { rewrite Hr in Hsz. lia. }
        exists a2. split; [exact Ha2|]. split; [exact HR2|]. split; [exact HI2|]. rewrite Hr in Hsz. lia.
Qed.

(** ** expire_left / expire_right *)
Definition olink (oy: option N) : N := match oy with None => EMPTY | Some y => y end.

Lemma child_sub d (t: ktree) x ch : child d t x = Some ch ->
  exists c l e r, subtree kent (T c l x e r) t /\ ch = child_of d l r.
Proof.
  unfold child. destruct (sub kent t x) as [u|] eqn:Hs; [|discriminate].
  destruct (sub_subtree kent t x u Hs) as (Hsub & c & l & e & r & ->).
  intros H. exists c, l, e, r. split; [exact Hsub|]. destruct d; inversion H; reflexivity.
Qed.

Theorem arena_expire_child_refines d time dfuel : forall fuel s (a: karena) x s' oy evs efuel,
  KInv s -> RepK a (kroot s) -> (ksize (kroot s) <= dfuel)%nat -> (fuel < efuel)%nat ->
  expire_child fuel d s x time = Ret (s', oy, evs) ->
  exists a', arena_expire_child dfuel efuel d (a, kpl s) x time = Ret ((a', kpl s'), olink oy) /\
    RepK a' (kroot s') /\ KInv s' /\ (ksize (kroot s') <= ksize (kroot s))%nat.
Proof.
  induction fuel as [|fuel IH]; intros s a x s' oy evs efuel HI HR Hd Hf Hrun;
    (destruct efuel as [|ef]; [lia|]); cbn [arena_expire_child fst snd]; cbn [expire_child] in Hrun.
  - destruct (child d (kroot s) x) as [ch|] eqn:Hch; [|discriminate].
    destruct (child_sub d _ x ch Hch) as (cx & lx & ex & rx & Hsub & ->).
    destruct (child_link_of a (kroot s) d cx lx x ex rx HR Hsub) as (El & Hc). rewrite El.
    destruct (child_of d lx rx) as [|c l y e r].
    + inversion Hrun; subst s' oy evs. cbn [rlink olink]. rewrite N.eqb_refl.
      exists a. split; [reflexivity|]. split; [exact HR|]. split; [exact HI|]. lia.
    + cbn [rlink] in *. pose proof (Rep_inv_T _ _ _ _ _ _ _ _ Hc) as (_ & Ny & _ & _ & He & _).
      apply N.eqb_neq in Ny. rewrite Ny. unfold not_expired. rewrite He.
      destruct (live time e) eqn:Hl; [|discriminate]. inversion Hrun; subst s' oy evs. cbn [olink].
      exists a. split; [reflexivity|]. split; [exact HR|]. split; [exact HI|]. lia.
  - destruct (child d (kroot s) x) as [ch|] eqn:Hch; [|discriminate].
    destruct (child_sub d _ x ch Hch) as (cx & lx & ex & rx & Hsub & ->).
    destruct (child_link_of a (kroot s) d cx lx x ex rx HR Hsub) as (El & Hc). rewrite El.
    destruct (child_of d lx rx) as [|c l y e r] eqn:Ech.
    + inversion Hrun; subst s' oy evs. cbn [rlink olink]. rewrite N.eqb_refl.
      exists a. split; [reflexivity|]. split; [exact HR|]. split; [exact HI|]. lia.
    + cbn [rlink] in *. pose proof (Rep_inv_T _ _ _ _ _ _ _ _ Hc) as (_ & Ny & _ & _ & He & _).
      apply N.eqb_neq in Ny. rewrite Ny. unfold not_expired. rewrite He.
      destruct (live time e) eqn:Hl.
      * inversion Hrun; subst s' oy evs. cbn [olink].
        exists a. split; [reflexivity|]. split; [exact HR|]. split; [exact HI|]. lia.
      * destruct (kdelete s y) as [s1|err] eqn:Hk; [|discriminate]. cbn [bind] in Hrun.
        destruct (expire_child fuel d s1 x time) as [[[s2 oy2] evs2]|err] eqn:Hex; [|discriminate].
        cbn [bind fst snd] in Hrun. inversion Hrun; subst s' oy evs.
        assert (Hin: In (y, e) (kel (kroot s))).
        { eapply subtree_elements; [exact Hsub|]. simpl. apply in_or_app.
          assert (Hy: In (y, e) (kel (child_of d lx rx))) by (rewrite Ech; simpl; apply in_or_app; simpl; auto).
          destruct d; cbn [child_of] in Hy; [left|right; right]; exact Hy. }
        destruct (kdelete_facts s y e s1 HI Hin Hk) as (HI1 & Hsz).
        destruct (arena_kdelete_refines dfuel s a y s1 HI HR) as (a1 & Ha1 & HR1); auto.
        { eapply in_elements_slots; eauto. }
        rewrite Ha1. cbn [bind].
        destruct (IH s1 a1 x s2 oy2 evs2 ef HI1 HR1) as (a2 & Ha2 & HR2 & HI2 & Hsz2); auto; try lia.
        exists a2. split; [exact Ha2|]. split; [exact HR2|]. split; [exact HI2|]. lia.
Qed.

(** ** the search loops *)
Lemma arena_search_unfold dfuel efuel fu q f st index time result :
  arena_search dfuel efuel (S fu) q f st index time result =
  if N.eqb index EMPTY then Ret (st, result)
  else
    let e := aent (nodes (fst st) index) in
    match step_of q (f (kk e)) with
    | None => Ret (st, Some (kval e))
    | Some (d, upd) =>
      bind (arena_expire_child dfuel efuel d st index time) (fun r =>
      arena_search dfuel efuel fu q f (fst r) (snd r) time (if upd then Some (kval e) else result))
    end.
Proof.
  cbn [arena_search]. destruct (N.eqb index EMPTY); [reflexivity|]. cbv zeta.
  destruct q, (f (kk (aent (nodes (fst st) index)))); reflexivity.
Qed.

Lemma ent_at_sub (t: ktree) x e : ent_at kent t x = Some e -> exists c l r, subtree kent (T c l x e r) t.
Proof.
  unfold ent_at. destruct (sub kent t x) as [u|] eqn:Hs; [|discriminate].
  destruct (sub_subtree kent t x u Hs) as (Hsub & c & l & e0 & r & ->). intros H. inversion H; subst. eauto.
Qed.

Theorem arena_search_refines q f time dfuel efuel : forall fuel s (a: karena) x res0 s' out evs sfuel,
  KInv s -> RepK a (kroot s) -> (ksize (kroot s) <= dfuel)%nat -> (ksize (kroot s) < efuel)%nat ->
  (fuel < sfuel)%nat ->
  search fuel q f s x time res0 = Ret (s', out, evs) ->
  exists a', arena_search dfuel efuel sfuel q f (a, kpl s) x time res0 = Ret ((a', kpl s'), out) /\
    RepK a' (kroot s') /\ KInv s' /\ (ksize (kroot s') <= ksize (kroot s))%nat.
Proof.
  induction fuel as [|fu IH]; intros s a x res0 s' out evs sfuel HI HR Hd He Hf Hrun; [discriminate|].
  destruct sfuel as [|sf]; [lia|]. rewrite search_unfold in Hrun. rewrite arena_search_unfold. cbn [fst].
  destruct (ent_at kent (kroot s) x) as [e|] eqn:Hent; [|discriminate].
  destruct (ent_at_sub _ _ _ Hent) as (c & l & r & Hsub).
  destruct (node_of_subtree a (kroot s) c l x e r HR Hsub) as (Nx & Ee & _).
  apply N.eqb_neq in Nx. rewrite Nx. cbv zeta. rewrite Ee.
  destruct (step_of q (f (kk e))) as [[d upd]|].
  2:{ inversion Hrun; subst s' out evs. exists a. split; [reflexivity|]. split; [exact HR|]. split; [exact HI|]. lia. }
  destruct (expire_child (KeyModel.ksize s) d s x time) as [[[s1 oy] evs1]|err] eqn:Hex; [|discriminate].
  cbn [bind fst snd] in Hrun.
  destruct (arena_expire_child_refines d time dfuel (KeyModel.ksize s) s a x s1 oy evs1 efuel HI HR Hd He Hex)
    as (a1 & Ha1 & HR1 & HI1 & Hsz1).
  rewrite Ha1. cbn [bind fst snd].
  destruct oy as [y|]; cbn [olink].
  - destruct (search fu q f s1 y time (if upd then Some (kval e) else res0)) as [[[s2 out2] evs2]|err] eqn:Hs2; [|discriminate].
    cbn [bind fst snd] in Hrun. inversion Hrun; subst s' out evs.
    destruct (IH s1 a1 y (if upd then Some (kval e) else res0) s2 out2 evs2 sf HI1 HR1) as (a2 & Ha2 & HR2 & HI2 & Hsz2); auto; try lia.
    exists a2. split; [exact Ha2|]. split; [exact HR2|]. split; [exact HI2|]. lia.
  - inversion Hrun; subst s' out evs. destruct sf as [|sf]; [lia|]. rewrite arena_search_unfold, N.eqb_refl.
    exists a1. split; [reflexivity|]. split; [exact HR1|]. split; [exact HI1|]. lia.
Qed.

Theorem arena_query_refines q f time s (a: karena) s' out evs dfuel efuel sfuel :
  KInv s -> RepK a (kroot s) -> (ksize (kroot s) <= dfuel)%nat -> (ksize (kroot s) < efuel)%nat ->
  (S (ksize (kroot s)) < sfuel)%nat ->
  k_query q f s time = Ret (s', out, evs) ->
  exists a', arena_query dfuel efuel sfuel q f (a, kpl s) time = Ret ((a', kpl s'), out) /\
    RepK a' (kroot s') /\ KInv s' /\ (ksize (kroot s') <= ksize (kroot s))%nat.
Proof.
  intros HI HR Hd He Hf Hrun. unfold k_query in Hrun. unfold arena_query.
  destruct (expire_root (KeyModel.ksize s) s time) as [[s1 evs1]|err] eqn:Hex; [|discriminate].
  cbn [bind fst snd] in Hrun.
  destruct (arena_expire_root_refines time dfuel (KeyModel.ksize s) s a s1 evs1 efuel HI HR Hd He Hex)
    as (a1 & Ha1 & HR1 & HI1 & Hsz1).
  rewrite Ha1. cbn [bind fst snd].
  destruct (kroot s1) as [|c l x e r] eqn:Hr1.
  - inversion Hrun; subst s' out evs. cbn [rlink]. destruct sfuel as [|sf]; [lia|]. rewrite arena_search_unfold, N.eqb_refl.
    exists a1. split; [reflexivity|]. split; [rewrite Hr1; exact HR1|]. split; [exact HI1|]. rewrite Hr1. exact Hsz1.
  - destruct (search (S (KeyModel.ksize s1)) q f s1 x time None) as [[[s2 out2] evs2]|err] eqn:Hs2; [|discriminate].
    cbn [bind fst snd] in Hrun. inversion Hrun; subst s' out evs. cbn [rlink].
    assert (HR1': RepK a1 (kroot s1)) by (rewrite Hr1; exact HR1).
    assert (Hsz1': (ksize (kroot s1) <= ksize (kroot s))%nat) by (rewrite Hr1; exact Hsz1).
    destruct (arena_search_refines q f time dfuel efuel (S (KeyModel.ksize s1)) s1 a1 x None s2 out2 evs2 sfuel HI1 HR1')
      as (a2 & Ha2 & HR2 & HI2 & Hsz2); auto; try lia.
    { unfold KeyModel.ksize. lia. }
    exists a2. split; [exact Ha2|]. split; [exact HR2|]. split; [exact HI2|]. lia.
Qed.

(** ** the descent of insert_entity ends where the search for the new key ends *)
Local Open Scope Z_scope.

(* every entry outside the subtree [u] lies on the same side of the new key as of the entries of [u] *)
Definition inpath (ne: kent) (t u: ktree) : Prop :=
  forall e, In e (kents t) -> ~ In e (kents u) -> forall z, In z (kents u) ->
    (kk e < kk z -> kk e <= kk ne) /\ (kk z < kk e -> kk ne < kk e).

Lemma inpath_root ne t : inpath ne t t.
Proof. intros e He Hn. contradiction. Qed.

(* in a search tree, an entry outside a subtree is smaller than all of it or larger than all of it *)
Lemma outside_sides (t: ktree) : bst kent kk t -> forall u, ksubtree u t ->
  forall e, In e (kents t) -> ~ In e (kents u) ->
  (forall z, In z (kents u) -> kk e < kk z) \/ (forall z, In z (kents u) -> kk z < kk e).
Proof.
  intros Hb u Hs. induction Hs as [|c l s e0 r Hs IH|c l s e0 r Hs IH]; intros e He Hn; [contradiction| |].
  - destruct (bst_inv kent kk _ _ _ _ _ Hb) as (Hbl & Hbr & Hlt & Hgt).
    assert (Hul: forall z, In z (kents u) -> kk z < kk e0).
    { intros z Hz. apply (subtree_ents _ _ Hs) in Hz. unfold RBTree.ents in Hz. apply in_map_iff in Hz.
      destruct Hz as (p & <- & Hp). auto. }
    apply kents_node in He. destruct He as [He|[->|He]].
    + apply IH; auto.
    + right. exact Hul.
    + right. intros z Hz. specialize (Hul z Hz). unfold RBTree.ents in He. apply in_map_iff in He.
      destruct He as (p & <- & Hp). specialize (Hgt p Hp). lia.
  - destruct (bst_inv kent kk _ _ _ _ _ Hb) as (Hbl & Hbr & Hlt & Hgt).
    assert (Hur: forall z, In z (kents u) -> kk e0 < kk z).
    { intros z Hz. apply (subtree_ents _ _ Hs) in Hz. unfold RBTree.ents in Hz. apply in_map_iff in Hz.
      destruct Hz as (p & <- & Hp). auto. }
    apply kents_node in He. destruct He as [He|[->|He]].
    + left. intros z Hz. specialize (Hur z Hz). unfold RBTree.ents in He. apply in_map_iff in He.
      destruct He as (p & <- & Hp). specialize (Hlt p Hp). lia.
    + left. exact Hur.
    + apply IH; auto.
Qed.

Definition dir_of (ne ex: kent) : dir := if kk ne <? kk ex then L else R.

(* purging below the held node keeps the invariant *)
Lemma inpath_purge ne (t t': ktree) d cx lx x ex rx cx' lx' rx' removed :
  bst kent kk t -> bst kent kk t' ->
  ksubtree (T cx lx x ex rx) t -> ksubtree (T cx' lx' x ex rx') t' ->
  Permutation (kents t) (kents t' ++ removed) ->
  Permutation (kents (child_of d lx rx)) (kents (child_of d lx' rx') ++ removed) ->
  d = dir_of ne ex ->
  inpath ne t (T cx lx x ex rx) -> inpath ne t' (T cx' lx' x ex rx').
Proof.
  intros Hb Hb' Hs Hs' Pt Pc Hd J e He Hn z Hz.
  assert (Het: In e (kents t)).
  { eapply Permutation_in; [apply Permutation_sym; exact Pt|]. apply in_or_app. auto. }
  assert (Hex': In ex (kents (T cx' lx' x ex rx'))) by (apply kents_node; auto).
  assert (Hex0: In ex (kents (T cx lx x ex rx))) by (apply kents_node; auto).
  pose proof (outside_sides t' Hb' _ Hs' e He Hn) as Side.
  destruct (bst_subtree_node t Hb _ _ _ _ _ Hs) as (Hlt & Hgt).
  destruct (in_dec (fun a b : kent => ltac:(decide equality; apply Z.eq_dec) : {a = b} + {a <> b}) e (kents (T cx lx x ex rx))) as [Hin|Hout].
  - (* an entry of the old subtree that is no longer below the held node *)
    apply kents_node in Hin.
    assert (Hnc: ~ In e (kents (child_of d lx rx))).
    { intros K. apply (Permutation_in _ Pc) in K. apply in_app_or in K. destruct K as [K|K].
      - apply Hn. apply kents_node. destruct d; cbn [child_of] in K; auto.
      - pose proof (kents_nodup _ Hb) as NDe. apply (Permutation_NoDup Pt) in NDe.
        apply NoDup_app_elim in NDe. destruct NDe as (_ & _ & Hdisj). apply (Hdisj e He K). }
    assert (Hne: e <> ex) by (intros ->; contradiction).
    unfold dir_of in Hd. destruct (Z.ltb_spec (kk ne) (kk ex)) as [Hk|Hk]; subst d; cbn [child_of] in Hnc.
    + destruct Hin as [Hin|[Hin|Hin]]; [contradiction|congruence|]. specialize (Hgt e Hin).
      destruct Side as [Sd|Sd]; [specialize (Sd ex Hex'); lia|]. specialize (Sd z Hz). split; intros; lia.
    + destruct Hin as [Hin|[Hin|Hin]]; [|congruence|contradiction]. specialize (Hlt e Hin).
      destruct Side as [Sd|Sd]; [|specialize (Sd ex Hex'); lia]. specialize (Sd z Hz). split; intros; lia.
  - destruct (J e Het Hout ex Hex0) as (J1 & J2).
    destruct Side as [Sd|Sd]; pose proof (Sd ex Hex') as S1; pose proof (Sd z Hz) as S2; split; intros; lia.
Qed.

(* stepping down to the (live) child *)
Lemma inpath_child ne (t: ktree) d cx lx x ex rx :
  bst kent kk t -> ksubtree (T cx lx x ex rx) t -> d = dir_of ne ex ->
  inpath ne t (T cx lx x ex rx) -> inpath ne t (child_of d lx rx).
Proof.
  intros Hb Hs Hd J e He Hn z Hz.
  destruct (bst_subtree_node t Hb _ _ _ _ _ Hs) as (Hlt & Hgt).
  assert (Hzu: In z (kents (T cx lx x ex rx))) by (apply kents_node; destruct d; cbn [child_of] in Hz; auto).
  destruct (in_dec (fun a b : kent => ltac:(decide equality; apply Z.eq_dec) : {a = b} + {a <> b}) e (kents (T cx lx x ex rx))) as [Hin|Hout].
  - apply kents_node in Hin.
    unfold dir_of in Hd. destruct (Z.ltb_spec (kk ne) (kk ex)) as [Hk|Hk]; subst d; cbn [child_of] in *.
    + specialize (Hlt z Hz). destruct Hin as [Hin|[->|Hin]]; [contradiction| |specialize (Hgt e Hin)]; split; intros; lia.
    + specialize (Hgt z Hz). destruct Hin as [Hin|[->|Hin]]; [specialize (Hlt e Hin)| |contradiction]; split; intros; lia.
  - apply (J e He Hout z Hzu).
Qed.

Lemma subtree_plug (u t: ktree) : ksubtree u t -> exists k, t = plug k u.
Proof.
  induction 1 as [|c l s e r Hs (k & ->)|c l s e r Hs (k & ->)].
  - exists []. reflexivity.
  - exists (k ++ [FL c s e r]). rewrite plug_app. reflexivity.
  - exists (k ++ [FR c l s e]). rewrite plug_app. reflexivity.
Qed.

Lemma plug_subtree k : forall u: ktree, ksubtree u (plug k u).
Proof.
  induction k as [|f k IH]; intros u; cbn [plug]; [apply st_here|].
  eapply subtree_trans; [|apply IH]. destruct f; cbn [plug1]; [apply st_left|apply st_right]; apply st_here.
Qed.

Lemma inpath_on_path ne : forall k (u: ktree), u <> E -> bst kent kk (plug k u) -> inpath ne (plug k u) u ->
  Forall (on_path kk ne) k.
Proof.
  induction k as [|f k IH]; intros u Hne Hb J; [constructor|]. cbn [plug] in *.
  pose proof (plug_subtree k (plug1 f u)) as Hs1.
  destruct u as [|cu lu xu eu ru]; [congruence|].
  assert (Heu: In eu (kents (T cu lu xu eu ru))) by (apply kents_node; auto).
  constructor.
  - destruct f as [c i ef r|c l i ef]; cbn [plug1 on_path] in *.
    + destruct (bst_subtree_node _ Hb _ _ _ _ _ Hs1) as (Hlt & _).
      assert (Hef: In ef (kents (plug k (T c (T cu lu xu eu ru) i ef r)))).
      { apply (subtree_ents _ _ Hs1). apply kents_node. auto. }
      assert (Hn: ~ In ef (kents (T cu lu xu eu ru))) by (intros K; specialize (Hlt ef K); lia).
      destruct (J ef Hef Hn eu Heu) as (_ & J2). apply Z.ltb_lt. apply J2. apply Hlt. exact Heu.
    + destruct (bst_subtree_node _ Hb _ _ _ _ _ Hs1) as (_ & Hgt).
      assert (Hef: In ef (kents (plug k (T c l i ef (T cu lu xu eu ru))))).
      { apply (subtree_ents _ _ Hs1). apply kents_node. auto. }
      assert (Hn: ~ In ef (kents (T cu lu xu eu ru))) by (intros K; specialize (Hgt ef K); lia).
      destruct (J ef Hef Hn eu Heu) as (J1 & _). apply Z.ltb_ge. apply J1. apply Hgt. exact Heu.
  - apply (IH (plug1 f (T cu lu xu eu ru))); [destruct f; discriminate|exact Hb|].
    intros e He Hn z Hz.
    assert (Hsub: forall w, In w (kents (T cu lu xu eu ru)) -> In w (kents (plug1 f (T cu lu xu eu ru)))).
    { intros w Hw. destruct f; cbn [plug1]; apply kents_node; auto. }
    assert (Hn0: ~ In e (kents (T cu lu xu eu ru))) by (intros K; apply Hn; apply Hsub; exact K).
    destruct (J e He Hn0 eu Heu) as (J1 & J2).
    destruct (outside_sides _ Hb _ Hs1 e He Hn) as [Sd|Sd];
      pose proof (Sd z Hz) as S1; pose proof (Sd eu (Hsub eu Heu)) as S2; split; intros; lia.
Qed.
Local Open Scope N_scope.

(** ** insert_as_left / insert_as_right at the held node *)
Lemma pool_get_le used p i p' : pool_wf used p -> pool_get p = Some (i, p') -> i <= blen p.
Proof.
  intros (ND & Hin & Hc & Hb) H. unfold pool_get in H. destruct (unused p) as [|x rest] eqn:Hu.
  - destruct (N.eqb (ucap p) 0); [discriminate|]. inversion H; subst. lia.
  - inversion H; subst. assert (Hx: In i (used ++ i :: rest)) by (apply in_or_app; simpl; auto).
    apply Hin in Hx. lia.
Qed.

Lemma plug_not_E k : forall (u: ktree), u <> E -> plug k u <> E.
Proof. induction k as [|f k IH]; intros u Hu; cbn [plug]; [exact Hu|]. apply IH. destruct f; discriminate. Qed.

Lemma link_refines (a: karena) ne ni k d c l x ex r ifuel :
  let t := plug k (T c l x ex r) in
  RepK a t -> NoDup (kslots t) -> ~ In ni (kslots t) -> ni <> EMPTY ->
  Forall (on_path kk ne) k -> d = dir_of ne ex -> child_of d l r = E ->
  (2 * ksize t + 2 <= ifuel)%nat ->
  exists a', (match d with
              | L => insert_as_left ifuel a ni ne x
              | R => insert_as_right ifuel a ni ne x
              end) = Ret a' /\ RepK a' (insert_tree kent kk t ni ne).
Proof.
  intros t HR ND Hni Nni HP Hd Hch Hfuel. subst t.
  destruct (Rep_unplug _ _ _ HR) as (HC & Hu).
  pose proof (nd_foc _ _ ND) as ND'.
  assert (Hni': ~ In ni (kslots (T c l x ex r) ++ cslots k)) by (rewrite <- in_foc; exact Hni).
  pose proof (height_plug k (T c l x ex r)) as Hh. pose proof (height_le_size (plug k (T c l x ex r))) as Hs.
  destruct (descend_spec kk ne ni a Nni (T c l x ex r) k (S ifuel) ltac:(discriminate) HC Hu HP ND' Hni')
    as (a' & Ha' & HR'). { lia. }
  pose proof (Rep_inv_T _ _ _ _ _ _ _ _ Hu) as (Hx & _ & _ & _ & He & Hl & Hr).
  rewrite Hx in Ha'. cbn [insert_descend] in Ha'. rewrite He in Ha'.
  exists a'. split.
  - unfold dir_of in Hd. destruct (kk ne <? kk ex)%Z; subst d; cbn [child_of] in Hch; subst.
    + apply Rep_inv_E in Hl. rewrite Hl, N.eqb_refl in Ha'. exact Ha'.
    + apply Rep_inv_E in Hr. rewrite Hr, N.eqb_refl in Ha'. exact Ha'.
  - assert (Et: insert_tree kent kk (plug k (T c l x ex r)) ni ne = finish_insert kent (ins kent kk (plug k (T c l x ex r)) ni ne)).
    { pose proof (plug_not_E k (T c l x ex r) ltac:(discriminate)) as Hne.
      destruct (plug k (T c l x ex r)); [congruence|reflexivity]. }
    rewrite Et, (ins_plug kk k _ ni ne HP). exact HR'.
Qed.

(** ** the pool's buffer length is not changed by the purging loops *)
Lemma kdelete_blen s y s' : kdelete s y = Ret s' -> blen (kpl s') = blen (kpl s).
Proof.
  unfold kdelete. destruct (del kent (kroot s) y) as [| |t' d f]; try discriminate.
  intros H. inversion H; subst. reflexivity.
Qed.

Lemma expire_child_blen d time : forall fuel s x s' oy evs,
  expire_child fuel d s x time = Ret (s', oy, evs) -> blen (kpl s') = blen (kpl s).
Proof.
  induction fuel as [|fuel IH]; intros s x s' oy evs Hrun; cbn [expire_child] in Hrun;
    (destruct (child d (kroot s) x) as [[|c l y e r]|]; [inversion Hrun; reflexivity| |discriminate]);
    (destruct (live time e); [inversion Hrun; reflexivity|]); [discriminate|].
  destruct (kdelete s y) as [s1|err] eqn:Hk; [|discriminate]. cbn [bind] in Hrun.
  destruct (expire_child fuel d s1 x time) as [[[s2 oy2] evs2]|err] eqn:Hex; [|discriminate].
  cbn [bind fst snd] in Hrun. inversion Hrun; subst. rewrite (IH _ _ _ _ _ Hex). eapply kdelete_blen; eauto.
Qed.

Lemma expire_root_blen time : forall fuel s s' evs,
  expire_root fuel s time = Ret (s', evs) -> blen (kpl s') = blen (kpl s).
Proof.
  induction fuel as [|fuel IH]; intros s s' evs Hrun; cbn [expire_root] in Hrun;
    (destruct (kroot s) as [|c l x e r]; [inversion Hrun; reflexivity|]);
    (destruct (live time e); [inversion Hrun; reflexivity|]); [discriminate|].
  destruct (kdelete s x) as [s1|err] eqn:Hk; [|discriminate]. cbn [bind] in Hrun.
  destruct (expire_root fuel s1 time) as [[s2 evs2]|err] eqn:Hex; [|discriminate].
  cbn [bind fst snd] in Hrun. inversion Hrun; subst. rewrite (IH _ _ _ Hex). eapply kdelete_blen; eauto.
Qed.

(** ** the loop of insert_entity, then insert_as_left / insert_as_right at the held node *)
Theorem arena_ins_descend_refines ne time dfuel efuel ifuel : forall fuel s (a: karena) cx lx x ex rx s1 evs s2 sfuel,
  KInv s -> RepK a (kroot s) -> ksubtree (T cx lx x ex rx) (kroot s) -> inpath ne (kroot s) (T cx lx x ex rx) ->
  (ksize (kroot s) <= dfuel)%nat -> (ksize (kroot s) < efuel)%nat -> (fuel <= sfuel)%nat ->
  (2 * ksize (kroot s) + 2 <= ifuel)%nat -> blen (kpl s) < EMPTY ->
  ins_descend fuel s x time ne = Ret (s1, evs) -> k_link s1 ne = Ret s2 ->
  exists a2, arena_ins_descend dfuel efuel sfuel ifuel (a, kpl s) x time ne = Ret (a2, kpl s2) /\
    RepK a2 (kroot s2).
Proof.
  induction fuel as [|fu IH]; intros s a cx lx x ex rx s1 evs s2 sfuel HI HR Hs J Hd He Hf Hi Hb Hrun Hlink;
    [discriminate|].
  destruct sfuel as [|sf]; [lia|].
  pose proof HI as ((ND & Hrb & Hbst) & Hp).
  assert (Hxe: In (x, ex) (kel (kroot s))). { eapply subtree_elements; eauto. simpl. apply in_or_app. simpl. auto. }
  cbn [ins_descend] in Hrun. rewrite (ent_at_of_in kent kk (kroot s) x ex ND Hxe) in Hrun.
  fold (dir_of ne ex) in Hrun. set (d := dir_of ne ex) in *.
  destruct (expire_child (KeyModel.ksize s) d s x time) as [[[s1' oy] evs1]|err] eqn:Hex; [|discriminate].
  cbn [bind fst snd] in Hrun.
  pose proof (subtree_size _ _ Hs) as Hsz. cbn [RBTree.size] in Hsz.
  destruct (expire_child_strong d time (KeyModel.ksize s) s cx lx x ex rx HI Hs) as
    (s'' & oy'' & evs'' & cx' & lx' & rx' & rem & Hec & _ & Hp1 & Hpc & _ & _ & Hs' & Hoy).
  { unfold KeyModel.ksize. destruct d; cbn [child_of]; lia. }
  rewrite Hex in Hec. inversion Hec; subst s'' oy'' evs''. clear Hec.
  destruct (arena_expire_child_refines d time dfuel (KeyModel.ksize s) s a x s1' oy evs1 efuel HI HR Hd He Hex)
    as (a1 & Ha1 & HR1 & HI1 & Hsz1).
  pose proof HI1 as ((ND1 & Hrb1 & Hbst1) & Hp1').
  pose proof (expire_child_blen _ _ _ _ _ _ _ _ Hex) as Hbl.
  assert (J1: inpath ne (kroot s1') (T cx' lx' x ex rx')).
  { eapply (inpath_purge ne (kroot s) (kroot s1') d); eauto. }
  destruct (node_of_subtree a (kroot s) cx lx x ex rx HR Hs) as (_ & Ee & _).
  cbn [arena_ins_descend fst snd]. rewrite Ee. fold (dir_of ne ex). fold d. rewrite Ha1. cbn [bind fst snd].
  destruct oy as [y|]; cbn [olink].
  - destruct Hoy as (c & l & e0 & r & Hch & _).
    destruct (ins_descend fu s1' y time ne) as [[s3 evs3]|err] eqn:Hd3; [|discriminate].
    cbn [bind fst snd] in Hrun. inversion Hrun; subst s1 evs. clear Hrun.
    assert (Hs1: ksubtree (T c l y e0 r) (kroot s1')).
    { eapply subtree_trans; [|exact Hs']. rewrite <- Hch. destruct d; cbn [child_of]; [apply st_left|apply st_right]; apply st_here. }
    destruct (node_of_subtree a1 (kroot s1') c l y e0 r HR1 Hs1) as (Ny & _).
    apply N.eqb_neq in Ny. rewrite Ny.
    assert (J2: inpath ne (kroot s1') (T c l y e0 r)).
    { rewrite <- Hch. eapply inpath_child; eauto. }
    destruct (IH s1' a1 c l y e0 r s3 evs3 s2 sf HI1 HR1 Hs1 J2) as (a2 & Ha2 & HR2); auto; try lia.
    exists a2. split; [exact Ha2|exact HR2].
  - inversion Hrun; subst s1' evs. clear Hrun. rewrite N.eqb_refl.
    unfold k_link in Hlink. unfold arena_link. cbn [fst snd].
    destruct (pool_get_wf _ _ Hp1') as (i & p' & Hg & Hfresh & _ & _).
    rewrite Hg in Hlink |- *. inversion Hlink; subst s2. cbn [kroot kpl]. clear Hlink.
    pose proof (pool_get_le _ _ _ _ Hp1' Hg) as Hle.
    destruct (subtree_plug _ _ Hs') as (k & Ek).
    rewrite Ek in HR1, ND1, Hfresh, Hbst1, J1, Hsz1 |- *.
    assert (HP: Forall (on_path kk ne) k) by (apply (inpath_on_path ne k (T cx' lx' x ex rx')); [discriminate|exact Hbst1|exact J1]).
    destruct (link_refines a1 ne i k d cx' lx' x ex rx' ifuel HR1 ND1 Hfresh ltac:(lia) HP eq_refl Hoy) as (a2 & Ha2 & HR2).
    { lia. }
    exists a2. split; [|exact HR2]. destruct d; rewrite Ha2; reflexivity.
Qed.

(** ** insert_entity *)
Theorem arena_k_insert_refines ne time s (a: karena) s' evs dfuel efuel sfuel ifuel :
  KInv s -> RepK a (kroot s) ->
  (ksize (kroot s) <= dfuel)%nat -> (ksize (kroot s) < efuel)%nat -> (ksize (kroot s) < sfuel)%nat ->
  (2 * ksize (kroot s) + 2 <= ifuel)%nat -> blen (kpl s) < EMPTY ->
  k_insert s ne time = Ret (s', evs) ->
  exists a', arena_k_insert dfuel efuel sfuel ifuel (a, kpl s) ne time = Ret (a', kpl s') /\ RepK a' (kroot s').
Proof.
  intros HI HR Hd He Hf Hi Hb Hrun. unfold k_insert in Hrun. unfold arena_k_insert.
  destruct (expire_root (KeyModel.ksize s) s time) as [[s1 evs1]|err] eqn:Hex; [|discriminate].
  cbn [bind fst snd] in Hrun.
  destruct (arena_expire_root_refines time dfuel (KeyModel.ksize s) s a s1 evs1 efuel HI HR Hd He Hex)
    as (a1 & Ha1 & HR1 & HI1 & Hsz1).
  pose proof (expire_root_blen _ _ _ _ _ Hex) as Hbl.
  rewrite Ha1. cbn [bind fst snd].
  destruct (kroot s1) as [|c l x e r] eqn:Hr1.
  - cbn [rlink]. rewrite N.eqb_refl.
    destruct (k_link s1 ne) as [s2|err] eqn:Hl; [|discriminate]. cbn [bind fst snd] in Hrun.
    inversion Hrun; subst s' evs. clear Hrun.
    pose proof HI1 as (_ & Hp1).
    unfold k_link in Hl. destruct (pool_get (kpl s1)) as [[i p']|] eqn:Hg; [|discriminate].
    pose proof (pool_get_le _ _ _ _ Hp1 Hg) as Hle.
    inversion Hl; subst s2. cbn [kroot kpl]. rewrite Hr1. cbn [RBTree.insert_tree].
    eexists. split; [reflexivity|]. unfold insert_root. cbn [aroot set_root].
    constructor; cbn [nodes set_root]; rewrite ?nodes_setn_same; cbn [par lft rgt red aent]; auto; try constructor.
    lia.
  - cbn [rlink].
    assert (HR1': RepK a1 (kroot s1)) by (rewrite Hr1; exact HR1).
    assert (Hsz1': (ksize (kroot s1) <= ksize (kroot s))%nat) by (rewrite Hr1; exact Hsz1).
    assert (Hs1: ksubtree (T c l x e r) (kroot s1)) by (rewrite Hr1; apply st_here).
    destruct (node_of_subtree a1 (kroot s1) c l x e r HR1' Hs1) as (Nx & _).
    apply N.eqb_neq in Nx. rewrite Nx.
    destruct (ins_descend (S (KeyModel.ksize s1)) s1 x time ne) as [[s2 evs2]|err] eqn:Hd2; [|discriminate].
    cbn [bind fst snd] in Hrun.
    destruct (k_link s2 ne) as [s3|err] eqn:Hl; [|discriminate]. cbn [bind fst snd] in Hrun.
    inversion Hrun; subst s' evs. clear Hrun.
    assert (J: inpath ne (kroot s1) (T c l x e r)) by (rewrite Hr1; apply inpath_root).
    destruct (arena_ins_descend_refines ne time dfuel efuel ifuel (S (KeyModel.ksize s1)) s1 a1 c l x e r s2 evs2 s3 sfuel
                HI1 HR1' Hs1 J) as (a3 & Ha3 & HR3); auto; try lia.
    { unfold KeyModel.ksize. lia. }
    exists a3. split; [exact Ha3|exact HR3].
Qed.

(** ** within the contract the arena-level operations never fail (no [ErrStuck], [ErrFuel], [ErrPool],
    [ErrHandle]): the tree-level specifications (Proofs/KeyProofs.v) give the run of the model, the
    refinement theorems transport it to the arena *)
Corollary arena_query_total q f time s (a: karena) dfuel efuel sfuel :
  KeyProofs.monotone f -> KInv s -> one_eq_live f time (kroot s) -> RepK a (kroot s) ->
  (ksize (kroot s) <= dfuel)%nat -> (ksize (kroot s) < efuel)%nat -> (S (ksize (kroot s)) < sfuel)%nat ->
  exists s' out evs a', k_query q f s time = Ret (s', out, evs) /\
    arena_query dfuel efuel sfuel q f (a, kpl s) time = Ret ((a', kpl s'), out) /\
    RepK a' (kroot s') /\ KInv s'.
Proof.
  intros Hm HI Hone HR Hd He Hf.
  destruct (k_query_spec q f time s Hm HI Hone) as (s' & outg & evs & Hk & _).
  destruct (arena_query_refines q f time s a s' _ evs dfuel efuel sfuel HI HR Hd He Hf Hk) as (a' & Ha & HR' & HI' & _).
  exists s', (option_map kval outg), evs, a'. auto.
Qed.

Corollary arena_k_insert_total ne time s (a: karena) dfuel efuel sfuel ifuel :
  KInv s -> (forall e, In e (kents (kroot s)) -> live time e = true -> kk e <> kk ne) ->
  RepK a (kroot s) ->
  (ksize (kroot s) <= dfuel)%nat -> (ksize (kroot s) < efuel)%nat -> (ksize (kroot s) < sfuel)%nat ->
  (2 * ksize (kroot s) + 2 <= ifuel)%nat -> blen (kpl s) < EMPTY ->
  exists s' evs a', k_insert s ne time = Ret (s', evs) /\
    arena_k_insert dfuel efuel sfuel ifuel (a, kpl s) ne time = Ret (a', kpl s') /\
    RepK a' (kroot s') /\ KInv s'.
Proof.
  intros HI Hfresh HR Hd He Hf Hi Hb.
  destruct (k_insert_spec s ne time HI Hfresh) as (s' & evs & mid & Hk & HI' & _).
  destruct (arena_k_insert_refines ne time s a s' evs dfuel efuel sfuel ifuel HI HR Hd He Hf Hi Hb Hk) as (a' & Ha & HR').
  exists s', evs, a'. auto.
Qed.

(** ** the four searches by name *)
Section Named.
Variables (s: kstate) (a: karena) (s': kstate) (out: option Z) (evs: list event) (dfuel efuel sfuel: nat) (time: Z).
Hypothesis HI : KInv s.
Hypothesis HR : RepK a (kroot s).
Hypothesis Hd : (ksize (kroot s) <= dfuel)%nat.
Hypothesis He : (ksize (kroot s) < efuel)%nat.
Hypothesis Hf : (S (ksize (kroot s)) < sfuel)%nat.

Corollary arena_search_value_refines key : k_get_value s time key = Ret (s', out, evs) ->
  exists a', arena_search_value dfuel efuel sfuel (a, kpl s) time key = Ret ((a', kpl s'), out) /\ RepK a' (kroot s').
Proof.
  intros H. destruct (arena_query_refines QGet (cmp_to key) time s a s' out evs dfuel efuel sfuel HI HR Hd He Hf H)
    as (a' & Ha & HR' & _). exists a'. split; [exact Ha|exact HR'].
Qed.

Corollary arena_search_first_less_refines key : k_first_less s time key = Ret (s', out, evs) ->
  exists a', arena_search_first_less dfuel efuel sfuel (a, kpl s) time key = Ret ((a', kpl s'), out) /\ RepK a' (kroot s').
Proof.
  intros H. destruct (arena_query_refines QLess (cmp_to key) time s a s' out evs dfuel efuel sfuel HI HR Hd He Hf H)
    as (a' & Ha & HR' & _). exists a'. split; [exact Ha|exact HR'].
Qed.

Corollary arena_search_first_less_or_equal_refines key : k_first_less_or_equal s time key = Ret (s', out, evs) ->
  exists a', arena_search_first_less_or_equal dfuel efuel sfuel (a, kpl s) time key = Ret ((a', kpl s'), out) /\
    RepK a' (kroot s').
Proof.
  intros H. destruct (arena_query_refines QLessEq (cmp_to key) time s a s' out evs dfuel efuel sfuel HI HR Hd He Hf H)
    as (a' & Ha & HR' & _). exists a'. split; [exact Ha|exact HR'].
Qed.

Corollary arena_search_first_less_or_equal_by_refines f : k_first_less_or_equal_by s time f = Ret (s', out, evs) ->
  exists a', arena_search_first_less_or_equal_by dfuel efuel sfuel (a, kpl s) time f = Ret ((a', kpl s'), out) /\
    RepK a' (kroot s').
Proof.
  intros H. destruct (arena_query_refines QLessEq f time s a s' out evs dfuel efuel sfuel HI HR Hd He Hf H)
    as (a' & Ha & HR' & _). exists a'. split; [exact Ha|exact HR'].
Qed.
End Named.
