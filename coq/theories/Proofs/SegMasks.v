(** * Finite facts about the place / visit masks of the 63-node heap (src/seg/heap.rs).

    Every fact is a check over the finite domain of the 528 bucket ranges [a <= b < 32] (and the
    528 x 528 pairs of them), done by [vm_compute] and lifted with [forallb_forall].
    NOTE: never let the kernel unfold [bits w] for a variable [w]: its normal form is a tree of
    2^64 branches. *)
From Coq Require Import List NArith ZArith Bool Lia.
Import ListNotations.
Require Import ITree.Model.Common ITree.Model.Heap ITree.Model.SegModel.
Local Open Scope N_scope.

Definition memN (q: N) (l: list N) : bool := existsb (N.eqb q) l.
Definition hasbit (m q: N) : bool := memN q (bits m).

Lemma memN_In : forall l q, memN q l = true <-> In q l.
Proof.
  intros l q. unfold memN. rewrite existsb_exists. split.
  - intros [x [Hin He]]. apply N.eqb_eq in He. subst. exact Hin.
  - intros Hin. exists q. split; [exact Hin | apply N.eqb_refl].
Qed.

Lemma hasbit_In : forall m q, hasbit m q = true <-> In q (bits m).
Proof. intros m q. unfold hasbit. apply memN_In. Qed.

Lemma hasbit_false : forall m q, hasbit m q = false <-> ~ In q (bits m).
Proof.
  intros m q. rewrite <- hasbit_In. destruct (hasbit m q); split; intro H; try congruence.
Qed.

(* strictly ascending *)
Fixpoint asc (l: list N) : bool :=
  match l with
  | [] => true
  | x :: t => match t with [] => true | y :: _ => (x <? y) && asc t end
  end.

Lemma asc_lt : forall l x y, asc (x :: l) = true -> In y l -> x < y.
Proof.
  induction l as [|z l IH]; intros x y Ha Hin.
  - destruct Hin.
  - cbn [asc] in Ha. apply andb_true_iff in Ha. destruct Ha as [H1 H2].
    apply N.ltb_lt in H1. destruct Hin as [Hz | Hin].
    + subst. exact H1.
    + assert (z < y) by (apply IH; assumption). lia.
Qed.

Lemma asc_NoDup : forall l, asc l = true -> NoDup l.
Proof.
  induction l as [|x l IH]; intros Ha.
  - constructor.
  - constructor.
    + intro Hin. pose proof (asc_lt l x x Ha Hin). lia.
    + apply IH. cbn [asc] in Ha. destruct l as [|y l']; [reflexivity|].
      apply andb_true_iff in Ha. apply Ha.
Qed.

(** ** the finite domain *)

Definition ranges : list (N * N) :=
  flat_map (fun a => map (fun b => (N.of_nat a, N.of_nat b)) (seq a (32 - a))) (seq 0 32).

Lemma ranges_complete : forall a b, a <= b -> b < 32 -> In (a, b) ranges.
Proof.
  intros a b Hab Hb. unfold ranges. apply in_flat_map.
  exists (N.to_nat a). split.
  - apply in_seq. lia.
  - apply in_map_iff. exists (N.to_nat b). split.
    + rewrite !N2Nat.id. reflexivity.
    + apply in_seq. lia.
Qed.

(* (range, mask, bits of the mask) *)
Definition prow (ab: N * N) : N * N * N * list N :=
  (ab, place_mask (fst ab) (snd ab), bits (place_mask (fst ab) (snd ab))).
Definition vrow (ab: N * N) : N * N * N * list N :=
  (ab, visit_mask (fst ab) (snd ab), bits (visit_mask (fst ab) (snd ab))).
Definition PT : list (N * N * N * list N) := map prow ranges.
Definition VT : list (N * N * N * list N) := map vrow ranges.

Lemma PT_complete : forall a b, a <= b -> b < 32 -> In (prow (a, b)) PT.
Proof. intros a b H1 H2. unfold PT. apply in_map. apply ranges_complete; assumption. Qed.
Lemma VT_complete : forall a b, a <= b -> b < 32 -> In (vrow (a, b)) VT.
Proof. intros a b H1 H2. unfold VT. apply in_map. apply ranges_complete; assumption. Qed.

Definition pair_chk (x y : N * N * N * list N) : bool :=
  let '((a, b), pm, bp) := x in let '((c, d), vm, bv) := y in
  let ov := (a <=? d) && (c <=? b) in
  let lb := lowbit (N.land pm vm) in
  Bool.eqb (negb (N.land pm vm =? 0)) ov && Bool.eqb (memN lb bv) ov && implb ov (memN lb bp).

Lemma pair_table : forallb (fun x => forallb (pair_chk x) VT) PT = true.
Proof. vm_cast_no_check (@eq_refl bool true). Qed.

Definition place_chk (x : N * N * N * list N) : bool :=
  let '((a, b), pm, bp) := x in
  forallb (fun q => q <? b + 32) bp && (length bp <=? 8)%nat && negb (pm =? 0) && asc bp.

Lemma place_table : forallb place_chk PT = true.
Proof. vm_cast_no_check (@eq_refl bool true). Qed.

Definition visit_chk (x : N * N * N * list N) : bool :=
  let '((c, d), vm, bv) := x in forallb (fun q => q <? d + 32) bv && asc bv.

Lemma visit_table : forallb visit_chk VT = true.
Proof. vm_cast_no_check (@eq_refl bool true). Qed.

(* every place of a range within [0, e] is visited by the query over [0, e] *)
Definition whole_chk (e: nat) : bool :=
  let bv := bits (visit_mask 0 (N.of_nat e)) in
  forallb (fun x => let '((a, b), pm, bp) := x in
                    implb (b <=? N.of_nat e) (forallb (fun q => memN q bv) bp)) PT.

Lemma whole_table : forallb whole_chk (seq 0 32) = true.
Proof. vm_cast_no_check (@eq_refl bool true). Qed.

(** ** the lifted facts *)

Lemma pair_chk_spec : forall a b pm bp c d vm bv,
  pair_chk ((a, b), pm, bp) ((c, d), vm, bv) = true ->
  negb (N.land pm vm =? 0) = ((a <=? d) && (c <=? b)) /\
  memN (lowbit (N.land pm vm)) bv = ((a <=? d) && (c <=? b)) /\
  (((a <=? d) && (c <=? b)) = true -> memN (lowbit (N.land pm vm)) bp = true).
Proof.
  intros a b pm bp c d vm bv H. unfold pair_chk in H.
  apply andb_true_iff in H. destruct H as [H H3]. apply andb_true_iff in H. destruct H as [H1 H2].
  apply eqb_prop in H1. apply eqb_prop in H2. split; [exact H1|]. split; [exact H2|].
  intros Hov. rewrite Hov in H3. exact H3.
Qed.

Lemma place_chk_spec : forall a b pm bp,
  place_chk ((a, b), pm, bp) = true ->
  (forall q, In q bp -> q < b + 32) /\ (length bp <= 8)%nat /\ pm <> 0 /\ NoDup bp.
Proof.
  intros a b pm bp H. unfold place_chk in H.
  apply andb_true_iff in H. destruct H as [H H4]. apply andb_true_iff in H. destruct H as [H H3].
  apply andb_true_iff in H. destruct H as [H1 H2].
  split; [|split; [|split]].
  - intros q Hin. rewrite forallb_forall in H1. apply H1 in Hin. apply N.ltb_lt. exact Hin.
  - apply Nat.leb_le. exact H2.
  - apply negb_true_iff in H3. apply N.eqb_neq. exact H3.
  - apply asc_NoDup. exact H4.
Qed.

Lemma visit_chk_spec : forall c d vm bv,
  visit_chk ((c, d), vm, bv) = true -> (forall q, In q bv -> q < d + 32) /\ NoDup bv.
Proof.
  intros c d vm bv H. unfold visit_chk in H.
  apply andb_true_iff in H. destruct H as [H1 H2]. split.
  - intros q Hin. rewrite forallb_forall in H1. apply H1 in Hin. apply N.ltb_lt. exact Hin.
  - apply asc_NoDup. exact H2.
Qed.

Lemma pair_fact : forall a b c d, a <= b -> b < 32 -> c <= d -> d < 32 ->
  pair_chk (prow (a, b)) (vrow (c, d)) = true.
Proof.
  intros a b c d Hab Hb Hcd Hd.
  pose proof pair_table as T. rewrite forallb_forall in T.
  specialize (T _ (PT_complete a b Hab Hb)). rewrite forallb_forall in T.
  exact (T _ (VT_complete c d Hcd Hd)).
Qed.

Lemma pair_facts : forall a b c d, a <= b -> b < 32 -> c <= d -> d < 32 ->
  negb (N.land (place_mask a b) (visit_mask c d) =? 0) = ((a <=? d) && (c <=? b)) /\
  memN (lowbit (N.land (place_mask a b) (visit_mask c d))) (bits (visit_mask c d))
    = ((a <=? d) && (c <=? b)) /\
  (((a <=? d) && (c <=? b)) = true ->
   memN (lowbit (N.land (place_mask a b) (visit_mask c d))) (bits (place_mask a b)) = true).
Proof.
  intros a b c d Hab Hb Hcd Hd.
  exact (pair_chk_spec a b (place_mask a b) (bits (place_mask a b))
                       c d (visit_mask c d) (bits (visit_mask c d)) (pair_fact a b c d Hab Hb Hcd Hd)).
Qed.

(* F1: the masks meet iff the bucket ranges overlap *)
Lemma mask_meet : forall a b c d, a <= b -> b < 32 -> c <= d -> d < 32 ->
  negb (N.land (place_mask a b) (visit_mask c d) =? 0) = ((a <=? d) && (c <=? b)).
Proof. intros a b c d Hab Hb Hcd Hd. apply (pair_facts a b c d Hab Hb Hcd Hd). Qed.

(* F2: the lowest common bit is a visited place exactly when the ranges overlap ... *)
Lemma mask_low_visit : forall a b c d, a <= b -> b < 32 -> c <= d -> d < 32 ->
  hasbit (visit_mask c d) (lowbit (N.land (place_mask a b) (visit_mask c d)))
  = ((a <=? d) && (c <=? b)).
Proof. intros a b c d Hab Hb Hcd Hd. unfold hasbit. apply (pair_facts a b c d Hab Hb Hcd Hd). Qed.

(* ... and then it is a place of the stored range *)
Lemma mask_low_place : forall a b c d, a <= b -> b < 32 -> c <= d -> d < 32 ->
  ((a <=? d) && (c <=? b)) = true ->
  hasbit (place_mask a b) (lowbit (N.land (place_mask a b) (visit_mask c d))) = true.
Proof. intros a b c d Hab Hb Hcd Hd. unfold hasbit. apply (pair_facts a b c d Hab Hb Hcd Hd). Qed.

Lemma place_facts : forall a b, a <= b -> b < 32 ->
  (forall q, In q (bits (place_mask a b)) -> q < b + 32) /\
  (length (bits (place_mask a b)) <= 8)%nat /\ place_mask a b <> 0 /\ NoDup (bits (place_mask a b)).
Proof.
  intros a b Hab Hb. pose proof place_table as T. rewrite forallb_forall in T.
  exact (place_chk_spec a b (place_mask a b) (bits (place_mask a b)) (T _ (PT_complete a b Hab Hb))).
Qed.

(* F3 *)
Lemma place_bits_lt : forall a b q, a <= b -> b < 32 -> In q (bits (place_mask a b)) -> q < b + 32.
Proof. intros a b q Hab Hb. apply (place_facts a b Hab Hb). Qed.
Lemma place_popcount : forall a b, a <= b -> b < 32 -> (length (bits (place_mask a b)) <= 8)%nat.
Proof. intros a b Hab Hb. apply (place_facts a b Hab Hb). Qed.
Lemma place_nonzero : forall a b, a <= b -> b < 32 -> place_mask a b <> 0.
Proof. intros a b Hab Hb. apply (place_facts a b Hab Hb). Qed.
Lemma place_bits_NoDup : forall a b, a <= b -> b < 32 -> NoDup (bits (place_mask a b)).
Proof. intros a b Hab Hb. apply (place_facts a b Hab Hb). Qed.

Lemma visit_facts : forall c d, c <= d -> d < 32 ->
  (forall q, In q (bits (visit_mask c d)) -> q < d + 32) /\ NoDup (bits (visit_mask c d)).
Proof.
  intros c d Hcd Hd. pose proof visit_table as T. rewrite forallb_forall in T.
  exact (visit_chk_spec c d (visit_mask c d) (bits (visit_mask c d)) (T _ (VT_complete c d Hcd Hd))).
Qed.

Lemma visit_bits_lt : forall c d q, c <= d -> d < 32 -> In q (bits (visit_mask c d)) -> q < d + 32.
Proof. intros c d q Hcd Hd. apply (visit_facts c d Hcd Hd). Qed.
Lemma visit_bits_NoDup : forall c d, c <= d -> d < 32 -> NoDup (bits (visit_mask c d)).
Proof. intros c d Hcd Hd. apply (visit_facts c d Hcd Hd). Qed.

Lemma whole_chk_spec : forall e a b pm bp,
  whole_chk e = true -> In ((a, b), pm, bp) PT -> b <= N.of_nat e ->
  forall q, In q bp -> In q (bits (visit_mask 0 (N.of_nat e))).
Proof.
  intros e a b pm bp H Hin Hbe q Hq. unfold whole_chk in H.
  rewrite forallb_forall in H. specialize (H _ Hin). cbv beta iota in H.
  assert (Hle: (b <=? N.of_nat e) = true) by (apply N.leb_le; exact Hbe).
  rewrite Hle in H. cbn [implb] in H. rewrite forallb_forall in H.
  apply memN_In. apply H. exact Hq.
Qed.

Lemma place_in_whole : forall a b e q, a <= b -> b <= e -> e < 32 ->
  In q (bits (place_mask a b)) -> In q (bits (visit_mask 0 e)).
Proof.
  intros a b e q Hab Hbe He Hin. pose proof whole_table as T. rewrite forallb_forall in T.
  assert (Hs: In (N.to_nat e) (seq 0 32)) by (apply in_seq; lia).
  specialize (T _ Hs).
  assert (Hb: b < 32) by lia.
  pose proof (whole_chk_spec (N.to_nat e) a b (place_mask a b) (bits (place_mask a b)) T
                (PT_complete a b Hab Hb)) as W.
  rewrite N2Nat.id in W. apply W; assumption.
Qed.

(* From here on the masks are used only through the facts above.  The kernel must never expand
   them on symbolic arguments (the normal forms are astronomically large): make conversion unfold
   them last.  [vm_compute] on closed terms is not affected. *)
Global Opaque bits place_mask visit_mask.
