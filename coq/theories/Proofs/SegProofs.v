(** * The segment tree at the level of histories: C03 (queries yield each live overlapping
      value exactly once, no error) and C16 (a full whole-domain query purges expired copies). *)
From Coq Require Import List NArith ZArith Bool Lia Permutation.
Import ListNotations.
Require Import ITree.Model.Common ITree.Model.Heap ITree.Model.SegModel ITree.Spec.Spec.
Require Import ITree.Proofs.SegMasks ITree.Proofs.SegScan ITree.Proofs.SegInv.

(** ** histories *)

(* [tm]: the time of the last query since the last clear (None: no query yet).
   Valid: every range is inside the domain and ordered; query times do not decrease between
   two clears. *)
Fixpoint seg_valid_from (L: layout) (tm: option Z) (h: list sop) : Prop :=
  match h with
  | [] => True
  | SIns a b v :: h' => in_dom L a b /\ seg_valid_from L tm h'
  | SQuery a b t n :: h' => in_dom L a b /\ tle tm t /\ seg_valid_from L (Some t) h'
  | SClear :: h' => seg_valid_from L None h'
  end.
Definition seg_valid (L: layout) (h: list sop) : Prop := seg_valid_from L None h.

(* the entries inserted since the last clear, in insertion order *)
Fixpoint inserted_from (ins: list sentry) (h: list sop) : list sentry :=
  match h with
  | [] => ins
  | SIns a b v :: h' => inserted_from (ins ++ [(a, b, v)]) h'
  | SQuery _ _ _ _ :: h' => inserted_from ins h'
  | SClear :: h' => inserted_from [] h'
  end.
Definition inserted (h: list sop) : list sentry := inserted_from [] h.

Fixpoint time_from (tm: option Z) (h: list sop) : option Z :=
  match h with
  | [] => tm
  | SIns _ _ _ :: h' => time_from tm h'
  | SQuery _ _ t _ :: h' => time_from (Some t) h'
  | SClear :: h' => time_from None h'
  end.

(* what a query must answer: a prefix (all of it when [n = None]) of some arrangement of the
   reference answer *)
Definition query_out_ok (L: layout) (ins: list sentry) (a b t: Z) (n: option nat) (o: list sval) : Prop :=
  exists Lst, Permutation Lst (ref_query L ins a b t) /\
              o = match n with Some k => firstn k Lst | None => Lst end.

Fixpoint outs_ok (L: layout) (ins: list sentry) (h: list sop) (outs: list (list sval)) : Prop :=
  match h, outs with
  | [], [] => True
  | SIns a b v :: h', o :: outs' => o = [] /\ outs_ok L (ins ++ [(a, b, v)]) h' outs'
  | SQuery a b t n :: h', o :: outs' => query_out_ok L ins a b t n o /\ outs_ok L ins h' outs'
  | SClear :: h', o :: outs' => o = [] /\ outs_ok L [] h' outs'
  | _, _ => False
  end.

Lemma seg_valid_app : forall L h1 h2 tm,
  seg_valid_from L tm (h1 ++ h2) ->
  seg_valid_from L tm h1 /\ seg_valid_from L (time_from tm h1) h2.
Proof.
  induction h1 as [|o h1 IH]; intros h2 tm H; cbn [app seg_valid_from time_from] in *.
  - split; [exact I | exact H].
  - destruct o as [a b v | a b t n |].
    + destruct H as [H1 H2]. destruct (IH _ _ H2) as [H3 H4].
      split; [split; assumption | assumption].
    + destruct H as [H1 [H2 H3]]. destruct (IH _ _ H3) as [H4 H5].
      split; [split; [|split]; assumption | assumption].
    + apply IH. exact H.
Qed.

Lemma inserted_from_app : forall h1 h2 ins,
  inserted_from ins (h1 ++ h2) = inserted_from (inserted_from ins h1) h2.
Proof.
  induction h1 as [|o h1 IH]; intros h2 ins; cbn [app inserted_from]; [reflexivity|].
  destruct o; apply IH.
Qed.

Lemma outs_ok_nth : forall L h1 a b t n h2 ins outs,
  outs_ok L ins (h1 ++ SQuery a b t n :: h2) outs ->
  query_out_ok L (inserted_from ins h1) a b t n (nth (length h1) outs []).
Proof.
  induction h1 as [|o h1 IH]; intros a b t n h2 ins outs H; cbn [app] in H.
  - cbn [outs_ok] in H. destruct outs as [|o1 outs]; [contradiction|].
    cbn [length nth inserted_from]. apply H.
  - destruct o as [a0 b0 v0 | a0 b0 t0 n0 |]; cbn [outs_ok] in H;
      (destruct outs as [|o1 outs]; [contradiction|]); destruct H as [_ H];
      cbn [length nth inserted_from]; eapply IH; exact H.
Qed.

Lemma seg_run_app : forall h1 h2 s,
  seg_run s (h1 ++ h2) =
  bind (seg_run s h1) (fun r1 =>
  bind (seg_run (fst r1) h2) (fun r2 => Ret (fst r2, snd r1 ++ snd r2))).
Proof.
  induction h1 as [|o h1 IH]; intros h2 s; cbn [app seg_run].
  - cbn [bind fst snd app]. destruct (seg_run s h2) as [[s2 o2]|e]; reflexivity.
  - destruct (seg_step s o) as [[s1 o1]|e]; cbn [bind fst snd]; [|reflexivity].
    rewrite IH. destruct (seg_run s1 h1) as [[s2 o2]|e]; cbn [bind fst snd]; [|reflexivity].
    destruct (seg_run s2 h2) as [[s3 o3]|e]; reflexivity.
Qed.

Section Hist.
  Variable L : layout.
  Hypothesis Hgood : good_layout L.

  Lemma seg_step_spec : forall o s ins tm s' out,
    lay s = L -> Inv L ins tm (chunks s) -> seg_valid_from L tm [o] ->
    seg_step s o = Ret (s', out) ->
    lay s' = L /\ Inv L (inserted_from ins [o]) (time_from tm [o]) (chunks s') /\
    outs_ok L ins [o] [out].
  Proof.
    intros o s ins tm s' out HL HI Hv H.
    destruct o as [a b v | a b t n |]; cbn [seg_step] in H;
      cbn [seg_valid_from] in Hv; cbn [inserted_from time_from outs_ok].
    - destruct Hv as [Hd _].
      destruct (seg_insert_spec L Hgood s ins tm a b v HL HI Hd) as [sx [E1 [E2 E3]]].
      rewrite E1 in H. cbn [bind] in H. inversion H; subst s' out.
      split; [exact E2|]. split; [exact E3|]. split; [reflexivity | exact I].
    - destruct Hv as [Hd [Ht _]].
      destruct (seg_query_spec L Hgood s ins tm a b t n s' out HL HI Hd Ht H) as [E1 [E2 [E3 _]]].
      split; [exact E1|]. split; [exact E2|]. split; [exact E3 | exact I].
    - inversion H; subst s' out.
      destruct (seg_clear_spec L s ins tm HL HI) as [E1 E2].
      split; [exact E1|]. split; [exact E2|]. split; [reflexivity | exact I].
  Qed.

  Lemma seg_step_total : forall o s ins tm,
    lay s = L -> Inv L ins tm (chunks s) -> seg_valid_from L tm [o] ->
    exists r, seg_step s o = Ret r.
  Proof.
    intros o s ins tm HL HI Hv.
    destruct o as [a b v | a b t n |]; cbn [seg_step]; cbn [seg_valid_from] in Hv.
    - destruct Hv as [Hd _].
      destruct (seg_insert_spec L Hgood s ins tm a b v HL HI Hd) as [sx [E1 _]].
      rewrite E1. cbn [bind]. eexists; reflexivity.
    - destruct Hv as [Hd _]. eapply seg_query_total; eassumption.
    - eexists; reflexivity.
  Qed.

  Lemma valid_head : forall o h tm,
    seg_valid_from L tm (o :: h) ->
    seg_valid_from L tm [o] /\ seg_valid_from L (time_from tm [o]) h.
  Proof. intros o h tm H. apply (seg_valid_app L [o] h tm H). Qed.

  Lemma seg_run_spec : forall h s ins tm s' outs,
    lay s = L -> Inv L ins tm (chunks s) -> seg_valid_from L tm h ->
    seg_run s h = Ret (s', outs) ->
    lay s' = L /\ Inv L (inserted_from ins h) (time_from tm h) (chunks s') /\ outs_ok L ins h outs.
  Proof.
    induction h as [|o h IH]; intros s ins tm s' outs HL HI Hv H; cbn [seg_run] in H.
    - inversion H; subst s' outs. cbn [inserted_from time_from outs_ok].
      split; [exact HL|]. split; [exact HI | exact I].
    - destruct (seg_step s o) as [[s1 o1]|e] eqn:Es; [|discriminate]. cbn [bind fst snd] in H.
      destruct (seg_run s1 h) as [[s2 outs2]|e] eqn:Er; [|discriminate]. cbn [bind fst snd] in H.
      inversion H; subst s' outs. clear H.
      destruct (valid_head o h tm Hv) as [Hv1 Hv2].
      destruct (seg_step_spec o s ins tm s1 o1 HL HI Hv1 Es) as [HL1 [HI1 Ho1]].
      destruct (IH s1 _ _ s2 outs2 HL1 HI1 Hv2 Er) as [HL2 [HI2 Ho2]].
      split; [exact HL2|]. split.
      + destruct o; exact HI2.
      + destruct o as [a b v | a b t n |]; cbn [outs_ok inserted_from] in *;
          (split; [apply Ho1 | exact Ho2]).
  Qed.

  Lemma seg_run_total : forall h s ins tm,
    lay s = L -> Inv L ins tm (chunks s) -> seg_valid_from L tm h ->
    exists r, seg_run s h = Ret r.
  Proof.
    induction h as [|o h IH]; intros s ins tm HL HI Hv; cbn [seg_run].
    - eexists; reflexivity.
    - destruct (valid_head o h tm Hv) as [Hv1 Hv2].
      destruct (seg_step_total o s ins tm HL HI Hv1) as [[s1 o1] Es].
      rewrite Es. cbn [bind fst snd].
      destruct (seg_step_spec o s ins tm s1 o1 HL HI Hv1 Es) as [HL1 [HI1 _]].
      destruct (IH s1 _ _ HL1 HI1 Hv2) as [[s2 outs2] Er].
      rewrite Er. cbn [bind fst snd]. eexists; reflexivity.
  Qed.
End Hist.

Lemma seg_new_inv : forall lo hi s0, seg_new lo hi = Some s0 ->
  good_layout (lay s0) /\ lmin (lay s0) = lo /\ lmax (lay s0) = hi /\
  Inv (lay s0) [] None (chunks s0).
Proof.
  intros lo hi s0 H. unfold seg_new in H.
  destruct (layout_new lo hi) as [L|] eqn:EL; [|discriminate].
  inversion H; subst s0. cbn [lay chunks].
  destruct (layout_new_good lo hi L EL) as [G [E1 E2]].
  split; [exact G|]. split; [exact E1|]. split; [exact E2|].
  constructor.
  - apply repeat_length.
  - constructor.
  - intros q T _. rewrite chunk_at_repeat. apply Permutation_refl.
  - intros q c Hin. rewrite chunk_at_repeat in Hin. destruct Hin.
Qed.

(** ** the theorems *)

(* C03, all queries of a history at once *)
Theorem seg_query_all : forall lo hi s0 h s outs,
  seg_new lo hi = Some s0 -> seg_valid (lay s0) h -> seg_run s0 h = Ret (s, outs) ->
  outs_ok (lay s0) [] h outs.
Proof.
  intros lo hi s0 h s outs Hn Hv Hr.
  destruct (seg_new_inv lo hi s0 Hn) as [G [_ [_ HI]]].
  apply (seg_run_spec (lay s0) G h s0 [] None s outs eq_refl HI Hv Hr).
Qed.

(* C03, one query *)
Theorem seg_query_correct : forall lo hi s0 h1 a b t n h2 s outs,
  seg_new lo hi = Some s0 ->
  seg_valid (lay s0) (h1 ++ SQuery a b t n :: h2) ->
  seg_run s0 (h1 ++ SQuery a b t n :: h2) = Ret (s, outs) ->
  exists Lst, Permutation Lst (ref_query (lay s0) (inserted h1) a b t) /\
              nth (length h1) outs [] = match n with Some k => firstn k Lst | None => Lst end.
Proof.
  intros lo hi s0 h1 a b t n h2 s outs Hn Hv Hr.
  pose proof (seg_query_all lo hi s0 _ s outs Hn Hv Hr) as Ho.
  apply outs_ok_nth in Ho. exact Ho.
Qed.

(* C03: no error *)
Theorem seg_run_no_error : forall lo hi s0 h,
  seg_new lo hi = Some s0 -> seg_valid (lay s0) h ->
  exists s outs, seg_run s0 h = Ret (s, outs).
Proof.
  intros lo hi s0 h Hn Hv.
  destruct (seg_new_inv lo hi s0 Hn) as [G [_ [_ HI]]].
  destruct (seg_run_total (lay s0) G h s0 [] None eq_refl HI Hv) as [[s outs] Hr].
  exists s, outs. exact Hr.
Qed.

(* C16 *)
Theorem seg_purge : forall lo hi s0 h1 t s outs,
  seg_new lo hi = Some s0 ->
  seg_valid (lay s0) (h1 ++ [SQuery lo hi t None]) ->
  seg_run s0 (h1 ++ [SQuery lo hi t None]) = Ret (s, outs) ->
  (forall ch c, In ch (chunks s) -> In c ch -> (t <= sexp (fst c))%Z) /\
  (total_copies (chunks s)
   <= 8 * length (filter (fun e: sentry => (t <=? sexp (snd e))%Z) (inserted h1)))%nat.
Proof.
  intros lo hi s0 h1 t s outs Hn Hv Hr.
  destruct (seg_new_inv lo hi s0 Hn) as [G [Elo [Ehi HI]]].
  rewrite seg_run_app in Hr.
  destruct (seg_run s0 h1) as [[s1 o1]|e] eqn:E1; [|discriminate]. cbn [bind fst snd] in Hr.
  cbn [seg_run seg_step] in Hr.
  destruct (seg_query s1 lo hi t None) as [[s2 o2]|e] eqn:E2; [|discriminate].
  cbn [bind fst snd] in Hr. inversion Hr; subst s outs. clear Hr.
  destruct (seg_valid_app _ _ _ _ Hv) as [Hv1 Hv2].
  destruct (seg_run_spec (lay s0) G h1 s0 [] None s1 o1 eq_refl HI Hv1 E1) as [HL1 [HI1 _]].
  cbn [seg_valid_from] in Hv2. destruct Hv2 as [Hd [Ht _]].
  destruct (seg_query_spec (lay s0) G s1 _ _ lo hi t None s2 o2 HL1 HI1 Hd Ht E2)
    as [HL2 [HI2 [_ Hall]]].
  specialize (Hall eq_refl (eq_sym Elo) (eq_sym Ehi)).
  split.
  - intros ch c Hch Hc.
    destruct (In_nth _ _ [] Hch) as [i [Hi Ei]].
    specialize (Hall (N.of_nat i)). unfold chunk_at in Hall. rewrite Nat2N.id, Ei in Hall.
    unfold all_live in Hall. rewrite Forall_forall in Hall. specialize (Hall c Hc).
    unfold live in Hall. apply Z.leb_le. exact Hall.
  - apply (purged_count (lay s0) G _ t (chunks s2) HI2 Hall).
Qed.

(** ** the hypotheses are satisfiable: a concrete history over the domain [0, 128] *)
Local Open Scope Z_scope.

Definition ex_h1 : list sop :=
  [SIns 2 100 (1, 5); SIns 20 80 (2, 9); SIns 10 20 (3, 1); SQuery 15 90 3 None;
   SIns 0 3 (4, 7); SIns 60 128 (5, 8)].
Definition ex_h2 : list sop := [SClear; SIns 5 5 (6, 4); SQuery 0 128 0 None].

Ltac solve_valid :=
  vm_compute; repeat split; try exact I; let X := fresh in intro X; discriminate X.

(* the second query (time 6, two items requested) answers [(5,8); (2,9)]: a 2-prefix of an
   arrangement of the reference answer [(2,9); (4,7); (5,8)]; value 1 (exp 5) and value 3 (exp 1)
   are expired *)
Example seg_query_instance :
  exists s0 s outs,
    seg_new 0 128 = Some s0 /\
    seg_valid (lay s0) (ex_h1 ++ SQuery 0 128 6 (Some 2%nat) :: ex_h2) /\
    seg_run s0 (ex_h1 ++ SQuery 0 128 6 (Some 2%nat) :: ex_h2) = Ret (s, outs) /\
    nth (length ex_h1) outs [] = [(5, 8); (2, 9)] /\
    ref_query (lay s0) (inserted ex_h1) 0 128 6 = [(2, 9); (4, 7); (5, 8)].
Proof.
  eexists. eexists. eexists.
  split; [vm_compute; reflexivity|].
  split; [solve_valid|].
  split; [vm_compute; reflexivity|].
  split; vm_compute; reflexivity.
Qed.

(* after the full whole-domain query at time 6 the 3 live values occupy 8 copies, no dead copy
   is left (value 1 alone had 7 copies before) *)
Example seg_purge_instance :
  exists s0 s outs,
    seg_new 0 128 = Some s0 /\
    seg_valid (lay s0) (ex_h1 ++ [SQuery 0 128 6 None]) /\
    seg_run s0 (ex_h1 ++ [SQuery 0 128 6 None]) = Ret (s, outs) /\
    total_copies (chunks s) = 8%nat /\
    length (filter (fun e: sentry => 6 <=? sexp (snd e)) (inserted ex_h1)) = 3%nat.
Proof.
  eexists. eexists. eexists.
  split; [vm_compute; reflexivity|].
  split; [solve_valid|].
  split; [vm_compute; reflexivity|].
  split; vm_compute; reflexivity.
Qed.

(* why validity asks for non-decreasing query times: the query [0,3] at time 10 removes the
   (then expired) copy of value 1 at place 3 only; the later query at time 0, for which the
   value is live again, looks for it at exactly that place and misses it, although two other
   copies are still stored *)
Example seg_decreasing_times_miss :
  exists s0 s outs,
    seg_new 0 128 = Some s0 /\
    seg_run s0 [SIns 2 100 (1, 5); SQuery 0 3 10 None; SQuery 0 128 0 None] = Ret (s, outs) /\
    nth 2 outs [(0, 0)] = [] /\ total_copies (chunks s) = 2%nat /\
    ref_query (lay s0) [(2, 100, (1, 5))] 0 128 0 = [(1, 5)].
Proof.
  eexists. eexists. eexists.
  split; [vm_compute; reflexivity|].
  split; [vm_compute; reflexivity|].
  split; [|split]; vm_compute; reflexivity.
Qed.
