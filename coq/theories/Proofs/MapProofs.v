(** * MapTree / SetTree refine the association-list semantics; the representation invariant
    (distinct slots, red-black validity, key order, slot partition) is preserved by every operation. *)
From Coq Require Import List NArith ZArith Bool Lia Permutation Sorted.
Import ListNotations.
Require Import ITree.Model.Common ITree.Model.RBTree ITree.Model.Pool ITree.Model.MapModel.
Require Import ITree.Spec.Spec ITree.Spec.MapSpec.
Require Import ITree.Proofs.RBElems ITree.Proofs.RBInv ITree.Proofs.Subtree ITree.Proofs.TreeLookup
  ITree.Proofs.SortedList ITree.Proofs.PoolProofs ITree.Proofs.AssocSpec.
Local Open Scope Z_scope.

Notation mel := (elements ment).
Notation mslots := (slots ment).
Notation ments := (ents ment).
Notation msorted := (sorted ment mkey).

Definition MInv (s: mstate) : Prop :=
  NoDup (mslots (root s)) /\ rbi ment (root s) /\ bst ment mkey (root s) /\ pool_wf (mslots (root s)) (pl s).

Definition Rel (s: mstate) (m: amap) : Prop := Permutation (ments (root s)) m.

Lemma bst_sorted (t: mtree) : bst ment mkey t <-> msorted (mel t).
Proof. reflexivity. Qed.

Lemma ents_keys_nodup (t: mtree) : bst ment mkey t -> keys_nodup (ments t).
Proof.
  intros H. apply bst_sorted in H. apply sorted_nodup_keys in H.
  unfold keys_nodup, RBTree.ents. rewrite map_map. exact H.
Qed.

Lemma Rel_nodup s m : MInv s -> Rel s m -> keys_nodup m.
Proof. intros (_ & _ & Hb & _) R. eapply keys_nodup_perm; [exact R|]. apply ents_keys_nodup. exact Hb. Qed.

Lemma in_ents_elements (t: mtree) e : In e (ments t) <-> exists x, In (x, e) (mel t).
Proof.
  unfold RBTree.ents. rewrite in_map_iff. split.
  - intros ([x e'] & <- & H). exists x. exact H.
  - intros (x & H). exists (x, e). auto.
Qed.

(** ** new *)
Lemma m_new_inv cap : MInv (m_new cap) /\ Rel (m_new cap) [].
Proof.
  unfold MInv, Rel, m_new. simpl. split; [|constructor].
  split; [constructor|]. split; [constructor|]. split; [constructor|]. apply tree_pool_new_wf.
Qed.

(** ** insert *)
Lemma m_insert_spec s k v : MInv s -> (forall e, In e (ments (root s)) -> fst e <> k) ->
  exists s' i, m_insert s k v = Ret s' /\ MInv s' /\
    mel (root s') = list_ins ment mkey (i, (k, v)) (mel (root s)) /\ ~ In i (mslots (root s)) /\
    Permutation (ments (root s')) ((k, v) :: ments (root s)).
Proof.
  intros (ND & Hrb & Hb & Hp) Habs. unfold m_insert.
  destruct (pool_get_wf _ _ Hp) as (i & p' & Hg & Hfresh & Hi0 & Hp').
  rewrite Hg. eexists _, i. split; [reflexivity|].
  assert (Hel: mel (insert_tree ment mkey (root s) i (k, v)) = list_ins ment mkey (i, (k, v)) (mel (root s))).
  { apply insert_tree_elems. exact Hb. }
  assert (Hperm: Permutation (mel (insert_tree ment mkey (root s) i (k, v))) ((i, (k, v)) :: mel (root s))).
  { rewrite Hel. apply list_ins_perm. }
  simpl. split; [|split; [exact Hel|split; [exact Hfresh|]]].
  - unfold MInv. simpl. split; [|split; [|split]].
    + unfold RBTree.slots. eapply Permutation_NoDup; [apply Permutation_sym; apply Permutation_map; exact Hperm|].
      simpl. constructor; auto.
    + apply insert_tree_rb. exact Hrb.
    + apply bst_sorted. rewrite Hel. apply list_ins_sorted; [apply bst_sorted; exact Hb|].
      intros [x e] Hq. simpl. apply Habs. apply in_ents_elements. exists x. exact Hq.
    + eapply pool_wf_perm; [|exact Hp']. unfold RBTree.slots. apply Permutation_sym.
      apply (Permutation_map fst) in Hperm. exact Hperm.
  - unfold RBTree.ents. apply (Permutation_map snd) in Hperm. exact Hperm.
Qed.

(* C17: an insertion does not move any stored entry to another slot *)
Lemma m_insert_keeps s k v s' x e : MInv s -> (forall e, In e (ments (root s)) -> fst e <> k) ->
  m_insert s k v = Ret s' -> In (x, e) (mel (root s)) -> In (x, e) (mel (root s')).
Proof.
  intros HI Habs Hins Hin. destruct (m_insert_spec s k v HI Habs) as (s2 & i & Hr & _ & Hel & _).
  rewrite Hr in Hins. inversion Hins; subst s2. rewrite Hel.
  eapply Permutation_in; [apply Permutation_sym; apply list_ins_perm|]. simpl. auto.
Qed.

(** ** delete by handle *)
Lemma m_delete_at_spec s x e : MInv s -> In (x, e) (mel (root s)) ->
  exists s' A B, m_delete_at s x = Ret s' /\ MInv s' /\
    mel (root s) = A ++ (x, e) :: B /\ ments (root s') = map snd A ++ map snd B.
Proof.
  intros (ND & Hrb & Hb & Hp) Hin. unfold m_delete_at.
  pose proof (del_spec ment (root s) x ND) as Hs. pose proof (del_rb ment (root s) x Hrb) as Hr.
  destruct (del ment (root s) x) as [| |t' d f].
  - exfalso. apply Hs. eapply in_elements_slots; eauto.
  - contradiction.
  - destruct Hs as (A & e0 & B & He & Hents & Hperm). destruct Hr as (Hrb' & _).
    assert (e0 = e).
    { apply (NoDup_fst_unique ment mkey (mel (root s)) x e0 e ND); [|exact Hin].
      rewrite He. apply in_or_app. simpl. auto. }
    subst e0. eexists _, A, B. split; [reflexivity|]. simpl. split; [|split; [exact He|exact Hents]].
    unfold MInv. simpl. split; [|split; [|split]].
    + apply Permutation_sym in Hperm. apply (Permutation_NoDup Hperm) in ND. inversion ND; auto.
    + exact Hrb'.
    + unfold bst, RBTree.keys in *. rewrite He in Hb. rewrite map_app in Hb. simpl in Hb.
      replace (map (fun p => mkey (snd p)) (mel t')) with (map mkey (ments t')).
      2:{ unfold RBTree.ents. rewrite map_map. reflexivity. }
      rewrite Hents. rewrite map_app, !map_map.
      change (StronglySorted Z.lt (map (fun p : N * ment => mkey (snd p)) A ++ map (fun p : N * ment => mkey (snd p)) B)).
      rewrite <- map_app. apply (sorted_app_remove ment mkey A (x, e) B).
      unfold sorted. rewrite map_app. simpl. exact Hb.
    + apply pool_put_wf. eapply pool_wf_perm; [apply Permutation_sym; exact Hperm|exact Hp].
Qed.

(** ** lookups *)
Lemma m_get_spec s k : MInv s ->
  match m_get s k with
  | Some e => In e (ments (root s)) /\ fst e = k
  | None => forall e, In e (ments (root s)) -> fst e <> k
  end.
Proof.
  intros (ND & Hrb & Hb & Hp). unfold m_get.
  pose proof (find_slot_spec ment mkey (root s) k Hb) as Hf.
  destruct (find_slot ment mkey (root s) k) as [x|].
  - destruct Hf as (e & Hin & Hk). rewrite (ent_at_of_in ment mkey (root s) x e ND Hin).
    split; [apply in_ents_elements; eauto|exact Hk].
  - intros e He. apply in_ents_elements in He. destruct He as (x & Hx). apply (Hf (x, e) Hx).
Qed.

Definition mono_on_tree (f: Z -> comparison) (t: mtree) : Prop := mono_list ment mkey f (mel t).

Lemma m_first_by_spec s f : MInv s -> mono_on_tree f (root s) ->
  match m_first_by s f with
  | Some x => exists e, In (x, e) (mel (root s)) /\ f (fst e) <> Gt /\
                        forall e', In e' (ments (root s)) -> f (fst e') <> Gt -> fst e' <= fst e
  | None => forall e', In e' (ments (root s)) -> f (fst e') = Gt
  end.
Proof.
  intros (ND & Hrb & Hb & Hp) Hm. unfold m_first_by.
  rewrite (first_by_lpick ment mkey (root s) f None Hb Hm).
  destruct (lpick_spec ment mkey f (mel (root s)) (proj1 (bst_sorted _) Hb) Hm None)
    as [(Hacc & Hall)|(x & e & Hpk & Hin & Hng & Hmax)].
  - rewrite Hacc. intros e' He'. apply in_ents_elements in He'. destruct He' as (x & Hx). apply (Hall (x, e') Hx).
  - rewrite Hpk. exists e. split; [exact Hin|]. split; [exact Hng|].
    intros e' He' Hng'. apply in_ents_elements in He'. destruct He' as (x' & Hx'). apply (Hmax (x', e') Hx' Hng').
Qed.

Lemma cmp_to_mono q l : mono_list ment mkey (cmp_to q) l.
Proof.
  intros p p' _ _ Hlt. unfold cmp_to, mkey in *. simpl in *.
  repeat split; intros H; rewrite ?Z.compare_lt_iff, ?Z.compare_gt_iff, ?Z.compare_eq_iff in *; lia.
Qed.

Lemma mono_on_stored s m f : Rel s m -> monotone_on (stored m) f -> mono_on_tree f (root s).
Proof.
  intros R Hm [x e] [x' e'] Hp Hq Hlt. simpl in *.
  apply Hm; auto; unfold stored.
  - apply in_map. eapply Permutation_in; [exact R|]. apply in_ents_elements. eauto.
  - apply in_map. eapply Permutation_in; [exact R|]. apply in_ents_elements. eauto.
Qed.

(* reading through a handle that designates a stored entry *)
Lemma read_at_stored s x e : MInv s -> In (x, e) (mel (root s)) -> read_at s (Some x) = Ret (Some e).
Proof.
  intros (ND & _) Hin. unfold read_at, m_value_at. rewrite (ent_at_of_in ment mkey (root s) x e ND Hin). reflexivity.
Qed.

(** ** the predecessor queries against the reference semantics *)
Lemma first_is_pred s m q : MInv s -> Rel s m ->
  exists r, read_at s (m_first s q) = Ret r /\ a_pred m q = r /\
    match m_first s q, r with
    | Some x, Some e => In (x, e) (mel (root s))
    | None, None => True
    | _, _ => False
    end.
Proof.
  intros HI R. pose proof (Rel_nodup s m HI R) as NDm.
  pose proof (m_first_by_spec s (cmp_to q) HI (cmp_to_mono q _)) as Hf. unfold m_first.
  destruct (m_first_by s (cmp_to q)) as [x|].
  - destruct Hf as (e & Hin & Hng & Hmax). exists (Some e). split; [apply read_at_stored; auto|]. split; [|exact Hin].
    unfold a_pred. apply best_eq; [exact NDm|]. simpl.
    split; [eapply Permutation_in; [exact R|]; apply in_ents_elements; eauto|]. split.
    + apply Z.leb_le. unfold cmp_to in Hng. destruct (Z.compare_spec (fst e) q); try lia. congruence.
    + intros e' He' Hok. apply Hmax.
      * eapply Permutation_in; [apply Permutation_sym; exact R|exact He'].
      * apply Z.leb_le in Hok. unfold cmp_to. intros K. apply Z.compare_gt_iff in K. lia.
  - exists None. split; [reflexivity|]. split; [|exact I].
    unfold a_pred. apply best_eq; [exact NDm|]. simpl. intros e' He'.
    apply Z.leb_gt. assert (K: cmp_to q (fst e') = Gt).
    { apply Hf. eapply Permutation_in; [apply Permutation_sym; exact R|exact He']. }
    unfold cmp_to in K. apply Z.compare_gt_iff in K. lia.
Qed.

Lemma first_by_is_pred s m f : MInv s -> Rel s m -> monotone_on (stored m) f ->
  exists r, read_at s (m_first_by s f) = Ret r /\ a_pred_by m f = r.
Proof.
  intros HI R Hmon. pose proof (Rel_nodup s m HI R) as NDm.
  pose proof (m_first_by_spec s f HI (mono_on_stored s m f R Hmon)) as Hf.
  destruct (m_first_by s f) as [x|].
  - destruct Hf as (e & Hin & Hng & Hmax). exists (Some e). split; [apply read_at_stored; auto|].
    assert (Hem: In e m) by (eapply Permutation_in; [exact R|]; apply in_ents_elements; eauto).
    apply a_pred_by_eq; auto. unfold is_pred_by.
    destruct (f (fst e)) eqn:Hfe; [left|right|congruence].
    + exists e. unfold is_eq. rewrite Hfe. auto.
    + split.
      * intros e' He'. unfold is_eq. destruct (f (fst e')) eqn:Hfe'; auto. exfalso.
        assert (Hle: fst e' <= fst e).
        { apply Hmax; [eapply Permutation_in; [apply Permutation_sym; exact R|exact He']|congruence]. }
        assert (Hne: fst e' <> fst e) by (intros K; rewrite K in Hfe'; congruence).
        destruct (Hmon (fst e') (fst e)) as (_ & _ & K); try (apply in_map; assumption); try lia.
        rewrite (K Hfe') in Hfe. discriminate.
      * simpl. split; [exact Hem|]. split; [unfold is_lt; rewrite Hfe; reflexivity|].
        intros e' He' Hlt'. apply Hmax; [eapply Permutation_in; [apply Permutation_sym; exact R|exact He']|].
        unfold is_lt in Hlt'. destruct (f (fst e')); congruence.
  - exists None. split; [reflexivity|]. apply a_pred_by_eq; auto. right. split.
    + intros e' He'. unfold is_eq. rewrite (Hf e'); auto.
      eapply Permutation_in; [apply Permutation_sym; exact R|exact He'].
    + simpl. intros e' He'. unfold is_lt. rewrite (Hf e'); auto.
      eapply Permutation_in; [apply Permutation_sym; exact R|exact He'].
Qed.

(** ** write through a handle *)
Lemma upd_keys x (e: ment) v (l: list (N * ment)) : NoDup (map fst l) -> In (x, e) l ->
  map (fun p => mkey (snd p)) (map (upd ment x (fst e, v)) l) = map (fun p => mkey (snd p)) l.
Proof.
  intros ND Hin. rewrite map_map. apply map_ext_in. intros [s0 e0] H0. unfold upd. simpl.
  destruct (N.eqb_spec s0 x) as [->|]; simpl; auto.
  rewrite (NoDup_fst_unique ment mkey l x e0 e ND H0 Hin). reflexivity.
Qed.

Lemma m_set_at_spec s x e v : MInv s -> In (x, e) (mel (root s)) ->
  exists s', m_set_at s x v = Ret s' /\ MInv s' /\
    mel (root s') = map (upd ment x (fst e, v)) (mel (root s)).
Proof.
  intros (ND & Hrb & Hb & Hp) Hin. unfold m_set_at.
  rewrite (ent_at_of_in ment mkey (root s) x e ND Hin).
  eexists. split; [reflexivity|]. simpl.
  pose proof (set_at_elements ment mkey (root s) x (fst e, v) ND) as Hel.
  split; [|exact Hel]. unfold MInv. simpl.
  rewrite (set_at_slots ment mkey (root s) x (fst e, v) ND).
  split; [exact ND|]. split; [apply set_at_rbi; [exact mkey|exact Hrb]|]. split; [|exact Hp].
  unfold bst, RBTree.keys. rewrite Hel. rewrite (upd_keys x e v (mel (root s)) ND Hin). exact Hb.
Qed.

Lemma upd_ents x (e: ment) v (l: list (N * ment)) : NoDup (map fst l) -> msorted l -> In (x, e) l ->
  map snd (map (upd ment x (fst e, v)) l) =
  map (fun e0 : ment => if Z.eqb (fst e0) (fst e) then (fst e, v) else e0) (map snd l).
Proof.
  intros ND Hs Hin. rewrite !map_map. apply map_ext_in. intros [s0 e0] H0. unfold upd. simpl.
  destruct (N.eqb_spec s0 x) as [->|Hne]; simpl.
  - rewrite (NoDup_fst_unique ment mkey l x e0 e ND H0 Hin). rewrite Z.eqb_refl. reflexivity.
  - destruct (Z.eqb_spec (fst e0) (fst e)) as [Hk|]; auto. exfalso. apply Hne.
    assert (K: (s0, e0) = (x, e)) by (eapply (sorted_key_inj ment mkey l); eauto).
    congruence.
Qed.

(** ** delete by key *)
Lemma filter_perm {A} (p: A -> bool) (l m: list A) : Permutation l m -> Permutation (filter p l) (filter p m).
Proof.
  induction 1; simpl.
  - constructor.
  - destruct (p x); auto.
  - destruct (p x), (p y); auto. apply perm_swap.
  - etransitivity; eauto.
Qed.

Lemma filter_all {A} (p: A -> bool) (l: list A) : (forall x, In x l -> p x = true) -> filter p l = l.
Proof.
  induction l as [|x l IH]; simpl; intros H; auto. rewrite (H x) by auto. rewrite IH; auto.
Qed.

Lemma a_remove_absent m k : (forall e, In e m -> fst e <> k) -> a_remove m k = m.
Proof.
  intros H. unfold a_remove. apply filter_all. intros e He. apply negb_true_iff. apply Z.eqb_neq. auto.
Qed.

Lemma remove_rel (t t': mtree) A x e B m : bst ment mkey t ->
  mel t = A ++ (x, e) :: B -> ments t' = map snd A ++ map snd B ->
  Permutation (ments t) m -> Permutation (ments t') (a_remove m (fst e)).
Proof.
  intros Hb He Hents R. change (msorted (mel t)) in Hb. rewrite He in Hb.
  destruct (sorted_app_inv ment mkey A (x, e) B Hb) as (_ & _ & Hap & Hpb & _).
  assert (Hf: a_remove (ments t) (fst e) = ments t').
  { rewrite Hents. unfold a_remove, RBTree.ents. rewrite He. rewrite map_app. simpl. rewrite filter_app. simpl.
    rewrite Z.eqb_refl. simpl. f_equal; apply filter_all; intros e0 H0; apply in_map_iff in H0;
      destruct H0 as (p & <- & Hp); apply negb_true_iff; apply Z.eqb_neq.
    - specialize (Hap p Hp). simpl in Hap. unfold mkey in Hap. lia.
    - specialize (Hpb p Hp). simpl in Hpb. unfold mkey in Hpb. lia. }
  rewrite <- Hf. apply filter_perm. exact R.
Qed.

(** ** clear *)
Lemma m_clear_inv s : MInv s -> MInv (m_clear s) /\ Rel (m_clear s) [].
Proof.
  intros (ND & Hrb & Hb & Hp). unfold m_clear, MInv, Rel. simpl. split; [|constructor].
  split; [constructor|]. split; [constructor|]. split; [constructor|].
  apply pool_put_all_wf. rewrite app_nil_r.
  eapply pool_wf_perm; [|exact Hp]. apply Permutation_sym. apply level_order_perm. exact mkey.
Qed.

(** ** one step of a user-level history *)
Lemma in_rel s m e : Rel s m -> (In e (ments (root s)) <-> In e m).
Proof. intros R. split; intros H; eapply Permutation_in; try exact H; [exact R|apply Permutation_sym; exact R]. Qed.

Lemma neighbour_next s m x e : MInv s -> Rel s m -> In (x, e) (mel (root s)) ->
  exists a r, m_after s x = Ret a /\ read_at s a = Ret r /\ a_next m (fst e) = r.
Proof.
  intros HI R Hin. pose proof HI as (ND & Hrb & Hb & Hp). pose proof (Rel_nodup s m HI R) as NDm.
  destruct (in_split_nodup ment mkey (mel (root s)) x e ND Hin) as (a & b & Hab & Hna & Hnb).
  unfold m_after. rewrite (after_in_lnext ment mkey (root s) x None ND). rewrite Hab.
  rewrite (lnext_split ment mkey x e a b None Hna).
  change (msorted (mel (root s))) in Hb. rewrite Hab in Hb.
  destruct (sorted_app_inv ment mkey a (x, e) b Hb) as (_ & Hsb & Hap & Hpb & _).
  destruct b as [|[s2 e2] b']; simpl.
  - exists None, None. split; [reflexivity|]. split; [reflexivity|].
    apply a_next_eq; [exact NDm|]. simpl. intros e' He'. apply (in_rel s m e' R) in He'.
    apply in_ents_elements in He'. destruct He' as (x' & Hx'). rewrite Hab in Hx'.
    apply in_app_or in Hx'. destruct Hx' as [Hx'|[Hx'|[]]].
    + specialize (Hap _ Hx'). simpl in Hap. unfold mkey in Hap. lia.
    + inversion Hx'; subst. lia.
  - exists (Some s2), (Some e2). split; [reflexivity|]. split.
    + apply read_at_stored; auto. rewrite Hab. apply in_or_app. simpl. auto.
    + apply a_next_eq; [exact NDm|]. simpl.
      split; [apply (in_rel s m e2 R); apply in_ents_elements; exists s2; rewrite Hab; apply in_or_app; simpl; auto|].
      split; [specialize (Hpb (s2, e2) (or_introl eq_refl)); simpl in Hpb; unfold mkey in Hpb; lia|].
      intros e' He' Hgt. apply (in_rel s m e' R) in He'.
      apply in_ents_elements in He'. destruct He' as (x' & Hx'). rewrite Hab in Hx'.
      apply in_app_or in Hx'. destruct Hx' as [Hx'|[Hx'|[Hx'|Hx']]].
      * specialize (Hap _ Hx'). simpl in Hap. unfold mkey in Hap. lia.
      * inversion Hx'; subst. lia.
      * inversion Hx'; subst. lia.
      * apply sorted_cons_inv in Hsb. destruct Hsb as (_ & Hlt). specialize (Hlt _ Hx'). simpl in Hlt. unfold mkey in Hlt. lia.
Qed.

Lemma last_slot_app (a: list (N * ment)) s e d : last_slot ment (a ++ [(s, e)]) d = Some s.
Proof. unfold last_slot. rewrite rev_app_distr. reflexivity. Qed.

Lemma neighbour_prev s m x e : MInv s -> Rel s m -> In (x, e) (mel (root s)) ->
  exists a r, m_before s x = Ret a /\ read_at s a = Ret r /\ a_prev m (fst e) = r.
Proof.
  intros HI R Hin. pose proof HI as (ND & Hrb & Hb & Hp). pose proof (Rel_nodup s m HI R) as NDm.
  destruct (in_split_nodup ment mkey (mel (root s)) x e ND Hin) as (a & b & Hab & Hna & Hnb).
  unfold m_before. rewrite (before_in_lprev ment mkey (root s) x None ND). rewrite Hab.
  rewrite (lprev_split ment mkey x e a b None Hna).
  change (msorted (mel (root s))) in Hb. rewrite Hab in Hb.
  destruct (sorted_app_inv ment mkey a (x, e) b Hb) as (Hsa & _ & Hap & Hpb & _).
  destruct (rev a) as [|[s2 e2] ra] eqn:Hra.
  - assert (a = []) by (destruct a; [reflexivity|]; apply (f_equal (@length _)) in Hra; rewrite rev_length in Hra; discriminate).
    subst a. exists None, None. split; [reflexivity|]. split; [reflexivity|].
    unfold a_prev. apply best_eq; [exact NDm|]. simpl. intros e' He'. apply (in_rel s m e' R) in He'.
    apply in_ents_elements in He'. destruct He' as (x' & Hx'). rewrite Hab in Hx'. simpl in Hx'.
    apply Z.ltb_ge. destruct Hx' as [Hx'|Hx'].
    + inversion Hx'; subst. lia.
    + specialize (Hpb _ Hx'). simpl in Hpb. unfold mkey in Hpb. lia.
  - assert (Ha: a = rev ra ++ [(s2, e2)]).
    { rewrite <- (rev_involutive a). rewrite Hra. reflexivity. }
    exists (Some s2), (Some e2). split; [unfold last_slot; rewrite Hra; reflexivity|]. split.
    + apply read_at_stored; auto. rewrite Hab, Ha. apply in_or_app. left. apply in_or_app. simpl. auto.
    + unfold a_prev. apply best_eq; [exact NDm|]. simpl.
      assert (Hin2: In (s2, e2) a) by (rewrite Ha; apply in_or_app; simpl; auto).
      split; [apply (in_rel s m e2 R); apply in_ents_elements; exists s2; rewrite Hab; apply in_or_app; auto|].
      split; [apply Z.ltb_lt; specialize (Hap _ Hin2); simpl in Hap; unfold mkey in Hap; lia|].
      intros e' He' Hlt. apply Z.ltb_lt in Hlt. apply (in_rel s m e' R) in He'.
      apply in_ents_elements in He'. destruct He' as (x' & Hx'). rewrite Hab in Hx'.
      apply in_app_or in Hx'. destruct Hx' as [Hx'|[Hx'|Hx']].
      * rewrite Ha in Hx', Hsa. apply in_app_or in Hx'. destruct Hx' as [Hx'|[Hx'|[]]].
        -- destruct (sorted_app_inv ment mkey (rev ra) (s2, e2) [] Hsa) as (_ & _ & K & _).
           specialize (K _ Hx'). simpl in K. unfold mkey in K. lia.
        -- inversion Hx'; subst. lia.
      * inversion Hx'; subst. lia.
      * specialize (Hpb _ Hx'). simpl in Hpb. unfold mkey in Hpb. lia.
Qed.

Ltac fin H := split; [reflexivity|]; split; [reflexivity|]; split; [exact H|].

Theorem u_step_refines s m o : MInv s -> Rel s m -> valid_op m o ->
  exists s' out, u_step s o = Ret (s', out) /\ a_step m o = (fst (a_step m o), out) /\
                 MInv s' /\ Rel s' (fst (a_step m o)).
Proof.
  intros HI R Hv. pose proof HI as (ND & Hrb & Hb & Hp). pose proof (Rel_nodup s m HI R) as NDm.
  destruct o as [k v|k|k| |q|f|q v|q|q|q| ]; simpl in *.
  - (* insert *)
    assert (Habs: forall e, In e (ments (root s)) -> fst e <> k).
    { intros e He Hk. apply (in_rel s m e R) in He. apply a_lookup_none in Hv. apply Hv.
      unfold stored. rewrite <- Hk. apply in_map. exact He. }
    destruct (m_insert_spec s k v HI Habs) as (s' & i & Hr & HI' & _ & _ & Hperm).
    rewrite Hr. exists s', UNone. simpl. fin HI'.
    unfold Rel, a_insert. rewrite Hperm. apply perm_skip. exact R.
  - (* delete by key *)
    unfold m_delete. pose proof (find_slot_spec ment mkey (root s) k Hb) as Hf.
    destruct (find_slot ment mkey (root s) k) as [x|].
    + destruct Hf as (e & Hin & Hk).
      destruct (m_delete_at_spec s x e HI Hin) as (s' & A & B & Hr & HI' & He & Hents).
      rewrite Hr. exists s', UNone. simpl. fin HI'.
      unfold Rel. rewrite <- Hk. unfold mkey. eapply remove_rel; eauto.
    + exists s, UNone. fin HI. unfold Rel. rewrite a_remove_absent; auto.
      intros e He. apply (in_rel s m e R) in He. apply in_ents_elements in He. destruct He as (x & Hx).
      apply (Hf (x, e) Hx).
  - (* get *)
    exists s, (UEnt (m_get s k)). split; [reflexivity|]. split; [|split; [exact HI|exact R]]. f_equal. f_equal.
    pose proof (m_get_spec s k HI) as Hg. destruct (m_get s k) as [e|].
    + apply a_lookup_some; auto. destruct Hg. split; auto. apply (in_rel s m e R). auto.
    + apply a_lookup_none. unfold stored. intros Hin. apply in_map_iff in Hin. destruct Hin as (e & Hk & He).
      apply (Hg e); auto. apply (in_rel s m e R). auto.
  - (* is_empty *)
    exists s, (UBool (m_is_empty s)). split; [reflexivity|]. split; [|split; [exact HI|exact R]]. f_equal. f_equal.
    unfold m_is_empty, Rel in *. destruct (root s) as [|c l x e r].
    + simpl in R. apply Permutation_nil in R. subst. reflexivity.
    + destruct m; auto. apply Permutation_sym in R. apply Permutation_nil in R.
      rewrite ents_T in R. destruct (RBTree.ents ment l); discriminate.
  - (* first *)
    destruct (first_is_pred s m q HI R) as (r & Hrd & Hpr & _). rewrite Hrd. simpl.
    exists s, (UEnt r). rewrite Hpr. fin HI. exact R.
  - (* first_by *)
    destruct (first_by_is_pred s m f HI R Hv) as (r & Hrd & Hpr). rewrite Hrd. simpl.
    exists s, (UEnt r). rewrite Hpr. fin HI. exact R.
  - (* write through the predecessor handle *)
    destruct (first_is_pred s m q HI R) as (r & Hrd & Hpr & Hm). rewrite Hpr.
    destruct (m_first s q) as [x|], r as [e|]; try contradiction.
    + destruct (m_set_at_spec s x e v HI Hm) as (s' & Hr & HI' & Hel). rewrite Hr. simpl.
      exists s', UNone. fin HI'. unfold Rel, a_update, RBTree.ents. rewrite Hel.
      rewrite (upd_ents x e v (mel (root s)) ND (proj1 (bst_sorted _) Hb) Hm).
      apply Permutation_map. exact R.
    + exists s, UNone. fin HI. exact R.
  - (* delete through the predecessor handle *)
    destruct (first_is_pred s m q HI R) as (r & Hrd & Hpr & Hm). rewrite Hpr.
    destruct (m_first s q) as [x|], r as [e|]; try contradiction.
    + destruct (m_delete_at_spec s x e HI Hm) as (s' & A & B & Hr & HI' & He & Hents). rewrite Hr. simpl.
      exists s', UNone. fin HI'. unfold Rel. eapply remove_rel; eauto.
    + exists s, UNone. fin HI. exact R.
  - (* after *)
    destruct (first_is_pred s m q HI R) as (r & Hrd & Hpr & Hm). rewrite Hpr.
    destruct (m_first s q) as [x|], r as [e|]; try contradiction.
    + destruct (neighbour_next s m x e HI R Hm) as (a & r2 & Ha & Hr2 & Hn). rewrite Ha. simpl. rewrite Hr2. simpl.
      exists s, (UEnt r2). rewrite Hn. fin HI. exact R.
    + exists s, (UEnt None). fin HI. exact R.
  - (* before *)
    destruct (first_is_pred s m q HI R) as (r & Hrd & Hpr & Hm). rewrite Hpr.
    destruct (m_first s q) as [x|], r as [e|]; try contradiction.
    + destruct (neighbour_prev s m x e HI R Hm) as (a & r2 & Ha & Hr2 & Hn). rewrite Ha. simpl. rewrite Hr2. simpl.
      exists s, (UEnt r2). rewrite Hn. fin HI. exact R.
    + exists s, (UEnt None). fin HI. exact R.
  - (* clear *)
    destruct (m_clear_inv s HI) as (HI' & R'). exists (m_clear s), UNone. fin HI'. exact R'.
Qed.

Theorem u_run_refines h : forall s m, MInv s -> Rel s m -> valid_history m h ->
  exists s', u_run s h = Ret (s', snd (a_run m h)) /\ MInv s' /\ Rel s' (fst (a_run m h)).
Proof.
  induction h as [|o h IH]; intros s m HI R Hv; simpl.
  - exists s. auto.
  - destruct Hv as (Hvo & Hvh).
    destruct (u_step_refines s m o HI R Hvo) as (s1 & out & Hst & Hast & HI1 & R1).
    rewrite Hst. simpl. rewrite Hast.
    destruct (IH s1 (fst (a_step m o)) HI1 R1 Hvh) as (s2 & Hrun & HI2 & R2).
    rewrite Hrun. simpl. destruct (a_run (fst (a_step m o)) h) as [m2 outs] eqn:Har. simpl in *.
    exists s2. auto.
Qed.
