(** * The coordinate layout (src/seg/layout.rs): 32 equal power-of-two buckets over [lo, hi] (C14). *)
From Coq Require Import List NArith ZArith Bool Lia.
Import ListNotations.
Require Import ITree.Model.Heap ITree.Model.SegModel ITree.Proofs.HeapSweep.
Local Open Scope Z_scope.

(** ** Shape of [layout_new] *)

Lemma layout_new_none : forall lo hi, lo <= hi -> (layout_new lo hi = None <-> hi - lo + 1 <= 16).
Proof.
  intros lo hi H. unfold layout_new. cbv zeta.
  destruct (hi - lo + 1 <? 5) eqn:E1.
  - apply Z.ltb_lt in E1. split; [lia|reflexivity].
  - apply Z.ltb_ge in E1.
    destruct (Z.log2 (hi - lo + 1 - 1) + 1 <? 5) eqn:E2.
    + apply Z.ltb_lt in E2. split; [|reflexivity]. intros _.
      assert (Z.log2 (hi - lo + 1 - 1) < 4) as K by lia.
      apply Z.log2_lt_pow2 in K; [|lia]. change (2 ^ 4) with 16 in K. lia.
    + apply Z.ltb_ge in E2. split; [discriminate|]. intros K. exfalso.
      assert (hi - lo + 1 - 1 < 2 ^ 4) as K2 by (change (2 ^ 4) with 16; lia).
      apply Z.log2_lt_pow2 in K2; lia.
Qed.

(* a layout exists exactly for more than 16 points; its scale is ilog2(len - 1) - 4 *)
Lemma layout_new_some : forall lo hi L, layout_new lo hi = Some L ->
  17 <= hi - lo + 1 /\ 4 <= Z.log2 (hi - lo) /\
  lmin L = lo /\ lmax L = hi /\ lscale L = Z.log2 (hi - lo) - 4.
Proof.
  intros lo hi L. unfold layout_new. cbv zeta.
  replace (hi - lo + 1 - 1) with (hi - lo) by lia.
  destruct (hi - lo + 1 <? 5) eqn:E1; [discriminate|]. apply Z.ltb_ge in E1.
  destruct (Z.log2 (hi - lo) + 1 <? 5) eqn:E2; [discriminate|]. apply Z.ltb_ge in E2.
  intros K. injection K as <-. cbn [lmin lmax lscale].
  assert (4 <= Z.log2 (hi - lo)) as K4 by lia.
  apply Z.log2_le_pow2 in K4; [|lia]. change (2 ^ 4) with 16 in K4.
  repeat split; lia.
Qed.

(* the two-sided power-of-two bracket of the domain width *)
Lemma scale_bracket : forall lo hi L, layout_new lo hi = Some L ->
  0 <= lscale L /\ 0 < 2 ^ lscale L /\
  16 * 2 ^ lscale L <= hi - lo /\ hi - lo < 32 * 2 ^ lscale L.
Proof.
  intros lo hi L H. destruct (layout_new_some lo hi L H) as (H17 & H4 & _ & _ & Hs).
  set (s := lscale L) in *.
  assert (0 <= s) as S0 by lia.
  assert (0 < hi - lo) as P by lia.
  destruct (Z.log2_spec (hi - lo) P) as [B1 B2].
  replace (Z.log2 (hi - lo)) with (s + 4) in B1, B2 by lia.
  replace (Z.succ (s + 4)) with (s + 5) in B2 by lia.
  rewrite Z.pow_add_r in B1, B2 by lia.
  change (2 ^ 4) with 16 in B1. change (2 ^ 5) with 32 in B2.
  assert (0 < 2 ^ s) as PP by (apply Z.pow_pos_nonneg; lia).
  repeat split; lia.
Qed.

Lemma zindex_div : forall lo hi L, layout_new lo hi = Some L ->
  forall v, zindex L v = (v - lo) / 2 ^ lscale L.
Proof.
  intros lo hi L H v. destruct (layout_new_some lo hi L H) as (_ & _ & Hlo & _ & _).
  destruct (scale_bracket lo hi L H) as (S0 & _). unfold zindex. rewrite Hlo.
  apply Z.shiftr_div_pow2. exact S0.
Qed.

Lemma zindex_mono : forall lo hi L, layout_new lo hi = Some L ->
  forall v w, v <= w -> zindex L v <= zindex L w.
Proof.
  intros lo hi L H v w Hvw. rewrite !(zindex_div lo hi L H).
  destruct (scale_bracket lo hi L H) as (_ & PP & _).
  apply Z.div_le_mono; lia.
Qed.

Lemma zindex_lo : forall lo hi L, layout_new lo hi = Some L -> zindex L lo = 0.
Proof.
  intros lo hi L H. rewrite (zindex_div lo hi L H). replace (lo - lo) with 0 by lia.
  apply Z.div_0_l. destruct (scale_bracket lo hi L H) as (_ & PP & _). lia.
Qed.

Lemma zindex_hi : forall lo hi L, layout_new lo hi = Some L -> 16 <= zindex L hi < 32.
Proof.
  intros lo hi L H. rewrite (zindex_div lo hi L H).
  destruct (scale_bracket lo hi L H) as (_ & PP & B1 & B2). split.
  - apply Z.div_le_lower_bound; lia.
  - apply Z.div_lt_upper_bound; lia.
Qed.

Lemma zindex_range : forall lo hi L, layout_new lo hi = Some L ->
  forall v w, lo <= v -> v <= w -> w <= hi -> 0 <= zindex L v <= zindex L w /\ zindex L w < 32.
Proof.
  intros lo hi L H v w H1 H2 H3.
  pose proof (zindex_mono lo hi L H lo v H1) as M1.
  pose proof (zindex_mono lo hi L H v w H2) as M2.
  pose proof (zindex_mono lo hi L H w hi H3) as M3.
  rewrite (zindex_lo lo hi L H) in M1. pose proof (zindex_hi lo hi L H). lia.
Qed.

Lemma layout_new_spec : forall lo hi L, lo <= hi -> layout_new lo hi = Some L ->
  lmin L = lo /\ lmax L = hi /\ 0 <= lscale L /\
  zindex L lo = 0 /\ 16 <= zindex L hi < 32 /\
  (forall v, zindex L v = (v - lo) / 2 ^ lscale L) /\
  (forall v w, lo <= v -> v <= w -> w <= hi -> 0 <= zindex L v <= zindex L w /\ zindex L w < 32) /\
  hi - lo + 1 <= 32 * 2 ^ lscale L /\
  (0 < lscale L -> 32 * 2 ^ (lscale L - 1) < hi - lo + 1).
Proof.
  intros lo hi L _ H.
  destruct (layout_new_some lo hi L H) as (_ & _ & Hlo & Hhi & _).
  destruct (scale_bracket lo hi L H) as (S0 & PP & B1 & B2).
  split; [exact Hlo|]. split; [exact Hhi|]. split; [exact S0|].
  split; [exact (zindex_lo lo hi L H)|]. split; [exact (zindex_hi lo hi L H)|].
  split; [exact (zindex_div lo hi L H)|]. split; [exact (zindex_range lo hi L H)|].
  split; [lia|]. intros SP.
  assert (2 ^ lscale L = 2 * 2 ^ (lscale L - 1)) as E.
  { replace (lscale L) with (1 + (lscale L - 1)) at 1 by lia.
    rewrite Z.pow_add_r by lia. reflexivity. }
  lia.
Qed.

(* at most 32 points: one point per bucket *)
Lemma layout_small_exact : forall lo hi L, layout_new lo hi = Some L -> hi - lo + 1 <= 32 ->
  lscale L = 0 /\ forall v, zindex L v = v - lo.
Proof.
  intros lo hi L H Hs.
  destruct (layout_new_some lo hi L H) as (H17 & H4 & Hlo & _ & Hsc).
  assert (Z.log2 (hi - lo) < 5) as K.
  { apply Z.log2_lt_pow2; [lia|]. change (2 ^ 5) with 32. lia. }
  assert (lscale L = 0) as S0 by lia. split; [exact S0|].
  intros v. unfold zindex. rewrite S0, Hlo. apply Z.shiftr_0_r.
Qed.

(** ** Every place of an in-domain insert / query is allocated *)

Lemma lindex_range : forall lo hi L, layout_new lo hi = Some L ->
  forall a b, lo <= a -> a <= b -> b <= hi ->
  (lindex L a <= lindex L b /\ lindex L b <= lindex L hi /\ lindex L hi < 32)%N.
Proof.
  intros lo hi L H a b H1 H2 H3.
  destruct (zindex_range lo hi L H a b H1 H2 H3) as [[A0 A1] A2].
  assert (lo <= b) as H1' by lia. assert (b <= hi) as H2' by lia.
  destruct (zindex_range lo hi L H b hi H1' H2' (Z.le_refl hi)) as [[B0 B1] B2].
  unfold lindex. repeat split.
  - apply Z2N.inj_le; lia.
  - apply Z2N.inj_le; lia.
  - change 32%N with (Z.to_N 32). apply Z2N.inj_lt; lia.
Qed.

Lemma lcount_eq : forall lo hi L, layout_new lo hi = Some L -> lcount L = (lindex L hi + 32)%N.
Proof.
  intros lo hi L H. destruct (layout_new_some lo hi L H) as (_ & _ & _ & Hhi & _).
  unfold lcount, order_to_heap_index. rewrite Hhi. lia.
Qed.

Lemma lcount_range : forall lo hi L, layout_new lo hi = Some L -> (48 <= lcount L <= 63)%N.
Proof.
  intros lo hi L H. rewrite (lcount_eq lo hi L H).
  pose proof (zindex_hi lo hi L H) as K. unfold lindex.
  assert (16 <= Z.to_N (zindex L hi) < 32)%N; [|lia].
  split.
  - change 16%N with (Z.to_N 16). apply Z2N.inj_le; lia.
  - change 32%N with (Z.to_N 32). apply Z2N.inj_lt; lia.
Qed.

Lemma masks_backed : forall lo hi L a b, lo <= hi -> layout_new lo hi = Some L ->
  lo <= a -> a <= b -> b <= hi ->
  (forall i, In i (bits (insert_mask L a b)) -> (i < lcount L)%N) /\
  (forall i, In i (bits (intersect_mask L a b)) -> (i < lcount L)%N).
Proof.
  intros lo hi L a b _ H H1 H2 H3.
  destruct (lindex_range lo hi L H a b H1 H2 H3) as (I1 & I2 & I3).
  assert (lindex L b < 32)%N as I4 by lia.
  destruct (mask_bits_bound (lindex L a) (lindex L b) I1 I4) as [P V].
  rewrite (lcount_eq lo hi L H). unfold insert_mask, intersect_mask.
  split; intros i I; [specialize (P i I)|specialize (V i I)]; lia.
Qed.

(* ... hence the model's [backed] test succeeds on a freshly sized chunk vector *)
Lemma masks_backed_bool : forall lo hi L a b (cs: list (list copy)),
  lo <= hi -> layout_new lo hi = Some L -> lo <= a -> a <= b -> b <= hi ->
  length cs = N.to_nat (lcount L) ->
  backed cs (insert_mask L a b) = true /\ backed cs (intersect_mask L a b) = true.
Proof.
  intros lo hi L a b cs H0 H H1 H2 H3 Hlen.
  destruct (masks_backed lo hi L a b H0 H H1 H2 H3) as [P V].
  unfold backed. rewrite Hlen, N2Nat.id.
  split; apply forallb_forall; intros i I; apply N.ltb_lt; [exact (P i I)|exact (V i I)].
Qed.

(** ** Machine ranges: no intermediate of Layout::new / Layout::index leaves its Rust type *)

Lemma machine_ranges : forall lo hi,
  lo <= hi -> - 2 ^ 63 <= lo -> hi < 2 ^ 63 -> hi - lo + 1 < 2 ^ 63 ->
  (* max - min and max - min + 1 fit i64 (and the cast to usize is the identity) *)
  0 <= hi - lo < 2 ^ 63 /\ 0 < hi - lo + 1 < 2 ^ 63 /\
  (* past the first test, len - 1 > 0 (ilog2 is defined) and p = ilog2 (len - 1) + 1 fits u32 *)
  (5 <= hi - lo + 1 -> 0 < hi - lo + 1 - 1 /\ 3 <= Z.log2 (hi - lo + 1 - 1) + 1 <= 63) /\
  forall L, layout_new lo hi = Some L ->
    (* p - 5 does not underflow; the shift amount is below 64 *)
    5 <= Z.log2 (hi - lo + 1 - 1) + 1 /\ lscale L = Z.log2 (hi - lo + 1 - 1) + 1 - 5 /\
    0 <= lscale L <= 58 /\
    (48 <= lcount L <= 63)%N /\
    forall v, lo <= v <= hi ->
      - 2 ^ 63 <= v < 2 ^ 63 /\ 0 <= v - lo < 2 ^ 63 /\ 0 <= zindex L v < 32 /\
      Z.of_N (lindex L v) = zindex L v.
Proof.
  intros lo hi H Hlo Hhi Hlen.
  split; [lia|]. split; [lia|]. split.
  - intros H5. split; [lia|].
    replace (hi - lo + 1 - 1) with (hi - lo) by lia.
    assert (Z.log2 (hi - lo) < 63) as K by (apply Z.log2_lt_pow2; lia).
    assert (2 <= Z.log2 (hi - lo)) as K2.
    { apply Z.log2_le_pow2; [lia|]. change (2 ^ 2) with 4. lia. }
    lia.
  - intros L HL. replace (hi - lo + 1 - 1) with (hi - lo) by lia.
    destruct (layout_new_some lo hi L HL) as (H17 & H4 & _ & _ & Hsc).
    assert (Z.log2 (hi - lo) < 63) as K by (apply Z.log2_lt_pow2; lia).
    split; [lia|]. split; [lia|]. split; [lia|]. split; [exact (lcount_range lo hi L HL)|].
    intros v [V1 V2].
    destruct (zindex_range lo hi L HL v v V1 (Z.le_refl v) V2) as [[Z0 _] Z1].
    split; [lia|]. split; [lia|]. split; [lia|].
    unfold lindex. apply Z2N.id. exact Z0.
Qed.

(** ** Non-vacuity *)
Example ex_layout : exists L, layout_new (-10240) 15360 = Some L /\ lscale L = 10 /\
  zindex L (-10240) = 0 /\ zindex L 15360 = 25 /\ lcount L = 57%N.
Proof. eexists. split; [vm_compute; reflexivity|]. vm_compute. repeat split. Qed.
Example ex_layout_small : layout_new 0 15 = None /\ exists L, layout_new 0 16 = Some L /\ lscale L = 0.
Proof. split; [vm_compute; reflexivity|]. eexists. split; vm_compute; reflexivity. Qed.
Example ex_layout_big : exists L, layout_new (- 2 ^ 62) (2 ^ 62 - 2) = Some L /\ lscale L = 58 /\
  zindex L (2 ^ 62 - 2) = 31.
Proof. eexists. split; [vm_compute; reflexivity|]. vm_compute. repeat split. Qed.
