(** * The segment-tree iterator (src/seg/tree.rs): one-chunk scan, [next], [take_n].

    The list of places to visit is an arbitrary duplicate-free list [bq] here (it is
    [bits (intersect_mask ..)] in the model); nothing in this file looks inside masks. *)
From Coq Require Import List NArith ZArith Bool Lia Permutation.
Import ListNotations.
Require Import ITree.Model.Common ITree.Model.Heap ITree.Model.SegModel.

(** ** generic list facts *)

Lemma skipn_app_len : forall {A} (l1 l2: list A), skipn (length l1) (l1 ++ l2) = l2.
Proof. induction l1 as [|x l1 IH]; intros l2; [reflexivity | apply IH]. Qed.

Lemma firstn_app_len : forall {A} (l1 l2: list A), firstn (length l1) (l1 ++ l2) = l1.
Proof. induction l1 as [|x l1 IH]; intros l2; [reflexivity | cbn; f_equal; apply IH]. Qed.

Lemma nth_error_app_len : forall {A} (l1 l2: list A) x, nth_error (l1 ++ x :: l2) (length l1) = Some x.
Proof. induction l1 as [|y l1 IH]; intros l2 x; [reflexivity | apply IH]. Qed.

Lemma nth_error_app_nil : forall {A} (l1: list A), nth_error (l1 ++ []) (length l1) = None.
Proof. induction l1 as [|y l1 IH]; [reflexivity | apply IH]. Qed.

Lemma app_cons_assoc : forall {A} (l1: list A) x l2, l1 ++ x :: l2 = (l1 ++ [x]) ++ l2.
Proof. intros. rewrite <- app_assoc. reflexivity. Qed.

Lemma length_snoc : forall {A} (l1: list A) x, length (l1 ++ [x]) = S (length l1).
Proof. intros. rewrite app_length. cbn. lia. Qed.

Lemma perm_insert_dead : forall {A} (l2 mid: list A) x tail dead y,
  Permutation l2 (mid ++ x :: tail ++ dead) -> Permutation (y :: l2) (mid ++ x :: tail ++ y :: dead).
Proof.
  intros A l2 mid x tail dead y H. eapply Permutation_trans; [apply perm_skip; exact H|].
  change (mid ++ x :: tail ++ dead) with (mid ++ (x :: tail) ++ dead).
  change (mid ++ x :: tail ++ y :: dead) with (mid ++ (x :: tail) ++ y :: dead).
  rewrite !app_assoc. apply Permutation_middle.
Qed.

Lemma filter_none : forall {A} (f: A -> bool) l, Forall (fun x => f x = false) l -> filter f l = [].
Proof.
  intros A f l H. induction H as [|x l Hx Hl IH]; [reflexivity|].
  cbn [filter]. rewrite Hx. exact IH.
Qed.

Lemma filter_all : forall {A} (f: A -> bool) l, Forall (fun x => f x = true) l -> filter f l = l.
Proof.
  intros A f l H. induction H as [|x l Hx Hl IH]; [reflexivity|].
  cbn [filter]. rewrite Hx. f_equal. exact IH.
Qed.

Lemma Permutation_filter' : forall {A} (f: A -> bool) l l',
  Permutation l l' -> Permutation (filter f l) (filter f l').
Proof.
  intros A f l l' H. induction H as [|x l l' H IH|x y l|l l' l'' H1 IH1 H2 IH2].
  - constructor.
  - cbn [filter]. destruct (f x); [constructor|]; exact IH.
  - cbn [filter]. destruct (f x); destruct (f y); try apply Permutation_refl. constructor.
  - eapply Permutation_trans; eassumption.
Qed.

Lemma flat_map_ext_in' : forall {A B} (f g: A -> list B) l,
  (forall x, In x l -> f x = g x) -> flat_map f l = flat_map g l.
Proof.
  intros A B f g l H. induction l as [|x l IH]; [reflexivity|].
  cbn [flat_map]. rewrite (H x (or_introl eq_refl)). f_equal.
  apply IH. intros y Hy. apply H. right. exact Hy.
Qed.

Lemma flat_map_nil : forall {A B} (f: A -> list B) l,
  (forall x, In x l -> f x = []) -> flat_map f l = [].
Proof.
  intros A B f l H. induction l as [|x l IH]; [reflexivity|].
  cbn [flat_map]. rewrite (H x (or_introl eq_refl)). cbn [app].
  apply IH. intros y Hy. apply H. right. exact Hy.
Qed.

(** ** swap_remove *)

Lemma swap_remove_spec : forall {A} (l1: list A) a l2,
  exists tl2, swap_remove (l1 ++ a :: l2) (length l1) = l1 ++ tl2 /\ Permutation l2 tl2.
Proof.
  intros A l1 a l2. unfold swap_remove. rewrite skipn_app_len, firstn_app_len.
  destruct l2 as [|y r].
  - exists []. split; [rewrite app_nil_r; reflexivity | constructor].
  - exists (last (y :: r) y :: removelast (y :: r)). split; [reflexivity|].
    pose proof (Permutation_sym (Permutation_cons_append (removelast (y :: r)) (last (y :: r) y))) as P.
    rewrite <- app_removelast_last in P by discriminate. exact P.
Qed.

(** ** upd / chunk_at *)

Lemma upd_length : forall {A} (l: list A) i f, length (upd l i f) = length l.
Proof.
  induction l as [|x l IH]; intros i f; [reflexivity|].
  destruct i; cbn [upd length]; [reflexivity | rewrite IH; reflexivity].
Qed.

Lemma nth_upd_same : forall {A} (l: list A) i f d, (i < length l)%nat -> nth i (upd l i f) d = f (nth i l d).
Proof.
  induction l as [|x l IH]; intros i f d Hi; [cbn in Hi; lia|].
  destruct i; cbn [upd nth]; [reflexivity|]. apply IH. cbn in Hi. lia.
Qed.

Lemma nth_upd_other : forall {A} (l: list A) i j f d, i <> j -> nth j (upd l i f) d = nth j l d.
Proof.
  induction l as [|x l IH]; intros i j f d Hij; [reflexivity|].
  destruct i; destruct j; cbn [upd nth]; try reflexivity; try congruence.
  apply IH. congruence.
Qed.

Lemma chunk_at_upd_same : forall cs p f, (N.to_nat p < length cs)%nat ->
  chunk_at (upd cs (N.to_nat p) f) p = f (chunk_at cs p).
Proof. intros cs p f H. unfold chunk_at. apply nth_upd_same. exact H. Qed.

Lemma chunk_at_upd_other : forall cs p q f, p <> q ->
  chunk_at (upd cs (N.to_nat p) f) q = chunk_at cs q.
Proof.
  intros cs p q f H. unfold chunk_at. apply nth_upd_other.
  intro E. apply H. apply N2Nat.inj. exact E.
Qed.

(** ** liveness, reportability *)

Definition live (t: Z) (c: copy) : bool := (t <=? sexp (fst c))%Z.
Definition rep (t: Z) (qm p: N) (c: copy) : bool :=
  live t c && N.eqb (lowbit (N.land (snd c) qm)) p.

Lemma rep_live : forall t qm p c, rep t qm p c = true -> live t c = true.
Proof. intros t qm p c H. unfold rep in H. apply andb_true_iff in H. apply H. Qed.

Lemma dead_not_rep : forall t qm p c, live t c = false -> rep t qm p c = false.
Proof. intros t qm p c H. unfold rep. rewrite H. reflexivity. Qed.

Section Scan.
  Variable t : Z.
  Variable qm : N.

  Definition skipP (p: N) (x: copy) : Prop := live t x = true /\ rep t qm p x = false.
  Definition deadP (x: copy) : Prop := live t x = false.

  Lemma filter_rep_skip : forall p l, Forall (skipP p) l -> filter (rep t qm p) l = [].
  Proof.
    intros p l H. apply filter_none. eapply Forall_impl; [|exact H]. intros x [_ Hx]. exact Hx.
  Qed.
  Lemma filter_rep_dead : forall p l, Forall deadP l -> filter (rep t qm p) l = [].
  Proof.
    intros p l H. apply filter_none. eapply Forall_impl; [|exact H]. intros x Hx.
    apply dead_not_rep. exact Hx.
  Qed.

  Lemma scan_eq : forall fuel c i p,
    scan fuel c i p qm t =
    match nth_error c i with
    | None => Ret (c, None)
    | Some (v, m) =>
      match fuel with
      | O => Err ErrFuel
      | S f =>
        if (sexp v <? t)%Z then scan f (swap_remove c i) i p qm t
        else if N.eqb (lowbit (N.land m qm)) p then Ret (c, Some (v, S i))
        else scan f c (S i) p qm t
      end
    end.
  Proof. intros fuel c i p. destruct fuel; reflexivity. Qed.

  (* [c = pre ++ rest], cursor at [length pre] *)
  Definition scan_post (p: N) (pre rest c': list copy) (r: option (sval * nat)) : Prop :=
    match r with
    | None => exists (mid dead: list copy),
        c' = pre ++ mid /\ Permutation rest (mid ++ dead) /\ Forall (skipP p) mid /\ Forall deadP dead
    | Some (v, i') => exists (mid: list copy) (m: N) (tail dead: list copy),
        c' = pre ++ mid ++ @cons copy (v, m) tail /\ i' = S (length pre + length mid) /\
        Permutation rest (mid ++ @cons copy (v, m) (tail ++ dead)) /\
        Forall (skipP p) mid /\ rep t qm p (v, m) = true /\ Forall deadP dead
    end.

  Lemma scan_spec : forall fuel p pre rest c' r,
    scan fuel (pre ++ rest) (length pre) p qm t = Ret (c', r) -> scan_post p pre rest c' r.
  Proof.
    induction fuel as [|f IH]; intros p pre rest c' r H; rewrite scan_eq in H.
    - destruct rest as [|[v m] l2].
      + rewrite nth_error_app_nil in H. inversion H; subst. exists [], []. repeat split; constructor.
      + rewrite nth_error_app_len in H. discriminate.
    - destruct rest as [|[v m] l2].
      + rewrite nth_error_app_nil in H. inversion H; subst. exists [], []. repeat split; constructor.
      + rewrite nth_error_app_len in H.
        destruct (sexp v <? t)%Z eqn:Ex.
        * (* expired: swap_remove *)
          destruct (swap_remove_spec pre (v, m) l2) as [tl2 [Esw Pt]].
          rewrite Esw in H. apply IH in H.
          assert (Hd: deadP (v, m)).
          { unfold deadP, live. cbn [fst]. apply Z.leb_gt. apply Z.ltb_lt. exact Ex. }
          destruct r as [[v' i']|].
          -- destruct H as [mid [m' [tail [dead [E1 [E2 [P [F1 [R F2]]]]]]]]].
             exists mid, m', tail, ((v, m) :: dead). repeat split; try assumption.
             ++ apply perm_insert_dead. eapply Permutation_trans; [exact Pt | exact P].
             ++ constructor; assumption.
          -- destruct H as [mid [dead [E1 [P [F1 F2]]]]].
             exists mid, ((v, m) :: dead). repeat split; try assumption.
             ++ apply Permutation_cons_app. eapply Permutation_trans; [exact Pt | exact P].
             ++ constructor; assumption.
        * destruct (N.eqb (lowbit (N.land m qm)) p) eqn:Ep.
          -- (* reported *)
             inversion H; subst. exists [], m, l2, []. cbn [app length].
             repeat split; try constructor.
             ++ rewrite Nat.add_0_r. reflexivity.
             ++ rewrite app_nil_r. apply Permutation_refl.
             ++ unfold rep, live. cbn [fst snd]. rewrite Ep.
                assert ((t <=? sexp v)%Z = true) as -> by (apply Z.leb_le; apply Z.ltb_ge; exact Ex).
                reflexivity.
          -- (* skipped *)
             rewrite app_cons_assoc in H. rewrite <- (length_snoc pre (v, m)) in H.
             apply IH in H.
             assert (Hs: skipP p (v, m)).
             { unfold skipP, rep, live. cbn [fst snd]. rewrite Ep.
               assert ((t <=? sexp v)%Z = true) as -> by (apply Z.leb_le; apply Z.ltb_ge; exact Ex).
               split; reflexivity. }
             destruct r as [[v' i']|].
             ++ destruct H as [mid [m' [tail [dead [E1 [E2 [P [F1 [R F2]]]]]]]]].
                exists ((v, m) :: mid), m', tail, dead. repeat split; try assumption.
                ** rewrite E1. rewrite <- app_assoc. reflexivity.
                ** rewrite E2. rewrite app_length. cbn [length]. lia.
                ** cbn [app]. constructor. exact P.
                ** constructor; assumption.
             ++ destruct H as [mid [dead [E1 [P [F1 F2]]]]].
                exists ((v, m) :: mid), dead. repeat split; try assumption.
                ** rewrite E1. rewrite <- app_assoc. reflexivity.
                ** cbn [app]. constructor. exact P.
                ** constructor; assumption.
  Qed.

  Lemma scan_total : forall fuel p pre rest,
    (length rest <= fuel)%nat -> exists res, scan fuel (pre ++ rest) (length pre) p qm t = Ret res.
  Proof.
    induction fuel as [|f IH]; intros p pre rest Hf; rewrite scan_eq.
    - destruct rest; [|cbn in Hf; lia]. rewrite nth_error_app_nil. eexists; reflexivity.
    - destruct rest as [|[v m] l2].
      + rewrite nth_error_app_nil. eexists; reflexivity.
      + rewrite nth_error_app_len. cbn [length] in Hf.
        destruct (sexp v <? t)%Z.
        * destruct (swap_remove_spec pre (v, m) l2) as [tl2 [Esw Pt]].
          rewrite Esw. apply IH. rewrite <- (Permutation_length Pt). lia.
        * destruct (N.eqb (lowbit (N.land m qm)) p); [eexists; reflexivity|].
          rewrite app_cons_assoc. rewrite <- (length_snoc pre (v, m)).
          apply IH. lia.
  Qed.

  (* the cursor may be anywhere, even past the end *)
  Lemma scan_spec_gen : forall fuel p c i c' r,
    scan fuel c i p qm t = Ret (c', r) -> scan_post p (firstn i c) (skipn i c) c' r.
  Proof.
    intros fuel p c i c' r H.
    destruct (le_lt_dec i (length c)) as [Hi | Hi].
    - pose proof (scan_spec fuel p (firstn i c) (skipn i c) c' r) as S.
      rewrite firstn_skipn in S. rewrite firstn_length_le in S by exact Hi. exact (S H).
    - rewrite scan_eq in H.
      assert (En: nth_error c i = None) by (apply nth_error_None; lia).
      rewrite En in H. inversion H; subst.
      rewrite firstn_all2 by lia. rewrite skipn_all2 by lia.
      exists [], []. repeat split; try constructor. rewrite app_nil_r. reflexivity.
  Qed.

  Lemma scan_total_gen : forall p c i, exists res, scan (length c) c i p qm t = Ret res.
  Proof.
    intros p c i.
    destruct (le_lt_dec i (length c)) as [Hi | Hi].
    - pose proof (scan_total (length c) p (firstn i c) (skipn i c)) as S.
      rewrite firstn_skipn in S. rewrite firstn_length_le in S by exact Hi.
      apply S. rewrite skipn_length. lia.
    - rewrite scan_eq.
      assert (En: nth_error c i = None) by (apply nth_error_None; lia).
      rewrite En. eexists; reflexivity.
  Qed.
End Scan.

(** ** the iterator *)

Definition cur_list (o: option N) : list N := match o with Some p => [p] | None => [] end.

Lemma next_nonempty_spec : forall cs bs nx rs,
  next_nonempty cs bs = (nx, rs) ->
  exists skipped, bs = skipped ++ cur_list nx ++ rs /\
    Forall (fun q => chunk_at cs q = []) skipped /\ (nx = None -> rs = []).
Proof.
  induction bs as [|b bs IH]; intros nx rs H; cbn [next_nonempty] in H.
  - inversion H; subst. exists []. repeat split; constructor.
  - destruct (chunk_at cs b) eqn:Ec.
    + apply IH in H. destruct H as [sk [E [F Hn]]]. exists (b :: sk).
      split; [rewrite E; reflexivity|]. split; [constructor; assumption | exact Hn].
    + inversion H; subst. exists []. split; [reflexivity|]. split; [constructor | discriminate].
Qed.

Lemma next_nonempty_length : forall cs bs nx rs,
  next_nonempty cs bs = (nx, rs) -> nx = None \/ (length rs < length bs)%nat.
Proof.
  intros cs bs nx rs H. apply next_nonempty_spec in H. destruct H as [sk [E _]].
  destruct nx as [b|]; [right | left; reflexivity].
  rewrite E. rewrite !app_length. cbn. lia.
Qed.

Lemma skipn_hit : forall {A} (pre mid: list A) x tail,
  skipn (S (length pre + length mid)) (pre ++ mid ++ x :: tail) = tail.
Proof.
  intros A pre mid x tail.
  assert (E: S (length pre + length mid) = length ((pre ++ mid) ++ [x]))
    by (rewrite !app_length; cbn; lia).
  rewrite E. rewrite (app_assoc pre mid (x :: tail)), (app_cons_assoc (pre ++ mid) x tail).
  apply skipn_app_len.
Qed.

Lemma firstn_hit : forall {A} (pre mid: list A) x tail,
  firstn (S (length pre + length mid)) (pre ++ mid ++ x :: tail) = pre ++ mid ++ [x].
Proof.
  intros A pre mid x tail.
  assert (E: S (length pre + length mid) = length ((pre ++ mid) ++ [x]))
    by (rewrite !app_length; cbn; lia).
  rewrite E. rewrite (app_assoc pre mid (x :: tail)), (app_cons_assoc (pre ++ mid) x tail).
  rewrite firstn_app_len.
  rewrite <- app_assoc. reflexivity.
Qed.

Section Iter.
  Variable t : Z.
  Variable qm : N.
  Variable bq : list N.
  Hypothesis bq_nodup : NoDup bq.

  Definition pend_at (cs: list (list copy)) (q: N) : list sval :=
    map fst (filter (rep t qm q) (chunk_at cs q)).

  Definition pend' (cs: list (list copy)) (o: option N) (i: nat) (rs: list N) : list sval :=
    match o with
    | None => []
    | Some p => map fst (filter (rep t qm p) (skipn i (chunk_at cs p)))
    end ++ flat_map (pend_at cs) rs.
  Definition pend (cs: list (list copy)) (it: iter) : list sval :=
    pend' cs (i0 it) (i1 it) (rest it).

  Definition all_live (c: list copy) : Prop := Forall (fun x => live t x = true) c.

  Definition purge_step (cs cs': list (list copy)) : Prop :=
    length cs' = length cs /\
    forall q, exists dead,
      Permutation (chunk_at cs q) (chunk_at cs' q ++ dead) /\ Forall (deadP t) dead.

  Definition ok (cs: list (list copy)) (it: iter) : Prop :=
    qmask it = qm /\ itime it = t /\ (i0 it = None -> rest it = []) /\
    exists pre, bq = pre ++ cur_list (i0 it) ++ rest it /\
      Forall (fun q => all_live (chunk_at cs q)) pre /\
      (forall p, i0 it = Some p -> all_live (firstn (i1 it) (chunk_at cs p))).

  Lemma purge_refl : forall cs, purge_step cs cs.
  Proof.
    intros cs. split; [reflexivity|]. intros q. exists [].
    split; [rewrite app_nil_r; apply Permutation_refl | constructor].
  Qed.

  Lemma purge_trans : forall cs cs1 cs2, purge_step cs cs1 -> purge_step cs1 cs2 -> purge_step cs cs2.
  Proof.
    intros cs cs1 cs2 [L1 H1] [L2 H2]. split; [congruence|]. intros q.
    destruct (H1 q) as [d1 [P1 F1]]. destruct (H2 q) as [d2 [P2 F2]].
    exists (d2 ++ d1). split.
    - eapply Permutation_trans; [exact P1|]. rewrite app_assoc.
      apply Permutation_app_tail. exact P2.
    - apply Forall_app. split; assumption.
  Qed.

  Lemma purge_upd : forall cs p c' dead, (N.to_nat p < length cs)%nat ->
    Permutation (chunk_at cs p) (c' ++ dead) -> Forall (deadP t) dead ->
    purge_step cs (upd cs (N.to_nat p) (fun _ => c')).
  Proof.
    intros cs p c' dead Hp P F. split; [apply upd_length|]. intros q.
    destruct (N.eq_dec p q) as [E | E].
    - subst q. rewrite chunk_at_upd_same by exact Hp. exists dead. split; assumption.
    - rewrite chunk_at_upd_other by exact E. exists [].
      split; [rewrite app_nil_r; apply Permutation_refl | constructor].
  Qed.

  Lemma purge_in : forall cs cs' q x, purge_step cs cs' -> In x (chunk_at cs' q) -> In x (chunk_at cs q).
  Proof.
    intros cs cs' q x [_ H] Hin. destruct (H q) as [dead [P _]].
    eapply Permutation_in; [apply Permutation_sym; exact P|]. apply in_or_app. left. exact Hin.
  Qed.

  Lemma purge_live : forall cs cs' q, purge_step cs cs' ->
    all_live (chunk_at cs q) -> all_live (chunk_at cs' q).
  Proof.
    intros cs cs' q Hp Hl. unfold all_live in *. rewrite Forall_forall in *.
    intros x Hx. apply Hl. eapply purge_in; eassumption.
  Qed.

  Lemma pend_rest_upd : forall cs p f rs, ~ In p rs ->
    flat_map (pend_at (upd cs (N.to_nat p) f)) rs = flat_map (pend_at cs) rs.
  Proof.
    intros cs p f rs Hn. apply flat_map_ext_in'. intros q Hq. unfold pend_at.
    rewrite chunk_at_upd_other; [reflexivity|]. intro E. subst. contradiction.
  Qed.

  Lemma next_eq : forall fuel cs it,
    next fuel cs it =
    match i0 it with
    | None => Ret (cs, it, None)
    | Some p =>
      if N.leb (N.of_nat (length cs)) p then Ret (cs, it, None) else
      let c := chunk_at cs p in
      bind (scan (length c) c (i1 it) p (qmask it) (itime it)) (fun cr =>
      let cs' := upd cs (N.to_nat p) (fun _ => fst cr) in
      match snd cr with
      | Some (v, i') => Ret (cs', set_iter it (Some p) i' (rest it), Some v)
      | None =>
        match fuel with
        | O => Err ErrFuel
        | S f => let '(nx, rs) := next_nonempty cs' (rest it) in next f cs' (set_iter it nx O rs)
        end
      end)
    end.
  Proof. intros fuel cs it. destruct fuel; reflexivity. Qed.

  Definition next_P (fuel: nat) : Prop :=
    forall cs it cs' it' r,
    (forall q, In q bq -> (N.to_nat q < length cs)%nat) ->
    ok cs it -> next fuel cs it = Ret (cs', it', r) ->
    ok cs' it' /\ purge_step cs cs' /\
    match r with
    | Some v => Permutation (pend cs it) (v :: pend cs' it')
    | None => pend cs it = [] /\ i0 it' = None
    end.

  Lemma next_spec_step : forall fuel, (forall f, fuel = S f -> next_P f) -> next_P fuel.
  Proof.
    intros fuel IH cs it cs' it' r Hlen Hok H. rewrite next_eq in H.
    pose proof Hok as Hok0.
    destruct Hok as [Hq [Ht [Hnone [pre [Ebq [Hpre Hcur]]]]]].
    destruct (i0 it) as [p|] eqn:E0.
    2: { inversion H; subst cs' it' r. split; [exact Hok0|]. split; [apply purge_refl|].
         split; [|exact E0]. unfold pend, pend'. rewrite E0. rewrite (Hnone eq_refl). reflexivity. }
    cbn [cur_list app] in Ebq.
    assert (Hp: In p bq) by (rewrite Ebq; apply in_or_app; right; left; reflexivity).
    pose proof (Hlen p Hp) as Hpl.
    assert (Hleb: N.leb (N.of_nat (length cs)) p = false) by (apply N.leb_gt; lia).
    rewrite Hleb in H. cbv zeta in H. rewrite Hq, Ht in H.
    assert (Hnd: ~ In p (pre ++ rest it)).
    { apply NoDup_remove_2. rewrite <- Ebq. exact bq_nodup. }
    assert (Hnpre: ~ In p pre) by (intro X; apply Hnd; apply in_or_app; left; exact X).
    assert (Hnrest: ~ In p (rest it)) by (intro X; apply Hnd; apply in_or_app; right; exact X).
    destruct (scan (length (chunk_at cs p)) (chunk_at cs p) (i1 it) p qm t) as [[c' sr]|e] eqn:Es;
      [|discriminate].
    apply scan_spec_gen in Es.
    assert (Hpre': forall c2, Forall (fun q => all_live (chunk_at (upd cs (N.to_nat p) (fun _ => c2)) q)) pre).
    { intros c2. rewrite Forall_forall in *. intros q Hq'. rewrite chunk_at_upd_other.
      - apply Hpre. exact Hq'.
      - intro E. subst q. contradiction. }
    destruct sr as [[v i']|]; cbn [bind fst snd] in H.
    - (* a value is reported *)
      inversion H; subst cs' it' r. clear H.
      destruct Es as [mid [m [tail [dead [Ec' [Ei' [P [Fm [R Fd]]]]]]]]].
      split; [|split].
      + unfold ok. cbn [set_iter qmask itime i0 i1 rest].
        split; [exact Hq|]. split; [exact Ht|]. split; [discriminate|].
        exists pre. split; [exact Ebq|]. split; [apply Hpre'|].
        intros p' Ep'. inversion Ep'; subst p'.
        rewrite chunk_at_upd_same by exact Hpl. rewrite Ec', Ei', firstn_hit.
        apply Forall_app. split; [apply Hcur; reflexivity|].
        apply Forall_app. split.
        * eapply Forall_impl; [|exact Fm]. intros x [Hx _]. exact Hx.
        * constructor; [|constructor]. eapply rep_live. exact R.
      + apply purge_upd with (dead := dead); [exact Hpl | | exact Fd].
        rewrite <- (firstn_skipn (i1 it) (chunk_at cs p)) at 1. rewrite Ec'.
        rewrite <- app_assoc. apply Permutation_app_head.
        rewrite <- app_assoc. cbn [app]. exact P.
      + unfold pend, pend'. cbn [set_iter i0 i1 rest]. rewrite E0.
        rewrite chunk_at_upd_same by exact Hpl. rewrite pend_rest_upd by exact Hnrest.
        rewrite Ec', Ei', skipn_hit.
        change (v :: map fst (filter (rep t qm p) tail) ++ flat_map (pend_at cs) (rest it))
          with ((v :: map fst (filter (rep t qm p) tail)) ++ flat_map (pend_at cs) (rest it)).
        apply Permutation_app_tail.
        apply (Permutation_filter' (rep t qm p)) in P.
        rewrite filter_app in P. rewrite (filter_rep_skip t qm p mid Fm) in P.
        cbn [app filter] in P. rewrite R in P. rewrite filter_app in P.
        rewrite (filter_rep_dead t qm p dead Fd) in P. rewrite app_nil_r in P.
        apply (Permutation_map fst) in P. exact P.
    - (* the chunk is exhausted: move to the next non-empty visited place *)
      destruct Es as [mid [dead [Ec' [P [Fm Fd]]]]].
      destruct fuel as [|f]; [discriminate|].
      specialize (IH f eq_refl).
      remember (upd cs (N.to_nat p) (fun _ => c')) as cs1 eqn:Ecs1.
      destruct (next_nonempty cs1 (rest it)) as [nx rs] eqn:En.
      apply next_nonempty_spec in En. destruct En as [sk [Er [Fsk Hn]]].
      assert (Hc1: chunk_at cs1 p = c') by (rewrite Ecs1; apply chunk_at_upd_same; exact Hpl).
      assert (Hpur: purge_step cs cs1).
      { rewrite Ecs1. apply purge_upd with (dead := dead); [exact Hpl | | exact Fd].
        rewrite <- (firstn_skipn (i1 it) (chunk_at cs p)) at 1. rewrite Ec'.
        rewrite <- app_assoc. apply Permutation_app_head. exact P. }
      assert (Hok1: ok cs1 (set_iter it nx O rs)).
      { unfold ok. cbn [set_iter qmask itime i0 i1 rest].
        split; [exact Hq|]. split; [exact Ht|]. split; [exact Hn|].
        exists (pre ++ [p] ++ sk). split; [|split].
        - rewrite Ebq, Er. rewrite <- !app_assoc. reflexivity.
        - apply Forall_app. split; [rewrite Ecs1; apply Hpre'|].
          apply Forall_app. split.
          + constructor; [|constructor]. rewrite Hc1, Ec'.
            apply Forall_app. split; [apply Hcur; reflexivity|].
            eapply Forall_impl; [|exact Fm]. intros x [Hx _]. exact Hx.
          + eapply Forall_impl; [|exact Fsk]. intros q Eq. cbv beta in Eq. rewrite Eq. constructor.
        - intros p' _. cbn [firstn]. constructor. }
      assert (Hlen1: forall q, In q bq -> (N.to_nat q < length cs1)%nat).
      { intros q Hq'. rewrite Ecs1, upd_length. apply Hlen. exact Hq'. }
      assert (Epend: pend cs it = pend cs1 (set_iter it nx O rs)).
      { unfold pend, pend'. cbn [set_iter i0 i1 rest]. rewrite E0.
        assert (E1: filter (rep t qm p) (skipn (i1 it) (chunk_at cs p)) = []).
        { apply Permutation_nil. apply Permutation_sym.
          apply (Permutation_filter' (rep t qm p)) in P.
          rewrite filter_app in P. rewrite (filter_rep_skip t qm p mid Fm) in P.
          rewrite (filter_rep_dead t qm p dead Fd) in P. exact P. }
        rewrite E1. cbn [map app].
        rewrite <- (pend_rest_upd cs p (fun _ => c') (rest it) Hnrest). rewrite <- Ecs1.
        rewrite Er. rewrite !flat_map_app.
        rewrite (flat_map_nil (pend_at cs1) sk).
        2: { intros q Hq'. rewrite Forall_forall in Fsk. unfold pend_at. rewrite (Fsk q Hq'). reflexivity. }
        cbn [app]. destruct nx as [b|]; cbn [cur_list flat_map app skipn].
        - rewrite app_nil_r. reflexivity.
        - reflexivity. }
      destruct (IH cs1 (set_iter it nx O rs) cs' it' r Hlen1 Hok1 H) as [Hok' [Hpur' Hr]].
      split; [exact Hok'|]. split; [eapply purge_trans; eassumption|].
      rewrite Epend. exact Hr.
  Qed.

  Lemma next_spec : forall fuel, next_P fuel.
  Proof.
    induction fuel as [|f IH]; apply next_spec_step; intros f' E.
    - discriminate.
    - inversion E; subst. exact IH.
  Qed.

  Lemma next_total : forall fuel cs it,
    i0 it = None \/ (S (length (rest it)) <= fuel)%nat -> exists res, next fuel cs it = Ret res.
  Proof.
    induction fuel as [|f IH]; intros cs it Hf; rewrite next_eq.
    - destruct (i0 it) as [p|]; [|eexists; reflexivity].
      destruct Hf as [Hf | Hf]; [discriminate | lia].
    - destruct (i0 it) as [p|]; [|eexists; reflexivity].
      destruct (N.leb (N.of_nat (length cs)) p); [eexists; reflexivity|]. cbv zeta.
      destruct (scan_total_gen (itime it) (qmask it) p (chunk_at cs p) (i1 it)) as [[c' sr] Es].
      rewrite Es. cbn [bind fst snd].
      destruct sr as [[v i']|]; [eexists; reflexivity|].
      destruct (next_nonempty (upd cs (N.to_nat p) (fun _ => c')) (rest it)) as [nx rs] eqn:En.
      apply next_nonempty_length in En. apply IH. cbn [set_iter i0 rest].
      destruct En as [En | En]; [left; exact En | right].
      destruct Hf as [Hf | Hf]; [discriminate | lia].
  Qed.

  Lemma ok_done : forall cs it, ok cs it -> i0 it = None ->
    Forall (fun q => all_live (chunk_at cs q)) bq.
  Proof.
    intros cs it [_ [_ [Hn [pre [E [F _]]]]]] E0.
    rewrite E, E0, (Hn E0). cbn [cur_list app]. rewrite app_nil_r. exact F.
  Qed.

  Lemma take_n_spec : forall n cs it cs' out,
    (forall q, In q bq -> (N.to_nat q < length cs)%nat) ->
    ok cs it -> take_n n cs it = Ret (cs', out) ->
    exists pr, Permutation (pend cs it) (out ++ pr) /\ purge_step cs cs' /\
      (length out = n \/
       ((length out < n)%nat /\ pr = [] /\ Forall (fun q => all_live (chunk_at cs' q)) bq)).
  Proof.
    induction n as [|n IH]; intros cs it cs' out Hlen Hok H; cbn [take_n] in H.
    - inversion H; subst. exists (pend cs' it). split; [apply Permutation_refl|].
      split; [apply purge_refl | left; reflexivity].
    - destruct (next (next_fuel it) cs it) as [[[cs1 it1] r]|e] eqn:En; [|discriminate].
      cbn [bind fst snd] in H.
      destruct (next_spec _ _ _ _ _ _ Hlen Hok En) as [Hok1 [Hp1 Hr]].
      destruct r as [v|].
      + destruct (take_n n cs1 it1) as [[cs2 out2]|e] eqn:Et; [|discriminate].
        cbn [bind fst snd] in H. inversion H; subst cs' out. clear H.
        assert (Hlen1: forall q, In q bq -> (N.to_nat q < length cs1)%nat).
        { intros q Hq'. destruct Hp1 as [L1 _]. rewrite L1. apply Hlen. exact Hq'. }
        destruct (IH _ _ _ _ Hlen1 Hok1 Et) as [pr [P2 [Hp2 Hl]]].
        exists pr. split; [|split].
        * eapply Permutation_trans; [exact Hr|]. cbn [app]. constructor. exact P2.
        * eapply purge_trans; eassumption.
        * cbn [length]. destruct Hl as [Hl | [Hl1 [Hl2 Hl3]]].
          -- left. lia.
          -- right. split; [lia|]. split; assumption.
      + inversion H; subst cs' out. clear H. destruct Hr as [Hr E0].
        exists []. split; [rewrite Hr; apply Permutation_refl|]. split; [exact Hp1|].
        right. split; [cbn; lia|]. split; [reflexivity|]. eapply ok_done; eassumption.
  Qed.

  Lemma take_n_total : forall n cs it,
    (forall q, In q bq -> (N.to_nat q < length cs)%nat) ->
    ok cs it -> exists res, take_n n cs it = Ret res.
  Proof.
    induction n as [|n IH]; intros cs it Hlen Hok; cbn [take_n].
    - eexists; reflexivity.
    - destruct (next_total (next_fuel it) cs it) as [[[cs1 it1] r] En].
      { right. unfold next_fuel. lia. }
      rewrite En. cbn [bind fst snd].
      destruct (next_spec _ _ _ _ _ _ Hlen Hok En) as [Hok1 [Hp1 Hr]].
      destruct r as [v|]; [|eexists; reflexivity].
      assert (Hlen1: forall q, In q bq -> (N.to_nat q < length cs1)%nat).
      { intros q Hq'. destruct Hp1 as [L1 _]. rewrite L1. apply Hlen. exact Hq'. }
      destruct (IH cs1 it1 Hlen1 Hok1) as [[cs2 out2] Et].
      rewrite Et. cbn [bind fst snd]. eexists; reflexivity.
  Qed.
End Iter.
