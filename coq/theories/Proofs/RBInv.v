(** * Red-black validity (root colour free) of insertion and removal; removal is never Stuck. *)
From Coq Require Import List NArith ZArith Bool Lia.
Import ListNotations.
Require Import ITree.Model.RBTree.

Section Inv.
Variable ent : Type.
Variable key_of : ent -> Z.
Notation tree := (tree ent).

Definition cb (c: color) : nat := match c with Black => 1 | Red => 0 end.
Fixpoint bh (t: tree) : nat := match t with E => 0 | T c l _ _ _ => bh l + cb c end.
Definition blk (t: tree) : Prop := is_black ent t = true.
Definition redn (t: tree) : Prop := is_red_node ent t = true.

Inductive rbi : tree -> Prop :=
| rbi_E : rbi E
| rbi_B l s e r : rbi l -> rbi r -> bh l = bh r -> rbi (T Black l s e r)
| rbi_R l s e r : rbi l -> rbi r -> bh l = bh r -> blk l -> blk r -> rbi (T Red l s e r).
Hint Constructors rbi : core.

Lemma rbi_inv c l s e r : rbi (T c l s e r) -> rbi l /\ rbi r /\ bh l = bh r /\ (c = Red -> blk l /\ blk r).
Proof. inversion 1; subst; repeat split; auto; discriminate. Qed.

Lemma rbi_T c l s e r : rbi l -> rbi r -> bh l = bh r -> (c = Red -> blk l /\ blk r) -> rbi (T c l s e r).
Proof. intros. destruct c; [destruct H2; auto|]; auto. Qed.

Lemma paint_black_rbi t : rbi t -> rbi (paint ent Black t).
Proof. destruct t as [|c l s e r]; simpl; auto. intros H. apply rbi_inv in H. destruct H as (?&?&?&?). auto. Qed.

Lemma blk_E : blk E. Proof. reflexivity. Qed.
Lemma blk_B l s e r : blk (T Black l s e r). Proof. reflexivity. Qed.
Lemma blk_paint t : blk (paint ent Black t). Proof. destruct t; reflexivity. Qed.
Hint Resolve blk_E blk_B blk_paint paint_black_rbi : core.

Lemma blk_not_red t : blk t -> redn t -> False.
Proof. destruct t as [|[] ? ? ? ?]; unfold blk, redn; simpl; congruence. Qed.

Lemma bh_paint_red t : redn t -> bh (paint ent Black t) = bh t + 1.
Proof. destruct t as [|[] l s e r]; unfold redn; simpl; try discriminate; lia. Qed.
Lemma bh_paint_blk t : blk t -> t <> E -> bh (paint ent Black t) = bh t.
Proof. destruct t as [|[] l s e r]; unfold blk; simpl; try discriminate; congruence. Qed.

Ltac inv_rbi :=
  repeat match goal with
  | H : rbi (T _ _ _ _ _) |- _ => apply rbi_inv in H; destruct H as (?&?&?&?)
  end.
Ltac use_red :=
  repeat match goal with
  | H : Red = Red -> _ |- _ => specialize (H eq_refl); destruct H
  | H : Black = Red -> _ |- _ => clear H
  end.
Ltac rb := repeat (assumption || apply rbi_T || split); simpl in *; auto; try lia; try discriminate; try reflexivity.

(* ---------------- delete repair ---------------- *)
Definition post_fix (c: color) (m: nat) (res: option (tree * bool)) : Prop :=
  exists t' d, res = Some (t', d) /\ rbi t' /\
     bh t' = (if d then m + 1 else m + 1 + cb c) /\
     (d = true -> c = Black) /\ (c = Black -> blk t').

Lemma fixL36_rb c l s e r :
  rbi l -> rbi r -> bh r = bh l + 1 -> blk r -> post_fix c (bh l) (fixL36 ent c l s e r).
Proof.
  intros Hl Hr Hb Hk. unfold post_fix, fixL36.
  destruct r as [|[] sl ss se sr]; [simpl in Hb; lia | discriminate Hk |].
  inv_rbi. use_red.
  destruct sl as [|[] sll sls sle slr]; destruct sr as [|[] srl srs sre srr]; simpl;
    inv_rbi; use_red; eexists _, _; (split; [reflexivity|]); destruct c; rb.
Qed.

Lemma fixR36_rb c l s e r :
  rbi l -> rbi r -> bh l = bh r + 1 -> blk l -> post_fix c (bh r) (fixR36 ent c l s e r).
Proof.
  intros Hl Hr Hb Hk. unfold post_fix, fixR36.
  destruct l as [|[] sl ss se sr]; [simpl in Hb; lia | discriminate Hk |].
  inv_rbi. use_red.
  destruct sl as [|[] sll sls sle slr]; destruct sr as [|[] srl srs sre srr]; simpl;
    inv_rbi; use_red; eexists _, _; (split; [reflexivity|]); destruct c; rb.
Qed.

Lemma fixL_rb c l s e r :
  rbi l -> rbi r -> bh r = bh l + 1 -> (c = Red -> blk r) -> post_fix c (bh l) (fixL ent c l s e r).
Proof.
  intros Hl Hr Hb Hc. unfold fixL.
  destruct r as [|[] sl ss se sr]; [simpl in Hb; lia | | apply fixL36_rb; auto].
  (* red sibling: c must be black *)
  destruct c; [specialize (Hc eq_refl); discriminate Hc|].
  inv_rbi. use_red. simpl in Hb.
  destruct (fixL36_rb Red l s e sl) as (inner & d & Hi & Hri & Hbi & Hd & _); auto; try lia.
  rewrite Hi. unfold post_fix. destruct d; [specialize (Hd eq_refl); discriminate|].
  eexists _, _. split; [reflexivity|]. simpl in Hbi. rb.
Qed.

Lemma fixR_rb c l s e r :
  rbi l -> rbi r -> bh l = bh r + 1 -> (c = Red -> blk l) -> post_fix c (bh r) (fixR ent c l s e r).
Proof.
  intros Hl Hr Hb Hc. unfold fixR.
  destruct l as [|[] sl ss se sr]; [simpl in Hb; lia | | apply fixR36_rb; auto].
  destruct c; [specialize (Hc eq_refl); discriminate Hc|].
  inv_rbi. use_red. simpl in Hb.
  destruct (fixR36_rb Red sr s e r) as (inner & d & Hi & Hri & Hbi & Hd & _); auto; try lia.
  rewrite Hi. unfold post_fix. destruct d; [specialize (Hd eq_refl); discriminate|].
  eexists _, _. split; [reflexivity|]. simpl in Hbi. rb.
Qed.

(* ---------------- delete ---------------- *)
Lemma one_child_left c l s e : rbi (T c l s e E) -> l <> E -> c = Black /\ bh l = 0.
Proof.
  intros H Hne. inv_rbi. simpl in *. destruct l as [|[] ll ls le lr]; [congruence| |simpl in *; lia].
  destruct c; [|auto]. use_red. discriminate.
Qed.
Lemma one_child_right c s e r : rbi (T c E s e r) -> r <> E -> c = Black /\ bh r = 0.
Proof.
  intros H Hne. inv_rbi. simpl in *. destruct r as [|[] ll ls le lr]; [congruence| |simpl in *; lia].
  destruct c; [|auto]. use_red. discriminate.
Qed.

Definition post_del (t t': tree) (d: bool) : Prop :=
  rbi t' /\ bh t' + (if d then 1 else 0) = bh t /\ (d = false -> blk t -> blk t').

Lemma del_min_node c lc ll ls le lr s e r :
  del_min ent (T c (T lc ll ls le lr) s e r) =
  match del_min ent (T lc ll ls le lr) with
  | None => None
  | Some (l', d, ms, me) =>
    if d then match fixL ent c l' s e r with
              | None => None
              | Some (t', d') => Some (t', d', ms, me)
              end
    else Some (T c l' s e r, false, ms, me)
  end.
Proof. reflexivity. Qed.

Lemma del_min_rb t : rbi t -> t <> E ->
  exists t' d ms me, del_min ent t = Some (t', d, ms, me) /\ post_del t t' d.
Proof.
  induction t as [|c l IHl s e r _]; intros Hr Hne; [congruence|].
  destruct l as [|lc ll ls le lr].
  - simpl. destruct r as [|rc rl rs re rr].
    + exists E, (color_eqb c Black), s, e. split; [reflexivity|]. unfold post_del. destruct c; rb.
    + destruct (one_child_right _ _ _ _ Hr) as [-> Hb]; [congruence|].
      eexists _, true, s, e. split; [reflexivity|]. apply rbi_inv in Hr. destruct Hr as (?&?&?&?). unfold post_del. rb.
  - remember (T lc ll ls le lr) as Lt. assert (HLne: Lt <> E) by (subst; congruence).
    apply rbi_inv in Hr. destruct Hr as (H & H0 & H1 & H2).
    destruct (IHl H HLne) as (l' & dl & ms & me & Hm & Hl' & Hbl & Hkl).
    subst Lt. rewrite del_min_node. remember (T lc ll ls le lr) as Lt.
    rewrite Hm. destruct dl.
    + destruct (fixL_rb c l' s e r) as (t' & d & Hf & Hrt & Hbt & Hd & Hk); auto; try lia.
      { intros ->. use_red. auto. }
      rewrite Hf. exists t', d, ms, me. split; [reflexivity|]. unfold post_del. split; auto. split.
      * rewrite Hbt. simpl. destruct d; [rewrite (Hd eq_refl); simpl|]; lia.
      * intros -> Hb. destruct c; [discriminate Hb|auto].
    + exists (T c l' s e r), false, ms, me. split; [reflexivity|]. unfold post_del. split; [|split].
      * apply rbi_T; auto; try lia. intros ->. use_red. auto.
      * simpl. lia.
      * intros _ Hb. exact Hb.
Qed.

Lemma del_rb t x : rbi t ->
  match del ent t x with
  | NotFound => True
  | Stuck => False
  | Done t' d f => post_del t t' d
  end.
Proof.
  induction t as [|c l IHl s e r IHr]; intros Hr; [exact I|].
  simpl. destruct (N.eqb s x).
  - destruct l as [|lc ll ls le lr], r as [|rc rl rs re rr].
    + unfold post_del. destruct c; rb.
    + destruct (one_child_right _ _ _ _ Hr) as [-> Hb]; [congruence|]. apply rbi_inv in Hr. destruct Hr as (?&?&?&?). unfold post_del. rb.
    + destruct (one_child_left _ _ _ _ Hr) as [-> Hb]; [congruence|]. apply rbi_inv in Hr. destruct Hr as (?&?&?&?). unfold post_del. rb.
    + remember (T lc ll ls le lr) as Lt. remember (T rc rl rs re rr) as Rt.
      assert (HRne: Rt <> E) by (subst; congruence).
      inv_rbi.
      destruct (del_min_rb Rt) as (r' & dr & ms & me & Hm & Hr' & Hbr & Hkr); auto.
      rewrite Hm. destruct dr.
      * destruct (fixR_rb c Lt s me r') as (t' & d & Hf & Hrt & Hbt & Hd & Hk); auto; try lia.
        { intros ->. use_red. auto. }
        rewrite Hf. unfold post_del. split; auto. split.
        -- rewrite Hbt. simpl. destruct d; [rewrite (Hd eq_refl); simpl|]; lia.
        -- intros -> Hb. destruct c; [discriminate Hb|auto].
      * unfold post_del. split; [|split].
        -- apply rbi_T; auto; try lia. intros ->. use_red. auto.
        -- simpl. lia.
        -- intros _ Hb. exact Hb.
  - pose proof Hr as Hr0. inv_rbi.
    specialize (IHl H). destruct (del ent l x) as [| |l' dl f].
    + specialize (IHr H0). destruct (del ent r x) as [| |r' dr f]; auto.
      destruct IHr as (Hr' & Hbr & Hkr). destruct dr.
      * destruct (fixR_rb c l s e r') as (t' & d & Hf & Hrt & Hbt & Hd & Hk); auto; try lia.
        { intros ->. use_red. auto. }
        rewrite Hf. unfold post_del. split; auto. split.
        -- rewrite Hbt. simpl. destruct d; [rewrite (Hd eq_refl); simpl|]; lia.
        -- intros -> Hb. destruct c; [discriminate Hb|auto].
      * unfold post_del. split; [|split].
        -- apply rbi_T; auto; try lia. intros ->. use_red. auto.
        -- simpl. lia.
        -- intros _ Hb. exact Hb.
    + exact IHl.
    + destruct IHl as (Hl' & Hbl & Hkl). destruct dl.
      * destruct (fixL_rb c l' s e r) as (t' & d & Hf & Hrt & Hbt & Hd & Hk); auto; try lia.
        { intros ->. use_red. auto. }
        rewrite Hf. unfold post_del. split; auto. split.
        -- rewrite Hbt. simpl. destruct d; [rewrite (Hd eq_refl); simpl|]; lia.
        -- intros -> Hb. destruct c; [discriminate Hb|auto].
      * unfold post_del. split; [|split].
        -- apply rbi_T; auto; try lia. intros ->. use_red. auto.
        -- simpl. lia.
        -- intros _ Hb. exact Hb.
Qed.

(* ---------------- insert ---------------- *)
Definition post_ins (t t': tree) (st: status) : Prop :=
  bh t' = bh t /\
  match st with
  | Ok => rbi t' /\ (blk t -> blk t')
  | NewRed => rbi t' /\ redn t'
  | RedRed d => exists a s e b, t' = T Red a s e b /\ rbi a /\ rbi b /\ bh a = bh b /\ redn t /\
                 match d with L => redn a /\ blk b | R => blk a /\ redn b end
  end.

Lemma redn_blk_false t : redn t -> blk t -> False.
Proof. intros; eapply blk_not_red; eauto. Qed.

Lemma redn_inv t : redn t -> exists l s e r, t = T Red l s e r.
Proof. destruct t as [|[] l s e r]; unfold redn; simpl; try discriminate. eauto. Qed.

Lemma not_redn_blk t : is_red_node ent t = false -> blk t.
Proof. destruct t as [|[] ? ? ? ?]; unfold blk; simpl; congruence. Qed.

Lemma fix_ins_left_rb c p gs ge u d2 pl ps pe pr :
  p = T Red pl ps pe pr -> rbi pl -> rbi pr -> bh pl = bh pr ->
  match d2 with L => redn pl /\ blk pr | R => blk pl /\ redn pr end ->
  rbi u -> bh u = bh p -> c = Black ->
  let '(t', st) := fix_ins_left ent c p gs ge u d2 in
  bh t' = bh p + 1 /\ match st with Ok => rbi t' /\ blk t' | NewRed => rbi t' /\ redn t' | RedRed _ => False end.
Proof.
  intros -> Hpl Hpr Hb Hd Hu Hbu ->. unfold fix_ins_left.
  destruct (is_red_node ent u) eqn:Hru.
  - simpl. destruct (redn_inv u Hru) as (ul & us & ue & ur & ->). inv_rbi. use_red. simpl in *. rb.
  - apply not_redn_blk in Hru. destruct d2.
    + destruct Hd as [Hra Hkb]. simpl in *. rb.
    + destruct Hd as [Hka Hrb]. destruct (redn_inv pr Hrb) as (nl & ns & ne & nr & ->).
      inv_rbi. use_red. simpl in *. rb.
Qed.

Lemma fix_ins_right_rb c p gs ge u d2 pl ps pe pr :
  p = T Red pl ps pe pr -> rbi pl -> rbi pr -> bh pl = bh pr ->
  match d2 with L => redn pl /\ blk pr | R => blk pl /\ redn pr end ->
  rbi u -> bh u = bh p -> c = Black ->
  let '(t', st) := fix_ins_right ent c u gs ge p d2 in
  bh t' = bh p + 1 /\ match st with Ok => rbi t' /\ blk t' | NewRed => rbi t' /\ redn t' | RedRed _ => False end.
Proof.
  intros -> Hpl Hpr Hb Hd Hu Hbu ->. unfold fix_ins_right.
  destruct (is_red_node ent u) eqn:Hru.
  - simpl. destruct (redn_inv u Hru) as (ul & us & ue & ur & ->). inv_rbi. use_red. simpl in *. rb.
  - apply not_redn_blk in Hru. destruct d2.
    + destruct Hd as [Hra Hkb]. destruct (redn_inv pl Hra) as (nl & ns & ne & nr & ->).
      inv_rbi. use_red. simpl in *. rb.
    + destruct Hd as [Hka Hrb]. simpl in *. rb.
Qed.

Lemma up_left_rb c l l' s e r st : rbi (T c l s e r) -> post_ins l l' st ->
  let '(t', st') := up_left ent c l' s e r st in post_ins (T c l s e r) t' st'.
Proof.
  intros Hr [Hbl Hst]. apply rbi_inv in Hr. destruct Hr as (Hl & Hrr & Hb & Hc).
  destruct st; cbn [up_left].
  - destruct Hst as [Hl' Hk]. unfold post_ins. split; [simpl; lia|]. split.
    + apply rbi_T; auto; try lia. intros ->. destruct (Hc eq_refl). auto.
    + intros Hk0. exact Hk0.
  - destruct Hst as [Hl' Hred]. destruct c.
    + unfold post_ins. split; [simpl; lia|]. destruct (Hc eq_refl) as [Hkl Hkr].
      exists l', s, e, r. repeat split; auto; try lia.
    + unfold post_ins. split; [simpl; lia|]. split; auto. apply rbi_T; auto; try lia. discriminate.
  - destruct Hst as (a & ps & pe & b & -> & Ha & Hbb & Hab & Hrl & Hd).
    assert (c = Black) as ->.
    { destruct c; auto. destruct (Hc eq_refl) as [Hkl _]. exfalso. eapply redn_blk_false; eauto. }
    pose proof (fix_ins_left_rb Black (T Red a ps pe b) s e r d a ps pe b eq_refl Ha Hbb Hab Hd Hrr) as F.
    destruct (fix_ins_left ent Black (T Red a ps pe b) s e r d) as [t' st'].
    destruct F as [Fb Fs]; auto. { simpl in *. lia. }
    unfold post_ins. split. { simpl in *. lia. }
    destruct st'; [destruct Fs; split; auto | exact Fs | destruct Fs].
Qed.

Lemma up_right_rb c l s e r r' st : rbi (T c l s e r) -> post_ins r r' st ->
  let '(t', st') := up_right ent c l s e r' st in post_ins (T c l s e r) t' st'.
Proof.
  intros Hr [Hbl Hst]. apply rbi_inv in Hr. destruct Hr as (Hl & Hrr & Hb & Hc).
  destruct st; cbn [up_right].
  - destruct Hst as [Hl' Hk]. unfold post_ins. split; [simpl; lia|]. split.
    + apply rbi_T; auto; try lia. intros ->. destruct (Hc eq_refl). auto.
    + intros Hk0. exact Hk0.
  - destruct Hst as [Hl' Hred]. destruct c.
    + unfold post_ins. split; [simpl; lia|]. destruct (Hc eq_refl) as [Hkl Hkr].
      exists l, s, e, r'. repeat split; auto; try lia.
    + unfold post_ins. split; [simpl; lia|]. split; auto. apply rbi_T; auto; try lia. discriminate.
  - destruct Hst as (a & ps & pe & b & -> & Ha & Hbb & Hab & Hrl & Hd).
    assert (c = Black) as ->.
    { destruct c; auto. destruct (Hc eq_refl) as [_ Hkr]. exfalso. eapply redn_blk_false; eauto. }
    pose proof (fix_ins_right_rb Black (T Red a ps pe b) s e l d a ps pe b eq_refl Ha Hbb Hab Hd Hl) as F.
    destruct (fix_ins_right ent Black l s e (T Red a ps pe b) d) as [t' st'].
    destruct F as [Fb Fs]; auto. { simpl in *. lia. }
    unfold post_ins. split. { simpl in *. lia. }
    destruct st'; [destruct Fs; split; auto | exact Fs | destruct Fs].
Qed.

Lemma new_red_post ns ne : post_ins E (T Red E ns ne E) NewRed.
Proof. unfold post_ins. rb. Qed.

Lemma ins_rb t ns ne : rbi t -> let '(t', st) := ins ent key_of t ns ne in post_ins t t' st.
Proof.
  induction t as [|c l IHl s e r IHr]; intros Hr.
  - simpl. apply new_red_post.
  - pose proof Hr as Hr0. apply rbi_inv in Hr. destruct Hr as (Hl & Hrr & Hb & Hc).
    simpl. destruct (Z.ltb (key_of ne) (key_of e)).
    + specialize (IHl Hl). destruct (ins ent key_of l ns ne) as [l' st].
      apply (up_left_rb c l l' s e r st Hr0 IHl).
    + specialize (IHr Hrr). destruct (ins ent key_of r ns ne) as [r' st].
      apply (up_right_rb c l s e r r' st Hr0 IHr).
Qed.

Lemma ins_at_rb t p d ns ne : rbi t ->
  match ins_at ent t p d ns ne with
  | Some (t', st) => post_ins t t' st
  | None => True
  end.
Proof.
  induction t as [|c l IHl s e r IHr]; intros Hr; [exact I|].
  pose proof Hr as Hr0. apply rbi_inv in Hr. destruct Hr as (Hl & Hrr & Hb & Hc).
  simpl. destruct (N.eqb s p).
  - destruct d.
    + destruct l; [|exact I]. apply (up_left_rb c E _ s e r NewRed Hr0 (new_red_post ns ne)).
    + destruct l; (destruct r; [|exact I]);
        apply (up_right_rb c _ s e E _ NewRed Hr0 (new_red_post ns ne)).
  - specialize (IHl Hl). destruct (ins_at ent l p d ns ne) as [[l' st]|].
    + apply (up_left_rb c l l' s e r st Hr0 IHl).
    + specialize (IHr Hrr). destruct (ins_at ent r p d ns ne) as [[r' st]|]; [|exact I].
      apply (up_right_rb c l s e r r' st Hr0 IHr).
Qed.

Lemma finish_insert_rb t t' st : post_ins t t' st -> rbi (finish_insert ent (t', st)).
Proof.
  intros [Hb Hst]. unfold finish_insert. simpl. destruct st.
  - tauto.
  - tauto.
  - destruct Hst as (a & ps & pe & b & -> & Ha & Hbb & Hab & _). simpl. auto.
Qed.

Theorem insert_tree_rb t ns ne : rbi t -> rbi (insert_tree ent key_of t ns ne).
Proof.
  intros Hr. unfold insert_tree. destruct t as [|c l s e r]; [auto|].
  pose proof (ins_rb (T c l s e r) ns ne Hr) as H.
  destruct (ins ent key_of (T c l s e r) ns ne) as [t' st]. eapply finish_insert_rb; eauto.
Qed.

Theorem delete_rb t x t' d f : rbi t -> del ent t x = Done t' d f -> rbi t'.
Proof. intros Hr Hd. pose proof (del_rb t x Hr) as H. rewrite Hd in H. apply H. Qed.
Theorem delete_rb_total t x : rbi t ->
  match del ent t x with
  | NotFound => True
  | Stuck => False
  | Done t' d f => rbi t'
  end.
Proof. intros H. pose proof (del_rb t x H) as K. destruct (del ent t x); auto. apply K. Qed.
End Inv.
