(** * One step / one run of the whole KeyExpTree interface on the arena (Model/ArenaKeyRun.v) refines
    the step / run of the tree-level model (Model/KeyModel.v [k_step], [k_run]): same outputs, the new
    arena represents the new tree, the pools are equal, the invariant is kept. *)
From Coq Require Import List NArith ZArith Bool Lia Permutation Sorted.
Import ListNotations.
Require Import ITree.Model.Common ITree.Model.RBTree ITree.Model.Pool ITree.Model.MapModel ITree.Model.KeyModel.
Require Import ITree.Model.ArenaModel ITree.Model.ArenaDelete ITree.Model.ArenaKey ITree.Model.ArenaQuery
  ITree.Model.ArenaKeyRun.
Require Import ITree.Proofs.RBElems ITree.Proofs.RBInv ITree.Proofs.Subtree ITree.Proofs.TreeLookup ITree.Proofs.PoolProofs
  ITree.Proofs.KeyProofs.
Require Import ITree.Proofs.ArenaProofs ITree.Proofs.ArenaDeleteProofs ITree.Proofs.ArenaKeyProofs
  ITree.Proofs.ArenaQueryProofs.
Local Open Scope N_scope.

(* the contract of one operation: an inserted key is not the key of a live entry *)
Definition kop_contract (s: kstate) (o: kop) : Prop :=
  match o with
  | KIns k _ _ time => forall e0, In e0 (kents (kroot s)) -> live time e0 = true -> kk e0 <> k
  | _ => True
  end.

Lemma k_clear_inv s : KInv s -> KInv (k_clear s).
Proof.
  intros ((ND & Hrb & Hb) & Hp). unfold k_clear, KInv, TInv. cbn [kroot kpl].
  split; [split; [constructor|split; constructor]|].
  apply pool_put_all_wf. rewrite app_nil_r.
  eapply pool_wf_perm; [|exact Hp]. apply Permutation_sym. apply level_order_perm. exact kk.
Qed.

Theorem arena_k_step_refines (a: karena) (s: kstate) (o: kop) s' out evs fuel :
  KInv s -> Rep a EMPTY (aroot a) (kroot s) -> blen (kpl s) < EMPTY ->
  kop_contract s o ->
  (3 * KeyModel.ksize s + 3 < fuel)%nat ->
  k_step s o = Ret (s', out, evs) ->
  exists a', arena_k_step fuel (a, kpl s) o = Ret ((a', kpl s'), out) /\
             Rep a' EMPTY (aroot a') (kroot s') /\ KInv s'.
Proof.
  intros HI HR Hb Hc Hf Hstep. unfold KeyModel.ksize in Hf.
  assert (Hd: (ksize (kroot s) <= fuel)%nat) by lia.
  assert (He: (ksize (kroot s) < fuel)%nat) by lia.
  assert (Hs: (S (ksize (kroot s)) < fuel)%nat) by lia.
  assert (Hi: (2 * ksize (kroot s) + 2 <= fuel)%nat) by lia.
  assert (Q: forall q f time,
    bind (k_query q f s time) (fun x : kstate * option Z * list event =>
                     Ret (fst (fst x), KOVal (snd (fst x)), snd x)) = Ret (s', out, evs) ->
    exists a', bind (arena_query fuel fuel fuel q f (a, kpl s) time) (fun r => Ret (fst r, KOVal (snd r)))
                 = Ret ((a', kpl s'), out) /\
             Rep a' EMPTY (aroot a') (kroot s') /\ KInv s').
  { intros q f time H.
    destruct (k_query q f s time) as [[[s1 o1] evs1]|err] eqn:Hq; cbn [bind fst snd] in H; [|discriminate].
    inversion H; subst s' out evs.
    destruct (arena_query_refines q f time s a s1 o1 evs1 fuel fuel fuel HI HR Hd He Hs Hq) as (a' & Ha & HR' & HI' & _).
    exists a'. rewrite Ha. cbn [bind fst snd]. auto. }
  destruct o as [k e v time|time key|time key|time f|time key| | |time]; cbn [k_step arena_k_step fst snd] in *.
  - (* insert *)
    cbn [kop_contract] in Hc.
    set (ne := {| kk := k; kexp := e; kval := v |}) in *.
    destruct (k_insert s ne time) as [[s1 evs1]|err] eqn:Hk; cbn [bind fst snd] in Hstep; [|discriminate].
    inversion Hstep; subst s' out evs.
    destruct (k_insert_spec s ne time HI) as (s2 & evs2 & mid & Hk2 & HI2 & _).
    { intros e0 Hin Hl. subst ne. cbn [kk]. apply Hc; auto. }
    rewrite Hk in Hk2. inversion Hk2; subst s2 evs2.
    destruct (arena_k_insert_refines ne time s a s1 evs1 fuel fuel fuel fuel HI HR Hd He He Hi Hb Hk) as (a' & Ha & HR').
    exists a'. rewrite Ha. cbn [bind]. auto.
  - exact (Q QLess (cmp_to key) time Hstep).
  - exact (Q QLessEq (cmp_to key) time Hstep).
  - exact (Q QLessEq f time Hstep).
  - exact (Q QGet (cmp_to key) time Hstep).
  - (* is_empty *)
    inversion Hstep; subst s' out evs. exists a.
    rewrite (arena_is_empty_refines a (kroot s) HR). unfold k_is_empty. auto.
  - (* clear *)
    inversion Hstep; subst s' out evs.
    destruct (arena_k_clear a s fuel HR) as (a' & Ha & HR' & _).
    { pose proof (height_le_size (kroot s)). lia. }
    exists a'. rewrite Ha. cbn [bind]. split; [reflexivity|]. split; [exact HR'|]. apply k_clear_inv. exact HI.
  - (* export *)
    inversion Hstep; subst s' out evs. exists a.
    rewrite (arena_k_export a s time fuel HR) by (unfold KeyModel.ksize; lia). cbn [bind]. auto.
Qed.
Print Assumptions arena_k_step_refines.

(** histories: the side conditions of the step theorem along a run of the tree-level model (the buffer
    stays below EMPTY_REF slots, inserted keys are not keys of live entries, the fuel covers three times
    the number of stored entries) *)
Fixpoint krun_ok (fuel: nat) (s: kstate) (h: list kop) : Prop :=
  match h with
  | [] => True
  | o :: h' =>
    blen (kpl s) < EMPTY /\
    kop_contract s o /\
    (3 * KeyModel.ksize s + 3 < fuel)%nat /\
    (forall s' out evs, k_step s o = Ret (s', out, evs) -> krun_ok fuel s' h')
  end.

Theorem arena_k_run_refines fuel : forall (h: list kop) (a: karena) (s: kstate) s' outs,
  KInv s -> Rep a EMPTY (aroot a) (kroot s) -> krun_ok fuel s h ->
  k_run s h = Ret (s', outs) ->
  exists a', arena_k_run fuel (a, kpl s) h = Ret ((a', kpl s'), outs) /\
             Rep a' EMPTY (aroot a') (kroot s') /\ KInv s'.
Proof.
  induction h as [|o h IH]; intros a s s' outs HI HR Hok Hrun; cbn [k_run arena_k_run] in *.
  - inversion Hrun; subst s' outs. exists a. auto.
  - destruct Hok as (Hb & Hc & Hf & Hnext).
    destruct (k_step s o) as [[[s1 out] evs]|err] eqn:Hstep; cbn [bind fst snd] in Hrun; [|discriminate].
    destruct (k_run s1 h) as [[s2 outs2]|err] eqn:Hrun2; cbn [bind fst snd] in Hrun; [|discriminate].
    inversion Hrun; subst s' outs.
    destruct (arena_k_step_refines a s o s1 out evs fuel HI HR Hb Hc Hf Hstep) as (a1 & Ha1 & HR1 & HI1).
    destruct (IH a1 s1 s2 outs2 HI1 HR1 (Hnext s1 out evs eq_refl) Hrun2) as (a2 & Ha2 & HR2 & HI2).
    exists a2. rewrite Ha1. cbn [bind fst snd]. rewrite Ha2. cbn [bind fst snd]. auto.
Qed.
Print Assumptions arena_k_run_refines.

(** ** non-vacuity: [krun_ok] holds of a concrete history from [k_new 8]: three insertions, a search
    at a time when the root entry has expired (it is removed), an export, is_empty, clear, and an
    insertion into the cleared tree *)
Definition demo_hist : list kop :=
  [KIns 5 10 50 0; KIns 3 100 30 0; KIns 8 100 80 0; KLessEq 20 6; KExport 20; KIsEmpty; KClear;
   KIns 5 200 51 30; KGet 40 5].

Ltac kcontract :=
  cbn [kop_contract]; try exact I;
  let e0 := fresh "e0" in let Hin := fresh "Hin" in let Hl := fresh "Hl" in
  intros e0 Hin Hl; vm_compute in Hin;
  repeat (destruct Hin as [Hin|Hin]; [subst e0; vm_compute; discriminate|]); destruct Hin.

Ltac kstep :=
  cbn [krun_ok demo_hist];
  split; [vm_compute; reflexivity|];
  split; [kcontract|];
  split; [vm_compute; lia|];
  let s' := fresh "s" in let out := fresh "out" in let evs := fresh "evs" in let H := fresh "H" in
  intros s' out evs H; vm_compute in H; inversion H; subst s' out evs; clear H.

Example krun_ok_demo : krun_ok 16 (k_new 8) demo_hist.
Proof.
  unfold demo_hist. do 9 kstep. exact I.
Qed.

Example demo_run : exists s' , k_run (k_new 8) demo_hist =
  Ret (s', [KONone; KONone; KONone; KOVal (Some 30%Z); KOList [30%Z; 80%Z]; KOBool false; KONone; KONone; KOVal (Some 51%Z)]).
Proof. eexists. vm_compute. reflexivity. Qed.

(* the arena-level run from the empty arena gives the same outputs *)
Corollary demo_arena_run : forall a, Rep a EMPTY (aroot a) E ->
  exists a' p', arena_k_run 16 (a, kpl (k_new 8)) demo_hist =
  Ret ((a', p'), [KONone; KONone; KONone; KOVal (Some 30%Z); KOList [30%Z; 80%Z]; KOBool false; KONone; KONone; KOVal (Some 51%Z)]).
Proof.
  intros a HR. destruct demo_run as (s' & Hrun).
  assert (HI: KInv (k_new 8)).
  { unfold KInv, TInv, k_new. cbn [kroot kpl]. split; [split; [constructor|split; constructor]|].
    apply tree_pool_new_wf. }
  destruct (arena_k_run_refines 16 demo_hist a (k_new 8) s' _ HI HR krun_ok_demo Hrun) as (a' & Ha & _).
  exists a', (kpl s'). exact Ha.
Qed.
Print Assumptions demo_arena_run.
