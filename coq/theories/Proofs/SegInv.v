(** * The segment tree: layout facts, the chunk invariant, one-operation lemmas. *)
From Coq Require Import List NArith ZArith Bool Lia Permutation.
Import ListNotations.
Require Import ITree.Model.Common ITree.Model.Heap ITree.Model.SegModel ITree.Spec.Spec.
Require Import ITree.Proofs.SegMasks ITree.Proofs.SegScan.

(** ** layout *)

Definition in_dom (L: layout) (a b: Z) : Prop := (lmin L <= a /\ a <= b /\ b <= lmax L)%Z.

Definition good_layout (L: layout) : Prop :=
  (0 <= lscale L)%Z /\ forall v, (lmin L <= v <= lmax L)%Z -> (zindex L v < 32)%Z.

Lemma layout_new_good : forall lo hi L, layout_new lo hi = Some L ->
  good_layout L /\ lmin L = lo /\ lmax L = hi.
Proof.
  intros lo hi L H. unfold layout_new in H.
  destruct (hi - lo + 1 <? 5)%Z eqn:E1; [discriminate|].
  destruct (Z.log2 (hi - lo + 1 - 1) + 1 <? 5)%Z eqn:E2; [discriminate|].
  inversion H; subst L; clear H. cbn [lmin lmax lscale].
  apply Z.ltb_ge in E1. apply Z.ltb_ge in E2.
  split; [|split; reflexivity]. split; [cbn [lscale]; lia|].
  intros v Hv. unfold zindex. cbn [lmin lmax lscale] in *.
  set (len1 := (hi - lo + 1 - 1)%Z) in *.
  assert (Hpos: (0 < len1)%Z) by (unfold len1; lia).
  destruct (Z.log2_spec len1 Hpos) as [_ Hup].
  rewrite Z.shiftr_div_pow2 by lia.
  apply Z.div_lt_upper_bound; [apply Z.pow_pos_nonneg; lia|].
  replace (2 ^ (Z.log2 len1 + 1 - 5) * 32)%Z with (2 ^ (Z.succ (Z.log2 len1)))%Z.
  - unfold len1 in *. lia.
  - change 32%Z with (2 ^ 5)%Z. rewrite <- Z.pow_add_r by lia. f_equal. lia.
Qed.

Section Layout.
  Variable L : layout.
  Hypothesis Hgood : good_layout L.

  Lemma zindex_nonneg : forall v, (lmin L <= v)%Z -> (0 <= zindex L v)%Z.
  Proof. intros v Hv. unfold zindex. apply Z.shiftr_nonneg. lia. Qed.

  Lemma zindex_mono : forall a b, (a <= b)%Z -> (zindex L a <= zindex L b)%Z.
  Proof.
    intros a b Hab. destruct Hgood as [Hs _]. unfold zindex.
    rewrite !Z.shiftr_div_pow2 by exact Hs.
    apply Z.div_le_mono; [apply Z.pow_pos_nonneg; lia | lia].
  Qed.

  Lemma zindex_lt32 : forall v, (lmin L <= v <= lmax L)%Z -> (zindex L v < 32)%Z.
  Proof. apply Hgood. Qed.

  Lemma lindex_min : lindex L (lmin L) = 0%N.
  Proof. unfold lindex, zindex. rewrite Z.sub_diag. rewrite Z.shiftr_0_l. reflexivity. Qed.

  Lemma lindex_facts : forall a b, in_dom L a b ->
    (lindex L a <= lindex L b /\ lindex L b <= lindex L (lmax L) /\ lindex L (lmax L) < 32)%N.
  Proof.
    intros a b [H1 [H2 H3]].
    pose proof (zindex_nonneg a H1) as Na.
    pose proof (zindex_mono a b H2) as Mab.
    pose proof (zindex_mono b (lmax L) H3) as Mb.
    assert (Hm: (lmin L <= lmax L <= lmax L)%Z) by lia.
    pose proof (zindex_lt32 (lmax L) Hm) as Lt.
    unfold lindex. lia.
  Qed.

  Lemma lindex_leb : forall x y, (lmin L <= x)%Z -> (lmin L <= y)%Z ->
    (lindex L x <=? lindex L y)%N = (zindex L x <=? zindex L y)%Z.
  Proof.
    intros x y Hx Hy. pose proof (zindex_nonneg x Hx). pose proof (zindex_nonneg y Hy).
    unfold lindex.
    destruct (N.leb_spec (Z.to_N (zindex L x)) (Z.to_N (zindex L y)));
      destruct (Z.leb_spec (zindex L x) (zindex L y)); try reflexivity; lia.
  Qed.

  Lemma lcount_eq : lcount L = (lindex L (lmax L) + 32)%N.
  Proof. unfold lcount, order_to_heap_index. lia. Qed.
End Layout.

(** ** sums over places *)

Lemma total_copies_cons : forall c cs, total_copies (c :: cs) = (length c + total_copies cs)%nat.
Proof. reflexivity. Qed.

Lemma total_copies_upd_nil : forall cs i, (i < length cs)%nat ->
  total_copies cs = (length (nth i cs []) + total_copies (upd cs i (fun _ => [])))%nat.
Proof.
  induction cs as [|c cs IH]; intros i Hi; [cbn in Hi; lia|].
  destruct i; cbn [upd nth].
  - rewrite !total_copies_cons. cbn [length]. lia.
  - rewrite !total_copies_cons. rewrite (IH i) by (cbn in Hi; lia). lia.
Qed.

Definition sum_len (cs: list (list copy)) (qs: list N) : nat :=
  list_sum (map (fun q => length (chunk_at cs q)) qs).

Lemma sum_len_cons : forall cs q qs,
  sum_len cs (q :: qs) = (length (chunk_at cs q) + sum_len cs qs)%nat.
Proof. reflexivity. Qed.

Lemma sum_len_le : forall qs cs, NoDup qs -> (forall q, In q qs -> (N.to_nat q < length cs)%nat) ->
  (sum_len cs qs <= total_copies cs)%nat.
Proof.
  induction qs as [|q qs IH]; intros cs Hnd Hlen.
  - cbn. lia.
  - inversion Hnd as [|q' qs' Hnin Hnd']; subst.
    rewrite sum_len_cons.
    assert (Hq: (N.to_nat q < length cs)%nat) by (apply Hlen; left; reflexivity).
    rewrite (total_copies_upd_nil cs (N.to_nat q) Hq).
    change (nth (N.to_nat q) cs []) with (chunk_at cs q).
    assert (E: sum_len cs qs = sum_len (upd cs (N.to_nat q) (fun _ => [])) qs).
    { unfold sum_len. f_equal. apply map_ext_in. intros x Hx.
      rewrite chunk_at_upd_other; [reflexivity|]. intro E. subst. contradiction. }
    rewrite E.
    assert ((sum_len (upd cs (N.to_nat q) (fun _ => [])) qs
             <= total_copies (upd cs (N.to_nat q) (fun _ => [])))%nat).
    { apply IH; [exact Hnd'|]. intros x Hx. rewrite upd_length. apply Hlen. right. exact Hx. }
    lia.
Qed.

Lemma filter_length_le' : forall {A} (f: A -> bool) l, (length (filter f l) <= length l)%nat.
Proof.
  intros A f l. induction l as [|x l IH]; [cbn; lia|].
  cbn [filter]. destruct (f x); cbn [length]; lia.
Qed.

Lemma total_copies_seq : forall cs,
  total_copies cs = list_sum (map (fun i => length (nth i cs [])) (seq 0 (length cs))).
Proof.
  induction cs as [|c cs IH]; [reflexivity|].
  rewrite total_copies_cons. rewrite IH. cbn [length seq map list_sum nth].
  rewrite <- seq_shift. rewrite map_map. reflexivity.
Qed.

Definition all_places (cs: list (list copy)) : list N := map N.of_nat (seq 0 (length cs)).

Lemma total_copies_sum_len : forall cs, total_copies cs = sum_len cs (all_places cs).
Proof.
  intros cs. rewrite total_copies_seq. unfold sum_len, all_places. rewrite map_map.
  f_equal. apply map_ext. intros i. unfold chunk_at. rewrite Nat2N.id. reflexivity.
Qed.

Lemma NoDup_map_inj : forall {A B} (f: A -> B) l,
  (forall x y, f x = f y -> x = y) -> NoDup l -> NoDup (map f l).
Proof.
  intros A B f l Hinj H. induction H as [|x l Hx Hl IH]; [constructor|].
  cbn [map]. constructor; [|exact IH].
  intro Hin. apply in_map_iff in Hin. destruct Hin as [y [E Hy]].
  apply Hinj in E. subst. contradiction.
Qed.

Lemma all_places_NoDup : forall cs, NoDup (all_places cs).
Proof.
  intros cs. unfold all_places. apply NoDup_map_inj; [apply Nat2N.inj | apply seq_NoDup].
Qed.

Lemma list_sum_cons : forall a l, list_sum (a :: l) = (a + list_sum l)%nat.
Proof. reflexivity. Qed.

Lemma list_sum_zero : forall {A} (l: list A), list_sum (map (fun _ => O) l) = O.
Proof. induction l as [|x l IH]; [reflexivity | exact IH]. Qed.

(* double counting: places x stored values *)
Lemma count_bound : forall {A} (qs: list N) (X: list A) (F: N -> A -> bool) (G: A -> bool) k,
  (forall x, In x X -> (length (filter (fun q => F q x) qs) <= k)%nat) ->
  (forall x q, In x X -> F q x = true -> G x = true) ->
  (list_sum (map (fun q => length (filter (F q) X)) qs) <= k * length (filter G X))%nat.
Proof.
  intros A qs X F G k. induction X as [|x X IH]; intros Hk HG.
  - cbn [filter length]. rewrite list_sum_zero. lia.
  - assert (E: list_sum (map (fun q => length (filter (F q) (x :: X))) qs)
               = (length (filter (fun q => F q x) qs)
                  + list_sum (map (fun q => length (filter (F q) X)) qs))%nat).
    { clear. induction qs as [|q qs IHq]; [reflexivity|].
      rewrite !map_cons, !list_sum_cons. rewrite IHq. cbn [filter].
      destruct (F q x); cbn [length]; lia. }
    rewrite E.
    assert (IH': (list_sum (map (fun q => length (filter (F q) X)) qs) <= k * length (filter G X))%nat).
    { apply IH.
      - intros y Hy. apply Hk. right. exact Hy.
      - intros y q Hy. apply HG. right. exact Hy. }
    cbn [filter]. destruct (G x) eqn:Eg.
    + cbn [length]. pose proof (Hk x (or_introl eq_refl)). lia.
    + assert (En: filter (fun q => F q x) qs = []).
      { apply filter_none. apply Forall_forall. intros q _.
        destruct (F q x) eqn:Ef; [|reflexivity].
        rewrite (HG x q (or_introl eq_refl) Ef) in Eg. discriminate. }
      rewrite En. cbn [length]. lia.
Qed.

(** ** partition of a bag over places *)

Lemma Permutation_flat_map_pointwise : forall {A B} (f g: A -> list B) l,
  (forall x, In x l -> Permutation (f x) (g x)) -> Permutation (flat_map f l) (flat_map g l).
Proof.
  intros A B f g l H. induction l as [|x l IH]; [constructor|].
  cbn [flat_map]. apply Permutation_app.
  - apply H. left. reflexivity.
  - apply IH. intros y Hy. apply H. right. exact Hy.
Qed.

Lemma flat_map_app_perm : forall {A B} (f g: A -> list B) l,
  Permutation (flat_map (fun x => f x ++ g x) l) (flat_map f l ++ flat_map g l).
Proof.
  intros A B f g l. induction l as [|x l IH]; [constructor|].
  cbn [flat_map]. rewrite <- !app_assoc. apply Permutation_app_head.
  eapply Permutation_trans; [apply Permutation_app_head; exact IH|].
  rewrite !app_assoc. apply Permutation_app_tail. apply Permutation_app_comm.
Qed.

Lemma flat_map_single_none : forall {B} (f: N -> bool) (y: B) qs,
  (forall q, In q qs -> f q = false) -> flat_map (fun q => if f q then [y] else []) qs = [].
Proof.
  intros B f y qs H. apply flat_map_nil. intros q Hq. rewrite (H q Hq). reflexivity.
Qed.

Lemma flat_map_single_one : forall {B} (y: B) s qs, NoDup qs -> In s qs ->
  flat_map (fun q => if N.eqb q s then [y] else []) qs = [y].
Proof.
  intros B y s qs Hnd. induction Hnd as [|q qs Hq Hnd IH]; intros Hin; [destruct Hin|].
  cbn [flat_map]. destruct (N.eqb_spec q s) as [E | E].
  - subst q. rewrite flat_map_single_none; [reflexivity|].
    intros q' Hq'. apply N.eqb_neq. intro E. subst. contradiction.
  - cbn [app]. apply IH. destruct Hin as [Hin | Hin]; [contradiction | exact Hin].
Qed.

Lemma partition_lemma : forall {A B} (h: A -> B) (qs: list N) (X: list A)
    (F: N -> A -> bool) (G: A -> bool) (sel: A -> N),
  NoDup qs ->
  (forall x q, In x X -> In q qs -> F q x = G x && N.eqb q (sel x)) ->
  (forall x, In x X -> G x = true -> In (sel x) qs) ->
  Permutation (flat_map (fun q => map h (filter (F q) X)) qs) (map h (filter G X)).
Proof.
  intros A B h qs X F G sel Hnd. induction X as [|x X IH]; intros HF HG.
  - cbn [filter map]. rewrite flat_map_nil; [constructor | reflexivity].
  - assert (E: flat_map (fun q => map h (filter (F q) (x :: X))) qs
               = flat_map (fun q => (if F q x then [h x] else []) ++ map h (filter (F q) X)) qs).
    { apply flat_map_ext_in'. intros q _. cbn [filter]. destruct (F q x); reflexivity. }
    rewrite E. clear E.
    eapply Permutation_trans; [apply flat_map_app_perm|].
    assert (E1: flat_map (fun q => if F q x then [h x] else []) qs = if G x then [h x] else []).
    { destruct (G x) eqn:Eg.
      - rewrite (flat_map_ext_in' (fun q => if F q x then [h x] else [])
                                  (fun q => if N.eqb q (sel x) then [h x] else []) qs).
        + apply flat_map_single_one; [exact Hnd | exact (HG x (or_introl eq_refl) Eg)].
        + intros q Hq. rewrite (HF x q (or_introl eq_refl) Hq), Eg. reflexivity.
      - apply flat_map_single_none. intros q Hq.
        rewrite (HF x q (or_introl eq_refl) Hq), Eg. reflexivity. }
    rewrite E1. clear E1.
    assert (IH': Permutation (flat_map (fun q => map h (filter (F q) X)) qs) (map h (filter G X))).
    { apply IH.
      - intros y q Hy. apply HF. right. exact Hy.
      - intros y Hy. apply HG. right. exact Hy. }
    cbn [filter]. destruct (G x); cbn [map app].
    + constructor. exact IH'.
    + exact IH'.
Qed.

Lemma filter_filter_and : forall {A} (f g: A -> bool) l,
  filter f (filter g l) = filter (fun x => g x && f x) l.
Proof.
  intros A f g l. induction l as [|x l IH]; [reflexivity|].
  cbn [filter]. destruct (g x); cbn [andb filter]; [destruct (f x)|]; rewrite IH; reflexivity.
Qed.

Lemma filter_filter_imp : forall {A} (f g: A -> bool) l,
  (forall x, f x = true -> g x = true) -> filter f (filter g l) = filter f l.
Proof.
  intros A f g l H. rewrite filter_filter_and. apply filter_ext. intros x.
  destruct (f x) eqn:Ef; [rewrite (H x Ef); reflexivity | apply andb_false_r].
Qed.

Lemma filter_map_comm : forall {A B} (g: A -> B) (f: B -> bool) l,
  filter f (map g l) = map g (filter (fun x => f (g x)) l).
Proof.
  intros A B g f l. induction l as [|x l IH]; [reflexivity|].
  cbn [map filter]. destruct (f (g x)); cbn [map]; rewrite IH; reflexivity.
Qed.

(** ** the chunk invariant *)

(* the copy stored for an inserted entry: the value with the place mask of its range *)
Definition mkcopy (L: layout) (e: sentry) : copy :=
  (snd e, insert_mask L (fst (fst e)) (snd (fst e))).

(* the copies that belong to place q *)
Definition copies_at (L: layout) (q: N) (ins: list sentry) : list copy :=
  filter (fun c => hasbit (snd c) q) (map (mkcopy L) ins).

Definition tle (tm: option Z) (T: Z) : Prop :=
  match tm with None => True | Some t0 => (t0 <= T)%Z end.

Definition entry_dom (L: layout) (e: sentry) : Prop := in_dom L (fst (fst e)) (snd (fst e)).

(* [ins]: entries inserted since the last clear; [tm]: the last query time since then.
   At any time T not before [tm], the live part of the chunk of place q is exactly (as a bag)
   the live part of the copies belonging to q; dead copies may be missing, nothing is foreign. *)
Record Inv (L: layout) (ins: list sentry) (tm: option Z) (cs: list (list copy)) : Prop := {
  inv_len : length cs = N.to_nat (lcount L);
  inv_dom : Forall (entry_dom L) ins;
  inv_perm : forall q T, tle tm T ->
     Permutation (filter (live T) (chunk_at cs q)) (filter (live T) (copies_at L q ins));
  inv_in : forall q c, In c (chunk_at cs q) -> In c (copies_at L q ins)
}.

Lemma memN_cons : forall q b bs, memN q (b :: bs) = N.eqb q b || memN q bs.
Proof. reflexivity. Qed.

Lemma backed_true : forall cs m,
  (forall q, In q (bits m) -> (N.to_nat q < length cs)%nat) -> backed cs m = true.
Proof.
  intros cs m H. unfold backed. apply forallb_forall. intros q Hq.
  apply N.ltb_lt. specialize (H q Hq). lia.
Qed.

Lemma push_copy_chunk : forall c cs b q, (N.to_nat b < length cs)%nat ->
  chunk_at (push_copy c cs b) q = if N.eqb q b then chunk_at cs b ++ [c] else chunk_at cs q.
Proof.
  intros c cs b q Hb. unfold push_copy. destruct (N.eqb_spec q b) as [E | E].
  - subst q. rewrite chunk_at_upd_same by exact Hb. reflexivity.
  - rewrite chunk_at_upd_other; [reflexivity | congruence].
Qed.

Lemma push_all_length : forall c bs cs, length (fold_left (push_copy c) bs cs) = length cs.
Proof.
  induction bs as [|b bs IH]; intros cs; cbn [fold_left]; [reflexivity|].
  rewrite IH. unfold push_copy. apply upd_length.
Qed.

Lemma push_all_chunk : forall c bs cs q, NoDup bs ->
  (forall b, In b bs -> (N.to_nat b < length cs)%nat) ->
  chunk_at (fold_left (push_copy c) bs cs) q = chunk_at cs q ++ (if memN q bs then [c] else []).
Proof.
  induction bs as [|b bs IH]; intros cs q Hnd Hlen; cbn [fold_left].
  - cbn. rewrite app_nil_r. reflexivity.
  - inversion Hnd as [|b' bs' Hnin Hnd']; subst.
    rewrite IH; [|exact Hnd'|].
    2: { intros x Hx. unfold push_copy. rewrite upd_length. apply Hlen. right. exact Hx. }
    rewrite push_copy_chunk by (apply Hlen; left; reflexivity).
    rewrite memN_cons. destruct (N.eqb_spec q b) as [E | E].
    + subst q. assert (En: memN b bs = false).
      { destruct (memN b bs) eqn:Em; [|reflexivity]. apply memN_In in Em. contradiction. }
      rewrite En. cbn [orb]. rewrite app_nil_r. reflexivity.
    + cbn [orb]. reflexivity.
Qed.

Lemma chunk_at_clear : forall (cs: list (list copy)) q,
  chunk_at (map (fun _ : list copy => @nil copy) cs) q = [].
Proof.
  intros cs q. unfold chunk_at. generalize (N.to_nat q) as n.
  induction cs as [|c cs IH]; intros n; destruct n; cbn [map nth]; try reflexivity. apply IH.
Qed.

Lemma chunk_at_repeat : forall n q, chunk_at (repeat (@nil copy) n) q = [].
Proof.
  intros n q. unfold chunk_at. generalize (N.to_nat q) as k.
  induction n as [|n IH]; intros k; destruct k; cbn [repeat nth]; try reflexivity. apply IH.
Qed.

Lemma pend_len : forall t qm cs qs, (length (flat_map (pend_at t qm cs) qs) <= sum_len cs qs)%nat.
Proof.
  intros t qm cs qs. induction qs as [|q qs IH]; [cbn; lia|].
  cbn [flat_map]. rewrite app_length, sum_len_cons.
  assert (length (pend_at t qm cs q) <= length (chunk_at cs q))%nat.
  { unfold pend_at. rewrite map_length. apply filter_length_le'. }
  lia.
Qed.

Section Ops.
  Variable L : layout.
  Hypothesis Hgood : good_layout L.

  Lemma place_backed : forall a b q, in_dom L a b -> In q (bits (insert_mask L a b)) ->
    (N.to_nat q < N.to_nat (lcount L))%nat.
  Proof.
    intros a b q Hd Hq. destruct (lindex_facts L Hgood a b Hd) as [H1 [H2 H3]].
    unfold insert_mask in Hq.
    assert (Hb: (lindex L b < 32)%N) by lia.
    pose proof (place_bits_lt _ _ q H1 Hb Hq). rewrite lcount_eq. lia.
  Qed.

  Lemma visit_backed : forall a b q, in_dom L a b -> In q (bits (intersect_mask L a b)) ->
    (N.to_nat q < N.to_nat (lcount L))%nat.
  Proof.
    intros a b q Hd Hq. destruct (lindex_facts L Hgood a b Hd) as [H1 [H2 H3]].
    unfold intersect_mask in Hq.
    assert (Hb: (lindex L b < 32)%N) by lia.
    pose proof (visit_bits_lt _ _ q H1 Hb Hq). rewrite lcount_eq. lia.
  Qed.

  Lemma place_nodup : forall a b, in_dom L a b -> NoDup (bits (insert_mask L a b)).
  Proof.
    intros a b Hd. destruct (lindex_facts L Hgood a b Hd) as [H1 [H2 H3]].
    unfold insert_mask. apply place_bits_NoDup; [exact H1 | lia].
  Qed.

  Lemma visit_nodup : forall a b, in_dom L a b -> NoDup (bits (intersect_mask L a b)).
  Proof.
    intros a b Hd. destruct (lindex_facts L Hgood a b Hd) as [H1 [H2 H3]].
    unfold intersect_mask. apply visit_bits_NoDup; [exact H1 | lia].
  Qed.

  (** *** insert *)
  Lemma seg_insert_spec : forall s ins tm a b v,
    lay s = L -> Inv L ins tm (chunks s) -> in_dom L a b ->
    exists s', seg_insert s a b v = Ret s' /\ lay s' = L /\
               Inv L (ins ++ [(a, b, v)]) tm (chunks s').
  Proof.
    intros s ins tm a b v HL HI Hd. unfold seg_insert. rewrite HL.
    remember (insert_mask L a b) as m eqn:Em.
    assert (Hb: forall q, In q (bits m) -> (N.to_nat q < length (chunks s))%nat).
    { intros q Hq. rewrite (inv_len _ _ _ _ HI). subst m. eapply place_backed; eassumption. }
    assert (Hnd: NoDup (bits m)) by (subst m; apply place_nodup; exact Hd).
    rewrite (backed_true _ _ Hb).
    eexists. split; [reflexivity|]. cbn [lay chunks]. split; [reflexivity|].
    assert (Ec: mkcopy L (a, b, v) = (v, m)) by (subst m; reflexivity).
    constructor.
    - rewrite push_all_length. apply (inv_len _ _ _ _ HI).
    - apply Forall_app. split; [apply (inv_dom _ _ _ _ HI)|].
      constructor; [exact Hd | constructor].
    - intros q T HT. rewrite (push_all_chunk _ _ _ q Hnd Hb).
      unfold copies_at. rewrite map_app, !filter_app. apply Permutation_app.
      + apply (inv_perm _ _ _ _ HI q T HT).
      + cbn [map filter]. rewrite Ec. cbn [snd]. unfold hasbit.
        destruct (memN q (bits m)); apply Permutation_refl.
    - intros q c Hin. rewrite (push_all_chunk _ _ _ q Hnd Hb) in Hin.
      unfold copies_at. rewrite map_app, filter_app. apply in_or_app.
      apply in_app_or in Hin. destruct Hin as [Hin | Hin].
      + left. apply (inv_in _ _ _ _ HI q c Hin).
      + right. cbn [map filter]. rewrite Ec. cbn [snd]. unfold hasbit.
        destruct (memN q (bits m)); exact Hin.
  Qed.

  (** *** clear *)
  Lemma seg_clear_spec : forall s ins tm,
    lay s = L -> Inv L ins tm (chunks s) ->
    lay (seg_clear s) = L /\ Inv L [] None (chunks (seg_clear s)).
  Proof.
    intros s ins tm HL HI. unfold seg_clear. cbn [lay chunks]. split; [exact HL|].
    constructor.
    - rewrite map_length. apply (inv_len _ _ _ _ HI).
    - constructor.
    - intros q T _. rewrite chunk_at_clear. apply Permutation_refl.
    - intros q c Hin. rewrite chunk_at_clear in Hin. destruct Hin.
  Qed.

  (** *** query *)
  Lemma query_key : forall ins tm cs a b t,
    Inv L ins tm cs -> in_dom L a b -> tle tm t ->
    Permutation (flat_map (pend_at t (intersect_mask L a b) cs) (bits (intersect_mask L a b)))
                (ref_query L ins a b t).
  Proof.
    intros ins tm cs a b t HI Hd Ht.
    destruct (lindex_facts L Hgood a b Hd) as [Q1 [Q2 Q3]].
    assert (Qb: (lindex L b < 32)%N) by lia.
    assert (Hdom: forall e, In e ins -> entry_dom L e).
    { apply Forall_forall. apply (inv_dom _ _ _ _ HI). }
    (* facts about one stored entry against the query mask *)
    assert (Hlow: forall c0 d0, in_dom L c0 d0 ->
      hasbit (intersect_mask L a b) (lowbit (N.land (insert_mask L c0 d0) (intersect_mask L a b)))
      = ((lindex L c0 <=? lindex L b)%N && (lindex L a <=? lindex L d0)%N) /\
      (((lindex L c0 <=? lindex L b)%N && (lindex L a <=? lindex L d0)%N) = true ->
       hasbit (insert_mask L c0 d0)
              (lowbit (N.land (insert_mask L c0 d0) (intersect_mask L a b))) = true)).
    { intros c0 d0 Hd0. destruct (lindex_facts L Hgood c0 d0 Hd0) as [P1 [P2 P3]].
      assert (Pb: (lindex L d0 < 32)%N) by lia.
      unfold intersect_mask, insert_mask. split.
      - apply mask_low_visit; assumption.
      - apply mask_low_place; assumption. }
    remember (intersect_mask L a b) as qm eqn:Eqm.
    remember (map (mkcopy L) ins) as X eqn:EX.
    apply Permutation_trans with
      (flat_map (fun q => map fst (filter (fun c => hasbit (snd c) q && rep t qm q c) X)) (bits qm)).
    { apply Permutation_flat_map_pointwise. intros q _. unfold pend_at. apply Permutation_map.
      rewrite <- (filter_filter_imp (rep t qm q) (live t) (chunk_at cs q))
        by (intros x; apply rep_live).
      eapply Permutation_trans.
      - apply Permutation_filter'. apply (inv_perm _ _ _ _ HI q t Ht).
      - rewrite filter_filter_imp by (intros x; apply rep_live).
        unfold copies_at. rewrite <- EX. rewrite filter_filter_and. apply Permutation_refl. }
    apply Permutation_trans with
      (map fst (filter (fun c => live t c && hasbit qm (lowbit (N.land (snd c) qm))) X)).
    { apply partition_lemma with (sel := fun c: copy => lowbit (N.land (snd c) qm)).
      - subst qm. apply visit_nodup. exact Hd.
      - intros x q Hx Hq. subst X. apply in_map_iff in Hx. destruct Hx as [e [Ee He]]. subst x.
        pose proof (Hdom e He) as De. destruct e as [[c0 d0] v]. unfold entry_dom in De.
        cbn [fst snd] in De. destruct (Hlow c0 d0 De) as [Hv Hp].
        unfold mkcopy. cbn [fst snd]. unfold rep. cbn [snd].
        apply hasbit_In in Hq.
        destruct (N.eqb_spec (lowbit (N.land (insert_mask L c0 d0) qm)) q) as [E | E].
        + rewrite E in Hv, Hp. rewrite E. rewrite Hq in Hv. rewrite (Hp (eq_sym Hv)).
          rewrite Hq, N.eqb_refl. cbn [andb]. rewrite !andb_true_r. reflexivity.
        + assert (En: (q =? lowbit (N.land (insert_mask L c0 d0) qm))%N = false)
            by (apply N.eqb_neq; congruence).
          rewrite En. rewrite !andb_false_r. reflexivity.
      - intros x _ Hg. apply andb_true_iff in Hg. destruct Hg as [_ Hg].
        apply hasbit_In. exact Hg. }
    subst X. rewrite filter_map_comm, map_map. unfold ref_query.
    rewrite (filter_ext_in
               (fun x => live t (mkcopy L x) && hasbit qm (lowbit (N.land (snd (mkcopy L x)) qm)))
               (fun e => let '(c, d, v) := e in (t <=? sexp v)%Z && bucket_overlap L c d a b) ins).
    - apply Permutation_refl.
    - intros e He. pose proof (Hdom e He) as De. destruct e as [[c0 d0] v]. unfold entry_dom in De.
      cbn [fst snd] in De. destruct (Hlow c0 d0 De) as [Hv _].
      unfold mkcopy. cbn [fst snd]. rewrite Hv. unfold live. cbn [fst]. f_equal.
      unfold bucket_overlap. destruct De as [D1 [D2 D3]]. destruct Hd as [E1 [E2 E3]].
      rewrite !(lindex_leb L) by lia. reflexivity.
  Qed.

  Lemma iter_new_ok : forall s a b t,
    ok t (intersect_mask (lay s) a b) (bits (intersect_mask (lay s) a b)) (chunks s) (iter_new s a b t) /\
    pend t (intersect_mask (lay s) a b) (chunks s) (iter_new s a b t)
    = flat_map (pend_at t (intersect_mask (lay s) a b) (chunks s)) (bits (intersect_mask (lay s) a b)).
  Proof.
    intros s a b t. unfold iter_new. cbv zeta.
    remember (intersect_mask (lay s) a b) as qm eqn:Eqm.
    destruct (next_nonempty (chunks s) (bits qm)) as [nx rs] eqn:En.
    apply next_nonempty_spec in En. destruct En as [sk [E [Fsk Hn]]].
    split.
    - unfold ok. cbn [qmask itime i0 i1 rest].
      split; [reflexivity|]. split; [reflexivity|]. split; [exact Hn|].
      exists sk. split; [exact E|]. split.
      + eapply Forall_impl; [|exact Fsk]. intros q Eq. cbv beta in Eq. rewrite Eq. constructor.
      + intros p _. cbn [firstn]. constructor.
    - unfold pend, pend'. cbn [i0 i1 rest]. rewrite E. rewrite !flat_map_app.
      rewrite (flat_map_nil (pend_at t qm (chunks s)) sk).
      2: { intros q Hq. rewrite Forall_forall in Fsk. unfold pend_at. rewrite (Fsk q Hq). reflexivity. }
      cbn [app]. destruct nx as [p|]; cbn [cur_list flat_map skipn app].
      + rewrite app_nil_r. reflexivity.
      + reflexivity.
  Qed.

  Lemma dead_later : forall t T x, (t <= T)%Z -> deadP t x -> live T x = false.
  Proof.
    intros t T x HT Hx. unfold deadP, live in *. apply Z.leb_gt. apply Z.leb_gt in Hx. lia.
  Qed.

  Lemma seg_query_spec : forall s ins tm a b t n s' out,
    lay s = L -> Inv L ins tm (chunks s) -> in_dom L a b -> tle tm t ->
    seg_query s a b t n = Ret (s', out) ->
    lay s' = L /\ Inv L ins (Some t) (chunks s') /\
    (exists Lst, Permutation Lst (ref_query L ins a b t) /\
                 out = match n with Some k => firstn k Lst | None => Lst end) /\
    (n = None -> a = lmin L -> b = lmax L -> forall q, all_live t (chunk_at (chunks s') q)).
  Proof.
    intros s ins tm a b t n s' out HL HI Hd Ht H.
    unfold seg_query in H. rewrite HL in H.
    assert (Hbq: forall q, In q (bits (intersect_mask L a b)) -> (N.to_nat q < length (chunks s))%nat).
    { intros q Hq. rewrite (inv_len _ _ _ _ HI). eapply visit_backed; eassumption. }
    rewrite (backed_true _ _ Hbq) in H. cbn [negb] in H. cbv zeta in H.
    match type of H with
    | bind ?X _ = _ => destruct X as [[cs' out']|e] eqn:Et; [|discriminate]
    end.
    cbn [bind fst snd] in H. inversion H; subst s' out. clear H. cbn [lay chunks].
    destruct (iter_new_ok s a b t) as [Hok Hpend].
    rewrite HL in Hok, Hpend.
    pose proof (query_key ins tm (chunks s) a b t HI Hd Ht) as Hkey.
    pose proof (visit_nodup a b Hd) as Hnd.
    assert (Hwhole: a = lmin L -> b = lmax L ->
                    intersect_mask L a b = visit_mask 0 (lindex L (lmax L))).
    { intros Ea Eb. subst a b. unfold intersect_mask. rewrite lindex_min. reflexivity. }
    remember (intersect_mask L a b) as qm eqn:Eqm.
    destruct (take_n_spec t qm (bits qm) Hnd _ _ _ _ _ Hbq Hok Et) as [pr [P [Hpur Hl]]].
    rewrite Hpend in P. rewrite <- Hpend in Hkey.
    assert (Hlen_out: (length out' <= total_copies (chunks s))%nat).
    { pose proof (Permutation_length P) as PL. rewrite app_length in PL.
      pose proof (pend_len t qm (chunks s) (bits qm)).
      pose proof (sum_len_le (bits qm) (chunks s) Hnd Hbq). lia. }
    assert (HI': Inv L ins (Some t) cs').
    { constructor.
      - destruct Hpur as [L1 _]. rewrite L1. apply (inv_len _ _ _ _ HI).
      - apply (inv_dom _ _ _ _ HI).
      - intros q T HT. cbn [tle] in HT. destruct Hpur as [_ Hq]. destruct (Hq q) as [dead [Pq Fd]].
        assert (HT': tle tm T) by (destruct tm; cbn [tle] in *; lia).
        eapply Permutation_trans; [|apply (inv_perm _ _ _ _ HI q T HT')].
        apply Permutation_sym. eapply Permutation_trans; [apply Permutation_filter'; exact Pq|].
        rewrite filter_app. rewrite (filter_none (live T) dead).
        + rewrite app_nil_r. apply Permutation_refl.
        + eapply Forall_impl; [|exact Fd]. intros x Hx. eapply dead_later; eassumption.
      - intros q c Hin. apply (inv_in _ _ _ _ HI q c). eapply purge_in; eassumption. }
    split; [reflexivity|]. split; [exact HI'|]. split.
    - exists (out' ++ pr). split.
      + eapply Permutation_trans; [apply Permutation_sym; exact P|].
        rewrite Hpend in Hkey. exact Hkey.
      + destruct n as [k|].
        * destruct Hl as [Hl | [Hl1 [Hl2 _]]].
          -- rewrite <- Hl. rewrite firstn_app_len. reflexivity.
          -- subst pr. rewrite app_nil_r. rewrite firstn_all2 by lia. reflexivity.
        * destruct Hl as [Hl | [_ [Hl2 _]]]; [lia|].
          subst pr. rewrite app_nil_r. reflexivity.
    - intros En Ea Eb q. subst n.
      destruct Hl as [Hl | [_ [_ Hall]]]; [lia|].
      apply Forall_forall. intros x Hx.
      pose proof (inv_in _ _ _ _ HI' q x Hx) as Hin.
      unfold copies_at in Hin. apply filter_In in Hin. destruct Hin as [Hin Hb].
      apply in_map_iff in Hin. destruct Hin as [e [Ee He]]. subst x.
      assert (De: entry_dom L e).
      { pose proof (inv_dom _ _ _ _ HI) as D. rewrite Forall_forall in D. apply D. exact He. }
      destruct e as [[c0 d0] v]. unfold entry_dom in De. cbn [fst snd] in De.
      unfold mkcopy in Hb. cbn [fst snd] in Hb. apply hasbit_In in Hb.
      destruct (lindex_facts L Hgood c0 d0 De) as [P1 [P2 P3]].
      unfold insert_mask in Hb.
      pose proof (place_in_whole _ _ _ q P1 P2 P3 Hb) as Hq.
      rewrite <- (Hwhole Ea Eb) in Hq.
      rewrite Forall_forall in Hall. specialize (Hall q Hq).
      unfold all_live in Hall. rewrite Forall_forall in Hall. apply Hall. exact Hx.
  Qed.

  Lemma seg_query_total : forall s ins tm a b t n,
    lay s = L -> Inv L ins tm (chunks s) -> in_dom L a b ->
    exists r, seg_query s a b t n = Ret r.
  Proof.
    intros s ins tm a b t n HL HI Hd. unfold seg_query.
    destruct (iter_new_ok s a b t) as [Hok _]. rewrite HL in Hok. rewrite HL.
    assert (Hbq: forall q, In q (bits (intersect_mask L a b)) -> (N.to_nat q < length (chunks s))%nat).
    { intros q Hq. rewrite (inv_len _ _ _ _ HI). eapply visit_backed; eassumption. }
    pose proof (visit_nodup a b Hd) as Hnd.
    rewrite (backed_true _ _ Hbq). cbn [negb].
    destruct (take_n_total t _ _ Hnd
                (match n with Some k => k | None => S (total_copies (chunks s)) end)
                (chunks s) (iter_new s a b t) Hbq Hok) as [[cs' out'] Et].
    rewrite Et. cbn [bind fst snd]. eexists. reflexivity.
  Qed.

  (** *** C16: what is left after a full query over the whole domain *)
  Lemma purged_count : forall ins t cs,
    Inv L ins (Some t) cs -> (forall q, all_live t (chunk_at cs q)) ->
    (total_copies cs <= 8 * length (filter (fun e: sentry => (t <=? sexp (snd e))%Z) ins))%nat.
  Proof.
    intros ins t cs HI Hall.
    rewrite total_copies_sum_len. unfold sum_len.
    assert (E: map (fun q => length (chunk_at cs q)) (all_places cs)
             = map (fun q => length (filter (fun c => hasbit (snd c) q && live t c)
                                            (map (mkcopy L) ins))) (all_places cs)).
    { apply map_ext. intros q.
      rewrite <- (filter_all (live t) (chunk_at cs q)) at 1 by (apply Hall).
      assert (Ht: tle (Some t) t) by (cbn; lia).
      rewrite (Permutation_length (inv_perm _ _ _ _ HI q t Ht)).
      unfold copies_at. rewrite filter_filter_and. reflexivity. }
    rewrite E. clear E.
    eapply Nat.le_trans.
    - apply (count_bound (all_places cs) (map (mkcopy L) ins)
               (fun q c => hasbit (snd c) q && live t c) (live t) 8).
      + intros x Hx. apply in_map_iff in Hx. destruct Hx as [e [Ee He]]. subst x.
        assert (De: entry_dom L e).
        { pose proof (inv_dom _ _ _ _ HI) as D. rewrite Forall_forall in D. apply D. exact He. }
        destruct e as [[c0 d0] v]. unfold entry_dom in De. cbn [fst snd] in De.
        destruct (lindex_facts L Hgood c0 d0 De) as [P1 [P2 P3]].
        assert (Pb: (lindex L d0 < 32)%N) by lia.
        eapply Nat.le_trans; [|apply (place_popcount _ _ P1 Pb)].
        apply NoDup_incl_length.
        * apply NoDup_filter. apply all_places_NoDup.
        * intros q Hq. apply filter_In in Hq. destruct Hq as [_ Hq].
          apply andb_true_iff in Hq. destruct Hq as [Hq _].
          unfold mkcopy in Hq. cbn [fst snd] in Hq. unfold insert_mask in Hq.
          apply hasbit_In. exact Hq.
      + intros x q _ Hf. apply andb_true_iff in Hf. apply Hf.
    - rewrite filter_map_comm, map_length. apply Nat.le_refl.
  Qed.
End Ops.
