(** * KeyExpTree refines the bag semantics (the same reference semantics, validity predicate and
    observation relation as the sorted-list variant: KeyListProofs.kr_step / kvalid / kobs_ok). *)
From Coq Require Import List NArith ZArith Bool Lia Permutation Sorted.
Import ListNotations.
Require Import ITree.Model.Common ITree.Model.RBTree ITree.Model.Pool ITree.Model.MapModel ITree.Model.KeyModel.
Require Import ITree.Spec.Spec.
Require Import ITree.Proofs.RBElems ITree.Proofs.RBInv ITree.Proofs.TreeLookup ITree.Proofs.PoolProofs
  ITree.Proofs.KeyProofs ITree.Proofs.ListGen ITree.Proofs.KeyListProofs.
Local Open Scope Z_scope.

Definition RKT (s: kstate) (b: bag) (now: option Z) : Prop :=
  KInv s /\ exists dead, Permutation b (kents (kroot s) ++ dead) /\ Forall (expired_by now) dead.

Lemma k_new_inv cap : KInv (k_new cap).
Proof.
  unfold KInv, TInv, k_new. simpl. split; [|apply tree_pool_new_wf].
  split; [constructor|]. split; constructor.
Qed.

Lemma RKT_new cap now : RKT (k_new cap) [] now.
Proof. split; [apply k_new_inv|]. exists []. split; constructor. Qed.

Lemma expired_later now t e : time_ok now t -> expired_by now e -> expired_by (Some t) e.
Proof. destruct now as [n|]; simpl; [lia|tauto]. Qed.

Lemma RKT_later s b now t : RKT s b now -> time_ok now t -> RKT s b (Some t).
Proof.
  intros (HI & dead & P & D) T. split; auto. exists dead. split; auto.
  eapply Forall_impl; [|exact D]. intros e. apply expired_later. exact T.
Qed.

(* the stored live entries are exactly the live entries of the bag *)
Lemma RKT_alive s b now t : RKT s b now -> time_ok now t ->
  Permutation (alive t b) (filter (live t) (kents (kroot s))).
Proof.
  intros (HI & dead & P & D) T. unfold alive.
  eapply perm_trans; [apply Permutation_filter; exact P|].
  rewrite filter_app. fold (alive t dead). rewrite (alive_dead now t dead T D). rewrite app_nil_r. reflexivity.
Qed.

Lemma kents_sorted s : KInv s -> ksorted (kents (kroot s)).
Proof.
  intros ((_ & _ & Hb) & _). unfold ListGen.sorted, RBTree.ents. rewrite map_map. exact Hb.
Qed.

Lemma live_sorted s t : KInv s -> ksorted (filter (live t) (kents (kroot s))).
Proof. intros HI. apply sorted_filter. apply kents_sorted. exact HI. Qed.

(* a state that lost only entries expired at t is still related to the same bag *)
Lemma RKT_shrink s s' b now t : RKT s b now -> time_ok now t -> KInv s' ->
  shrinks t (kroot s) (kroot s') -> RKT s' b (Some t).
Proof.
  intros (HI & dead & P & D) T HI' (rem & Pr & Dr). split; [exact HI'|].
  exists (rem ++ dead). split.
  - rewrite P, Pr. rewrite app_assoc. reflexivity.
  - apply Forall_app. split.
    + eapply Forall_impl; [|exact Dr]. intros e He. simpl. unfold live in He. apply Z.ltb_ge in He. exact He.
    + eapply Forall_impl; [|exact D]. intros e. apply expired_later. exact T.
Qed.

(** ** the answer of a query, characterised over the stored live entries, is the reference answer *)
Section Answer.
Variables (q: qkind) (f: Z -> comparison) (t: Z) (s': kstate) (outg: option kent).
Hypothesis HI' : KInv s'.
Hypothesis O1 : forall r, outg = Some r -> In r (kents (kroot s')) /\ cand q f t r.
Hypothesis O2 : forall e, In e (kents (kroot s')) -> cand q f t e -> exists r, outg = Some r /\ kk e <= kk r.
Let L := filter (live t) (kents (kroot s')).

Lemma L_key_inj : key_inj kent kk L.
Proof. apply sorted_key_inj. apply live_sorted. exact HI'. Qed.

Lemma in_L e : In e L <-> In e (kents (kroot s')) /\ live t e = true.
Proof. unfold L. apply filter_In. Qed.

Lemma answer_gmax (ok: kent -> bool) :
  (forall e, In e L -> (okq q (f (kk e)) = true <-> ok e = true)) ->
  gmax kent kk ok L = outg.
Proof.
  intros Hok. destruct outg as [r|] eqn:Ho.
  - destruct (O1 r eq_refl) as (Hin & Hl & Hq).
    apply gmax_char.
    + apply L_key_inj.
    + apply in_L. auto.
    + apply Hok; [apply in_L|]; auto.
    + intros e' He' Hoe'. pose proof He' as HeL. apply in_L in He'. destruct He' as (He' & Hl').
      destruct (O2 e' He') as (r' & Hr' & Hle); [split; [exact Hl'|apply Hok; auto]|].
      inversion Hr'; subst. exact Hle.
  - apply gmax_none. intros e He. pose proof He as HeL. apply in_L in He. destruct He as (He & Hl).
    destruct (ok e) eqn:Hoe; auto. exfalso.
    destruct (O2 e He) as (r' & Hr' & _); [split; [exact Hl|apply Hok; auto]|]. discriminate.
Qed.
End Answer.

Lemma okq_less q' k : okq QLess (cmp_to q' k) = true <-> (k <? q') = true.
Proof. rewrite <- isLt_cmp_to. destruct (cmp_to q' k); simpl; split; congruence. Qed.

Lemma okq_less_eq q' k : okq QLessEq (cmp_to q' k) = true <-> (k <=? q') = true.
Proof.
  unfold cmp_to. destruct (Z.compare_spec k q'); simpl; split; intros H0; auto; try discriminate.
  - apply Z.leb_le. lia.
  - apply Z.leb_le. lia.
  - apply Z.leb_le in H0. lia.
Qed.

Lemma one_eq_transfer f t b s now : RKT s b now -> time_ok now t ->
  kone_eq f (alive t b) -> one_eq_live f t (kroot s).
Proof.
  intros HR T Ho a c Ha Hc Hla Hlc Hfa Hfc.
  pose proof (RKT_alive s b now t HR T) as P.
  apply Ho; auto; eapply Permutation_in; try (apply Permutation_sym; exact P); apply filter_In; auto.
Qed.

Lemma find_eq_gmax (l: list kent) q : key_inj kent kk l ->
  find (fun e => kk e =? q) l = gmax kent kk (fun e => kk e =? q) l.
Proof.
  intros K. pose proof (gmax_spec kent kk (fun e => kk e =? q) l) as G.
  destruct (gmax kent kk (fun e => kk e =? q) l) as [e|].
  - destruct G as (Hin & Hok & _). destruct (find (fun e0 => kk e0 =? q) l) as [e'|] eqn:Hf.
    + apply find_some in Hf. destruct Hf as (Hin' & Hok'). f_equal. apply K; auto.
      apply Z.eqb_eq in Hok. apply Z.eqb_eq in Hok'. lia.
    + pose proof (find_none _ _ Hf e Hin) as Hn. simpl in Hn. congruence.
  - destruct (find (fun e0 => kk e0 =? q) l) as [e'|] eqn:Hf; auto.
    apply find_some in Hf. destruct Hf as (Hin' & Hok'). rewrite (G e' Hin') in Hok'. discriminate.
Qed.

(** ** one step *)
Definition op_time (o: kop) : Z :=
  match o with
  | KIns _ _ _ t | KLess t _ | KLessEq t _ | KLessEqBy t _ | KGet t _ | KExport t => t
  | _ => 0
  end.

Lemma mono_same f : ListGen.monotone f -> KeyProofs.monotone f.
Proof. intros H. exact H. Qed.

Theorem k_step_refines s b now o : RKT s b now -> kvalid (b, now) o ->
  exists s' out evs, k_step s o = Ret (s', out, evs) /\
    kobs_ok (b, now) o out /\
    RKT s' (fst (fst (kr_step (b, now) o))) (snd (fst (kr_step (b, now) o))) /\
    cmp_live (op_time o) (kroot s) evs.
Proof.
  intros HR V. pose proof HR as (HI & dead & P & D).
  assert (Hq: forall qk f t, time_ok now t -> ListGen.monotone f -> kone_eq f (alive t b) ->
     exists s' outg evs, k_query qk f s t = Ret (s', option_map kval outg, evs) /\ RKT s' b (Some t) /\
       (forall ok, (forall e, In e (alive t b) -> (okq qk (f (kk e)) = true <-> ok e = true)) ->
          gmax kent kk ok (alive t b) = outg) /\
       (forall r, outg = Some r -> In r (kents (kroot s')) /\ cand qk f t r) /\
       (forall e, In e (alive t b) -> cand qk f t e -> exists r, outg = Some r /\ kk e <= kk r) /\
       key_inj kent kk (alive t b) /\
       cmp_live t (kroot s) evs).
  { intros qk f t T Hm Ho.
    destruct (k_query_spec qk f t s (mono_same f Hm) HI (one_eq_transfer f t b s now HR T Ho))
      as (s' & outg & evs & Hk & HI' & Hsh & O1 & O2 & Hev).
    pose proof (RKT_shrink s s' b now t HR T HI' Hsh) as HR'.
    assert (T': time_ok (Some t) t) by (simpl; lia).
    pose proof (RKT_alive s' b (Some t) t HR' T') as PA.
    exists s', outg, evs. split; [exact Hk|]. split; [exact HR'|]. split; [|split; [exact O1|split; [|split; [|exact Hev]]]].
    - intros ok Hok. rewrite (gmax_perm kent kk ok _ _ PA).
      + apply (answer_gmax qk f t s' outg HI' O1 O2 ok). intros e0 He0. apply Hok.
        eapply Permutation_in; [apply Permutation_sym; exact PA|exact He0].
      + eapply key_inj_perm; [apply Permutation_sym; exact PA|]. apply L_key_inj. exact HI'.
    - intros e He Hc. apply (Permutation_in _ PA) in He. apply filter_In in He. apply O2; tauto.
    - eapply key_inj_perm; [apply Permutation_sym; exact PA|]. apply L_key_inj. exact HI'. }
  destruct o as [k e v t|t q|t q|t f|t q| | |t]; simpl in V; simpl op_time.
  - (* insert *)
    destruct V as (T & F).
    destruct (k_insert_spec s {| kk := k; kexp := e; kval := v |} t HI) as (s' & evs & mid & Hk & HI' & Hsh & Hperm & Hev).
    { intros e0 He0 Hl Hk0. simpl in Hk0. unfold fresh_key in F.
      assert (In e0 b) by (eapply Permutation_in; [apply Permutation_sym; exact P|]; apply in_or_app; auto).
      specialize (F e0 H Hk0). unfold live in Hl. apply Z.ltb_lt in Hl. lia. }
    cbn [k_step]. rewrite Hk. cbn [bind fst snd]. eexists _, _, _. split; [reflexivity|]. split; [reflexivity|].
    split; [|exact Hev]. cbn [kr_step fst snd]. split; [exact HI'|].
    destruct Hsh as (rem & Pr & Dr). exists (rem ++ dead). split.
    + rewrite Hperm. simpl. apply perm_skip. rewrite P, Pr. rewrite app_assoc. reflexivity.
    + apply Forall_app. split.
      * eapply Forall_impl; [|exact Dr]. intros e0 He0. simpl. unfold live in He0. apply Z.ltb_ge in He0. exact He0.
      * eapply Forall_impl; [|exact D]. intros e0. apply expired_later. exact T.
  - (* first_less *)
    destruct (Hq QLess (cmp_to q) t V (monotone_cmp_to q) (one_eq_cmp_to kent kk q _)) as (s' & outg & evs & Hk & HR' & Hg & _ & _ & _ & Hev).
    cbn [k_step]. unfold k_first_less. rewrite Hk. cbn [bind fst snd]. eexists _, _, _. split; [reflexivity|].
    split; [|split; [exact HR'|exact Hev]]. unfold kobs_ok. cbn [kr_step snd]. f_equal. unfold ref_less.
    change kbest with (gmax kent kk). rewrite (Hg (fun e0 => kk e0 <? q)); [reflexivity|].
    intros e0 _. apply okq_less.
  - (* first_less_or_equal *)
    destruct (Hq QLessEq (cmp_to q) t V (monotone_cmp_to q) (one_eq_cmp_to kent kk q _)) as (s' & outg & evs & Hk & HR' & Hg & _ & _ & _ & Hev).
    cbn [k_step]. unfold k_first_less_or_equal. rewrite Hk. cbn [bind fst snd]. eexists _, _, _. split; [reflexivity|].
    split; [|split; [exact HR'|exact Hev]]. unfold kobs_ok. cbn [kr_step snd]. f_equal. unfold ref_less_eq.
    change kbest with (gmax kent kk). rewrite (Hg (fun e0 => kk e0 <=? q)); [reflexivity|].
    intros e0 _. apply okq_less_eq.
  - (* first_less_or_equal_by *)
    destruct V as (T & M & O).
    destruct (Hq QLessEq f t T M O) as (s' & outg & evs & Hk & HR' & Hg & O1 & O2 & K & Hev).
    cbn [k_step]. unfold k_first_less_or_equal_by. rewrite Hk. cbn [bind fst snd]. eexists _, _, _. split; [reflexivity|].
    split; [|split; [exact HR'|exact Hev]]. unfold kobs_ok. cbn [kr_step snd]. f_equal.
    rewrite ref_less_eq_by_gpred. f_equal. unfold gpred_by.
    destruct (find (fun e0 => isEq (f (kk e0))) (alive t b)) as [e1|] eqn:Hf.
    + (* an Eq entry is live: it is the answer *)
      apply find_some in Hf. destruct Hf as (He1 & Hq1). apply isEq_true in Hq1.
      assert (Hl1: live t e1 = true) by (unfold alive in He1; apply filter_In in He1; tauto).
      destruct (O2 e1 He1) as (r & Hr & Hle); [split; [exact Hl1|rewrite Hq1; reflexivity]|]. subst outg.
      destruct (O1 r eq_refl) as (Hin & Hlr & Hokr).
      assert (Hra: In r (alive t b)).
      { assert (T': time_ok (Some t) t) by (simpl; lia).
        eapply Permutation_in; [apply Permutation_sym; apply (RKT_alive s' b (Some t) t HR' T')|]. apply filter_In. auto. }
      f_equal. apply K; auto.
      destruct (f (kk r)) eqn:Hfr; simpl in Hokr; try discriminate.
      * apply O; auto.
      * destruct (Z.eq_dec (kk e1) (kk r)) as [|Hne]; auto. exfalso.
        destruct (M (kk e1) (kk r)) as (K1 & _); [lia|]. specialize (K1 Hfr). congruence.
    + rewrite (Hg (fun e0 => isLt (f (kk e0)))); [reflexivity|].
      intros e0 He0. split; intros H0.
      * destruct (f (kk e0)) eqn:Hfe; simpl in *; try discriminate; auto.
        (* an Eq entry that is live would have been found *)
        exfalso. pose proof (find_none _ _ Hf e0 He0) as Hn. simpl in Hn. rewrite Hfe in Hn. discriminate.
      * destruct (f (kk e0)); simpl in *; try discriminate; auto.
  - (* get_value *)
    destruct (Hq QGet (cmp_to q) t V (monotone_cmp_to q) (one_eq_cmp_to kent kk q _)) as (s' & outg & evs & Hk & HR' & Hg & _ & _ & K & Hev).
    cbn [k_step]. unfold k_get_value. rewrite Hk. cbn [bind fst snd]. eexists _, _, _. split; [reflexivity|].
    split; [|split; [exact HR'|exact Hev]]. unfold kobs_ok. cbn [kr_step snd]. f_equal. unfold ref_get. f_equal.
    rewrite <- (Hg (fun e0 => kk e0 =? q)).
    + symmetry. apply find_eq_gmax. exact K.
    + intros e0 _. rewrite <- isEq_cmp_to. destruct (cmp_to q (kk e0)); simpl; split; congruence.
  - (* is_empty *)
    cbn [k_step]. eexists _, _, _. split; [reflexivity|]. split; [|split; [exact HR|intros ev []]].
    unfold kobs_ok. cbn [fst snd]. eexists. split; [reflexivity|]. unfold k_is_empty. split.
    + intros ->. apply Permutation_nil in P. destruct (kroot s) as [|c l x e0 r]; [reflexivity|].
      rewrite ents_T in P. destruct (kents l); discriminate.
    + intros Hr t T. destruct (kroot s) as [|c l x e0 r] eqn:Hroot; [|discriminate].
      pose proof (RKT_alive s b now t HR T) as PA. rewrite Hroot in PA. simpl in PA.
      apply Permutation_nil. apply Permutation_sym. exact PA.
  - (* clear *)
    cbn [k_step]. eexists _, _, _. split; [reflexivity|]. split; [reflexivity|]. split; [|intros ev []].
    cbn [kr_step fst snd]. split.
    + destruct HI as ((ND & Hrb & Hb) & Hp). unfold k_clear, KInv, TInv. simpl.
      split; [split; [constructor|split; constructor]|].
      apply pool_put_all_wf. rewrite app_nil_r.
      eapply pool_wf_perm; [|exact Hp]. apply Permutation_sym. apply level_order_perm. exact kk.
    + exists []. split; constructor.
  - (* export *)
    cbn [k_step]. eexists _, _, _. split; [reflexivity|]. split; [|split; [apply (RKT_later s b now t HR V)|intros ev []]].
    unfold kobs_ok. cbn [kr_step snd]. f_equal. unfold k_export, ref_export. f_equal. symmetry.
    apply ksort_unique; [apply live_sorted; exact HI|apply (RKT_alive s b now t HR V)].
Qed.

Theorem k_run_refines h : forall s b now, RKT s b now -> kvalid_hist (b, now) h ->
  exists s' outs, k_run s h = Ret (s', outs) /\ kobs_run (b, now) h outs /\
    RKT s' (fst (kr_state (b, now) h)) (snd (kr_state (b, now) h)).
Proof.
  induction h as [|o h IH]; intros s b now HR V.
  - exists s, []. split; [reflexivity|]. split; [exact I|exact HR].
  - destruct V as (V1 & V2).
    destruct (k_step_refines s b now o HR V1) as (s1 & out & evs & Hs & Ho & HR1 & _).
    destruct (fst (kr_step (b, now) o)) as [b1 now1] eqn:E. simpl in HR1.
    destruct (IH s1 b1 now1 HR1 V2) as (s2 & outs & Hr & Hobs & HR2).
    exists s2, (out :: outs). split.
    + cbn [k_run]. rewrite Hs. cbn [bind fst snd]. rewrite Hr. reflexivity.
    + split.
      * cbn [kobs_run]. split; [exact Ho|]. rewrite E. exact Hobs.
      * unfold kr_state in *. cbn [fold_left]. rewrite E. exact HR2.
Qed.

Theorem keytree_refines cap h : kvalid_hist ([], None) h ->
  exists s outs, k_run (k_new cap) h = Ret (s, outs) /\ kobs_run ([], None) h outs.
Proof.
  intros V. destruct (k_run_refines h (k_new cap) [] None (RKT_new cap None) V) as (s & outs & H1 & H2 & _). eauto.
Qed.

(* every state reached by a valid history satisfies the representation invariant *)
Theorem keytree_invariant cap h s outs : kvalid_hist ([], None) h -> k_run (k_new cap) h = Ret (s, outs) ->
  KInv s /\ RKT s (fst (kr_state ([], None) h)) (snd (kr_state ([], None) h)).
Proof.
  intros V Hr. destruct (k_run_refines h (k_new cap) [] None (RKT_new cap None) V) as (s' & outs' & H1 & _ & H3).
  rewrite Hr in H1. inversion H1; subst. split; [apply H3|exact H3].
Qed.

Lemma kvalid_hist_app h o : forall st, kvalid_hist st (h ++ [o]) -> kvalid_hist st h /\ kvalid (kr_state st h) o.
Proof.
  induction h as [|o0 h IH]; intros st V; simpl in *.
  - unfold kr_state. simpl. tauto.
  - destruct V as (V1 & V2). destruct (IH _ V2) as (A & B). unfold kr_state in *. simpl. tauto.
Qed.

(* C20: in the last operation of any valid history, every stored key handed to the caller's
   comparison code is live at the operation's time and belongs to the collection *)
Theorem cmp_sees_only_live cap h o s outs : kvalid_hist ([], None) (h ++ [o]) ->
  k_run (k_new cap) h = Ret (s, outs) ->
  exists s' out evs, k_step s o = Ret (s', out, evs) /\
    forall ev, In ev evs -> fst (fst ev) = EvCmp ->
      live (op_time o) (snd (fst ev)) = true /\ In (snd (fst ev)) (kents (kroot s)).
Proof.
  intros V Hr. destruct (kvalid_hist_app h o _ V) as (Vh & Vo).
  destruct (keytree_invariant cap h s outs Vh Hr) as (_ & HR).
  destruct (kr_state ([], None) h) as [b now]. simpl in HR.
  destruct (k_step_refines s b now o HR Vo) as (s' & out & evs & Hs & _ & _ & Hev).
  exists s', out, evs. split; [exact Hs|]. intros ev Hin Hk. apply (proj2 (Hev ev Hin) Hk).
Qed.

(* discharges [kvalid_hist] of a concrete history (used by the non-vacuity examples) *)
Ltac kvalid_tac :=
  cbn; repeat split; try lia;
  try (let x := fresh "x" in let Hx := fresh "Hx" in let Hk := fresh "Hk" in
       intros x Hx Hk; cbn in Hx;
       repeat (destruct Hx as [Hx|Hx]; [subst x; cbn in *; try lia; try discriminate|]); try contradiction).

(* C18 (model part): at every callback of an operation (expiration() accessor, key comparison,
   comparator closure) the collection is in a state that satisfies the representation invariant and
   is related to the SAME bag as before the operation: its observable contents are those before the
   operation; a panic there leaves a usable, un-torn collection *)
Theorem callback_states s b now o s' out evs : RKT s b now -> kvalid (b, now) o ->
  k_step s o = Ret (s', out, evs) ->
  forall ev, In ev evs -> KInv (snd ev) /\ RKT (snd ev) b (Some (op_time o)).
Proof.
  intros HR V Hs ev Hin.
  destruct (k_step_refines s b now o HR V) as (s2 & out2 & evs2 & Hs2 & _ & _ & Hev).
  rewrite Hs in Hs2. inversion Hs2; subst s2 out2 evs2.
  destruct (Hev ev Hin) as ((HI' & Hsh) & _). split; [exact HI'|].
  assert (T: time_ok now (op_time o)).
  { destruct o; simpl in V |- *; try tauto; simpl in Hs; inversion Hs; subst; destruct Hin. }
  apply (RKT_shrink s (snd ev) b now (op_time o) HR T HI' Hsh).
Qed.
