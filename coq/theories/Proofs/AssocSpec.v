(** * Characterisation of the reference semantics of Spec.v on association lists with distinct keys.
    Each function is determined by a membership / extremality property, so that an implementation
    whose answer has that property returns exactly the reference answer. *)
From Coq Require Import List NArith ZArith Bool Lia Permutation.
Import ListNotations.
Require Import ITree.Model.MapModel ITree.Spec.Spec ITree.Spec.MapSpec.
Local Open Scope Z_scope.

Definition keys_nodup (m: amap) : Prop := NoDup (map fst m).

Lemma keys_nodup_unique m e1 e2 : keys_nodup m -> In e1 m -> In e2 m -> fst e1 = fst e2 -> e1 = e2.
Proof.
  unfold keys_nodup. induction m as [|x m IH]; simpl; intros ND H1 H2 Hk; [tauto|].
  inversion ND as [|? ? Hx ND']; subst.
  destruct H1 as [->|H1], H2 as [->|H2]; auto.
  - exfalso. apply Hx. rewrite Hk. apply in_map. exact H2.
  - exfalso. apply Hx. rewrite <- Hk. apply in_map. exact H1.
Qed.

Lemma keys_nodup_perm m m' : Permutation m m' -> keys_nodup m -> keys_nodup m'.
Proof. unfold keys_nodup. intros P ND. eapply Permutation_NoDup; [|exact ND]. apply Permutation_map. exact P. Qed.

(** ** lookup *)
Lemma a_lookup_some m k e : keys_nodup m -> (a_lookup m k = Some e <-> In e m /\ fst e = k).
Proof.
  intros ND. unfold a_lookup. split.
  - intros H. apply find_some in H. destruct H as [Hin Hk]. apply Z.eqb_eq in Hk. auto.
  - intros [Hin Hk]. destruct (find (fun e0 => fst e0 =? k) m) as [e'|] eqn:Hf.
    + apply find_some in Hf. destruct Hf as [Hin' Hk']. apply Z.eqb_eq in Hk'.
      f_equal. eapply keys_nodup_unique; eauto. congruence.
    + exfalso. eapply find_none in Hf; [|exact Hin]. simpl in Hf. apply Z.eqb_neq in Hf. auto.
Qed.

Lemma a_lookup_none m k : a_lookup m k = None <-> ~ stored m k.
Proof.
  unfold a_lookup, stored. split.
  - intros H Hin. apply in_map_iff in Hin. destruct Hin as (e & Hk & Hin).
    eapply find_none in H; [|exact Hin]. simpl in H. apply Z.eqb_neq in H. auto.
  - intros H. destruct (find (fun e0 => fst e0 =? k) m) as [e'|] eqn:Hf; auto.
    apply find_some in Hf. destruct Hf as [Hin' Hk']. apply Z.eqb_eq in Hk'.
    exfalso. apply H. rewrite <- Hk'. apply in_map. exact Hin'.
Qed.

(** ** the entry with the greatest key among those satisfying [ok] *)
Definition is_best (ok: ment -> bool) (m: amap) (r: option ment) : Prop :=
  match r with
  | Some e => In e m /\ ok e = true /\ forall e', In e' m -> ok e' = true -> fst e' <= fst e
  | None => forall e', In e' m -> ok e' = false
  end.

Lemma best_is_best ok m : is_best ok m (best ok m).
Proof.
  induction m as [|x m IH]; simpl.
  - intros e' [].
  - destruct (ok x) eqn:Hx.
    + destruct (best ok m) as [b|] eqn:Hb; simpl in IH.
      * destruct IH as (Hin & Hok & Hmax).
        destruct (Z.ltb_spec (fst b) (fst x)).
        -- simpl. split; [auto|]. split; [auto|]. intros e' [->|He'] Hoe; [lia|]. specialize (Hmax e' He' Hoe). lia.
        -- simpl. split; [auto|]. split; [auto|]. intros e' [->|He'] Hoe; [lia|]. auto.
      * simpl. split; [auto|]. split; [auto|]. intros e' [->|He'] Hoe; [lia|].
        rewrite (IH e' He') in Hoe. discriminate.
    + destruct (best ok m) as [b|] eqn:Hb; simpl in IH |- *.
      * destruct IH as (Hin & Hok & Hmax). split; [auto|]. split; [auto|].
        intros e' [->|He'] Hoe; [congruence|]. auto.
      * intros e' [->|He']; auto.
Qed.

Lemma is_best_unique ok m r1 r2 : keys_nodup m -> is_best ok m r1 -> is_best ok m r2 -> r1 = r2.
Proof.
  intros ND H1 H2. destruct r1 as [e1|], r2 as [e2|]; simpl in *; auto.
  - destruct H1 as (I1 & O1 & M1), H2 as (I2 & O2 & M2). f_equal.
    eapply keys_nodup_unique; eauto. specialize (M1 _ I2 O2). specialize (M2 _ I1 O1). lia.
  - destruct H1 as (I1 & O1 & _). rewrite (H2 _ I1) in O1. discriminate.
  - destruct H2 as (I2 & O2 & _). rewrite (H1 _ I2) in O2. discriminate.
Qed.

Lemma best_eq ok m r : keys_nodup m -> is_best ok m r -> best ok m = r.
Proof. intros ND H. eapply is_best_unique; eauto. apply best_is_best. Qed.

Lemma is_best_perm ok m m' r : Permutation m m' -> is_best ok m r -> is_best ok m' r.
Proof.
  intros P H. destruct r as [e|]; simpl in *.
  - destruct H as (I & O & M). split; [eapply Permutation_in; eauto|]. split; auto.
    intros e' He'. apply M. eapply Permutation_in; [apply Permutation_sym|]; eauto.
  - intros e' He'. apply H. eapply Permutation_in; [apply Permutation_sym|]; eauto.
Qed.

(** ** the entry with the smallest key above [k] *)
Definition is_next (k: Z) (m: amap) (r: option ment) : Prop :=
  match r with
  | Some e => In e m /\ k < fst e /\ forall e', In e' m -> k < fst e' -> fst e <= fst e'
  | None => forall e', In e' m -> fst e' <= k
  end.

Lemma a_next_is_next m k : is_next k m (a_next m k).
Proof.
  unfold a_next. induction m as [|x m IH]; simpl.
  - intros e' [].
  - destruct (Z.ltb_spec k (fst x)) as [Hx|Hx].
    + match goal with |- context [fold_right ?f None m] => destruct (fold_right f None m) as [b|] eqn:Hb end; simpl in IH.
      * destruct IH as (Hin & Hok & Hmin).
        destruct (Z.ltb_spec (fst x) (fst b)); simpl.
        -- split; [auto|]. split; [auto|]. intros e' [->|He'] Hoe; [lia|]. specialize (Hmin e' He' Hoe). lia.
        -- split; [auto|]. split; [auto|]. intros e' [->|He'] Hoe; [lia|]. auto.
      * simpl. split; [auto|]. split; [auto|]. intros e' [->|He'] Hoe; [lia|]. specialize (IH e' He'). lia.
    + match goal with |- context [fold_right ?f None m] => destruct (fold_right f None m) as [b|] eqn:Hb end; simpl in IH |- *.
      * destruct IH as (Hin & Hok & Hmin). split; [auto|]. split; [auto|].
        intros e' [->|He'] Hoe; [lia|]. auto.
      * intros e' [->|He']; auto.
Qed.

Lemma is_next_unique k m r1 r2 : keys_nodup m -> is_next k m r1 -> is_next k m r2 -> r1 = r2.
Proof.
  intros ND H1 H2. destruct r1 as [e1|], r2 as [e2|]; simpl in *; auto.
  - destruct H1 as (I1 & O1 & M1), H2 as (I2 & O2 & M2). f_equal.
    eapply keys_nodup_unique; eauto. specialize (M1 _ I2 O2). specialize (M2 _ I1 O1). lia.
  - destruct H1 as (I1 & O1 & _). specialize (H2 _ I1). lia.
  - destruct H2 as (I2 & O2 & _). specialize (H1 _ I2). lia.
Qed.

Lemma a_next_eq k m r : keys_nodup m -> is_next k m r -> a_next m k = r.
Proof. intros ND H. eapply is_next_unique; eauto. apply a_next_is_next. Qed.

Lemma is_next_perm k m m' r : Permutation m m' -> is_next k m r -> is_next k m' r.
Proof.
  intros P H. destruct r as [e|]; simpl in *.
  - destruct H as (I & O & M). split; [eapply Permutation_in; eauto|]. split; auto.
    intros e' He'. apply M. eapply Permutation_in; [apply Permutation_sym|]; eauto.
  - intros e' He'. apply H. eapply Permutation_in; [apply Permutation_sym|]; eauto.
Qed.

(** ** predecessor under a comparator *)
Definition is_eq (f: Z -> comparison) (e: ment) : bool := match f (fst e) with Eq => true | _ => false end.
Definition is_lt (f: Z -> comparison) (e: ment) : bool := match f (fst e) with Lt => true | _ => false end.

(* the answer of a_pred_by, characterised: an Eq entry if one is stored, else the greatest Lt entry *)
Definition is_pred_by (f: Z -> comparison) (m: amap) (r: option ment) : Prop :=
  (exists e, In e m /\ is_eq f e = true /\ r = Some e) \/
  ((forall e, In e m -> is_eq f e = false) /\ is_best (is_lt f) m r).

Lemma a_pred_by_is f m : is_pred_by f m (a_pred_by m f).
Proof.
  unfold a_pred_by, is_pred_by.
  match goal with |- context [find ?g m] => destruct (find g m) as [e|] eqn:Hf end.
  - left. apply find_some in Hf. destruct Hf. exists e. unfold is_eq. auto.
  - right. split.
    + intros e He. eapply find_none in Hf; eauto.
    + apply best_is_best.
Qed.

Lemma is_pred_by_unique f m r1 r2 : keys_nodup m -> monotone_on (stored m) f ->
  is_pred_by f m r1 -> is_pred_by f m r2 -> r1 = r2.
Proof.
  intros ND Hmon [ (e1 & I1 & E1 & ->) | (N1 & B1) ] [ (e2 & I2 & E2 & ->) | (N2 & B2) ].
  - f_equal. eapply keys_nodup_unique; eauto.
    destruct (Z.lt_trichotomy (fst e1) (fst e2)) as [H|[H|H]]; auto.
    + destruct (Hmon (fst e1) (fst e2)) as (_ & _ & K); try (apply in_map; assumption); auto.
      unfold is_eq in *. destruct (f (fst e1)); try discriminate. rewrite (K eq_refl) in E2. discriminate.
    + destruct (Hmon (fst e2) (fst e1)) as (_ & _ & K); try (apply in_map; assumption); auto.
      unfold is_eq in *. destruct (f (fst e2)); try discriminate. rewrite (K eq_refl) in E1. discriminate.
  - rewrite (N2 _ I1) in E1. discriminate.
  - rewrite (N1 _ I2) in E2. discriminate.
  - eapply is_best_unique; eauto.
Qed.

Lemma a_pred_by_eq f m r : keys_nodup m -> monotone_on (stored m) f -> is_pred_by f m r -> a_pred_by m f = r.
Proof. intros ND Hm H. eapply is_pred_by_unique; eauto. apply a_pred_by_is. Qed.

Lemma is_pred_by_perm f m m' r : Permutation m m' -> is_pred_by f m r -> is_pred_by f m' r.
Proof.
  intros P [ (e & I & E & ->) | (Nn & B) ].
  - left. exists e. split; [eapply Permutation_in; eauto|]. auto.
  - right. split.
    + intros e He. apply Nn. eapply Permutation_in; [apply Permutation_sym|]; eauto.
    + eapply is_best_perm; eauto.
Qed.

(** ** insert / remove / update keep distinct keys and act on membership as expected *)
Lemma a_insert_nodup m k v : keys_nodup m -> a_lookup m k = None -> keys_nodup (a_insert m k v).
Proof.
  unfold keys_nodup, a_insert. simpl. intros ND H. constructor; auto. apply a_lookup_none in H. exact H.
Qed.

Lemma a_remove_in m k e : In e (a_remove m k) <-> In e m /\ fst e <> k.
Proof.
  unfold a_remove. rewrite filter_In. rewrite negb_true_iff, Z.eqb_neq. tauto.
Qed.

Lemma a_remove_nodup m k : keys_nodup m -> keys_nodup (a_remove m k).
Proof.
  unfold keys_nodup, a_remove. induction m as [|x m IH]; simpl; intros ND; [constructor|].
  inversion ND as [|? ? Hx ND']; subst. destruct (negb (fst x =? k)); simpl; auto.
  constructor; auto. intros Hin. apply Hx. apply in_map_iff in Hin. destruct Hin as (e & He & Hin).
  apply filter_In in Hin. rewrite <- He. apply in_map. tauto.
Qed.

Lemma a_update_keys m k v : map fst (a_update m k v) = map fst m.
Proof.
  unfold a_update. induction m as [|x m IH]; simpl; auto.
  rewrite IH. destruct (Z.eqb_spec (fst x) k); simpl; congruence.
Qed.

Lemma a_update_nodup m k v : keys_nodup m -> keys_nodup (a_update m k v).
Proof. unfold keys_nodup. rewrite a_update_keys. auto. Qed.
