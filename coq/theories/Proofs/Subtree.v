From Coq Require Import List NArith ZArith Bool Lia Permutation Sorted.
Import ListNotations.
Require Import ITree.Model.RBTree ITree.Proofs.RBElems.

Section S.
Variable ent : Type.
Notation tree := (tree ent).
Notation elements := (elements ent).
Notation slots := (slots ent).
Notation sub := (sub ent).

Inductive subtree (u: tree) : tree -> Prop :=
| st_here : subtree u u
| st_left c l s e r : subtree u l -> subtree u (T c l s e r)
| st_right c l s e r : subtree u r -> subtree u (T c l s e r).
Hint Constructors subtree : core.

Lemma subtree_trans u v w : subtree u v -> subtree v w -> subtree u w.
Proof. intros Huv Hvw. induction Hvw; auto. Qed.

Lemma subtree_slots u t x : subtree u t -> In x (slots u) -> In x (slots t).
Proof.
  unfold RBTree.slots. induction 1; auto; intros Hx; simpl; rewrite map_app, in_app_iff; simpl; auto.
Qed.

Lemma sub_none t x : ~ In x (slots t) -> sub t x = None.
Proof.
  unfold RBTree.slots. induction t as [|c l IHl s e r IHr]; simpl; auto. intros H.
  rewrite map_app, in_app_iff in H. simpl in H.
  destruct (N.eqb_spec s x); [exfalso; auto|].
  rewrite IHl by tauto. apply IHr. tauto.
Qed.

Lemma root_in_slots c l x e r : In x (slots (T c l x e r)).
Proof. unfold RBTree.slots. simpl. rewrite map_app, in_app_iff. simpl. auto. Qed.

Lemma NoDup_node c l s e r : NoDup (slots (T c l s e r)) ->
  NoDup (slots l) /\ NoDup (slots r) /\ ~ In s (slots l) /\ ~ In s (slots r) /\ (forall z, In z (slots l) -> In z (slots r) -> False).
Proof.
  unfold RBTree.slots. simpl. rewrite map_app. simpl. intros ND.
  destruct (NoDup_app_inv _ _ ND) as (Hl & Hr & Hd). inversion Hr; subst.
  repeat split; auto.
  - intros Hs. apply (Hd s Hs). simpl. auto.
  - intros z Hz1 Hz2. apply (Hd z Hz1). simpl. auto.
Qed.

Lemma sub_of_subtree t : NoDup (slots t) -> forall c l x e r, subtree (T c l x e r) t -> sub t x = Some (T c l x e r).
Proof.
  induction t as [|c0 l0 IHl s0 e0 r0 IHr]; intros ND c l x e r Hs.
  - inversion Hs.
  - destruct (NoDup_node _ _ _ _ _ ND) as (NDl & NDr & Hsl & Hsr & Hlr).
    inversion Hs; subst.
    + simpl. rewrite N.eqb_refl. reflexivity.
    + pose proof (subtree_slots _ _ x H0 (root_in_slots _ _ _ _ _)) as Hx.
      simpl. destruct (N.eqb_spec s0 x); [subst; contradiction|].
      rewrite (IHl NDl _ _ _ _ _ H0). reflexivity.
    + pose proof (subtree_slots _ _ x H0 (root_in_slots _ _ _ _ _)) as Hx.
      simpl. destruct (N.eqb_spec s0 x); [subst; contradiction|].
      rewrite sub_none. { apply (IHr NDr _ _ _ _ _ H0). }
      intros Hxl. apply (Hlr x Hxl Hx).
Qed.

Lemma sub_subtree t x u : sub t x = Some u -> subtree u t /\ exists c l e r, u = T c l x e r.
Proof.
  revert u. induction t as [|c l IHl s e r IHr]; simpl; intros u; [discriminate|].
  destruct (N.eqb_spec s x).
  - intros H; inversion H; subst. split; eauto.
  - destruct (sub l x) eqn:El.
    + intros H; inversion H; subst. destruct (IHl _ eq_refl) as [Hs Hex]. split; auto.
    + intros H. destruct (IHr _ H) as [Hs Hex]. split; auto.
Qed.

(* ---- the repair keeps the parent node, with the deficient subtree as its child on that side ---- *)
Lemma fixL36_keeps c l s e r t' d : fixL36 ent c l s e r = Some (t', d) -> exists c' r', subtree (T c' l s e r') t'.
Proof.
  unfold fixL36. destruct r as [|sc sl ss se sr]; [discriminate|].
  destruct (is_black ent sl && is_black ent sr). { intros H; inversion H; subst. eauto. }
  destruct (is_black ent sr).
  - destruct sl as [|? sll sls sle slr]; [discriminate|]. intros H; inversion H; subst. eauto.
  - intros H; inversion H; subst. eauto.
Qed.
Lemma fixR36_keeps c l s e r t' d : fixR36 ent c l s e r = Some (t', d) -> exists c' l', subtree (T c' l' s e r) t'.
Proof.
  unfold fixR36. destruct l as [|sc sl ss se sr]; [discriminate|].
  destruct (is_black ent sl && is_black ent sr). { intros H; inversion H; subst. eauto. }
  destruct (is_black ent sl).
  - destruct sr as [|? srl srs sre srr]; [discriminate|]. intros H; inversion H; subst. eauto.
  - intros H; inversion H; subst. eauto.
Qed.
Lemma fixL_keeps c l s e r t' d : fixL ent c l s e r = Some (t', d) -> exists c' r', subtree (T c' l s e r') t'.
Proof.
  unfold fixL. destruct r as [|[] sl ss se sr]; [discriminate| |apply fixL36_keeps].
  destruct (fixL36 ent Red l s e sl) as [[inner d']|] eqn:Hi; [|discriminate].
  intros H; inversion H; subst. destruct (fixL36_keeps _ _ _ _ _ _ _ Hi) as (c' & r' & Hs). eauto.
Qed.
Lemma fixR_keeps c l s e r t' d : fixR ent c l s e r = Some (t', d) -> exists c' l', subtree (T c' l' s e r) t'.
Proof.
  unfold fixR. destruct l as [|[] sl ss se sr]; [discriminate| |apply fixR36_keeps].
  destruct (fixR36 ent Red sr s e r) as [[inner d']|] eqn:Hi; [|discriminate].
  intros H; inversion H; subst. destruct (fixR36_keeps _ _ _ _ _ _ _ Hi) as (c' & r' & Hs). eauto.
Qed.

Lemma del_notin t y : ~ In y (slots t) -> del ent t y = NotFound.
Proof.
  unfold RBTree.slots. induction t as [|c l IHl s e r IHr]; simpl; auto. intros H.
  rewrite map_app, in_app_iff in H. simpl in H.
  destruct (N.eqb_spec s y); [exfalso; auto|].
  rewrite IHl by tauto. rewrite IHr by tauto. reflexivity.
Qed.

Lemma del_found t y : NoDup (slots t) -> In y (slots t) -> del ent t y <> NotFound.
Proof.
  intros ND Hy Hn. pose proof (del_spec ent t y ND) as H. rewrite Hn in H. auto.
Qed.

(* deletion below the left child of node x: x keeps slot and entity, its left subtree is [del lx y] *)
Lemma del_under_left t : NoDup (slots t) -> forall cx lx x ex rx y t' d f,
  subtree (T cx lx x ex rx) t -> In y (slots lx) -> del ent t y = Done t' d f ->
  exists lx' dl cx' rx', del ent lx y = Done lx' dl f /\ subtree (T cx' lx' x ex rx') t'.
Proof.
  induction t as [|c l IHl s e r IHr]; intros ND cx lx x ex rx y t' d f Hs Hy Hd; [inversion Hs|].
  destruct (NoDup_node _ _ _ _ _ ND) as (NDl & NDr & Hsl & Hsr & Hlr).
  assert (Hyt: In y (slots (T cx lx x ex rx))).
  { unfold RBTree.slots in *. simpl. rewrite map_app, in_app_iff. auto. }
  inversion Hs; subst.
  - (* here *)
    simpl in Hd. destruct (N.eqb_spec s y); [subst; contradiction|].
    pose proof (del_found l y NDl Hy) as Hnf.
    destruct (del ent l y) as [| |lx' dl f'] eqn:Hdl; [congruence|discriminate|].
    destruct dl.
    + destruct (fixL ent c lx' s e r) as [[t'' d'']|] eqn:Hf; [|discriminate].
      inversion Hd; subst. destruct (fixL_keeps _ _ _ _ _ _ _ Hf) as (c' & r' & Hk). eauto 8.
    + inversion Hd; subst. eauto 8.
  - (* in left subtree *)
    pose proof (subtree_slots _ _ y H0 Hyt) as Hyl.
    simpl in Hd. destruct (N.eqb_spec s y); [subst; contradiction|].
    pose proof (del_found l y NDl Hyl) as Hnf.
    destruct (del ent l y) as [| |l' dl f'] eqn:Hdl; [congruence|discriminate|].
    destruct (IHl NDl _ _ _ _ _ _ _ _ _ H0 Hy Hdl) as (lx' & dl0 & cx' & rx' & Hdx & Hsub).
    destruct dl.
    + destruct (fixL ent c l' s e r) as [[t'' d'']|] eqn:Hf; [|discriminate].
      inversion Hd; subst. destruct (fixL_keeps _ _ _ _ _ _ _ Hf) as (c' & r' & Hk).
      exists lx', dl0, cx', rx'. split; auto.
      eapply subtree_trans; [|exact Hk]. auto.
    + inversion Hd; subst. exists lx', dl0, cx', rx'. split; auto.
  - (* in right subtree *)
    pose proof (subtree_slots _ _ y H0 Hyt) as Hyr.
    simpl in Hd. destruct (N.eqb_spec s y); [subst; contradiction|].
    rewrite del_notin in Hd by (intros Hyl; apply (Hlr y Hyl Hyr)).
    destruct (del ent r y) as [| |r' dr f'] eqn:Hdr; [discriminate|discriminate|].
    destruct (IHr NDr _ _ _ _ _ _ _ _ _ H0 Hy Hdr) as (lx' & dl0 & cx' & rx' & Hdx & Hsub).
    destruct dr.
    + destruct (fixR ent c l s e r') as [[t'' d'']|] eqn:Hf; [|discriminate].
      inversion Hd; subst. destruct (fixR_keeps _ _ _ _ _ _ _ Hf) as (c' & l'' & Hk).
      exists lx', dl0, cx', rx'. split; auto.
      eapply subtree_trans; [|exact Hk]. auto.
    + inversion Hd; subst. exists lx', dl0, cx', rx'. split; auto.
Qed.
(* deletion below the right child of node x (mirror) *)
Lemma del_under_right t : NoDup (slots t) -> forall cx lx x ex rx y t' d f,
  subtree (T cx lx x ex rx) t -> In y (slots rx) -> del ent t y = Done t' d f ->
  exists rx' dr cx' lx', del ent rx y = Done rx' dr f /\ subtree (T cx' lx' x ex rx') t'.
Proof.
  induction t as [|c l IHl s e r IHr]; intros ND cx lx x ex rx y t' d f Hs Hy Hd; [inversion Hs|].
  destruct (NoDup_node _ _ _ _ _ ND) as (NDl & NDr & Hsl & Hsr & Hlr).
  assert (Hyt: In y (slots (T cx lx x ex rx))).
  { unfold RBTree.slots in *. simpl. rewrite map_app, in_app_iff. simpl. auto. }
  inversion Hs; subst.
  - (* here *)
    simpl in Hd. destruct (N.eqb_spec s y); [subst; contradiction|].
    rewrite del_notin in Hd by (intros Hyl; apply (Hlr y Hyl Hy)).
    pose proof (del_found r y NDr Hy) as Hnf.
    destruct (del ent r y) as [| |rx' dr f'] eqn:Hdr; [congruence|discriminate|].
    destruct dr.
    + destruct (fixR ent c l s e rx') as [[t'' d'']|] eqn:Hf; [|discriminate].
      inversion Hd; subst. destruct (fixR_keeps _ _ _ _ _ _ _ Hf) as (c' & l'' & Hk). eauto 8.
    + inversion Hd; subst. eauto 8.
  - (* in left subtree *)
    pose proof (subtree_slots _ _ y H0 Hyt) as Hyl.
    simpl in Hd. destruct (N.eqb_spec s y); [subst; contradiction|].
    pose proof (del_found l y NDl Hyl) as Hnf.
    destruct (del ent l y) as [| |l' dl f'] eqn:Hdl; [congruence|discriminate|].
    destruct (IHl NDl _ _ _ _ _ _ _ _ _ H0 Hy Hdl) as (rx' & dl0 & cx' & lx' & Hdx & Hsub).
    destruct dl.
    + destruct (fixL ent c l' s e r) as [[t'' d'']|] eqn:Hf; [|discriminate].
      inversion Hd; subst. destruct (fixL_keeps _ _ _ _ _ _ _ Hf) as (c' & r' & Hk).
      exists rx', dl0, cx', lx'. split; auto.
      eapply subtree_trans; [|exact Hk]. auto.
    + inversion Hd; subst. exists rx', dl0, cx', lx'. split; auto.
  - (* in right subtree *)
    pose proof (subtree_slots _ _ y H0 Hyt) as Hyr.
    simpl in Hd. destruct (N.eqb_spec s y); [subst; contradiction|].
    rewrite del_notin in Hd by (intros Hyl; apply (Hlr y Hyl Hyr)).
    destruct (del ent r y) as [| |r' dr f'] eqn:Hdr; [discriminate|discriminate|].
    destruct (IHr NDr _ _ _ _ _ _ _ _ _ H0 Hy Hdr) as (rx' & dl0 & cx' & lx' & Hdx & Hsub).
    destruct dr.
    + destruct (fixR ent c l s e r') as [[t'' d'']|] eqn:Hf; [|discriminate].
      inversion Hd; subst. destruct (fixR_keeps _ _ _ _ _ _ _ Hf) as (c' & l'' & Hk).
      exists rx', dl0, cx', lx'. split; auto.
      eapply subtree_trans; [|exact Hk]. auto.
    + inversion Hd; subst. exists rx', dl0, cx', lx'. split; auto.
Qed.
End S.
