(** * Masks of the 63-node heap: general facts about [bits]/[lowbit] and the complete sweep over all
      bucket ranges inside 0..31 (C15). *)
From Coq Require Import List NArith ZArith Bool Arith Lia Sorted.
Import ListNotations.
Require Import ITree.Model.Heap ITree.Model.Checkers.
Local Open Scope N_scope.

(** ** [bits]: the set bits below 64, ascending *)

Lemma bits_from_In : forall f i w j,
  In j (bits_from f i w) <-> (i <= j /\ j < i + N.of_nat f /\ N.testbit w j = true).
Proof.
  induction f as [|f IH]; intros i w j.
  - cbn [bits_from]. split; [intros []|]. intros (H1 & H2 & _). lia.
  - cbn [bits_from]. destruct (N.testbit w i) eqn:E.
    + cbn [In]. rewrite IH. split.
      * intros [<- | (H1 & H2 & H3)]; [repeat split; try lia; exact E | repeat split; try lia; exact H3].
      * intros (H1 & H2 & H3). destruct (N.eq_dec i j) as [->|N]; [now left|right].
        repeat split; try lia; exact H3.
    + rewrite IH. split.
      * intros (H1 & H2 & H3). repeat split; try lia; exact H3.
      * intros (H1 & H2 & H3). destruct (N.eq_dec i j) as [->|N]; [congruence|].
        repeat split; try lia; exact H3.
Qed.

Lemma bits_In : forall w i, In i (bits w) <-> (N.testbit w i = true /\ i < 64).
Proof.
  intros w i. unfold bits. rewrite bits_from_In.
  change (N.of_nat 64) with 64. split.
  - intros (_ & H & T). split; [exact T|lia].
  - intros (T & H). repeat split; try lia; exact T.
Qed.

Lemma bits_lt_64 : forall w i, In i (bits w) -> i < 64.
Proof. intros w i H. apply bits_In in H. tauto. Qed.

Lemma bits_from_sorted : forall f i w, StronglySorted N.lt (bits_from f i w).
Proof.
  induction f as [|f IH]; intros i w; cbn [bits_from].
  - constructor.
  - destruct (N.testbit w i).
    + constructor; [apply IH|]. apply Forall_forall. intros j H. apply bits_from_In in H. lia.
    + apply IH.
Qed.

(* strictly increasing *)
Lemma bits_sorted : forall w, StronglySorted N.lt (bits w).
Proof. intros w. apply bits_from_sorted. Qed.

Lemma bits_Sorted : forall w, Sorted N.lt (bits w).
Proof. intros w. apply StronglySorted_Sorted, bits_sorted. Qed.

Lemma StronglySorted_lt_NoDup : forall l, StronglySorted N.lt l -> NoDup l.
Proof.
  induction 1 as [|a l S IH F]; constructor; auto.
  intros H. rewrite Forall_forall in F. specialize (F a H). lia.
Qed.

Lemma bits_NoDup : forall w, NoDup (bits w).
Proof. intros w. apply StronglySorted_lt_NoDup, bits_sorted. Qed.

Lemma bits_land : forall x y i, In i (bits (N.land x y)) <-> In i (bits x) /\ In i (bits y).
Proof.
  intros x y i. rewrite !bits_In, N.land_spec, andb_true_iff. tauto.
Qed.

(** ** [lowbit] = trailing_zeros (64 on a zero word) *)

Lemma bits_nil_iff : forall w, bits w = [] <-> w mod 2^64 = 0.
Proof.
  intros w. split.
  - intros H. apply N.bits_inj. intros i. rewrite N.bits_0.
    destruct (N.lt_ge_cases i 64) as [L|G].
    + rewrite N.mod_pow2_bits_low by exact L.
      destruct (N.testbit w i) eqn:E; [|reflexivity].
      assert (In i (bits w)) as K by (apply bits_In; auto). rewrite H in K. destruct K.
    + apply N.mod_pow2_bits_high. exact G.
  - intros H. destruct (bits w) as [|b l] eqn:E; [reflexivity|].
    assert (In b (bits w)) as K by (rewrite E; now left).
    apply bits_In in K. destruct K as [T L].
    rewrite <- (N.mod_pow2_bits_low w 64 b L), H, N.bits_0 in T. discriminate.
Qed.

Lemma lowbit_cases : forall w,
  (bits w = [] /\ lowbit w = 64) \/ (exists b l, bits w = b :: l /\ lowbit w = b).
Proof.
  intros w. unfold lowbit. destruct (bits w) as [|b l].
  - left. split; reflexivity.
  - right. exists b, l. split; reflexivity.
Qed.

Lemma lowbit_64_iff : forall w, lowbit w = 64 <-> w mod 2^64 = 0.
Proof.
  intros w. rewrite <- bits_nil_iff.
  destruct (lowbit_cases w) as [[E ->]|(b & l & E & ->)].
  - tauto.
  - split; [|rewrite E; discriminate]. intros ->.
    assert (In 64 (bits w)) as K by (rewrite E; now left).
    apply bits_lt_64 in K. lia.
Qed.

Lemma lowbit_le_64 : forall w, lowbit w <= 64.
Proof.
  intros w. destruct (lowbit_cases w) as [[E ->]|(b & l & E & ->)]; [lia|].
  assert (In b (bits w)) as K by (rewrite E; now left). apply bits_lt_64 in K. lia.
Qed.

Lemma lowbit_In : forall w, w mod 2^64 <> 0 -> In (lowbit w) (bits w).
Proof.
  intros w H. rewrite <- bits_nil_iff in H.
  destruct (lowbit_cases w) as [[E _]|(b & l & E & ->)]; [congruence|].
  rewrite E. now left.
Qed.

Lemma lowbit_least : forall w j, j < lowbit w -> N.testbit w j = false.
Proof.
  intros w j H. destruct (N.testbit w j) eqn:T; [|reflexivity].
  pose proof (lowbit_le_64 w) as L64.
  assert (In j (bits w)) as K by (apply bits_In; split; [exact T|lia]).
  pose proof (bits_sorted w) as S.
  destruct (lowbit_cases w) as [[E _]|(b & l & E & Eb)].
  - rewrite E in K. destruct K.
  - rewrite E in K, S. rewrite Eb in H.
    destruct K as [->|K]; [lia|].
    inversion S as [|? ? _ F]; subst. rewrite Forall_forall in F. specialize (F j K). lia.
Qed.

(* the general version: any word whose low 64 bits are not all zero *)
Lemma lowbit_spec_mod : forall w, w mod 2^64 <> 0 ->
  lowbit w < 64 /\ N.testbit w (lowbit w) = true /\ forall j, j < lowbit w -> N.testbit w j = false.
Proof.
  intros w H. pose proof (lowbit_In w H) as K. apply bits_In in K.
  destruct K as [T L]. repeat split; auto. apply lowbit_least.
Qed.

Lemma lowbit_spec : forall w, w <> 0 -> w < 2^64 ->
  N.testbit w (lowbit w) = true /\ forall j, j < lowbit w -> N.testbit w j = false.
Proof.
  intros w H L. assert (w mod 2^64 <> 0) as M by (rewrite N.mod_small; assumption).
  destruct (lowbit_spec_mod w M) as (_ & A & B). auto.
Qed.

Lemma lowbit_64_iff_small : forall w, w < 2^64 -> (lowbit w = 64 <-> w = 0).
Proof. intros w L. rewrite lowbit_64_iff, N.mod_small by exact L. tauto. Qed.

(* the lowest common bit of two words is a set bit of both *)
Lemma lowbit_land_In : forall x y, N.land x y <> 0 -> x < 2^64 ->
  In (lowbit (N.land x y)) (bits x) /\ In (lowbit (N.land x y)) (bits y).
Proof.
  intros x y H L. refine (proj1 (bits_land x y (lowbit (N.land x y))) _).
  refine (lowbit_In (N.land x y) _). intros M. apply H.
  apply N.bits_inj. intros i. rewrite N.bits_0.
  destruct (N.lt_ge_cases i 64) as [Li|Gi].
  - rewrite <- (N.mod_pow2_bits_low _ 64 i Li), M. apply N.bits_0.
  - rewrite N.land_spec.
    assert (N.testbit x i = false) as ->; [|reflexivity].
    destruct (N.eq_dec x 0) as [->|NZ]; [apply N.bits_0|].
    apply N.bits_above_log2. apply N.lt_le_trans with 64; [|exact Gi].
    apply N.log2_lt_pow2; lia.
Qed.

(** ** The meaning of the boolean tiling checker *)

Definition R32 : list N := map N.of_nat (seq 0 32).

Lemma R32_In : forall x, x < 32 -> In x R32.
Proof.
  intros x H. unfold R32. rewrite <- (N2Nat.id x). apply in_map. apply in_seq. lia.
Qed.

Lemma forallb_R32 : forall (P: N -> bool), forallb P R32 = true -> forall x, x < 32 -> P x = true.
Proof. intros P H x L. rewrite forallb_forall in H. apply H, R32_In, L. Qed.

Lemma tiles_ok_spec : forall ps a b, tiles_ok ps a b = true ->
  (length ps <= 8)%nat /\
  forall x, x < 32 -> covers ps x = (if (a <=? x) && (x <=? b) then 1%nat else 0%nat).
Proof.
  intros ps a b H. unfold tiles_ok in H. apply andb_true_iff in H. destruct H as [H1 H2].
  split; [apply Nat.leb_le, H2|].
  intros x L. fold R32 in H1. pose proof (forallb_R32 _ H1 x L) as K. cbv beta in K.
  apply Nat.eqb_eq in K. exact K.
Qed.

(* what [covers] counts: the places of [ps] that are x's leaf or one of its ancestors *)
Lemma covers_spec : forall ps x,
  covers ps x = length (filter (fun p => existsb (N.eqb p) (ancestors 6 (x + 31))) ps).
Proof. reflexivity. Qed.

Lemma covers_one_unique : forall ps x, NoDup ps -> covers ps x = 1%nat ->
  exists p, In p ps /\ In p (ancestors 6 (x + 31)) /\
            forall q, In q ps -> In q (ancestors 6 (x + 31)) -> q = p.
Proof.
  intros ps x ND H. unfold covers in H.
  set (f := fun p => existsb (N.eqb p) (ancestors 6 (x + 31))) in *.
  assert (forall q, f q = true <-> In q (ancestors 6 (x + 31))) as Fq.
  { intros q. unfold f. rewrite existsb_exists. split.
    - intros (y & I & E). apply N.eqb_eq in E. now subst.
    - intros I. exists q. split; [exact I|apply N.eqb_refl]. }
  destruct (filter f ps) as [|p [|p' l]] eqn:E; try discriminate.
  assert (In p (filter f ps)) as K by (rewrite E; now left).
  apply filter_In in K. destruct K as [K1 K2].
  exists p. repeat split; [exact K1|apply Fq, K2|].
  intros q Q1 Q2. assert (In q (filter f ps)) as K by (apply filter_In; split; [exact Q1|apply Fq, Q2]).
  rewrite E in K. destruct K as [->|[]]. reflexivity.
Qed.

Lemma covers_zero_none : forall ps x, covers ps x = 0%nat ->
  forall q, In q ps -> ~ In q (ancestors 6 (x + 31)).
Proof.
  intros ps x H q Q1 Q2. unfold covers in H. apply length_zero_iff_nil in H.
  assert (In q (filter (fun p => existsb (N.eqb p) (ancestors 6 (x + 31))) ps)) as K.
  { apply filter_In. split; [exact Q1|]. apply existsb_exists. exists q. split; [exact Q2|apply N.eqb_refl]. }
  rewrite H in K. destruct K.
Qed.

(** ** The table of all 528 bucket ranges with both masks, computed once *)

Definition mask_table : list (N * N * N * N) :=
  flat_map (fun a => flat_map (fun b =>
     if a <=? b then [(a, b, place_mask a b, visit_mask a b)] else []) R32) R32.

Lemma mask_table_In : forall a b, a <= b -> b < 32 ->
  In (a, b, place_mask a b, visit_mask a b) mask_table.
Proof.
  intros a b H L. unfold mask_table. apply in_flat_map. exists a. split; [apply R32_In; lia|].
  apply in_flat_map. exists b. split; [apply R32_In; lia|].
  apply N.leb_le in H. rewrite H. now left.
Qed.

(* run a check on every entry / every ordered pair of entries; the table is built once (the
   argument of a beta-redex is evaluated first by vm_compute) *)
Definition sweep1 (chk: N -> N -> N -> N -> bool) : bool :=
  (fun t => forallb (fun e => let '(a, b, pm, vm) := e in chk a b pm vm) t) mask_table.

Definition sweep2 (chk: N -> N -> N -> N -> N -> N -> bool) : bool :=
  (fun t => forallb (fun e => let '(a, b, pm, _) := e in
              forallb (fun e' => let '(c, d, _, vm) := e' in chk a b c d pm vm) t) t) mask_table.

Lemma sweep1_sound : forall chk, sweep1 chk = true ->
  forall a b, a <= b -> b < 32 -> chk a b (place_mask a b) (visit_mask a b) = true.
Proof.
  intros chk H a b L1 L2. unfold sweep1 in H. rewrite forallb_forall in H.
  exact (H _ (mask_table_In a b L1 L2)).
Qed.

Lemma sweep2_sound : forall chk, sweep2 chk = true ->
  forall a b c d, a <= b -> b < 32 -> c <= d -> d < 32 ->
  chk a b c d (place_mask a b) (visit_mask c d) = true.
Proof.
  intros chk H a b c d L1 L2 L3 L4. unfold sweep2 in H. rewrite forallb_forall in H.
  pose proof (H _ (mask_table_In a b L1 L2)) as K. cbv beta iota in K.
  rewrite forallb_forall in K. exact (K _ (mask_table_In c d L3 L4)).
Qed.

(** ** C15: the sweeps *)

Lemma meet_sweep :
  sweep2 (fun a b c d pm vm => Bool.eqb (negb (N.land pm vm =? 0)) ((a <=? d) && (c <=? b))) = true.
Proof. vm_compute. reflexivity. Qed.

Lemma meet_iff_overlap : forall a b c d : N, a <= b -> b < 32 -> c <= d -> d < 32 ->
  (N.land (place_mask a b) (visit_mask c d) <> 0 <-> (a <= d /\ c <= b)).
Proof.
  intros a b c d L1 L2 L3 L4.
  pose proof (sweep2_sound _ meet_sweep a b c d L1 L2 L3 L4) as K. cbv beta in K.
  apply eqb_prop in K. rewrite <- N.leb_le, <- (N.leb_le c b), <- andb_true_iff, <- K.
  rewrite negb_true_iff, N.eqb_neq. tauto.
Qed.

Lemma tiling_sweep : sweep1 (fun a b pm _ => tiles_ok (bits pm) a b) = true.
Proof. vm_compute. reflexivity. Qed.

Lemma tiling : forall a b : N, a <= b -> b < 32 -> tiles_ok (bits (place_mask a b)) a b = true.
Proof. intros a b L1 L2. exact (sweep1_sound _ tiling_sweep a b L1 L2). Qed.

Lemma fit_sweep :
  sweep1 (fun _ _ pm vm => (pm <? 2^63) && (vm <? 2^63) && negb (pm =? 0)) = true.
Proof. vm_compute. reflexivity. Qed.

Lemma masks_fit : forall a b : N, a <= b -> b < 32 ->
  place_mask a b < 2^63 /\ visit_mask a b < 2^63 /\ place_mask a b <> 0.
Proof.
  intros a b L1 L2. pose proof (sweep1_sound _ fit_sweep a b L1 L2) as K. cbv beta in K.
  apply andb_true_iff in K. destruct K as [K K3]. apply andb_true_iff in K. destruct K as [K1 K2].
  apply N.ltb_lt in K1. apply N.ltb_lt in K2. apply negb_true_iff, N.eqb_neq in K3. auto.
Qed.

Lemma lowbit_common : forall a b c d : N, a <= b -> b < 32 -> c <= d -> d < 32 ->
  a <= d -> c <= b ->
  In (lowbit (N.land (place_mask a b) (visit_mask c d))) (bits (visit_mask c d)) /\
  In (lowbit (N.land (place_mask a b) (visit_mask c d))) (bits (place_mask a b)).
Proof.
  intros a b c d L1 L2 L3 L4 O1 O2.
  assert (N.land (place_mask a b) (visit_mask c d) <> 0) as NZ
    by (apply meet_iff_overlap; auto).
  destruct (masks_fit a b L1 L2) as (F & _ & _).
  assert (place_mask a b < 2^64) as F' by (eapply N.lt_trans; [exact F|reflexivity]).
  destruct (lowbit_land_In _ _ NZ F') as [A B]. split; assumption.
Qed.

(* every place a range writes to / looks at lies at or before the leaf of its last bucket; this is
   what makes [lcount] places enough (used by C14_backed) *)
Lemma bound_sweep :
  sweep1 (fun _ b pm vm => forallb (fun i => i <=? 31 + b) (bits pm)
                           && forallb (fun i => i <=? 31 + b) (bits vm)) = true.
Proof. vm_compute. reflexivity. Qed.

Lemma mask_bits_bound : forall a b : N, a <= b -> b < 32 ->
  (forall i, In i (bits (place_mask a b)) -> i <= 31 + b) /\
  (forall i, In i (bits (visit_mask a b)) -> i <= 31 + b).
Proof.
  intros a b L1 L2. pose proof (sweep1_sound _ bound_sweep a b L1 L2) as K. cbv beta in K.
  apply andb_true_iff in K. destruct K as [K1 K2]. rewrite forallb_forall in K1, K2.
  split; intros i I; apply N.leb_le; [exact (K1 i I)|exact (K2 i I)].
Qed.

(* the tiling in propositional form: the places are distinct, at most 8, and bucket x has exactly one
   place on its leaf-to-root path when a <= x <= b and none otherwise *)
Lemma tiling_prop : forall a b : N, a <= b -> b < 32 ->
  let ps := bits (place_mask a b) in
  NoDup ps /\ (length ps <= 8)%nat /\
  forall x, x < 32 ->
    (a <= x <= b -> exists p, In p ps /\ In p (ancestors 6 (x + 31)) /\
                      forall q, In q ps -> In q (ancestors 6 (x + 31)) -> q = p) /\
    (~ (a <= x <= b) -> forall q, In q ps -> ~ In q (ancestors 6 (x + 31))).
Proof.
  intros a b L1 L2 ps. destruct (tiles_ok_spec _ _ _ (tiling a b L1 L2)) as [Len Cov].
  fold ps in Len, Cov. split; [apply bits_NoDup|]. split; [exact Len|].
  intros x Lx. specialize (Cov x Lx). split.
  - intros [X1 X2]. apply N.leb_le in X1, X2. rewrite X1, X2 in Cov. cbn [andb] in Cov.
    apply covers_one_unique; [apply bits_NoDup|exact Cov].
  - intros NX. apply covers_zero_none.
    destruct (a <=? x) eqn:E1; [|exact Cov]. destruct (x <=? b) eqn:E2; [|exact Cov].
    apply N.leb_le in E1, E2. lia.
Qed.

(** ** Non-vacuity *)
Example ex_meet : N.land (place_mask 3 17) (visit_mask 17 20) <> 0 /\ N.land (place_mask 3 17) (visit_mask 18 20) = 0.
Proof. vm_compute. split; [discriminate|reflexivity]. Qed.
Example ex_tiling : bits (place_mask 0 12) = [3; 9; 43] /\ tiles_ok [3; 9; 43] 0 12 = true.
Proof. vm_compute. split; reflexivity. Qed.
Example ex_lowbit : lowbit (N.land (place_mask 0 12) (visit_mask 5 6)) = 3 /\
                    lowbit (N.land (place_mask 0 12) (visit_mask 9 20)) = 9.
Proof. vm_compute. split; reflexivity. Qed.
Example ex_table : length mask_table = 528%nat.
Proof. vm_compute. reflexivity. Qed.
