(** * The read-only descents of the tree model expressed on the in-order element list:
    find_slot, ent_at, first_by (predecessor under a comparator), after_in / before_in (neighbour
    steps), set_at (write through a handle), level_order (the order in which clear frees slots). *)
From Coq Require Import List NArith ZArith Bool Lia Permutation Sorted.
Import ListNotations.
Require Import ITree.Model.RBTree ITree.Proofs.RBElems ITree.Proofs.RBInv ITree.Proofs.Subtree.

Section Lookup.
Variable ent : Type.
Variable key_of : ent -> Z.
Notation tree := (tree ent).
Notation elements := (elements ent).
Notation slots := (slots ent).
Notation ents := (ents ent).
Notation bst := (bst ent key_of).
Local Open Scope Z_scope.

Lemma slots_T c l s e (r: tree) : slots (T c l s e r) = slots l ++ s :: slots r.
Proof. unfold RBTree.slots. simpl. rewrite map_app. reflexivity. Qed.

Lemma ents_T c l s e (r: tree) : ents (T c l s e r) = ents l ++ e :: ents r.
Proof. unfold RBTree.ents. simpl. rewrite map_app. reflexivity. Qed.

Lemma in_elements_slots (t: tree) s e : In (s, e) (elements t) -> In s (slots t).
Proof. intros H. unfold RBTree.slots. apply in_map_iff. exists (s, e). auto. Qed.

Lemma in_elements_ents (t: tree) s e : In (s, e) (elements t) -> In e (ents t).
Proof. intros H. unfold RBTree.ents. apply in_map_iff. exists (s, e). auto. Qed.

(** ** find_slot *)
Lemma find_slot_spec (t: tree) k : bst t ->
  match find_slot ent key_of t k with
  | Some s => exists e, In (s, e) (elements t) /\ key_of e = k
  | None => forall p, In p (elements t) -> key_of (snd p) <> k
  end.
Proof.
  induction t as [|c l IHl s e r IHr]; intros Hb; simpl.
  - intros p [].
  - destruct (bst_inv ent key_of _ _ _ _ _ Hb) as (Hbl & Hbr & Hlt & Hgt).
    destruct (Z.compare_spec k (key_of e)) as [Heq|Hlt'|Hgt'].
    + exists e. split; auto. apply in_or_app. simpl. auto.
    + specialize (IHl Hbl). destruct (find_slot ent key_of l k) as [s'|].
      * destruct IHl as (e' & Hin & Hk). exists e'. split; auto. apply in_or_app. auto.
      * intros p Hp. apply in_app_or in Hp. destruct Hp as [Hp|[<-|Hp]]; simpl.
        -- apply IHl. exact Hp.
        -- lia.
        -- specialize (Hgt p Hp). lia.
    + specialize (IHr Hbr). destruct (find_slot ent key_of r k) as [s'|].
      * destruct IHr as (e' & Hin & Hk). exists e'. split; auto. apply in_or_app. simpl. auto.
      * intros p Hp. apply in_app_or in Hp. destruct Hp as [Hp|[<-|Hp]]; simpl.
        -- specialize (Hlt p Hp). lia.
        -- lia.
        -- apply IHr. exact Hp.
Qed.

(** ** ent_at *)
Lemma sub_in (t: tree) x u : sub ent t x = Some u -> exists c l e r, u = T c l x e r /\ In (x, e) (elements t).
Proof.
  intros H. destruct (sub_subtree ent t x u H) as (Hs & c & l & e & r & ->).
  exists c, l, e, r. split; auto.
  clear H. remember (T c l x e r) as u. induction Hs; subst.
  - simpl. apply in_or_app. simpl. auto.
  - simpl. apply in_or_app. left. auto.
  - simpl. apply in_or_app. simpl. auto.
Qed.

Lemma ent_at_in (t: tree) x e : ent_at ent t x = Some e -> In (x, e) (elements t).
Proof.
  unfold ent_at. destruct (sub ent t x) as [u|] eqn:Hs; [|discriminate].
  destruct (sub_in t x u Hs) as (c & l & e' & r & -> & Hin). intros H. inversion H; subst. exact Hin.
Qed.

Lemma NoDup_fst_unique (l: list (N * ent)) y e1 e2 : NoDup (map fst l) -> In (y, e1) l -> In (y, e2) l -> e1 = e2.
Proof.
  induction l as [|[s e] l IH]; simpl; intros ND H1 H2; [tauto|]. inversion ND; subst.
  destruct H1 as [H1|H1], H2 as [H2|H2]; try congruence.
  - inversion H1; subst. exfalso. apply H3. apply in_map_iff. exists (y, e2). auto.
  - inversion H2; subst. exfalso. apply H3. apply in_map_iff. exists (y, e1). auto.
  - auto.
Qed.

Lemma ent_at_of_in (t: tree) x e : NoDup (slots t) -> In (x, e) (elements t) -> ent_at ent t x = Some e.
Proof.
  intros ND Hin. unfold ent_at.
  destruct (sub ent t x) as [u|] eqn:Hs.
  - destruct (sub_in t x u Hs) as (c & l & e' & r & -> & Hin'). f_equal.
    eapply NoDup_fst_unique; eauto.
  - exfalso. assert (Hx: In x (slots t)) by (eapply in_elements_slots; eauto).
    clear Hin ND. induction t as [|c l IHl s e0 r IHr]; simpl in *; [tauto|].
    destruct (N.eqb_spec s x); [discriminate|].
    rewrite slots_T in Hx. apply in_app_or in Hx. destruct Hx as [Hx|[Hx|Hx]]; [|congruence|].
    + destruct (sub ent l x); [discriminate|]. auto.
    + destruct (sub ent l x); [discriminate|]. auto.
Qed.

Lemma ent_at_none (t: tree) x : ~ In x (slots t) -> ent_at ent t x = None.
Proof. intros H. unfold ent_at. rewrite (sub_none ent t x H). reflexivity. Qed.

(** ** the predecessor descent on a list *)
Fixpoint lpick (f: Z -> comparison) (l: list (N * ent)) (acc: option N) : option N :=
  match l with
  | [] => acc
  | (s, e) :: l' =>
    match f (key_of e) with
    | Lt => lpick f l' (Some s)
    | Eq => Some s
    | Gt => acc
    end
  end.

Lemma lpick_app_gt f A s e B acc : f (key_of e) = Gt -> lpick f (A ++ (s, e) :: B) acc = lpick f A acc.
Proof.
  intros Hg. revert acc. induction A as [|[s' e'] A IH]; intros acc; simpl.
  - rewrite Hg. reflexivity.
  - destruct (f (key_of e')); auto.
Qed.

Lemma lpick_app_lt f A B acc : (forall p, In p A -> f (key_of (snd p)) = Lt) ->
  lpick f (A ++ B) acc = lpick f B (match rev A with [] => acc | (s, _) :: _ => Some s end).
Proof.
  revert acc. induction A as [|[s' e'] A IH]; intros acc HA; simpl; [reflexivity|].
  pose proof (HA (s', e') (or_introl eq_refl)) as K. simpl in K. rewrite K.
  rewrite IH by (intros p Hp; apply HA; simpl; auto).
  f_equal. destruct (rev A) as [|[s2 e2] R] eqn:HR; simpl; reflexivity.
Qed.

Definition mono_list (f: Z -> comparison) (l: list (N * ent)) : Prop :=
  forall p q, In p l -> In q l -> key_of (snd p) < key_of (snd q) ->
    (f (key_of (snd q)) = Lt -> f (key_of (snd p)) = Lt) /\
    (f (key_of (snd p)) = Gt -> f (key_of (snd q)) = Gt) /\
    (f (key_of (snd p)) = Eq -> f (key_of (snd q)) = Gt).

Lemma first_by_lpick (t: tree) f acc : bst t -> mono_list f (elements t) ->
  first_by ent key_of t f acc = lpick f (elements t) acc.
Proof.
  revert acc. induction t as [|c l IHl s e r IHr]; intros acc Hb Hm; [reflexivity|].
  destruct (bst_inv ent key_of _ _ _ _ _ Hb) as (Hbl & Hbr & Hlt & Hgt).
  assert (Hml: mono_list f (elements l)).
  { intros p q Hp Hq. apply Hm; simpl; apply in_or_app; auto. }
  assert (Hmr: mono_list f (elements r)).
  { intros p q Hp Hq. apply Hm; simpl; apply in_or_app; simpl; auto. }
  assert (Hse: In (s, e) (elements (T c l s e r))) by (simpl; apply in_or_app; simpl; auto).
  simpl. destruct (f (key_of e)) eqn:Hf.
  - (* Eq: everything on the left is Lt *)
    rewrite lpick_app_lt.
    + simpl. rewrite Hf. reflexivity.
    + intros p Hp. assert (Hpt: In p (elements (T c l s e r))) by (simpl; apply in_or_app; auto).
      destruct (Hm p (s, e) Hpt Hse (Hlt p Hp)) as (_ & K2 & K3). simpl in *.
      destruct (f (key_of (snd p))) eqn:Hfp; auto.
      * rewrite (K3 eq_refl) in Hf. discriminate.
      * rewrite (K2 eq_refl) in Hf. discriminate.
  - rewrite IHr by auto. rewrite lpick_app_lt.
    + simpl. rewrite Hf. reflexivity.
    + intros p Hp. assert (Hpt: In p (elements (T c l s e r))) by (simpl; apply in_or_app; auto).
      destruct (Hm p (s, e) Hpt Hse (Hlt p Hp)) as (K1 & _ & _). simpl in *. auto.
  - rewrite IHl by auto. rewrite lpick_app_gt by exact Hf. reflexivity.
Qed.

(** ** neighbour steps on a list *)
Definition hd_slot (l: list (N * ent)) (dflt: option N) : option N :=
  match l with [] => dflt | (s, _) :: _ => Some s end.
Definition last_slot (l: list (N * ent)) (dflt: option N) : option N :=
  match rev l with [] => dflt | (s, _) :: _ => Some s end.

(* the slot following x in the list, [anc] past the end; None when x is not in the list *)
Fixpoint lnext (x: N) (l: list (N * ent)) (anc: option N) : option (option N) :=
  match l with
  | [] => None
  | (s, _) :: l' => if N.eqb s x then Some (hd_slot l' anc) else lnext x l' anc
  end.
(* the slot preceding x; [anc] before the beginning *)
Fixpoint lprev (x: N) (l: list (N * ent)) (anc: option N) : option (option N) :=
  match l with
  | [] => None
  | (s, _) :: l' => if N.eqb s x then Some anc else lprev x l' (Some s)
  end.

Lemma leftmost_hd (t: tree) d : leftmost ent t d = hd_slot (elements t) d.
Proof.
  revert d. induction t as [|c l IHl s e r _]; intros d; [reflexivity|].
  simpl. rewrite IHl. destruct (elements l) as [|[s' e'] L]; reflexivity.
Qed.

Lemma rightmost_last (t: tree) d : rightmost ent t d = last_slot (elements t) d.
Proof.
  revert d. induction t as [|c l _ s e r IHr]; intros d; [reflexivity|].
  simpl. rewrite IHr. unfold last_slot. rewrite rev_app_distr. simpl.
  destruct (rev (elements r)) as [|[s' e'] L]; reflexivity.
Qed.

Lemma lnext_notin x l anc : ~ In x (map fst l) -> lnext x l anc = None.
Proof.
  induction l as [|[s e] l IH]; simpl; auto. intros H.
  destruct (N.eqb_spec s x); [exfalso; auto|]. apply IH. tauto.
Qed.

Lemma lnext_in x l anc : In x (map fst l) -> lnext x l anc <> None.
Proof.
  induction l as [|[s e] l IH]; simpl; [tauto|]. intros [->|H].
  - rewrite N.eqb_refl. discriminate.
  - destruct (N.eqb s x); [discriminate|]. auto.
Qed.

Lemma lnext_app_notin x A B anc : ~ In x (map fst A) -> lnext x (A ++ B) anc = lnext x B anc.
Proof.
  induction A as [|[s e] A IH]; simpl; auto. intros H.
  destruct (N.eqb_spec s x); [exfalso; auto|]. apply IH. tauto.
Qed.

Lemma lnext_app_in x A s e B anc : In x (map fst A) ->
  lnext x (A ++ (s, e) :: B) anc = lnext x A (Some s).
Proof.
  induction A as [|[s' e'] A IH]; simpl; [tauto|]. intros H.
  destruct (N.eqb_spec s' x).
  - f_equal. destruct A as [|[s2 e2] A]; reflexivity.
  - apply IH. destruct H; [congruence|auto].
Qed.

Lemma after_in_lnext (t: tree) x anc : NoDup (slots t) -> after_in ent t x anc = lnext x (elements t) anc.
Proof.
  revert anc. induction t as [|c l IHl s e r IHr]; intros anc ND; [reflexivity|].
  destruct (NoDup_node ent _ _ _ _ _ ND) as (NDl & NDr & Hsl & Hsr & Hlr).
  simpl. destruct (N.eqb_spec s x) as [->|Hne].
  - rewrite lnext_app_notin by exact Hsl. simpl. rewrite N.eqb_refl. rewrite leftmost_hd. reflexivity.
  - rewrite IHl by auto.
    destruct (in_dec N.eq_dec x (slots l)) as [Hin|Hnin].
    + rewrite lnext_app_in by exact Hin.
      destruct (lnext x (elements l) (Some s)) eqn:Hl; [reflexivity|].
      exfalso. eapply lnext_in; eauto.
    + rewrite (lnext_notin x (elements l)) by exact Hnin.
      rewrite lnext_app_notin by exact Hnin. simpl.
      destruct (N.eqb_spec s x); [congruence|]. apply IHr. exact NDr.
Qed.

Lemma lprev_notin x l anc : ~ In x (map fst l) -> lprev x l anc = None.
Proof.
  revert anc. induction l as [|[s e] l IH]; intros anc; simpl; auto. intros H.
  destruct (N.eqb_spec s x); [exfalso; auto|]. apply IH. tauto.
Qed.

Lemma lprev_in x l anc : In x (map fst l) -> lprev x l anc <> None.
Proof.
  revert anc. induction l as [|[s e] l IH]; intros anc; simpl; [tauto|]. intros [->|H].
  - rewrite N.eqb_refl. discriminate.
  - destruct (N.eqb s x); [discriminate|]. auto.
Qed.

Lemma lprev_app_in x A B anc : In x (map fst A) -> lprev x (A ++ B) anc = lprev x A anc.
Proof.
  revert anc. induction A as [|[s e] A IH]; intros anc; simpl; [tauto|]. intros H.
  destruct (N.eqb_spec s x); [reflexivity|]. apply IH. destruct H; [congruence|auto].
Qed.

Lemma lprev_app_notin x A B anc : ~ In x (map fst A) ->
  lprev x (A ++ B) anc = lprev x B (last_slot A anc).
Proof.
  revert anc. induction A as [|[s e] A IH]; intros anc; simpl; [reflexivity|]. intros H.
  destruct (N.eqb_spec s x); [exfalso; auto|]. rewrite IH by tauto. f_equal.
  unfold last_slot. simpl. destruct (rev A) as [|[s2 e2] R]; reflexivity.
Qed.

Lemma before_in_lprev (t: tree) x anc : NoDup (slots t) -> before_in ent t x anc = lprev x (elements t) anc.
Proof.
  revert anc. induction t as [|c l IHl s e r IHr]; intros anc ND; [reflexivity|].
  destruct (NoDup_node ent _ _ _ _ _ ND) as (NDl & NDr & Hsl & Hsr & Hlr).
  simpl. destruct (N.eqb_spec s x) as [->|Hne].
  - rewrite lprev_app_notin by exact Hsl. simpl. rewrite N.eqb_refl. rewrite rightmost_last. reflexivity.
  - rewrite IHl by auto.
    destruct (in_dec N.eq_dec x (slots l)) as [Hin|Hnin].
    + rewrite lprev_app_in by exact Hin.
      destruct (lprev x (elements l) anc) eqn:Hl; [reflexivity|].
      exfalso. eapply lprev_in; eauto.
    + rewrite (lprev_notin x (elements l)) by exact Hnin.
      rewrite lprev_app_notin by exact Hnin. simpl.
      destruct (N.eqb_spec s x); [congruence|]. apply IHr. exact NDr.
Qed.

(** ** writing through a handle *)
Definition upd (x: N) (ne: ent) (p: N * ent) : N * ent := if N.eqb (fst p) x then (fst p, ne) else p.

Lemma set_at_notin (t: tree) x ne : ~ In x (slots t) -> set_at ent t x ne = t.
Proof.
  induction t as [|c l IHl s e r IHr]; intros H; [reflexivity|].
  rewrite slots_T in H. simpl. destruct (N.eqb_spec s x).
  - exfalso. apply H. apply in_or_app. simpl. auto.
  - rewrite IHl, IHr; auto; intros K; apply H; apply in_or_app; simpl; auto.
Qed.

Lemma map_upd_notin x ne (l: list (N * ent)) : ~ In x (map fst l) -> map (upd x ne) l = l.
Proof.
  induction l as [|[s e] l IH]; simpl; auto. intros H. unfold upd at 1. simpl.
  destruct (N.eqb_spec s x); [exfalso; auto|]. rewrite IH; tauto.
Qed.

Lemma set_at_elements (t: tree) x ne : NoDup (slots t) ->
  elements (set_at ent t x ne) = map (upd x ne) (elements t).
Proof.
  induction t as [|c l IHl s e r IHr]; intros ND; [reflexivity|].
  destruct (NoDup_node ent _ _ _ _ _ ND) as (NDl & NDr & Hsl & Hsr & Hlr).
  simpl. destruct (N.eqb_spec s x) as [->|Hne].
  - simpl. rewrite map_app. simpl. unfold upd at 2. simpl. rewrite N.eqb_refl.
    rewrite !map_upd_notin; auto.
  - simpl. rewrite map_app. simpl. unfold upd at 2. simpl.
    destruct (N.eqb_spec s x); [congruence|]. rewrite IHl, IHr; auto.
Qed.

Lemma set_at_slots (t: tree) x ne : NoDup (slots t) -> slots (set_at ent t x ne) = slots t.
Proof.
  intros ND. unfold RBTree.slots. rewrite set_at_elements by exact ND. rewrite map_map.
  apply map_ext. intros [s e]. unfold upd. simpl. destruct (N.eqb s x); reflexivity.
Qed.

Lemma set_at_rbi (t: tree) x ne : rbi ent t -> rbi ent (set_at ent t x ne).
Proof.
  assert (Hbh: forall t, bh ent (set_at ent t x ne) = bh ent t).
  { induction t0 as [|c l IHl s e r IHr]; simpl; auto. destruct (N.eqb s x); simpl; auto; try (rewrite IHl; reflexivity). }
  assert (Hbl: forall t, blk ent (set_at ent t x ne) <-> blk ent t).
  { intros [|c l s e r]; simpl; [tauto|]. destruct (N.eqb s x); destruct c; unfold blk; simpl; tauto. }
  induction t as [|c l IHl s e r IHr]; intros H; simpl; auto.
  apply rbi_inv in H. destruct H as (Hl & Hr & Hb & Hc).
  destruct (N.eqb s x).
  - apply rbi_T; auto.
  - apply rbi_T; auto.
    + rewrite !Hbh. exact Hb.
    + intros Hred. destruct (Hc Hred). split; apply Hbl; auto.
Qed.

(** ** clear frees the slots in level order: a permutation of the stored slots *)
Lemma slots_perm_node c (l: tree) s e r : Permutation (slots (T c l s e r)) (s :: slots l ++ slots r).
Proof. rewrite slots_T. apply Permutation_sym. apply Permutation_middle. Qed.

Lemma children_slots (t: tree) :
  Permutation (slots t) (root_slots ent t ++ flat_map slots (children ent t)).
Proof.
  destruct t as [|c l s e r]; [reflexivity|].
  simpl. rewrite slots_perm_node. apply perm_skip.
  destruct l as [|lc ll ls le lr], r as [|rc rl rs re rr]; simpl; rewrite ?app_nil_r; reflexivity.
Qed.

Lemma flat_map_perm {A B} (f g: A -> list B) (l: list A) :
  (forall x, In x l -> Permutation (f x) (g x)) -> Permutation (flat_map f l) (flat_map g l).
Proof.
  induction l as [|x l IH]; simpl; intros H; [reflexivity|].
  apply Permutation_app; [apply H; auto | apply IH; intros; apply H; auto].
Qed.

Lemma flat_map_app_perm {A B} (f g: A -> list B) (l: list A) :
  Permutation (flat_map (fun x => f x ++ g x) l) (flat_map f l ++ flat_map g l).
Proof.
  induction l as [|x l IH]; simpl; [reflexivity|].
  rewrite IH. rewrite <- !app_assoc. apply Permutation_app_head.
  rewrite !app_assoc. apply Permutation_app_tail. apply Permutation_app_comm.
Qed.

Lemma flat_map_flat_map {A B C} (f: A -> list B) (g: B -> list C) (l: list A) :
  flat_map g (flat_map f l) = flat_map (fun x => flat_map g (f x)) l.
Proof. induction l as [|x l IH]; simpl; [reflexivity|]. rewrite flat_map_app, IH. reflexivity. Qed.

Lemma children_height (t u: tree) : In u (children ent t) -> (S (height ent u) <= height ent t)%nat.
Proof.
  destruct t as [|c l s e r]; simpl; [tauto|]. intros H. apply in_app_or in H.
  destruct H as [H|H].
  - destruct l; simpl in H; [tauto|]. destruct H as [<-|[]]. lia.
  - destruct r; simpl in H; [tauto|]. destruct H as [<-|[]]. lia.
Qed.

Lemma bfs_perm fuel (level: list tree) :
  (forall u, In u level -> (height ent u < fuel)%nat) ->
  Permutation (bfs ent fuel level) (flat_map slots level).
Proof.
  revert level. induction fuel as [|fuel IH]; intros level H.
  - destruct level as [|u level]; [reflexivity|]. specialize (H u (or_introl eq_refl)). lia.
  - destruct level as [|u0 level0]; [reflexivity|].
    remember (u0 :: level0) as level eqn:Hlev.
    assert (Hstep: bfs ent (S fuel) level = flat_map (root_slots ent) level ++ bfs ent fuel (flat_map (children ent) level)).
    { rewrite Hlev. reflexivity. }
    clear Hlev.
    rewrite Hstep. rewrite IH.
    + rewrite flat_map_flat_map. rewrite <- flat_map_app_perm.
      apply flat_map_perm. intros x _. apply Permutation_sym. apply children_slots.
    + intros u Hu. apply in_flat_map in Hu. destruct Hu as (t & Ht & Hu).
      specialize (H t Ht). pose proof (children_height t u Hu). lia.
Qed.

Lemma level_order_perm (t: tree) : Permutation (level_order ent t) (slots t).
Proof.
  unfold level_order. rewrite bfs_perm.
  - simpl. rewrite app_nil_r. reflexivity.
  - intros u [<-|[]]. lia.
Qed.

End Lookup.
