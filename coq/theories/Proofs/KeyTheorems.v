(** * Property-level consequences for the expiring-key collections (C01, C06, C07, C19, C20, C02, C11, C12). *)
From Coq Require Import List NArith ZArith Bool Lia Permutation Sorted.
Import ListNotations.
Require Import ITree.Model.Common ITree.Model.RBTree ITree.Model.Pool ITree.Model.MapModel ITree.Model.KeyModel
  ITree.Model.ListModel.
Require Import ITree.Spec.Spec ITree.Model.Checkers.
Require Import ITree.Proofs.RBElems ITree.Proofs.RBInv ITree.Proofs.TreeLookup ITree.Proofs.PoolProofs
  ITree.Proofs.KeyProofs ITree.Proofs.ListGen ITree.Proofs.KeyListProofs ITree.Proofs.KeyRefine ITree.Proofs.MapTheorems.
Local Open Scope Z_scope.

(* two runs that both agree with the reference semantics agree with each other on every operation
   whose answer the reference determines (all but is_empty) *)
Fixpoint agree (h: list kop) (o1 o2: list kout) : Prop :=
  match h, o1, o2 with
  | [], [], [] => True
  | o :: h', a :: o1', b :: o2' => (o <> KIsEmpty -> a = b) /\ agree h' o1' o2'
  | _, _, _ => False
  end.

Lemma kobs_run_agree h : forall st o1 o2, kobs_run st h o1 -> kobs_run st h o2 -> agree h o1 o2.
Proof.
  induction h as [|o h IH]; intros st o1 o2 H1 H2; destruct o1 as [|a o1], o2 as [|b o2]; simpl in *; try tauto.
  destruct H1 as (A1 & R1), H2 as (A2 & R2). split; [|eapply IH; eauto].
  intros Hne. destruct o; simpl in *; try congruence.
Qed.

(* the tree and the list variant give the same answers (C07: same exported vector; C13) *)
Theorem tree_list_agree cap max_exp h : kvalid_hist ([], None) h ->
  exists s outs, k_run (k_new cap) h = Ret (s, outs) /\ agree h outs (snd (kl_run max_exp (kl_new max_exp) h)).
Proof.
  intros V. destruct (keytree_refines cap h V) as (s & outs & Hr & Ho). exists s, outs. split; [exact Hr|].
  eapply kobs_run_agree; [exact Ho|]. apply keylist_refines. exact V.
Qed.

(* clear: the cleared tree relates to the empty bag like a new one, so every later history gets the
   reference answers of a fresh collection *)
Theorem keytree_clear_is_new cap cap' h0 s outs0 h : kvalid_hist ([], None) h0 ->
  k_run (k_new cap) h0 = Ret (s, outs0) -> kvalid_hist ([], None) h ->
  k_is_empty (k_clear s) = true /\
  exists s1 s2 o1 o2, k_run (k_clear s) h = Ret (s1, o1) /\ k_run (k_new cap') h = Ret (s2, o2) /\ agree h o1 o2.
Proof.
  intros V0 Hr V. split; [reflexivity|].
  destruct (keytree_invariant cap h0 s outs0 V0 Hr) as (_ & HR).
  destruct (kr_state ([], None) h0) as [b now]. simpl in HR.
  destruct (k_step_refines s b now KClear HR I) as (sc & out & evs & Hs & _ & HRc & _).
  simpl in Hs. inversion Hs; subst. simpl in HRc.
  destruct (k_run_refines h (k_clear s) [] None HRc V) as (s1 & o1 & H1 & Ob1 & _).
  destruct (k_run_refines h (k_new cap') [] None (RKT_new cap' None) V) as (s2 & o2 & H2 & Ob2 & _).
  exists s1, s2, o1, o2. split; [exact H1|]. split; [exact H2|]. eapply kobs_run_agree; eauto.
Qed.

(* C02 / C11 for the expiring tree *)
Theorem keytree_rb_bst cap h s outs : kvalid_hist ([], None) h -> k_run (k_new cap) h = Ret (s, outs) ->
  rbi kent (kroot s) /\ bst kent kk (kroot s) /\ NoDup (slots kent (kroot s)) /\
  (height kent (kroot s) <= 2 * Nat.log2 (size kent (kroot s) + 1) + 1)%nat /\
  NoDup (slots kent (kroot s) ++ unused (kpl s)) /\
  (forall x, In x (slots kent (kroot s) ++ unused (kpl s)) <-> (1 <= x < blen (kpl s))%N).
Proof.
  intros V Hr. destruct (keytree_invariant cap h s outs V Hr) as (((ND & Hrb & Hb) & (NDp & Hin & _)) & _).
  split; [exact Hrb|]. split; [exact Hb|]. split; [exact ND|]. split; [apply rb_height_bound; exact Hrb|]. split; [exact NDp|exact Hin].
Qed.

(** ** C19: the export reserves one slot per stored entry; the formula of the unrepaired code did not *)
Theorem export_capacity_linear s t :
  k_export_capacity s = N.of_nat (length (ents kent (kroot s))) /\
  (N.of_nat (length (k_export s t)) <= k_export_capacity s)%N.
Proof.
  unfold k_export_capacity, KeyModel.ksize, k_export. rewrite size_elements. unfold RBTree.ents. rewrite !map_length.
  split; [reflexivity|].
  assert (length (filter (live t) (map snd (elements kent (kroot s)))) <= length (map snd (elements kent (kroot s))))%nat.
  { generalize (map snd (elements kent (kroot s))). induction l as [|x l IH]; simpl; [lia|]. destruct (live t x); simpl; lia. }
  rewrite map_length in H. lia.
Qed.

Definition asc_tree (n: nat) : ktree :=
  fold_left (fun t i => insert_tree kent kk t (N.of_nat i) {| kk := Z.of_nat i; kexp := 100; kval := 0 |})
            (seq 1 n) E.

Theorem old_capacity_refuted :
  exists t: ktree, Checkers.rb_ok kent t = true /\ size kent t = 1000%nat /\ (old_export_capacity t = 2097152)%N.
Proof. exists (asc_tree 1000). vm_compute. repeat split. Qed.
