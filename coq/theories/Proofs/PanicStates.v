(** * States a collection can be left in when a user callback panics (C18, model part).
    - expiring-key tree: KeyRefine.callback_states (every callback sits between complete deletions).
    - expiring-key list: a panic inside the purge ([Vec::retain] with a closure that calls
      expiration()) leaves the buffer with the expired entries of a PREFIX removed and the cached
      minimum not yet updated; that state still refines the same bag. *)
From Coq Require Import List NArith ZArith Bool Lia Permutation Sorted.
Import ListNotations.
Require Import ITree.Model.Common ITree.Model.MapModel ITree.Model.KeyModel ITree.Model.ListModel.
Require Import ITree.Spec.Spec ITree.Proofs.ListGen ITree.Proofs.KeyListProofs.
Local Open Scope Z_scope.

Definition retain_partial (t: Z) (k: nat) (s: klstate) : klstate :=
  {| kbuf := filter (live t) (firstn k (kbuf s)) ++ skipn k (kbuf s); kmin := kmin s |}.

Lemma sorted_filter_prefix (p: kent -> bool) (a c: list kent) :
  ksorted (a ++ c) -> ksorted (filter p a ++ c).
Proof.
  induction a as [|x a IH]; simpl; intros S; [exact S|].
  apply sorted_cons_iff in S. destruct S as (S1 & S2). specialize (IH S1).
  destruct (p x); [|exact IH]. simpl. apply sorted_cons_iff. split; [exact IH|].
  rewrite Forall_forall in *. intros y Hy. apply S2. apply in_app_or in Hy. apply in_or_app.
  destruct Hy as [Hy|Hy]; [left|right]; auto. apply filter_In in Hy. tauto.
Qed.

Theorem retain_partial_refines (s: klstate) (b: bag) (now: option Z) (t: Z) (k: nat) :
  RK s b now -> time_ok now t -> RK (retain_partial t k s) b (Some t).
Proof.
  intros (S & MO & dead & P & D) T. unfold retain_partial. split; [|split]; simpl.
  - apply sorted_filter_prefix. rewrite firstn_skipn. exact S.
  - intros e He. apply MO. apply in_app_or in He. destruct He as [He|He].
    + apply filter_In in He. destruct He as (He & _). rewrite <- (firstn_skipn k (kbuf s)). apply in_or_app. auto.
    + rewrite <- (firstn_skipn k (kbuf s)). apply in_or_app. auto.
  - exists (filter (fun e => negb (live t e)) (firstn k (kbuf s)) ++ dead). split.
    + rewrite P. rewrite <- (firstn_skipn k (kbuf s)) at 1.
      rewrite (filter_partition_perm (live t) (firstn k (kbuf s))) at 1.
      rewrite <- !app_assoc. apply Permutation_app_head.
      rewrite !app_assoc. apply Permutation_app_tail. apply Permutation_app_comm.
    + apply Forall_app. split.
      * apply Forall_forall. intros e He. apply filter_In in He. destruct He as (_ & He).
        apply negb_true_iff in He. unfold live in He. apply Z.ltb_ge in He. exact He.
      * eapply Forall_impl; [|exact D]. intros e He. destruct now as [n|]; simpl in *; [lia|tauto].
Qed.
