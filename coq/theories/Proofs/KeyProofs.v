(** * KeyExpTree: lazy expiry is sound.  Physical deletions of expired entries performed while a
    search holds a slot never lose a live entry, never disturb the held node, and keep the
    representation invariant; every predecessor / exact query returns the reference answer over the
    live entries; only live stored keys are handed to the caller's comparison code. *)
From Coq Require Import List NArith ZArith Bool Lia Permutation Sorted.
Import ListNotations.
Require Import ITree.Model.Common ITree.Model.RBTree ITree.Model.Pool ITree.Model.MapModel ITree.Model.KeyModel.
Require Import ITree.Proofs.RBElems ITree.Proofs.RBInv ITree.Proofs.Subtree ITree.Proofs.TreeLookup
  ITree.Proofs.SortedList ITree.Proofs.PoolProofs.
Local Open Scope Z_scope.

Notation kel := (elements kent).
Notation kslots := (slots kent).
Notation kents := (ents kent).
Notation ksubtree := (subtree kent).
Notation ksize := (size kent).

Definition TInv (t: ktree) : Prop := NoDup (kslots t) /\ rbi kent t /\ bst kent kk t.
Definition KInv (s: kstate) : Prop := TInv (kroot s) /\ pool_wf (kslots (kroot s)) (kpl s).

(* [t'] is [t] minus some entries that are not live at [time] *)
Definition shrinks (time: Z) (t t': ktree) : Prop :=
  exists removed, Permutation (kents t) (kents t' ++ removed) /\ Forall (fun e => live time e = false) removed.

Lemma shrinks_refl time t : shrinks time t t.
Proof. exists []. rewrite app_nil_r. split; auto. Qed.

Lemma shrinks_trans time t1 t2 t3 : shrinks time t1 t2 -> shrinks time t2 t3 -> shrinks time t1 t3.
Proof.
  intros (r1 & P1 & F1) (r2 & P2 & F2). exists (r2 ++ r1). split.
  - rewrite P1, P2. rewrite app_assoc. reflexivity.
  - apply Forall_app. auto.
Qed.

Lemma shrinks_incl time t t' : shrinks time t t' -> incl (kents t') (kents t).
Proof.
  intros (r & P & _) e He. eapply Permutation_in; [apply Permutation_sym; exact P|]. apply in_or_app. auto.
Qed.

Lemma shrinks_keep time t t' e : shrinks time t t' -> In e (kents t) -> live time e = true -> In e (kents t').
Proof.
  intros (r & P & F) He Hl. apply (Permutation_in _ P) in He. apply in_app_or in He. destruct He as [He|He]; auto.
  rewrite Forall_forall in F. rewrite (F e He) in Hl. discriminate.
Qed.

Lemma size_elements (t: ktree) : ksize t = length (kel t).
Proof. induction t as [|c l IHl s e r IHr]; simpl; auto. rewrite app_length. simpl. lia. Qed.

Lemma subtree_elements (u t: ktree) : ksubtree u t -> forall p, In p (kel u) -> In p (kel t).
Proof. induction 1; auto; intros p Hp; simpl; rewrite in_app_iff; simpl; auto. Qed.

Lemma subtree_ents (u t: ktree) : ksubtree u t -> incl (kents u) (kents t).
Proof.
  intros Hs z Hz. unfold RBTree.ents in *. apply in_map_iff in Hz. destruct Hz as (p & <- & Hp).
  apply in_map. eapply subtree_elements; eauto.
Qed.

Lemma subtree_size (u t: ktree) : ksubtree u t -> (ksize u <= ksize t)%nat.
Proof. induction 1; simpl; lia. Qed.

Lemma kents_node c l x e (r: ktree) z : In z (kents (T c l x e r)) <-> In z (kents l) \/ z = e \/ In z (kents r).
Proof. rewrite ents_T, in_app_iff. simpl. intuition. Qed.

Lemma bst_subtree_node t : bst kent kk t -> forall c l x e r, ksubtree (T c l x e r) t ->
  (forall z, In z (kents l) -> kk z < kk e) /\ (forall z, In z (kents r) -> kk e < kk z).
Proof.
  induction t as [|c0 l0 IHl s0 e0 r0 IHr]; intros Hb c l x e r Hs; [inversion Hs|].
  destruct (bst_inv kent kk _ _ _ _ _ Hb) as (Hbl & Hbr & Hlt & Hgt).
  inversion Hs; subst.
  - split; intros z Hz; unfold RBTree.ents in Hz; apply in_map_iff in Hz; destruct Hz as (p & <- & Hp); auto.
  - eapply IHl; eauto.
  - eapply IHr; eauto.
Qed.

Lemma sub_nodup t u : NoDup (kslots t) -> ksubtree u t -> NoDup (kslots u).
Proof.
  intros ND Hs. induction Hs; auto.
  - apply IHHs. apply (NoDup_node kent _ _ _ _ _ ND).
  - apply IHHs. apply (NoDup_node kent _ _ _ _ _ ND).
Qed.

(** ** one physical deletion *)
Lemma tdel_spec t y e : TInv t -> In (y, e) (kel t) ->
  exists t' d f A B, del kent t y = Done t' d f /\ TInv t' /\
    kel t = A ++ (y, e) :: B /\ kents t' = map snd A ++ map snd B /\ Permutation (f :: kslots t') (kslots t).
Proof.
  intros (ND & Hrb & Hb) Hin.
  pose proof (del_spec kent t y ND) as Hs. pose proof (del_rb kent t y Hrb) as Hr.
  destruct (del kent t y) as [| |t' d f].
  - exfalso. apply Hs. eapply in_elements_slots; eauto.
  - contradiction.
  - destruct Hs as (A & e0 & B & He & Hents & Hperm). destruct Hr as (Hrb' & _).
    assert (e0 = e).
    { apply (NoDup_fst_unique kent kk (kel t) y e0 e ND); [|exact Hin]. rewrite He. apply in_or_app. simpl. auto. }
    subst e0. exists t', d, f, A, B. split; [reflexivity|]. split; [|auto].
    split; [|split; [exact Hrb'|]].
    + apply Permutation_sym in Hperm. apply (Permutation_NoDup Hperm) in ND. inversion ND; auto.
    + unfold bst, RBTree.keys in *. rewrite He in Hb. rewrite map_app in Hb. simpl in Hb.
      replace (map (fun p => kk (snd p)) (kel t')) with (map kk (kents t')).
      2:{ unfold RBTree.ents. rewrite map_map. reflexivity. }
      rewrite Hents. rewrite map_app, !map_map.
      change (StronglySorted Z.lt (map (fun p : N * kent => kk (snd p)) A ++ map (fun p : N * kent => kk (snd p)) B)).
      rewrite <- map_app. apply (sorted_app_remove kent kk A (y, e) B).
      unfold sorted. rewrite map_app. simpl. exact Hb.
Qed.

Lemma tdel_ents t t' A y e B : kel t = A ++ (y, e) :: B -> kents t' = map snd A ++ map snd B ->
  Permutation (kents t) (kents t' ++ [e]) /\ (length (kents t') + 1 = length (kents t))%nat.
Proof.
  intros He Hents. unfold RBTree.ents in *. rewrite He, Hents. rewrite !map_app. simpl. split.
  - rewrite <- app_assoc. apply Permutation_app_head. apply Permutation_cons_append.
  - rewrite !app_length. simpl. lia.
Qed.

Lemma kdelete_spec s y e : KInv s -> In (y, e) (kel (kroot s)) ->
  exists s' d f A B, kdelete s y = Ret s' /\ KInv s' /\ del kent (kroot s) y = Done (kroot s') d f /\
    kel (kroot s) = A ++ (y, e) :: B /\ kents (kroot s') = map snd A ++ map snd B.
Proof.
  intros (HT & Hp) Hin. destruct (tdel_spec _ y e HT Hin) as (t' & d & f & A & B & Hd & HT' & He & Hents & Hperm).
  unfold kdelete. rewrite Hd. eexists _, d, f, A, B. split; [reflexivity|]. simpl.
  split; [|auto]. split; [exact HT'|]. simpl.
  apply pool_put_wf. eapply pool_wf_perm; [apply Permutation_sym; exact Hperm|exact Hp].
Qed.

(** ** expire_root *)
Definition ev_ok (time: Z) (t: ktree) (ev: event) : Prop :=
  KInv (snd ev) /\ shrinks time t (kroot (snd ev)).
(* expiration() callbacks only; at each of them the collection is valid and has lost only dead entries *)
Definition exp_only (time: Z) (t: ktree) (evs: list event) : Prop :=
  Forall (fun ev : event => fst (fst ev) = EvExp /\ ev_ok time t ev) evs.

Lemma exp_only_nil time t : exp_only time t [].
Proof. constructor. Qed.

Lemma exp_only_weaken time t t1 evs : shrinks time t t1 -> exp_only time t1 evs -> exp_only time t evs.
Proof.
  intros Hs H. eapply Forall_impl; [|exact H]. intros ev (Hk & HI & Hs1). split; [exact Hk|].
  split; [exact HI|]. eapply shrinks_trans; eauto.
Qed.

Lemma exp_only_cons time s e s1 evs : KInv s -> shrinks time (kroot s) (kroot s1) ->
  exp_only time (kroot s1) evs -> exp_only time (kroot s) ((EvExp, e, s) :: evs).
Proof.
  intros HI Hs H. constructor.
  - split; [reflexivity|]. split; [exact HI|apply shrinks_refl].
  - eapply exp_only_weaken; eauto.
Qed.

Lemma exp_only_one time s e : KInv s -> exp_only time (kroot s) [(EvExp, e, s)].
Proof. intros HI. apply (exp_only_cons time s e s []); auto using shrinks_refl, exp_only_nil. Qed.

Lemma expire_root_spec time : forall fuel s, KInv s -> (ksize (kroot s) <= fuel)%nat ->
  exists s' evs, expire_root fuel s time = Ret (s', evs) /\ KInv s' /\ shrinks time (kroot s) (kroot s') /\
    exp_only time (kroot s) evs /\
    match kroot s' with E => True | T _ _ _ e _ => live time e = true end.
Proof.
  induction fuel as [|fuel IH]; intros s HI Hf.
  - destruct (kroot s) as [|c l x e r] eqn:Hr; [|simpl in Hf; lia].
    exists s, []. simpl. rewrite Hr. split; [reflexivity|]. split; [exact HI|]. split; [apply shrinks_refl|].
    split; [apply exp_only_nil|exact I].
  - simpl. destruct (kroot s) as [|c l x e r] eqn:Hr.
    + exists s, []. split; [reflexivity|]. split; [exact HI|]. rewrite Hr. split; [apply shrinks_refl|].
      split; [apply exp_only_nil|exact I].
    + destruct (live time e) eqn:Hl.
      * exists s, [(EvExp, e, s)]. split; [reflexivity|]. split; [exact HI|]. rewrite Hr. split; [apply shrinks_refl|].
        split; [rewrite <- Hr; apply exp_only_one; exact HI|exact Hl].
      * assert (Hin: In (x, e) (kel (kroot s))) by (rewrite Hr; simpl; apply in_or_app; simpl; auto).
        destruct (kdelete_spec s x e HI Hin) as (s1 & d & f & A & B & Hk & HI1 & _ & He & Hents).
        rewrite Hk. simpl.
        destruct (tdel_ents _ _ _ _ _ _ He Hents) as (Hperm & Hlen).
        assert (Hsh1: shrinks time (kroot s) (kroot s1)).
        { exists [e]. split; [exact Hperm|]. repeat constructor. exact Hl. }
        destruct (IH s1 HI1) as (s2 & evs & Hex & HI2 & Hsh & Hev & Hroot).
        { rewrite !size_elements in *. unfold RBTree.ents in Hlen. rewrite !map_length in Hlen. rewrite <- Hr in Hf. lia. }
        rewrite Hex. simpl. exists s2, ((EvExp, e, s) :: evs). split; [reflexivity|]. split; [exact HI2|].
        split; [rewrite <- Hr; eapply shrinks_trans; eauto|].
        split; [rewrite <- Hr; apply (exp_only_cons time s e s1 evs HI Hsh1 Hev)|exact Hroot].
Qed.

(** ** expire_child *)
Definition child_of (d: dir) (l r: ktree) : ktree := match d with L => l | R => r end.

Lemma child_subtree d t cx lx x ex rx : NoDup (kslots t) -> ksubtree (T cx lx x ex rx) t ->
  child d t x = Some (child_of d lx rx).
Proof. intros ND Hs. unfold child. rewrite (sub_of_subtree kent t ND _ _ _ _ _ Hs). destruct d; reflexivity. Qed.

Lemma expire_child_strong d time : forall fuel s cx lx x ex rx,
  KInv s -> ksubtree (T cx lx x ex rx) (kroot s) -> (ksize (child_of d lx rx) < fuel)%nat ->
  exists s' oy evs cx' lx' rx' removed,
    expire_child fuel d s x time = Ret (s', oy, evs) /\ KInv s' /\
    Permutation (kents (kroot s)) (kents (kroot s') ++ removed) /\
    Permutation (kents (child_of d lx rx)) (kents (child_of d lx' rx') ++ removed) /\
    Forall (fun e => live time e = false) removed /\
    exp_only time (kroot s) evs /\
    ksubtree (T cx' lx' x ex rx') (kroot s') /\
    match oy with
    | None => child_of d lx' rx' = E
    | Some y => exists c l e r, child_of d lx' rx' = T c l y e r /\ live time e = true
    end.
Proof.
  induction fuel as [|fuel IH]; intros s cx lx x ex rx HI Hs Hf; [lia|].
  pose proof HI as ((ND & Hrb & Hbst) & Hp).
  simpl. rewrite (child_subtree d (kroot s) _ _ _ _ _ ND Hs).
  destruct (child_of d lx rx) as [|c l y e r] eqn:Hch.
  - exists s, None, [], cx, lx, rx, []. rewrite Hch, !app_nil_r. split; [reflexivity|]. split; [exact HI|].
    split; [reflexivity|]. split; [reflexivity|]. split; [constructor|]. split; [apply exp_only_nil|]. split; [exact Hs|reflexivity].
  - destruct (live time e) eqn:Hlive.
    + exists s, (Some y), [(EvExp, e, s)], cx, lx, rx, []. rewrite Hch, !app_nil_r. split; [reflexivity|]. split; [exact HI|].
      split; [reflexivity|]. split; [reflexivity|]. split; [constructor|]. split; [apply exp_only_one; exact HI|]. split; [exact Hs|].
      exists c, l, e, r. auto.
    + (* delete y *)
      assert (Hy_ch: In y (kslots (child_of d lx rx))) by (rewrite Hch; apply root_in_slots).
      assert (Hye_ch: In (y, e) (kel (child_of d lx rx))) by (rewrite Hch; simpl; apply in_or_app; simpl; auto).
      assert (Hye_u: In (y, e) (kel (T cx lx x ex rx))).
      { simpl. apply in_or_app. destruct d; simpl in Hye_ch; [left|right; right]; auto. }
      assert (Hye_t: In (y, e) (kel (kroot s))) by (eapply subtree_elements; eauto).
      destruct (kdelete_spec s y e HI Hye_t) as (s1 & dd & ff & A & B & Hk & HI1 & Hdel & He & Hents).
      rewrite Hk. simpl.
      destruct (tdel_ents _ _ _ _ _ _ He Hents) as (Hperm & _).
      assert (Hsh1: shrinks time (kroot s) (kroot s1)).
      { exists [e]. split; [exact Hperm|]. repeat constructor. exact Hlive. }
      assert (NDu: NoDup (kslots (T cx lx x ex rx))) by (eapply sub_nodup; eauto).
      destruct (NoDup_node kent _ _ _ _ _ NDu) as (NDl & NDr & _).
      assert (Hstep: forall ch ch' dl cx' lx1 rx1,
        ch = child_of d lx rx -> ch' = child_of d lx1 rx1 -> NoDup (kslots ch) ->
        del kent ch y = Done ch' dl ff -> ksubtree (T cx' lx1 x ex rx1) (kroot s1) ->
        exists s' oy evs cx2 lx2 rx2 removed,
          bind (expire_child fuel d s1 x time)
            (fun r0 => Ret (fst (fst r0), snd (fst r0), (EvExp, e, s) :: snd r0)) = Ret (s', oy, evs) /\
          KInv s' /\
          Permutation (kents (kroot s)) (kents (kroot s') ++ removed) /\
          Permutation (kents ch) (kents (child_of d lx2 rx2) ++ removed) /\
          Forall (fun e => live time e = false) removed /\
          exp_only time (kroot s) evs /\
          ksubtree (T cx2 lx2 x ex rx2) (kroot s') /\
          match oy with
          | None => child_of d lx2 rx2 = E
          | Some y0 => exists c0 l0 e0 r0, child_of d lx2 rx2 = T c0 l0 y0 e0 r0 /\ live time e0 = true
          end).
      { intros ch ch' dl cx' lx1 rx1 Ech Ech' NDch Hdl Hs1.
        pose proof (del_spec kent ch y NDch) as Hsp. rewrite Hdl in Hsp. destruct Hsp as (A1 & e1 & B1 & He1 & Hents1 & _).
        assert (e1 = e).
        { apply (NoDup_fst_unique kent kk (kel ch) y e1 e NDch).
          - rewrite He1. apply in_or_app. simpl. auto.
          - rewrite Ech. exact Hye_ch. }
        subst e1.
        destruct (tdel_ents _ _ _ _ _ _ He1 Hents1) as (Hperm1 & Hlen1).
        assert (Hsz1: (ksize ch' + 1 = ksize ch)%nat).
        { rewrite !size_elements. unfold RBTree.ents in Hlen1. rewrite !map_length in Hlen1. exact Hlen1. }
        destruct (IH s1 cx' lx1 x ex rx1 HI1 Hs1) as (s2 & oy & evs & cx2 & lx2 & rx2 & rem2 & Hex & HI2 & Hp2 & Hpc2 & Hd2 & Hev2 & Hs2 & Hoy).
        { rewrite <- Ech'. pose proof Hsz1 as Hsz1'. rewrite Ech, Hch in Hsz1'. lia. }
        rewrite Hex. simpl. exists s2, oy, ((EvExp, e, s) :: evs), cx2, lx2, rx2, (rem2 ++ [e]).
        split; [reflexivity|]. split; [exact HI2|].
        split; [rewrite Hperm, Hp2, app_assoc; reflexivity|].
        split; [rewrite Hperm1, Ech', Hpc2, app_assoc; reflexivity|].
        split; [apply Forall_app; split; [exact Hd2|repeat constructor; exact Hlive]|].
        split; [apply (exp_only_cons time s e s1 evs HI Hsh1 Hev2)|]. split; [exact Hs2|exact Hoy]. }
      rewrite <- Hch.
      destruct d; simpl in *.
      * destruct (del_under_left kent (kroot s) ND _ _ _ _ _ _ _ _ _ Hs Hy_ch Hdel) as (lx' & dl & cx' & rx' & Hdl & Hs').
        destruct (Hstep lx lx' dl cx' lx' rx' eq_refl eq_refl NDl Hdl Hs') as (s' & oy & evs & cx2 & lx2 & rx2 & rem & H).
        exists s', oy, evs, cx2, lx2, rx2, rem. exact H.
      * destruct (del_under_right kent (kroot s) ND _ _ _ _ _ _ _ _ _ Hs Hy_ch Hdel) as (rx' & dl & cx' & lx' & Hdl & Hs').
        destruct (Hstep rx rx' dl cx' lx' rx' eq_refl eq_refl NDr Hdl Hs') as (s' & oy & evs & cx2 & lx2 & rx2 & rem & H).
        exists s', oy, evs, cx2, lx2, rx2, rem. exact H.
Qed.

Lemma perm_length_le {A} (l l' r: list A) : Permutation l (l' ++ r) -> (length l' <= length l)%nat.
Proof. intros P. apply Permutation_length in P. rewrite app_length in P. lia. Qed.

Lemma expire_child_spec d time : forall fuel s cx lx x ex rx,
  KInv s -> ksubtree (T cx lx x ex rx) (kroot s) -> (ksize (child_of d lx rx) < fuel)%nat ->
  exists s' oy evs cx' lx' rx',
    expire_child fuel d s x time = Ret (s', oy, evs) /\ KInv s' /\ shrinks time (kroot s) (kroot s') /\
    exp_only time (kroot s) evs /\
    ksubtree (T cx' lx' x ex rx') (kroot s') /\
    incl (kents (child_of d lx' rx')) (kents (child_of d lx rx)) /\
    (forall z, In z (kents (child_of d lx rx)) -> live time z = true -> In z (kents (child_of d lx' rx'))) /\
    (ksize (child_of d lx' rx') <= ksize (child_of d lx rx))%nat /\
    match oy with
    | None => child_of d lx' rx' = E
    | Some y => exists c l e r, child_of d lx' rx' = T c l y e r /\ live time e = true
    end.
Proof.
  intros fuel s cx lx x ex rx HI Hs Hf.
  destruct (expire_child_strong d time fuel s cx lx x ex rx HI Hs Hf)
    as (s' & oy & evs & cx' & lx' & rx' & rem & Hex & HI' & Hp & Hpc & Hd & Hev & Hs' & Hoy).
  exists s', oy, evs, cx', lx', rx'. split; [exact Hex|]. split; [exact HI'|].
  split; [exists rem; auto|]. split; [exact Hev|]. split; [exact Hs'|].
  split; [intros z Hz; eapply Permutation_in; [apply Permutation_sym; exact Hpc|]; apply in_or_app; auto|].
  split; [intros z Hz Hl; apply (Permutation_in _ Hpc) in Hz; apply in_app_or in Hz; destruct Hz as [Hz|Hz]; auto;
          rewrite Forall_forall in Hd; rewrite (Hd z Hz) in Hl; discriminate|].
  split; [|exact Hoy].
  rewrite !size_elements. apply perm_length_le in Hpc. unfold RBTree.ents in Hpc. rewrite !map_length in Hpc. exact Hpc.
Qed.

(** ** the search loops (first_less, first_less_or_equal(_by), get_value) *)
Definition monotone (f: Z -> comparison) : Prop :=
  forall a b, a < b -> (f b = Lt -> f a = Lt) /\ (f a = Gt -> f b = Gt).

(* what one iteration does with the comparison result: None = return this entry;
   Some (d, upd) = continue in direction d, remembering this entry iff upd *)
Definition step_of (q: qkind) (c: comparison) : option (dir * bool) :=
  match q, c with
  | QLess, Lt => Some (R, true)
  | QLess, _ => Some (L, false)
  | QLessEq, Eq => None
  | QLessEq, Lt => Some (R, true)
  | QLessEq, Gt => Some (L, false)
  | QGet, Eq => None
  | QGet, Lt => Some (R, false)
  | QGet, Gt => Some (L, false)
  end.

Lemma search_unfold fu q f s x time res0 :
  search (S fu) q f s x time res0 =
  match ent_at kent (kroot s) x with
  | None => Err ErrHandle
  | Some e =>
    match step_of q (f (kk e)) with
    | None => Ret (s, Some (kval e), [(EvCmp, e, s)])
    | Some (d, upd) =>
      bind (expire_child (KeyModel.ksize s) d s x time) (fun r =>
      match snd (fst r) with
      | None => Ret (fst (fst r), (if upd then Some (kval e) else res0), (EvCmp, e, s) :: snd r)
      | Some y => bind (search fu q f (fst (fst r)) y time (if upd then Some (kval e) else res0)) (fun r2 =>
                  Ret (fst (fst r2), snd (fst r2), (EvCmp, e, s) :: snd r ++ snd r2))
      end)
    end
  end.
Proof.
  simpl. destruct (ent_at kent (kroot s) x) as [e|]; [|reflexivity].
  destruct q, (f (kk e)); reflexivity.
Qed.

(* the entries a query is about *)
Definition okq (q: qkind) (c: comparison) : bool :=
  match q, c with
  | QLess, Lt => true
  | QLessEq, Lt | QLessEq, Eq => true
  | QGet, Eq => true
  | _, _ => false
  end.
Definition cand (q: qkind) (f: Z -> comparison) (time: Z) (e: kent) : Prop :=
  live time e = true /\ okq q (f (kk e)) = true.

Lemma step_ret q c : step_of q c = None -> c = Eq /\ okq q c = true.
Proof. destruct q, c; simpl; intros H; try discriminate; auto. Qed.

Lemma step_upd q c d : step_of q c = Some (d, true) -> d = R /\ okq q c = true.
Proof. destruct q, c; simpl; intros H; inversion H; auto. Qed.

Lemma step_right_noupd q f k : monotone f -> step_of q (f k) = Some (R, false) ->
  forall k', k' <= k -> okq q (f k') = false.
Proof.
  intros Hm Hs k' Hle. destruct q; destruct (f k) eqn:Hc; simpl in Hs; try discriminate.
  assert (f k' = Lt).
  { destruct (Z.eq_dec k' k) as [->|]; auto. destruct (Hm k' k) as (K & _); [lia|]. auto. }
  rewrite H. reflexivity.
Qed.

Lemma step_left q f k upd : monotone f -> step_of q (f k) = Some (L, upd) ->
  upd = false /\ forall k', k <= k' -> okq q (f k') = false.
Proof.
  intros Hm Hs. split; [destruct q, (f k); simpl in Hs; inversion Hs; auto|].
  intros k' Hle. destruct (Z.eq_dec k' k) as [->|Hne].
  - destruct q, (f k); simpl in *; try discriminate; auto.
  - destruct (Hm k k') as (K1 & K2); [lia|].
    destruct q; destruct (f k) eqn:Hc; simpl in Hs; try discriminate.
    + destruct (f k') eqn:Hc'; auto. specialize (K1 eq_refl). congruence.
    + destruct (f k') eqn:Hc'; auto. specialize (K1 eq_refl). congruence.
    + rewrite (K2 eq_refl). reflexivity.
    + rewrite (K2 eq_refl). reflexivity.
Qed.

Definition one_eq_live (f: Z -> comparison) (time: Z) (t: ktree) : Prop :=
  forall a b, In a (kents t) -> In b (kents t) -> live time a = true -> live time b = true ->
    f (kk a) = Eq -> f (kk b) = Eq -> kk a = kk b.

Lemma step_ret_dominates q f time t ex e : monotone f -> one_eq_live f time t ->
  step_of q (f (kk ex)) = None -> In ex (kents t) -> live time ex = true ->
  In e (kents t) -> cand q f time e -> kk e <= kk ex.
Proof.
  intros Hm Ho Hs Hex Hlx He (Hl & Hok). destruct (step_ret _ _ Hs) as (Hc & _).
  destruct (f (kk e)) eqn:Hce.
  - rewrite (Ho e ex He Hex Hl Hlx Hce Hc). lia.
  - destruct (Z.le_gt_cases (kk e) (kk ex)); auto.
    destruct (Hm (kk ex) (kk e)) as (K & _); [lia|]. specialize (K Hce). congruence.
  - destruct q; simpl in Hok; discriminate.
Qed.

(* at every callback the collection is valid and has lost only dead entries; a key handed to the
   caller's comparison code is live and stored *)
Definition cmp_live (time: Z) (t: ktree) (evs: list event) : Prop :=
  forall ev, In ev evs -> ev_ok time t ev /\
    (fst (fst ev) = EvCmp -> live time (snd (fst ev)) = true /\ In (snd (fst ev)) (kents t)).

Lemma exp_only_cmp_live time t evs : exp_only time t evs -> cmp_live time t evs.
Proof.
  intros H ev Hin. unfold exp_only in H. rewrite Forall_forall in H. destruct (H ev Hin) as (Hk & Hok).
  split; [exact Hok|]. intros Hc. rewrite Hk in Hc. discriminate.
Qed.

Lemma cmp_live_weaken time t t1 evs : shrinks time t t1 -> cmp_live time t1 evs -> cmp_live time t evs.
Proof.
  intros Hs H ev Hin. destruct (H ev Hin) as ((HI & Hs1) & Hc). split.
  - split; [exact HI|eapply shrinks_trans; eauto].
  - intros Hk. destruct (Hc Hk) as (Hl & Hi). split; [exact Hl|]. eapply shrinks_incl; eauto.
Qed.

Lemma cmp_live_app time t a b : cmp_live time t a -> cmp_live time t b -> cmp_live time t (a ++ b).
Proof. intros Ha Hb ev Hin. apply in_app_or in Hin. destruct Hin; auto. Qed.

Lemma cmp_live_cons time s ex rest : KInv s -> live time ex = true -> In ex (kents (kroot s)) ->
  cmp_live time (kroot s) rest -> cmp_live time (kroot s) ((EvCmp, ex, s) :: rest).
Proof.
  intros HI Hl Hin Hr ev [<-|Hev]; [|auto]. split; [split; [exact HI|apply shrinks_refl]|]. simpl. auto.
Qed.

Definition post_search (q: qkind) (f: Z -> comparison) (time: Z) (s: kstate)
  (res: res (kstate * option Z * list event)) : Prop :=
  exists s' outg evs, res = Ret (s', option_map kval outg, evs) /\ KInv s' /\ shrinks time (kroot s) (kroot s') /\
    (forall r, outg = Some r -> In r (kents (kroot s')) /\ cand q f time r) /\
    (forall e, In e (kents (kroot s')) -> cand q f time e -> exists r, outg = Some r /\ kk e <= kk r) /\
    cmp_live time (kroot s) evs.

Lemma search_spec q f time : monotone f -> forall fuel s cx lx x ex rx res0 rg,
  KInv s -> ksubtree (T cx lx x ex rx) (kroot s) -> live time ex = true ->
  (ksize (T cx lx x ex rx) < fuel)%nat ->
  one_eq_live f time (kroot s) ->
  res0 = option_map kval rg ->
  (forall r, rg = Some r -> In r (kents (kroot s)) /\ cand q f time r) ->
  (forall e, In e (kents (kroot s)) -> cand q f time e ->
     In e (kents (T cx lx x ex rx)) \/ exists r, rg = Some r /\ kk e <= kk r) ->
  (forall r e, rg = Some r -> In e (kents (T cx lx x ex rx)) -> kk r < kk e) ->
  post_search q f time s (search fuel q f s x time res0).
Proof.
  intros Hm. induction fuel as [|fuel IH]; intros s cx lx x ex rx res0 rg HI Hs Hlx Hf Hone Hres I1 I2 I3; [lia|].
  pose proof HI as ((ND & Hrb & Hbst) & Hp).
  destruct (bst_subtree_node (kroot s) Hbst _ _ _ _ _ Hs) as (Hlt & Hgt).
  assert (Hex_t: In ex (kents (kroot s))). { eapply subtree_ents; eauto. apply kents_node. auto. }
  assert (Hxe: In (x, ex) (kel (kroot s))). { eapply subtree_elements; eauto. simpl. apply in_or_app. simpl. auto. }
  rewrite search_unfold. rewrite (ent_at_of_in kent kk (kroot s) x ex ND Hxe).
  pose proof (subtree_size _ _ Hs) as Hsz. simpl in Hsz, Hf.
  destruct (step_of q (f (kk ex))) as [[d upd]|] eqn:Hstep.
  2:{ (* return this entry *)
    destruct (step_ret _ _ Hstep) as (Hc & Hok).
    exists s, (Some ex), [(EvCmp, ex, s)]. split; [reflexivity|]. split; [exact HI|]. split; [apply shrinks_refl|].
    split; [intros r Hr; inversion Hr; subst; split; [exact Hex_t|split; auto]|].
    split; [intros e He Hc'; exists ex; split; [reflexivity|eapply step_ret_dominates; eauto]|].
    apply cmp_live_cons; auto. intros ev []. }
  (* continue below the child in direction d *)
  destruct (expire_child_spec d time (KeyModel.ksize s) s cx lx x ex rx HI Hs) as
    (s1 & oy & evs1 & cx' & lx' & rx' & Hec & HI1 & Hsh & Hev1 & Hs' & Hci & Hck & Hcs & Hoy).
  { unfold KeyModel.ksize. destruct d; simpl; lia. }
  rewrite Hec. simpl.
  set (rg' := if upd then Some ex else rg).
  assert (Hres': (if upd then Some (kval ex) else res0) = option_map kval rg').
  { unfold rg'. destruct upd; [reflexivity|exact Hres]. }
  rewrite Hres'.
  assert (Hinc: incl (kents (kroot s1)) (kents (kroot s))) by (eapply shrinks_incl; eauto).
  assert (Hex_t1: In ex (kents (kroot s1))). { eapply subtree_ents; eauto. apply kents_node. auto. }
  (* facts about the side that is left behind *)
  assert (Hside: (d = R /\ (upd = true -> okq q (f (kk ex)) = true) /\
                   (upd = false -> forall k', k' <= kk ex -> okq q (f k') = false)) \/
                 (d = L /\ upd = false /\ forall k', kk ex <= k' -> okq q (f k') = false)).
  { destruct d.
    - right. destruct (step_left q f (kk ex) upd Hm Hstep). auto.
    - left. split; [reflexivity|]. split.
      + intros ->. apply (step_upd _ _ _ Hstep).
      + intros ->. apply (step_right_noupd q f (kk ex) Hm Hstep). }
  assert (I1': forall r, rg' = Some r -> In r (kents (kroot s1)) /\ cand q f time r).
  { intros r Hr. unfold rg' in Hr. destruct upd.
    - inversion Hr; subst. split; [exact Hex_t1|]. split; [exact Hlx|].
      destruct Hside as [(_ & K & _)|(_ & K & _)]; [auto|discriminate].
    - destruct (I1 r Hr) as (Hin & Hc). split; [|exact Hc]. eapply shrinks_keep; eauto. apply Hc. }
  assert (I2': forall e, In e (kents (kroot s1)) -> cand q f time e ->
             In e (kents (child_of d lx' rx')) \/ exists r, rg' = Some r /\ kk e <= kk r).
  { intros e He Hc. pose proof Hc as (Hl & Hok).
    destruct (I2 e (Hinc e He) Hc) as [Hu|(r & Hr & Hle)].
    - apply kents_node in Hu. destruct Hside as [(-> & Ku & Kn)|(-> & -> & Kn)]; simpl.
      + (* going right *)
        destruct Hu as [Hu|[->|Hu]].
        * destruct upd; [right; exists ex; split; [reflexivity|specialize (Hlt e Hu); lia]|].
          rewrite (Kn eq_refl (kk e)) in Hok; [discriminate|specialize (Hlt e Hu); lia].
        * destruct upd; [right; exists ex; split; [reflexivity|lia]|].
          rewrite (Kn eq_refl (kk ex)) in Hok; [discriminate|lia].
        * left. apply Hck; auto.
      + (* going left *)
        destruct Hu as [Hu|[->|Hu]].
        * left. apply Hck; auto.
        * rewrite (Kn (kk ex)) in Hok; [discriminate|lia].
        * rewrite (Kn (kk e)) in Hok; [discriminate|specialize (Hgt e Hu); lia].
    - right. unfold rg'. destruct upd.
      + exists ex. split; [reflexivity|]. assert (kk r < kk ex) by (apply (I3 r ex Hr); apply kents_node; auto). lia.
      + exists r. auto. }
  assert (I3': forall r e, rg' = Some r -> In e (kents (child_of d lx' rx')) -> kk r < kk e).
  { intros r e Hr He. apply Hci in He. unfold rg' in Hr. destruct upd.
    - inversion Hr; subst. destruct Hside as [(-> & _)|(_ & K & _)]; [|discriminate]. simpl in He. apply Hgt. exact He.
    - apply (I3 r e Hr). apply kents_node. destruct d; simpl in He; auto. }
  destruct oy as [y|].
  - destruct Hoy as (c & l & e0 & r & Hch & Hle0).
    assert (Hs1: ksubtree (T c l y e0 r) (kroot s1)).
    { eapply subtree_trans; [|exact Hs']. rewrite <- Hch. destruct d; simpl; [apply st_left|apply st_right]; apply st_here. }
    assert (Hone1: one_eq_live f time (kroot s1)).
    { intros a b Ha Hb. apply Hone; auto. }
    destruct (IH s1 c l y e0 r (option_map kval rg') rg' HI1 Hs1 Hle0) as
      (s2 & outg & evs2 & Hq & HI2 & Hsh2 & O1 & O2 & Hev2); auto.
    + rewrite <- Hch. assert ((ksize (child_of d lx rx) < S (ksize lx + ksize rx))%nat) by (destruct d; simpl; lia). lia.
    + rewrite <- Hch. exact I2'.
    + rewrite <- Hch. exact I3'.
    + rewrite Hq. simpl. exists s2, outg, ((EvCmp, ex, s) :: evs1 ++ evs2). split; [reflexivity|]. split; [exact HI2|].
      split; [eapply shrinks_trans; eauto|]. split; [exact O1|]. split; [exact O2|].
      apply cmp_live_cons; auto. apply cmp_live_app; [apply exp_only_cmp_live; exact Hev1|].
      eapply cmp_live_weaken; [exact Hsh|exact Hev2].
  - exists s1, rg', ((EvCmp, ex, s) :: evs1). split; [reflexivity|]. split; [exact HI1|]. split; [exact Hsh|].
    split; [exact I1'|]. split.
    + intros e He Hc. destruct (I2' e He Hc) as [Hin|Hr]; [|exact Hr]. rewrite Hoy in Hin. destruct Hin.
    + apply cmp_live_cons; auto. apply exp_only_cmp_live. exact Hev1.
Qed.

(** ** the descent of insert_entity *)
Lemma kents_nodup t : bst kent kk t -> NoDup (kents t).
Proof.
  intros H. change (sorted kent kk (kel t)) in H. apply sorted_nodup_keys in H.
  unfold RBTree.ents. eapply NoDup_map_inv with (f := kk). rewrite map_map. exact H.
Qed.

Lemma ins_descend_spec time ne : forall fuel s cx lx x ex rx,
  KInv s -> ksubtree (T cx lx x ex rx) (kroot s) -> live time ex = true ->
  (ksize (T cx lx x ex rx) < fuel)%nat ->
  (* contract: no live stored entry carries the new key *)
  (forall e, In e (kents (kroot s)) -> live time e = true -> kk e <> kk ne) ->
  (* an (expired) entry with the new key lies below the held node *)
  (forall e, In e (kents (kroot s)) -> kk e = kk ne -> In e (kents (T cx lx x ex rx))) ->
  exists s' evs, ins_descend fuel s x time ne = Ret (s', evs) /\ KInv s' /\
    shrinks time (kroot s) (kroot s') /\
    (forall e, In e (kents (kroot s')) -> kk e <> kk ne) /\
    cmp_live time (kroot s) evs.
Proof.
  induction fuel as [|fuel IH]; intros s cx lx x ex rx HI Hs Hlx Hf Hfresh Hpath; [lia|].
  pose proof HI as ((ND & Hrb & Hbst) & Hp).
  destruct (bst_subtree_node (kroot s) Hbst _ _ _ _ _ Hs) as (Hlt & Hgt).
  assert (Hex_t: In ex (kents (kroot s))). { eapply subtree_ents; eauto. apply kents_node. auto. }
  assert (Hxe: In (x, ex) (kel (kroot s))). { eapply subtree_elements; eauto. simpl. apply in_or_app. simpl. auto. }
  pose proof (Hfresh ex Hex_t Hlx) as Hne.
  pose proof (subtree_size _ _ Hs) as Hsz. simpl in Hsz, Hf.
  cbn [ins_descend]. rewrite (ent_at_of_in kent kk (kroot s) x ex ND Hxe).
  set (d := if kk ne <? kk ex then L else R).
  destruct (expire_child_strong d time (KeyModel.ksize s) s cx lx x ex rx HI Hs) as
    (s1 & oy & evs1 & cx' & lx' & rx' & rem & Hec & HI1 & Hp1 & Hpc & Hd & Hev1 & Hs' & Hoy).
  { unfold KeyModel.ksize. destruct d; simpl; lia. }
  rewrite Hec. simpl.
  assert (Hsh: shrinks time (kroot s) (kroot s1)) by (exists rem; auto).
  assert (Hinc: incl (kents (kroot s1)) (kents (kroot s))) by (eapply shrinks_incl; eauto).
  (* an entry with the new key that is still stored lies in the (purged) child *)
  assert (Hpath1: forall e, In e (kents (kroot s1)) -> kk e = kk ne -> In e (kents (child_of d lx' rx'))).
  { intros e He Hk. pose proof (Hpath e (Hinc e He) Hk) as Hu. apply kents_node in Hu.
    assert (Hch: In e (kents (child_of d lx rx))).
    { unfold d. destruct (Z.ltb_spec (kk ne) (kk ex)); simpl; destruct Hu as [Hu|[->|Hu]]; auto; try congruence.
      - specialize (Hgt e Hu). lia.
      - specialize (Hlt e Hu). lia. }
    apply (Permutation_in _ Hpc) in Hch. apply in_app_or in Hch. destruct Hch as [Hch|Hch]; auto.
    exfalso. pose proof (kents_nodup _ Hbst) as NDe. apply (Permutation_NoDup Hp1) in NDe.
    apply NoDup_app_elim in NDe. destruct NDe as (_ & _ & Hdisj). apply (Hdisj e He Hch). }
  assert (Hfresh1: forall e, In e (kents (kroot s1)) -> live time e = true -> kk e <> kk ne).
  { intros e He. apply Hfresh. apply Hinc. exact He. }
  destruct oy as [y|].
  - destruct Hoy as (c & l & e0 & r & Hch & Hle0).
    assert (Hs1: ksubtree (T c l y e0 r) (kroot s1)).
    { eapply subtree_trans; [|exact Hs']. rewrite <- Hch. destruct d; simpl; [apply st_left|apply st_right]; apply st_here. }
    destruct (IH s1 c l y e0 r HI1 Hs1 Hle0) as (s2 & evs2 & Hq & HI2 & Hsh2 & Hno & Hev2); auto.
    + rewrite <- Hch.
      assert ((ksize (child_of d lx' rx') <= ksize (child_of d lx rx))%nat).
      { rewrite !size_elements. apply perm_length_le in Hpc. unfold RBTree.ents in Hpc. rewrite !map_length in Hpc. exact Hpc. }
      assert ((ksize (child_of d lx rx) < S (ksize lx + ksize rx))%nat) by (destruct d; simpl; lia). lia.
    + rewrite <- Hch. exact Hpath1.
    + rewrite Hq. simpl. exists s2, ((EvCmp, ex, s) :: evs1 ++ evs2). split; [reflexivity|]. split; [exact HI2|].
      split; [eapply shrinks_trans; eauto|]. split; [exact Hno|].
      apply cmp_live_cons; auto. apply cmp_live_app; [apply exp_only_cmp_live; exact Hev1|].
      eapply cmp_live_weaken; [exact Hsh|exact Hev2].
  - exists s1, ((EvCmp, ex, s) :: evs1). split; [reflexivity|]. split; [exact HI1|]. split; [exact Hsh|]. split.
    + intros e He Hk. pose proof (Hpath1 e He Hk) as Hin. rewrite Hoy in Hin. destruct Hin.
    + apply cmp_live_cons; auto. apply exp_only_cmp_live. exact Hev1.
Qed.

(** ** linking the new entry *)
Lemma k_link_spec s ne : KInv s -> (forall e, In e (kents (kroot s)) -> kk e <> kk ne) ->
  exists s', k_link s ne = Ret s' /\ KInv s' /\ Permutation (kents (kroot s')) (ne :: kents (kroot s)).
Proof.
  intros ((ND & Hrb & Hb) & Hp) Habs. unfold k_link.
  destruct (pool_get_wf _ _ Hp) as (i & p' & Hg & Hfresh & Hi0 & Hp').
  rewrite Hg. eexists. split; [reflexivity|].
  assert (Hel: kel (insert_tree kent kk (kroot s) i ne) = list_ins kent kk (i, ne) (kel (kroot s))).
  { apply insert_tree_elems. exact Hb. }
  assert (Hperm: Permutation (kel (insert_tree kent kk (kroot s) i ne)) ((i, ne) :: kel (kroot s))).
  { rewrite Hel. apply list_ins_perm. }
  simpl. split.
  - split; [split; [|split]|]; simpl.
    + unfold RBTree.slots. eapply Permutation_NoDup; [apply Permutation_sym; apply Permutation_map; exact Hperm|].
      simpl. constructor; auto.
    + apply insert_tree_rb. exact Hrb.
    + change (sorted kent kk (kel (insert_tree kent kk (kroot s) i ne))). rewrite Hel.
      apply list_ins_sorted; [exact Hb|].
      intros [x e] Hq. simpl. apply Habs. unfold RBTree.ents. apply in_map_iff. exists (x, e). auto.
    + eapply pool_wf_perm; [|exact Hp']. unfold RBTree.slots. apply Permutation_sym.
      apply (Permutation_map fst) in Hperm. exact Hperm.
  - unfold RBTree.ents. apply (Permutation_map snd) in Hperm. exact Hperm.
Qed.

(** ** whole operations *)
Lemma k_query_spec q f time s : monotone f -> KInv s -> one_eq_live f time (kroot s) ->
  exists s' outg evs, k_query q f s time = Ret (s', option_map kval outg, evs) /\ KInv s' /\
    shrinks time (kroot s) (kroot s') /\
    (forall r, outg = Some r -> In r (kents (kroot s')) /\ cand q f time r) /\
    (forall e, In e (kents (kroot s')) -> cand q f time e -> exists r, outg = Some r /\ kk e <= kk r) /\
    cmp_live time (kroot s) evs.
Proof.
  intros Hm HI Hone. unfold k_query.
  destruct (expire_root_spec time (KeyModel.ksize s) s HI) as (s1 & evs1 & Hex & HI1 & Hsh1 & Hev1 & Hroot).
  { unfold KeyModel.ksize. lia. }
  rewrite Hex. cbn [bind fst snd].
  assert (Hinc: incl (kents (kroot s1)) (kents (kroot s))) by (eapply shrinks_incl; eauto).
  destruct (kroot s1) as [|c l x e r] eqn:Hr1.
  - assert (Hsh1': shrinks time (kroot s) (kroot s1)) by (rewrite Hr1; exact Hsh1).
    cbn [bind fst snd]. exists s1, None, evs1. split; [reflexivity|]. split; [exact HI1|]. split; [exact Hsh1'|].
    split; [discriminate|]. split; [rewrite Hr1; intros e' []|]. apply exp_only_cmp_live. exact Hev1.
  - assert (Hsh1': shrinks time (kroot s) (kroot s1)) by (rewrite Hr1; exact Hsh1).
    assert (Hinc': incl (kents (kroot s1)) (kents (kroot s))) by (rewrite Hr1; exact Hinc).
    assert (Hone1: one_eq_live f time (kroot s1)).
    { intros a b Ha Hb. apply Hone; auto. }
    destruct (search_spec q f time Hm (S (KeyModel.ksize s1)) s1 c l x e r None None HI1) as
      (s2 & outg & evs2 & Hq & HI2 & Hsh2 & O1 & O2 & Hev2); auto.
    + rewrite Hr1. apply st_here.
    + unfold KeyModel.ksize. rewrite Hr1. lia.
    + discriminate.
    + intros e0 He0 _. left. rewrite <- Hr1. exact He0.
    + discriminate.
    + cbn [bind fst snd]. rewrite Hq. cbn [bind fst snd]. exists s2, outg, (evs1 ++ evs2). split; [reflexivity|]. split; [exact HI2|].
      split; [eapply shrinks_trans; eauto|]. split; [exact O1|]. split; [exact O2|].
      apply cmp_live_app; [apply exp_only_cmp_live; exact Hev1|].
      eapply cmp_live_weaken; [exact Hsh1'|exact Hev2].
Qed.

Lemma k_insert_spec s ne time : KInv s ->
  (forall e, In e (kents (kroot s)) -> live time e = true -> kk e <> kk ne) ->
  exists s' evs mid, k_insert s ne time = Ret (s', evs) /\ KInv s' /\
    shrinks time (kroot s) mid /\ Permutation (kents (kroot s')) (ne :: kents mid) /\
    cmp_live time (kroot s) evs.
Proof.
  intros HI Hfresh. unfold k_insert.
  destruct (expire_root_spec time (KeyModel.ksize s) s HI) as (s1 & evs1 & Hex & HI1 & Hsh1 & Hev1 & Hroot).
  { unfold KeyModel.ksize. lia. }
  rewrite Hex. cbn [bind fst snd].
  assert (Hinc: incl (kents (kroot s1)) (kents (kroot s))) by (eapply shrinks_incl; eauto).
  destruct (kroot s1) as [|c l x e r] eqn:Hr1.
  - assert (Hsh1': shrinks time (kroot s) (kroot s1)) by (rewrite Hr1; exact Hsh1).
    destruct (k_link_spec s1 ne HI1) as (s2 & Hl & HI2 & Hperm).
    { rewrite Hr1. intros e' []. }
    cbn [bind fst snd]. rewrite Hl. cbn [bind fst snd]. exists s2, evs1, (kroot s1). split; [reflexivity|]. split; [exact HI2|].
    split; [exact Hsh1'|]. split; [exact Hperm|]. apply exp_only_cmp_live. exact Hev1.
  - assert (Hsh1': shrinks time (kroot s) (kroot s1)) by (rewrite Hr1; exact Hsh1).
    assert (Hinc': incl (kents (kroot s1)) (kents (kroot s))) by (rewrite Hr1; exact Hinc).
    assert (G1: ksubtree (T c l x e r) (kroot s1)) by (rewrite Hr1; apply st_here).
    assert (G2: (ksize (T c l x e r) < S (KeyModel.ksize s1))%nat) by (unfold KeyModel.ksize; rewrite Hr1; lia).
    assert (G3: forall e0, In e0 (kents (kroot s1)) -> live time e0 = true -> kk e0 <> kk ne).
    { intros e0 He0. apply Hfresh. apply Hinc'. exact He0. }
    assert (G4: forall e0, In e0 (kents (kroot s1)) -> kk e0 = kk ne -> In e0 (kents (T c l x e r))).
    { intros e0 He0 _. rewrite <- Hr1. exact He0. }
    destruct (ins_descend_spec time ne (S (KeyModel.ksize s1)) s1 c l x e r HI1 G1 Hroot G2 G3 G4)
      as (s2 & evs2 & Hd & HI2 & Hsh2 & Hno & Hev2).
    cbn [bind fst snd]. rewrite Hd. cbn [bind fst snd].
      destruct (k_link_spec s2 ne HI2 Hno) as (s3 & Hl & HI3 & Hperm). rewrite Hl. cbn [bind fst snd].
      exists s3, (evs1 ++ evs2), (kroot s2). split; [reflexivity|]. split; [exact HI3|].
      split; [eapply shrinks_trans; eauto|]. split; [exact Hperm|].
      apply cmp_live_app; [apply exp_only_cmp_live; exact Hev1|].
      eapply cmp_live_weaken; [exact Hsh1'|exact Hev2].
Qed.
