(** * The arena-level model at the map / set instance ([ment] = key * value, [mkey] = first component):
    validation of the two transcriptions (Model/ArenaModel.v, Model/ArenaDelete.v) by evaluation
    against the tree-level model, and the map / set steps [MapTree::insert],
    [MapTree::delete_by_index] on the arena.  The generic refinement proofs are
    Proofs/ArenaProofs.v and Proofs/ArenaDeleteProofs.v. *)
From Coq Require Import List NArith ZArith Bool Lia Permutation Setoid Morphisms.
Import ListNotations.
Require Import ITree.Model.Common ITree.Model.RBTree ITree.Model.MapModel ITree.Model.ArenaModel ITree.Model.ArenaDelete.
Require Import ITree.Model.Pool ITree.Proofs.RBElems ITree.Proofs.RBInv ITree.Proofs.Subtree ITree.Proofs.TreeLookup ITree.Proofs.PoolProofs ITree.Proofs.MapProofs ITree.Proofs.ArenaProofs ITree.Proofs.ArenaDeleteProofs.
Local Open Scope N_scope.

Notation astate := (astate ment).
Notation mslots := (slots ment).
Notation insert_tree := (insert_tree ment mkey).
Notation height := (height ment).
Notation arena_insert := (arena_insert mkey).
Notation del := (del ment).
Notation del_min := (del_min ment).
Notation is_black := (is_black ment).

(* non-vacuity, and the arena model run on a concrete sequence: ten insertions, read back, compared
   with the tree-level model *)
Definition empty_arena : astate := ArenaModel.empty_arena (0%Z, 0%Z).

Fixpoint arena_inserts (s: astate) (next: N) (ks: list Z) : res astate :=
  match ks with
  | [] => Ret s
  | k :: ks' => match arena_insert 64 s next (k, k) with Ret s' => arena_inserts s' (next + 1) ks' | Err e => Err e end
  end.
Fixpoint tree_inserts (t: mtree) (next: N) (ks: list Z) : mtree :=
  match ks with [] => t | k :: ks' => tree_inserts (insert_tree t next (k, k)) (next + 1) ks' end.

Example arena_run_agrees :
  let ks := [50; 20; 70; 10; 30; 25; 27; 26; 60; 65; 5; 1; 80; 90; 85]%Z in
  match arena_inserts empty_arena 1 ks with
  | Ret s => read_tree 64 s EMPTY (aroot s) = Some (tree_inserts E 1 ks)
  | Err _ => False
  end.
Proof. vm_compute. reflexivity. Qed.

(** ** the map / set step: MapTree::insert on the arena *)
Lemma pool_get_slot_le used p i p' : pool_wf used p -> pool_get p = Some (i, p') -> i <= blen p.
Proof.
  intros (ND & Hin & Hc & Hb) H. unfold pool_get in H. destruct (unused p) as [|x rest] eqn:Hu.
  - destruct (N.eqb (ucap p) 0); [discriminate|]. inversion H; subst. lia.
  - inversion H; subst. assert (Hx: In i (used ++ i :: rest)) by (apply in_or_app; simpl; auto).
    apply Hin in Hx. lia.
Qed.

Theorem arena_map_insert (a: astate) (s: mstate) (k v: Z) :
  MInv s -> (forall e, In e (ments (root s)) -> fst e <> k) ->
  Rep a EMPTY (aroot a) (root s) -> blen (pl s) < EMPTY ->
  exists s' a' i p', pool_get (pl s) = Some (i, p') /\ m_insert s k v = Ret s' /\
    arena_insert (2 * height (root s) + 2) a i (k, v) = Ret a' /\
    Rep a' EMPTY (aroot a') (root s') /\ MInv s'.
Proof.
  intros HI Habs HR Hb. pose proof HI as (ND & Hrb & Hbst & Hwf).
  destruct (pool_get_wf _ _ Hwf) as (i & p' & Hg & Hni & Hi0 & Hwf').
  pose proof (pool_get_slot_le _ _ _ _ Hwf Hg) as Hle.
  assert (Nie: i <> EMPTY) by lia.
  destruct (arena_insert_refines mkey a (root s) i (k, v) (2 * height (root s) + 2) HR ND Hni Nie (le_n _)) as (a' & Ha' & HR').
  assert (Hs': m_insert s k v = Ret {| root := insert_tree (root s) i (k, v); pl := p' |}).
  { unfold m_insert. rewrite Hg. reflexivity. }
  eexists _, a', i, p'. split; [exact Hg|]. split; [exact Hs'|]. split; [exact Ha'|]. split; [exact HR'|].
  destruct (m_insert_spec s k v HI Habs) as (s2 & i2 & Hr2 & HI2 & _). rewrite Hs' in Hr2. inversion Hr2; subst. exact HI2.
Qed.

(** ** validation of the transcription by evaluation (before any proof): arenas built by
    [arena_insert], slots deleted by [arena_delete], the result read back by [read_tree] and compared
    with the tree-level model [del] (tree and freed slot) *)
Definition check_delete (s: astate) (t: mtree) (x: N) : Prop :=
  match del t x, arena_delete 64 s x with
  | Done t' _ f, Ret (s', f') => read_tree 64 s' EMPTY (aroot s') = Some t' /\ f' = f
  | _, _ => False
  end.

Fixpoint check_each (s: astate) (t: mtree) (xs: list N) : Prop :=
  match xs with [] => True | x :: xs' => check_delete s t x /\ check_each s t xs' end.

(* successive deletions, each checked; the slot to delete is picked among those present in the current
   tree (a removal with two children frees the successor's slot, not the one asked for) *)
Definition pick (t: mtree) (sel: nat) : N := nth (sel mod length (slots ment t)) (slots ment t) 0.

Fixpoint check_seq (s: astate) (t: mtree) (sels: list nat) : Prop :=
  match sels with
  | [] => t = E
  | sel :: sels' =>
    match del t (pick t sel), arena_delete 64 s (pick t sel) with
    | Done t' _ f, Ret (s', f') => read_tree 64 s' EMPTY (aroot s') = Some t' /\ f' = f /\ check_seq s' t' sels'
    | _, _ => False
    end
  end.

Definition built (ks: list Z) (P: astate -> mtree -> Prop) : Prop :=
  match arena_inserts empty_arena 1 ks with
  | Ret s => read_tree 64 s EMPTY (aroot s) = Some (tree_inserts E 1 ks) /\ P s (tree_inserts E 1 ks)
  | Err _ => False
  end.

Definition nseq (a n: nat) : list N := map N.of_nat (seq a n).
Definition zperm (mul md n: nat) : list Z := map (fun i => Z.of_nat ((i * mul) mod md)) (seq 1 n).
Definition sels (mul n: nat) : list nat := map (fun i => (i * mul)%nat) (seq 1 n).

Definition ks_a : list Z := [50; 20; 70; 10; 30; 25; 27; 26; 60; 65; 5; 1; 80; 90; 85]%Z.
Definition ks_b : list Z := map Z.of_nat (seq 1 31).            (* ascending: a right-leaning tree *)
Definition ks_c : list Z := zperm 17 41 40.                      (* a permutation of 1..40 *)
Definition ks_d : list Z := map (fun i => Z.of_nat (30 - i)) (seq 1 25).   (* descending *)
Definition ks_e : list Z := zperm 5 23 22.

(* which repair cases the tree-level model goes through (left side 2..6, right side 12..16) *)
Definition tagL36 (c: color) (r: mtree) : list nat :=
  match r with
  | E => []
  | T _ sl _ _ sr =>
    if is_black sl && is_black sr then [if color_eqb c Black then 4 else 3]%nat
    else if is_black sr then [5]%nat else [6]%nat
  end.
Definition tagL (c: color) (r: mtree) : list nat :=
  match r with T Red sl _ _ _ => 2%nat :: tagL36 Red sl | _ => tagL36 c r end.
Definition tagR36 (c: color) (l: mtree) : list nat :=
  match l with
  | E => []
  | T _ sl _ _ sr =>
    if is_black sl && is_black sr then [if color_eqb c Black then 14 else 13]%nat
    else if is_black sl then [15]%nat else [16]%nat
  end.
Definition tagR (c: color) (l: mtree) : list nat :=
  match l with T Red _ _ _ sr => 12%nat :: tagR36 Red sr | _ => tagR36 c l end.

Fixpoint del_min_tags (t: mtree) : list nat :=
  match t with
  | E => []
  | T c E s e r => []
  | T c l s e r =>
    match del_min l with
    | Some (_, true, _, _) => del_min_tags l ++ tagL c r
    | _ => del_min_tags l
    end
  end.

Fixpoint del_tags (t: mtree) (x: N) : list nat :=
  match t with
  | E => []
  | T c l s e r =>
    if N.eqb s x then
      match l, r with
      | T _ _ _ _ _, T _ _ _ _ _ =>
        match del_min r with
        | Some (_, true, _, _) => (20%nat :: del_min_tags r) ++ tagR c l
        | _ => 20%nat :: del_min_tags r
        end
      | E, E => [match c with Red => 21 | Black => 22 end]%nat
      | _, E => [23]%nat
      | E, _ => [24]%nat
      end
    else
      match del l x with
      | Done _ true _ => del_tags l x ++ tagL c r
      | Done _ false _ => del_tags l x
      | Stuck => []
      | NotFound =>
        match del r x with
        | Done _ true _ => del_tags r x ++ tagR c l
        | Done _ false _ => del_tags r x
        | _ => []
        end
      end
  end.

Definition tags_each (t: mtree) (xs: list N) : list nat := flat_map (del_tags t) xs.
Fixpoint tags_seq (t: mtree) (sels: list nat) : list nat :=
  match sels with
  | [] => []
  | sel :: sels' => del_tags t (pick t sel) ++ match del t (pick t sel) with Done t' _ _ => tags_seq t' sels' | _ => [] end
  end.

(* 15 + 31 single deletions (every slot of two trees), then 40 + 25 + 22 successive deletions that
   empty three more trees: 133 deletions, trees of 1 to 40 nodes *)
Example arena_delete_agrees :
  built ks_a (fun s t => check_each s t (nseq 1 15)) /\
  built ks_b (fun s t => check_each s t (nseq 1 31)) /\
  built ks_c (fun s t => check_seq s t (sels 7 40)) /\
  built ks_d (fun s t => check_seq s t (sels 11 25)) /\
  built ks_e (fun s t => check_seq s t (sels 3 22)).
Proof. vm_compute. repeat split; reflexivity. Qed.

(* the deletions above exercise: root / red leaf / black leaf / one child / two children (20..24) and
   every repair case on both sides *)
Example arena_delete_coverage :
  let tags := tags_each (tree_inserts E 1 ks_a) (nseq 1 15) ++ tags_each (tree_inserts E 1 ks_b) (nseq 1 31) ++
              tags_seq (tree_inserts E 1 ks_c) (sels 7 40) ++ tags_seq (tree_inserts E 1 ks_d) (sels 11 25) ++
              tags_seq (tree_inserts E 1 ks_e) (sels 3 22) in
  forallb (fun tag => existsb (Nat.eqb tag) tags) [2; 3; 4; 5; 6; 12; 13; 14; 15; 16; 20; 21; 22; 23; 24]%nat = true.
Proof. vm_compute. reflexivity. Qed.

(** ** the map / set step: MapTree::delete_by_index on the arena *)
Theorem arena_map_delete_at (a: astate) (s: mstate) (x: N) (e: ment) :
  MInv s -> In (x, e) (mel (root s)) -> Rep a EMPTY (aroot a) (root s) ->
  exists s' a' f, m_delete_at s x = Ret s' /\
    arena_delete (height (root s)) a x = Ret (a', f) /\
    pl s' = pool_put (pl s) f /\ Rep a' EMPTY (aroot a') (root s') /\ MInv s' /\
    (forall j, ~ In j (mslots (root s)) -> j <> 0 -> nodes a' j = nodes a j).
Proof.
  intros HI Hin HR. pose proof HI as (ND & Hrb & Hbst & Hwf).
  assert (Hx: In x (mslots (root s))) by (eapply in_elements_slots; eauto).
  assert (H0: ~ In 0 (mslots (root s))).
  { intros K. destruct Hwf as (_ & Hrange & _). assert (K': In 0 (mslots (root s) ++ unused (pl s))) by (apply in_or_app; auto).
    apply Hrange in K'. lia. }
  destruct (arena_delete_refines_frame a (root s) x _ HR ND H0 Hrb Hx (le_n _)) as (t' & d & f & a' & Hd & Ha & HR' & Hfr).
  destruct (m_delete_at_spec s x e HI Hin) as (s' & A & B & Hs' & HI' & _).
  unfold m_delete_at in Hs'. rewrite Hd in Hs'. inversion Hs'; subst s'. cbn [root pl] in *.
  exists {| root := t'; pl := pool_put (pl s) f |}, a', f. cbn [root pl].
  split; [unfold m_delete_at; rewrite Hd; reflexivity|]. split; [exact Ha|]. split; [reflexivity|].
  split; [exact HR'|]. split; [exact HI'|].
  intros j Hj Hj0. apply Hfr. intros [K|K]; [congruence|contradiction].
Qed.


(** ** non-vacuity: the hypotheses of the theorem hold of an arena built by fifteen insertions *)
Lemma tree_inserts_rb ks : forall t next, rbi ment t -> rbi ment (tree_inserts t next ks).
Proof.
  induction ks as [|k ks IH]; intros t next H; [exact H|]. cbn [tree_inserts]. apply IH. apply insert_tree_rb. exact H.
Qed.

Example arena_delete_applies : forall s, arena_inserts empty_arena 1 ks_a = Ret s ->
  exists t' d f s', del (tree_inserts E 1 ks_a) 7 = Done t' d f /\ arena_delete 20 s 7 = Ret (s', f) /\
    Rep s' EMPTY (aroot s') t'.
Proof.
  intros s Hs. apply arena_delete_refines.
  - apply (read_tree_sound 64). vm_compute in Hs. inversion Hs; subst s. vm_compute. reflexivity.
  - vm_compute. repeat constructor; cbn [In]; intuition discriminate.
  - vm_compute. intuition discriminate.
  - apply tree_inserts_rb. constructor.
  - vm_compute. tauto.
  - vm_compute. lia.
Qed.
