(** * MapList / SetList (Model/ListModel.v, [ml_step]) refine the association-list semantics of
    Spec.v.  The set list is the same model (its "value" carries the key), so everything here holds
    for both. *)
From Coq Require Import List NArith ZArith Bool Lia Permutation Sorted.
Import ListNotations.
Require Import ITree.Model.Common ITree.Model.MapModel ITree.Model.ListModel ITree.Spec.Spec.
Require Import ITree.Proofs.ListGen.
Local Open Scope Z_scope.

Notation msorted := (sorted ment mkey).
Notation mone_eq := (one_eq ment mkey).

(** the refinement relation: the buffer is strictly sorted by key and holds exactly the entries
    of the association list, whose keys are pairwise distinct *)
Definition R (l: lstate) (m: amap) : Prop :=
  msorted l /\ Permutation l m /\ NoDup (map fst m).

(* positions *)
Definition valid_pos (l: lstate) (h: N) : Prop := (N.to_nat h < length l)%nat.
Definition valid_opos (l: lstate) (h: option N) : Prop :=
  match h with None => True | Some i => valid_pos l i end.
Definition entry_at (l: lstate) (h: option N) : option ment :=
  match h with None => None | Some i => nth_error l (N.to_nat i) end.

(** ** the reference queries are instances of the generic ones *)
Lemma best_gmax ok m : best ok m = gmax ment mkey ok m.
Proof. reflexivity. Qed.
Lemma a_next_gmin m k : a_next m k = gmin ment mkey (fun e => Z.ltb k (fst e)) m.
Proof. reflexivity. Qed.
Lemma a_prev_gmax m k : a_prev m k = gmax ment mkey (fun e => Z.ltb (fst e) k) m.
Proof. reflexivity. Qed.
Lemma a_pred_gmax m q : a_pred m q = gmax ment mkey (fun e => Z.leb (fst e) q) m.
Proof. reflexivity. Qed.
Lemma a_pred_by_gpred m f : a_pred_by m f = gpred_by ment mkey f m.
Proof. reflexivity. Qed.

Lemma a_pred_by_cmp_to m q : NoDup (map fst m) -> a_pred_by m (cmp_to q) = a_pred m q.
Proof.
  intro ND. rewrite a_pred_by_gpred, a_pred_gmax. apply gpred_by_cmp_to.
  apply NoDup_map_key_inj. exact ND.
Qed.

(** ** facts about R *)
Lemma R_intro l m : msorted l -> Permutation l m -> R l m.
Proof.
  intros S P. split; [|split]; auto.
  eapply Permutation_NoDup; [apply Permutation_map; exact P|].
  apply (sorted_NoDup ment mkey). exact S.
Qed.

Lemma R_nil : R [] [].
Proof. apply R_intro; [apply sorted_nil | constructor]. Qed.

Lemma R_inj_l l m : R l m -> key_inj ment mkey l.
Proof. intros [S _]. apply sorted_key_inj. exact S. Qed.

Lemma R_inj_m l m : R l m -> key_inj ment mkey m.
Proof. intros [_ [_ ND]]. apply NoDup_map_key_inj. exact ND. Qed.

Lemma R_length l m : R l m -> length l = length m.
Proof. intros [_ [P _]]. apply Permutation_length. exact P. Qed.

Lemma entry_at_of_nat l oi :
  entry_at l (option_map N.of_nat oi) = entry_of ment l oi.
Proof. destruct oi as [i|]; simpl; auto. rewrite Nat2N.id. reflexivity. Qed.

Lemma valid_opos_none_iff l h : valid_opos l h -> (h = None <-> entry_at l h = None).
Proof.
  destruct h as [i|]; simpl; intro V; split; auto; try discriminate.
  intro H. apply nth_error_None in H. unfold valid_pos in V. lia.
Qed.

(** ** insertion, deletion, lookup *)
Lemma lookup_none_notin l m k :
  Permutation l m -> a_lookup m k = None -> ~ In k (map mkey l).
Proof.
  intros P L Hin. apply in_map_iff in Hin. destruct Hin as [e [H1 H2]].
  pose proof (find_none _ _ L e (Permutation_in _ P H2)) as H. simpl in H.
  apply Z.eqb_neq in H. apply H. exact H1.
Qed.

Lemma map_insert_R l m k v :
  R l m -> a_lookup m k = None -> R (l_insert ment mkey l (k, v)) (a_insert m k v).
Proof.
  intros [S [P ND]] L. apply R_intro.
  - apply l_insert_sorted; auto. simpl. eapply lookup_none_notin; eauto.
  - unfold a_insert. eapply perm_trans; [apply Permutation_sym; apply l_insert_perm|].
    apply perm_skip. exact P.
Qed.

Lemma map_delete_R l m k : R l m -> R (l_delete ment mkey l k) (a_remove m k).
Proof.
  intros [S [P ND]]. rewrite (l_delete_filter ment mkey k l S). apply R_intro.
  - apply sorted_filter. exact S.
  - unfold a_remove. apply Permutation_filter. exact P.
Qed.

Lemma map_get_eq l m k : R l m -> l_get ment mkey l k = a_lookup m k.
Proof.
  intros HR. pose proof (R_inj_l _ _ HR) as K. destruct HR as [S [P ND]].
  rewrite (l_get_find ment mkey k l S). unfold a_lookup.
  apply (find_key_perm ment mkey k l m P K).
Qed.

Lemma map_is_empty_eq l m :
  R l m -> (match l with [] => true | _ => false end) = (match m with [] => true | _ => false end).
Proof.
  intro HR. apply R_length in HR. destruct l; destruct m; simpl in HR; auto; discriminate.
Qed.

(** ** predecessor queries *)
Lemma one_eq_perm f l m : Permutation l m -> mone_eq f m -> mone_eq f l.
Proof. intros P O a b Ha Hb. apply O; eapply Permutation_in; eauto. Qed.

Lemma map_first_by_eq l m f :
  R l m -> monotone f -> mone_eq f m ->
  let h := option_map N.of_nat (l_first_by ment mkey l f) in
  valid_opos l h /\ entry_at l h = a_pred_by m f.
Proof.
  intros HR M O h. pose proof (R_inj_l _ _ HR) as K. destruct HR as [S [P ND]]. split.
  - unfold h. destruct (l_first_by ment mkey l f) as [i|] eqn:F; simpl; auto.
    unfold valid_pos. rewrite Nat2N.id. eapply l_first_by_bound; eauto.
  - unfold h. rewrite entry_at_of_nat. rewrite (l_first_by_spec ment mkey f l S M).
    rewrite a_pred_by_gpred. apply gpred_by_perm; auto. eapply one_eq_perm; eauto.
Qed.

Lemma map_first_eq l m q :
  R l m ->
  let h := option_map N.of_nat (l_first_by ment mkey l (cmp_to q)) in
  valid_opos l h /\ entry_at l h = a_pred m q.
Proof.
  intros HR h. pose proof HR as [_ [_ ND]]. rewrite <- (a_pred_by_cmp_to m q ND).
  apply map_first_by_eq; auto.
  - apply monotone_cmp_to.
  - apply one_eq_cmp_to.
Qed.

(** ** operations through a position *)
Lemma map_set_at_R l m i e v :
  R l m -> nth_error l i = Some e ->
  R (update_at ment l i (fun x => (fst x, v))) (a_update m (fst e) v).
Proof.
  intros [S [P ND]] N. apply R_intro.
  - eapply sorted_same_keys; [|exact S]. symmetry. apply update_at_keys. reflexivity.
  - rewrite (update_at_map ment mkey _ l i e S N). unfold a_update.
    assert (E: forall l0: list ment,
      map (fun x => if Z.eqb (mkey x) (mkey e) then (fst x, v) else x) l0 =
      map (fun x => if Z.eqb (fst x) (fst e) then (fst e, v) else x) l0).
    { intro l0. apply map_ext. intro x. unfold mkey.
      destruct (Z.eqb_spec (fst x) (fst e)) as [H|H]; auto. rewrite H. reflexivity. }
    rewrite E. apply Permutation_map. exact P.
Qed.

Lemma map_delete_at_R l m i e :
  R l m -> nth_error l i = Some e -> R (remove_at ment l i) (a_remove m (fst e)).
Proof.
  intros [S [P ND]] N. rewrite (remove_at_filter ment mkey l i e S N). apply R_intro.
  - apply sorted_filter. exact S.
  - unfold a_remove. apply Permutation_filter. exact P.
Qed.

Lemma map_after_eq l m i e :
  R l m -> nth_error l i = Some e -> nth_error l (S i) = a_next m (fst e).
Proof.
  intros HR N. pose proof (R_inj_l _ _ HR) as K. destruct HR as [S0 [P ND]].
  rewrite a_next_gmin. rewrite <- (gmin_perm ment mkey _ l m P K).
  symmetry. apply (next_sorted ment mkey l i e S0 N).
Qed.

Lemma map_before_eq l m i e :
  R l m -> nth_error l i = Some e -> prev_of ment l i = a_prev m (fst e).
Proof.
  intros HR N. pose proof (R_inj_l _ _ HR) as K. destruct HR as [S0 [P ND]].
  rewrite a_prev_gmax. rewrite <- (gmax_perm ment mkey _ l m P K).
  symmetry. apply (prev_sorted ment mkey l i e S0 N).
Qed.

(** ** the same facts, stated on [ml_step] *)
Lemma step_insert l m k v :
  R l m -> a_lookup m k = None ->
  exists l', ml_step l (MIns k v) = Ret (l', ONone) /\ R l' (a_insert m k v).
Proof. intros HR L. eexists. split; [reflexivity|]. apply map_insert_R; auto. Qed.

Lemma step_delete l m k :
  R l m -> exists l', ml_step l (MDel k) = Ret (l', ONone) /\ R l' (a_remove m k).
Proof. intros HR. eexists. split; [reflexivity|]. apply map_delete_R; auto. Qed.

Lemma step_get l m k : R l m -> ml_step l (MGet k) = Ret (l, OEnt (a_lookup m k)).
Proof. intros HR. simpl. rewrite (map_get_eq l m k HR). reflexivity. Qed.

Lemma step_is_empty l m :
  R l m -> ml_step l MIsEmpty = Ret (l, OBool (match m with [] => true | _ => false end)).
Proof. intros HR. simpl. rewrite (map_is_empty_eq l m HR). reflexivity. Qed.

Lemma step_clear l : ml_step l MClear = Ret ([], ONone) /\ R [] [].
Proof. split; [reflexivity | apply R_nil]. Qed.

Lemma step_first_by l m f :
  R l m -> monotone f -> mone_eq f m ->
  exists h, ml_step l (MFirstBy f) = Ret (l, OHandle h) /\
            valid_opos l h /\ entry_at l h = a_pred_by m f /\
            (h = None <-> a_pred_by m f = None).
Proof.
  intros HR M O. destruct (map_first_by_eq l m f HR M O) as [V E].
  eexists. split; [reflexivity|]. split; [exact V|]. split; [exact E|].
  rewrite <- E. apply valid_opos_none_iff. exact V.
Qed.

Lemma step_first l m q :
  R l m ->
  exists h, ml_step l (MFirst q) = Ret (l, OHandle h) /\
            valid_opos l h /\ entry_at l h = a_pred m q /\
            (h = None <-> a_pred m q = None).
Proof.
  intros HR. destruct (map_first_eq l m q HR) as [V E].
  eexists. split; [reflexivity|]. split; [exact V|]. split; [exact E|].
  rewrite <- E. apply valid_opos_none_iff. exact V.
Qed.

Lemma step_first_by_cmp_to l q : ml_step l (MFirstBy (cmp_to q)) = ml_step l (MFirst q).
Proof. reflexivity. Qed.

Lemma valid_pos_nth l i : valid_pos l i -> exists e, nth_error l (N.to_nat i) = Some e.
Proof.
  unfold valid_pos. intro V. destruct (nth_error l (N.to_nat i)) as [e|] eqn:E; eauto.
  apply nth_error_None in E. lia.
Qed.

Lemma nth_valid_pos l i e : nth_error l (N.to_nat i) = Some e -> valid_pos l i.
Proof. intro H. unfold valid_pos. apply nth_error_Some. congruence. Qed.

Lemma step_value_at l i :
  valid_pos l i ->
  exists e, nth_error l (N.to_nat i) = Some e /\ ml_step l (MValAt i) = Ret (l, OEnt (Some e)).
Proof.
  intro V. destruct (valid_pos_nth l i V) as [e E]. exists e. split; auto.
  simpl. unfold ml_value_at. rewrite E. reflexivity.
Qed.

Lemma ltb_valid l i : valid_pos l i -> Nat.ltb (N.to_nat i) (length l) = true.
Proof. unfold valid_pos. intro V. apply Nat.ltb_lt. exact V. Qed.

Lemma step_set_at l m i e v :
  R l m -> nth_error l (N.to_nat i) = Some e ->
  exists l', ml_step l (MSetAt i v) = Ret (l', ONone) /\ R l' (a_update m (fst e) v).
Proof.
  intros HR E. pose proof (nth_valid_pos _ _ _ E) as V.
  eexists. split.
  - simpl. unfold ml_set_at. rewrite (ltb_valid l i V). reflexivity.
  - apply map_set_at_R; auto.
Qed.

Lemma step_delete_at l m i e :
  R l m -> nth_error l (N.to_nat i) = Some e ->
  exists l', ml_step l (MDelAt i) = Ret (l', ONone) /\ R l' (a_remove m (fst e)).
Proof.
  intros HR E. pose proof (nth_valid_pos _ _ _ E) as V.
  eexists. split.
  - simpl. unfold ml_delete_at. rewrite (ltb_valid l i V). reflexivity.
  - apply map_delete_at_R; auto.
Qed.

Lemma step_after l m i e :
  R l m -> nth_error l (N.to_nat i) = Some e ->
  exists h, ml_step l (MAfter i) = Ret (l, OHandle h) /\
            valid_opos l h /\ entry_at l h = a_next m (fst e) /\
            (h = None <-> S (N.to_nat i) = length l).
Proof.
  intros HR E. pose proof (nth_valid_pos _ _ _ E) as V.
  pose proof (map_after_eq l m _ e HR E) as NX. unfold valid_pos in V.
  simpl. unfold ml_after. rewrite (ltb_valid l i V). simpl.
  destruct (Nat.ltb_spec (S (N.to_nat i)) (length l)) as [H|H].
  - exists (Some (i + 1)%N). split; auto.
    assert (T: N.to_nat (i + 1) = S (N.to_nat i)) by lia.
    split; [simpl; unfold valid_pos; lia|]. split; [simpl; rewrite T; exact NX|].
    split; [discriminate|lia].
  - exists None. split; auto. split; [exact I|]. split.
    + simpl. rewrite <- NX. symmetry. apply nth_error_None. lia.
    + split; auto. lia.
Qed.

Lemma step_before l m i e :
  R l m -> nth_error l (N.to_nat i) = Some e ->
  exists h, ml_step l (MBefore i) = Ret (l, OHandle h) /\
            valid_opos l h /\ entry_at l h = a_prev m (fst e) /\
            (h = None <-> i = 0%N).
Proof.
  intros HR E. pose proof (nth_valid_pos _ _ _ E) as V.
  pose proof (map_before_eq l m _ e HR E) as PV. unfold valid_pos in V.
  simpl. unfold ml_before. rewrite (ltb_valid l i V). simpl.
  destruct (N.eqb_spec i 0) as [H|H].
  - exists None. split; auto. split; [exact I|]. split.
    + simpl. rewrite <- PV. subst i. reflexivity.
    + tauto.
  - exists (Some (i - 1)%N). split; auto.
    assert (T: N.to_nat i = S (N.to_nat (i - 1))) by lia.
    split; [simpl; unfold valid_pos; lia|]. split.
    + simpl. rewrite <- PV. rewrite T. reflexivity.
    + split; [discriminate|]. intro; contradiction.
Qed.

(** ** user-level operations, as the test harness drives the collections: a handle is obtained
    from a predecessor query and used at once *)
Inductive uop :=
| UIns (k v: Z) | UDel (k: Z) | UGet (k: Z) | UIsEmpty
| UFirst (q: Z) | UFirstBy (f: Z -> comparison)
| UWrite (q v: Z)      (* predecessor handle of q, then write v through it if any *)
| UDelAt (q: Z)        (* predecessor handle of q, then delete through it if any *)
| UAfter (q: Z)        (* predecessor handle of q, then the handle after it *)
| UBefore (q: Z)       (* predecessor handle of q, then the handle before it *)
| UClear.

(* positions are observed through the entry they designate *)
Inductive uout :=
| UONone | UOEnt (e: option ment) | UOBool (b: bool) | UOEnt2 (e1 e2: option ment).

Definition ml_state (l: lstate) (o: mop) : res lstate :=
  bind (ml_step l o) (fun r => Ret (fst r)).
Definition ml_handle (l: lstate) (o: mop) : res (option N) :=
  bind (ml_step l o) (fun r => match snd r with OHandle h => Ret h | _ => Err ErrHandle end).
Definition ml_entry (l: lstate) (h: option N) : res (option ment) :=
  match h with
  | None => Ret None
  | Some i => bind (ml_step l (MValAt i))
                   (fun r => match snd r with OEnt e => Ret e | _ => Err ErrHandle end)
  end.

Definition ul_step (l: lstate) (o: uop) : res (lstate * uout) :=
  match o with
  | UIns k v => bind (ml_state l (MIns k v)) (fun l' => Ret (l', UONone))
  | UDel k => bind (ml_state l (MDel k)) (fun l' => Ret (l', UONone))
  | UGet k => bind (ml_step l (MGet k)) (fun r =>
              match snd r with OEnt e => Ret (fst r, UOEnt e) | _ => Err ErrHandle end)
  | UIsEmpty => bind (ml_step l MIsEmpty) (fun r =>
                match snd r with OBool b => Ret (fst r, UOBool b) | _ => Err ErrHandle end)
  | UFirst q => bind (ml_handle l (MFirst q)) (fun h =>
                bind (ml_entry l h) (fun e => Ret (l, UOEnt e)))
  | UFirstBy f => bind (ml_handle l (MFirstBy f)) (fun h =>
                  bind (ml_entry l h) (fun e => Ret (l, UOEnt e)))
  | UWrite q v => bind (ml_handle l (MFirst q)) (fun h =>
                  bind (ml_entry l h) (fun e =>
                  match h with
                  | None => Ret (l, UOEnt e)
                  | Some i => bind (ml_state l (MSetAt i v)) (fun l' => Ret (l', UOEnt e))
                  end))
  | UDelAt q => bind (ml_handle l (MFirst q)) (fun h =>
                bind (ml_entry l h) (fun e =>
                match h with
                | None => Ret (l, UOEnt e)
                | Some i => bind (ml_state l (MDelAt i)) (fun l' => Ret (l', UOEnt e))
                end))
  | UAfter q => bind (ml_handle l (MFirst q)) (fun h =>
                bind (ml_entry l h) (fun e =>
                match h with
                | None => Ret (l, UOEnt2 e None)
                | Some i => bind (ml_handle l (MAfter i)) (fun h2 =>
                            bind (ml_entry l h2) (fun e2 => Ret (l, UOEnt2 e e2)))
                end))
  | UBefore q => bind (ml_handle l (MFirst q)) (fun h =>
                 bind (ml_entry l h) (fun e =>
                 match h with
                 | None => Ret (l, UOEnt2 e None)
                 | Some i => bind (ml_handle l (MBefore i)) (fun h2 =>
                             bind (ml_entry l h2) (fun e2 => Ret (l, UOEnt2 e e2)))
                 end))
  | UClear => bind (ml_state l MClear) (fun l' => Ret (l', UONone))
  end.

Definition ua_step (m: amap) (o: uop) : amap * uout :=
  match o with
  | UIns k v => (a_insert m k v, UONone)
  | UDel k => (a_remove m k, UONone)
  | UGet k => (m, UOEnt (a_lookup m k))
  | UIsEmpty => (m, UOBool (match m with [] => true | _ => false end))
  | UFirst q => (m, UOEnt (a_pred m q))
  | UFirstBy f => (m, UOEnt (a_pred_by m f))
  | UWrite q v => match a_pred m q with
                  | Some e => (a_update m (fst e) v, UOEnt (Some e))
                  | None => (m, UOEnt None)
                  end
  | UDelAt q => match a_pred m q with
                | Some e => (a_remove m (fst e), UOEnt (Some e))
                | None => (m, UOEnt None)
                end
  | UAfter q => match a_pred m q with
                | Some e => (m, UOEnt2 (Some e) (a_next m (fst e)))
                | None => (m, UOEnt2 None None)
                end
  | UBefore q => match a_pred m q with
                 | Some e => (m, UOEnt2 (Some e) (a_prev m (fst e)))
                 | None => (m, UOEnt2 None None)
                 end
  | UClear => ([], UONone)
  end.

(* the contract of the collections: insert only absent keys; comparators are monotone and
   single out at most one stored key *)
Definition uvalid (m: amap) (o: uop) : Prop :=
  match o with
  | UIns k v => a_lookup m k = None
  | UFirstBy f => monotone f /\ mone_eq f m
  | _ => True
  end.

Fixpoint ul_run (l: lstate) (h: list uop) : res (lstate * list uout) :=
  match h with
  | [] => Ret (l, [])
  | o :: h' =>
    bind (ul_step l o) (fun so =>
    bind (ul_run (fst so) h') (fun sr => Ret (fst sr, snd so :: snd sr)))
  end.

Fixpoint ua_run (m: amap) (h: list uop) : amap * list uout :=
  match h with
  | [] => (m, [])
  | o :: h' => let so := ua_step m o in
               let sr := ua_run (fst so) h' in (fst sr, snd so :: snd sr)
  end.

Fixpoint uvalid_hist (m: amap) (h: list uop) : Prop :=
  match h with
  | [] => True
  | o :: h' => uvalid m o /\ uvalid_hist (fst (ua_step m o)) h'
  end.

Lemma ml_entry_ok l h :
  valid_opos l h -> ml_entry l h = Ret (entry_at l h).
Proof.
  destruct h as [i|]; simpl; auto. intro V.
  destruct (valid_pos_nth l i V) as [e E]. unfold ml_value_at. rewrite E. reflexivity.
Qed.

Lemma ml_handle_first l q :
  ml_handle l (MFirst q) = Ret (option_map N.of_nat (l_first_by ment mkey l (cmp_to q))).
Proof. reflexivity. Qed.

Lemma ul_step_refines l m o :
  R l m -> uvalid m o ->
  exists l', ul_step l o = Ret (l', snd (ua_step m o)) /\ R l' (fst (ua_step m o)).
Proof.
  intros HR V. destruct o as [k v|k|k| |q|f|q v|q|q|q| ].
  - (* UIns *) simpl in V. exists (l_insert ment mkey l (k, v)). split; [reflexivity|].
    apply map_insert_R; auto.
  - (* UDel *) exists (l_delete ment mkey l k). split; [reflexivity|]. apply map_delete_R; auto.
  - (* UGet *) exists l. split; auto. unfold ul_step. rewrite (step_get l m k HR). reflexivity.
  - (* UIsEmpty *) exists l. split; auto. unfold ul_step. rewrite (step_is_empty l m HR).
    reflexivity.
  - (* UFirst *) exists l. split; auto. unfold ul_step. rewrite ml_handle_first.
    destruct (map_first_eq l m q HR) as [V1 E1]. cbn [bind].
    rewrite (ml_entry_ok _ _ V1). rewrite E1. reflexivity.
  - (* UFirstBy *) exists l. split; auto. destruct V as [M O].
    destruct (map_first_by_eq l m f HR M O) as [V1 E1]. unfold ul_step.
    change (ml_handle l (MFirstBy f)) with (Ret (A:=option N) (option_map N.of_nat (l_first_by ment mkey l f))).
    cbn [bind]. rewrite (ml_entry_ok _ _ V1). rewrite E1. reflexivity.
  - (* UWrite *) unfold ul_step. rewrite ml_handle_first.
    destruct (map_first_eq l m q HR) as [V1 E1]. cbn [bind].
    rewrite (ml_entry_ok _ _ V1). rewrite E1. cbn [bind]. cbn [ua_step].
    destruct (option_map N.of_nat (l_first_by ment mkey l (cmp_to q))) as [i|] eqn:H.
    + simpl in E1. rewrite <- E1. destruct (nth_error l (N.to_nat i)) as [e|] eqn:N.
      * destruct (step_set_at l m i e v HR N) as [l' [S1 R1]]. exists l'. split; auto.
        unfold ml_state. rewrite S1. reflexivity.
      * exfalso. simpl in V1. destruct (valid_pos_nth l i V1) as [e E]. congruence.
    + simpl in E1. rewrite <- E1. exists l. split; auto.
  - (* UDelAt *) unfold ul_step. rewrite ml_handle_first.
    destruct (map_first_eq l m q HR) as [V1 E1]. cbn [bind].
    rewrite (ml_entry_ok _ _ V1). rewrite E1. cbn [bind]. cbn [ua_step].
    destruct (option_map N.of_nat (l_first_by ment mkey l (cmp_to q))) as [i|] eqn:H.
    + simpl in E1. rewrite <- E1. destruct (nth_error l (N.to_nat i)) as [e|] eqn:N.
      * destruct (step_delete_at l m i e HR N) as [l' [S1 R1]]. exists l'. split; auto.
        unfold ml_state. rewrite S1. reflexivity.
      * exfalso. simpl in V1. destruct (valid_pos_nth l i V1) as [e E]. congruence.
    + simpl in E1. rewrite <- E1. exists l. split; auto.
  - (* UAfter *) unfold ul_step. rewrite ml_handle_first.
    destruct (map_first_eq l m q HR) as [V1 E1]. cbn [bind].
    rewrite (ml_entry_ok _ _ V1). rewrite E1. cbn [bind]. cbn [ua_step].
    destruct (option_map N.of_nat (l_first_by ment mkey l (cmp_to q))) as [i|] eqn:H.
    + simpl in E1. rewrite <- E1. destruct (nth_error l (N.to_nat i)) as [e|] eqn:N.
      * destruct (step_after l m i e HR N) as [h2 [S1 [V2 [E2 _]]]]. exists l. split; auto.
        unfold ml_handle at 1. rewrite S1. cbn [bind snd].
        rewrite (ml_entry_ok _ _ V2). rewrite E2. reflexivity.
      * exfalso. simpl in V1. destruct (valid_pos_nth l i V1) as [e E]. congruence.
    + simpl in E1. rewrite <- E1. exists l. split; auto.
  - (* UBefore *) unfold ul_step. rewrite ml_handle_first.
    destruct (map_first_eq l m q HR) as [V1 E1]. cbn [bind].
    rewrite (ml_entry_ok _ _ V1). rewrite E1. cbn [bind]. cbn [ua_step].
    destruct (option_map N.of_nat (l_first_by ment mkey l (cmp_to q))) as [i|] eqn:H.
    + simpl in E1. rewrite <- E1. destruct (nth_error l (N.to_nat i)) as [e|] eqn:N.
      * destruct (step_before l m i e HR N) as [h2 [S1 [V2 [E2 _]]]]. exists l. split; auto.
        unfold ml_handle at 1. rewrite S1. cbn [bind snd].
        rewrite (ml_entry_ok _ _ V2). rewrite E2. reflexivity.
      * exfalso. simpl in V1. destruct (valid_pos_nth l i V1) as [e E]. congruence.
    + simpl in E1. rewrite <- E1. exists l. split; auto.
  - (* UClear *) exists []. split; [reflexivity|]. apply R_nil.
Qed.

Lemma ul_run_refines h : forall l m,
  R l m -> uvalid_hist m h ->
  exists l', ul_run l h = Ret (l', snd (ua_run m h)) /\ R l' (fst (ua_run m h)).
Proof.
  induction h as [|o h IH]; intros l m HR V.
  - exists l. split; auto.
  - destruct V as [V1 V2]. destruct (ul_step_refines l m o HR V1) as [l1 [S1 R1]].
    destruct (IH l1 _ R1 V2) as [l2 [S2 R2]]. exists l2. split; auto.
    cbn [ul_run ua_run]. rewrite S1. cbn [bind fst snd]. rewrite S2. reflexivity.
Qed.

Theorem maplist_refines h :
  uvalid_hist [] h ->
  exists l', ul_run [] h = Ret (l', snd (ua_run [] h)) /\ R l' (fst (ua_run [] h)).
Proof. apply ul_run_refines. apply R_nil. Qed.

(** ** the hypothesis "at most one stored key is Eq" cannot be dropped *)
Example first_by_needs_one_eq :
  let f := fun _ : Z => Eq in
  let l := [(1, 10); (2, 20)] in
  let m := [(2, 20); (1, 10)] in
  R l m /\ monotone f /\
  ml_step l (MFirstBy f) = Ret (l, OHandle (Some 0%N)) /\
  entry_at l (Some 0%N) = Some (1, 10) /\ a_pred_by m f = Some (2, 20).
Proof.
  cbv zeta. split; [|split; [|split; [|split]]]; try reflexivity.
  - apply R_intro.
    + repeat constructor.
    + apply perm_swap.
  - intros a b _. split; congruence.
Qed.

(** ** no operation fails on positions inside the buffer *)
Definition mop_valid_pos (l: lstate) (o: mop) : Prop :=
  match o with
  | MDelAt h | MValAt h | MSetAt h _ | MAfter h | MBefore h => valid_pos l h
  | _ => True
  end.

Lemma ml_step_no_err l o : mop_valid_pos l o -> exists r, ml_step l o = Ret r.
Proof.
  destruct o; simpl; intro V; try (eexists; reflexivity).
  - unfold ml_delete_at. rewrite (ltb_valid l h V). eexists; reflexivity.
  - unfold ml_value_at. destruct (valid_pos_nth l h V) as [e E]. rewrite E. eexists; reflexivity.
  - unfold ml_set_at. rewrite (ltb_valid l h V). eexists; reflexivity.
  - unfold ml_after. rewrite (ltb_valid l h V). eexists; reflexivity.
  - unfold ml_before. rewrite (ltb_valid l h V). eexists; reflexivity.
Qed.

(** ** inserting a key that is already stored breaks the order (why UIns needs an absent key) *)
Example insert_present_breaks_order :
  let l := [(1, 10)] in
  R l l /\ ml_step l (MIns 1 20) = Ret ([(1, 20); (1, 10)], ONone) /\
  ~ msorted [(1, 20); (1, 10)].
Proof.
  cbv zeta. split; [|split]; try reflexivity.
  - apply R_intro; [repeat constructor | apply Permutation_refl].
  - intro S. apply sorted_cons_iff in S. destruct S as [_ S]. inversion S as [|? ? H _]; subst.
    simpl in H. lia.
Qed.

(** ** a worked instance (used by the Examples next to the property statements) *)
Definition exL : lstate := [(1, 10); (3, 30); (5, 50)].
Definition exM : amap := [(3, 30); (5, 50); (1, 10)].

Lemma ex_R : R exL exM.
Proof.
  apply R_intro; [repeat constructor|]. unfold exL.
  change exM with ([(3, 30); (5, 50)] ++ (1, 10) :: []).
  apply Permutation_cons_app. rewrite app_nil_r. apply Permutation_refl.
Qed.

Definition ex_hist : list uop :=
  [UIns 3 30; UIns 1 10; UIns 5 50; UGet 3; UFirst 4; UFirstBy (cmp_to 5); UWrite 2 11;
   UAfter 2; UBefore 4; UAfter 9; UBefore 1; UDelAt 4; UDel 7; UIsEmpty; UGet 3; UFirst 0;
   UClear; UIsEmpty].

Lemma ex_hist_valid : uvalid_hist [] ex_hist.
Proof.
  unfold ex_hist. cbn [uvalid_hist uvalid].
  repeat (match goal with |- _ /\ _ => split end);
    try reflexivity; try exact I; try apply monotone_cmp_to; try apply one_eq_cmp_to.
Qed.
