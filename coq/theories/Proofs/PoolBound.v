(** * C11, second half: the number of slots ever allocated is bounded by the peak population.
    blen <= 3 * (peak + 1) + max cap 8, where peak is the largest number of simultaneously stored
    entries over the history: the buffer grows only when the free list is empty (every slot is in use,
    so blen - 1 = population <= peak), and it grows by the free list's capacity, which is the initial
    capacity or was doubled by a push that found the list full (hence <= 2 * blen). *)
From Coq Require Import List NArith ZArith Bool Lia Permutation.
Import ListNotations.
Require Import ITree.Model.Common ITree.Model.RBTree ITree.Model.Pool ITree.Model.MapModel.
Require Import ITree.Spec.Spec ITree.Spec.MapSpec.
Require Import ITree.Proofs.RBElems ITree.Proofs.TreeLookup ITree.Proofs.PoolProofs ITree.Proofs.AssocSpec ITree.Proofs.MapProofs.
Local Open Scope N_scope.

Definition Bnd (c0 p: N) (pl: pool) : Prop :=
  blen pl <= 3 * (p + 1) + c0 /\ ucap pl <= N.max c0 (2 * blen pl).

Lemma pool_wf_count used pl : pool_wf used pl ->
  N.of_nat (length used) + N.of_nat (length (unused pl)) + 1 = blen pl.
Proof.
  intros (ND & Hin & _ & Hb).
  assert (P: Permutation (used ++ unused pl) (range 1 (N.to_nat (blen pl) - 1))).
  { apply NoDup_Permutation; auto using range_nodup. intros x. rewrite Hin, range_in. lia. }
  apply Permutation_length in P. rewrite app_length, range_length in P. lia.
Qed.

Lemma Bnd_mono c0 p p' pl : p <= p' -> Bnd c0 p pl -> Bnd c0 p' pl.
Proof. intros Hp (A & B). split; [lia|exact B]. Qed.

Lemma pool_get_bnd c0 p used pl i pl' : pool_wf used pl -> pool_get pl = Some (i, pl') ->
  N.of_nat (length used) <= p -> Bnd c0 p pl -> Bnd c0 (N.max p (N.of_nat (length used) + 1)) pl'.
Proof.
  intros Hwf Hg Hn (A & B). pose proof (pool_wf_count _ _ Hwf) as Hc.
  unfold pool_get in Hg. destruct (unused pl) as [|x rest] eqn:Hu.
  - destruct (N.eqb (ucap pl) 0); [discriminate|]. inversion Hg; subst. simpl in Hc. unfold Bnd. cbn [blen ucap].
    split; lia.
  - inversion Hg; subst. unfold Bnd. cbn [blen ucap]. split; lia.
Qed.

Lemma pool_put_bnd c0 p used pl f : pool_wf (f :: used) pl -> Bnd c0 p pl -> Bnd c0 p (pool_put pl f).
Proof.
  intros Hwf (A & B). pose proof (pool_wf_count _ _ Hwf) as Hc. simpl length in Hc.
  unfold pool_put, Bnd. cbn [blen ucap]. split; [exact A|].
  destruct (N.eqb_spec (N.of_nat (length (unused pl))) (ucap pl)); lia.
Qed.

Lemma pool_put_all_bnd c0 p l : forall used pl, pool_wf (l ++ used) pl -> Bnd c0 p pl -> Bnd c0 p (fold_left pool_put l pl).
Proof.
  induction l as [|f l IH]; intros used pl Hwf HB; simpl; auto.
  apply (IH used); [apply pool_put_wf; exact Hwf|]. eapply pool_put_bnd; eauto.
Qed.

(* the peak population of a history, on the reference semantics *)
Fixpoint peak (m: amap) (h: list uop) : N :=
  match h with
  | [] => N.of_nat (length m)
  | o :: h' => N.max (N.of_nat (length m)) (peak (fst (a_step m o)) h')
  end.

Lemma peak_ge m h : N.of_nat (length m) <= peak m h.
Proof. destruct h; simpl; lia. Qed.

Lemma rel_length s m : Rel s m -> length (slots ment (root s)) = length m.
Proof. intros R. apply Permutation_length in R. unfold RBTree.slots, RBTree.ents in *. rewrite map_length in *. exact R. Qed.

Lemma del_pool s x e : MInv s -> In (x, e) (elements ment (root s)) ->
  exists s' f, m_delete_at s x = Ret s' /\ pl s' = pool_put (pl s) f /\
    Permutation (f :: slots ment (root s')) (slots ment (root s)).
Proof.
  intros (ND & Hrb & Hb & Hp) Hin. unfold m_delete_at.
  pose proof (del_spec ment (root s) x ND) as Hs. pose proof (RBInv.del_rb ment (root s) x Hrb) as Hr.
  destruct (del ment (root s) x) as [| |t' d f].
  - exfalso. apply Hs. eapply in_elements_slots; eauto.
  - contradiction.
  - destruct Hs as (A & e0 & B & He & Hents & Hperm). eexists _, f. split; [reflexivity|]. split; [reflexivity|exact Hperm].
Qed.

Lemma u_step_bnd c0 p s m o s' out : MInv s -> Rel s m -> valid_op m o ->
  u_step s o = Ret (s', out) -> N.of_nat (length m) <= p -> Bnd c0 p (pl s) ->
  Bnd c0 (N.max p (N.of_nat (length (fst (a_step m o))))) (pl s').
Proof.
  intros HI R Hv Hst Hn HB. pose proof HI as (ND & Hrb & Hb & Hp).
  pose proof (rel_length s m R) as Hlen.
  assert (Keep: Bnd c0 (N.max p (N.of_nat (length (fst (a_step m o))))) (pl s)) by (eapply Bnd_mono; [|exact HB]; lia).
  destruct o as [k v|k|k| |q|f|q v|q|q|q| ]; simpl in Hst.
  - (* insert *)
    unfold m_insert in Hst. destruct (pool_get (pl s)) as [[i p']|] eqn:Hg; simpl in Hst; [|discriminate].
    inversion Hst; subst. cbn [pl]. simpl. 
    pose proof (pool_get_bnd c0 p _ _ _ _ Hp Hg) as K. rewrite Hlen in K. specialize (K Hn HB).
    eapply Bnd_mono; [|exact K]. lia.
  - (* delete by key *)
    unfold m_delete in Hst. pose proof (find_slot_spec ment mkey (root s) k Hb) as Hf.
    destruct (find_slot ment mkey (root s) k) as [x|]; [|inversion Hst; subst; exact Keep].
    destruct Hf as (e & Hin & _). destruct (del_pool s x e HI Hin) as (s2 & f & Hd & Hpl & Hperm).
    rewrite Hd in Hst. simpl in Hst. inversion Hst; subst. rewrite Hpl.
    apply (pool_put_bnd c0 _ (slots ment (root s')) (pl s) f); [|exact Keep].
    eapply pool_wf_perm; [apply Permutation_sym; exact Hperm|exact Hp].
  - inversion Hst; subst; exact Keep.
  - inversion Hst; subst; exact Keep.
  - destruct (read_at s (m_first s q)); simpl in Hst; inversion Hst; subst; exact Keep.
  - destruct (read_at s (m_first_by s f)); simpl in Hst; inversion Hst; subst; exact Keep.
  - (* write *)
    destruct (m_first s q) as [x|]; [|inversion Hst; subst; exact Keep].
    unfold m_set_at in Hst. destruct (ent_at ment (root s) x); simpl in Hst; inversion Hst; subst. exact Keep.
  - (* delete through handle *)
    destruct (first_is_pred s m q HI R) as (r & Hrd & Hpr & Hm).
    destruct (m_first s q) as [x|]; [|inversion Hst; subst; exact Keep].
    destruct r as [e|]; [|contradiction].
    destruct (del_pool s x e HI Hm) as (s2 & f & Hd & Hpl & Hperm).
    rewrite Hd in Hst. simpl in Hst. inversion Hst; subst. rewrite Hpl.
    apply (pool_put_bnd c0 _ (slots ment (root s')) (pl s) f); [|exact Keep].
    eapply pool_wf_perm; [apply Permutation_sym; exact Hperm|exact Hp].
  - destruct (m_first s q) as [x|]; [|inversion Hst; subst; exact Keep].
    destruct (m_after s x); simpl in Hst; [|discriminate]. destruct (read_at s a); simpl in Hst; inversion Hst; subst; exact Keep.
  - destruct (m_first s q) as [x|]; [|inversion Hst; subst; exact Keep].
    destruct (m_before s x); simpl in Hst; [|discriminate]. destruct (read_at s a); simpl in Hst; inversion Hst; subst; exact Keep.
  - (* clear *)
    inversion Hst; subst. unfold m_clear. cbn [pl].
    apply (pool_put_all_bnd c0 _ (level_order ment (root s)) []); [|exact Keep].
    rewrite app_nil_r. eapply pool_wf_perm; [|exact Hp]. apply Permutation_sym. apply level_order_perm. exact mkey.
Qed.

Theorem u_run_bnd c0 h : forall p s m s' outs, MInv s -> Rel s m -> valid_history m h ->
  u_run s h = Ret (s', outs) -> N.of_nat (length m) <= p -> Bnd c0 p (pl s) ->
  Bnd c0 (N.max p (peak m h)) (pl s').
Proof.
  induction h as [|o h IH]; intros p s m s' outs HI R Hv Hrun Hn HB.
  - simpl in Hrun. inversion Hrun; subst. eapply Bnd_mono; [|exact HB]. lia.
  - destruct Hv as (Hvo & Hvh). simpl in Hrun.
    destruct (u_step_refines s m o HI R Hvo) as (s1 & out & Hst & _ & HI1 & R1).
    rewrite Hst in Hrun. simpl in Hrun.
    destruct (u_run s1 h) as [[s2 outs2]|] eqn:Hr2; simpl in Hrun; [|discriminate]. inversion Hrun; subst.
    pose proof (u_step_bnd c0 p s m o s1 out HI R Hvo Hst Hn HB) as HB1.
    pose proof (IH (N.max p (N.of_nat (length (fst (a_step m o))))) s1 (fst (a_step m o)) s' outs2 HI1 R1 Hvh Hr2) as K.
    simpl peak. eapply Bnd_mono; [|apply K; [lia|exact HB1]].
    pose proof (peak_ge (fst (a_step m o)) h). lia.
Qed.

Theorem map_slots_bounded cap h s outs : valid_history [] h -> u_run (m_new cap) h = Ret (s, outs) ->
  blen (pl s) <= 3 * (peak [] h + 1) + N.max cap 8.
Proof.
  intros Hv Hr. destruct (m_new_inv cap) as (HI & R).
  assert (HB: Bnd (N.max cap 8) 0 (pl (m_new cap))).
  { unfold m_new, tree_pool_new, pool_new. cbn [pl]. set (c := N.max cap 8).
    assert (8 <= c) by (unfold c; lia).
    destruct (N.to_nat c) as [|n] eqn:Hn; [lia|]. unfold pool_get. cbn [unused range].
    unfold Bnd. cbn [blen ucap]. split; lia. }
  pose proof (u_run_bnd (N.max cap 8) h 0 (m_new cap) [] s outs HI R Hv Hr) as K.
  simpl length in K. destruct (K ltac:(lia) HB) as (A & _). rewrite N.max_r in A by lia. exact A.
Qed.
