(** * The arena-level removal (Model/ArenaDelete.v) refines the tree-level removal [del] (Model/RBTree.v):
    if the arena represents a red-black tree with mutually consistent parent / child links and the
    sentinel slot 0 is not one of its nodes, then [arena_delete] returns, it frees the slot [del] frees,
    and the new arena represents the tree [del] computes, again with consistent links; slots outside
    the tree other than the sentinel are not written.

    Plan: (1) the transcription is validated by evaluation against [del]; (2) tree level: [del] through
    a context is [climb_del], and one repair step only replaces frames of the context of the deficient
    subtree ([fix_ctx], [climb_ctx]) without looking at that subtree, so that the sentinel linked in
    place of a removed black leaf can be treated as an ordinary red leaf; (3) arena level: a whole-tree
    predicate [WTF] with focused reads / paints / rotations, the repair loop [fix_spec] (cases 2 - 6 on
    both sides), the unlinking of a node with at most one child [unlink_spec], and the theorem. *)
From Coq Require Import List NArith ZArith Bool Lia Permutation Setoid Morphisms.
Import ListNotations.
Require Import ITree.Model.Common ITree.Model.RBTree ITree.Model.ArenaModel ITree.Model.ArenaDelete.
Require Import ITree.Proofs.RBElems ITree.Proofs.RBInv ITree.Proofs.Subtree ITree.Proofs.TreeLookup ITree.Proofs.ArenaProofs.
Local Open Scope N_scope.

(** Generic in the entity type [ent] (implicit argument of everything once the section is closed).
    The validation of the transcription by evaluation, and the map / set corollaries, are in
    Proofs/ArenaMap.v. *)
Section ArenaDeleteProofs.
Context {ent : Type}.

Notation anode := (anode ent).
Notation astate := (astate ent).
Notation mtree := (tree ent).
Notation mslots := (slots ent).
Notation frame := (@frame ent).
Notation ctx := (@ctx ent).
Notation height := (height ent).
Notation paint := (paint ent).
Implicit Types s : astate.
Implicit Types k : ctx.
Implicit Types t : mtree.

Notation del := (del ent).
Notation del_min := (del_min ent).
Notation fixL := (fixL ent).
Notation fixR := (fixR ent).
Notation fixL36 := (fixL36 ent).
Notation fixR36 := (fixR36 ent).
Notation is_black := (is_black ent).


(** ** the tree-level removal seen through a context *)

(* what one repair step does to the context of the deficient subtree: the frame (c, i, e, sibling) is
   replaced by the frames [kf]; the deficient subtree itself is never inspected *)
Definition fixL36_ctx (c: color) (s: N) (e: ent) (r: mtree) : option (ctx * bool) :=
  match r with
  | E => None
  | T sc sl ss se sr =>
    if is_black sl && is_black sr then
      Some ([FL Black s e (T Red sl ss se sr)], color_eqb c Black)
    else if is_black sr then
      match sl with
      | E => None
      | T _ sll sls sle slr => Some ([FL Black s e sll; FL c sls sle (T Black slr ss se sr)], false)
      end
    else Some ([FL Black s e sl; FL c ss se (paint Black sr)], false)
  end.

Definition fixL_ctx (c: color) (s: N) (e: ent) (r: mtree) : option (ctx * bool) :=
  match r with
  | E => None
  | T Red sl ss se sr =>
    match fixL36_ctx Red s e sl with
    | None => None
    | Some (kf, d) => Some (kf ++ [FL Black ss se sr], d)
    end
  | T Black _ _ _ _ => fixL36_ctx c s e r
  end.

Definition fixR36_ctx (c: color) (l: mtree) (s: N) (e: ent) : option (ctx * bool) :=
  match l with
  | E => None
  | T sc sl ss se sr =>
    if is_black sl && is_black sr then
      Some ([FR Black (T Red sl ss se sr) s e], color_eqb c Black)
    else if is_black sl then
      match sr with
      | E => None
      | T _ srl srs sre srr => Some ([FR Black srr s e; FR c (T Black sl ss se srl) srs sre], false)
      end
    else Some ([FR Black sr s e; FR c (paint Black sl) ss se], false)
  end.

Definition fixR_ctx (c: color) (l: mtree) (s: N) (e: ent) : option (ctx * bool) :=
  match l with
  | E => None
  | T Red sl ss se sr =>
    match fixR36_ctx Red sr s e with
    | None => None
    | Some (kf, d) => Some (kf ++ [FR Black sl ss se], d)
    end
  | T Black _ _ _ _ => fixR36_ctx c l s e
  end.

Definition fix_ctx (f: frame) : option (ctx * bool) :=
  match f with FL c i e r => fixL_ctx c i e r | FR c l i e => fixR_ctx c l i e end.

Definition fix1 (f: frame) (t: mtree) : option (mtree * bool) :=
  match f with FL c i e r => fixL c t i e r | FR c l i e => fixR c l i e t end.

Definition lift_ctx (o: option (ctx * bool)) (t: mtree) : option (mtree * bool) :=
  match o with None => None | Some (kf, d) => Some (plug kf t, d) end.

Lemma plug_app k1 : forall k2 t, plug (k1 ++ k2) t = plug k2 (plug k1 t).
Proof. induction k1 as [|f k1 IH]; intros k2 t; simpl; [reflexivity|]. apply IH. Qed.

Lemma fixL36_ctx_spec c t (s: N) e r : fixL36 c t s e r = lift_ctx (fixL36_ctx c s e r) t.
Proof.
  unfold RBTree.fixL36, fixL36_ctx. destruct r as [|sc sl ss se sr]; [reflexivity|].
  destruct (is_black sl && is_black sr); [reflexivity|].
  destruct (is_black sr); [|reflexivity]. destruct sl; reflexivity.
Qed.

Lemma fixR36_ctx_spec c l (s: N) e t : fixR36 c l s e t = lift_ctx (fixR36_ctx c l s e) t.
Proof.
  unfold RBTree.fixR36, fixR36_ctx. destruct l as [|sc sl ss se sr]; [reflexivity|].
  destruct (is_black sl && is_black sr); [reflexivity|].
  destruct (is_black sl); [|reflexivity]. destruct sr; reflexivity.
Qed.

Lemma fix1_spec f t : fix1 f t = lift_ctx (fix_ctx f) t.
Proof.
  destruct f as [c i e r|c l i e]; cbn [fix1 fix_ctx].
  - unfold RBTree.fixL, fixL_ctx. destruct r as [|[] sl ss se sr]; [reflexivity| |apply fixL36_ctx_spec].
    rewrite fixL36_ctx_spec. destruct (fixL36_ctx Red i e sl) as [[kf d]|]; [|reflexivity].
    cbn [lift_ctx]. rewrite plug_app. reflexivity.
  - unfold RBTree.fixR, fixR_ctx. destruct l as [|[] sl ss se sr]; [reflexivity| |apply fixR36_ctx_spec].
    rewrite fixR36_ctx_spec. destruct (fixR36_ctx Red sr i e) as [[kf d]|]; [|reflexivity].
    cbn [lift_ctx]. rewrite plug_app. reflexivity.
Qed.

(* the context of the deficient subtree once the repair has run: [after_fix] continues upwards while
   the deficiency flag is set *)
Fixpoint climb_ctx (k: ctx) : option (ctx * bool) :=
  match k with
  | [] => Some ([], true)
  | f :: k0 =>
    match fix_ctx f with
    | None => None
    | Some (kf, d) =>
      if d then match climb_ctx k0 with None => None | Some (k', d') => Some (kf ++ k', d') end
      else Some (kf ++ k0, false)
    end
  end.

Definition after_fix (kf: ctx) (d: bool) (k0: ctx) : option (ctx * bool) :=
  if d then match climb_ctx k0 with None => None | Some (k', d') => Some (kf ++ k', d') end
  else Some (kf ++ k0, false).

Lemma climb_ctx_cons f k0 :
  climb_ctx (f :: k0) = match fix_ctx f with None => None | Some (kf, d) => after_fix kf d k0 end.
Proof. reflexivity. Qed.

(* [del] climbing back through one frame / a whole context *)
Definition up_del (f: frame) (r: dres ent) : dres ent :=
  match r with
  | Done t true fr => match fix1 f t with None => Stuck | Some (t', d') => Done t' d' fr end
  | Done t false fr => Done (plug1 f t) false fr
  | other => other
  end.
Fixpoint climb_del (k: ctx) (r: dres ent) : dres ent :=
  match k with [] => r | f :: k0 => climb_del k0 (up_del f r) end.

Lemma climb_del_app k1 : forall k2 r, climb_del (k1 ++ k2) r = climb_del k2 (climb_del k1 r).
Proof. induction k1 as [|f k1 IH]; intros k2 r; simpl; [reflexivity|]. apply IH. Qed.

Lemma climb_del_false k : forall t fr, climb_del k (Done t false fr) = Done (plug k t) false fr.
Proof. induction k as [|f k IH]; intros t fr; simpl; [reflexivity|]. apply IH. Qed.

Lemma climb_del_true k : forall t fr,
  climb_del k (Done t true fr) =
  match climb_ctx k with None => Stuck | Some (k', d) => Done (plug k' t) d fr end.
Proof.
  induction k as [|f k IH]; intros t fr; [reflexivity|].
  cbn [climb_del up_del climb_ctx]. rewrite fix1_spec.
  destruct (fix_ctx f) as [[kf d]|]; cbn [lift_ctx].
  - destruct d.
    + rewrite IH. destruct (climb_ctx k) as [[k' d']|]; [|reflexivity]. rewrite plug_app. reflexivity.
    + rewrite climb_del_false, plug_app. reflexivity.
  - clear IH. induction k as [|f' k IH]; [reflexivity|]. exact IH.
Qed.

Lemma climb_del_stuck k : climb_del k Stuck = Stuck.
Proof. induction k as [|f k IH]; [reflexivity|]. exact IH. Qed.

Lemma nodup_plug1_inv f (t: mtree) : NoDup (mslots (plug1 f t)) ->
  NoDup (mslots t) /\ ~ In (fslot f) (mslots t) /\ (forall x, In x (mslots t) -> ~ In x (mslots (fsib f))).
Proof.
  intros ND. eapply Permutation_NoDup in ND; [|apply slots_plug1]. apply NoDup_app_iff in ND.
  destruct ND as (NDt & NDf & D). unfold fslots in D. split; [exact NDt|]. split.
  - intros K. apply (D _ K). simpl. auto.
  - intros x Hx K. apply (D _ Hx). simpl. auto.
Qed.

Lemma nodup_plug_inner k : forall t: mtree, NoDup (mslots (plug k t)) -> NoDup (mslots t).
Proof.
  induction k as [|f k IH]; intros t ND; [exact ND|]. apply IH in ND. apply nodup_plug1_inv in ND. tauto.
Qed.

Lemma del_plug1 f t x : NoDup (mslots (plug1 f t)) -> In x (mslots t) -> del (plug1 f t) x = up_del f (del t x).
Proof.
  intros ND Hx. destruct (nodup_plug1_inv _ _ ND) as (NDt & Hf & Hs).
  pose proof (del_found ent t x NDt Hx) as Hnf.
  destruct f as [c i e r|c l i e]; cbn [plug1 fslot fsib up_del fix1] in *.
  - cbn [RBTree.del]. destruct (N.eqb_spec i x) as [->|_]; [contradiction|].
    destruct (del t x) as [| |t' [] fr]; try reflexivity; congruence.
  - cbn [RBTree.del]. destruct (N.eqb_spec i x) as [->|_]; [contradiction|].
    rewrite (del_notin ent l x) by (apply Hs; exact Hx).
    destruct (del t x) as [| |t' [] fr]; try reflexivity; congruence.
Qed.

Lemma in_plug k : forall (t: mtree) x, In x (mslots t) -> In x (mslots (plug k t)).
Proof.
  induction k as [|f k IH]; intros t x Hx; [exact Hx|]. cbn [plug]. apply IH.
  destruct f; cbn [plug1]; rewrite slots_T, in_app_iff; simpl; auto.
Qed.

Lemma del_plug k : forall t x, NoDup (mslots (plug k t)) -> In x (mslots t) ->
  del (plug k t) x = climb_del k (del t x).
Proof.
  induction k as [|f k IH]; intros t x ND Hx; [reflexivity|]. cbn [plug climb_del].
  rewrite IH; auto.
  - rewrite del_plug1; auto. eapply nodup_plug_inner; eauto.
  - destruct f; cbn [plug1]; rewrite slots_T, in_app_iff; simpl; auto.
Qed.

(* every slot of a tree is the root of a subtree in some context *)
Lemma slot_focus (t: mtree) x : In x (mslots t) -> exists k c l e r, t = plug k (T c l x e r).
Proof.
  induction t as [|c l IHl i e r IHr]; intros Hx; [destruct Hx|].
  rewrite slots_T, in_app_iff in Hx. cbn [In] in Hx. destruct Hx as [Hx|[->|Hx]].
  - destruct (IHl Hx) as (k & c0 & l0 & e0 & r0 & ->). exists (k ++ [FL c i e r]), c0, l0, e0, r0.
    rewrite plug_app. reflexivity.
  - exists [], c, l, e, r. reflexivity.
  - destruct (IHr Hx) as (k & c0 & l0 & e0 & r0 & ->). exists (k ++ [FR c l i e]), c0, l0, e0, r0.
    rewrite plug_app. reflexivity.
Qed.

(* the left spine: the context of the leftmost node *)
Definition isFL (f: frame) : Prop := match f with FL _ _ _ _ => True | FR _ _ _ _ => False end.

Fixpoint spine (t: mtree) : ctx :=
  match t with
  | T c (T _ _ _ _ _ as l) i e r => spine l ++ [FL c i e r]
  | _ => []
  end.
Fixpoint lmost (t: mtree) : mtree :=
  match t with
  | T c (T _ _ _ _ _ as l) i e r => lmost l
  | _ => t
  end.

Lemma spine_plug t : plug (spine t) (lmost t) = t.
Proof.
  induction t as [|c l IHl i e r _]; [reflexivity|]. destruct l as [|lc ll li le lr]; [reflexivity|].
  change (spine (T c (T lc ll li le lr) i e r)) with (spine (T lc ll li le lr) ++ [FL c i e r]).
  change (lmost (T c (T lc ll li le lr) i e r)) with (lmost (T lc ll li le lr)).
  rewrite plug_app, IHl. reflexivity.
Qed.

Lemma lmost_shape t : t <> E -> exists cm ms me mr, lmost t = T cm E ms me mr.
Proof.
  induction t as [|c l IHl i e r _]; intros Hne; [congruence|]. destruct l as [|lc ll li le lr].
  - cbn. eauto.
  - change (lmost (T c (T lc ll li le lr) i e r)) with (lmost (T lc ll li le lr)). apply IHl. discriminate.
Qed.

Lemma spine_isFL t : Forall isFL (spine t).
Proof.
  induction t as [|c l IHl i e r _]; [constructor|]. destruct l as [|lc ll li le lr]; [constructor|].
  change (spine (T c (T lc ll li le lr) i e r)) with (spine (T lc ll li le lr) ++ [FL c i e r]).
  apply Forall_app. split; [exact IHl|]. repeat constructor.
Qed.

Lemma spine_length t : (length (spine t) < height t)%nat \/ t = E.
Proof.
  induction t as [|c l IHl i e r _]; [auto|]. left. destruct l as [|lc ll li le lr]; [simpl; lia|].
  change (spine (T c (T lc ll li le lr) i e r)) with (spine (T lc ll li le lr) ++ [FL c i e r]).
  rewrite app_length. cbn [length]. destruct IHl as [IH|IH]; [|discriminate].
  change (height (T c (T lc ll li le lr) i e r)) with (S (Nat.max (height (T lc ll li le lr)) (height r))). lia.
Qed.

(* the leftmost node T cm E ms me mr is removed like any node with at most one child *)
Definition min_res (o: option (mtree * bool * N * ent)) : dres ent :=
  match o with None => Stuck | Some (t, d, ms, _) => Done t d ms end.

Lemma del_min_spine t : t <> E ->
  forall cm ms me mr, lmost t = T cm E ms me mr ->
  min_res (del_min t) = climb_del (spine t) (del (T cm E ms me mr) ms) /\
  (forall t' d ms' me', del_min t = Some (t', d, ms', me') -> me' = me).
Proof.
  induction t as [|c l IHl i e r _]; intros Hne cm ms me mr Hm; [congruence|].
  destruct l as [|lc ll li le lr].
  - cbn [lmost] in Hm. inversion Hm; subst. cbn [spine climb_del RBTree.del]. rewrite N.eqb_refl.
    cbn [RBTree.del_min]. destruct mr; cbn [min_res]; split; try reflexivity; intros; congruence.
  - change (lmost (T c (T lc ll li le lr) i e r)) with (lmost (T lc ll li le lr)) in Hm.
    destruct (IHl ltac:(discriminate) cm ms me mr Hm) as (IH1 & IH2).
    change (spine (T c (T lc ll li le lr) i e r)) with (spine (T lc ll li le lr) ++ [FL c i e r]).
    rewrite climb_del_app, <- IH1. rewrite del_min_node.
    destruct (del_min (T lc ll li le lr)) as [[[[l' d] ms'] me']|]; cbn [min_res climb_del up_del fix1].
    + destruct d.
      * destruct (fixL c l' i e r) as [[t' d']|]; cbn [min_res]; split; try reflexivity; intros; try congruence.
        inversion H; subst. eapply IH2; reflexivity.
      * cbn [min_res plug1]. split; [reflexivity|]. intros. inversion H; subst. eapply IH2; reflexivity.
    + split; [reflexivity|]. intros; congruence.
Qed.

(* a node with two children: [del] = removing the leftmost node of the right subtree, whose entity
   moves into the node *)
Lemma del_two c l x e r cm ms me mr : l <> E -> r <> E -> lmost r = T cm E ms me mr ->
  del (T c l x e r) x = climb_del (spine r ++ [FR c l x me]) (del (T cm E ms me mr) ms).
Proof.
  intros Hl Hr Hm. destruct (del_min_spine r Hr _ _ _ _ Hm) as (H1 & H2).
  rewrite climb_del_app, <- H1. cbn [RBTree.del]. rewrite N.eqb_refl.
  destruct l as [|lc ll li le lr]; [congruence|]. destruct r as [|rc rl ri re rr]; [congruence|].
  destruct (del_min (T rc rl ri re rr)) as [[[[r' d] ms'] me']|]; cbn [min_res climb_del up_del fix1]; [|reflexivity].
  rewrite (H2 _ _ _ _ eq_refl). destruct d; reflexivity.
Qed.

(** ** the whole tree in one predicate; reading and updating a focused node *)
Definition rlink (t: mtree) : N := match t with E => EMPTY | T _ _ i _ _ => i end.

Lemma Rep_link s p x t : Rep s p x t -> x = rlink t.
Proof. inversion 1; reflexivity. Qed.

(* the arena represents the tree [t], whose slots in order are [L] *)
Definition WT (s: astate) (L: list N) (t: mtree) : Prop := Rep s EMPTY (aroot s) t /\ mslots t = L.

(* nothing outside [L] is written *)
Definition same_off (L: list N) (s s': astate) : Prop := forall j, ~ In j L -> nodes s' j = nodes s j.

Lemma same_off_refl L s : same_off L s s.
Proof. intros j _. reflexivity. Qed.
Lemma same_off_trans L s1 s2 s3 : same_off L s1 s2 -> same_off L s2 s3 -> same_off L s1 s3.
Proof. intros H1 H2 j Hj. rewrite H2, H1; auto. Qed.
Lemma same_off_incl L L' s s' : same_off L s s' -> incl L L' -> same_off L' s s'.
Proof. intros H Hi j Hj. apply H. intros K. apply Hj. apply Hi. exact K. Qed.
Lemma same_off_setn L s i n : In i L -> same_off L s (setn s i n).
Proof. intros Hi j Hj. apply nodes_setn_other. intros ->. contradiction. Qed.
Lemma same_off_set_root L s r : same_off L s (set_root s r).
Proof. intros j _. reflexivity. Qed.

Lemma slots_plug_eq k : forall t1 t2: mtree, mslots t1 = mslots t2 -> mslots (plug k t1) = mslots (plug k t2).
Proof.
  induction k as [|f k IH]; intros t1 t2 H; [exact H|]. cbn [plug]. apply IH.
  destruct f; cbn [plug1]; rewrite !slots_T, H; reflexivity.
Qed.

Lemma nd_foc k (t: mtree) : NoDup (mslots (plug k t)) -> NoDup (mslots t ++ cslots k).
Proof. intros ND. eapply Permutation_NoDup; [apply slots_plug|exact ND]. Qed.

Lemma in_foc k (t: mtree) j : In j (mslots (plug k t)) <-> In j (mslots t ++ cslots k).
Proof. split; apply Permutation_in; [|symmetry]; apply slots_plug. Qed.

Lemma WT_unplug s L k t : WT s L (plug k t) -> NoDup L ->
  RepC s k /\ Rep s (owner k) (hole_link s k) t /\ NoDup (mslots t ++ cslots k).
Proof.
  intros (HR & HL) ND. apply Rep_unplug in HR. destruct HR as (HC & Ht). repeat split; auto.
  apply nd_foc. rewrite HL. exact ND.
Qed.

Lemma foc_node s L k c l i e r : WT s L (plug k (T c l i e r)) ->
  nodes s i = {| par := owner k; lft := rlink l; rgt := rlink r; red := is_red c; aent := e |} /\ i <> EMPTY.
Proof.
  intros (HR & _). apply Rep_unplug in HR. destruct HR as (_ & Ht). apply Rep_inv_T in Ht.
  destruct Ht as (_ & Ni & Hp & Hc & He & Hl & Hr). apply Rep_link in Hl. apply Rep_link in Hr.
  split; [|exact Ni]. destruct (nodes s i) as [p0 l0 r0 c0 e0]. cbn [par lft rgt red aent] in *. congruence.
Qed.

Lemma owner_not_in_ctx_tree k (t: mtree) :
  forall j, ~ In j (mslots t ++ cslots k) -> j <> owner k \/ owner k = EMPTY.
Proof.
  intros j Hj. destruct k as [|f k]; cbn [owner]; [right; reflexivity|]. left. intros ->.
  apply Hj. apply in_or_app. right. cbn [cslots]. unfold fslots. simpl. auto.
Qed.

(* replacing the node stored at the root of the focused subtree: links kept, colour and entity free *)
Lemma update_foc s L k c l i e r n' c' e' : WT s L (plug k (T c l i e r)) -> NoDup L ->
  par n' = par (nodes s i) -> lft n' = lft (nodes s i) -> rgt n' = rgt (nodes s i) ->
  red n' = is_red c' -> aent n' = e' ->
  WT (setn s i n') L (plug k (T c' l i e' r)).
Proof.
  intros HW ND Ep El Er Ec Ee. destruct (WT_unplug _ _ _ _ HW ND) as (HC & Ht & NDk). destruct HW as (_ & HL).
  destruct (nd_split _ _ NDk) as (NDt & NDc & Dtk).
  apply Rep_inv_T in Ht. destruct Ht as (Hx & Ni & Hp & Hc & He & Hl & Hr).
  rewrite slots_T in NDt. apply NoDup_app_iff in NDt. destruct NDt as (NDl & NDir & Dl).
  apply NoDup_cons_iff in NDir. destruct NDir as (Hir & NDr).
  destruct (RepC_frame s (setn s i n') k HC) as (HC1 & Hl1); auto.
  { intros j Hj. apply nodes_setn_other. intros ->. apply (Dtk i); auto. rewrite slots_T, in_app_iff. simpl. auto. }
  split.
  - apply Rep_plug; auto. rewrite Hl1, Hx. constructor; rewrite ?nodes_setn_same; auto; try congruence.
    + rewrite El. eapply Rep_frame; [exact Hl|]. intros j Hj. apply nodes_setn_other. intros ->.
      apply (Dl i); simpl; auto.
    + rewrite Er. eapply Rep_frame; [exact Hr|]. intros j Hj. apply nodes_setn_other. intros ->. contradiction.
  - rewrite <- HL. apply slots_plug_eq. rewrite !slots_T. reflexivity.
Qed.

Lemma paint_foc s L k c0 c l j e r : WT s L (plug k (T c0 l j e r)) -> NoDup L ->
  WT (set_red s j (is_red c)) L (plug k (T c l j e r)).
Proof.
  intros HW ND. unfold set_red. eapply update_foc; eauto. cbn [aent with_red].
  destruct (foc_node _ _ _ _ _ _ _ _ HW) as (Hn & _). rewrite Hn. reflexivity.
Qed.

Lemma set_ent_foc s L k c l j e e' r : WT s L (plug k (T c l j e r)) -> NoDup L ->
  WT (set_ent s j e') L (plug k (T c l j e' r)).
Proof.
  intros HW ND. unfold set_ent. eapply update_foc; eauto. cbn [red with_ent].
  destruct (foc_node _ _ _ _ _ _ _ _ HW) as (Hn & _). rewrite Hn. reflexivity.
Qed.

Lemma in_L_foc s L k (t: mtree) j : WT s L (plug k t) -> In j (mslots t) -> In j L.
Proof. intros (_ & <-) Hj. apply in_plug. exact Hj. Qed.

(* the two rotations at the root of the focused subtree *)
Lemma rot_left_foc s L k cg cp a p ep b g eg u :
  WT s L (plug k (T cg u g eg (T cp a p ep b))) -> NoDup L ->
  WT (rotate_left s g) L (plug k (T cp (T cg u g eg a) p ep b)) /\ same_off L s (rotate_left s g).
Proof.
  intros HW ND. destruct (WT_unplug _ _ _ _ HW ND) as (HC & Ht & NDk). destruct HW as (_ & HL).
  set (t := T cg u g eg (T cp a p ep b)) in *. set (s' := rotate_left s g).
  pose proof (owner_notin s k t HC NDk Ht) as Hq.
  destruct (nd_split _ _ NDk) as (NDt & NDc & Dtk).
  pose proof Ht as Ht0. subst t. apply Rep_inv_T in Ht. destruct Ht as (Hx & Ng & Hpg & Hcg & Heg & Hu & Hr).
  apply Rep_inv_T in Hr. destruct Hr as (Hrg & Np & Hpp & Hcp & Hep & Ha & Hb).
  assert (D5: distinct5 (mslots a) p (mslots b) g (mslots u)) by (apply nd_shape2; rewrite !slots_T in NDt; exact NDt).
  assert (Out: forall j, ~ In j (mslots (T cg u g eg (T cp a p ep b))) -> outside (mslots a) p (mslots b) g (mslots u) j).
  { intros j Hj. repeat (rewrite ?slots_T, ?in_app_iff in Hj; cbn [In] in Hj).
    unfold outside. repeat split; intros K; apply Hj; subst; tauto. }
  destruct (rot_left_core s (owner k) g cg cp a p ep b eg u Ng Hpg Hcg Heg Hrg Np Hpp Hcp Hep Ha Hb Hu D5 (Out _ Hq))
    as (HR & Hfr & Hrel). fold s' in HR, Hfr, Hrel.
  destruct (RepC_relink s s' k g p HC NDc Hx) as (HC' & Hl'); auto.
  { intros K. apply (Dtk g); auto. rewrite slots_T, in_app_iff. simpl. auto. }
  { intros j Hj Hjo. apply Hfr; auto. apply Out. intros K. apply (Dtk j); auto. }
  split; [split|].
  - apply Rep_plug; auto. rewrite Hl'. exact HR.
  - rewrite <- HL. apply slots_plug_eq. rewrite !slots_T, <- app_assoc. reflexivity.
  - intros j Hj. rewrite <- HL in Hj. rewrite in_foc in Hj. apply Hfr.
    + apply Out. intros K. apply Hj. apply in_or_app. auto.
    + eapply owner_not_in_ctx_tree; exact Hj.
Qed.

Lemma rot_right_foc s L k cg cp a p ep b g eg u :
  WT s L (plug k (T cg (T cp a p ep b) g eg u)) -> NoDup L ->
  WT (rotate_right s g) L (plug k (T cp a p ep (T cg b g eg u))) /\ same_off L s (rotate_right s g).
Proof.
  intros HW ND. destruct (WT_unplug _ _ _ _ HW ND) as (HC & Ht & NDk). destruct HW as (_ & HL).
  set (t := T cg (T cp a p ep b) g eg u) in *. set (s' := rotate_right s g).
  pose proof (owner_notin s k t HC NDk Ht) as Hq.
  destruct (nd_split _ _ NDk) as (NDt & NDc & Dtk).
  pose proof Ht as Ht0. subst t. apply Rep_inv_T in Ht. destruct Ht as (Hx & Ng & Hpg & Hcg & Heg & Hl & Hu).
  apply Rep_inv_T in Hl. destruct Hl as (Hlg & Np & Hpp & Hcp & Hep & Ha & Hb).
  assert (D5: distinct5 (mslots a) p (mslots b) g (mslots u)) by (apply nd_shape1; rewrite !slots_T in NDt; exact NDt).
  assert (Out: forall j, ~ In j (mslots (T cg (T cp a p ep b) g eg u)) -> outside (mslots a) p (mslots b) g (mslots u) j).
  { intros j Hj. repeat (rewrite ?slots_T, ?in_app_iff in Hj; cbn [In] in Hj).
    unfold outside. repeat split; intros K; apply Hj; subst; tauto. }
  destruct (rot_right_core s (owner k) g cg cp a p ep b eg u Ng Hpg Hcg Heg Hlg Np Hpp Hcp Hep Ha Hb Hu D5 (Out _ Hq))
    as (HR & Hfr & Hrel). fold s' in HR, Hfr, Hrel.
  destruct (RepC_relink s s' k g p HC NDc Hx) as (HC' & Hl'); auto.
  { intros K. apply (Dtk g); auto. rewrite slots_T, in_app_iff. simpl. auto. }
  { intros j Hj Hjo. apply Hfr; auto. apply Out. intros K. apply (Dtk j); auto. }
  split; [split|].
  - apply Rep_plug; auto. rewrite Hl'. exact HR.
  - rewrite <- HL. apply slots_plug_eq. rewrite !slots_T, <- app_assoc. reflexivity.
  - intros j Hj. rewrite <- HL in Hj. rewrite in_foc in Hj. apply Hfr.
    + apply Out. intros K. apply Hj. apply in_or_app. auto.
    + eapply owner_not_in_ctx_tree; exact Hj.
Qed.

Lemma is_black_idx_rep s p x t : Rep s p x t -> is_black_idx s x = is_black t.
Proof.
  unfold is_black_idx. inversion 1 as [|p0 i c l e r Hi Hp Hc He Hl Hr]; subst; simpl.
  - reflexivity.
  - apply N.eqb_neq in Hi. rewrite Hi, Hc. destruct c; reflexivity.
Qed.

(** ** symbolic execution: the arena [s] represents a tree with slots [L] and differs from the initial
    arena [s0] only inside [L] *)
Definition WTF (s0: astate) (L: list N) (s: astate) (t: mtree) : Prop := WT s L t /\ same_off L s0 s.

Lemma WTF_start s L t : WT s L t -> WTF s L s t.
Proof. intros H. split; [exact H|apply same_off_refl]. Qed.

Lemma WTF_trans s0 L s1 s2 t : same_off L s0 s1 -> WTF s1 L s2 t -> WTF s0 L s2 t.
Proof. intros H (HW & HF). split; [exact HW|]. eapply same_off_trans; eauto. Qed.

Lemma paint_step s0 L s k c0 c l j e r : WTF s0 L s (plug k (T c0 l j e r)) -> NoDup L ->
  WTF s0 L (set_red s j (is_red c)) (plug k (T c l j e r)).
Proof.
  intros (HW & HF) ND. split; [apply (paint_foc _ _ _ c0); auto|].
  eapply same_off_trans; [exact HF|]. apply same_off_setn. eapply in_L_foc; [exact HW|]. rewrite slots_T, in_app_iff. simpl. auto.
Qed.

Lemma rot_left_step s0 L s k cg cp a p ep b g eg u :
  WTF s0 L s (plug k (T cg u g eg (T cp a p ep b))) -> NoDup L ->
  WTF s0 L (rotate_left s g) (plug k (T cp (T cg u g eg a) p ep b)).
Proof.
  intros (HW & HF) ND. destruct (rot_left_foc _ _ _ _ _ _ _ _ _ _ _ _ HW ND) as (HW' & HF').
  split; [exact HW'|]. eapply same_off_trans; eauto.
Qed.

Lemma rot_right_step s0 L s k cg cp a p ep b g eg u :
  WTF s0 L s (plug k (T cg (T cp a p ep b) g eg u)) -> NoDup L ->
  WTF s0 L (rotate_right s g) (plug k (T cp a p ep (T cg b g eg u))).
Proof.
  intros (HW & HF) ND. destruct (rot_right_foc _ _ _ _ _ _ _ _ _ _ _ _ HW ND) as (HW' & HF').
  split; [exact HW'|]. eapply same_off_trans; eauto.
Qed.

(* reading the focused node and its children *)
Lemma node_at s0 L s k c l i e r : WTF s0 L s (plug k (T c l i e r)) ->
  nodes s i = {| par := owner k; lft := rlink l; rgt := rlink r; red := is_red c; aent := e |}.
Proof. intros (HW & _). apply (foc_node _ _ _ _ _ _ _ _ HW). Qed.

Lemma slot_ne s0 L s k c l i e r : WTF s0 L s (plug k (T c l i e r)) -> N.eqb i EMPTY = false.
Proof. intros (HW & _). apply N.eqb_neq. apply (foc_node _ _ _ _ _ _ _ _ HW). Qed.

Lemma black_at_left s0 L s k c l i e r : WTF s0 L s (plug k (T c l i e r)) -> is_black_idx s (rlink l) = is_black l.
Proof.
  intros ((HR & _) & _). apply Rep_unplug in HR. destruct HR as (_ & Ht). apply Rep_inv_T in Ht.
  destruct Ht as (_ & _ & _ & _ & _ & Hl & _). pose proof (Rep_link _ _ _ _ Hl) as E1. rewrite <- E1.
  eapply is_black_idx_rep; eauto.
Qed.
Lemma black_at_right s0 L s k c l i e r : WTF s0 L s (plug k (T c l i e r)) -> is_black_idx s (rlink r) = is_black r.
Proof.
  intros ((HR & _) & _). apply Rep_unplug in HR. destruct HR as (_ & Ht). apply Rep_inv_T in Ht.
  destruct Ht as (_ & _ & _ & _ & _ & _ & Hr). pose proof (Rep_link _ _ _ _ Hr) as E1. rewrite <- E1.
  eapply is_black_idx_rep; eauto.
Qed.

(* the root links of the two children of a node differ (unless both are empty) *)
Lemma child_links_ne s0 L s k c (l: mtree) i e (r: mtree) : WTF s0 L s (plug k (T c l i e r)) -> NoDup L ->
  r <> E -> N.eqb (rlink r) (rlink l) = false.
Proof.
  intros (HW & _) ND Hne. destruct (WT_unplug _ _ _ _ HW ND) as (_ & Ht & NDk).
  apply nd_split in NDk. destruct NDk as (NDt & _ & _).
  apply Rep_inv_T in Ht. destruct Ht as (_ & _ & _ & _ & _ & Hl & Hr).
  apply N.eqb_neq. intros K. destruct r as [|rc rl ri re rr]; [congruence|]. cbn [rlink] in K.
  destruct l as [|lc ll li le lr]; cbn [rlink] in K.
  - apply Rep_inv_T in Hr. destruct Hr as (_ & Ni & _). congruence.
  - subst li. rewrite !slots_T in NDt. apply NoDup_app_iff in NDt. destruct NDt as (_ & _ & D).
    apply (D ri); [apply in_or_app; simpl; auto|]. right. apply in_or_app. simpl. auto.
Qed.

(* the root of the whole tree *)
Lemma aroot_at s0 L s t : WTF s0 L s t -> aroot s = rlink t.
Proof. intros ((HR & _) & _). eapply Rep_link; eauto. Qed.

Lemma rlink_plug_in k : forall t: mtree, k <> [] -> In (rlink (plug k t)) (cslots k).
Proof.
  induction k as [|f k IH]; intros t Hne; [congruence|]. cbn [plug cslots]. apply in_or_app.
  destruct k as [|f' k].
  - left. cbn [plug]. unfold fslots. destruct f; simpl; auto.
  - right. apply IH. discriminate.
Qed.

Lemma not_root_at s0 L s k t : WTF s0 L s (plug k t) -> NoDup L -> t <> E -> k <> [] ->
  N.eqb (rlink t) (aroot s) = false.
Proof.
  intros HW ND Ht Hk. rewrite (aroot_at _ _ _ _ HW). destruct HW as (HW & _).
  destruct (WT_unplug _ _ _ _ HW ND) as (_ & _ & NDk). apply nd_split in NDk. destruct NDk as (_ & _ & D).
  apply N.eqb_neq. intros K. apply (D (rlink t)).
  - destruct t; [congruence|]. cbn [rlink]. rewrite slots_T, in_app_iff. simpl. auto.
  - rewrite K. apply rlink_plug_in. exact Hk.
Qed.

(** ** the repair loop *)
Definition fix_goal (fuel: nat) : Prop := forall k s0 s t L k' d,
  WTF s0 L s (plug k t) -> NoDup L -> t <> E -> climb_ctx k = Some (k', d) -> (length k < fuel)%nat ->
  exists s', fix_delete fuel s (rlink t) = Ret s' /\ WTF s0 L s' (plug k' t).

(* cases 3 - 6, the deficient subtree is the left child *)
Lemma fix36_left fuel (IH: fix_goal fuel) k0 s0 s t L c i e r kf d k' d' :
  WTF s0 L s (plug k0 (T c t i e r)) -> NoDup L -> t <> E ->
  fixL36_ctx c i e r = Some (kf, d) -> after_fix kf d k0 = Some (k', d') ->
  (d = true -> (length k0 < fuel)%nat) ->
  exists s', fix_delete_36 (fix_delete fuel) s (rlink t) (rlink r) = Ret s' /\ WTF s0 L s' (plug k' t).
Proof.
  intros HW ND Ht Hf Ha Hlen.
  destruct r as [|sc sl ss se sr]; [discriminate|].
  destruct t as [|ct tl n et tr]; [congruence|]. cbn [rlink]. clear Ht.
  pose proof (node_at _ _ _ (FL c i e (T sc sl ss se sr) :: k0) _ _ _ _ _ HW) as Hn.
  pose proof (node_at _ _ _ k0 _ _ _ _ _ HW) as Hi.
  pose proof (node_at _ _ _ (FR c (T ct tl n et tr) i e :: k0) _ _ _ _ _ HW) as Hs.
  pose proof (slot_ne _ _ _ (FR c (T ct tl n et tr) i e :: k0) _ _ _ _ _ HW) as Nss.
  pose proof (black_at_left _ _ _ (FR c (T ct tl n et tr) i e :: k0) _ _ _ _ _ HW) as Bl.
  pose proof (black_at_right _ _ _ (FR c (T ct tl n et tr) i e :: k0) _ _ _ _ _ HW) as Br.
  cbn [owner fslot rlink] in Hn, Hi, Hs.
  unfold fix_delete_36. rewrite Nss, Hs. cbn [lft rgt]. rewrite Bl, Br.
  unfold fixL36_ctx in Hf. destruct (is_black sl && is_black sr) eqn:Eb.
  - (* cases 3 and 4 *)
    inversion Hf; subst kf d; clear Hf. cbv zeta.
    pose proof (paint_step _ _ _ (FR c (T ct tl n et tr) i e :: k0) _ Red _ _ _ _ HW ND) as HW1.
    cbn [is_red] in HW1. set (s1 := set_red s ss true) in *.
    pose proof (node_at _ _ _ (FL c i e (T Red sl ss se sr) :: k0) _ _ _ _ _ HW1) as Hn1.
    pose proof (node_at _ _ _ k0 _ _ _ _ _ HW1) as Hi1.
    cbn [owner fslot] in Hn1. rewrite Hn1. cbn [par]. rewrite Hi1. cbn [red].
    destruct c; cbn [is_red color_eqb after_fix] in *.
    + (* case 3 *)
      inversion Ha; subst k' d'; clear Ha. eexists; split; [reflexivity|].
      apply (paint_step _ _ _ k0 _ Black _ _ _ _ HW1 ND).
    + (* case 4 *)
      destruct (climb_ctx k0) as [[k'' d'']|] eqn:Ec; [|discriminate]. inversion Ha; subst k' d'; clear Ha.
      destruct (IH k0 s0 s1 _ L k'' d'' HW1 ND ltac:(discriminate) Ec (Hlen eq_refl)) as (s' & Hs' & HW').
      cbn [rlink] in Hs'. exists s'. split; [exact Hs'|]. exact HW'.
  - destruct (is_black sr) eqn:Ebr.
    + (* case 5 then 6 *)
      destruct sl as [|slc sll sls sle slr]; [discriminate|]. inversion Hf; subst kf d; clear Hf.
      cbn [after_fix] in Ha. inversion Ha; subst k' d'; clear Ha.
      eexists; split; [reflexivity|].
      unfold handle_black_sibling. rewrite Hn. cbn [par]. rewrite Hs, Hi. cbn [lft rgt rlink]. rewrite N.eqb_refl.
      rewrite Br. cbn [andb negb].
      pose proof (slot_ne _ _ _ (FL sc ss se sr :: FR c (T ct tl n et tr) i e :: k0) _ _ _ _ _ HW) as Nsls.
      rewrite Nsls. cbn [negb].
      pose proof (paint_step _ _ _ (FL sc ss se sr :: FR c (T ct tl n et tr) i e :: k0) _ Black _ _ _ _ HW ND) as HW1.
      cbn [is_red] in HW1.
      pose proof (paint_step _ _ _ (FR c (T ct tl n et tr) i e :: k0) _ Red _ _ _ _ HW1 ND) as HW2.
      cbn [is_red] in HW2.
      pose proof (rot_right_step _ _ _ (FR c (T ct tl n et tr) i e :: k0) _ _ _ _ _ _ _ _ _ HW2 ND) as HW3.
      cbv zeta.
      set (s3 := rotate_right (set_red (set_red s sls false) ss true) ss) in *.
      pose proof (node_at _ _ _ k0 _ _ _ _ _ HW3) as Hi3. cbn [rlink] in Hi3.
      rewrite Hi3. cbn [rgt red].
      pose proof (node_at _ _ _ (FR c (T ct tl n et tr) i e :: k0) _ _ _ _ _ HW3) as Hsl3. cbn [rlink owner fslot] in Hsl3.
      rewrite Hsl3. cbn [lft rgt]. rewrite Nss. cbn [negb].
      pose proof (paint_step _ _ _ (FR c (T ct tl n et tr) i e :: k0) _ c _ _ _ _ HW3 ND) as HW4.
      pose proof (paint_step _ _ _ k0 _ Black _ _ _ _ HW4 ND) as HW5. cbn [is_red] in HW5.
      pose proof (paint_step _ _ _ (FR c sll sls sle :: FR Black (T ct tl n et tr) i e :: k0) _ Black _ _ _ _ HW5 ND) as HW6.
      cbn [is_red] in HW6.
      apply (rot_left_step _ _ _ k0 _ _ _ _ _ _ _ _ _ HW6 ND).
    + (* case 6 *)
      inversion Hf; subst kf d; clear Hf. cbn [after_fix] in Ha. inversion Ha; subst k' d'; clear Ha.
      destruct sr as [|[] srl srs sre srr]; try discriminate.
      eexists; split; [reflexivity|].
      unfold handle_black_sibling. rewrite Hn. cbn [par]. rewrite Hs, Hi. cbn [lft rgt rlink]. rewrite N.eqb_refl.
      cbn [rlink] in Br. rewrite Br. cbn [andb negb]. cbv zeta. cbv iota.
      pose proof (slot_ne _ _ _ (FR sc sl ss se :: FR c (T ct tl n et tr) i e :: k0) _ _ _ _ _ HW) as Nsrs.
      rewrite Nsrs. cbn [negb]. rewrite Hi. cbn [red].
      pose proof (paint_step _ _ _ (FR c (T ct tl n et tr) i e :: k0) _ c _ _ _ _ HW ND) as HW4.
      pose proof (paint_step _ _ _ k0 _ Black _ _ _ _ HW4 ND) as HW5. cbn [is_red] in HW5.
      pose proof (paint_step _ _ _ (FR c sl ss se :: FR Black (T ct tl n et tr) i e :: k0) _ Black _ _ _ _ HW5 ND) as HW6.
      cbn [is_red] in HW6.
      apply (rot_left_step _ _ _ k0 _ _ _ _ _ _ _ _ _ HW6 ND).
Qed.

(* cases 3 - 6, the deficient subtree is the right child *)
Lemma fix36_right fuel (IH: fix_goal fuel) k0 s0 s t L c l i e kf d k' d' :
  WTF s0 L s (plug k0 (T c l i e t)) -> NoDup L -> t <> E ->
  fixR36_ctx c l i e = Some (kf, d) -> after_fix kf d k0 = Some (k', d') ->
  (d = true -> (length k0 < fuel)%nat) ->
  exists s', fix_delete_36 (fix_delete fuel) s (rlink t) (rlink l) = Ret s' /\ WTF s0 L s' (plug k' t).
Proof.
  intros HW ND Ht Hf Ha Hlen.
  destruct l as [|sc sl ss se sr]; [discriminate|].
  pose proof (child_links_ne _ _ _ k0 _ _ _ _ _ HW ND Ht) as Nnl.
  destruct t as [|ct tl n et tr]; [congruence|]. cbn [rlink] in *. clear Ht.
  pose proof (node_at _ _ _ (FR c (T sc sl ss se sr) i e :: k0) _ _ _ _ _ HW) as Hn.
  pose proof (node_at _ _ _ k0 _ _ _ _ _ HW) as Hi.
  pose proof (node_at _ _ _ (FL c i e (T ct tl n et tr) :: k0) _ _ _ _ _ HW) as Hs.
  pose proof (slot_ne _ _ _ (FL c i e (T ct tl n et tr) :: k0) _ _ _ _ _ HW) as Nss.
  pose proof (black_at_left _ _ _ (FL c i e (T ct tl n et tr) :: k0) _ _ _ _ _ HW) as Bl.
  pose proof (black_at_right _ _ _ (FL c i e (T ct tl n et tr) :: k0) _ _ _ _ _ HW) as Br.
  cbn [owner fslot rlink] in Hn, Hi, Hs.
  unfold fix_delete_36. rewrite Nss, Hs. cbn [lft rgt]. rewrite Bl, Br.
  unfold fixR36_ctx in Hf. destruct (is_black sl && is_black sr) eqn:Eb.
  - (* cases 3 and 4 *)
    inversion Hf; subst kf d; clear Hf. cbv zeta.
    pose proof (paint_step _ _ _ (FL c i e (T ct tl n et tr) :: k0) _ Red _ _ _ _ HW ND) as HW1.
    cbn [is_red] in HW1. set (s1 := set_red s ss true) in *.
    pose proof (node_at _ _ _ (FR c (T Red sl ss se sr) i e :: k0) _ _ _ _ _ HW1) as Hn1.
    pose proof (node_at _ _ _ k0 _ _ _ _ _ HW1) as Hi1.
    cbn [owner fslot] in Hn1. rewrite Hn1. cbn [par]. rewrite Hi1. cbn [red].
    destruct c; cbn [is_red color_eqb after_fix] in *.
    + (* case 3 *)
      inversion Ha; subst k' d'; clear Ha. eexists; split; [reflexivity|].
      apply (paint_step _ _ _ k0 _ Black _ _ _ _ HW1 ND).
    + (* case 4 *)
      destruct (climb_ctx k0) as [[k'' d'']|] eqn:Ec; [|discriminate]. inversion Ha; subst k' d'; clear Ha.
      destruct (IH k0 s0 s1 _ L k'' d'' HW1 ND ltac:(discriminate) Ec (Hlen eq_refl)) as (s' & Hs' & HW').
      cbn [rlink] in Hs'. exists s'. split; [exact Hs'|]. exact HW'.
  - destruct (is_black sl) eqn:Ebl.
    + (* case 5 then 6 *)
      destruct sr as [|src srl srs sre srr]; [discriminate|]. inversion Hf; subst kf d; clear Hf.
      cbn [after_fix] in Ha. inversion Ha; subst k' d'; clear Ha.
      eexists; split; [reflexivity|].
      unfold handle_black_sibling. rewrite Hn. cbn [par]. rewrite Hs, Hi. cbn [lft rgt rlink]. rewrite Nnl.
      rewrite Bl. cbn [andb negb].
      pose proof (slot_ne _ _ _ (FR sc sl ss se :: FL c i e (T ct tl n et tr) :: k0) _ _ _ _ _ HW) as Nsrs.
      rewrite Nsrs. cbn [negb].
      pose proof (paint_step _ _ _ (FR sc sl ss se :: FL c i e (T ct tl n et tr) :: k0) _ Black _ _ _ _ HW ND) as HW1.
      cbn [is_red] in HW1.
      pose proof (paint_step _ _ _ (FL c i e (T ct tl n et tr) :: k0) _ Red _ _ _ _ HW1 ND) as HW2.
      cbn [is_red] in HW2.
      pose proof (rot_left_step _ _ _ (FL c i e (T ct tl n et tr) :: k0) _ _ _ _ _ _ _ _ _ HW2 ND) as HW3.
      cbv zeta.
      set (s3 := rotate_left (set_red (set_red s srs false) ss true) ss) in *.
      pose proof (node_at _ _ _ k0 _ _ _ _ _ HW3) as Hi3. cbn [rlink] in Hi3.
      rewrite Hi3. cbn [lft red].
      pose proof (node_at _ _ _ (FL c i e (T ct tl n et tr) :: k0) _ _ _ _ _ HW3) as Hsr3. cbn [rlink owner fslot] in Hsr3.
      rewrite Hsr3. cbn [lft rgt]. rewrite Nss. cbn [negb].
      pose proof (paint_step _ _ _ (FL c i e (T ct tl n et tr) :: k0) _ c _ _ _ _ HW3 ND) as HW4.
      pose proof (paint_step _ _ _ k0 _ Black _ _ _ _ HW4 ND) as HW5. cbn [is_red] in HW5.
      pose proof (paint_step _ _ _ (FL c srs sre srr :: FL Black i e (T ct tl n et tr) :: k0) _ Black _ _ _ _ HW5 ND) as HW6.
      cbn [is_red] in HW6.
      apply (rot_right_step _ _ _ k0 _ _ _ _ _ _ _ _ _ HW6 ND).
    + (* case 6 *)
      inversion Hf; subst kf d; clear Hf. cbn [after_fix] in Ha. inversion Ha; subst k' d'; clear Ha.
      destruct sl as [|[] sll sls sle slr]; try discriminate.
      eexists; split; [reflexivity|].
      unfold handle_black_sibling. rewrite Hn. cbn [par]. rewrite Hs, Hi. cbn [lft rgt rlink]. rewrite Nnl.
      cbn [rlink] in Bl. rewrite Bl. cbn [andb negb]. cbv zeta. cbv iota.
      pose proof (slot_ne _ _ _ (FL sc ss se sr :: FL c i e (T ct tl n et tr) :: k0) _ _ _ _ _ HW) as Nsls.
      rewrite Nsls. cbn [negb]. rewrite Hi. cbn [red].
      pose proof (paint_step _ _ _ (FL c i e (T ct tl n et tr) :: k0) _ c _ _ _ _ HW ND) as HW4.
      pose proof (paint_step _ _ _ k0 _ Black _ _ _ _ HW4 ND) as HW5. cbn [is_red] in HW5.
      pose proof (paint_step _ _ _ (FL c ss se sr :: FL Black i e (T ct tl n et tr) :: k0) _ Black _ _ _ _ HW5 ND) as HW6.
      cbn [is_red] in HW6.
      apply (rot_right_step _ _ _ k0 _ _ _ _ _ _ _ _ _ HW6 ND).
Qed.

Lemma fixL36_ctx_red i e r kf d : fixL36_ctx Red i e r = Some (kf, d) -> d = false.
Proof.
  unfold fixL36_ctx. destruct r as [|sc sl ss se sr]; [discriminate|].
  destruct (is_black sl && is_black sr); [intros H; inversion H; reflexivity|].
  destruct (is_black sr); [destruct sl; [discriminate|]|]; intros H; inversion H; reflexivity.
Qed.
Lemma fixR36_ctx_red l i e kf d : fixR36_ctx Red l i e = Some (kf, d) -> d = false.
Proof.
  unfold fixR36_ctx. destruct l as [|sc sl ss se sr]; [discriminate|].
  destruct (is_black sl && is_black sr); [intros H; inversion H; reflexivity|].
  destruct (is_black sl); [destruct sr; [discriminate|]|]; intros H; inversion H; reflexivity.
Qed.

Theorem fix_spec : forall fuel, fix_goal fuel.
Proof.
  induction fuel as [|f IH]; intros k s0 s t L k' d HW ND Ht Hc Hlen; [lia|].
  cbn [fix_delete]. unfold fix_delete_body.
  destruct k as [|fr k0].
  - cbn [climb_ctx] in Hc. inversion Hc; subst k' d. cbn [plug] in *.
    rewrite (aroot_at _ _ _ _ HW), N.eqb_refl. eexists; split; [reflexivity|exact HW].
  - rewrite (not_root_at _ _ _ _ _ HW ND Ht ltac:(discriminate)).
    rewrite climb_ctx_cons in Hc. destruct (fix_ctx fr) as [[kf d0]|] eqn:Ef; [|discriminate].
    cbn [length] in Hlen.
    destruct fr as [c i e r|c l i e]; cbn [fix_ctx] in Ef.
    + (* the deficient subtree is a left child *)
      assert (Ht0: t <> E) by exact Ht.
      destruct t as [|ct tl n et tr]; [congruence|]. cbn [rlink].
      pose proof (node_at _ _ _ (FL c i e r :: k0) _ _ _ _ _ HW) as Hn.
      pose proof (node_at _ _ _ k0 _ _ _ _ _ HW) as Hi.
      cbn [owner fslot rlink] in Hn, Hi. unfold get_sibling. rewrite Hn. cbn [par]. rewrite Hi. cbn [lft rgt].
      rewrite N.eqb_refl.
      unfold fixL_ctx in Ef. destruct r as [|[] sl ss se sr]; [discriminate| |].
      * (* case 2: red sibling *)
        destruct (fixL36_ctx Red i e sl) as [[kf1 d1]|] eqn:E36; [|discriminate]. inversion Ef; subst kf d0; clear Ef.
        pose proof (fixL36_ctx_red _ _ _ _ _ E36) as Hd1. subst d1. cbn [after_fix] in Hc.
        inversion Hc; subst k' d; clear Hc.
        pose proof (node_at _ _ _ (FR c (T ct tl n et tr) i e :: k0) _ _ _ _ _ HW) as Hs.
        pose proof (slot_ne _ _ _ (FR c (T ct tl n et tr) i e :: k0) _ _ _ _ _ HW) as Nss.
        cbn [rlink]. rewrite Nss, Hs. cbn [red is_red].
        unfold handle_red_sibling. cbv zeta.
        pose proof (paint_step _ _ _ (FR c (T ct tl n et tr) i e :: k0) _ Black _ _ _ _ HW ND) as HW1. cbn [is_red] in HW1.
        set (s1 := set_red s ss false) in *.
        pose proof (node_at _ _ _ (FL c i e (T Black sl ss se sr) :: k0) _ _ _ _ _ HW1) as Hn1. cbn [owner fslot] in Hn1.
        rewrite Hn1. cbn [par].
        pose proof (paint_step _ _ _ k0 _ Red _ _ _ _ HW1 ND) as HW2. cbn [is_red] in HW2.
        set (s2 := set_red s1 i true) in *.
        pose proof (node_at _ _ _ k0 _ _ _ _ _ HW2) as Hi2. cbn [rlink] in Hi2. rewrite Hi2. cbn [lft]. rewrite N.eqb_refl.
        pose proof (rot_left_step _ _ _ k0 _ _ _ _ _ _ _ _ _ HW2 ND) as HW3.
        set (s3 := rotate_left s2 i) in *.
        pose proof (node_at _ _ _ (FL Red i e sl :: FL Black ss se sr :: k0) _ _ _ _ _ HW3) as Hn3.
        pose proof (node_at _ _ _ (FL Black ss se sr :: k0) _ _ _ _ _ HW3) as Hi3.
        cbn [owner fslot rlink] in Hn3, Hi3. rewrite Hn3. cbn [par]. rewrite Hi3. cbn [lft rgt]. rewrite N.eqb_refl.
        rewrite <- app_assoc. cbn [app].
        apply (fix36_left f IH (FL Black ss se sr :: k0) s0 s3 (T ct tl n et tr) L Red i e sl kf1 false _ false HW3 ND Ht0 E36).
        -- reflexivity.
        -- discriminate.
      * (* black sibling *)
        pose proof (node_at _ _ _ (FR c (T ct tl n et tr) i e :: k0) _ _ _ _ _ HW) as Hs.
        pose proof (slot_ne _ _ _ (FR c (T ct tl n et tr) i e :: k0) _ _ _ _ _ HW) as Nss.
        cbn [rlink]. rewrite Nss, Hs. cbn [red is_red].
        apply (fix36_left f IH k0 s0 s (T ct tl n et tr) L c i e (T Black sl ss se sr) kf d0 k' d HW ND Ht0 Ef Hc).
        intros _. lia.
    + (* the deficient subtree is a right child *)
      assert (Ht0: t <> E) by exact Ht.
      pose proof (child_links_ne _ _ _ k0 _ _ _ _ _ HW ND Ht) as Nnl.
      destruct t as [|ct tl n et tr]; [congruence|]. cbn [rlink] in *.
      pose proof (node_at _ _ _ (FR c l i e :: k0) _ _ _ _ _ HW) as Hn.
      pose proof (node_at _ _ _ k0 _ _ _ _ _ HW) as Hi.
      cbn [owner fslot rlink] in Hn, Hi. unfold get_sibling. rewrite Hn. cbn [par]. rewrite Hi. cbn [lft rgt].
      rewrite Nnl.
      unfold fixR_ctx in Ef. destruct l as [|[] sl ss se sr]; [discriminate| |].
      * (* case 2: red sibling *)
        destruct (fixR36_ctx Red sr i e) as [[kf1 d1]|] eqn:E36; [|discriminate]. inversion Ef; subst kf d0; clear Ef.
        pose proof (fixR36_ctx_red _ _ _ _ _ E36) as Hd1. subst d1. cbn [after_fix] in Hc.
        inversion Hc; subst k' d; clear Hc.
        pose proof (node_at _ _ _ (FL c i e (T ct tl n et tr) :: k0) _ _ _ _ _ HW) as Hs.
        pose proof (slot_ne _ _ _ (FL c i e (T ct tl n et tr) :: k0) _ _ _ _ _ HW) as Nss.
        cbn [rlink] in *. rewrite Nss, Hs. cbn [red is_red].
        unfold handle_red_sibling. cbv zeta.
        pose proof (paint_step _ _ _ (FL c i e (T ct tl n et tr) :: k0) _ Black _ _ _ _ HW ND) as HW1. cbn [is_red] in HW1.
        set (s1 := set_red s ss false) in *.
        pose proof (node_at _ _ _ (FR c (T Black sl ss se sr) i e :: k0) _ _ _ _ _ HW1) as Hn1. cbn [owner fslot] in Hn1.
        rewrite Hn1. cbn [par].
        pose proof (paint_step _ _ _ k0 _ Red _ _ _ _ HW1 ND) as HW2. cbn [is_red] in HW2.
        set (s2 := set_red s1 i true) in *.
        pose proof (node_at _ _ _ k0 _ _ _ _ _ HW2) as Hi2. cbn [rlink] in Hi2. rewrite Hi2. cbn [lft]. rewrite Nnl.
        pose proof (rot_right_step _ _ _ k0 _ _ _ _ _ _ _ _ _ HW2 ND) as HW3.
        set (s3 := rotate_right s2 i) in *.
        pose proof (node_at _ _ _ (FR Red sr i e :: FR Black sl ss se :: k0) _ _ _ _ _ HW3) as Hn3.
        pose proof (node_at _ _ _ (FR Black sl ss se :: k0) _ _ _ _ _ HW3) as Hi3.
        cbn [owner fslot rlink] in Hn3, Hi3. rewrite Hn3. cbn [par]. rewrite Hi3. cbn [lft rgt].
        pose proof (child_links_ne _ _ _ (FR Black sl ss se :: k0) _ _ _ _ _ HW3 ND Ht0) as Nnl3. cbn [rlink] in Nnl3.
        rewrite Nnl3.
        rewrite <- app_assoc. cbn [app].
        apply (fix36_right f IH (FR Black sl ss se :: k0) s0 s3 (T ct tl n et tr) L Red sr i e kf1 false _ false HW3 ND Ht0 E36).
        -- reflexivity.
        -- discriminate.
      * (* black sibling *)
        pose proof (node_at _ _ _ (FL c i e (T ct tl n et tr) :: k0) _ _ _ _ _ HW) as Hs.
        pose proof (slot_ne _ _ _ (FL c i e (T ct tl n et tr) :: k0) _ _ _ _ _ HW) as Nss.
        cbn [rlink] in *. rewrite Nss, Hs. cbn [red is_red].
        apply (fix36_right f IH k0 s0 s (T ct tl n et tr) L c (T Black sl ss se sr) i e kf d0 k' d HW ND Ht0 Ef Hc).
        intros _. lia.
Qed.

(** ** unlinking a node that has at most one child *)

(* the hole of a non-empty context is re-linked by writing the owner's left or right field *)
Lemma relink_child s f K0 old new :
  let K := f :: K0 in
  RepC s K -> hole_link s K = old -> NoDup (cslots K) -> ~ In old (cslots K) -> old <> EMPTY ->
  let q := owner K in
  let s' := if N.eqb (lft (nodes s q)) old then set_lft s q new else set_rgt s q new in
  RepC s' K /\ hole_link s' K = new /\ same_off (cslots K) s s'.
Proof.
  intros K HC Hx NDc Hold Nold q s'.
  assert (Nq: q <> EMPTY). { destruct HC as (HF & _). subst q. cbn [K owner]. destruct f; simpl in HF; tauto. }
  assert (Hin: In q (cslots K)). { subst q. cbn [K owner cslots]. unfold fslots. simpl. auto. }
  assert (Hq: nodes s' q = if N.eqb (lft (nodes s q)) old then with_lft (nodes s q) new else with_rgt (nodes s q) new).
  { subst s'. destruct (N.eqb (lft (nodes s q)) old); [unfold set_lft|unfold set_rgt]; apply nodes_setn_same. }
  assert (Ho: forall j, j <> q -> nodes s' j = nodes s j).
  { intros j Hj. subst s'. destruct (N.eqb (lft (nodes s q)) old); [unfold set_lft|unfold set_rgt]; apply nodes_setn_other; exact Hj. }
  assert (Hr: aroot s' = aroot s). { subst s'. destruct (N.eqb (lft (nodes s q)) old); reflexivity. }
  destruct (RepC_relink s s' K old new HC NDc Hx Hold Nold) as (HC' & Hl').
  - split; [intros _; exact Hq|]. fold q. apply N.eqb_neq in Nq. rewrite Nq. exact Hr.
  - intros j _ Hj. apply Ho. exact Hj.
  - split; [exact HC'|]. split; [exact Hl'|]. intros j Hj. apply Ho. intros ->. contradiction.
Qed.

(* replace_parents_child(parent, node, child): the only child takes the place of the node *)
Lemma splice s L K cm ml i em mr sub :
  WT s L (plug K (T cm ml i em mr)) -> NoDup L -> sub <> E ->
  (ml = E /\ mr = sub) \/ (mr = E /\ ml = sub) ->
  let s' := replace_parents_child s (owner K) i (rlink sub) in
  WT s' (mslots (plug K sub)) (plug K sub) /\ same_off L s s' /\
  NoDup (mslots (plug K sub)) /\ incl (mslots (plug K sub)) L.
Proof.
  intros HW ND Hne Hcase s'. destruct (WT_unplug _ _ _ _ HW ND) as (HC & Ht & NDk). destruct HW as (_ & HL).
  pose proof (owner_notin s K _ HC NDk Ht) as Hq.
  destruct (nd_split _ _ NDk) as (NDt & NDc & Dtk).
  apply Rep_inv_T in Ht. destruct Ht as (Hx & Ni & Hp & Hc & He & Hl & Hr).
  set (q := owner K) in *. set (x := rlink sub).
  assert (Hsub: Rep s i x sub /\ incl (mslots sub) (mslots (T cm ml i em mr)) /\ ~ In i (mslots sub)).
  { rewrite slots_T in NDt. apply NoDup_app_iff in NDt. destruct NDt as (_ & NDir & D). apply NoDup_cons_iff in NDir.
    destruct Hcase as [(-> & ->)|(-> & ->)].
    - split; [|split].
      + unfold x. rewrite <- (Rep_link _ _ _ _ Hr). exact Hr.
      + intros j Hj. rewrite slots_T, in_app_iff. simpl. auto.
      + tauto.
    - split; [|split].
      + unfold x. rewrite <- (Rep_link _ _ _ _ Hl). exact Hl.
      + intros j Hj. rewrite slots_T, in_app_iff. simpl. auto.
      + intros Hi. apply (D i); simpl; auto. }
  destruct Hsub as (Hsub & Hincl & Hisub).
  assert (Nx: x <> EMPTY /\ In x (mslots sub)).
  { destruct sub as [|sc sl sx se sr]; [congruence|]. apply Rep_inv_T in Hsub. cbn [rlink] in *. split; [tauto|].
    rewrite slots_T, in_app_iff. simpl. auto. }
  destruct Nx as (Nx & Hxin).
  assert (Nxq: x <> q). { intros K1. apply Hq. apply Hincl. rewrite <- K1. exact Hxin. }
  assert (Nxi: x <> i). { intros K1. apply Hisub. rewrite <- K1. exact Hxin. }
  assert (NDsub: NoDup (mslots sub ++ cslots K)).
  { apply NoDup_app_iff. apply nd_split in NDk. destruct NDk as (NDt' & _ & _). repeat split; auto.
    - clear - NDt' Hcase. rewrite slots_T in NDt'. apply NoDup_app_iff in NDt'. destruct NDt' as (NDl & NDr & _).
      apply NoDup_cons_iff in NDr. destruct Hcase as [(_ & <-)|(_ & <-)]; tauto.
    - intros j Hj1 Hj2. apply (Dtk j); auto. }
  (* pointwise description of the new arena *)
  assert (Sx: nodes s' x = with_par (nodes s x) q).
  { subst s'. unfold replace_parents_child. fold x.
    destruct (N.eqb q EMPTY); [|destruct (N.eqb (lft (nodes (set_par s x q) q)) i)]; arena_eval; reflexivity. }
  assert (So: forall j, j <> x -> (j <> q \/ q = EMPTY) -> nodes s' j = nodes s j).
  { intros j J1 J2. subst s'. unfold replace_parents_child. fold x.
    destruct (N.eqb_spec q EMPTY) as [Eq|Nq]; [arena_eval; reflexivity|].
    destruct J2 as [J2|J2]; [|congruence].
    destruct (N.eqb (lft (nodes (set_par s x q) q)) i); arena_eval; reflexivity. }
  assert (Hrel: relinked s s' q i x).
  { split.
    - intros Nq. subst s'. unfold replace_parents_child. fold x. apply N.eqb_neq in Nq. rewrite Nq.
      assert (E1: lft (nodes (set_par s x q) q) = lft (nodes s q)) by (arena_eval; reflexivity).
      rewrite E1. destruct (N.eqb (lft (nodes s q)) i); arena_eval; reflexivity.
    - subst s'. unfold replace_parents_child. fold x. destruct (N.eqb q EMPTY); [reflexivity|].
      destruct (N.eqb (lft (nodes (set_par s x q) q)) i); reflexivity. }
  destruct (RepC_relink s s' K i x HC NDc Hx) as (HC' & Hl'); auto.
  { intros K1. apply (Dtk i); auto. rewrite slots_T, in_app_iff. simpl. auto. }
  { intros j Hj Hjo. apply So; auto. intros ->. apply (Dtk x); auto. }
  assert (Hsub': Rep s' q x sub).
  { apply nd_split in NDsub. destruct NDsub as (NDs & _ & _).
    eapply Rep_reparent; [exact Hsub|exact NDs|intros _; exact Sx|].
    intros j Hj Hjx. apply So; auto. left. intros ->. apply Hq. apply Hincl. exact Hj. }
  split; [split|split; [|split]].
  - apply Rep_plug; auto. rewrite Hl'. exact Hsub'.
  - reflexivity.
  - intros j Hj. rewrite <- HL, in_foc in Hj. apply So.
    + intros ->. apply Hj. apply in_or_app. left. apply Hincl. exact Hxin.
    + eapply owner_not_in_ctx_tree. exact Hj.
  - eapply Permutation_NoDup; [symmetry; apply slots_plug|exact NDsub].
  - intros j Hj. rewrite <- HL. rewrite in_foc in Hj |- *. rewrite in_app_iff in Hj |- *. destruct Hj as [Hj|Hj]; auto.
Qed.

Lemma fix_ctx_nonempty f kf d : fix_ctx f = Some (kf, d) -> kf <> [].
Proof.
  destruct f as [c i e r|c l i e]; cbn [fix_ctx].
  - unfold fixL_ctx, fixL36_ctx. destruct r as [|[] sl ss se sr]; [discriminate| |].
    + destruct sl as [|sc sll sls sle slr]; [discriminate|].
      destruct (is_black sll && is_black slr); [|destruct (is_black slr); [destruct sll; [discriminate|]|]];
        intros H; inversion H; discriminate.
    + destruct (is_black sl && is_black sr); [|destruct (is_black sr); [destruct sl; [discriminate|]|]];
        intros H; inversion H; discriminate.
  - unfold fixR_ctx, fixR36_ctx. destruct l as [|[] sl ss se sr]; [discriminate| |].
    + destruct sr as [|sc srl srs sre srr]; [discriminate|].
      destruct (is_black srl && is_black srr); [|destruct (is_black srl); [destruct srr; [discriminate|]|]];
        intros H; inversion H; discriminate.
    + destruct (is_black sl && is_black sr); [|destruct (is_black sl); [destruct sr; [discriminate|]|]];
        intros H; inversion H; discriminate.
Qed.

Lemma climb_ctx_nonempty k k' d : climb_ctx k = Some (k', d) -> k <> [] -> k' <> [].
Proof.
  destruct k as [|f k0]; [congruence|]. intros H _. rewrite climb_ctx_cons in H.
  destruct (fix_ctx f) as [[kf d0]|] eqn:Ef; [|discriminate]. apply fix_ctx_nonempty in Ef.
  unfold after_fix in H. destruct d0.
  - destruct (climb_ctx k0) as [[k'' d'']|]; [|discriminate]. inversion H; subst. destruct kf; [congruence|discriminate].
  - inversion H; subst. destruct kf; [congruence|discriminate].
Qed.

Lemma nodes_create_nil s q :
  nodes (create_nil_node s q) NIL = {| par := q; lft := EMPTY; rgt := EMPTY; red := true; aent := aent (nodes s NIL) |} /\
  (forall j, j <> NIL -> nodes (create_nil_node s q) j = nodes s j) /\ aroot (create_nil_node s q) = aroot s.
Proof.
  unfold create_nil_node. cbv zeta. split; [|split].
  - arena_eval. reflexivity.
  - intros j Hj. arena_eval. reflexivity.
  - reflexivity.
Qed.

Lemma unlink_spec fuel s L K cm ml i em mr t' d f :
  WT s L (plug K (T cm ml i em mr)) -> NoDup L -> ~ In 0 L -> (ml = E \/ mr = E) ->
  climb_del K (del (T cm ml i em mr) i) = Done t' d f -> (length K < fuel)%nat ->
  exists s', unlink fuel s i (par (nodes s i)) (lft (nodes s i)) (rgt (nodes s i)) (red (nodes s i)) = Ret s' /\
             Rep s' EMPTY (aroot s') t' /\ same_off (0 :: L) s s' /\ f = i.
Proof.
  intros HW ND H0 Hcase Hd Hlen.
  destruct (foc_node _ _ _ _ _ _ _ _ HW) as (Hn & Ni). rewrite Hn. cbn [par lft rgt red].
  cbn [RBTree.del] in Hd. rewrite N.eqb_refl in Hd. unfold unlink.
  destruct ml as [|lc ll li le lr].
  - destruct mr as [|rc rl ri re rr].
    + (* no child *)
      cbn [rlink]. rewrite N.eqb_refl. cbn [negb].
      destruct K as [|f0 K0].
      * cbn [owner]. rewrite N.eqb_refl. cbn [climb_del] in Hd. inversion Hd; subst t' d f; clear Hd.
        eexists; split; [reflexivity|]. split; [constructor|]. split; [apply same_off_set_root|reflexivity].
      * destruct (WT_unplug _ _ _ _ HW ND) as (HC & Ht & NDk). destruct (nd_split _ _ NDk) as (NDt & NDc & Dtk).
        pose proof (Rep_inv_T _ _ _ _ _ _ _ _ Ht) as (Hx & _).
        assert (Hic: ~ In i (cslots (f0 :: K0))).
        { intros K1. apply (Dtk i); auto. rewrite slots_T, in_app_iff. simpl. auto. }
        assert (Hcl: incl (cslots (f0 :: K0)) L).
        { intros j Hj. destruct HW as (_ & <-). rewrite in_foc. apply in_or_app. auto. }
        assert (Nq: N.eqb (owner (f0 :: K0)) EMPTY = false).
        { apply N.eqb_neq. destruct HC as (HF & _). cbn [owner]. destruct f0; simpl in HF; tauto. }
        rewrite Nq. destruct cm; cbn [is_red negb color_eqb] in *.
        -- (* a red leaf *)
           rewrite climb_del_false in Hd. inversion Hd; subst t' d f; clear Hd.
           destruct (relink_child s f0 K0 i EMPTY HC Hx NDc Hic Ni) as (HC' & Hl' & Hfr).
           eexists; split; [reflexivity|]. unfold remove_parents_child. split; [|split; [|reflexivity]].
           ++ apply (Rep_plug _ (f0 :: K0) E); auto. rewrite Hl'. constructor.
           ++ eapply same_off_incl; [exact Hfr|]. apply incl_tl. exact Hcl.
        -- (* a black leaf: the sentinel takes its place while the repair runs *)
           rewrite climb_del_true in Hd. destruct (climb_ctx (f0 :: K0)) as [[k' d0]|] eqn:Ec; [|discriminate].
           inversion Hd; subst t' d0 f; clear Hd.
           set (K := f0 :: K0) in *. set (q := owner K) in *.
           destruct (nodes_create_nil s q) as (C0 & Co & Cr). set (s1 := create_nil_node s q) in *.
           assert (H0c: ~ In 0 (cslots K)) by (intros K1; apply H0; apply Hcl; exact K1).
           destruct (RepC_frame s s1 K HC) as (HC1 & Hl1); auto.
           { intros j Hj. apply Co. intros ->. contradiction. }
           rewrite Hx in Hl1.
           destruct (relink_child s1 f0 K0 i NIL HC1 Hl1 NDc Hic Ni) as (HC2 & Hl2 & Hfr2).
           fold K in HC2, Hl2, Hfr2. fold q in HC2, Hl2, Hfr2. unfold set_nil_parents_child.
           set (s2 := if N.eqb (lft (nodes s1 q)) i then set_lft s1 q NIL else set_rgt s1 q NIL) in *.
           set (e0 := aent (nodes s NIL)) in *.
           assert (Hnil: Rep s2 q NIL (T Red E NIL e0 E)).
           { assert (E2: nodes s2 NIL = nodes s1 NIL) by (apply Hfr2; exact H0c).
             constructor; rewrite ?E2, ?C0; cbn [par lft rgt red aent is_red]; auto; try constructor. discriminate. }
           set (L2 := mslots (plug K (T Red E NIL e0 E))).
           assert (HW2: WT s2 L2 (plug K (T Red E NIL e0 E))).
           { split; [|reflexivity]. apply Rep_plug; auto. rewrite Hl2. exact Hnil. }
           assert (ND2: NoDup L2).
           { unfold L2. eapply Permutation_NoDup; [symmetry; apply slots_plug|]. change (mslots (T Red E NIL e0 E)) with [NIL].
             cbn [app]. constructor; auto. }
           assert (Hinc2: incl L2 (0 :: L)).
           { intros j Hj. unfold L2 in Hj. rewrite in_foc in Hj. change (mslots (T Red E NIL e0 E)) with [NIL] in Hj.
             cbn [app In] in Hj. destruct Hj as [<-|Hj]; [left; reflexivity|right; apply Hcl; exact Hj]. }
           destruct (fix_spec fuel K s2 s2 (T Red E NIL e0 E) L2 k' d (WTF_start _ _ _ HW2) ND2 ltac:(discriminate) Ec Hlen)
             as (s3 & Hs3 & (HW3 & Hfr3)).
           cbn [rlink] in Hs3. rewrite Hs3.
           destruct (WT_unplug _ _ _ _ HW3 ND2) as (HC3 & Ht3 & NDk3).
           change (mslots (T Red E NIL e0 E)) with [NIL] in NDk3. cbn [app] in NDk3. apply NoDup_cons_iff in NDk3.
           destruct NDk3 as (H0k' & NDc3).
           pose proof (Rep_inv_T _ _ _ _ _ _ _ _ Ht3) as (Hx3 & _ & Hp3 & _).
           pose proof (climb_ctx_nonempty _ _ _ Ec ltac:(discriminate)) as Hk'.
           destruct k' as [|f' k0']; [congruence|].
           destruct (relink_child s3 f' k0' NIL EMPTY HC3 Hx3 NDc3 H0k' ltac:(discriminate)) as (HC4 & Hl4 & Hfr4).
           eexists; split; [reflexivity|]. unfold fix_parents_nil_child. rewrite Hp3.
           split; [|split; [|reflexivity]].
           ++ apply (Rep_plug _ (f' :: k0') E); auto. rewrite Hl4. constructor.
           ++ eapply same_off_trans; [|eapply same_off_trans; [|eapply same_off_trans]].
              ** intros j Hj. apply Co. intros ->. apply Hj. left. reflexivity.
              ** eapply same_off_incl; [exact Hfr2|]. apply incl_tl. exact Hcl.
              ** eapply same_off_incl; [exact Hfr3|exact Hinc2].
              ** eapply same_off_incl; [exact Hfr4|]. intros j Hj. apply Hinc2. destruct HW3 as (_ & <-).
                 rewrite in_foc. apply in_or_app. auto.
    + (* only a right child *)
      cbn [rlink]. rewrite N.eqb_refl. cbn [negb].
      destruct (foc_node _ _ (FR cm E i em :: K) _ _ _ _ _ HW) as (_ & Nri). apply N.eqb_neq in Nri. rewrite Nri. cbn [negb].
      rewrite climb_del_true in Hd. destruct (climb_ctx K) as [[k' d0]|] eqn:Ec; [|discriminate].
      inversion Hd; subst t' d0 f; clear Hd.
      destruct (splice s L K cm E i em _ (T rc rl ri re rr) HW ND ltac:(discriminate)) as (HW1 & Hfr1 & ND1 & Hinc1).
      { left. split; reflexivity. }
      cbn [rlink] in HW1, Hfr1.
      destruct (fix_spec fuel K _ _ (T rc rl ri re rr) _ k' d (WTF_start _ _ _ HW1) ND1 ltac:(discriminate) Ec Hlen)
        as (s' & Hs' & (HW' & Hfr')).
      cbn [rlink] in Hs'. exists s'. split; [exact Hs'|]. split; [apply HW'|]. split; [|reflexivity].
      eapply same_off_trans.
      * eapply same_off_incl; [exact Hfr1|]. apply incl_tl. apply incl_refl.
      * eapply same_off_incl; [exact Hfr'|]. apply incl_tl. exact Hinc1.
  - (* only a left child *)
    destruct Hcase as [Hcase|Hcase]; [discriminate|]. subst mr.
    cbn [rlink].
    destruct (foc_node _ _ (FL cm i em E :: K) _ _ _ _ _ HW) as (_ & Nli). apply N.eqb_neq in Nli. rewrite Nli. cbn [negb].
    rewrite climb_del_true in Hd. destruct (climb_ctx K) as [[k' d0]|] eqn:Ec; [|discriminate].
    inversion Hd; subst t' d0 f; clear Hd.
    destruct (splice s L K cm _ i em E (T lc ll li le lr) HW ND ltac:(discriminate)) as (HW1 & Hfr1 & ND1 & Hinc1).
    { right. split; reflexivity. }
    cbn [rlink] in HW1, Hfr1.
    destruct (fix_spec fuel K _ _ (T lc ll li le lr) _ k' d (WTF_start _ _ _ HW1) ND1 ltac:(discriminate) Ec Hlen)
      as (s' & Hs' & (HW' & Hfr')).
    cbn [rlink] in Hs'. exists s'. split; [exact Hs'|]. split; [apply HW'|]. split; [|reflexivity].
    eapply same_off_trans.
    * eapply same_off_incl; [exact Hfr1|]. apply incl_tl. apply incl_refl.
    * eapply same_off_incl; [exact Hfr'|]. apply incl_tl. exact Hinc1.
Qed.

(** ** the descent to the successor, and the whole removal *)
Lemma find_min_spec s : forall r p x fuel, r <> E -> Rep s p x r -> (length (spine r) < fuel)%nat ->
  find_left_minimum fuel s x = Ret (rlink (lmost r)).
Proof.
  induction r as [|c l IHl i e r2 _]; intros p x fuel Hne HR Hf; [congruence|].
  destruct fuel as [|f]; [lia|]. cbn [find_left_minimum].
  apply Rep_inv_T in HR. destruct HR as (-> & Ni & _ & _ & _ & Hl & _).
  destruct l as [|lc ll li le lr].
  - apply Rep_inv_E in Hl. rewrite Hl, N.eqb_refl. reflexivity.
  - pose proof (Rep_inv_T _ _ _ _ _ _ _ _ Hl) as (Hli & Nli & _). rewrite Hli. apply N.eqb_neq in Nli. rewrite Nli. cbn [negb].
    change (lmost (T c (T lc ll li le lr) i e r2)) with (lmost (T lc ll li le lr)).
    change (spine (T c (T lc ll li le lr) i e r2)) with (spine (T lc ll li le lr) ++ [FL c i e r2]) in Hf.
    rewrite app_length in Hf. cbn [length] in Hf.
    rewrite Hli in Hl. apply (IHl i li f); [discriminate|exact Hl|lia].
Qed.

Lemma height_plug k : forall t: mtree, (length k + height t <= height (plug k t))%nat.
Proof.
  induction k as [|f k IH]; intros t; cbn [plug length]; [lia|].
  specialize (IH (plug1 f t)). destruct f; cbn [plug1 RBTree.height] in *; lia.
Qed.

Lemma lmost_in (r: mtree) cm ms me mr : lmost r = T cm E ms me mr -> In ms (mslots r).
Proof.
  intros H. rewrite <- (spine_plug r), H. apply in_plug. rewrite slots_T, in_app_iff. simpl. auto.
Qed.

Theorem arena_delete_refines_frame s t x fuel :
  Rep s EMPTY (aroot s) t -> NoDup (mslots t) -> ~ In 0 (mslots t) -> rbi ent t ->
  In x (mslots t) -> (height t <= fuel)%nat ->
  exists t' d f s', del t x = Done t' d f /\
    arena_delete fuel s x = Ret (s', f) /\ Rep s' EMPTY (aroot s') t' /\
    same_off (0 :: mslots t) s s'.
Proof.
  intros HR ND H0 Hrb Hx Hfuel.
  destruct (slot_focus t x Hx) as (k & c & l & e & r & Et).
  assert (Hdel: exists t' d f, del t x = Done t' d f).
  { pose proof (delete_rb_total ent t x Hrb) as Htot. pose proof (del_found ent t x ND Hx) as Hnf.
    destruct (del t x) as [| |t' d f]; [congruence|contradiction|eauto]. }
  destruct Hdel as (t' & d & f & Hdel). exists t', d.
  assert (HW: WT s (mslots t) t) by (split; [exact HR|reflexivity]).
  set (L := mslots t) in *. pose proof Hdel as Hdel0. rewrite Et in HW, Hdel, Hfuel.
  rewrite del_plug in Hdel; [|rewrite <- Et; exact ND|rewrite slots_T, in_app_iff; simpl; auto].
  destruct (foc_node _ _ _ _ _ _ _ _ HW) as (Hn & Nx).
  pose proof (height_plug k (T c l x e r)) as Hh.
  unfold arena_delete. cbv zeta.
  destruct (N.eq_dec (rlink l) EMPTY) as [El|Nl]; [|destruct (N.eq_dec (rlink r) EMPTY) as [Er|Nr]].
  - (* no left child *)
    assert (Et0: (negb (N.eqb (lft (nodes s x)) EMPTY) && negb (N.eqb (rgt (nodes s x)) EMPTY))%bool = false).
    { rewrite Hn. cbn [lft]. rewrite El. reflexivity. }
    rewrite Et0. assert (l = E) by (destruct l; [reflexivity|]; destruct (foc_node _ _ (FL c x e r :: k) _ _ _ _ _ HW); contradiction).
    destruct (unlink_spec fuel s L k c l x e r t' d f HW ND H0 (or_introl H) Hdel) as (s' & Hs' & HR' & Hfr & ->).
    { cbn [RBTree.height] in Hh. lia. }
    rewrite Hs'. exists x, s'. repeat split; auto.
  - (* no right child *)
    assert (Et0: (negb (N.eqb (lft (nodes s x)) EMPTY) && negb (N.eqb (rgt (nodes s x)) EMPTY))%bool = false).
    { rewrite Hn. cbn [lft rgt]. rewrite Er. rewrite N.eqb_refl. apply andb_false_r. }
    rewrite Et0. assert (r = E) by (destruct r; [reflexivity|]; destruct (foc_node _ _ (FR c l x e :: k) _ _ _ _ _ HW); contradiction).
    destruct (unlink_spec fuel s L k c l x e r t' d f HW ND H0 (or_intror H) Hdel) as (s' & Hs' & HR' & Hfr & ->).
    { cbn [RBTree.height] in Hh. lia. }
    rewrite Hs'. exists x, s'. repeat split; auto.
  - (* two children: the successor's entity moves into the node, the successor is unlinked *)
    assert (Et0: (negb (N.eqb (lft (nodes s x)) EMPTY) && negb (N.eqb (rgt (nodes s x)) EMPTY))%bool = true).
    { rewrite Hn. cbn [lft rgt]. apply N.eqb_neq in Nl, Nr. rewrite Nl, Nr. reflexivity. }
    rewrite Et0.
    assert (Hl: l <> E) by (intros ->; apply Nl; reflexivity).
    assert (Hr: r <> E) by (intros ->; apply Nr; reflexivity).
    destruct (lmost_shape r Hr) as (cm & ms & me & mr & Hm).
    destruct (WT_unplug _ _ _ _ HW ND) as (_ & Htx & NDk).
    pose proof (Rep_inv_T _ _ _ _ _ _ _ _ Htx) as (_ & _ & _ & _ & _ & _ & Hrr).
    destruct (spine_length r) as [Hsl|Hsl]; [|congruence].
    rewrite (find_min_spec s r x _ fuel Hr Hrr); [|cbn [RBTree.height] in Hh; lia].
    rewrite Hm. cbn [rlink].
    (* the successor is not the node *)
    assert (Nmx: ms <> x).
    { intros ->. apply nd_split in NDk. destruct NDk as (NDt & _ & _). rewrite slots_T in NDt.
      apply NoDup_app_iff in NDt. destruct NDt as (_ & NDxr & _). apply NoDup_cons_iff in NDxr.
      destruct NDxr as (Hxr & _). apply Hxr. eapply lmost_in; eauto. }
    (* the successor's node, read before the entity is copied *)
    assert (Er: r = plug (spine r) (T cm E ms me mr)) by (rewrite <- Hm; symmetry; apply spine_plug).
    assert (HWs: WT s L (plug (spine r ++ FR c l x e :: k) (T cm E ms me mr))).
    { rewrite plug_app. cbn [plug plug1]. rewrite <- Er. exact HW. }
    destruct (foc_node _ _ _ _ _ _ _ _ HWs) as (Hms & _).
    assert (Eme: aent (nodes s ms) = me) by (rewrite Hms; reflexivity).
    rewrite Eme.
    pose proof (set_ent_foc s L k c l x e me r HW ND) as HW1. set (s1 := set_ent s x me) in *.
    assert (Es1: nodes s1 ms = nodes s ms) by (unfold s1, set_ent; apply nodes_setn_other; exact Nmx).
    rewrite <- Es1.
    assert (HW1s: WT s1 L (plug (spine r ++ FR c l x me :: k) (T cm E ms me mr))).
    { rewrite plug_app. cbn [plug plug1]. rewrite <- Er. exact HW1. }
    rewrite (del_two c l x e r cm ms me mr Hl Hr Hm) in Hdel. rewrite <- climb_del_app, <- app_assoc in Hdel. cbn [app] in Hdel.
    destruct (unlink_spec fuel s1 L _ cm E ms me mr t' d f HW1s ND H0 (or_introl eq_refl) Hdel) as (s' & Hs' & HR' & Hfr & ->).
    { rewrite app_length. cbn [length RBTree.height] in *. lia. }
    rewrite Hs'. exists ms, s'. split; [exact Hdel0|]. split; [reflexivity|]. split; [exact HR'|].
    eapply same_off_trans; [|exact Hfr]. unfold s1, set_ent. apply same_off_setn. right. exact Hx.
Qed.

(* the statement asked for, with the fuel bound of the insertion theorem *)
Theorem arena_delete_refines s t x fuel :
  Rep s EMPTY (aroot s) t -> NoDup (mslots t) -> ~ In 0 (mslots t) -> rbi ent t ->
  In x (mslots t) -> (2 * height t + 4 <= fuel)%nat ->
  exists t' d f s', del t x = Done t' d f /\
    arena_delete fuel s x = Ret (s', f) /\ Rep s' EMPTY (aroot s') t'.
Proof.
  intros HR ND H0 Hrb Hx Hfuel.
  destruct (arena_delete_refines_frame s t x fuel HR ND H0 Hrb Hx ltac:(lia)) as (t' & d & f & s' & H1 & H2 & H3 & _).
  eauto 8.
Qed.

(* slots outside the tree, other than the sentinel, are not written *)
Corollary arena_delete_frame s t x fuel s' f :
  Rep s EMPTY (aroot s) t -> NoDup (mslots t) -> ~ In 0 (mslots t) -> rbi ent t ->
  In x (mslots t) -> (height t <= fuel)%nat -> arena_delete fuel s x = Ret (s', f) ->
  forall j, ~ In j (mslots t) -> j <> 0 -> nodes s' j = nodes s j.
Proof.
  intros HR ND H0 Hrb Hx Hfuel Hrun j Hj Hj0.
  destruct (arena_delete_refines_frame s t x fuel HR ND H0 Hrb Hx Hfuel) as (t' & d & f' & s'' & _ & H2 & _ & Hfr).
  rewrite Hrun in H2. inversion H2; subst. apply Hfr. intros [K|K]; [congruence|contradiction].
Qed.

End ArenaDeleteProofs.
