(** * The slot pool: every slot 1 .. blen-1 is exactly once either in use or on the free list, slot 0
    (the sentinel) is in neither; get_free_index never fails; put_back / clear keep the partition. *)
From Coq Require Import List NArith Bool Lia Permutation.
Import ListNotations.
Require Import ITree.Model.Pool ITree.Model.MapModel.
Local Open Scope N_scope.

Lemma range_in a n x : In x (range a n) <-> a <= x < a + N.of_nat n.
Proof.
  revert a. induction n as [|n IH]; intros a; simpl.
  - lia.
  - rewrite IH. lia.
Qed.

Lemma range_nodup a n : NoDup (range a n).
Proof.
  revert a. induction n as [|n IH]; intros a; simpl; constructor; auto.
  rewrite range_in. lia.
Qed.

Lemma range_length a n : length (range a n) = n.
Proof. revert a. induction n as [|n IH]; intros a; simpl; auto. Qed.

Lemma NoDup_app_intro {A} (a b: list A) :
  NoDup a -> NoDup b -> (forall x, In x a -> In x b -> False) -> NoDup (a ++ b).
Proof.
  induction a as [|y a IH]; simpl; intros Ha Hb Hd; auto.
  inversion Ha; subst. constructor.
  - rewrite in_app_iff. intros [H|H]; [auto|]. eapply Hd; eauto.
  - apply IH; auto. intros x Hx. apply Hd. auto.
Qed.

Lemma NoDup_app_elim {A} (a b: list A) :
  NoDup (a ++ b) -> NoDup a /\ NoDup b /\ (forall x, In x a -> In x b -> False).
Proof.
  induction a as [|y a IH]; simpl; intros H.
  - repeat split; auto. constructor.
  - inversion H; subst. destruct (IH H3) as (Ha & Hb & Hd). repeat split; auto.
    + constructor; auto. rewrite in_app_iff in H2. tauto.
    + intros x [->|Hx] Hxb; [apply H2; rewrite in_app_iff; auto | eauto].
Qed.

(* [used]: the slots that are part of the tree *)
Definition pool_wf (used: list N) (p: pool) : Prop :=
  NoDup (used ++ unused p) /\ (forall x, In x (used ++ unused p) <-> 1 <= x < blen p) /\ 0 < ucap p /\ 1 <= blen p.

Lemma pool_wf_perm used used' p : Permutation used used' -> pool_wf used p -> pool_wf used' p.
Proof.
  intros P (ND & Hin & Hc). split; [|split]; auto.
  - eapply Permutation_NoDup; [|exact ND]. apply Permutation_app_tail. exact P.
  - intros x. rewrite <- Hin. split; intros H; eapply Permutation_in; try exact H.
    + apply Permutation_app_tail. apply Permutation_sym. exact P.
    + apply Permutation_app_tail. exact P.
Qed.

Lemma tree_pool_new_wf cap : pool_wf [] (tree_pool_new cap).
Proof.
  unfold tree_pool_new, pool_new, pool_get. simpl.
  set (c := N.max cap 8). assert (Hc: 8 <= c) by (unfold c; lia).
  destruct (N.to_nat c) as [|n] eqn:Hn; [lia|]. simpl.
  split; [|split; [|split]]; simpl.
  - apply range_nodup.
  - intros x. rewrite range_in. lia.
  - lia.
  - lia.
Qed.

Lemma pool_get_wf used p : pool_wf used p ->
  exists i p', pool_get p = Some (i, p') /\ ~ In i used /\ i <> 0 /\ pool_wf (i :: used) p'.
Proof.
  intros (ND & Hin & Hc & Hb). unfold pool_get. destruct (unused p) as [|x rest] eqn:Hu.
  - destruct (N.eqb_spec (ucap p) 0); [lia|].
    exists (blen p), {| blen := blen p + ucap p; unused := range (blen p + 1) (N.to_nat (ucap p) - 1); ucap := ucap p |}.
    rewrite app_nil_r in *.
    split; [reflexivity|]. split; [|split].
    + intros H. apply Hin in H. lia.
    + lia.
    + split; [|split; [|split]]; simpl; try lia.
      * constructor.
        -- rewrite in_app_iff, range_in. intros [H|H]; [apply Hin in H|]; lia.
        -- apply NoDup_app_intro; auto using range_nodup.
           intros y Hy1 Hy2. apply Hin in Hy1. apply range_in in Hy2. lia.
      * intros y. rewrite in_app_iff, range_in, Hin. lia.
  - exists x, {| blen := blen p; unused := rest; ucap := ucap p |}.
    split; [reflexivity|]. split; [|split].
    + intros H. apply NoDup_remove_2 in ND. apply ND. apply in_or_app. auto.
    + assert (Hx: In x (used ++ x :: rest)) by (apply in_or_app; simpl; auto).
      apply Hin in Hx. lia.
    + split; [|split; [|split]]; simpl; auto.
      * eapply Permutation_NoDup; [|exact ND]. apply Permutation_sym. apply Permutation_middle.
      * intros y. rewrite <- Hin. rewrite !in_app_iff. simpl. tauto.
Qed.

(* put_back of a slot that is in use *)
Lemma pool_put_wf used p f : pool_wf (f :: used) p -> pool_wf used (pool_put p f).
Proof.
  intros (ND & Hin & Hc & Hb). unfold pool_put. split; [|split; [|split]]; cbn [blen unused ucap]; auto.
  - eapply Permutation_NoDup; [|exact ND]. apply Permutation_middle.
  - intros y. rewrite <- Hin. rewrite !in_app_iff. simpl. tauto.
  - destruct (N.eqb _ _); lia.
Qed.

(* clear: every slot of the tree goes back *)
Lemma pool_put_all_wf l used p : pool_wf (l ++ used) p -> pool_wf used (fold_left pool_put l p).
Proof.
  revert p. induction l as [|f l IH]; intros p H; simpl; auto.
  apply IH. apply pool_put_wf. exact H.
Qed.

Lemma pool_put_blen p f : blen (pool_put p f) = blen p.
Proof. reflexivity. Qed.

Lemma pool_put_all_blen l p : blen (fold_left pool_put l p) = blen p.
Proof. revert p. induction l as [|f l IH]; intros p; simpl; auto. rewrite IH. reflexivity. Qed.

(* after clear the free list is a permutation of all slots 1 .. blen-1 *)
Lemma pool_wf_nil_all p : pool_wf [] p -> Permutation (unused p) (range 1 (N.to_nat (blen p) - 1)).
Proof.
  intros (ND & Hin & Hc & Hb). simpl in *.
  apply NoDup_Permutation; auto using range_nodup.
  intros x. rewrite Hin, range_in. lia.
Qed.
