(** * Property-level consequences of the map / set refinement (C02, C04, C05, C08, C09, C10, C11, C12, C17). *)
From Coq Require Import List NArith ZArith Bool Lia Permutation Sorted Arith.
Import ListNotations.
Require Import ITree.Model.Common ITree.Model.RBTree ITree.Model.Pool ITree.Model.MapModel.
Require Import ITree.Spec.Spec ITree.Spec.MapSpec.
Require Import ITree.Proofs.RBElems ITree.Proofs.RBInv ITree.Proofs.Subtree ITree.Proofs.TreeLookup
  ITree.Proofs.SortedList ITree.Proofs.PoolProofs ITree.Proofs.AssocSpec ITree.Proofs.MapProofs.

(** ** height bound of a valid red-black tree (root colour free) *)
Section Height.
Variable ent : Type.
Notation tree := (tree ent).

Lemma height_le_bh (t: tree) : rbi ent t ->
  height ent t <= 2 * bh ent t + (if is_red_node ent t then 1 else 0).
Proof.
  induction t as [|c l IHl s e r IHr]; intros H; simpl; [lia|].
  apply rbi_inv in H. destruct H as (Hl & Hr & Hb & Hc).
  specialize (IHl Hl). specialize (IHr Hr).
  destruct c; simpl.
  - destruct (Hc eq_refl) as (Kl & Kr).
    assert (is_red_node ent l = false) by (destruct l as [|[] ? ? ? ?]; auto; discriminate Kl).
    assert (is_red_node ent r = false) by (destruct r as [|[] ? ? ? ?]; auto; discriminate Kr).
    rewrite H in IHl. rewrite H0 in IHr. lia.
  - destruct (is_red_node ent l), (is_red_node ent r); lia.
Qed.

Lemma pow_bh_le_size (t: tree) : rbi ent t -> 2 ^ bh ent t <= size ent t + 1.
Proof.
  induction t as [|c l IHl s e r IHr]; intros H; simpl; [lia|].
  apply rbi_inv in H. destruct H as (Hl & Hr & Hb & Hc).
  specialize (IHl Hl). specialize (IHr Hr). rewrite Hb in IHl at 1.
  destruct c; simpl.
  - rewrite Nat.add_0_r. rewrite <- Hb in IHl. lia.
  - rewrite Nat.add_1_r. simpl. rewrite <- Hb in IHr at 1. rewrite <- Hb in IHl. lia.
Qed.

Theorem rb_height_bound (t: tree) : rbi ent t -> height ent t <= 2 * Nat.log2 (size ent t + 1) + 1.
Proof.
  intros H. pose proof (height_le_bh t H) as Hh. pose proof (pow_bh_le_size t H) as Hp.
  assert (bh ent t <= Nat.log2 (size ent t + 1)).
  { apply Nat.log2_le_pow2; lia. }
  destruct (is_red_node ent t); lia.
Qed.
End Height.

Local Open Scope Z_scope.

(** ** reachable states *)
Definition reachable (cap: N) (s: mstate) : Prop :=
  exists h outs, valid_history [] h /\ u_run (m_new cap) h = Ret (s, outs).

Lemma reachable_inv cap s : reachable cap s -> MInv s.
Proof.
  intros (h & outs & Hv & Hr). destruct (m_new_inv cap) as (HI & R).
  destruct (u_run_refines h _ _ HI R Hv) as (s' & Hr' & HI' & _). rewrite Hr in Hr'. inversion Hr'; subst. exact HI'.
Qed.

Theorem map_refines cap h : valid_history [] h ->
  exists s, u_run (m_new cap) h = Ret (s, snd (a_run [] h)).
Proof.
  intros Hv. destruct (m_new_inv cap) as (HI & R).
  destruct (u_run_refines h _ _ HI R Hv) as (s' & Hr' & _). eauto.
Qed.

Theorem map_rb_bst cap s : reachable cap s ->
  rbi ment (root s) /\ bst ment mkey (root s) /\ NoDup (slots ment (root s)) /\
  (height ment (root s) <= 2 * Nat.log2 (size ment (root s) + 1) + 1)%nat.
Proof.
  intros H. apply reachable_inv in H. destruct H as (ND & Hrb & Hb & _).
  repeat split; auto. apply rb_height_bound. exact Hrb.
Qed.

Lemma sub_in_slots (t: mtree) x : In x (slots ment t) -> exists u, sub ment t x = Some u.
Proof.
  induction t as [|c l IHl s0 e0 r IHr]; simpl; [tauto|].
  rewrite slots_T. intros S. destruct (N.eqb_spec s0 x); [eauto|].
  apply in_app_or in S. destruct S as [S|[S|S]]; [| congruence |].
  - destruct (IHl S) as (u & ->). eauto.
  - destruct (sub ment l x); eauto.
Qed.

Lemma find_slot_in (t: mtree) k x : find_slot ment mkey t k = Some x -> In x (slots ment t).
Proof.
  induction t as [|c l IHl s0 e0 r IHr]; simpl; [discriminate|]. rewrite slots_T.
  destruct (Z.compare k (mkey e0)); intros E; apply in_or_app; simpl.
  - inversion E; auto.
  - auto.
  - auto.
Qed.

Theorem map_delete_absent s k : m_get s k = None -> m_delete s k = Ret s.
Proof.
  unfold m_get, m_delete. destruct (find_slot ment mkey (root s) k) as [x|] eqn:Hf; [|reflexivity].
  intros H. exfalso. apply find_slot_in in Hf. destruct (sub_in_slots _ _ Hf) as (u & Hs).
  unfold ent_at in H. rewrite Hs in H.
  destruct (sub_subtree ment _ _ _ Hs) as (_ & c & l & e' & r & ->). discriminate.
Qed.

(** ** C08: the predecessor handle *)
Theorem handle_designates_pred cap s m q : reachable cap s -> Rel s m ->
  (m_first s q = None <-> a_pred m q = None) /\
  (forall x, m_first s q = Some x -> exists e, m_value_at s x = Ret e /\ a_pred m q = Some e /\
     (* writing changes exactly that entry, deleting removes exactly that entry *)
     (forall v, exists s', m_set_at s x v = Ret s' /\ MInv s' /\ Rel s' (a_update m (fst e) v)) /\
     (exists s', m_delete_at s x = Ret s' /\ MInv s' /\ Rel s' (a_remove m (fst e)))).
Proof.
  intros Hr R. pose proof (reachable_inv _ _ Hr) as HI. pose proof HI as (ND & Hrb & Hb & Hp).
  destruct (first_is_pred s m q HI R) as (r & Hrd & Hpr & Hm). split.
  - destruct (m_first s q), r; try contradiction; rewrite Hpr; split; intros; congruence.
  - intros x Hx. rewrite Hx in *. destruct r as [e|]; [|contradiction]. exists e.
    split; [unfold m_value_at; rewrite (ent_at_of_in ment mkey (root s) x e ND Hm); reflexivity|].
    split; [exact Hpr|]. split.
    + intros v. destruct (m_set_at_spec s x e v HI Hm) as (s' & Hs & HI' & Hel). exists s'. split; [exact Hs|]. split; [exact HI'|].
      unfold Rel, a_update, RBTree.ents. rewrite Hel.
      rewrite (upd_ents x e v (elements ment (root s)) ND Hb Hm). apply Permutation_map. exact R.
    + destruct (m_delete_at_spec s x e HI Hm) as (s' & A & B & Hs & HI' & He & Hents). exists s'. split; [exact Hs|]. split; [exact HI'|].
      unfold Rel. eapply remove_rel; eauto.
Qed.

Theorem first_by_agrees s q : m_first s q = m_first_by s (cmp_to q).
Proof. reflexivity. Qed.

(** ** C09: neighbour steps follow the in-order sequence of slots *)
Theorem neighbour_steps cap s A x e B : reachable cap s -> elements ment (root s) = A ++ (x, e) :: B ->
  m_after s x = Ret (hd_slot ment B None) /\ m_before s x = Ret (last_slot ment A None).
Proof.
  intros Hr Hab. pose proof (reachable_inv _ _ Hr) as (ND & _).
  assert (Hna: ~ In x (map fst A)).
  { unfold RBTree.slots in ND. rewrite Hab, map_app in ND. simpl in ND. apply NoDup_remove_2 in ND.
    rewrite in_app_iff in ND. tauto. }
  unfold m_after, m_before.
  rewrite (after_in_lnext ment mkey (root s) x None ND), (before_in_lprev ment mkey (root s) x None ND), Hab.
  rewrite (lnext_split ment mkey x e A B None Hna), (lprev_split ment mkey x e A B None Hna). auto.
Qed.

(** ** C17: handles survive insertions and lookups *)
Definition non_deleting (o: uop) : Prop :=
  match o with UDel _ | UDelAt _ | UClear | UWrite _ _ => False | _ => True end.

Theorem handles_stable h : forall s m outs s', MInv s -> Rel s m -> valid_history m h -> Forall non_deleting h ->
  u_run s h = Ret (s', outs) ->
  forall x e, In (x, e) (elements ment (root s)) -> m_value_at s' x = Ret e /\ m_first s' (fst e) = Some x.
Proof.
  induction h as [|o h IH]; intros s m outs s' HI R Hv Hnd Hrun x e Hin.
  - simpl in Hrun. inversion Hrun; subst. pose proof HI as (ND & Hrb & Hb & Hp). split.
    + unfold m_value_at. rewrite (ent_at_of_in ment mkey (root s') x e ND Hin). reflexivity.
    + destruct (first_is_pred s' m (fst e) HI R) as (r & Hrd & Hpr & Hm).
      destruct (m_first s' (fst e)) as [x'|] eqn:Hf, r as [e'|]; try contradiction.
      * assert (Hbest: is_best (fun e0 => fst e0 <=? fst e) m (Some e')).
        { rewrite <- Hpr. apply best_is_best. }
        destruct Hbest as (He'm & Hle & Hmax). apply Z.leb_le in Hle.
        assert (Hem: In e m). { apply (in_rel s' m e R). apply in_ents_elements. eauto. }
        specialize (Hmax e Hem (proj2 (Z.leb_le _ _) (Z.le_refl _))).
        assert (Hk: fst e' = fst e) by lia.
        assert ((x', e') = (x, e)).
        { eapply (sorted_key_inj ment mkey (elements ment (root s'))); eauto. }
        congruence.
      * exfalso. assert (Hbest: is_best (fun e0 => fst e0 <=? fst e) m None) by (rewrite <- Hpr; apply best_is_best).
        assert (Hem: In e m). { apply (in_rel s' m e R). apply in_ents_elements. eauto. }
        specialize (Hbest e Hem). apply Z.leb_gt in Hbest. lia.
  - simpl in Hrun. destruct Hv as (Hvo & Hvh). inversion Hnd as [|? ? Ho Hh]; subst.
    destruct (u_step_refines s m o HI R Hvo) as (s1 & out & Hst & Hast & HI1 & R1).
    rewrite Hst in Hrun. simpl in Hrun.
    destruct (u_run s1 h) as [[s2 outs2]|] eqn:Hr2; simpl in Hrun; [|discriminate]. inversion Hrun; subst.
    apply (IH s1 _ _ _ HI1 R1 Hvh Hh Hr2).
    (* the step keeps (x, e) where it is *)
    destruct o; simpl in Ho; try contradiction; simpl in Hst.
    + (* insert *)
      assert (Habs: forall e0, In e0 (ents ment (root s)) -> fst e0 <> k).
      { intros e0 He0 Hk. apply (in_rel s m e0 R) in He0. simpl in Hvo. apply a_lookup_none in Hvo. apply Hvo.
        unfold stored. rewrite <- Hk. apply in_map. exact He0. }
      destruct (m_insert s k v) as [s1'|] eqn:Hi; simpl in Hst; [|discriminate]. inversion Hst; subst.
      eapply (m_insert_keeps s k v _ x e HI Habs); [exact Hi | exact Hin].
    + inversion Hst; subst; auto.
    + inversion Hst; subst; auto.
    + destruct (read_at s (m_first s q)); simpl in Hst; inversion Hst; subst; auto.
    + destruct (read_at s (m_first_by s f)); simpl in Hst; inversion Hst; subst; auto.
    + destruct (m_first s q); [|inversion Hst; subst; auto].
      destruct (m_after s n); simpl in Hst; [|discriminate]. destruct (read_at s a); simpl in Hst; inversion Hst; subst; auto.
    + destruct (m_first s q); [|inversion Hst; subst; auto].
      destruct (m_before s n); simpl in Hst; [|discriminate]. destruct (read_at s a); simpl in Hst; inversion Hst; subst; auto.
Qed.

(** ** C11: slots are partitioned; clear returns all of them *)
Theorem map_slot_partition cap s : reachable cap s ->
  NoDup (slots ment (root s) ++ unused (pl s)) /\
  (forall x, In x (slots ment (root s) ++ unused (pl s)) <-> (1 <= x < blen (pl s))%N).
Proof. intros H. apply reachable_inv in H. destruct H as (_ & _ & _ & (ND & Hin & _)). auto. Qed.

Theorem map_clear_frees_all cap s : reachable cap s ->
  root (m_clear s) = E /\ blen (pl (m_clear s)) = blen (pl s) /\
  Permutation (unused (pl (m_clear s))) (range 1 (N.to_nat (blen (pl s)) - 1)).
Proof.
  intros H. apply reachable_inv in H. destruct (m_clear_inv s H) as ((_ & _ & _ & Hp) & _).
  split; [reflexivity|]. split; [apply pool_put_all_blen|].
  simpl in Hp. rewrite <- (pool_put_all_blen (level_order ment (root s)) (pl s)). apply pool_wf_nil_all. exact Hp.
Qed.

(** ** C12: after clear the map behaves like a new one *)
Theorem map_clear_is_new cap cap' s h : reachable cap s -> valid_history [] h ->
  exists s1 s2 outs, u_run (m_clear s) h = Ret (s1, outs) /\ u_run (m_new cap') h = Ret (s2, outs).
Proof.
  intros Hr Hv. apply reachable_inv in Hr. destruct (m_clear_inv s Hr) as (HI & R).
  destruct (u_run_refines h _ _ HI R Hv) as (s1 & H1 & _).
  destruct (m_new_inv cap') as (HI' & R'). destruct (u_run_refines h _ _ HI' R' Hv) as (s2 & H2 & _).
  eauto.
Qed.
