(** * Arena-level handle stability: insertions and read-only operations never move or alter a stored
    entity (support for C17).  Purely syntactic frame reasoning on Model/ArenaModel.v: the rebalancing
    code only writes link / colour fields. *)
From Coq Require Import List NArith ZArith Bool Lia.
Import ListNotations.
Require Import ITree.Model.Common ITree.Model.RBTree ITree.Model.Pool ITree.Model.MapModel.
Require Import ITree.Model.ArenaModel ITree.Model.ArenaDelete ITree.Model.ArenaQuery.
Local Open Scope N_scope.

Section Stable.
Variable ent : Type.
Variable key_of : ent -> Z.
Notation astate := (astate ent).

(* [s'] stores the same entity as [s] in every slot *)
Definition same_ents (s s': astate) : Prop := forall j, aent (nodes s' j) = aent (nodes s j).

Lemma same_refl s : same_ents s s.
Proof. intros j; reflexivity. Qed.

Lemma same_trans s1 s2 s3 : same_ents s1 s2 -> same_ents s2 s3 -> same_ents s1 s3.
Proof. intros H1 H2 j. rewrite H2. apply H1. Qed.

Lemma setn_same s0 s i n : aent n = aent (nodes s i) -> same_ents s0 s -> same_ents s0 (setn s i n).
Proof.
  intros Hn H j. unfold setn; simpl. destruct (N.eqb_spec j i); subst; [rewrite Hn|]; apply H.
Qed.

Lemma set_par_same s0 s i p : same_ents s0 s -> same_ents s0 (set_par s i p).
Proof. apply setn_same; reflexivity. Qed.
Lemma set_lft_same s0 s i p : same_ents s0 s -> same_ents s0 (set_lft s i p).
Proof. apply setn_same; reflexivity. Qed.
Lemma set_rgt_same s0 s i p : same_ents s0 s -> same_ents s0 (set_rgt s i p).
Proof. apply setn_same; reflexivity. Qed.
Lemma set_red_same s0 s i c : same_ents s0 s -> same_ents s0 (set_red s i c).
Proof. apply setn_same; reflexivity. Qed.
Lemma set_root_same s0 s r : same_ents s0 s -> same_ents s0 (set_root s r).
Proof. intros H j; apply H. Qed.

(* the small lemmas in the form of the task description *)
Lemma aent_set_par (s: astate) i p j : aent (nodes (set_par s i p) j) = aent (nodes s j).
Proof. apply (set_par_same s s i p (same_refl s)). Qed.
Lemma aent_set_lft (s: astate) i p j : aent (nodes (set_lft s i p) j) = aent (nodes s j).
Proof. apply (set_lft_same s s i p (same_refl s)). Qed.
Lemma aent_set_rgt (s: astate) i p j : aent (nodes (set_rgt s i p) j) = aent (nodes s j).
Proof. apply (set_rgt_same s s i p (same_refl s)). Qed.
Lemma aent_set_red (s: astate) i c j : aent (nodes (set_red s i c) j) = aent (nodes s j).
Proof. apply (set_red_same s s i c (same_refl s)). Qed.

Ltac same0 :=
  repeat first
    [ assumption
    | apply set_par_same | apply set_lft_same | apply set_rgt_same | apply set_red_same
    | apply set_root_same
    | apply same_refl
    | match goal with |- context[if ?b then _ else _] => destruct b end ].

Lemma rpc_same s0 s p o n : same_ents s0 s -> same_ents s0 (replace_parents_child s p o n).
Proof. intros H. unfold replace_parents_child. cbv zeta. same0. Qed.

Lemma rotate_right_same s0 s i : same_ents s0 s -> same_ents s0 (rotate_right s i).
Proof. intros H. unfold rotate_right. cbv zeta. apply rpc_same. same0. Qed.

Lemma rotate_left_same s0 s i : same_ents s0 s -> same_ents s0 (rotate_left s i).
Proof. intros H. unfold rotate_left. cbv zeta. apply rpc_same. same0. Qed.

Ltac same :=
  repeat first
    [ assumption
    | apply set_par_same | apply set_lft_same | apply set_rgt_same | apply set_red_same
    | apply set_root_same | apply rpc_same | apply rotate_right_same | apply rotate_left_same
    | apply same_refl
    | match goal with |- context[if ?b then _ else _] => destruct b end ].

Ltac brk H :=
  cbv beta zeta in H;
  repeat (match type of H with context[if ?b then _ else _] => destruct b end; cbv beta iota zeta in H).

Lemma fix_insert_same fuel : forall s0 s n p s',
  same_ents s0 s -> fix_insert fuel s n p = Ret s' -> same_ents s0 s'.
Proof.
  induction fuel as [|f IH]; intros s0 s n p s' H0 H; [discriminate|].
  cbn [fix_insert] in H. brk H;
  first [ discriminate
        | injection H as <-; same
        | eapply IH; [|exact H]; same ].
Qed.

(* what an insertion does to the entities: slot [ni] receives [e], nothing else changes *)
Definition ins_ents (s: astate) (ni: N) (e: ent) (s': astate) : Prop :=
  forall j, aent (nodes s' j) = if N.eqb j ni then e else aent (nodes s j).

Lemma insert_new_ents s ni e p s' :
  same_ents (insert_new s ni e p) s' -> ins_ents s ni e s'.
Proof.
  intros H j. rewrite H. unfold insert_new, setn; simpl. destruct (N.eqb j ni); reflexivity.
Qed.

Lemma insert_as_left_ents fuel s ni e p s' :
  insert_as_left fuel s ni e p = Ret s' -> ins_ents s ni e s'.
Proof.
  unfold insert_as_left. intros H. apply insert_new_ents with (p := p). brk H.
  - eapply fix_insert_same; [|exact H]. same.
  - injection H as <-. same.
Qed.

Lemma insert_as_right_ents fuel s ni e p s' :
  insert_as_right fuel s ni e p = Ret s' -> ins_ents s ni e s'.
Proof.
  unfold insert_as_right. intros H. apply insert_new_ents with (p := p). brk H.
  - eapply fix_insert_same; [|exact H]. same.
  - injection H as <-. same.
Qed.

Lemma insert_descend_ents fuel : forall s index ni e s',
  insert_descend key_of fuel s index ni e = Ret s' -> ins_ents s ni e s'.
Proof.
  induction fuel as [|f IH]; intros s index ni e s' H; [discriminate|].
  cbn [insert_descend] in H. brk H;
  first [ eapply insert_as_left_ents; exact H
        | eapply insert_as_right_ents; exact H
        | eapply IH; exact H ].
Qed.

Lemma arena_insert_ents fuel s ni e s' :
  arena_insert key_of fuel s ni e = Ret s' -> ins_ents s ni e s'.
Proof.
  unfold arena_insert. intros H. brk H.
  - injection H as <-. intros j. unfold insert_root, set_root, setn; simpl.
    destruct (N.eqb j ni); reflexivity.
  - eapply insert_descend_ents; exact H.
Qed.

(** 1. *)
Theorem arena_insert_keeps_entities fuel (a: astate) ni e a' :
  arena_insert key_of fuel a ni e = Ret a' ->
  (forall i, i <> ni -> aent (nodes a' i) = aent (nodes a i)) /\ aent (nodes a' ni) = e.
Proof.
  intros H. apply arena_insert_ents in H. split.
  - intros i Hi. rewrite H. apply N.eqb_neq in Hi. rewrite Hi. reflexivity.
  - rewrite H, N.eqb_refl. reflexivity.
Qed.

End Stable.

Print Assumptions arena_insert_keeps_entities.

(** 2. one step of the map / set interface *)
Theorem arena_step_keeps_entities fuel (a: astate ment) (p: pool) o a' p' out :
  arena_m_step fuel (a, p) o = Ret ((a', p'), out) ->
  match o with
  | MDel _ | MDelAt _ | MClear => True
  | MIns k v =>
      forall ni p1, pool_get p = Some (ni, p1) ->
        p' = p1 /\ aent (nodes a' ni) = (k, v) /\
        forall i, i <> ni -> aent (nodes a' i) = aent (nodes a i)
  | MSetAt h v =>
      p' = p /\ aent (nodes a' h) = (fst (aent (nodes a h)), v) /\
      forall i, i <> h -> aent (nodes a' i) = aent (nodes a i)
  | _ => a' = a /\ p' = p
  end.
Proof.
  destruct o; cbn [arena_m_step fst snd]; intros H; try exact I;
    try (match type of H with bind ?X _ = _ => destruct X end; cbn [bind] in H;
         [injection H as <- <- _; split; reflexivity | discriminate]);
    try (injection H as <- <- _; split; reflexivity).
  - (* MIns *)
    intros ni p1 Hp. unfold arena_m_insert in H. cbn [fst snd] in H. rewrite Hp in H.
    destruct (arena_insert mkey fuel a ni (k, v)) as [a1|] eqn:Hi; cbn [bind] in H; [|discriminate].
    injection H as <- <- _.
    destruct (arena_insert_keeps_entities _ _ _ _ _ _ _ Hi) as [Hf Hn].
    split; [reflexivity|]. split; assumption.
  - (* MSetAt *)
    injection H as <- <- _. split; [reflexivity|].
    unfold arena_update_value, set_ent, setn; simpl. split.
    + rewrite N.eqb_refl. reflexivity.
    + intros i Hi. apply N.eqb_neq in Hi. rewrite Hi. reflexivity.
Qed.

Print Assumptions arena_step_keeps_entities.

(** 3. a handle keeps its entity along a run without deletion / clear / write through it *)

(* slot [i] is in use: pool_get never hands it out *)
Definition slot_used (p: pool) (i: N) : Prop := ~ In i (unused p) /\ i < blen p.

Lemma range_ge a n : forall x, In x (range a n) -> a <= x.
Proof.
  revert a. induction n as [|n IH]; intros a x Hx; simpl in Hx; [contradiction|].
  destruct Hx as [<-|Hx]; [lia|]. apply IH in Hx. lia.
Qed.

Lemma pool_get_used p i ni p1 :
  slot_used p i -> pool_get p = Some (ni, p1) -> ni <> i /\ slot_used p1 i.
Proof.
  unfold slot_used, pool_get. intros [Hn Hb] H.
  destruct (unused p) as [|x rest] eqn:Hu.
  - destruct (N.eqb (ucap p) 0); [discriminate|]. injection H as <- <-. simpl.
    split; [lia|]. split; [|lia]. intros Hx. apply range_ge in Hx. lia.
  - injection H as <- <-. simpl. split.
    + intros ->. apply Hn. left; reflexivity.
    + split; [|assumption]. intros Hx. apply Hn. right; assumption.
Qed.

(* the operations of the history: no removal, no clear, no write through handle [i] *)
Definition quiet_op (i: N) (o: mop) : Prop :=
  match o with
  | MDel _ | MDelAt _ | MClear => False
  | MSetAt h _ => h <> i
  | _ => True
  end.

Lemma arena_step_keeps_handle fuel (a: astate ment) p o a' p' out i :
  quiet_op i o -> slot_used p i ->
  arena_m_step fuel (a, p) o = Ret ((a', p'), out) ->
  aent (nodes a' i) = aent (nodes a i) /\ slot_used p' i.
Proof.
  intros Hq Hu H. pose proof (arena_step_keeps_entities _ _ _ _ _ _ _ H) as Hs.
  destruct o; cbn [quiet_op] in Hq; try contradiction;
    try (destruct Hs as [-> ->]; split; [reflexivity|assumption]).
  - (* MIns *)
    cbn [arena_m_step fst snd] in H. unfold arena_m_insert in H. cbn [fst snd] in H.
    destruct (pool_get p) as [[ni p1]|] eqn:Hp; [|discriminate].
    destruct (Hs ni p1 eq_refl) as [-> [_ Hf]].
    destruct (pool_get_used _ _ _ _ Hu Hp) as [Hne Hu1].
    split; [apply Hf; congruence|assumption].
  - (* MSetAt *)
    destruct Hs as [-> [_ Hf]]. split; [apply Hf; congruence|assumption].
Qed.

Theorem arena_run_keeps_handle fuel i : forall (h: list mop) (a: astate ment) p a' p' outs,
  Forall (quiet_op i) h ->
  ~ In i (unused p) /\ i < blen p ->
  arena_m_run fuel (a, p) h = Ret ((a', p'), outs) ->
  aent (nodes a' i) = aent (nodes a i) /\ (~ In i (unused p') /\ i < blen p').
Proof.
  induction h as [|o h IH]; intros a p a' p' outs Hq Hu H.
  - injection H as <- <- _. split; [reflexivity|assumption].
  - inversion Hq as [|? ? Hq1 Hq2]; subst. cbn [arena_m_run] in H.
    destruct (arena_m_step fuel (a, p) o) as [[[a1 p1] out]|] eqn:Hs; cbn [bind fst snd] in H; [|discriminate].
    destruct (arena_m_run fuel (a1, p1) h) as [[[a2 p2] outs2]|] eqn:Hr; cbn [bind fst snd] in H; [|discriminate].
    injection H as <- <- _.
    destruct (arena_step_keeps_handle _ _ _ _ _ _ _ _ Hq1 Hu Hs) as [He Hu1].
    destruct (IH _ _ _ _ _ Hq2 Hu1 Hr) as [He2 Hu2].
    split; [congruence|assumption].
Qed.

Print Assumptions arena_run_keeps_handle.
