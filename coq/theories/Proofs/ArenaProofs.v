(** * The arena-level insertion (Model/ArenaModel.v) refines the tree-level insertion (Model/RBTree.v):
    if the arena represents a tree with mutually consistent parent / child links, then after
    [arena_insert] it represents [insert_tree] of that tree, again with consistent links. *)
From Coq Require Import List NArith ZArith Bool Lia Permutation Setoid Morphisms.
Import ListNotations.
Require Import ITree.Model.Common ITree.Model.RBTree ITree.Model.ArenaModel.
Require Import ITree.Proofs.RBElems ITree.Proofs.Subtree ITree.Proofs.TreeLookup.
Local Open Scope N_scope.

(** Everything is generic in the entity type [ent] (an implicit argument of every definition and
    lemma once the section is closed) and in the key function [key_of] (explicit, first argument, of
    the few statements about the descent of insertion). *)
Section ArenaProofs.
Context {ent : Type}.

Notation anode := (anode ent).
Notation astate := (astate ent).
Notation mtree := (tree ent).
Notation mslots := (slots ent).
Implicit Types s : astate.

(** ** representation *)
Definition is_red (c: color) : bool := match c with Red => true | Black => false end.

(* [Rep s p x t]: following the links of [s] from link value [x], whose owner is [p], one reads the
   tree [t]; every node's parent field names its owner *)
Inductive Rep (s: astate) : N -> N -> mtree -> Prop :=
| Rep_E p : Rep s p EMPTY E
| Rep_T p i c l e r :
    i <> EMPTY -> par (nodes s i) = p -> red (nodes s i) = is_red c -> aent (nodes s i) = e ->
    Rep s i (lft (nodes s i)) l -> Rep s i (rgt (nodes s i)) r ->
    Rep s p i (T c l i e r).

Lemma Rep_frame s s' p x t : Rep s p x t -> (forall i, In i (mslots t) -> nodes s' i = nodes s i) -> Rep s' p x t.
Proof.
  induction 1 as [p|p i c l e r Hi Hp Hc He Hl IHl Hr IHr]; intros Hf.
  - constructor.
  - assert (Hn: nodes s' i = nodes s i) by (apply Hf; rewrite slots_T; apply in_or_app; simpl; auto).
    constructor; rewrite ?Hn; auto.
    + apply IHl. intros j Hj. apply Hf. rewrite slots_T. apply in_or_app. auto.
    + apply IHr. intros j Hj. apply Hf. rewrite slots_T. apply in_or_app. simpl. auto.
Qed.

Lemma Rep_inv_E s p x : Rep s p x E -> x = EMPTY.
Proof. inversion 1; auto. Qed.

Lemma Rep_inv_T s p x c l i e r : Rep s p x (T c l i e r) ->
  x = i /\ i <> EMPTY /\ par (nodes s i) = p /\ red (nodes s i) = is_red c /\ aent (nodes s i) = e /\
  Rep s i (lft (nodes s i)) l /\ Rep s i (rgt (nodes s i)) r.
Proof. inversion 1; subst. repeat split; auto. Qed.

Lemma Rep_slots_ne s p x t : Rep s p x t -> forall i, In i (mslots t) -> i <> EMPTY.
Proof.
  induction 1 as [p|p i c l e r Hi Hp Hc He Hl IHl Hr IHr]; intros j Hj; [destruct Hj|].
  rewrite slots_T in Hj. apply in_app_or in Hj. destruct Hj as [Hj|[<-|Hj]]; auto.
Qed.

(* changing the owner's view: the root node's parent field *)
Lemma Rep_root_link s p x t : Rep s p x t -> t <> E -> x <> EMPTY /\ In x (mslots t).
Proof.
  inversion 1; subst; intros Hne; [congruence|]. split; auto. rewrite slots_T. apply in_or_app. simpl. auto.
Qed.

(** ** elementary updates *)
Lemma nodes_setn_same s i n : nodes (setn s i n) i = n.
Proof. unfold setn. simpl. rewrite N.eqb_refl. reflexivity. Qed.

Lemma nodes_setn_other s i n j : j <> i -> nodes (setn s i n) j = nodes s j.
Proof. intros H. unfold setn. simpl. destruct (N.eqb_spec j i); [contradiction|reflexivity]. Qed.

Lemma aroot_setn s i n : aroot (setn s i n) = aroot s.
Proof. reflexivity. Qed.

(* painting one node of a represented tree *)
Fixpoint paint_slot (x: N) (c: color) (t: mtree) : mtree :=
  match t with
  | E => E
  | T c0 l i e r => if N.eqb i x then T c l i e r else T c0 (paint_slot x c l) i e (paint_slot x c r)
  end.

Lemma paint_slot_notin x c t : ~ In x (mslots t) -> paint_slot x c t = t.
Proof.
  induction t as [|c0 l IHl i e r IHr]; simpl; auto. rewrite slots_T. intros H.
  destruct (N.eqb_spec i x); [exfalso; apply H; apply in_or_app; simpl; auto|].
  rewrite IHl, IHr; auto; intros K; apply H; apply in_or_app; simpl; auto.
Qed.

Lemma paint_slot_slots x c t : mslots (paint_slot x c t) = mslots t.
Proof.
  induction t as [|c0 l IHl i e r IHr]; simpl; auto. destruct (N.eqb i x); rewrite !slots_T; [reflexivity|].
  rewrite IHl, IHr. reflexivity.
Qed.

Lemma Rep_set_red s p x t j c : Rep s p x t -> NoDup (mslots t) ->
  Rep (set_red s j (is_red c)) p x (paint_slot j c t).
Proof.
  induction 1 as [p|p i c0 l e r Hi Hp Hc He Hl IHl Hr IHr]; intros ND; simpl; [constructor|].
  destruct (NoDup_node ent _ _ _ _ _ ND) as (NDl & NDr & Hil & Hir & Hlr).
  unfold set_red. destruct (N.eqb_spec i j) as [->|Hne].
  - constructor; rewrite ?nodes_setn_same; simpl; auto.
    + eapply Rep_frame; [exact Hl|]. intros k Hk. apply nodes_setn_other. intros ->. contradiction.
    + eapply Rep_frame; [exact Hr|]. intros k Hk. apply nodes_setn_other. intros ->. contradiction.
  - constructor; rewrite ?nodes_setn_other by exact Hne; auto.
Qed.

(** ** contexts (zippers) *)
Inductive frame :=
| FL (c: color) (i: N) (e: ent) (r: mtree)     (* the hole is the left child of node [i] *)
| FR (c: color) (l: mtree) (i: N) (e: ent).    (* the hole is the right child of node [i] *)
Definition ctx := list frame.                   (* innermost frame first *)

Definition plug1 (f: frame) (t: mtree) : mtree :=
  match f with FL c i e r => T c t i e r | FR c l i e => T c l i e t end.
Fixpoint plug (k: ctx) (t: mtree) : mtree :=
  match k with [] => t | f :: k' => plug k' (plug1 f t) end.

Definition fslot (f: frame) : N := match f with FL _ i _ _ | FR _ _ i _ => i end.
Definition fcol (f: frame) : color := match f with FL c _ _ _ | FR c _ _ _ => c end.
Definition fsib (f: frame) : mtree := match f with FL _ _ _ r => r | FR _ l _ _ => l end.
Definition fslots (f: frame) : list N := fslot f :: mslots (fsib f).
Fixpoint cslots (k: ctx) : list N := match k with [] => [] | f :: k' => fslots f ++ cslots k' end.

Definition owner (k: ctx) : N := match k with [] => EMPTY | f :: _ => fslot f end.
Definition flink (s: astate) (f: frame) : N :=
  match f with FL _ i _ _ => lft (nodes s i) | FR _ _ i _ => rgt (nodes s i) end.
Definition hole_link (s: astate) (k: ctx) : N := match k with [] => aroot s | f :: _ => flink s f end.

Definition RepF (s: astate) (f: frame) (up: N) : Prop :=
  match f with
  | FL c i e r => i <> EMPTY /\ par (nodes s i) = up /\ red (nodes s i) = is_red c /\ aent (nodes s i) = e /\
                  Rep s i (rgt (nodes s i)) r
  | FR c l i e => i <> EMPTY /\ par (nodes s i) = up /\ red (nodes s i) = is_red c /\ aent (nodes s i) = e /\
                  Rep s i (lft (nodes s i)) l
  end.

Fixpoint RepC (s: astate) (k: ctx) : Prop :=
  match k with
  | [] => True
  | f :: k' => RepF s f (owner k') /\ hole_link s k' = fslot f /\ RepC s k'
  end.

Lemma Rep_plug1 s f up t : RepF s f up -> Rep s (fslot f) (flink s f) t -> Rep s up (fslot f) (plug1 f t).
Proof.
  destruct f as [c i e r|c l i e]; simpl; intros (Hi & Hp & Hc & He & Hs) Ht; constructor; auto.
Qed.

Lemma Rep_plug s k : forall t, RepC s k -> Rep s (owner k) (hole_link s k) t -> Rep s EMPTY (aroot s) (plug k t).
Proof.
  induction k as [|f k IH]; intros t HC Ht; simpl in *; [exact Ht|].
  destruct HC as (HF & Hl & HC). apply IH; auto. rewrite Hl. apply Rep_plug1; auto.
Qed.

Lemma Rep_unplug1 s f up x t : Rep s up x (plug1 f t) ->
  x = fslot f /\ RepF s f up /\ Rep s (fslot f) (flink s f) t.
Proof.
  destruct f as [c i e r|c l i e]; simpl; intros H; apply Rep_inv_T in H;
    destruct H as (-> & Hi & Hp & Hc & He & Hl & Hr); repeat split; auto.
Qed.

Lemma Rep_unplug s k : forall t, Rep s EMPTY (aroot s) (plug k t) ->
  RepC s k /\ Rep s (owner k) (hole_link s k) t.
Proof.
  induction k as [|f k IH]; intros t H; simpl in *; [split; auto|].
  apply IH in H. destruct H as (HC & H). apply Rep_unplug1 in H. destruct H as (Hx & HF & Ht).
  repeat split; auto.
Qed.

Lemma slots_plug1 f t : Permutation (mslots (plug1 f t)) (mslots t ++ fslots f).
Proof.
  destruct f as [c i e r|c l i e]; simpl; rewrite slots_T; unfold fslots; simpl; [reflexivity|].
  rewrite <- !Permutation_middle. constructor. apply Permutation_app_comm.
Qed.

Lemma slots_plug k : forall t, Permutation (mslots (plug k t)) (mslots t ++ cslots k).
Proof.
  induction k as [|f k IH]; intros t; cbn [plug cslots]; [rewrite app_nil_r; reflexivity|].
  rewrite IH, slots_plug1, <- app_assoc. reflexivity.
Qed.

(** ** pointwise description of the elementary updates and of the rotations *)
Lemma nodes_set_par s i v j : nodes (set_par s i v) j = if N.eqb j i then with_par (nodes s i) v else nodes s j.
Proof. reflexivity. Qed.
Lemma nodes_set_lft s i v j : nodes (set_lft s i v) j = if N.eqb j i then with_lft (nodes s i) v else nodes s j.
Proof. reflexivity. Qed.
Lemma nodes_set_rgt s i v j : nodes (set_rgt s i v) j = if N.eqb j i then with_rgt (nodes s i) v else nodes s j.
Proof. reflexivity. Qed.
Lemma nodes_set_red s i v j : nodes (set_red s i v) j = if N.eqb j i then with_red (nodes s i) v else nodes s j.
Proof. reflexivity. Qed.
Lemma nodes_set_root s r j : nodes (set_root s r) j = nodes s j.
Proof. reflexivity. Qed.

Ltac neq_simpl :=
  repeat match goal with
  | |- context [N.eqb ?a ?a] => rewrite (N.eqb_refl a)
  | H: ?a <> ?b |- context [N.eqb ?a ?b] => rewrite (proj2 (N.eqb_neq a b) H)
  | H: ?b <> ?a |- context [N.eqb ?a ?b] => rewrite (proj2 (N.eqb_neq a b) (not_eq_sym H))
  end.

Ltac arena_eval :=
  repeat (rewrite ?nodes_set_par, ?nodes_set_lft, ?nodes_set_rgt, ?nodes_set_red, ?nodes_set_root; neq_simpl;
          cbn [par lft rgt red aent with_par with_lft with_rgt with_red aroot set_root set_par set_lft set_rgt set_red setn]).

Lemma rotate_right_nodes s g p q rb :
  p = lft (nodes s g) -> q = par (nodes s g) -> rb = rgt (nodes s p) ->
  g <> p -> g <> q -> p <> q -> rb <> g -> rb <> p -> (rb <> EMPTY -> rb <> q) -> g <> EMPTY -> p <> EMPTY ->
  let s' := rotate_right s g in
  nodes s' g = {| par := p; lft := rb; rgt := rgt (nodes s g); red := red (nodes s g); aent := aent (nodes s g) |} /\
  nodes s' p = {| par := q; lft := lft (nodes s p); rgt := g; red := red (nodes s p); aent := aent (nodes s p) |} /\
  (rb <> EMPTY -> nodes s' rb = with_par (nodes s rb) g) /\
  (q <> EMPTY -> nodes s' q = if N.eqb (lft (nodes s q)) g then with_lft (nodes s q) p else with_rgt (nodes s q) p) /\
  (forall j, j <> g -> j <> p -> (j <> rb \/ rb = EMPTY) -> (j <> q \/ q = EMPTY) -> nodes s' j = nodes s j) /\
  aroot s' = (if N.eqb q EMPTY then p else aroot s).
Proof.
  intros Hp Hq Hrb Ngp Ngq Npq Nrg Nrp Nrq Ng Np s'. subst s'. unfold rotate_right, replace_parents_child.
  rewrite <- Hp, <- Hq, <- Hrb.
  destruct (N.eqb_spec rb EMPTY) as [Erb|Nrb]; destruct (N.eqb_spec q EMPTY) as [Eq|Nq].
  - repeat split; try (intros; exfalso; congruence).
    + arena_eval. reflexivity.
    + arena_eval. reflexivity.
    + intros j Njg Njp _ _. arena_eval. reflexivity.
  - repeat split; try (intros; exfalso; congruence).
    + arena_eval. destruct (N.eqb _ g); arena_eval; reflexivity.
    + arena_eval. destruct (N.eqb _ g); arena_eval; reflexivity.
    + intros _. arena_eval. destruct (N.eqb _ g); arena_eval; reflexivity.
    + intros j Njg Njp _ [Njq|]; [|congruence]. arena_eval. destruct (N.eqb _ g); arena_eval; reflexivity.
    + arena_eval. destruct (N.eqb _ g); reflexivity.
  - repeat split; try (intros; exfalso; congruence).
    + arena_eval. reflexivity.
    + arena_eval. reflexivity.
    + intros _. arena_eval. reflexivity.
    + intros j Njg Njp [Njr|] _; [|congruence]. arena_eval. reflexivity.
  - specialize (Nrq Nrb). repeat split; try (intros; exfalso; congruence).
    + arena_eval. destruct (N.eqb _ g); arena_eval; reflexivity.
    + arena_eval. destruct (N.eqb _ g); arena_eval; reflexivity.
    + intros _. arena_eval. destruct (N.eqb _ g); arena_eval; reflexivity.
    + intros _. arena_eval. destruct (N.eqb _ g); arena_eval; reflexivity.
    + intros j Njg Njp [Njr|] [Njq|]; try congruence. arena_eval. destruct (N.eqb _ g); arena_eval; reflexivity.
    + arena_eval. destruct (N.eqb _ g); reflexivity.
Qed.

Lemma rotate_left_nodes s g p q lb :
  p = rgt (nodes s g) -> q = par (nodes s g) -> lb = lft (nodes s p) ->
  g <> p -> g <> q -> p <> q -> lb <> g -> lb <> p -> (lb <> EMPTY -> lb <> q) -> g <> EMPTY -> p <> EMPTY ->
  let s' := rotate_left s g in
  nodes s' g = {| par := p; lft := lft (nodes s g); rgt := lb; red := red (nodes s g); aent := aent (nodes s g) |} /\
  nodes s' p = {| par := q; lft := g; rgt := rgt (nodes s p); red := red (nodes s p); aent := aent (nodes s p) |} /\
  (lb <> EMPTY -> nodes s' lb = with_par (nodes s lb) g) /\
  (q <> EMPTY -> nodes s' q = if N.eqb (lft (nodes s q)) g then with_lft (nodes s q) p else with_rgt (nodes s q) p) /\
  (forall j, j <> g -> j <> p -> (j <> lb \/ lb = EMPTY) -> (j <> q \/ q = EMPTY) -> nodes s' j = nodes s j) /\
  aroot s' = (if N.eqb q EMPTY then p else aroot s).
Proof.
  intros Hp Hq Hrb Ngp Ngq Npq Nrg Nrp Nrq Ng Np s'. subst s'. unfold rotate_left, replace_parents_child.
  rewrite <- Hp, <- Hq, <- Hrb.
  destruct (N.eqb_spec lb EMPTY) as [Erb|Nrb]; destruct (N.eqb_spec q EMPTY) as [Eq|Nq].
  - repeat split; try (intros; exfalso; congruence).
    + arena_eval. reflexivity.
    + arena_eval. reflexivity.
    + intros j Njg Njp _ _. arena_eval. reflexivity.
  - repeat split; try (intros; exfalso; congruence).
    + arena_eval. destruct (N.eqb _ g); arena_eval; reflexivity.
    + arena_eval. destruct (N.eqb _ g); arena_eval; reflexivity.
    + intros _. arena_eval. destruct (N.eqb _ g); arena_eval; reflexivity.
    + intros j Njg Njp _ [Njq|]; [|congruence]. arena_eval. destruct (N.eqb _ g); arena_eval; reflexivity.
    + arena_eval. destruct (N.eqb _ g); reflexivity.
  - repeat split; try (intros; exfalso; congruence).
    + arena_eval. reflexivity.
    + arena_eval. reflexivity.
    + intros _. arena_eval. reflexivity.
    + intros j Njg Njp [Njr|] _; [|congruence]. arena_eval. reflexivity.
  - specialize (Nrq Nrb). repeat split; try (intros; exfalso; congruence).
    + arena_eval. destruct (N.eqb _ g); arena_eval; reflexivity.
    + arena_eval. destruct (N.eqb _ g); arena_eval; reflexivity.
    + intros _. arena_eval. destruct (N.eqb _ g); arena_eval; reflexivity.
    + intros _. arena_eval. destruct (N.eqb _ g); arena_eval; reflexivity.
    + intros j Njg Njp [Njr|] [Njq|]; try congruence. arena_eval. destruct (N.eqb _ g); arena_eval; reflexivity.
    + arena_eval. destruct (N.eqb _ g); reflexivity.
Qed.

(** ** slot bookkeeping *)
Lemma NoDup_app_iff (A: Type) (a b: list A) :
  NoDup (a ++ b) <-> NoDup a /\ NoDup b /\ (forall x, In x a -> In x b -> False).
Proof.
  induction a as [|x a IH]; simpl.
  - split; [intros H; repeat split; auto; constructor|tauto].
  - rewrite !NoDup_cons_iff, IH, in_app_iff. split.
    + intros (Hx & Ha & Hb & Hab). repeat split; auto. intros y [<-|Hy] Hyb; eauto.
    + intros ((Hx & Ha) & Hb & Hab). repeat split; eauto. intros [K|K]; eauto.
Qed.

Ltac nd_norm :=
  repeat (rewrite ?slots_T, ?NoDup_app_iff, ?NoDup_cons_iff, ?in_app_iff in *; cbn [In] in *);
  repeat match goal with H: context [In _ (_ ++ _)] |- _ => setoid_rewrite in_app_iff in H end;
  cbn [In] in *.

Ltac slot_in := repeat (rewrite ?slots_T, ?in_app_iff; cbn [In]); tauto.

(* re-parenting the root of a represented subtree *)
Lemma Rep_reparent s s' p p' x t : Rep s p x t -> NoDup (mslots t) ->
  (x <> EMPTY -> nodes s' x = with_par (nodes s x) p') ->
  (forall j, In j (mslots t) -> j <> x -> nodes s' j = nodes s j) -> Rep s' p' x t.
Proof.
  intros H ND Hx Hf. inversion H as [|p0 i c l e r Hi Hp Hc He Hl Hr]; subst; [constructor|].
  specialize (Hx Hi). nd_norm. destruct ND as (NDl & (Hir & NDr) & Hlr).
  constructor; rewrite ?Hx; cbn [par lft rgt red aent with_par]; auto.
  - eapply Rep_frame; [exact Hl|]. intros j Hj. apply Hf; [slot_in|]. intros ->. eapply Hlr; eauto.
  - eapply Rep_frame; [exact Hr|]. intros j Hj. apply Hf; [slot_in|]. intros ->. tauto.
Qed.

Lemma Rep_root_in s p x t : Rep s p x t -> x <> EMPTY -> In x (mslots t).
Proof. inversion 1; subst; [congruence|]. intros _. nd_norm. tauto. Qed.

Lemma Rep_E_iff s p x t : Rep s p x t -> (x = EMPTY <-> t = E).
Proof. inversion 1; subst; split; auto; try congruence. Qed.

(** ** the rotations on represented subtrees *)
Definition disj (A B: list N) : Prop := forall x, In x A -> In x B -> False.
Definition distinct5 (A: list N) (p: N) (B: list N) (g: N) (U: list N) : Prop :=
  NoDup A /\ NoDup B /\ NoDup U /\ ~ In p A /\ ~ In p B /\ ~ In p U /\ ~ In g A /\ ~ In g B /\ ~ In g U /\ g <> p /\
  disj A B /\ disj A U /\ disj B U.

Lemma nd_shape1 A p B g U : NoDup ((A ++ p :: B) ++ g :: U) -> distinct5 A p B g U.
Proof.
  intros ND. nd_norm. destruct ND as ((NDa & (Hpb & NDb) & Hab) & (Hgu & NDu) & Hlu).
  unfold distinct5, disj. repeat split; auto.
  - intros K. apply (Hab p); tauto.
  - intros K. apply (Hlu p); tauto.
  - intros K. apply (Hlu g); tauto.
  - intros K. apply (Hlu g); tauto.
  - intros K. apply (Hlu p); tauto.
  - intros x K1 K2. apply (Hab x); tauto.
  - intros x K1 K2. apply (Hlu x); tauto.
  - intros x K1 K2. apply (Hlu x); tauto.
Qed.

Lemma nd_shape2 A p B g U : NoDup (U ++ g :: A ++ p :: B) -> distinct5 A p B g U.
Proof.
  intros ND. nd_norm. destruct ND as (NDu & (Hg & NDa & (Hpb & NDb) & Hab) & Hul).
  unfold distinct5, disj. repeat split; auto; try tauto;
    try (intros K; solve [apply (Hab p); tauto | apply (Hul p); tauto | apply (Hul g); tauto | subst; tauto]);
    try (intros x K1 K2; solve [apply (Hab x); tauto | apply (Hul x); tauto]).
Qed.

Definition relinked (s s': astate) (q old new: N) : Prop :=
  (q <> EMPTY -> nodes s' q = if N.eqb (lft (nodes s q)) old then with_lft (nodes s q) new else with_rgt (nodes s q) new) /\
  aroot s' = (if N.eqb q EMPTY then new else aroot s).

Definition outside (A: list N) (p: N) (B: list N) (g: N) (U: list N) (j: N) : Prop :=
  ~ In j A /\ j <> p /\ ~ In j B /\ j <> g /\ ~ In j U.

Lemma rot_right_core s q g cg cp a p ep b eg u :
  g <> EMPTY -> par (nodes s g) = q -> red (nodes s g) = is_red cg -> aent (nodes s g) = eg ->
  lft (nodes s g) = p -> p <> EMPTY -> par (nodes s p) = g -> red (nodes s p) = is_red cp -> aent (nodes s p) = ep ->
  Rep s p (lft (nodes s p)) a -> Rep s p (rgt (nodes s p)) b -> Rep s g (rgt (nodes s g)) u ->
  distinct5 (mslots a) p (mslots b) g (mslots u) -> outside (mslots a) p (mslots b) g (mslots u) q ->
  let s' := rotate_right s g in
  Rep s' q p (T cp a p ep (T cg b g eg u)) /\
  (forall j, outside (mslots a) p (mslots b) g (mslots u) j -> (j <> q \/ q = EMPTY) -> nodes s' j = nodes s j) /\
  relinked s s' q g p.
Proof.
  intros Ng Hpg Hcg Heg Hlg Np Hpp Hcp Hep Ha Hb Hu D Hq s'.
  destruct D as (NDa & NDb & NDu & Hpa & Hpb & Hpu & Hga & Hgb & Hgu & Ngp & Hab & Hau & Hbu).
  destruct Hq as (Hqa & Nqp & Hqb & Nqg & Hqu).
  pose proof (Rep_slots_ne _ _ _ _ Ha) as NEa. pose proof (Rep_slots_ne _ _ _ _ Hb) as NEb.
  pose proof (Rep_slots_ne _ _ _ _ Hu) as NEu.
  set (rb := rgt (nodes s p)) in *.
  assert (Hrb: rb <> EMPTY -> In rb (mslots b)) by (intros K; eapply Rep_root_in; eauto).
  assert (Nrg: rb <> g).
  { intros K. destruct (N.eq_dec rb EMPTY) as [E|E]; [congruence|]. apply Hgb. rewrite <- K; auto. }
  assert (Nrp: rb <> p).
  { intros K. destruct (N.eq_dec rb EMPTY) as [E|E]; [congruence|]. apply Hpb. rewrite <- K; auto. }
  assert (Nrq: rb <> EMPTY -> rb <> q) by (intros K E; apply Hqb; rewrite <- E; auto).
  destruct (rotate_right_nodes s g p q rb (eq_sym Hlg) (eq_sym Hpg) eq_refl Ngp (not_eq_sym Nqg) (not_eq_sym Nqp)
              Nrg Nrp Nrq Ng Np) as (Sg & Sp & Srb & Sq & So & Sroot).
  fold s' in Sg, Sp, Srb, Sq, So, Sroot.
  assert (Fr: forall j, j <> g -> j <> p -> j <> rb -> (j <> q \/ q = EMPTY) -> nodes s' j = nodes s j).
  { intros j J1 J2 J3 J4. apply So; auto. }
  split; [|split].
  - constructor; rewrite ?Sp; cbn [par lft rgt red aent]; auto.
    + eapply Rep_frame; [exact Ha|]. intros j Hj. apply Fr.
      * intros ->. tauto.
      * intros ->. tauto.
      * intros ->. destruct (N.eq_dec rb EMPTY) as [E|E]; [apply (NEa _ Hj E)|]. eapply Hab; eauto.
      * left. intros ->. tauto.
    + constructor; rewrite ?Sg; cbn [par lft rgt red aent]; auto.
      * eapply Rep_reparent; [exact Hb|exact NDb|exact Srb|]. intros j Hj Njr. apply Fr; auto.
        -- intros ->. tauto.
        -- intros ->. tauto.
        -- left. intros ->. tauto.
      * eapply Rep_frame; [exact Hu|]. intros j Hj. apply Fr.
        -- intros ->. tauto.
        -- intros ->. tauto.
        -- intros ->. destruct (N.eq_dec rb EMPTY) as [E|E]; [apply (NEu _ Hj E)|]. eapply Hbu; eauto.
        -- left. intros ->. tauto.
  - intros j (Ja & Jp & Jb & Jg & Ju) Hjq. apply So; auto.
    destruct (N.eq_dec rb EMPTY) as [E|E]; [tauto|]. left. intros ->. apply Jb. auto.
  - split; auto.
Qed.

Lemma rot_left_core s q g cg cp a p ep b eg u :
  g <> EMPTY -> par (nodes s g) = q -> red (nodes s g) = is_red cg -> aent (nodes s g) = eg ->
  rgt (nodes s g) = p -> p <> EMPTY -> par (nodes s p) = g -> red (nodes s p) = is_red cp -> aent (nodes s p) = ep ->
  Rep s p (lft (nodes s p)) a -> Rep s p (rgt (nodes s p)) b -> Rep s g (lft (nodes s g)) u ->
  distinct5 (mslots a) p (mslots b) g (mslots u) -> outside (mslots a) p (mslots b) g (mslots u) q ->
  let s' := rotate_left s g in
  Rep s' q p (T cp (T cg u g eg a) p ep b) /\
  (forall j, outside (mslots a) p (mslots b) g (mslots u) j -> (j <> q \/ q = EMPTY) -> nodes s' j = nodes s j) /\
  relinked s s' q g p.
Proof.
  intros Ng Hpg Hcg Heg Hlg Np Hpp Hcp Hep Ha Hb Hu D Hq s'.
  destruct D as (NDa & NDb & NDu & Hpa & Hpb & Hpu & Hga & Hgb & Hgu & Ngp & Hab & Hau & Hbu).
  destruct Hq as (Hqa & Nqp & Hqb & Nqg & Hqu).
  pose proof (Rep_slots_ne _ _ _ _ Ha) as NEa. pose proof (Rep_slots_ne _ _ _ _ Hb) as NEb.
  pose proof (Rep_slots_ne _ _ _ _ Hu) as NEu.
  set (lb := lft (nodes s p)) in *.
  assert (Hlb: lb <> EMPTY -> In lb (mslots a)) by (intros K; eapply Rep_root_in; eauto).
  assert (Nrg: lb <> g).
  { intros K. destruct (N.eq_dec lb EMPTY) as [E|E]; [congruence|]. apply Hga. rewrite <- K; auto. }
  assert (Nrp: lb <> p).
  { intros K. destruct (N.eq_dec lb EMPTY) as [E|E]; [congruence|]. apply Hpa. rewrite <- K; auto. }
  assert (Nrq: lb <> EMPTY -> lb <> q) by (intros K E; apply Hqa; rewrite <- E; auto).
  destruct (rotate_left_nodes s g p q lb (eq_sym Hlg) (eq_sym Hpg) eq_refl Ngp (not_eq_sym Nqg) (not_eq_sym Nqp)
              Nrg Nrp Nrq Ng Np) as (Sg & Sp & Slb & Sq & So & Sroot).
  fold s' in Sg, Sp, Slb, Sq, So, Sroot.
  assert (Fr: forall j, j <> g -> j <> p -> j <> lb -> (j <> q \/ q = EMPTY) -> nodes s' j = nodes s j).
  { intros j J1 J2 J3 J4. apply So; auto. }
  split; [|split].
  - constructor; rewrite ?Sp; cbn [par lft rgt red aent]; auto.
    + constructor; rewrite ?Sg; cbn [par lft rgt red aent]; auto.
      * eapply Rep_frame; [exact Hu|]. intros j Hj. apply Fr.
        -- intros ->. tauto.
        -- intros ->. tauto.
        -- intros ->. destruct (N.eq_dec lb EMPTY) as [E|E]; [apply (NEu _ Hj E)|]. eapply Hau; eauto.
        -- left. intros ->. tauto.
      * eapply Rep_reparent; [exact Ha|exact NDa|exact Slb|]. intros j Hj Njr. apply Fr; auto.
        -- intros ->. tauto.
        -- intros ->. tauto.
        -- left. intros ->. tauto.
    + eapply Rep_frame; [exact Hb|]. intros j Hj. apply Fr.
      * intros ->. tauto.
      * intros ->. tauto.
      * intros ->. destruct (N.eq_dec lb EMPTY) as [E|E]; [apply (NEb _ Hj E)|]. eapply Hab; eauto.
      * left. intros ->. tauto.
  - intros j (Ja & Jp & Jb & Jg & Ju) Hjq. apply So; auto.
    destruct (N.eq_dec lb EMPTY) as [E|E]; [tauto|]. left. intros ->. apply Ja. auto.
  - split; auto.
Qed.

(** ** contexts under local updates *)
Lemma RepF_frame s s' f up : RepF s f up -> (forall j, In j (fslots f) -> nodes s' j = nodes s j) ->
  RepF s' f up /\ flink s' f = flink s f.
Proof.
  destruct f as [c i e r|c l i e]; unfold fslots; cbn [RepF flink fslot fsib]; intros (Hi & Hp & Hc & He & Hs) Hf;
    assert (Hn: nodes s' i = nodes s i) by (apply Hf; simpl; auto); rewrite !Hn; repeat split; auto;
    (eapply Rep_frame; [exact Hs|]); intros j Hj; apply Hf; simpl; auto.
Qed.

Lemma RepC_frame s s' k : RepC s k -> (forall j, In j (cslots k) -> nodes s' j = nodes s j) -> aroot s' = aroot s ->
  RepC s' k /\ hole_link s' k = hole_link s k.
Proof.
  induction k as [|f k IH]; intros HC Hf Hr; cbn [RepC hole_link cslots] in *; [split; auto|].
  destruct HC as (HF & Hl & HC).
  destruct (RepF_frame s s' f _ HF) as (HF' & Hfl). { intros j Hj. apply Hf. apply in_or_app. auto. }
  destruct (IH HC) as (HC' & Hl'); auto. { intros j Hj. apply Hf. apply in_or_app. auto. }
  repeat split; auto. congruence.
Qed.

Lemma RepC_relink s s' k old new : RepC s k -> NoDup (cslots k) -> hole_link s k = old -> ~ In old (cslots k) ->
  old <> EMPTY -> relinked s s' (owner k) old new ->
  (forall j, In j (cslots k) -> j <> owner k -> nodes s' j = nodes s j) ->
  RepC s' k /\ hole_link s' k = new.
Proof.
  destruct k as [|f k]; intros HC ND Ho Hold Ne (Hq & Hr) Hf; cbn [RepC hole_link cslots owner] in *.
  - rewrite N.eqb_refl in Hr. auto.
  - destruct HC as (HF & Hl & HC).
    assert (Nq: fslot f <> EMPTY) by (destruct f; simpl in *; tauto).
    specialize (Hq Nq). destruct (N.eqb_spec (fslot f) EMPTY) as [K|_]; [contradiction|].
    apply NoDup_app_iff in ND. destruct ND as (NDf & NDk & Dfk). unfold fslots in NDf, Dfk, Hold, Hf.
    apply NoDup_cons_iff in NDf. destruct NDf as (Hqs & NDs).
    destruct (RepC_frame s s' k HC) as (HC' & Hl'); auto.
    { intros j Hj. apply Hf; [apply in_or_app; auto|]. intros ->. apply (Dfk (fslot f)); simpl; auto. }
    rewrite <- Hl' in Hl.
    assert (Fs: forall j, In j (mslots (fsib f)) -> nodes s' j = nodes s j).
    { intros j Hj. apply Hf; [simpl; rewrite in_app_iff; auto|]. intros ->. contradiction. }
    destruct f as [c i e r|c l i e]; cbn [RepF flink fslot fsib] in *; destruct HF as (Hi & Hp & Hc & He & Hs).
    + rewrite Ho, N.eqb_refl in Hq. rewrite Hq. cbn [par lft rgt red aent with_lft]. repeat split; auto.
      eapply Rep_frame; eauto.
    + assert (Nl: lft (nodes s i) <> old).
      { intros K. destruct (N.eq_dec (lft (nodes s i)) EMPTY) as [E|E]; [congruence|].
        apply Hold. right. apply in_or_app. left. rewrite <- K. eapply Rep_root_in; eauto. }
      apply N.eqb_neq in Nl. rewrite Nl in Hq. rewrite Hq. cbn [par lft rgt red aent with_rgt]. repeat split; auto.
      eapply Rep_frame; eauto.
Qed.

(** ** the tree-level insertion seen through a context *)
Notation up_left := (up_left ent).
Notation up_right := (up_right ent).

Definition up1 (f: frame) (ts: mtree * status) : mtree * status :=
  match f with
  | FL c i e r => up_left c (fst ts) i e r (snd ts)
  | FR c l i e => up_right c l i e (fst ts) (snd ts)
  end.
Fixpoint climb (k: ctx) (ts: mtree * status) : mtree * status :=
  match k with [] => ts | f :: k' => climb k' (up1 f ts) end.

Lemma climb_ok k : forall t, climb k (t, Ok) = (plug k t, Ok).
Proof. induction k as [|f k IH]; intros t; simpl; [reflexivity|]. destruct f; simpl; apply IH. Qed.

(** ** helpers for the repair loop *)
Notation is_red_node := (is_red_node ent).
Notation paint := (paint ent).
Notation finish_insert := (finish_insert ent).
Notation fix_ins_left := (fix_ins_left ent).
Notation fix_ins_right := (fix_ins_right ent).

Lemma uncle_test s g x u : Rep s g x u -> (negb (N.eqb x EMPTY) && red (nodes s x))%bool = is_red_node u.
Proof.
  inversion 1 as [|p0 i c l e r Hi Hp Hc He Hl Hr]; subst; simpl.
  - reflexivity.
  - apply N.eqb_neq in Hi. rewrite Hi, Hc. destruct c; reflexivity.
Qed.

Lemma paint_root i c c0 l e r : paint_slot i c (T c0 l i e r) = T c l i e r.
Proof. simpl. rewrite N.eqb_refl. reflexivity. Qed.

Lemma paint_left x c c0 l i e r : i <> x -> ~ In x (mslots r) ->
  paint_slot x c (T c0 l i e r) = T c0 (paint_slot x c l) i e r.
Proof. intros Hn Hr. simpl. apply N.eqb_neq in Hn. rewrite Hn, (paint_slot_notin x c r) by exact Hr. reflexivity. Qed.

Lemma paint_right x c c0 l i e r : i <> x -> ~ In x (mslots l) ->
  paint_slot x c (T c0 l i e r) = T c0 l i e (paint_slot x c r).
Proof. intros Hn Hr. simpl. apply N.eqb_neq in Hn. rewrite Hn, (paint_slot_notin x c l) by exact Hr. reflexivity. Qed.

Lemma RepC_set_red s k j c : RepC s k -> ~ In j (cslots k) ->
  RepC (set_red s j c) k /\ hole_link (set_red s j c) k = hole_link s k.
Proof.
  intros HC Hj. apply RepC_frame; auto. intros i Hi. unfold set_red. apply nodes_setn_other. intros ->. contradiction.
Qed.

Lemma slots_rot c1 c2 (a b u: mtree) p ep g eg :
  mslots (T c1 a p ep (T c2 b g eg u)) = mslots (T c2 (T c1 a p ep b) g eg u).
Proof. rewrite !slots_T. rewrite <- app_assoc. reflexivity. Qed.

Lemma owner_notin s k t : RepC s k -> NoDup (mslots t ++ cslots k) -> Rep s (owner k) (hole_link s k) t ->
  ~ In (owner k) (mslots t).
Proof.
  intros HC ND Ht Hin. destruct k as [|f k]; cbn [owner] in *.
  - eapply Rep_slots_ne; eauto.
  - apply NoDup_app_iff in ND. destruct ND as (_ & _ & D). apply (D (fslot f)); auto. simpl. auto.
Qed.

Lemma nd_plug1 f k t : NoDup (mslots t ++ cslots (f :: k)) -> NoDup (mslots (plug1 f t) ++ cslots k).
Proof.
  intros H. eapply Permutation_NoDup; [|exact H]. cbn [cslots]. rewrite app_assoc. apply Permutation_app_tail.
  symmetry. apply slots_plug1.
Qed.

Lemma nd_split (A B: list N) : NoDup (A ++ B) -> NoDup A /\ NoDup B /\ disj A B.
Proof. intros H. apply NoDup_app_iff in H. exact H. Qed.

Lemma rot_right_ctx s k cg cp a p ep b g eg u :
  let t := T cg (T cp a p ep b) g eg u in
  RepC s k -> Rep s (owner k) (hole_link s k) t -> NoDup (mslots t ++ cslots k) ->
  let s' := rotate_right s g in
  RepC s' k /\ hole_link s' k = p /\ Rep s' (owner k) p (T cp a p ep (T cg b g eg u)).
Proof.
  intros t HC Ht ND s'.
  pose proof (owner_notin s k t HC ND Ht) as Hq.
  destruct (nd_split _ _ ND) as (NDt & NDk & Dtk).
  subst t. apply Rep_inv_T in Ht. destruct Ht as (Hx & Ng & Hpg & Hcg & Heg & Hl & Hu).
  apply Rep_inv_T in Hl. destruct Hl as (Hlg & Np & Hpp & Hcp & Hep & Ha & Hb).
  assert (D5: distinct5 (mslots a) p (mslots b) g (mslots u)) by (apply nd_shape1; rewrite !slots_T in NDt; exact NDt).
  assert (Out: forall j, ~ In j (mslots (T cg (T cp a p ep b) g eg u)) -> outside (mslots a) p (mslots b) g (mslots u) j).
  { intros j Hj. repeat (rewrite ?slots_T, ?in_app_iff in Hj; cbn [In] in Hj).
    unfold outside. repeat split; intros K; apply Hj; subst; tauto. }
  destruct (rot_right_core s (owner k) g cg cp a p ep b eg u Ng Hpg Hcg Heg Hlg Np Hpp Hcp Hep Ha Hb Hu D5 (Out _ Hq))
    as (HR & Hfr & Hrel). fold s' in HR, Hfr, Hrel.
  destruct (RepC_relink s s' k g p HC NDk Hx) as (HC' & Hl'); auto.
  - intros K. apply (Dtk g); auto. rewrite slots_T, in_app_iff. simpl. auto.
  - intros j Hj Hjo. apply Hfr; auto. apply Out. intros K. apply (Dtk j); auto.
Qed.

Lemma rot_left_ctx s k cg cp a p ep b g eg u :
  let t := T cg u g eg (T cp a p ep b) in
  RepC s k -> Rep s (owner k) (hole_link s k) t -> NoDup (mslots t ++ cslots k) ->
  let s' := rotate_left s g in
  RepC s' k /\ hole_link s' k = p /\ Rep s' (owner k) p (T cp (T cg u g eg a) p ep b).
Proof.
  intros t HC Ht ND s'.
  pose proof (owner_notin s k t HC ND Ht) as Hq.
  destruct (nd_split _ _ ND) as (NDt & NDk & Dtk).
  subst t. apply Rep_inv_T in Ht. destruct Ht as (Hx & Ng & Hpg & Hcg & Heg & Hu & Hr).
  apply Rep_inv_T in Hr. destruct Hr as (Hrg & Np & Hpp & Hcp & Hep & Ha & Hb).
  assert (D5: distinct5 (mslots a) p (mslots b) g (mslots u)) by (apply nd_shape2; rewrite !slots_T in NDt; exact NDt).
  assert (Out: forall j, ~ In j (mslots (T cg u g eg (T cp a p ep b))) -> outside (mslots a) p (mslots b) g (mslots u) j).
  { intros j Hj. repeat (rewrite ?slots_T, ?in_app_iff in Hj; cbn [In] in Hj).
    unfold outside. repeat split; intros K; apply Hj; subst; tauto. }
  destruct (rot_left_core s (owner k) g cg cp a p ep b eg u Ng Hpg Hcg Heg Hrg Np Hpp Hcp Hep Ha Hb Hu D5 (Out _ Hq))
    as (HR & Hfr & Hrel). fold s' in HR, Hfr, Hrel.
  destruct (RepC_relink s s' k g p HC NDk Hx) as (HC' & Hl'); auto.
  - intros K. apply (Dtk g); auto. rewrite slots_T, in_app_iff. simpl. auto.
  - intros j Hj Hjo. apply Hfr; auto. apply Out. intros K. apply (Dtk j); auto.
Qed.

Lemma recolor_finish s k x t j1 j2 :
  RepC s k -> hole_link s k = x -> Rep s (owner k) x t -> NoDup (mslots t ++ cslots k) ->
  In j1 (mslots t) -> In j2 (mslots t) ->
  let s' := set_red (set_red s j1 false) j2 true in
  Rep s' EMPTY (aroot s') (plug k (paint_slot j2 Red (paint_slot j1 Black t))).
Proof.
  intros HC Hl Ht ND H1 H2 s'. destruct (nd_split _ _ ND) as (NDt & NDk & Dtk).
  destruct (RepC_set_red s k j1 false HC) as (HC1 & Hl1). { intros K. apply (Dtk j1); auto. }
  destruct (RepC_set_red _ k j2 true HC1) as (HC2 & Hl2). { intros K. apply (Dtk j2); auto. }
  apply Rep_plug; auto. fold s'. subst s'. rewrite Hl2, Hl1, Hl.
  apply (Rep_set_red _ _ _ _ j2 Red). 2: rewrite paint_slot_slots; exact NDt.
  apply (Rep_set_red _ _ _ _ j1 Black); auto.
Qed.

(** ** the repair loop *)
Definition red_at (d2: dir) (a b: mtree) (n: N) : Prop :=
  match d2 with
  | L => exists a1 en a2, a = T Red a1 n en a2
  | R => exists b1 en b2, b = T Red b1 n en b2
  end.

Definition fix_goal (fuel: nat) : Prop := forall k s a p ep b n d2,
  RepC s k -> Rep s (owner k) (hole_link s k) (T Red a p ep b) -> red_at d2 a b n ->
  NoDup (mslots (T Red a p ep b) ++ cslots k) -> (length k < fuel)%nat ->
  exists s', fix_insert fuel s n p = Ret s' /\
             Rep s' EMPTY (aroot s') (finish_insert (climb k (T Red a p ep b, RedRed d2))).

Lemma recolor3 s k t p g x :
  RepC s k -> hole_link s k = g -> Rep s (owner k) g t -> NoDup (mslots t ++ cslots k) ->
  In p (mslots t) -> In g (mslots t) -> In x (mslots t) ->
  let s1 := set_red (set_red (set_red s p false) g true) x false in
  RepC s1 k /\ hole_link s1 k = g /\
  Rep s1 (owner k) g (paint_slot x Black (paint_slot g Red (paint_slot p Black t))).
Proof.
  intros HC Hl Ht ND H1 H2 H3 s1. destruct (nd_split _ _ ND) as (NDt & NDk & Dtk).
  destruct (RepC_set_red s k p false HC) as (HC1 & Hl1). { intros K. apply (Dtk p); auto. }
  destruct (RepC_set_red _ k g true HC1) as (HC2 & Hl2). { intros K. apply (Dtk g); auto. }
  destruct (RepC_set_red _ k x false HC2) as (HC3 & Hl3). { intros K. apply (Dtk x); auto. }
  fold s1 in HC3, Hl3. split; [exact HC3|]. split; [congruence|]. subst s1.
  apply (Rep_set_red _ _ _ _ x Black). 2: rewrite !paint_slot_slots; exact NDt.
  apply (Rep_set_red _ _ _ _ g Red). 2: rewrite !paint_slot_slots; exact NDt.
  apply (Rep_set_red _ _ _ _ p Black); auto.
Qed.

Lemma case3_continue f s1 k g l eg r :
  fix_goal f -> RepC s1 k -> hole_link s1 k = g -> Rep s1 (owner k) g (T Red l g eg r) ->
  NoDup (mslots (T Red l g eg r) ++ cslots k) -> (length k <= f)%nat ->
  exists s', (let gg := par (nodes s1 g) in
              if (negb (N.eqb gg EMPTY) && red (nodes s1 gg))%bool then fix_insert f s1 g gg else Ret s1) = Ret s' /\
             Rep s' EMPTY (aroot s') (finish_insert (climb k (T Red l g eg r, NewRed))).
Proof.
  intros IH HC Hl Ht ND Hlen. cbv zeta.
  pose proof Ht as Ht0. apply Rep_inv_T in Ht. destruct Ht as (_ & Ng & Hpg & _).
  destruct k as [|fgg k]; cbn [owner] in *.
  - rewrite Hpg, N.eqb_refl. cbn [negb andb]. eexists; split; [reflexivity|]. cbn [climb finish_insert snd fst].
    cbn [hole_link] in Hl. rewrite Hl. exact Ht0.
  - cbn [RepC] in HC. destruct HC as (HF & Hl' & HC).
    rewrite Hpg.
    assert (Ngg: fslot fgg <> EMPTY) by (destruct fgg; simpl in HF; tauto).
    assert (Hred: red (nodes s1 (fslot fgg)) = is_red (fcol fgg)) by (destruct fgg; simpl in HF; tauto).
    apply N.eqb_neq in Ngg. rewrite Ngg, Hred. cbn [negb andb].
    assert (HP: Rep s1 (owner k) (fslot fgg) (plug1 fgg (T Red l g eg r))).
    { apply Rep_plug1; auto. cbn [hole_link] in Hl. rewrite Hl. exact Ht0. }
    pose proof (nd_plug1 _ _ _ ND) as ND'.
    destruct (fcol fgg) eqn:Ec; cbn [is_red].
    + (* the great-grandparent is red: one more round *)
      destruct fgg as [c i e sib|c sib i e]; cbn [fcol fslot plug1] in *; subst c.
      * destruct (IH k s1 (T Red l g eg r) i e sib g L HC) as (s' & Hs' & HR); auto.
        { rewrite Hl'. exact HP. } { simpl. eauto. }
        exists s'. split; [exact Hs'|]. exact HR.
      * destruct (IH k s1 sib i e (T Red l g eg r) g R HC) as (s' & Hs' & HR); auto.
        { rewrite Hl'. exact HP. } { simpl. eauto. }
        exists s'. split; [exact Hs'|]. exact HR.
    + eexists; split; [reflexivity|].
      assert (E: climb (fgg :: k) (T Red l g eg r, NewRed) = (plug (fgg :: k) (T Red l g eg r), Ok)).
      { cbn [climb plug]. destruct fgg as [c i e sib|c sib i e]; cbn [fcol up1 up_left up_right fst snd plug1] in *;
          subst c; apply climb_ok. }
      rewrite E. cbn [finish_insert snd fst]. apply Rep_plug; cbn [RepC hole_link owner]; auto.
      cbn [hole_link] in Hl. rewrite Hl. exact Ht0.
Qed.

Lemma not_root_of s p x t n : Rep s p x t -> n <> EMPTY -> ~ In n (mslots t) -> N.eqb n x = false.
Proof.
  intros H Nn Hn. apply N.eqb_neq. intros ->. apply Hn. eapply Rep_root_in; eauto.
Qed.

Lemma black_uncle (u: mtree) : is_red_node u = false -> forall c l i e r, u = T c l i e r -> c = Black.
Proof. intros H c l i e r ->. destruct c; [discriminate|reflexivity]. Qed.

Theorem fix_spec : forall fuel, fix_goal fuel.
Proof.
  induction fuel as [|f IH]; intros k s a p ep b n d2 HC Ht Hn ND Hlen; [lia|].
  cbn [fix_insert].
  pose proof Ht as Ht0. apply Rep_inv_T in Ht. destruct Ht as (Hx & Np & Hpp & Hcp & Hep & Ha & Hb).
  destruct k as [|fg k]; cbn [owner] in *.
  - (* case 2: the parent is the root *)
    rewrite Hpp, N.eqb_refl. eexists; split; [reflexivity|]. cbn [climb finish_insert snd fst paint hole_link] in *.
    rewrite <- (paint_root p Black Red a ep b).
    replace (aroot (set_red s p false)) with p by (symmetry; exact Hx).
    apply (Rep_set_red _ _ _ _ p Black); [rewrite Hx in Ht0; exact Ht0|]. rewrite app_nil_r in ND. exact ND.
  - cbn [RepC] in HC. destruct HC as (HF & Hl' & HC).
    assert (Ng: fslot fg <> EMPTY) by (destruct fg; simpl in HF; tauto).
    rewrite Hpp. apply N.eqb_neq in Ng. rewrite Ng. apply N.eqb_neq in Ng.
    pose proof (nd_plug1 _ _ _ ND) as ND1.
    destruct (nd_split _ _ ND) as (NDt & NDk & Dtk).
    assert (HP: Rep s (owner k) (hole_link s k) (plug1 fg (T Red a p ep b))).
    { rewrite Hl'. apply Rep_plug1; auto. }
    assert (Nn: n <> EMPTY /\ In n (mslots (T Red a p ep b))).
    { destruct d2; destruct Hn as (t1 & en & t2 & ->).
      - apply Rep_inv_T in Ha. split; [tauto|]. slot_in.
      - apply Rep_inv_T in Hb. split; [tauto|]. slot_in. }
    destruct Nn as (Nn & Hnin).
    destruct fg as [cg g eg u|cg u g eg]; cbn [fslot flink hole_link plug1 RepF fslots fsib cslots] in *;
      destruct HF as (_ & Hpg & Hcg & Heg & Hu); unfold get_uncle; rewrite Hpp.
    + (* the parent is the left child of the grandparent *)
      rewrite Hx, N.eqb_refl. rewrite (uncle_test _ _ _ _ Hu).
      cbn [climb up1 up_left fst snd]. unfold fix_ins_left.
      destruct (is_red_node u) eqn:Eu.
      * (* case 3 *)
        destruct u as [|cu ul x eu ur]; [discriminate|]. destruct cu; [|discriminate].
        pose proof (Rep_inv_T _ _ _ _ _ _ _ _ Hu) as (Hux & _).
        pose proof HP as HPg. rewrite Hl' in HPg.
        destruct (recolor3 s k (T cg (T Red a p ep b) g eg (T Red ul x eu ur)) p g x HC Hl' HPg ND1)
          as (HC1 & Hl1 & HR1); try slot_in.
        rewrite Hux.
        assert (Ep: paint_slot x Black (paint_slot g Red (paint_slot p Black (T cg (T Red a p ep b) g eg (T Red ul x eu ur))))
                    = T Red (T Black a p ep b) g eg (T Black ul x eu ur)).
        { apply nd_split in ND1. destruct ND1 as (ND1 & _). rewrite (slots_T _ cg), (slots_T _ Red a p) in ND1. apply nd_shape1 in ND1.
          destruct ND1 as (_ & _ & NDu & Hpa & Hpb & Hpu & Hga & Hgb & Hgu & Ngp & Dab & Dau & Dbu).
          rewrite (paint_left p Black cg _ g eg _ Ngp Hpu), paint_root, paint_root.
          rewrite paint_right, paint_root; auto.
          - intros ->. apply Hgu. slot_in.
          - intros K. rewrite slots_T, in_app_iff in K. cbn [In] in K. destruct K as [K|[K|K]].
            + apply (Dau x); auto. slot_in.
            + apply Hpu. rewrite K. slot_in.
            + apply (Dbu x); auto. slot_in. }
        rewrite Ep in HR1.
        apply (case3_continue f _ k g _ eg _ IH HC1 Hl1 HR1).
        -- cbn [paint]. rewrite !slots_T in *. exact ND1.
        -- simpl in Hlen. lia.
      * (* cases 4a / 5a *)
        destruct d2; destruct Hn as (n1 & en & n2 & ->).
        -- (* 5a only *)
           rewrite (not_root_of _ _ _ _ n Hb Nn).
           2:{ rewrite !slots_T in NDt. apply nd_shape1 in NDt. unfold distinct5 in NDt. tauto. }
           destruct (rot_right_ctx s k cg Red (T Red n1 n en n2) p ep b g eg u HC HP ND1) as (HC2 & Hl2 & HR2).
           eexists; split; [reflexivity|].
           pose proof (recolor_finish _ k p _ p g HC2 Hl2 HR2) as Fin. cbv zeta in Fin.
           rewrite climb_ok. cbn [finish_insert snd fst].
           rewrite slots_rot in Fin. specialize (Fin ND1).
           assert (Ngp: p <> g /\ ~ In g (mslots (T Red n1 n en n2))).
           { apply nd_split in ND1. destruct ND1 as (ND1 & _). rewrite (slots_T _ cg), (slots_T _ Red _ p) in ND1.
             apply nd_shape1 in ND1. destruct ND1 as (_ & _ & _ & _ & _ & _ & Hga & _ & _ & Ngp & _). split; auto. }
           rewrite paint_root in Fin. rewrite paint_right, paint_root in Fin by tauto.
           apply Fin; slot_in.
        -- (* 4a then 5a *)
           pose proof (Rep_inv_T _ _ _ _ _ _ _ _ Hb) as (Hbn & _). rewrite Hbn, N.eqb_refl.
           destruct (rot_left_ctx s (FL cg g eg u :: k) Red Red n1 n en n2 p ep a) as (HC2 & Hl2 & HR2).
           { cbn [RepC RepF]. repeat split; auto. }
           { cbn [owner hole_link flink fslot]. exact Ht0. }
           { exact ND. }
           cbn [RepC owner hole_link flink fslot RepF] in HC2, Hl2, HR2.
           destruct HC2 as ((_ & Hpg2 & Hcg2 & Heg2 & Hu2) & Hl2' & HC2).
           set (s1 := rotate_left s p) in *.
           assert (HP2: Rep s1 (owner k) (hole_link s1 k) (T cg (T Red (T Red a p ep n1) n en n2) g eg u)).
           { rewrite Hl2'. constructor; auto. rewrite Hl2. exact HR2. }
           assert (ND2: NoDup (mslots (T cg (T Red (T Red a p ep n1) n en n2) g eg u) ++ cslots k)).
           { pose proof ND1 as X. rewrite (slots_T _ cg) in X |- *.
             rewrite <- (slots_rot Red Red a n1 n2 p ep n en). exact X. }
           destruct (rot_right_ctx s1 k cg Red (T Red a p ep n1) n en n2 g eg u HC2 HP2 ND2) as (HC3 & Hl3 & HR3).
           eexists; split; [reflexivity|].
           pose proof (recolor_finish _ k n _ n g HC3 Hl3 HR3) as Fin. cbv zeta in Fin.
           rewrite climb_ok. cbn [finish_insert snd fst].
           rewrite slots_rot in Fin. specialize (Fin ND2).
           assert (Ngn: n <> g /\ ~ In g (mslots (T Red a p ep n1))).
           { apply nd_split in ND2. destruct ND2 as (ND2 & _). rewrite (slots_T _ cg), (slots_T _ Red _ n) in ND2.
             apply nd_shape1 in ND2. destruct ND2 as (_ & _ & _ & _ & _ & _ & Hga & _ & _ & Ngp & _). split; auto. }
           rewrite paint_root in Fin. rewrite paint_right, paint_root in Fin by tauto.
           apply Fin; slot_in.
    + (* the parent is the right child of the grandparent *)
      assert (Nlp: N.eqb (lft (nodes s g)) p = false).
      { apply N.eqb_neq. intros K. destruct (N.eq_dec (lft (nodes s g)) EMPTY) as [E|E]; [congruence|].
        apply (Dtk p); [slot_in|]. right. apply in_or_app. left. rewrite <- K. eapply Rep_root_in; eauto. }
      rewrite Nlp. rewrite (uncle_test _ _ _ _ Hu). rewrite (N.eqb_sym p (lft (nodes s g))), Nlp.
      cbn [climb up1 up_right fst snd]. unfold fix_ins_right.
      destruct (is_red_node u) eqn:Eu.
      * (* case 3 *)
        destruct u as [|cu ul x eu ur]; [discriminate|]. destruct cu; [|discriminate].
        pose proof (Rep_inv_T _ _ _ _ _ _ _ _ Hu) as (Hux & _).
        pose proof HP as HPg. rewrite Hl' in HPg.
        destruct (recolor3 s k (T cg (T Red ul x eu ur) g eg (T Red a p ep b)) p g x HC Hl' HPg ND1)
          as (HC1 & Hl1 & HR1); try slot_in.
        rewrite Hux.
        assert (Ep: paint_slot x Black (paint_slot g Red (paint_slot p Black (T cg (T Red ul x eu ur) g eg (T Red a p ep b))))
                    = T Red (T Black ul x eu ur) g eg (T Black a p ep b)).
        { apply nd_split in ND1. destruct ND1 as (ND1 & _). rewrite (slots_T _ cg), (slots_T _ Red a p) in ND1. apply nd_shape2 in ND1.
          destruct ND1 as (_ & _ & NDu & Hpa & Hpb & Hpu & Hga & Hgb & Hgu & Ngp & Dab & Dau & Dbu).
          rewrite (paint_right p Black cg _ g eg _ Ngp Hpu), paint_root, paint_root.
          rewrite paint_left, paint_root; auto.
          - intros ->. apply Hgu. slot_in.
          - intros K. rewrite slots_T, in_app_iff in K. cbn [In] in K. destruct K as [K|[K|K]].
            + apply (Dau x); auto. slot_in.
            + apply Hpu. rewrite K. slot_in.
            + apply (Dbu x); auto. slot_in. }
        rewrite Ep in HR1.
        apply (case3_continue f _ k g _ eg _ IH HC1 Hl1 HR1).
        -- cbn [paint]. rewrite !slots_T in *. exact ND1.
        -- simpl in Hlen. lia.
      * (* cases 4b / 5b *)
        destruct d2; destruct Hn as (n1 & en & n2 & ->).
        -- (* 4b then 5b *)
           pose proof (Rep_inv_T _ _ _ _ _ _ _ _ Ha) as (Han & _). rewrite Han, N.eqb_refl.
           destruct (rot_right_ctx s (FR cg u g eg :: k) Red Red n1 n en n2 p ep b) as (HC2 & Hl2 & HR2).
           { cbn [RepC RepF]. repeat split; auto. }
           { cbn [owner hole_link flink fslot]. exact Ht0. }
           { exact ND. }
           cbn [RepC owner hole_link flink fslot RepF] in HC2, Hl2, HR2.
           destruct HC2 as ((_ & Hpg2 & Hcg2 & Heg2 & Hu2) & Hl2' & HC2).
           set (s1 := rotate_right s p) in *.
           assert (HP2: Rep s1 (owner k) (hole_link s1 k) (T cg u g eg (T Red n1 n en (T Red n2 p ep b)))).
           { rewrite Hl2'. constructor; auto. rewrite Hl2. exact HR2. }
           assert (ND2: NoDup (mslots (T cg u g eg (T Red n1 n en (T Red n2 p ep b))) ++ cslots k)).
           { pose proof ND1 as X. rewrite (slots_T _ cg) in X |- *.
             rewrite (slots_rot Red Red n1 n2 b n en p ep). exact X. }
           destruct (rot_left_ctx s1 k cg Red n1 n en (T Red n2 p ep b) g eg u HC2 HP2 ND2) as (HC3 & Hl3 & HR3).
           eexists; split; [reflexivity|].
           pose proof (recolor_finish _ k n _ n g HC3 Hl3 HR3) as Fin. cbv zeta in Fin.
           rewrite climb_ok. cbn [finish_insert snd fst].
           rewrite <- (slots_rot cg Red u n1 (T Red n2 p ep b) g eg n en) in Fin. specialize (Fin ND2).
           assert (Ngn: n <> g /\ ~ In g (mslots (T Red n2 p ep b))).
           { apply nd_split in ND2. destruct ND2 as (ND2 & _). rewrite (slots_T _ cg), (slots_T _ Red _ n) in ND2.
             apply nd_shape2 in ND2. destruct ND2 as (_ & _ & _ & _ & _ & _ & _ & Hgb & _ & Ngp & _). split; auto. }
           rewrite paint_root in Fin. rewrite paint_left, paint_root in Fin by tauto.
           apply Fin; slot_in.
        -- (* 5b only *)
           rewrite (not_root_of _ _ _ _ n Ha Nn).
           2:{ rewrite !slots_T in NDt. apply nd_shape2 in NDt.
               destruct NDt as (_ & _ & _ & _ & _ & Hna & _). exact Hna. }
           destruct (rot_left_ctx s k cg Red a p ep (T Red n1 n en n2) g eg u HC HP ND1) as (HC2 & Hl2 & HR2).
           eexists; split; [reflexivity|].
           pose proof (recolor_finish _ k p _ p g HC2 Hl2 HR2) as Fin. cbv zeta in Fin.
           rewrite climb_ok. cbn [finish_insert snd fst].
           rewrite <- (slots_rot cg Red u a (T Red n1 n en n2) g eg p ep) in Fin. specialize (Fin ND1).
           assert (Ngp: p <> g /\ ~ In g (mslots (T Red n1 n en n2))).
           { apply nd_split in ND1. destruct ND1 as (ND1 & _). rewrite (slots_T _ cg), (slots_T _ Red _ p) in ND1.
             apply nd_shape2 in ND1. destruct ND1 as (_ & _ & _ & _ & _ & _ & _ & Hgb & _ & Ngp & _). split; auto. }
           rewrite paint_root in Fin. rewrite paint_left, paint_root in Fin by tauto.
           apply Fin; slot_in.
Qed.

(** ** linking the new node, the descent, and the whole insertion *)
Notation height := (height ent).

Lemma link_left s k c i e0 r ni e :
  RepC s k -> Rep s (owner k) (hole_link s k) (T c E i e0 r) ->
  NoDup (mslots (T c E i e0 r) ++ cslots k) -> ~ In ni (mslots (T c E i e0 r) ++ cslots k) -> ni <> EMPTY ->
  let s1 := set_lft (insert_new s ni e i) i ni in
  RepC s1 k /\ hole_link s1 k = i /\ Rep s1 (owner k) i (T c (T Red E ni e E) i e0 r) /\
  red (nodes s1 i) = is_red c /\
  NoDup (mslots (T c (T Red E ni e E) i e0 r) ++ cslots k).
Proof.
  intros HC Ht ND Hni Nni s1. pose proof Hni as Hni0.
  apply Rep_inv_T in Ht. destruct Ht as (Hx & Ni & Hp & Hc & He & Hl & Hr).
  destruct (nd_split _ _ ND) as (NDt & NDk & Dtk).
  rewrite in_app_iff in Hni. rewrite slots_T in Hni, NDt. cbn [mslots app In] in Hni.
  assert (Nii: ni <> i) by (intros ->; apply Hni; left; slot_in).
  assert (S1i: nodes s1 i = with_lft (nodes s i) ni).
  { unfold s1, set_lft, insert_new. rewrite nodes_setn_same. rewrite nodes_setn_other by auto. reflexivity. }
  assert (S1n: nodes s1 ni = {| par := i; lft := EMPTY; rgt := EMPTY; red := true; aent := e |}).
  { unfold s1, set_lft, insert_new. rewrite nodes_setn_other by auto. rewrite nodes_setn_same. reflexivity. }
  assert (S1o: forall j, j <> i -> j <> ni -> nodes s1 j = nodes s j).
  { intros j J1 J2. unfold s1, set_lft, insert_new. rewrite !nodes_setn_other by auto. reflexivity. }
  destruct (RepC_frame s s1 k HC) as (HC1 & Hl1); auto.
  { intros j Hj. apply S1o.
    - intros ->. apply (Dtk i); auto. slot_in.
    - intros ->. apply Hni. right. exact Hj. }
  split; [exact HC1|]. split; [congruence|]. split; [|split].
  - constructor; rewrite ?S1i; cbn [par lft rgt red aent with_lft]; auto.
    + constructor; rewrite ?S1n; cbn [par lft rgt red aent]; auto; constructor.
    + eapply Rep_frame; [exact Hr|]. intros j Hj. apply S1o.
      * intros ->. simpl in NDt. apply NoDup_cons_iff in NDt. tauto.
      * intros ->. apply Hni. left. simpl. auto.
  - rewrite S1i. exact Hc.
  - assert (E1: mslots (T c (T Red E ni e E) i e0 r) = ni :: mslots (T c E i e0 r)) by reflexivity.
    rewrite E1. cbn [app]. constructor; [exact Hni0|exact ND].
Qed.

Lemma link_right s k c l i e0 ni e :
  RepC s k -> Rep s (owner k) (hole_link s k) (T c l i e0 E) ->
  NoDup (mslots (T c l i e0 E) ++ cslots k) -> ~ In ni (mslots (T c l i e0 E) ++ cslots k) -> ni <> EMPTY ->
  let s1 := set_rgt (insert_new s ni e i) i ni in
  RepC s1 k /\ hole_link s1 k = i /\ Rep s1 (owner k) i (T c l i e0 (T Red E ni e E)) /\
  red (nodes s1 i) = is_red c /\
  NoDup (mslots (T c l i e0 (T Red E ni e E)) ++ cslots k).
Proof.
  intros HC Ht ND Hni Nni s1. pose proof Hni as Hni0.
  apply Rep_inv_T in Ht. destruct Ht as (Hx & Ni & Hp & Hc & He & Hl & Hr).
  destruct (nd_split _ _ ND) as (NDt & NDk & Dtk).
  rewrite in_app_iff in Hni. rewrite slots_T in Hni, NDt.
  assert (Nii: ni <> i) by (intros ->; apply Hni; left; slot_in).
  assert (S1i: nodes s1 i = with_rgt (nodes s i) ni).
  { unfold s1, set_rgt, insert_new. rewrite nodes_setn_same. rewrite nodes_setn_other by auto. reflexivity. }
  assert (S1n: nodes s1 ni = {| par := i; lft := EMPTY; rgt := EMPTY; red := true; aent := e |}).
  { unfold s1, set_rgt, insert_new. rewrite nodes_setn_other by auto. rewrite nodes_setn_same. reflexivity. }
  assert (S1o: forall j, j <> i -> j <> ni -> nodes s1 j = nodes s j).
  { intros j J1 J2. unfold s1, set_rgt, insert_new. rewrite !nodes_setn_other by auto. reflexivity. }
  destruct (RepC_frame s s1 k HC) as (HC1 & Hl1); auto.
  { intros j Hj. apply S1o.
    - intros ->. apply (Dtk i); auto. slot_in.
    - intros ->. apply Hni. right. exact Hj. }
  split; [exact HC1|]. split; [congruence|]. split; [|split].
  - constructor; rewrite ?S1i; cbn [par lft rgt red aent with_rgt]; auto.
    + eapply Rep_frame; [exact Hl|]. intros j Hj. apply S1o.
      * intros ->. apply NoDup_app_iff in NDt. destruct NDt as (_ & _ & D). apply (D i); simpl; auto.
      * intros ->. apply Hni. left. apply in_or_app. auto.
    + constructor; rewrite ?S1n; cbn [par lft rgt red aent]; auto; constructor.
  - rewrite S1i. exact Hc.
  - eapply Permutation_NoDup; [|apply (NoDup_cons ni Hni0 ND)].
    rewrite !slots_T. change (mslots (T Red E ni e E)) with [ni]. change (mslots E) with (@nil N).
    rewrite app_comm_cons. apply Permutation_app_tail. rewrite Permutation_middle.
    apply Permutation_app_head. apply perm_swap.
Qed.

Lemma height_E_iff (t: mtree) : t <> E -> (1 <= height t)%nat.
Proof. destruct t; [congruence|]. simpl. lia. Qed.

(* only the descent looks inside an entity, through the key function *)
Variable key_of : ent -> Z.
Notation ins := (ins ent key_of).
Notation insert_tree := (insert_tree ent key_of).
Notation insert_descend := (insert_descend key_of).
Notation arena_insert := (arena_insert key_of).

Definition on_path (ne: ent) (f: frame) : Prop :=
  match f with
  | FL _ _ e _ => Z.ltb (key_of ne) (key_of e) = true
  | FR _ _ _ e => Z.ltb (key_of ne) (key_of e) = false
  end.

Lemma ins_plug1 f t ns ne : on_path ne f -> ins (plug1 f t) ns ne = up1 f (ins t ns ne).
Proof.
  destruct f as [c i e r|c l i e]; simpl; intros ->; destruct (ins t ns ne); reflexivity.
Qed.

Lemma ins_plug k : forall t ns ne, Forall (on_path ne) k -> ins (plug k t) ns ne = climb k (ins t ns ne).
Proof.
  induction k as [|f k IH]; intros t ns ne HP; simpl; [reflexivity|].
  inversion HP; subst. rewrite IH by assumption. rewrite ins_plug1 by assumption. reflexivity.
Qed.

Lemma descend_spec e ni s : ni <> EMPTY -> forall t k fuel,
  t <> E -> RepC s k -> Rep s (owner k) (hole_link s k) t -> Forall (on_path e) k ->
  NoDup (mslots t ++ cslots k) -> ~ In ni (mslots t ++ cslots k) ->
  (length k + 2 * height t + 2 <= fuel)%nat ->
  exists s', insert_descend fuel s (hole_link s k) ni e = Ret s' /\
             Rep s' EMPTY (aroot s') (finish_insert (climb k (ins t ni e))).
Proof.
  intros Nni. induction t as [|c l IHl i e0 r IHr]; intros k fuel Hne HC Ht HP ND Hni Hfuel; [congruence|].
  destruct fuel as [|f]; [lia|]. cbn [insert_descend].
  pose proof Ht as Ht0. apply Rep_inv_T in Ht. destruct Ht as (Hx & Ni & Hp & Hc & He & Hl & Hr).
  rewrite Hx, He. cbn [RBTree.ins]. cbn [height] in Hfuel.
  destruct (Z.ltb (key_of e) (key_of e0)) eqn:Hlt.
  - destruct (N.eqb_spec (lft (nodes s i)) EMPTY) as [El|Nl].
    + assert (l = E) by (apply (Rep_E_iff _ _ _ _ Hl); exact El). subst l.
      unfold insert_as_left.
      destruct (link_left s k c i e0 r ni e HC Ht0 ND Hni Nni) as (HC1 & Hl1 & HR1 & Hred & ND1).
      set (s1 := set_lft (insert_new s ni e i) i ni) in *. rewrite Hred.
      cbn [RBTree.ins up_left]. destruct c; cbn [is_red up_left].
      * assert (HR1': Rep s1 (owner k) (hole_link s1 k) (T Red (T Red E ni e E) i e0 r)) by (rewrite Hl1; exact HR1).
        apply (fix_spec f k s1 (T Red E ni e E) i e0 r ni L HC1 HR1'); [simpl; eauto|exact ND1|lia].
      * eexists; split; [reflexivity|]. rewrite climb_ok. cbn [finish_insert snd fst].
        apply Rep_plug; auto. rewrite Hl1. exact HR1.
    + assert (Hne': l <> E) by (intros ->; apply Nl; eapply Rep_inv_E; eauto).
      destruct (IHl (FL c i e0 r :: k) f Hne') as (s' & Hs' & HR').
      * cbn [RepC RepF owner]. repeat split; auto.
      * cbn [owner hole_link flink fslot]. exact Hl.
      * constructor; auto.
      * cbn [cslots fslots fslot fsib]. rewrite slots_T in ND. rewrite <- app_assoc in ND. exact ND.
      * cbn [cslots fslots fslot fsib]. rewrite slots_T in Hni. rewrite <- app_assoc in Hni. exact Hni.
      * cbn [length]. lia.
      * cbn [hole_link flink] in Hs'. exists s'. split; [exact Hs'|].
        cbn [climb up1] in HR'. destruct (RBTree.ins ent key_of l ni e) as (l' & st). exact HR'.
  - destruct (N.eqb_spec (rgt (nodes s i)) EMPTY) as [Er|Nr].
    + assert (r = E) by (apply (Rep_E_iff _ _ _ _ Hr); exact Er). subst r.
      unfold insert_as_right.
      destruct (link_right s k c l i e0 ni e HC Ht0 ND Hni Nni) as (HC1 & Hl1 & HR1 & Hred & ND1).
      set (s1 := set_rgt (insert_new s ni e i) i ni) in *. rewrite Hred.
      cbn [RBTree.ins up_right]. destruct c; cbn [is_red up_right].
      * assert (HR1': Rep s1 (owner k) (hole_link s1 k) (T Red l i e0 (T Red E ni e E))) by (rewrite Hl1; exact HR1).
        apply (fix_spec f k s1 l i e0 (T Red E ni e E) ni R HC1 HR1'); [simpl; eauto|exact ND1|lia].
      * eexists; split; [reflexivity|]. rewrite climb_ok. cbn [finish_insert snd fst].
        apply Rep_plug; auto. rewrite Hl1. exact HR1.
    + assert (Hne': r <> E) by (intros ->; apply Nr; eapply Rep_inv_E; eauto).
      destruct (IHr (FR c l i e0 :: k) f Hne') as (s' & Hs' & HR').
      * cbn [RepC RepF owner]. repeat split; auto.
      * cbn [owner hole_link flink fslot]. exact Hr.
      * constructor; auto.
      * cbn [cslots fslots fslot fsib]. eapply Permutation_NoDup; [|exact ND]. rewrite slots_T.
        transitivity ((mslots r ++ i :: mslots l) ++ cslots k); [apply Permutation_app_tail|rewrite <- app_assoc; reflexivity].
        rewrite <- !Permutation_middle. constructor. apply Permutation_app_comm.
      * intros K. apply Hni. rewrite slots_T. cbn [cslots] in K. unfold fslots in K. cbn [fslot fsib] in K.
        repeat (rewrite ?in_app_iff in K |- *; cbn [In] in K |- *). tauto.
      * cbn [length]. lia.
      * cbn [hole_link flink] in Hs'. exists s'. split; [exact Hs'|].
        cbn [climb up1] in HR'. destruct (RBTree.ins ent key_of r ni e) as (r' & st). exact HR'.
Qed.

(** ** the theorem *)
Theorem arena_insert_refines s t ni e fuel :
  Rep s EMPTY (aroot s) t -> NoDup (mslots t) -> ~ In ni (mslots t) -> ni <> EMPTY ->
  (2 * height t + 2 <= fuel)%nat ->
  exists s', arena_insert fuel s ni e = Ret s' /\ Rep s' EMPTY (aroot s') (insert_tree t ni e).
Proof.
  intros Ht ND Hni Nni Hfuel. unfold arena_insert.
  destruct t as [|c l i e0 r].
  - apply Rep_inv_E in Ht. rewrite Ht, N.eqb_refl. eexists; split; [reflexivity|].
    unfold insert_root. cbn [RBTree.insert_tree aroot set_root].
    constructor; cbn [nodes set_root]; rewrite ?nodes_setn_same; cbn [par lft rgt red aent]; auto; constructor.
  - pose proof (Rep_inv_T _ _ _ _ _ _ _ _ Ht) as (Hx & Ni & _).
    rewrite Hx. apply N.eqb_neq in Ni. rewrite Ni.
    assert (ND': NoDup (mslots (T c l i e0 r) ++ cslots [])) by (cbn [cslots]; rewrite app_nil_r; exact ND).
    assert (Hni': ~ In ni (mslots (T c l i e0 r) ++ cslots [])) by (cbn [cslots]; rewrite app_nil_r; exact Hni).
    assert (Hne: T c l i e0 r <> E) by discriminate.
    assert (Hf: (length (@nil frame) + 2 * height (T c l i e0 r) + 2 <= fuel)%nat) by (cbn [length]; lia).
    destruct (descend_spec e ni s Nni (T c l i e0 r) [] fuel Hne I Ht (Forall_nil _) ND' Hni' Hf) as (s' & Hs' & HR').
    cbn [hole_link] in Hs'. rewrite Hx in Hs'. exists s'. split; [exact Hs'|]. exact HR'.
Qed.

(** ** reading the tree back: the Gallina twin of the harness's snapshot function
    (harness/src/exec.rs, tree_snapshot: follow the links from the root, check every parent link) *)
Definition col_of (b: bool) : color := if b then Red else Black.

Fixpoint read_tree (fuel: nat) (s: astate) (p x: N) : option mtree :=
  match fuel with
  | O => None
  | S f =>
    if N.eqb x EMPTY then Some E
    else
      let n := nodes s x in
      if N.eqb (par n) p then
        match read_tree f s x (lft n), read_tree f s x (rgt n) with
        | Some l, Some r => Some (T (col_of (red n)) l x (aent n) r)
        | _, _ => None
        end
      else None
  end.

Lemma is_red_col_of b : is_red (col_of b) = b.
Proof. destruct b; reflexivity. Qed.
Lemma col_of_is_red c : col_of (is_red c) = c.
Proof. destruct c; reflexivity. Qed.

Lemma read_tree_sound fuel s : forall p x t, read_tree fuel s p x = Some t -> Rep s p x t.
Proof.
  induction fuel as [|f IH]; intros p x t H; [discriminate|]. cbn [read_tree] in H.
  destruct (N.eqb_spec x EMPTY) as [->|Nx]; [inversion H; constructor|].
  destruct (N.eqb_spec (par (nodes s x)) p) as [Hp|]; [|discriminate].
  destruct (read_tree f s x (lft (nodes s x))) as [l|] eqn:El; [|discriminate].
  destruct (read_tree f s x (rgt (nodes s x))) as [r|] eqn:Er; [|discriminate].
  inversion H; subst. constructor; auto. symmetry. apply is_red_col_of.
Qed.

Lemma read_tree_complete s p x t : Rep s p x t -> forall fuel, (height t < fuel)%nat -> read_tree fuel s p x = Some t.
Proof.
  induction 1 as [p|p i c l e r Hi Hp Hc He Hl IHl Hr IHr]; intros fuel Hf; (destruct fuel as [|f]; [lia|]); cbn [read_tree].
  - rewrite N.eqb_refl. reflexivity.
  - apply N.eqb_neq in Hi. rewrite Hi, Hp, N.eqb_refl. cbn [RBTree.height] in Hf.
    rewrite IHl, IHr by lia. rewrite Hc, He, col_of_is_red. reflexivity.
Qed.

End ArenaProofs.

(* the tactics again, for the files that build on this one (Ltac definitions do not survive the section) *)
Ltac neq_simpl :=
  repeat match goal with
  | |- context [N.eqb ?a ?a] => rewrite (N.eqb_refl a)
  | H: ?a <> ?b |- context [N.eqb ?a ?b] => rewrite (proj2 (N.eqb_neq a b) H)
  | H: ?b <> ?a |- context [N.eqb ?a ?b] => rewrite (proj2 (N.eqb_neq a b) (not_eq_sym H))
  end.

Ltac arena_eval :=
  repeat (rewrite ?nodes_set_par, ?nodes_set_lft, ?nodes_set_rgt, ?nodes_set_red, ?nodes_set_root; neq_simpl;
          cbn [par lft rgt red aent with_par with_lft with_rgt with_red aroot set_root set_par set_lft set_rgt set_red setn]).

Ltac nd_norm :=
  repeat (rewrite ?slots_T, ?NoDup_app_iff, ?NoDup_cons_iff, ?in_app_iff in *; cbn [In] in *);
  repeat match goal with H: context [In _ (_ ++ _)] |- _ => setoid_rewrite in_app_iff in H end;
  cbn [In] in *.

Ltac slot_in := repeat (rewrite ?slots_T, ?in_app_iff; cbn [In]); tauto.
