(** * KeyExpList (Model/ListModel.v, [kl_step]) refines the bag semantics of Spec.v. *)
From Coq Require Import List NArith ZArith Bool Lia Permutation Sorted.
Import ListNotations.
Require Import ITree.Model.Common ITree.Model.MapModel ITree.Model.KeyModel ITree.Model.ListModel.
Require Import ITree.Spec.Spec ITree.Proofs.ListGen.
Local Open Scope Z_scope.

Notation ksorted := (sorted kent kk).
Notation kone_eq := (one_eq kent kk).

(** ** the reference queries are instances of the generic ones *)
Lemma kbest_gmax ok b : kbest ok b = gmax kent kk ok b.
Proof. reflexivity. Qed.

Lemma ref_less_eq_by_gpred b t f :
  ref_less_eq_by b t f = option_map kval (gpred_by kent kk f (alive t b)).
Proof.
  unfold ref_less_eq_by, gpred_by.
  change (fun e : kent => match f (kk e) with Eq => true | _ => false end)
    with (fun e : kent => isEq (f (kk e))).
  destruct (find (fun e => isEq (f (kk e))) (alive t b)); reflexivity.
Qed.

(** ** ordered export: insertion sort yields the strictly sorted permutation *)
Lemma kinsert_sorted_perm e l : Permutation (e :: l) (kinsert_sorted e l).
Proof.
  induction l as [|x l IH]; simpl; [apply Permutation_refl|].
  destruct (Z.ltb (kk e) (kk x)); [apply Permutation_refl|].
  eapply perm_trans; [apply perm_swap|]. apply perm_skip. exact IH.
Qed.

Lemma ksort_perm l : Permutation l (ksort l).
Proof.
  induction l as [|x l IH]; simpl; [constructor|].
  eapply perm_trans; [apply perm_skip; exact IH|]. apply kinsert_sorted_perm.
Qed.

Lemma kinsert_sorted_sorted e l :
  ksorted l -> ~ In (kk e) (map kk l) -> ksorted (kinsert_sorted e l).
Proof.
  induction l as [|x l IH]; intros S Hn; simpl.
  - apply sorted_cons_iff. split; [apply sorted_nil|constructor].
  - destruct (Z.ltb_spec (kk e) (kk x)) as [H|H].
    + apply sorted_cons_iff. split; auto. constructor; auto.
      apply sorted_cons_iff in S. destruct S as [_ S2].
      eapply Forall_impl; [|exact S2]. intros a Ha. simpl in Ha. lia.
    + assert (kk x <> kk e) by (intro K; apply Hn; simpl; left; auto).
      pose proof S as S0. apply sorted_cons_iff in S. destruct S as [S1 S2].
      apply sorted_cons_iff. split.
      * apply IH; auto. intro K. apply Hn. simpl. right. auto.
      * eapply Permutation_Forall; [apply kinsert_sorted_perm|]. constructor; auto. lia.
Qed.

Lemma ksort_sorted l : NoDup (map kk l) -> ksorted (ksort l).
Proof.
  induction l as [|x l IH]; intro ND; simpl; [apply sorted_nil|].
  inversion ND as [|? ? Hn ND']; subst. apply kinsert_sorted_sorted; auto.
  intro K. apply Hn. eapply Permutation_in; [|exact K].
  apply Permutation_map. apply Permutation_sym. apply ksort_perm.
Qed.

Lemma ksort_unique l l' : ksorted l -> Permutation l' l -> ksort l' = l.
Proof.
  intros S P. apply (sorted_perm_unique kent kk); auto.
  - apply ksort_sorted. eapply Permutation_NoDup; [apply Permutation_map; apply Permutation_sym; exact P|].
    apply (sorted_NoDup kent kk). exact S.
  - eapply perm_trans; [apply Permutation_sym; apply ksort_perm | exact P].
Qed.

Section KL.
Variable max_exp : Z.

Notation kl_new := (kl_new max_exp).
Notation kl_clear_expired := (kl_clear_expired max_exp).
Notation kl_insert := (kl_insert max_exp).
Notation kl_get := (kl_get max_exp).
Notation kl_first_less := (kl_first_less max_exp).
Notation kl_first_less_or_equal_by := (kl_first_less_or_equal_by max_exp).
Notation kl_export := (kl_export max_exp).
Notation kl_step := (kl_step max_exp).
Notation kl_run := (kl_run max_exp).

(** ** the cached minimum is a lower bound of the stored expirations *)
Definition min_ok (s: klstate) : Prop := forall e, In e (kbuf s) -> kmin s <= kexp e.

Lemma fold_min_le b : forall init,
  fold_left (fun m e => Z.min m (kexp e)) b init <= init /\
  forall e, In e b -> fold_left (fun m e => Z.min m (kexp e)) b init <= kexp e.
Proof.
  induction b as [|x b IH]; intro init; simpl.
  - split; [lia|]. intros e [].
  - destruct (IH (Z.min init (kexp x))) as [H1 H2]. split; [lia|].
    intros e [He|He]; [subst; lia|]. auto.
Qed.

Lemma clear_expired_buf s t :
  min_ok s -> kbuf (kl_clear_expired s t) = filter (live t) (kbuf s).
Proof.
  intro MO. unfold ListModel.kl_clear_expired. destruct (Z.ltb_spec t (kmin s)) as [H|H].
  - symmetry. apply filter_id. intros e He. specialize (MO e He). unfold live.
    apply Z.ltb_lt. lia.
  - reflexivity.
Qed.

Lemma clear_expired_min_ok s t : min_ok s -> min_ok (kl_clear_expired s t).
Proof.
  intro MO. unfold ListModel.kl_clear_expired. destruct (Z.ltb t (kmin s)); auto.
  intros e He. simpl in *. apply fold_min_le. exact He.
Qed.

Lemma insert_min_ok s ne t : min_ok s -> min_ok (kl_insert s ne t).
Proof.
  intro MO. pose proof (clear_expired_min_ok s t MO) as M1.
  unfold ListModel.kl_insert. intros e He. simpl in *.
  apply (Permutation_in _ (Permutation_sym (l_insert_perm kent kk ne _))) in He.
  destruct He as [He|He]; [subst; lia|]. specialize (M1 e He). lia.
Qed.

Lemma kl_step_state s o :
  fst (kl_step s o) =
  match o with
  | KIns k e v t => kl_insert s {| kk := k; kexp := e; kval := v |} t
  | KLess t _ | KLessEq t _ | KLessEqBy t _ | KGet t _ => kl_clear_expired s t
  | KIsEmpty | KExport _ => s
  | KClear => kl_new
  end.
Proof. destruct o; reflexivity. Qed.

Lemma step_min_ok s o : min_ok s -> min_ok (fst (kl_step s o)).
Proof.
  intro MO. rewrite kl_step_state. destruct o; auto using insert_min_ok, clear_expired_min_ok.
  intros e [].
Qed.

Lemma kl_run_cons s o h :
  kl_run s (o :: h) =
  (fst (kl_run (fst (kl_step s o)) h), snd (kl_step s o) :: snd (kl_run (fst (kl_step s o)) h)).
Proof.
  simpl. destruct (kl_step s o) as [s1 out]. simpl.
  destruct (ListModel.kl_run max_exp s1 h) as [s2 outs]. reflexivity.
Qed.

Lemma run_min_ok h : forall s, min_ok s -> min_ok (fst (kl_run s h)).
Proof.
  induction h as [|o h IH]; intros s MO; [exact MO|].
  rewrite kl_run_cons. simpl. apply IH. apply step_min_ok. exact MO.
Qed.

(* every state reachable from the empty collection, by ANY history *)
Theorem min_exp_reachable h e :
  let s := fst (kl_run kl_new h) in In e (kbuf s) -> kmin s <= kexp e.
Proof. intro s. apply (run_min_ok h kl_new). intros x []. Qed.

(* hence the skipped purge hides nothing *)
Lemma shortcut_all_live s t :
  min_ok s -> t < kmin s -> forall e, In e (kbuf s) -> live t e = true.
Proof. intros MO H e He. specialize (MO e He). unfold live. apply Z.ltb_lt. lia. Qed.

Lemma clear_expired_sorted s t :
  min_ok s -> ksorted (kbuf s) -> ksorted (kbuf (kl_clear_expired s t)).
Proof. intros MO S. rewrite clear_expired_buf; auto. apply sorted_filter. exact S. Qed.

(** ** the refinement relation.
    [b] = every entry inserted since the last clear; [now] = the latest time passed in since the
    last clear ([None]: none yet).  The buffer is the bag minus some entries that had expired
    when they were purged. *)
Definition expired_by (now: option Z) (e: kent) : Prop :=
  match now with Some n => kexp e <= n | None => False end.
Definition time_ok (now: option Z) (t: Z) : Prop :=
  match now with Some n => n <= t | None => True end.

Definition RK (s: klstate) (b: bag) (now: option Z) : Prop :=
  ksorted (kbuf s) /\ min_ok s /\
  exists dead, Permutation b (kbuf s ++ dead) /\ Forall (expired_by now) dead.

Lemma RK_new now : RK kl_new [] now.
Proof.
  split; [apply sorted_nil|]. split; [intros e []|]. exists []. split; constructor.
Qed.

(* the form suggested in the task follows *)
Lemma RK_incl s b now : RK s b now -> incl (kbuf s) b.
Proof.
  intros [_ [_ [dead [P _]]]] e He. eapply Permutation_in; [apply Permutation_sym; exact P|].
  apply in_or_app. left. exact He.
Qed.

Lemma RK_live_stored s b now t e :
  RK s b now -> time_ok now t -> In e b -> kexp e > t -> In e (kbuf s).
Proof.
  intros [_ [_ [dead [P D]]]] T He Hl. apply (Permutation_in _ P) in He.
  apply in_app_or in He. destruct He as [He|He]; auto.
  rewrite Forall_forall in D. specialize (D e He). destruct now as [n|]; simpl in *; [lia|tauto].
Qed.

Lemma alive_dead now t dead :
  time_ok now t -> Forall (expired_by now) dead -> alive t dead = [].
Proof.
  intros T D. induction dead as [|x d IH]; [reflexivity|]. inversion D as [|? ? Hx Hd]; subst.
  unfold alive in *. simpl. rewrite (IH Hd).
  assert (live t x = false); [|rewrite H; reflexivity].
  unfold live. apply Z.ltb_ge. destruct now as [n|]; simpl in *; [lia|tauto].
Qed.

(* a query at time t: the purge (done or skipped) leaves exactly the live part of the bag *)
Lemma RK_query s b now t :
  RK s b now -> time_ok now t ->
  RK (kl_clear_expired s t) b (Some t) /\
  kbuf (kl_clear_expired s t) = filter (live t) (kbuf s) /\
  Permutation (alive t b) (kbuf (kl_clear_expired s t)).
Proof.
  intros [S [MO [dead [P D]]]] T.
  pose proof (clear_expired_buf s t MO) as B. split; [|split]; auto.
  - split; [apply clear_expired_sorted; auto|]. split; [apply clear_expired_min_ok; auto|].
    exists (filter (fun e => negb (live t e)) (kbuf s) ++ dead). rewrite B. split.
    + eapply perm_trans; [exact P|]. rewrite app_assoc. apply Permutation_app_tail.
      apply filter_partition_perm.
    + apply Forall_app. split.
      * apply Forall_forall. intros e He. apply filter_In in He. destruct He as [_ He].
        apply negb_true_iff in He. unfold live in He. apply Z.ltb_ge in He. exact He.
      * eapply Forall_impl; [|exact D]. intros e He.
        destruct now as [n|]; simpl in *; [lia|tauto].
  - rewrite B. unfold alive.
    eapply perm_trans; [apply Permutation_filter; exact P|].
    rewrite filter_app. fold (alive t dead). rewrite (alive_dead now t dead T D).
    rewrite app_nil_r. apply Permutation_refl.
Qed.

Lemma RK_later s b now t : RK s b now -> time_ok now t -> RK s b (Some t).
Proof.
  intros [S [MO [dead [P D]]]] T. split; auto. split; auto. exists dead. split; auto.
  eapply Forall_impl; [|exact D]. intros e He. destruct now as [n|]; simpl in *; [lia|tauto].
Qed.

(* insertion of a key that no live entry of the bag carries *)
Definition fresh_key (b: bag) (t k: Z) : Prop :=
  forall x, In x b -> kk x = k -> kexp x <= t.

Lemma RK_insert s b now ne t :
  RK s b now -> time_ok now t -> fresh_key b t (kk ne) ->
  RK (kl_insert s ne t) (ne :: b) (Some t).
Proof.
  intros HR T F. destruct (RK_query s b now t HR T) as [[S1 [MO1 [dead [P1 D1]]]] [B1 A1]].
  split; [|split].
  - unfold ListModel.kl_insert. simpl. apply l_insert_sorted; auto.
    intro Hin. apply in_map_iff in Hin. destruct Hin as [x [Hk Hx]].
    apply (Permutation_in _ (Permutation_sym A1)) in Hx. unfold alive in Hx.
    apply filter_In in Hx. destruct Hx as [Hx Hl]. specialize (F x Hx Hk).
    unfold live in Hl. apply Z.ltb_lt in Hl. lia.
  - apply insert_min_ok. destruct HR as [_ [MO _]]. exact MO.
  - exists dead. split; auto. unfold ListModel.kl_insert. simpl.
    eapply perm_trans; [apply perm_skip; exact P1|].
    change (ne :: kbuf (kl_clear_expired s t) ++ dead)
      with ((ne :: kbuf (kl_clear_expired s t)) ++ dead).
    apply Permutation_app_tail. apply l_insert_perm.
Qed.

(** ** queries *)
Lemma RK_get s b now t q :
  RK s b now -> time_ok now t -> snd (kl_get s t q) = ref_get b t q.
Proof.
  intros HR T. destruct (RK_query s b now t HR T) as [[S1 _] [_ A1]].
  unfold ListModel.kl_get, ref_get. simpl. f_equal.
  rewrite (l_get_find kent kk q _ S1). symmetry.
  apply find_key_perm; auto. eapply key_inj_perm; [apply Permutation_sym; exact A1|].
  apply sorted_key_inj. exact S1.
Qed.

Lemma alive_key_inj s b now t :
  RK s b now -> time_ok now t -> key_inj kent kk (alive t b).
Proof.
  intros HR T. destruct (RK_query s b now t HR T) as [[S1 _] [_ A1]].
  eapply key_inj_perm; [apply Permutation_sym; exact A1|]. apply sorted_key_inj. exact S1.
Qed.

Lemma option_map_prev (l: list kent) i :
  match i with O => None | S j => option_map kval (nth_error l j) end =
  option_map kval (prev_of kent l i).
Proof. destruct i; reflexivity. Qed.

Lemma RK_first_less s b now t q :
  RK s b now -> time_ok now t -> snd (kl_first_less s t q) = ref_less b t q.
Proof.
  intros HR T. pose proof (alive_key_inj s b now t HR T) as K.
  destruct (RK_query s b now t HR T) as [[S1 _] [_ A1]].
  unfold ListModel.kl_first_less, ref_less. simpl. rewrite option_map_prev. f_equal.
  rewrite (bsearch_lt_best kent kk (cmp_to q) _ S1 (monotone_cmp_to q)).
  change kbest with (gmax kent kk). rewrite (gmax_perm kent kk _ _ _ A1 K).
  apply gmax_ext. intros e _. apply isLt_cmp_to.
Qed.

Lemma kl_first_by_eq s t f :
  snd (kl_first_less_or_equal_by s t f) =
  option_map kval (entry_of kent (kbuf (kl_clear_expired s t))
                            (l_first_by kent kk (kbuf (kl_clear_expired s t)) f)).
Proof.
  unfold ListModel.kl_first_less_or_equal_by. simpl.
  destruct (l_first_by kent kk (kbuf (kl_clear_expired s t)) f); reflexivity.
Qed.

Lemma RK_first_less_or_equal_by s b now t f :
  RK s b now -> time_ok now t -> monotone f -> kone_eq f (alive t b) ->
  snd (kl_first_less_or_equal_by s t f) = ref_less_eq_by b t f.
Proof.
  intros HR T M O. pose proof (alive_key_inj s b now t HR T) as K.
  destruct (RK_query s b now t HR T) as [[S1 _] [_ A1]].
  rewrite kl_first_by_eq. rewrite ref_less_eq_by_gpred. f_equal.
  rewrite (l_first_by_spec kent kk f _ S1 M). symmetry. apply gpred_by_perm; auto.
Qed.

Lemma ref_less_eq_as_by b t q :
  key_inj kent kk (alive t b) -> ref_less_eq_by b t (cmp_to q) = ref_less_eq b t q.
Proof.
  intro K. rewrite ref_less_eq_by_gpred. unfold ref_less_eq. f_equal.
  change kbest with (gmax kent kk). apply gpred_by_cmp_to. exact K.
Qed.

Lemma RK_first_less_or_equal s b now t q :
  RK s b now -> time_ok now t ->
  snd (kl_first_less_or_equal_by s t (cmp_to q)) = ref_less_eq b t q.
Proof.
  intros HR T. rewrite <- ref_less_eq_as_by; [|eapply alive_key_inj; eauto].
  eapply RK_first_less_or_equal_by; eauto.
  - apply monotone_cmp_to.
  - apply one_eq_cmp_to.
Qed.

Lemma RK_export s b now t :
  RK s b now -> time_ok now t -> kl_export s t = ref_export b t.
Proof.
  intros HR T. destruct (RK_query s b now t HR T) as [[S1 _] [_ A1]].
  unfold ListModel.kl_export, ref_export. f_equal. symmetry. apply ksort_unique; auto.
Qed.

Lemma query_state_fst s t q f :
  fst (kl_get s t q) = kl_clear_expired s t /\
  fst (kl_first_less s t q) = kl_clear_expired s t /\
  fst (kl_first_less_or_equal_by s t f) = kl_clear_expired s t.
Proof. repeat split. Qed.

(** is_empty looks at the buffer, purged or not: it is specified by two implications only *)
Lemma RK_is_empty s b now :
  RK s b now ->
  (b = [] -> kbuf s = []) /\
  (kbuf s = [] -> forall t, time_ok now t -> alive t b = []).
Proof.
  intros HR. split.
  - intro Hb. pose proof (RK_incl s b now HR) as I. subst b.
    destruct (kbuf s) as [|x l]; auto. destruct (I x (or_introl eq_refl)).
  - intros Hs t T. destruct (RK_query s b now t HR T) as [_ [B A1]].
    rewrite B, Hs in A1. simpl in A1. apply Permutation_nil. apply Permutation_sym. exact A1.
Qed.

(** ** histories *)
Definition kspec := (bag * option Z)%type.

Definition kr_step (st: kspec) (o: kop) : kspec * kout :=
  let '(b, now) := st in
  match o with
  | KIns k e v t => (({| kk := k; kexp := e; kval := v |} :: b, Some t), KONone)
  | KLess t q => ((b, Some t), KOVal (ref_less b t q))
  | KLessEq t q => ((b, Some t), KOVal (ref_less_eq b t q))
  | KLessEqBy t f => ((b, Some t), KOVal (ref_less_eq_by b t f))
  | KGet t q => ((b, Some t), KOVal (ref_get b t q))
  | KIsEmpty => ((b, now), KOBool (match b with [] => true | _ => false end))
  | KClear => (([], None), KONone)
  | KExport t => ((b, Some t), KOList (ref_export b t))
  end.

(* the contract: times do not decrease between clears; a key is inserted only when no entry of
   the bag with that key is live; comparators are monotone with at most one live Eq key *)
Definition kvalid (st: kspec) (o: kop) : Prop :=
  let '(b, now) := st in
  match o with
  | KIns k e v t => time_ok now t /\ fresh_key b t k
  | KLess t _ | KLessEq t _ | KGet t _ | KExport t => time_ok now t
  | KLessEqBy t f => time_ok now t /\ monotone f /\ kone_eq f (alive t b)
  | KIsEmpty | KClear => True
  end.

(* agreement of one output with the reference: equality, except for is_empty *)
Definition kobs_ok (st: kspec) (o: kop) (out: kout) : Prop :=
  match o with
  | KIsEmpty =>
    exists r, out = KOBool r /\
      (fst st = [] -> r = true) /\
      (r = true -> forall t, time_ok (snd st) t -> alive t (fst st) = [])
  | _ => out = snd (kr_step st o)
  end.

Fixpoint kvalid_hist (st: kspec) (h: list kop) : Prop :=
  match h with
  | [] => True
  | o :: h' => kvalid st o /\ kvalid_hist (fst (kr_step st o)) h'
  end.

Fixpoint kobs_run (st: kspec) (h: list kop) (outs: list kout) : Prop :=
  match h, outs with
  | [], [] => True
  | o :: h', out :: outs' => kobs_ok st o out /\ kobs_run (fst (kr_step st o)) h' outs'
  | _, _ => False
  end.

Lemma kl_step_refines s b now o :
  RK s b now -> kvalid (b, now) o ->
  kobs_ok (b, now) o (snd (kl_step s o)) /\
  RK (fst (kl_step s o)) (fst (fst (kr_step (b, now) o))) (snd (fst (kr_step (b, now) o))).
Proof.
  intros HR V. rewrite kl_step_state. destruct o as [k e v t|t q|t q|t f|t q| | |t]; simpl in V.
  - destruct V as [T F]. split; [reflexivity|]. cbn [kr_step fst snd].
    apply (RK_insert s b now {| kk := k; kexp := e; kval := v |} t HR T F).
  - split; [|simpl; apply (RK_query s b now t HR V)].
    unfold kobs_ok. simpl. f_equal. apply (RK_first_less s b now t q HR V).
  - split; [|simpl; apply (RK_query s b now t HR V)].
    unfold kobs_ok. simpl. f_equal. apply (RK_first_less_or_equal s b now t q HR V).
  - destruct V as [T [M O]]. split; [|simpl; apply (RK_query s b now t HR T)].
    unfold kobs_ok. simpl. f_equal. apply (RK_first_less_or_equal_by s b now t f HR T M O).
  - split; [|simpl; apply (RK_query s b now t HR V)].
    unfold kobs_ok. simpl. f_equal. apply (RK_get s b now t q HR V).
  - split; [|simpl; exact HR]. destruct (RK_is_empty s b now HR) as [E1 E2].
    unfold kobs_ok. simpl. eexists. split; [reflexivity|]. split.
    + intro Hb. rewrite (E1 Hb). reflexivity.
    + intro Hr. apply E2. destruct (kbuf s); [reflexivity|discriminate].
  - split; [reflexivity|]. simpl. apply RK_new.
  - split; [|simpl; apply (RK_later s b now t HR V)].
    unfold kobs_ok. simpl. f_equal. apply (RK_export s b now t HR V).
Qed.

Lemma kl_run_refines h : forall s b now,
  RK s b now -> kvalid_hist (b, now) h -> kobs_run (b, now) h (snd (kl_run s h)).
Proof.
  induction h as [|o h IH]; intros s b now HR V; [exact I|].
  destruct V as [V1 V2]. destruct (kl_step_refines s b now o HR V1) as [O1 R1].
  rewrite kl_run_cons. cbn [snd kobs_run]. split; [exact O1|].
  destruct (fst (kr_step (b, now) o)) as [b1 now1] eqn:E. simpl in R1. apply IH; auto.
Qed.

Theorem keylist_refines h :
  kvalid_hist ([], None) h -> kobs_run ([], None) h (snd (kl_run kl_new h)).
Proof. apply kl_run_refines. apply RK_new. Qed.

(* reachable states under the contract satisfy RK (in particular: sorted) *)
Lemma kl_run_RK h : forall s b now,
  RK s b now -> kvalid_hist (b, now) h ->
  exists b' now', RK (fst (kl_run s h)) b' now'.
Proof.
  induction h as [|o h IH]; intros s b now HR V; [exists b, now; exact HR|].
  destruct V as [V1 V2]. destruct (kl_step_refines s b now o HR V1) as [_ R1].
  rewrite kl_run_cons. cbn [fst].
  destruct (fst (kr_step (b, now) o)) as [b1 now1] eqn:E. simpl in R1. eapply IH; eauto.
Qed.

End KL.

(** the reference state after a history, and the invariant along valid histories *)
Definition kr_state (st: kspec) (h: list kop) : kspec :=
  fold_left (fun st o => fst (kr_step st o)) h st.

Lemma kl_run_invariant max_exp h : forall s b now,
  RK s b now -> kvalid_hist (b, now) h ->
  RK (fst (kl_run max_exp s h)) (fst (kr_state (b, now) h)) (snd (kr_state (b, now) h)).
Proof.
  induction h as [|o h IH]; intros s b now HR V; [exact HR|].
  destruct V as [V1 V2]. destruct (kl_step_refines max_exp s b now o HR V1) as [_ R1].
  rewrite kl_run_cons. cbn [fst kr_state fold_left].
  destruct (fst (kr_step (b, now) o)) as [b1 now1] eqn:E. simpl in R1. apply IH; auto.
Qed.

Theorem keylist_invariant max_exp h :
  kvalid_hist ([], None) h ->
  let s := fst (kl_run max_exp (kl_new max_exp) h) in
  let st := kr_state ([], None) h in
  ksorted (kbuf s) /\ incl (kbuf s) (fst st) /\
  (forall t e, time_ok (snd st) t -> In e (fst st) -> kexp e > t -> In e (kbuf s)) /\
  (forall t, time_ok (snd st) t -> key_inj kent kk (alive t (fst st))).
Proof.
  intros V s st. pose proof (kl_run_invariant max_exp h _ _ _ (RK_new max_exp None) V) as HR.
  fold s in HR. fold st in HR. split; [apply HR|]. split; [eapply RK_incl; eauto|]. split.
  - intros t e T He Hl. eapply RK_live_stored; eauto.
  - intros t T. eapply alive_key_inj; eauto.
Qed.

(** ** a worked instance *)
Definition ex_kbag : bag :=
  [ {| kk := 2; kexp := 9; kval := 20 |}; {| kk := 4; kexp := 5; kval := 40 |};
    {| kk := 1; kexp := 3; kval := 10 |} ].
Definition ex_kstate : klstate :=
  {| kbuf := [ {| kk := 2; kexp := 9; kval := 20 |}; {| kk := 4; kexp := 5; kval := 40 |} ];
     kmin := 4 |}.

Lemma ex_RK : RK ex_kstate ex_kbag (Some 3).
Proof.
  split; [repeat constructor|]. split.
  - intros e [H|[H|[]]]; subst; simpl; lia.
  - exists [ {| kk := 1; kexp := 3; kval := 10 |} ]. split; [apply Permutation_refl|].
    repeat constructor. simpl. lia.
Qed.

Definition ex_khist : list kop :=
  [KIns 4 5 40 0; KIns 1 3 10 1; KIns 2 9 20 2; KGet 2 1; KLess 2 4; KLessEq 3 4; KIsEmpty;
   KLessEqBy 4 (cmp_to 3); KExport 4; KIns 1 8 11 4; KGet 5 4; KExport 6; KIns 4 12 41 7;
   KLessEq 8 9; KIsEmpty; KClear; KIsEmpty; KIns 7 2 70 0; KGet 1 7].

Lemma ex_khist_valid : kvalid_hist ([], None) ex_khist.
Proof.
  unfold ex_khist. cbn [kvalid_hist kvalid kr_step fst snd time_ok].
  repeat (match goal with |- _ /\ _ => split end);
    try exact I; try lia; try apply monotone_cmp_to; try apply one_eq_cmp_to;
    try (intros x Hx Hk; simpl in Hx;
         repeat (destruct Hx as [Hx|Hx]; [subst x; simpl in *; lia|]); destruct Hx).
Qed.
