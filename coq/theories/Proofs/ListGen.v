(** * Generic facts about the sorted-Vec model (Model/ListModel.v): binary search on a strictly
    sorted list under a monotone comparator, positional insert / remove / update as list
    operations, and permutation-invariance of the reference queries of Spec.v ("greatest entry
    satisfying a bound", "the entry with a given key") on lists with pairwise distinct keys. *)
From Coq Require Import List NArith ZArith Bool Lia Permutation Sorted.
Import ListNotations.
Require Import ITree.Model.Common ITree.Model.MapModel ITree.Model.ListModel.
Local Open Scope Z_scope.

(** A comparator is applied to the stored key and answers how the stored key compares with the
    probe.  Monotone: along increasing keys the answers go Lt ... Lt Eq ... Eq Gt ... Gt. *)
Definition monotone (f: Z -> comparison) : Prop :=
  forall a b, a < b -> (f b = Lt -> f a = Lt) /\ (f a = Gt -> f b = Gt).

Definition isEq (c: comparison) : bool := match c with Eq => true | _ => false end.
Definition isLt (c: comparison) : bool := match c with Lt => true | _ => false end.

Lemma cmp_to_eq k a : cmp_to k a = Eq <-> a = k.
Proof. unfold cmp_to. apply Z.compare_eq_iff. Qed.
Lemma cmp_to_lt k a : cmp_to k a = Lt <-> a < k.
Proof. unfold cmp_to. symmetry. apply Z.compare_lt_iff. Qed.
Lemma cmp_to_gt k a : cmp_to k a = Gt <-> k < a.
Proof. unfold cmp_to. symmetry. rewrite Z.compare_gt_iff. reflexivity. Qed.

Lemma monotone_cmp_to k : monotone (cmp_to k).
Proof.
  intros a b Hab. split; intro H.
  - apply -> cmp_to_lt in H. apply <- cmp_to_lt. lia.
  - apply -> cmp_to_gt in H. apply <- cmp_to_gt. lia.
Qed.

Lemma isEq_cmp_to k a : isEq (cmp_to k a) = Z.eqb a k.
Proof.
  unfold cmp_to. destruct (Z.compare_spec a k) as [H|H|H]; simpl; symmetry.
  - apply Z.eqb_eq; auto.
  - apply Z.eqb_neq; lia.
  - apply Z.eqb_neq; lia.
Qed.
Lemma isLt_cmp_to k a : isLt (cmp_to k a) = Z.ltb a k.
Proof.
  unfold cmp_to. destruct (Z.compare_spec a k) as [H|H|H]; simpl; symmetry.
  - apply Z.ltb_ge; lia.
  - apply Z.ltb_lt; auto.
  - apply Z.ltb_ge; lia.
Qed.

Section Gen.
Variable A : Type.
Variable key_of : A -> Z.

Notation bsearch := (bsearch A key_of).
Notation insert_at := (insert_at A).
Notation remove_at := (remove_at A).
Notation update_at := (update_at A).
Notation l_insert := (l_insert A key_of).
Notation l_delete := (l_delete A key_of).
Notation l_get := (l_get A key_of).
Notation l_first_by := (l_first_by A key_of).

(** strictly increasing keys *)
Definition sorted (l: list A) : Prop := StronglySorted Z.lt (map key_of l).

(** keys determine entries *)
Definition key_inj (l: list A) : Prop :=
  forall a b, In a l -> In b l -> key_of a = key_of b -> a = b.

Lemma sorted_nil : sorted [].
Proof. constructor. Qed.

Lemma sorted_cons_iff x l :
  sorted (x :: l) <-> sorted l /\ Forall (fun y => key_of x < key_of y) l.
Proof.
  unfold sorted. simpl. split.
  - intro H. apply StronglySorted_inv in H. destruct H as [H1 H2]. split; auto.
    apply -> Forall_map in H2. exact H2.
  - intros [H1 H2]. constructor; auto. apply <- Forall_map. exact H2.
Qed.

Lemma sorted_tail x l : sorted (x :: l) -> sorted l.
Proof. intro H. apply sorted_cons_iff in H. tauto. Qed.

Lemma sorted_head_lt x l y : sorted (x :: l) -> In y l -> key_of x < key_of y.
Proof.
  intros H Hy. apply sorted_cons_iff in H. destruct H as [_ H].
  rewrite Forall_forall in H. auto.
Qed.

Lemma NoDup_map_key_inj l : NoDup (map key_of l) -> key_inj l.
Proof.
  induction l as [|x l IH]; intros Hnd a b Ha Hb Hk.
  - destruct Ha.
  - simpl in Hnd. inversion Hnd as [|? ? Hnin Hnd']; subst.
    destruct Ha as [Ha|Ha]; destruct Hb as [Hb|Hb]; subst.
    + reflexivity.
    + exfalso. apply Hnin. rewrite Hk. apply in_map. exact Hb.
    + exfalso. apply Hnin. rewrite <- Hk. apply in_map. exact Ha.
    + apply IH; auto.
Qed.

Lemma sorted_NoDup l : sorted l -> NoDup (map key_of l).
Proof.
  induction l as [|x l IH]; intro H; simpl.
  - constructor.
  - apply sorted_cons_iff in H. destruct H as [H1 H2]. constructor; auto.
    intro Hin. apply in_map_iff in Hin. destruct Hin as [y [Hy1 Hy2]].
    rewrite Forall_forall in H2. specialize (H2 y Hy2). lia.
Qed.

Lemma sorted_key_inj l : sorted l -> key_inj l.
Proof. intro H. apply NoDup_map_key_inj. apply sorted_NoDup. exact H. Qed.

Lemma key_inj_perm l m : Permutation l m -> key_inj l -> key_inj m.
Proof.
  intros P H a b Ha Hb. apply H; eapply Permutation_in; try apply Permutation_sym; eauto.
Qed.

(** ** 1. binary search *)
Lemma bsearch_cons f x l :
  bsearch f (x :: l) = match f (key_of x) with
                       | Lt => (fst (bsearch f l), S (snd (bsearch f l)))
                       | Eq => (true, 0%nat)
                       | Gt => (false, 0%nat)
                       end.
Proof. simpl. destruct (f (key_of x)); auto. destruct (bsearch f l); auto. Qed.

Lemma bsearch_le f l : (snd (bsearch f l) <= length l)%nat.
Proof.
  induction l as [|x l IH]; [simpl; lia|].
  rewrite bsearch_cons. destruct (f (key_of x)); simpl; lia.
Qed.

(* found: no hypothesis is needed for the model's scan *)
Lemma bsearch_found_iff f l i :
  bsearch f l = (true, i) <->
  (Forall (fun x => f (key_of x) = Lt) (firstn i l) /\
   exists x, nth_error l i = Some x /\ f (key_of x) = Eq).
Proof.
  revert i. induction l as [|x l IH]; intro i.
  - simpl. split; [discriminate|]. intros [_ [x [H _]]]. destruct i; discriminate.
  - rewrite bsearch_cons. destruct (f (key_of x)) eqn:Fx.
    + split.
      * intro H. inversion H; subst. split; [constructor|]. exists x. auto.
      * intros [H1 _]. destruct i; auto. simpl in H1. inversion H1; subst. congruence.
    + destruct (bsearch f l) as [b j] eqn:B. simpl. split.
      * intro H. inversion H; subst. destruct (proj1 (IH j) eq_refl) as [H1 H2].
        split; [simpl; constructor; auto | exact H2].
      * intros [H1 [y [H2 H3]]]. destruct i as [|i].
        { simpl in H2. inversion H2; subst. congruence. }
        simpl in H1, H2. inversion H1; subst.
        assert (K: (b, j) = (true, i)) by (apply IH; split; eauto).
        inversion K; subst. reflexivity.
    + split; [discriminate|]. intros [H1 [y [H2 H3]]]. destruct i as [|i].
      * simpl in H2. inversion H2; subst. congruence.
      * simpl in H1. inversion H1; subst. congruence.
Qed.

Lemma mono_gt_tail f x l :
  monotone f -> sorted (x :: l) -> f (key_of x) = Gt -> Forall (fun y => f (key_of y) = Gt) l.
Proof.
  intros M S Fx. apply sorted_cons_iff in S. destruct S as [_ S].
  eapply Forall_impl; [|exact S]. intros y Hy. simpl in Hy. apply (M _ _ Hy). exact Fx.
Qed.

Lemma mono_eq_tail f x l :
  monotone f -> sorted (x :: l) -> f (key_of x) = Eq -> Forall (fun y => f (key_of y) <> Lt) l.
Proof.
  intros M S Fx. apply sorted_cons_iff in S. destruct S as [_ S].
  eapply Forall_impl; [|exact S]. intros y Hy Hlt. simpl in Hy.
  apply (M _ _ Hy) in Hlt. congruence.
Qed.

(* not found: first i are Lt, the others Gt *)
Lemma bsearch_notfound_iff f l i :
  sorted l -> monotone f ->
  (bsearch f l = (false, i) <->
   ((i <= length l)%nat /\
    Forall (fun x => f (key_of x) = Lt) (firstn i l) /\
    Forall (fun x => f (key_of x) = Gt) (skipn i l))).
Proof.
  intros S M. revert i. induction l as [|x l IH]; intro i.
  - simpl. split.
    + intro H. inversion H; subst. simpl. repeat split; auto.
    + intros [H _]. simpl in H. assert (i = 0%nat) by lia. subst. reflexivity.
  - pose proof (sorted_tail _ _ S) as S'. specialize (IH S').
    rewrite bsearch_cons. destruct (f (key_of x)) eqn:Fx.
    + split; [discriminate|]. intros [_ [H1 H2]]. destruct i as [|i].
      * simpl in H2. inversion H2; subst. congruence.
      * simpl in H1. inversion H1; subst. congruence.
    + destruct (bsearch f l) as [b j] eqn:B. simpl. split.
      * intro H. inversion H; subst. destruct (proj1 (IH j) eq_refl) as [H1 [H2 H3]].
        split; [lia|]. split; [constructor; auto | exact H3].
      * intros [H0 [H1 H2]]. destruct i as [|i].
        { simpl in H2. inversion H2; subst. congruence. }
        simpl in H0, H1, H2. inversion H1; subst.
        assert (K: (b, j) = (false, i)) by (apply IH; repeat split; auto; lia).
        inversion K; subst. reflexivity.
    + split.
      * intro H. inversion H; subst. simpl. split; [lia|]. split; [constructor|].
        constructor; auto. eapply mono_gt_tail; eauto.
      * intros [_ [H1 _]]. destruct i as [|i]; auto.
        simpl in H1. inversion H1; subst. congruence.
Qed.

(* in both cases the index is the number of Lt elements *)
Lemma bsearch_index_count f l :
  sorted l -> monotone f ->
  snd (bsearch f l) = length (filter (fun x => isLt (f (key_of x))) l).
Proof.
  intros S M. induction l as [|x l IH]; [reflexivity|].
  pose proof (sorted_tail _ _ S) as S'. rewrite bsearch_cons. simpl.
  destruct (f (key_of x)) eqn:Fx; simpl.
  - pose proof (mono_eq_tail _ _ _ M S Fx) as H.
    clear IH S S'. induction l as [|y l IH]; auto. inversion H; subst. simpl.
    destruct (f (key_of y)); simpl; auto. congruence.
  - f_equal. auto.
  - pose proof (mono_gt_tail _ _ _ M S Fx) as H.
    clear IH S S'. induction l as [|y l IH]; auto. inversion H as [|? ? Hy Hl]; subst. simpl.
    rewrite Hy. simpl. auto.
Qed.

Lemma bsearch_true_nth f l i :
  bsearch f l = (true, i) -> exists x, nth_error l i = Some x /\ f (key_of x) = Eq /\
                                        find (fun e => isEq (f (key_of e))) l = Some x.
Proof.
  revert i. induction l as [|x l IH]; intro i; [discriminate|].
  rewrite bsearch_cons. destruct (f (key_of x)) eqn:Fx.
  - intro H. inversion H; subst. exists x. simpl. rewrite Fx. auto.
  - destruct (bsearch f l) as [b j] eqn:B. simpl. intro H. inversion H; subst.
    destruct (IH j eq_refl) as [y [H1 [H2 H3]]]. exists y. simpl. rewrite Fx. auto.
  - discriminate.
Qed.

Lemma bsearch_false_noeq f l i :
  sorted l -> monotone f -> bsearch f l = (false, i) ->
  forall e, In e l -> f (key_of e) <> Eq.
Proof.
  intros S M B. apply (bsearch_notfound_iff f l i S M) in B. destruct B as [_ [H1 H2]].
  intros e He. rewrite <- (firstn_skipn i l) in He. apply in_app_or in He.
  rewrite Forall_forall in H1, H2. destruct He as [He|He].
  - rewrite (H1 e He). discriminate.
  - rewrite (H2 e He). discriminate.
Qed.

(** ** the greatest / least entry satisfying a bound *)
Section Best.
Variable rank : A -> Z.
Variable better : A -> A -> bool.
Hypothesis better_spec : forall e b, better e b = true <-> rank b < rank e.

Definition gbest (ok: A -> bool) (l: list A) : option A :=
  fold_right (fun e acc =>
    if ok e then match acc with
                 | Some b => if better e b then Some e else acc
                 | None => Some e
                 end
    else acc) None l.

Lemma gbest_cons ok x l :
  gbest ok (x :: l) =
  if ok x then match gbest ok l with
               | Some b => if better x b then Some x else Some b
               | None => Some x
               end
  else gbest ok l.
Proof. unfold gbest. simpl. destruct (ok x); auto. destruct (fold_right _ _ _); auto. Qed.

Lemma gbest_spec ok l :
  match gbest ok l with
  | Some e => In e l /\ ok e = true /\ forall e', In e' l -> ok e' = true -> rank e' <= rank e
  | None => forall e', In e' l -> ok e' = false
  end.
Proof.
  induction l as [|x l IH].
  - simpl. intros e' [].
  - rewrite gbest_cons. destruct (ok x) eqn:Ox.
    + destruct (gbest ok l) as [b|] eqn:G.
      * destruct IH as [I1 [I2 I3]]. destruct (better x b) eqn:Bx.
        { apply better_spec in Bx. split; [left; auto|]. split; auto.
          intros e' [He|He] Oe; [subst; lia|]. specialize (I3 e' He Oe). lia. }
        { assert (~ rank b < rank x) by (intro K; apply better_spec in K; congruence).
          split; [right; auto|]. split; auto.
          intros e' [He|He] Oe; [subst; lia|]. auto. }
      * split; [left; auto|]. split; auto.
        intros e' [He|He] Oe; [subst; lia|]. rewrite (IH e' He) in Oe. discriminate.
    + destruct (gbest ok l) as [b|] eqn:G.
      * destruct IH as [I1 [I2 I3]]. split; [right; auto|]. split; auto.
        intros e' [He|He] Oe; [subst; congruence|]. auto.
      * intros e' [He|He]; [subst; auto|]. auto.
Qed.

Definition rank_inj (l: list A) : Prop :=
  forall a b, In a l -> In b l -> rank a = rank b -> a = b.

Lemma gbest_char ok l e :
  rank_inj l ->
  In e l -> ok e = true -> (forall e', In e' l -> ok e' = true -> rank e' <= rank e) ->
  gbest ok l = Some e.
Proof.
  intros RI He Oe Hmax. pose proof (gbest_spec ok l) as G.
  destruct (gbest ok l) as [b|].
  - destruct G as [G1 [G2 G3]]. f_equal. apply RI; auto.
    specialize (G3 e He Oe). specialize (Hmax b G1 G2). lia.
  - rewrite (G e He) in Oe. discriminate.
Qed.

Lemma gbest_none ok l : (forall e, In e l -> ok e = false) -> gbest ok l = None.
Proof.
  intro H. pose proof (gbest_spec ok l) as G. destruct (gbest ok l) as [b|]; auto.
  destruct G as [G1 [G2 _]]. rewrite (H b G1) in G2. discriminate.
Qed.

Lemma gbest_perm ok l m :
  Permutation l m -> rank_inj l -> gbest ok l = gbest ok m.
Proof.
  intros P RI. pose proof (gbest_spec ok m) as G. destruct (gbest ok m) as [b|].
  - destruct G as [G1 [G2 G3]]. apply gbest_char; auto.
    + eapply Permutation_in; [apply Permutation_sym; eauto | auto].
    + intros e' He'. apply G3. eapply Permutation_in; eauto.
  - apply gbest_none. intros e He. apply G. eapply Permutation_in; eauto.
Qed.

Lemma gbest_ext ok ok' l :
  (forall e, In e l -> ok e = ok' e) -> gbest ok l = gbest ok' l.
Proof.
  induction l as [|x l IH]; intro H; [reflexivity|].
  rewrite !gbest_cons. rewrite (H x (or_introl eq_refl)).
  rewrite IH; auto. intros e He. apply H. right. auto.
Qed.
End Best.

(* the instance used by [best] / [kbest] of Spec.v: greatest key *)
Definition kbetter (e b: A) : bool := Z.ltb (key_of b) (key_of e).
Definition gmax := gbest kbetter.
(* the instance used by [a_next]: least key *)
Definition nbetter (e b: A) : bool := Z.ltb (key_of e) (key_of b).
Definition gmin := gbest nbetter.

Lemma kbetter_spec e b : kbetter e b = true <-> key_of b < key_of e.
Proof. unfold kbetter. apply Z.ltb_lt. Qed.
Lemma nbetter_spec e b : nbetter e b = true <-> (fun x => - key_of x) b < (fun x => - key_of x) e.
Proof. unfold nbetter. rewrite Z.ltb_lt. lia. Qed.

Lemma key_inj_neg l : key_inj l -> rank_inj (fun x => - key_of x) l.
Proof. intros H a b Ha Hb Hk. apply H; auto. lia. Qed.

Lemma gmax_perm ok l m : Permutation l m -> key_inj l -> gmax ok l = gmax ok m.
Proof. intros P K. eapply gbest_perm; eauto. apply kbetter_spec. Qed.
Lemma gmin_perm ok l m : Permutation l m -> key_inj l -> gmin ok l = gmin ok m.
Proof.
  intros P K. eapply (gbest_perm (fun x => - key_of x)); eauto.
  - apply nbetter_spec.
  - apply key_inj_neg. auto.
Qed.

Lemma gmax_spec ok l :
  match gmax ok l with
  | Some e => In e l /\ ok e = true /\ forall e', In e' l -> ok e' = true -> key_of e' <= key_of e
  | None => forall e', In e' l -> ok e' = false
  end.
Proof. apply (gbest_spec key_of kbetter kbetter_spec). Qed.

Lemma gmin_spec ok l :
  match gmin ok l with
  | Some e => In e l /\ ok e = true /\ forall e', In e' l -> ok e' = true -> key_of e <= key_of e'
  | None => forall e', In e' l -> ok e' = false
  end.
Proof.
  pose proof (gbest_spec (fun x => - key_of x) nbetter nbetter_spec ok l) as G.
  unfold gmin. destruct (gbest nbetter ok l); auto.
  destruct G as [G1 [G2 G3]]. repeat split; auto.
  intros e' H1 H2. specialize (G3 e' H1 H2). lia.
Qed.

Lemma gmax_none ok l : (forall e, In e l -> ok e = false) -> gmax ok l = None.
Proof. apply (gbest_none key_of kbetter kbetter_spec). Qed.
Lemma gmax_ext ok ok' l : (forall e, In e l -> ok e = ok' e) -> gmax ok l = gmax ok' l.
Proof. apply (gbest_ext kbetter). Qed.
Lemma gmax_char ok l e :
  key_inj l -> In e l -> ok e = true ->
  (forall e', In e' l -> ok e' = true -> key_of e' <= key_of e) -> gmax ok l = Some e.
Proof. apply (gbest_char key_of kbetter kbetter_spec). Qed.
Lemma gmin_char ok l e :
  key_inj l -> In e l -> ok e = true ->
  (forall e', In e' l -> ok e' = true -> key_of e <= key_of e') -> gmin ok l = Some e.
Proof.
  intros K He Oe H. apply (gbest_char (fun x => - key_of x) nbetter nbetter_spec); auto.
  - apply key_inj_neg; auto.
  - intros e' H1 H2. specialize (H e' H1 H2). lia.
Qed.
Lemma gmax_cons ok x l :
  gmax ok (x :: l) =
  if ok x then match gmax ok l with
               | Some b => if Z.ltb (key_of b) (key_of x) then Some x else Some b
               | None => Some x
               end
  else gmax ok l.
Proof. apply gbest_cons. Qed.
Lemma gmin_cons ok x l :
  gmin ok (x :: l) =
  if ok x then match gmin ok l with
               | Some b => if Z.ltb (key_of x) (key_of b) then Some x else Some b
               | None => Some x
               end
  else gmin ok l.
Proof. apply gbest_cons. Qed.

(** ** the entry with a given property, when at most one stored entry has it *)
Lemma find_perm (p: A -> bool) l m :
  Permutation l m ->
  (forall a b, In a l -> In b l -> p a = true -> p b = true -> a = b) ->
  find p l = find p m.
Proof.
  intros P U. destruct (find p l) as [a|] eqn:Fl; destruct (find p m) as [b|] eqn:Fm; auto.
  - apply find_some in Fl. apply find_some in Fm. destruct Fl, Fm. f_equal. apply U; auto.
    eapply Permutation_in; [apply Permutation_sym; eauto|auto].
  - apply find_some in Fl. destruct Fl as [F1 F2].
    rewrite (find_none _ _ Fm a) in F2; [discriminate|]. eapply Permutation_in; eauto.
  - apply find_some in Fm. destruct Fm as [F1 F2].
    rewrite (find_none _ _ Fl b) in F2; [discriminate|].
    eapply Permutation_in; [apply Permutation_sym; eauto|auto].
Qed.

Lemma find_key_perm k l m :
  Permutation l m -> key_inj l ->
  find (fun e => Z.eqb (key_of e) k) l = find (fun e => Z.eqb (key_of e) k) m.
Proof.
  intros P K. apply find_perm; auto. intros a b Ha Hb Pa Pb.
  apply Z.eqb_eq in Pa. apply Z.eqb_eq in Pb. apply K; auto. lia.
Qed.

(** ** predecessor under a comparator (the shape of [a_pred_by] / [ref_less_eq_by]) *)
Definition gpred_by (f: Z -> comparison) (l: list A) : option A :=
  match find (fun e => isEq (f (key_of e))) l with
  | Some e => Some e
  | None => gmax (fun e => isLt (f (key_of e))) l
  end.

(* at most one stored key is Eq *)
Definition one_eq (f: Z -> comparison) (l: list A) : Prop :=
  forall a b, In a l -> In b l -> f (key_of a) = Eq -> f (key_of b) = Eq -> key_of a = key_of b.

Lemma isEq_true c : isEq c = true <-> c = Eq.
Proof. destruct c; simpl; split; congruence. Qed.
Lemma isLt_true c : isLt c = true <-> c = Lt.
Proof. destruct c; simpl; split; congruence. Qed.

Lemma gpred_by_perm f l m :
  Permutation l m -> key_inj l -> one_eq f l -> gpred_by f l = gpred_by f m.
Proof.
  intros P K O. unfold gpred_by.
  rewrite (find_perm (fun e => isEq (f (key_of e))) l m P).
  - rewrite (gmax_perm _ l m P K). reflexivity.
  - intros a b Ha Hb Pa Pb. apply isEq_true in Pa. apply isEq_true in Pb. apply K; auto.
Qed.

Lemma one_eq_cmp_to q l : one_eq (cmp_to q) l.
Proof. intros a b _ _ Ha Hb. apply cmp_to_eq in Ha. apply cmp_to_eq in Hb. lia. Qed.

Lemma gpred_by_cmp_to q l :
  key_inj l -> gpred_by (cmp_to q) l = gmax (fun e => Z.leb (key_of e) q) l.
Proof.
  intro K. unfold gpred_by.
  destruct (find (fun e => isEq (cmp_to q (key_of e))) l) as [e|] eqn:F.
  - apply find_some in F. destruct F as [F1 F2]. apply isEq_true in F2. apply cmp_to_eq in F2.
    symmetry. apply gmax_char; auto.
    + apply Z.leb_le. lia.
    + intros e' _ H. apply Z.leb_le in H. lia.
  - apply gmax_ext. intros e He. pose proof (find_none _ _ F e He) as H.
    simpl in H. rewrite isLt_cmp_to. rewrite isEq_cmp_to in H. apply Z.eqb_neq in H.
    destruct (Z.ltb_spec (key_of e) q); destruct (Z.leb_spec (key_of e) q); auto; lia.
Qed.

(** ** binary search on a sorted list computes these *)
Definition prev_of (l: list A) (i: nat) : option A :=
  match i with O => None | S j => nth_error l j end.

Lemma bsearch_lt_best f l :
  sorted l -> monotone f ->
  prev_of l (snd (bsearch f l)) = gmax (fun e => isLt (f (key_of e))) l.
Proof.
  intros S M. induction l as [|x l IH]; [reflexivity|].
  pose proof (sorted_tail _ _ S) as S'. specialize (IH S').
  rewrite bsearch_cons. rewrite gmax_cons.
  destruct (f (key_of x)) eqn:Fx; simpl.
  - symmetry. apply gmax_none. intros e He.
    pose proof (mono_eq_tail _ _ _ M S Fx) as H. rewrite Forall_forall in H.
    specialize (H e He). destruct (f (key_of e)); simpl; congruence.
  - rewrite <- IH. pose proof (bsearch_le f l) as LE.
    destruct (snd (bsearch f l)) as [|j]; simpl; auto.
    destruct (nth_error l j) as [b|] eqn:N.
    + apply nth_error_In in N. pose proof (sorted_head_lt _ _ _ S N) as H.
      destruct (Z.ltb_spec (key_of b) (key_of x)); auto. lia.
    + apply nth_error_None in N. lia.
  - symmetry. apply gmax_none. intros e He.
    pose proof (mono_gt_tail _ _ _ M S Fx) as H. rewrite Forall_forall in H.
    rewrite (H e He). reflexivity.
Qed.

Definition entry_of (l: list A) (oi: option nat) : option A :=
  match oi with None => None | Some i => nth_error l i end.

Lemma l_first_by_bound f l i : l_first_by l f = Some i -> (i < length l)%nat.
Proof.
  unfold ListModel.l_first_by. destruct (bsearch f l) as [b j] eqn:B. destruct b.
  - intro H. inversion H; subst. apply bsearch_true_nth in B. destruct B as [x [B _]].
    apply nth_error_Some. congruence.
  - pose proof (bsearch_le f l) as LE. rewrite B in LE. simpl in LE.
    destruct j; [discriminate|]. intro H. inversion H; subst. lia.
Qed.

Lemma l_first_by_spec f l :
  sorted l -> monotone f -> entry_of l (l_first_by l f) = gpred_by f l.
Proof.
  intros S M. unfold ListModel.l_first_by, gpred_by.
  pose proof (bsearch_lt_best f l S M) as LB.
  destruct (bsearch f l) as [b j] eqn:B. destruct b.
  - apply bsearch_true_nth in B. destruct B as [x [B1 [B2 B3]]]. rewrite B3. simpl. exact B1.
  - assert (F: find (fun e => isEq (f (key_of e))) l = None).
    { destruct (find _ l) as [e|] eqn:F; auto. apply find_some in F. destruct F as [F1 F2].
      apply isEq_true in F2. exfalso. eapply bsearch_false_noeq; eauto. }
    rewrite F. rewrite <- LB. simpl. destruct j; reflexivity.
Qed.

(** ** insertion *)
Lemma l_insert_cons x y l :
  l_insert (y :: l) x =
  match Z.compare (key_of y) (key_of x) with
  | Lt => y :: l_insert l x
  | _ => x :: y :: l
  end.
Proof.
  unfold ListModel.l_insert. rewrite bsearch_cons. unfold cmp_to at 1.
  destruct (Z.compare (key_of y) (key_of x)); reflexivity.
Qed.

Lemma l_insert_perm x l : Permutation (x :: l) (l_insert l x).
Proof.
  induction l as [|y l IH]; [apply Permutation_refl|].
  rewrite l_insert_cons. destruct (Z.compare (key_of y) (key_of x)); try apply Permutation_refl.
  eapply perm_trans; [apply perm_swap|]. apply perm_skip. exact IH.
Qed.

Lemma l_insert_sorted x l :
  sorted l -> ~ In (key_of x) (map key_of l) -> sorted (l_insert l x).
Proof.
  induction l as [|y l IH]; intros S Hn.
  - unfold ListModel.l_insert. simpl. apply sorted_cons_iff. split; [apply sorted_nil|constructor].
  - rewrite l_insert_cons. destruct (Z.compare_spec (key_of y) (key_of x)) as [H|H|H].
    + exfalso. apply Hn. simpl. left. auto.
    + pose proof S as S0. apply sorted_cons_iff in S. destruct S as [S1 S2].
      apply sorted_cons_iff. split.
      * apply IH; auto. intro K. apply Hn. simpl. right. auto.
      * eapply Permutation_Forall; [apply l_insert_perm|]. constructor; auto.
    + apply sorted_cons_iff. split; auto. constructor; auto.
      apply sorted_cons_iff in S. destruct S as [S1 S2].
      eapply Forall_impl; [|exact S2]. intros a Ha. simpl in Ha. lia.
Qed.

(** ** deletion and lookup by key *)
Lemma filter_id (p: A -> bool) l : (forall e, In e l -> p e = true) -> filter p l = l.
Proof.
  induction l as [|x l IH]; intro H; [reflexivity|]. simpl.
  rewrite (H x (or_introl eq_refl)). f_equal. apply IH. intros e He. apply H. right. auto.
Qed.

Lemma l_delete_cons k y l :
  l_delete (y :: l) k =
  match Z.compare (key_of y) k with
  | Lt => y :: l_delete l k
  | Eq => l
  | Gt => y :: l
  end.
Proof.
  unfold ListModel.l_delete. rewrite bsearch_cons. unfold cmp_to at 1.
  destruct (Z.compare (key_of y) k); try reflexivity.
  destruct (bsearch (cmp_to k) l) as [b i]. simpl. destruct b; reflexivity.
Qed.

Lemma l_delete_filter k l :
  sorted l -> l_delete l k = filter (fun e => negb (Z.eqb (key_of e) k)) l.
Proof.
  induction l as [|y l IH]; intro S; [reflexivity|].
  rewrite l_delete_cons. simpl.
  assert (T: forall e, In e l -> key_of y < key_of e) by (intros; eapply sorted_head_lt; eauto).
  destruct (Z.compare_spec (key_of y) k) as [H|H|H].
  - rewrite (proj2 (Z.eqb_eq _ _) H). simpl. symmetry. apply filter_id.
    intros e He. specialize (T e He). apply negb_true_iff. apply Z.eqb_neq. lia.
  - assert (E: Z.eqb (key_of y) k = false) by (apply Z.eqb_neq; lia). rewrite E. simpl.
    f_equal. apply IH. eapply sorted_tail; eauto.
  - assert (E: Z.eqb (key_of y) k = false) by (apply Z.eqb_neq; lia). rewrite E. simpl.
    f_equal. symmetry. apply filter_id.
    intros e He. specialize (T e He). apply negb_true_iff. apply Z.eqb_neq. lia.
Qed.

Lemma l_get_cons k y l :
  l_get (y :: l) k =
  match Z.compare (key_of y) k with
  | Lt => l_get l k
  | Eq => Some y
  | Gt => None
  end.
Proof.
  unfold ListModel.l_get. rewrite bsearch_cons. unfold cmp_to at 1.
  destruct (Z.compare (key_of y) k); try reflexivity.
  destruct (bsearch (cmp_to k) l) as [b i]. simpl. destruct b; reflexivity.
Qed.

Lemma l_get_find k l :
  sorted l -> l_get l k = find (fun e => Z.eqb (key_of e) k) l.
Proof.
  induction l as [|y l IH]; intro S; [reflexivity|].
  rewrite l_get_cons. simpl.
  assert (T: forall e, In e l -> key_of y < key_of e) by (intros; eapply sorted_head_lt; eauto).
  destruct (Z.compare_spec (key_of y) k) as [H|H|H].
  - rewrite (proj2 (Z.eqb_eq _ _) H). reflexivity.
  - assert (E: Z.eqb (key_of y) k = false) by (apply Z.eqb_neq; lia). rewrite E.
    apply IH. eapply sorted_tail; eauto.
  - assert (E: Z.eqb (key_of y) k = false) by (apply Z.eqb_neq; lia). rewrite E.
    symmetry. destruct (find _ l) as [e|] eqn:F; auto. apply find_some in F.
    destruct F as [F1 F2]. apply Z.eqb_eq in F2. specialize (T e F1). lia.
Qed.

(** ** filter, map keep sortedness *)
Lemma sorted_filter (p: A -> bool) l : sorted l -> sorted (filter p l).
Proof.
  induction l as [|x l IH]; intro S; [apply sorted_nil|].
  apply sorted_cons_iff in S. destruct S as [S1 S2]. simpl. destruct (p x); auto.
  apply sorted_cons_iff. split; auto.
  rewrite Forall_forall in *. intros y Hy. apply filter_In in Hy. apply S2. tauto.
Qed.

Lemma sorted_same_keys l l' : map key_of l = map key_of l' -> sorted l -> sorted l'.
Proof. unfold sorted. intros E. rewrite E. auto. Qed.

(** ** operations through a position *)
Lemma remove_at_filter l i x :
  sorted l -> nth_error l i = Some x ->
  remove_at l i = filter (fun e => negb (Z.eqb (key_of e) (key_of x))) l.
Proof.
  revert i. induction l as [|y l IH]; intros i S N; [destruct i; discriminate|].
  assert (T: forall e, In e l -> key_of y < key_of e) by (intros; eapply sorted_head_lt; eauto).
  destruct i as [|i]; simpl in *.
  - inversion N; subst. rewrite Z.eqb_refl. simpl. symmetry. apply filter_id.
    intros e He. specialize (T e He). apply negb_true_iff. apply Z.eqb_neq. lia.
  - pose proof (T x (nth_error_In _ _ N)) as H.
    assert (E: Z.eqb (key_of y) (key_of x) = false) by (apply Z.eqb_neq; lia). rewrite E. simpl.
    f_equal. apply IH; auto. eapply sorted_tail; eauto.
Qed.

Lemma update_at_map (g: A -> A) l i x :
  sorted l -> nth_error l i = Some x ->
  update_at l i g = map (fun e => if Z.eqb (key_of e) (key_of x) then g e else e) l.
Proof.
  revert i. induction l as [|y l IH]; intros i S N; [destruct i; discriminate|].
  assert (T: forall e, In e l -> key_of y < key_of e) by (intros; eapply sorted_head_lt; eauto).
  destruct i as [|i]; simpl in *.
  - inversion N; subst. rewrite Z.eqb_refl. f_equal. rewrite <- (map_id l) at 1.
    apply map_ext_in. intros e He. specialize (T e He).
    assert (E: Z.eqb (key_of e) (key_of x) = false) by (apply Z.eqb_neq; lia). rewrite E. auto.
  - pose proof (T x (nth_error_In _ _ N)) as H.
    assert (E: Z.eqb (key_of y) (key_of x) = false) by (apply Z.eqb_neq; lia). rewrite E.
    f_equal. apply IH; auto. eapply sorted_tail; eauto.
Qed.

Lemma update_at_keys (g: A -> A) l i :
  (forall e, key_of (g e) = key_of e) -> map key_of (update_at l i g) = map key_of l.
Proof.
  intro G. revert i. induction l as [|y l IH]; intro i; [destruct i; reflexivity|].
  destruct i; simpl; [rewrite G; reflexivity|]. f_equal. apply IH.
Qed.

(* neighbours *)
Lemma gmin_all_ok_sorted k l :
  sorted l -> (forall e, In e l -> k < key_of e) ->
  gmin (fun e => Z.ltb k (key_of e)) l = nth_error l 0.
Proof.
  intros S H. destruct l as [|y l]; [reflexivity|].
  change (nth_error (y :: l) 0) with (Some y). apply gmin_char.
  - apply sorted_key_inj. auto.
  - left; auto.
  - apply Z.ltb_lt. apply H. left; auto.
  - intros e' [He|He] _; [subst; lia|]. pose proof (sorted_head_lt _ _ _ S He). lia.
Qed.

Lemma next_sorted l i x :
  sorted l -> nth_error l i = Some x ->
  gmin (fun e => Z.ltb (key_of x) (key_of e)) l = nth_error l (S i).
Proof.
  revert i. induction l as [|y l IH]; intros i S N; [destruct i; discriminate|].
  assert (T: forall e, In e l -> key_of y < key_of e) by (intros; eapply sorted_head_lt; eauto).
  pose proof (sorted_tail _ _ S) as S'.
  rewrite gmin_cons. destruct i as [|i]; simpl in N.
  - inversion N; subst. rewrite Z.ltb_irrefl. simpl. apply gmin_all_ok_sorted; auto.
  - pose proof (T x (nth_error_In _ _ N)) as H.
    assert (E: Z.ltb (key_of x) (key_of y) = false) by (apply Z.ltb_ge; lia). rewrite E.
    change (nth_error (y :: l) (Datatypes.S (Datatypes.S i))) with (nth_error l (Datatypes.S i)).
    apply IH; auto.
Qed.

Lemma bsearch_at l i x :
  sorted l -> nth_error l i = Some x -> bsearch (cmp_to (key_of x)) l = (true, i).
Proof.
  revert i. induction l as [|y l IH]; intros i S N; [destruct i; discriminate|].
  assert (T: forall e, In e l -> key_of y < key_of e) by (intros; eapply sorted_head_lt; eauto).
  rewrite bsearch_cons. destruct i as [|i]; simpl in N.
  - inversion N; subst. unfold cmp_to. rewrite Z.compare_refl. reflexivity.
  - pose proof (T x (nth_error_In _ _ N)) as H.
    assert (E: cmp_to (key_of x) (key_of y) = Lt) by (apply cmp_to_lt; lia). rewrite E.
    rewrite (IH i (sorted_tail _ _ S) N). reflexivity.
Qed.

Lemma prev_sorted l i x :
  sorted l -> nth_error l i = Some x ->
  gmax (fun e => Z.ltb (key_of e) (key_of x)) l = prev_of l i.
Proof.
  intros S N. pose proof (bsearch_lt_best (cmp_to (key_of x)) l S (monotone_cmp_to _)) as H.
  rewrite (bsearch_at l i x S N) in H. simpl in H. rewrite H.
  apply gmax_ext. intros e _. symmetry. apply isLt_cmp_to.
Qed.

(** ** a strictly sorted permutation is unique *)
Lemma sorted_perm_unique l l' : sorted l -> sorted l' -> Permutation l l' -> l = l'.
Proof.
  revert l'. induction l as [|x l IH]; intros l' S S' P.
  - apply Permutation_nil in P. auto.
  - destruct l' as [|y l']; [apply Permutation_sym in P; apply Permutation_nil in P; discriminate|].
    assert (x = y).
    { assert (Hx: In x (y :: l')) by (eapply Permutation_in; [eauto|left; auto]).
      assert (Hy: In y (x :: l)) by (eapply Permutation_in; [apply Permutation_sym; eauto|left; auto]).
      destruct Hx as [Hx|Hx]; auto. destruct Hy as [Hy|Hy]; auto.
      pose proof (sorted_head_lt _ _ _ S Hy). pose proof (sorted_head_lt _ _ _ S' Hx). lia. }
    subst y. f_equal. apply IH.
    + eapply sorted_tail; eauto.
    + eapply sorted_tail; eauto.
    + eapply Permutation_cons_inv; eauto.
Qed.

End Gen.

(** filter respects permutations (not in the 8.16 library) *)
Lemma Permutation_filter {A} (p: A -> bool) l m :
  Permutation l m -> Permutation (filter p l) (filter p m).
Proof.
  induction 1 as [|x l m P IH|x y l|l m n P1 IH1 P2 IH2]; simpl.
  - constructor.
  - destruct (p x); auto.
  - destruct (p x); destruct (p y); auto. apply perm_swap.
  - eapply perm_trans; eauto.
Qed.

Lemma filter_partition_perm {A} (p: A -> bool) l :
  Permutation l (filter p l ++ filter (fun e => negb (p e)) l).
Proof.
  induction l as [|x l IH]; simpl; [constructor|].
  destruct (p x); simpl.
  - apply perm_skip. exact IH.
  - apply Permutation_cons_app. exact IH.
Qed.
