(** * The read-only operations on the parent-pointer arena (Model/ArenaQuery.v) refine the tree-level
    functions of Model/RBTree.v / Model/MapModel.v / Model/KeyModel.v.

    From [Rep a EMPTY (aroot a) t] (the arena represents the tree [t] with consistent parent links;
    Proofs/ArenaProofs.v), and [NoDup (slots t)] only where stated:

    - the descents: [arena_find_index] = [find_slot], [arena_search_value] = [find_slot] then [ent_at],
      [arena_search_first_less(_by)] = [first_by] (handles: [olink], EMPTY for None);
    - the neighbour steps of the set: [arena_index_after] = [after_in], [arena_index_before] =
      [before_in]; the lemma that is specific to parent pointers is [climb_right_spec] /
      [climb_left_spec]: climbing from the hole of a context while we are a right (left) child ends at
      the first ancestor reached from its left (right) subtree, [next_up] ([prev_up]);
    - [arena_clear]: the free list receives the slots in level order ([level_order]: same ORDER of the
      free list as [MapModel.m_clear] / [KeyModel.k_clear]), the root is EMPTY, no node is written;
    - the accessors (is_empty, value_by_index, the write through value_by_index_mut), delete by key;
    - one step / one run of the whole map / set interface: [arena_m_step_refines], [arena_m_run_refines];
    - [arena_export] (create_ordered_list of the expiring-key tree) = [k_export], with its two capacity
      requests ([arena_height] = [old_height], [export_count] = [k_export_capacity]).

    First the transcriptions are validated by evaluation against the tree-level functions (module
    [Validation]), then the refinement theorems are proved; module [NonVacuity] applies them to an
    arena built by insertions. *)
From Coq Require Import List NArith ZArith Bool Lia Permutation Setoid Morphisms.
Import ListNotations.
Require Import ITree.Model.Common ITree.Model.RBTree ITree.Model.Pool ITree.Model.MapModel ITree.Model.KeyModel.
Require Import ITree.Model.ArenaModel ITree.Model.ArenaDelete ITree.Model.ArenaKey ITree.Model.ArenaQuery.
Require Import ITree.Proofs.RBElems ITree.Proofs.RBInv ITree.Proofs.Subtree ITree.Proofs.TreeLookup ITree.Proofs.PoolProofs.
Require Import ITree.Proofs.ArenaProofs ITree.Proofs.ArenaDeleteProofs ITree.Proofs.ArenaKeyProofs.
Require ITree.Proofs.ArenaMap.
Local Open Scope N_scope.

(** ** validation of the transcriptions by evaluation (before any proof) *)
Module Validation.
Import ITree.Proofs.ArenaMap.

(* the handle the Rust code returns for the model's [option (option N)] (None = not a stored slot) *)
Definition is_link (r: res N) (o: option (option N)) : Prop :=
  match o with Some y => r = Ret (olink y) | None => False end.

Definition zrange (lo: Z) (n: nat) : list Z := map (fun i => (lo + Z.of_nat i)%Z) (seq 0 n).

(* a comparator that is Equal on a band of keys *)
Definition band3 (k: Z) : Z -> comparison :=
  fun stored => if (stored <? k)%Z then Lt else if (stored <=? k + 3)%Z then Eq else Gt.

(* a pool whose free list is not empty and whose capacity doubles during the clear *)
Definition pool0 : pool := {| blen := 64; unused := [61; 62; 63]; ucap := 4 |}.

Definition check_key (s: astate) (t: mtree) (k: Z) : Prop :=
  arena_find_index mkey 64 s k = Ret (olink (find_slot ment mkey t k)) /\
  arena_search_value mkey 64 s k =
    Ret (match find_slot ment mkey t k with None => None | Some x => ent_at ment t x end) /\
  arena_search_first_less mkey 64 s k = Ret (olink (first_by ment mkey t (cmp_to k) None)) /\
  arena_search_first_less_by mkey 64 s (band3 k) = Ret (olink (first_by ment mkey t (band3 k) None)) /\
  match m_delete {| root := t; pl := pool0 |} k, arena_delete_key mkey 64 64 (s, pool0) k with
  | Ret s', Ret (a', p') => read_tree 64 a' EMPTY (aroot a') = Some (root s') /\ p' = pl s'
  | _, _ => False
  end.

Definition check_slot (s: astate) (t: mtree) (x: N) : Prop :=
  is_link (arena_index_after 64 s x) (after_in ment t x None) /\
  is_link (arena_index_before 64 s x) (before_in ment t x None) /\
  ent_at ment t x = Some (arena_value_by_index s x) /\
  (let s' := arena_update_value s x (fun e => (fst e, 99%Z)) in
   read_tree 64 s' EMPTY (aroot s') = Some (set_at ment t x (fst (arena_value_by_index s x), 99%Z))).

Fixpoint all {A} (P: A -> Prop) (l: list A) : Prop :=
  match l with [] => True | x :: l' => P x /\ all P l' end.

Definition check_clear (s: astate) (t: mtree) : Prop :=
  match arena_clear 64 (s, pool0) with
  | Ret (s', p') => aroot s' = EMPTY /\ p' = fold_left pool_put (level_order ment t) pool0
  | Err _ => False
  end.

Definition check_tree (lo: Z) (n: nat) (s: astate) (t: mtree) : Prop :=
  all (check_key s t) (zrange lo n) /\ all (check_slot s t) (slots ment t) /\ check_clear s t /\
  arena_is_empty s = m_is_empty {| root := t; pl := pool0 |}.

(* five trees of 15 - 40 nodes (ascending, descending, permutations): every stored key, absent keys
   below / between / above, every stored slot; and the empty tree *)
Example arena_query_agrees :
  built ks_a (check_tree (-2) 100) /\
  built ks_b (check_tree (-2) 40) /\
  built ks_c (check_tree (-2) 50) /\
  built ks_d (check_tree (-2) 40) /\
  built ks_e (check_tree (-2) 30) /\
  built [] (check_tree (-2) 5) /\
  built [7%Z] (check_tree 5 5).
Proof. vm_compute. repeat split; reflexivity. Qed.

(* the level-order walk really interleaves levels: on ks_a the order differs from the in-order list *)
Example clear_order_a :
  level_order ment (tree_inserts E 1 ks_a) = [7; 2; 10; 11; 6; 1; 13; 12; 4; 8; 5; 9; 3; 14; 15] /\
  slots ment (tree_inserts E 1 ks_a) = [12; 11; 4; 2; 6; 8; 7; 5; 1; 9; 10; 3; 13; 15; 14].
Proof. vm_compute. split; reflexivity. Qed.

(** the export of the expiring-key tree *)
Definition kent_of (k: Z) : kent := {| kk := k; kexp := (k * 7) mod 13; kval := k * 10 |}.

Fixpoint karena_inserts (s: karena) (next: N) (ks: list Z) : res karena :=
  match ks with
  | [] => Ret s
  | k :: ks' => match ArenaModel.arena_insert kk 64 s next (kent_of k) with Ret s' => karena_inserts s' (next + 1) ks' | Err e => Err e end
  end.
Fixpoint ktree_inserts (t: ktree) (next: N) (ks: list Z) : ktree :=
  match ks with [] => t | k :: ks' => ktree_inserts (RBTree.insert_tree kent kk t next (kent_of k)) (next + 1) ks' end.

(* the pool after [n] insertions into a new tree *)
Fixpoint pool_after (n: nat) (p: pool) : pool :=
  match n with O => p | S n' => match pool_get p with Some (_, p') => pool_after n' p' | None => p end end.

Definition check_export (ks: list Z) : Prop :=
  match karena_inserts (ArenaModel.empty_arena kent0) 1 ks with
  | Ret a =>
    read_tree 64 a EMPTY (aroot a) = Some (ktree_inserts E 1 ks) /\
    arena_height 64 a = Ret (old_height (ktree_inserts E 1 ks)) /\
    export_count (pool_after (length ks) (tree_pool_new 8)) =
      Ret (k_export_capacity {| kroot := ktree_inserts E 1 ks; kpl := pool0 |}) /\
    all (fun time => arena_export 200 a time = Ret (k_export {| kroot := ktree_inserts E 1 ks; kpl := pool0 |} time))
        (zrange (-1) 15)
  | Err _ => False
  end.

Example arena_export_agrees :
  check_export ks_a /\ check_export ks_b /\ check_export ks_c /\ check_export ks_d /\ check_export ks_e /\
  check_export [] /\ check_export [7%Z].
Proof. vm_compute. repeat split; reflexivity. Qed.

(** one step of the whole map / set interface: a history run on the tree-level model and on the arena,
    outputs, tree (read back) and pool compared after every step (boolean comparisons, so that the
    whole run is one evaluation); steps outside the contract of the tree-level model (a handle that is
    not stored) are skipped and counted *)
Fixpoint mtree_eqb (t u: mtree) : bool :=
  match t, u with
  | E, E => true
  | T c l x e r, T c' l' x' e' r' =>
    color_eqb c c' && N.eqb x x' && Z.eqb (fst e) (fst e') && Z.eqb (snd e) (snd e') && mtree_eqb l l' && mtree_eqb r r'
  | _, _ => false
  end.
Fixpoint listN_eqb (l m: list N) : bool :=
  match l, m with
  | [], [] => true
  | x :: l', y :: m' => N.eqb x y && listN_eqb l' m'
  | _, _ => false
  end.
Definition pool_eqb (p q: pool) : bool :=
  N.eqb (blen p) (blen q) && listN_eqb (unused p) (unused q) && N.eqb (ucap p) (ucap q).
Definition mout_eqb (o1 o2: mout) : bool :=
  match o1, o2 with
  | ONone, ONone => true
  | OEnt None, OEnt None => true
  | OEnt (Some e), OEnt (Some e') => Z.eqb (fst e) (fst e') && Z.eqb (snd e) (snd e')
  | OBool b, OBool b' => Bool.eqb b b'
  | OHandle None, OHandle None => true
  | OHandle (Some x), OHandle (Some y) => N.eqb x y
  | _, _ => false
  end.

Lemma mtree_eqb_eq t : forall u, mtree_eqb t u = true -> t = u.
Proof.
  induction t as [|c l IHl x e r IHr]; intros [|c' l' x' e' r']; cbn [mtree_eqb]; try discriminate; [reflexivity|].
  rewrite !andb_true_iff. intros (((((Hc & Hx) & H1) & H2) & Hl) & Hr).
  apply N.eqb_eq in Hx. apply Z.eqb_eq in H1, H2. rewrite (IHl _ Hl), (IHr _ Hr), Hx.
  destruct e, e'; cbn [fst snd] in *; subst. destruct c, c'; try discriminate; reflexivity.
Qed.

Fixpoint mrun_check (s: mstate) (st: mast) (ops: list mop) : bool :=
  match ops with
  | [] => true
  | o :: ops' =>
    match m_step s o with
    | Err _ => mrun_check s st ops'
    | Ret (s', out) =>
      match arena_m_step 64 st o with
      | Ret (st', out') =>
        mout_eqb out' out &&
        match read_tree 64 (fst st') EMPTY (aroot (fst st')) with Some t => mtree_eqb t (root s') | None => false end &&
        pool_eqb (snd st') (pl s') && mrun_check s' st' ops'
      | Err _ => false
      end
    end
  end.
Fixpoint mrun_skipped (s: mstate) (ops: list mop) : nat :=
  match ops with
  | [] => 0
  | o :: ops' => match m_step s o with Err _ => S (mrun_skipped s ops') | Ret (s', _) => mrun_skipped s' ops' end
  end.

Definition mhist : list mop :=
  map (fun k => MIns k (k * 3)) ks_c ++
  [MGet 5; MGet 100; MIsEmpty; MFirst 17; MFirst 0; MFirst 99; MFirstBy (band3 20); MFirstBy (band3 (-7));
   MValAt 3; MSetAt 3 777; MValAt 3; MGet 10] ++
  map MAfter (nseq 1 40) ++ map MBefore (nseq 1 40) ++
  map MDel [5; 17; 23; 100; 1; 40; 20]%Z ++ map MDelAt (nseq 1 12) ++
  map MAfter (nseq 1 40) ++ map MBefore (nseq 1 40) ++ map (fun k => MGet k) (zrange 0 42) ++
  map (fun k => MIns k k) [100; 5; 17; 101]%Z ++ map MFirst (zrange 0 42) ++
  [MClear; MIsEmpty; MGet 7; MFirst 7; MClear] ++ map (fun k => MIns k (k + 1)) ks_e ++
  map MAfter (nseq 1 45) ++ map MDel ks_e ++ [MIsEmpty].

Example arena_m_step_agrees :
  mrun_check (m_new 8) (empty_arena, pl (m_new 8)) mhist = true /\
  (length mhist = 414 /\ mrun_skipped (m_new 8) mhist = 58)%nat.
Proof. vm_compute. repeat split; reflexivity. Qed.

End Validation.

(** ** the generic proofs *)
Section ArenaQueryProofs.
Context {ent : Type}.

Notation anode := (anode ent).
Notation astate := (astate ent).
Notation mtree := (tree ent).
Notation mslots := (slots ent).
Notation frame := (@frame ent).
Notation ctx := (@ctx ent).
Notation height := (height ent).
Notation ent_at := (ent_at ent).
Notation after_in := (after_in ent).
Notation before_in := (before_in ent).
Notation leftmost := (leftmost ent).
Notation rightmost := (rightmost ent).
Implicit Types a : astate.

(** *** the entity stored at a slot of a represented tree *)
Lemma ent_at_node c (l: mtree) i e r x :
  ent_at (T c l i e r) x =
  if N.eqb i x then Some e else match ent_at l x with Some e' => Some e' | None => ent_at r x end.
Proof.
  unfold RBTree.ent_at. cbn [sub]. destruct (N.eqb i x); [reflexivity|].
  destruct (sub ent l x) as [u|] eqn:Hs; [|reflexivity].
  destruct (sub_subtree ent l x u Hs) as (_ & c0 & l0 & e0 & r0 & ->). reflexivity.
Qed.

Lemma ent_at_rep a p x t : Rep a p x t -> forall s, In s (mslots t) -> ent_at t s = Some (aent (nodes a s)).
Proof.
  induction 1 as [p|p i c l e r Hi Hp Hc He Hl IHl Hr IHr]; intros s Hs; [destruct Hs|].
  rewrite ent_at_node. destruct (N.eqb_spec i s) as [->|Hne]; [rewrite He; reflexivity|].
  rewrite slots_T, in_app_iff in Hs. cbn [In] in Hs. destruct Hs as [Hs|[Hs|Hs]]; [|congruence|].
  - rewrite (IHl s Hs). reflexivity.
  - destruct (ent_at l s) as [e'|] eqn:El; [|apply IHr; exact Hs].
    (* a slot stored on both sides: the arena holds one entity for it *)
    destruct (in_dec N.eq_dec s (mslots l)) as [Hin|Hnin].
    + rewrite (IHl s Hin) in El. symmetry. exact El.
    + rewrite (ent_at_none ent l s Hnin) in El. discriminate.
Qed.

(** *** the descents *)
Section Descents.
Variable key_of : ent -> Z.
Notation find_slot := (find_slot ent key_of).
Notation first_by := (first_by ent key_of).

Lemma find_slot_in (t: mtree) k s : find_slot t k = Some s -> In s (mslots t).
Proof.
  induction t as [|c l IHl i e r IHr]; cbn [RBTree.find_slot]; [discriminate|]. rewrite slots_T, in_app_iff. cbn [In].
  destruct (Z.compare k (key_of e)); [intros H; inversion H; auto|auto|auto].
Qed.

Lemma first_by_in (t: mtree) f : forall res s, first_by t f res = Some s -> In s (mslots t) \/ res = Some s.
Proof.
  induction t as [|c l IHl i e r IHr]; intros res s; cbn [RBTree.first_by]; [auto|]. rewrite slots_T, in_app_iff. cbn [In].
  destruct (f (key_of e)).
  - intros H; inversion H; auto.
  - intros H. destruct (IHr _ _ H) as [K|K]; [auto|inversion K; auto].
  - intros H. destruct (IHl _ _ H) as [K|K]; auto.
Qed.

Lemma lookup_spec (A: Type) (hit: N -> A) (miss: A) a k : forall t p x fuel,
  Rep a p x t -> (height t < fuel)%nat ->
  arena_lookup key_of fuel a x (cmp_key k) hit miss =
  Ret (match find_slot t k with Some s => hit s | None => miss end).
Proof.
  induction t as [|c l IHl i e r IHr]; intros p x fuel HR Hf; (destruct fuel as [|fu]; [lia|]); cbn [arena_lookup].
  - apply Rep_inv_E in HR. rewrite HR, N.eqb_refl. reflexivity.
  - apply Rep_inv_T in HR. destruct HR as (-> & Ni & _ & _ & He & Hl & Hr).
    apply N.eqb_neq in Ni. rewrite Ni, He. cbn [RBTree.find_slot RBTree.height] in *. unfold cmp_key.
    destruct (Z.compare k (key_of e)); [reflexivity| |].
    + apply (IHl i); [exact Hl|lia].
    + apply (IHr i); [exact Hr|lia].
Qed.

(* find_index: the handle of the tree-level descent, EMPTY for None *)
Theorem arena_find_index_refines a t k fuel :
  Rep a EMPTY (aroot a) t -> (height t < fuel)%nat ->
  arena_find_index key_of fuel a k = Ret (olink (find_slot t k)).
Proof.
  intros HR Hf. unfold arena_find_index. rewrite (lookup_spec _ _ _ a k t EMPTY (aroot a) fuel HR Hf).
  destruct (find_slot t k); reflexivity.
Qed.

(* search_value: the entity of the node found = [ent_at] of the handle (MapModel.m_get) *)
Theorem arena_search_value_refines a t k fuel :
  Rep a EMPTY (aroot a) t -> (height t < fuel)%nat ->
  arena_search_value key_of fuel a k =
  Ret (match find_slot t k with None => None | Some x => ent_at t x end).
Proof.
  intros HR Hf. unfold arena_search_value. rewrite (lookup_spec _ _ _ a k t EMPTY (aroot a) fuel HR Hf).
  destruct (find_slot t k) as [s|] eqn:Hs; [|reflexivity].
  rewrite (ent_at_rep a _ _ t HR s (find_slot_in t k s Hs)). reflexivity.
Qed.

Lemma first_loop_spec a f : forall t p x fuel res,
  Rep a p x t -> (height t < fuel)%nat ->
  arena_first_loop key_of fuel a x f (olink res) = Ret (olink (first_by t f res)).
Proof.
  induction t as [|c l IHl i e r IHr]; intros p x fuel res HR Hf; (destruct fuel as [|fu]; [lia|]); cbn [arena_first_loop].
  - apply Rep_inv_E in HR. rewrite HR, N.eqb_refl. reflexivity.
  - apply Rep_inv_T in HR. destruct HR as (-> & Ni & _ & _ & He & Hl & Hr).
    apply N.eqb_neq in Ni. rewrite Ni, He. cbn [RBTree.first_by RBTree.height] in *.
    destruct (f (key_of e)); [reflexivity| |].
    + apply (IHr i _ fu (Some i)); [exact Hr|lia].
    + apply (IHl i); [exact Hl|lia].
Qed.

(* search_first_less_by / search_first_less *)
Theorem arena_search_first_less_by_refines a t f fuel :
  Rep a EMPTY (aroot a) t -> (height t < fuel)%nat ->
  arena_search_first_less_by key_of fuel a f = Ret (olink (first_by t f None)).
Proof. intros HR Hf. apply (first_loop_spec a f t EMPTY (aroot a) fuel None HR Hf). Qed.

Theorem arena_search_first_less_refines a t k fuel :
  Rep a EMPTY (aroot a) t -> (height t < fuel)%nat ->
  arena_search_first_less key_of fuel a k = Ret (olink (first_by t (cmp_to k) None)).
Proof. intros HR Hf. apply arena_search_first_less_by_refines; assumption. Qed.

End Descents.

(** *** the neighbour steps: find_left_minimum / find_right_minimum and the climb *)
Lemma find_left_spec a : forall t p x fuel d, Rep a p x t -> t <> E -> (height t <= fuel)%nat ->
  find_left_minimum fuel a x = Ret (olink (leftmost t d)).
Proof.
  induction t as [|c l IHl i e r _]; intros p x fuel d HR Hne Hf; [congruence|].
  cbn [RBTree.height] in Hf. destruct fuel as [|f]; [lia|]. cbn [find_left_minimum RBTree.leftmost].
  apply Rep_inv_T in HR. destruct HR as (-> & Ni & _ & _ & _ & Hl & _).
  destruct l as [|lc ll li le lr].
  - apply Rep_inv_E in Hl. rewrite Hl, N.eqb_refl. reflexivity.
  - pose proof (Rep_inv_T _ _ _ _ _ _ _ _ Hl) as (Hli & Nli & _). rewrite Hli in *.
    apply N.eqb_neq in Nli. rewrite Nli. cbn [negb].
    apply (IHl i li f (Some i)); [exact Hl|discriminate|lia].
Qed.

Lemma find_right_spec a : forall t p x fuel d, Rep a p x t -> t <> E -> (height t <= fuel)%nat ->
  find_right_minimum fuel a x = Ret (olink (rightmost t d)).
Proof.
  induction t as [|c l _ i e r IHr]; intros p x fuel d HR Hne Hf; [congruence|].
  cbn [RBTree.height] in Hf. destruct fuel as [|f]; [lia|]. cbn [find_right_minimum RBTree.rightmost].
  apply Rep_inv_T in HR. destruct HR as (-> & Ni & _ & _ & _ & _ & Hr).
  destruct r as [|rc rl ri re rr].
  - apply Rep_inv_E in Hr. rewrite Hr, N.eqb_refl. reflexivity.
  - pose proof (Rep_inv_T _ _ _ _ _ _ _ _ Hr) as (Hri & Nri & _). rewrite Hri in *.
    apply N.eqb_neq in Nri. rewrite Nri. cbn [negb].
    apply (IHr i ri f (Some i)); [exact Hr|discriminate|lia].
Qed.

(* the nearest ancestor whose LEFT subtree contains the hole (the first frame of kind FL): where the
   climb of index_after stops; and its mirror *)
Fixpoint next_up (k: ctx) (anc: option N) : option N :=
  match k with
  | [] => anc
  | FL _ i _ _ :: _ => Some i
  | FR _ _ _ _ :: k' => next_up k' anc
  end.
Fixpoint prev_up (k: ctx) (anc: option N) : option N :=
  match k with
  | [] => anc
  | FR _ _ i _ :: _ => Some i
  | FL _ _ _ _ :: k' => prev_up k' anc
  end.

Lemma after_in_notin (t: mtree) x : forall anc, ~ In x (mslots t) -> after_in t x anc = None.
Proof.
  induction t as [|c l IHl i e r IHr]; intros anc Hx; [reflexivity|]. cbn [RBTree.after_in].
  rewrite slots_T, in_app_iff in Hx. cbn [In] in Hx.
  destruct (N.eqb_spec i x) as [->|Hne]; [tauto|]. rewrite IHl by tauto. apply IHr. tauto.
Qed.

Lemma after_in_in (t: mtree) x : forall anc, In x (mslots t) -> after_in t x anc <> None.
Proof.
  induction t as [|c l IHl i e r IHr]; intros anc Hx; [destruct Hx|]. cbn [RBTree.after_in].
  rewrite slots_T, in_app_iff in Hx. cbn [In] in Hx.
  destruct (N.eqb_spec i x) as [->|Hne]; [discriminate|].
  destruct (RBTree.after_in ent l x (Some i)) eqn:El; [discriminate|].
  destruct Hx as [Hx|[Hx|Hx]]; [|congruence|].
  - exfalso. eapply IHl; eauto.
  - apply IHr. exact Hx.
Qed.

Lemma before_in_notin (t: mtree) x : forall anc, ~ In x (mslots t) -> before_in t x anc = None.
Proof.
  induction t as [|c l IHl i e r IHr]; intros anc Hx; [reflexivity|]. cbn [RBTree.before_in].
  rewrite slots_T, in_app_iff in Hx. cbn [In] in Hx.
  destruct (N.eqb_spec i x) as [->|Hne]; [tauto|]. rewrite IHl by tauto. apply IHr. tauto.
Qed.

Lemma before_in_in (t: mtree) x : forall anc, In x (mslots t) -> before_in t x anc <> None.
Proof.
  induction t as [|c l IHl i e r IHr]; intros anc Hx; [destruct Hx|]. cbn [RBTree.before_in].
  rewrite slots_T, in_app_iff in Hx. cbn [In] in Hx.
  destruct (N.eqb_spec i x) as [->|Hne]; [discriminate|].
  destruct (RBTree.before_in ent l x anc) eqn:El; [discriminate|].
  destruct Hx as [Hx|[Hx|Hx]]; [|congruence|].
  - exfalso. eapply IHl; eauto.
  - apply IHr. exact Hx.
Qed.

(* the neighbour of a slot of a subtree, seen from the whole tree: the ancestor is the nearest frame
   of the right kind *)
Lemma after_in_plug k : forall (u: mtree) x anc, NoDup (mslots (plug k u)) -> In x (mslots u) ->
  after_in (plug k u) x anc = after_in u x (next_up k anc).
Proof.
  induction k as [|f k IH]; intros u x anc ND Hx; [reflexivity|]. cbn [plug].
  pose proof (nodup_plug_inner k _ ND) as ND1.
  rewrite IH; [|exact ND|destruct f; cbn [plug1]; rewrite slots_T, in_app_iff; cbn [In]; auto].
  destruct f as [c i e r|c l i e]; cbn [plug1 RBTree.after_in next_up] in *;
    destruct (NoDup_node ent _ _ _ _ _ ND1) as (NDl & NDr & Hil & Hir & Hlr).
  - destruct (N.eqb_spec i x) as [->|Hne]; [contradiction|].
    destruct (RBTree.after_in ent u x (Some i)) eqn:Eu; [reflexivity|].
    exfalso. eapply after_in_in; eauto.
  - destruct (N.eqb_spec i x) as [->|Hne]; [contradiction|].
    rewrite after_in_notin; [reflexivity|]. intros K. eapply Hlr; eauto.
Qed.

Lemma before_in_plug k : forall (u: mtree) x anc, NoDup (mslots (plug k u)) -> In x (mslots u) ->
  before_in (plug k u) x anc = before_in u x (prev_up k anc).
Proof.
  induction k as [|f k IH]; intros u x anc ND Hx; [reflexivity|]. cbn [plug].
  pose proof (nodup_plug_inner k _ ND) as ND1.
  rewrite IH; [|exact ND|destruct f; cbn [plug1]; rewrite slots_T, in_app_iff; cbn [In]; auto].
  destruct f as [c i e r|c l i e]; cbn [plug1 RBTree.before_in prev_up] in *;
    destruct (NoDup_node ent _ _ _ _ _ ND1) as (NDl & NDr & Hil & Hir & Hlr).
  - destruct (N.eqb_spec i x) as [->|Hne]; [contradiction|].
    destruct (RBTree.before_in ent u x (prev_up k anc)) eqn:Eu; [reflexivity|].
    exfalso. eapply before_in_in; eauto.
  - destruct (N.eqb_spec i x) as [->|Hne]; [contradiction|].
    rewrite before_in_notin; [reflexivity|]. intros K. eapply Hlr; eauto.
Qed.

(* the link of a represented tree is not a slot that the tree does not contain *)
Lemma link_ne a p y (t: mtree) x : Rep a p y t -> x <> EMPTY -> ~ In x (mslots t) -> y <> x.
Proof.
  intros HR Nx Hx ->. destruct t as [|c l i e r].
  - apply Rep_inv_E in HR. contradiction.
  - apply Rep_inv_T in HR. destruct HR as (-> & _). apply Hx. rewrite slots_T, in_app_iff. cbn [In]. auto.
Qed.

(* THE parent-pointer lemma: climbing from the hole of a context while we are a right child ends at
   the first ancestor reached from its left subtree ([EMPTY] at the root), within [length k + 1]
   iterations *)
Lemma climb_right_spec a : forall k x fuel,
  RepC a k -> hole_link a k = x -> x <> EMPTY -> ~ In x (cslots k) -> NoDup (cslots k) ->
  (length k < fuel)%nat ->
  climb_while_right fuel a x (owner k) = Ret (olink (next_up k None)).
Proof.
  induction k as [|f k IH]; intros x fuel HC Hh Nx Hx ND Hf; (destruct fuel as [|fu]; [lia|]); cbn [climb_while_right].
  - cbn [owner]. rewrite N.eqb_refl. reflexivity.
  - cbn [RepC] in HC. destruct HC as (HF & Hl & HC). cbn [length] in Hf.
    cbn [cslots] in Hx, ND. unfold fslots in Hx, ND. rewrite in_app_iff in Hx. cbn [In] in Hx.
    destruct f as [c i e r|c l i e]; cbn [owner fslot fsib RepF hole_link flink next_up] in *;
      destruct HF as (Ni & Hp & _ & _ & Hs); pose proof Ni as Ni'; apply N.eqb_neq in Ni'; rewrite Ni'.
    + (* we are the left child: stop *)
      assert (Hne: rgt (nodes a i) <> x).
      { eapply link_ne; [exact Hs|exact Nx|]. intros K. tauto. }
      apply N.eqb_neq in Hne. rewrite Hne. reflexivity.
    + (* we are the right child: go on from the parent *)
      rewrite Hh, N.eqb_refl. cbn [negb]. rewrite Hp.
      change (i :: mslots l ++ cslots k) with ((i :: mslots l) ++ cslots k) in ND.
      apply NoDup_app_iff in ND. destruct ND as (ND1 & ND2 & ND3).
      apply IH; auto; [|lia]. intros K. apply (ND3 i); [left; reflexivity|exact K].
Qed.

Lemma climb_left_spec a : forall k x fuel,
  RepC a k -> hole_link a k = x -> x <> EMPTY -> ~ In x (cslots k) -> NoDup (cslots k) ->
  (length k < fuel)%nat ->
  climb_while_left fuel a x (owner k) = Ret (olink (prev_up k None)).
Proof.
  induction k as [|f k IH]; intros x fuel HC Hh Nx Hx ND Hf; (destruct fuel as [|fu]; [lia|]); cbn [climb_while_left].
  - cbn [owner]. rewrite N.eqb_refl. reflexivity.
  - cbn [RepC] in HC. destruct HC as (HF & Hl & HC). cbn [length] in Hf.
    cbn [cslots] in Hx, ND. unfold fslots in Hx, ND. rewrite in_app_iff in Hx. cbn [In] in Hx.
    destruct f as [c i e r|c l i e]; cbn [owner fslot fsib RepF hole_link flink prev_up] in *;
      destruct HF as (Ni & Hp & _ & _ & Hs); pose proof Ni as Ni'; apply N.eqb_neq in Ni'; rewrite Ni'.
    + (* we are the left child: go on from the parent *)
      rewrite Hh, N.eqb_refl. cbn [negb]. rewrite Hp.
      change (i :: mslots r ++ cslots k) with ((i :: mslots r) ++ cslots k) in ND.
      apply NoDup_app_iff in ND. destruct ND as (ND1 & ND2 & ND3).
      apply IH; auto; [|lia]. intros K. apply (ND3 i); [left; reflexivity|exact K].
    + (* we are the right child: stop *)
      assert (Hne: lft (nodes a i) <> x).
      { eapply link_ne; [exact Hs|exact Nx|]. intros K. tauto. }
      apply N.eqb_neq in Hne. rewrite Hne. reflexivity.
Qed.

(* index_after / index_before of a stored slot: the handle of [after_in] / [before_in] (the list
   successor / predecessor, Proofs/TreeLookup.v), EMPTY at the ends; fuel = the height of the tree *)
Theorem arena_index_after_refines a t x fuel :
  Rep a EMPTY (aroot a) t -> NoDup (mslots t) -> In x (mslots t) -> (height t <= fuel)%nat ->
  exists y, after_in t x None = Some y /\ arena_index_after fuel a x = Ret (olink y).
Proof.
  intros HR ND Hx Hf. destruct (slot_focus t x Hx) as (k & c & l & e & r & ->).
  destruct (Rep_unplug a k _ HR) as (HC & HT).
  pose proof (Rep_inv_T _ _ _ _ _ _ _ _ HT) as (Hh & Nx & Hp & _ & _ & _ & Hr).
  pose proof (height_plug k (T c l x e r)) as Hh1. cbn [RBTree.height] in Hh1.
  assert (Hxn: In x (mslots (T c l x e r))) by (rewrite slots_T, in_app_iff; cbn [In]; auto).
  rewrite (after_in_plug k _ x None ND Hxn). cbn [RBTree.after_in]. rewrite N.eqb_refl.
  eexists. split; [reflexivity|]. unfold arena_index_after.
  destruct r as [|rc rl ri re rr].
  - apply Rep_inv_E in Hr. rewrite Hr, N.eqb_refl. cbn [negb RBTree.leftmost]. rewrite Hp.
    pose proof (nd_foc k _ ND) as ND'. apply NoDup_app_iff in ND'. destruct ND' as (_ & NDk & Hd).
    apply climb_right_spec; auto; [|lia]. intros K. exact (Hd x Hxn K).
  - pose proof (Rep_inv_T _ _ _ _ _ _ _ _ Hr) as (Hri & Nri & _). rewrite Hri in *.
    apply N.eqb_neq in Nri. rewrite Nri. cbn [negb].
    apply (find_left_spec a _ x ri fuel (next_up k None) Hr); [discriminate|lia].
Qed.

Theorem arena_index_before_refines a t x fuel :
  Rep a EMPTY (aroot a) t -> NoDup (mslots t) -> In x (mslots t) -> (height t <= fuel)%nat ->
  exists y, before_in t x None = Some y /\ arena_index_before fuel a x = Ret (olink y).
Proof.
  intros HR ND Hx Hf. destruct (slot_focus t x Hx) as (k & c & l & e & r & ->).
  destruct (Rep_unplug a k _ HR) as (HC & HT).
  pose proof (Rep_inv_T _ _ _ _ _ _ _ _ HT) as (Hh & Nx & Hp & _ & _ & Hl & _).
  pose proof (height_plug k (T c l x e r)) as Hh1. cbn [RBTree.height] in Hh1.
  assert (Hxn: In x (mslots (T c l x e r))) by (rewrite slots_T, in_app_iff; cbn [In]; auto).
  rewrite (before_in_plug k _ x None ND Hxn). cbn [RBTree.before_in]. rewrite N.eqb_refl.
  eexists. split; [reflexivity|]. unfold arena_index_before.
  destruct l as [|lc ll li le lr].
  - apply Rep_inv_E in Hl. rewrite Hl, N.eqb_refl. cbn [negb RBTree.rightmost]. rewrite Hp.
    pose proof (nd_foc k _ ND) as ND'. apply NoDup_app_iff in ND'. destruct ND' as (_ & NDk & Hd).
    apply climb_left_spec; auto; [|lia]. intros K. exact (Hd x Hxn K).
  - pose proof (Rep_inv_T _ _ _ _ _ _ _ _ Hl) as (Hli & Nli & _). rewrite Hli in *.
    apply N.eqb_neq in Nli. rewrite Nli. cbn [negb].
    apply (find_right_spec a _ x li fuel (prev_up k None) Hl); [discriminate|lia].
Qed.

(** *** clear: the free list itself is the queue of a level-order walk *)
Notation root_slots := (root_slots ent).
Notation children := (children ent).
Notation bfs := (bfs ent).
Notation level_order := (level_order ent).

(* a non-empty subtree represented in the arena (under some owner) *)
Definition good a (u: mtree) : Prop := u <> E /\ exists p, Rep a p (rlink u) u.

Definition kids (u: mtree) : list mtree := match u with E => [] | _ => [u] end.

Lemma children_kids c (l: mtree) i e r : children (T c l i e r) = kids l ++ kids r.
Proof. reflexivity. Qed.

Lemma good_children a u : good a u -> Forall (good a) (children u).
Proof.
  intros (Hne & p & HR). destruct u as [|c l i e r]; [congruence|]. cbn [rlink] in HR.
  apply Rep_inv_T in HR. destruct HR as (_ & _ & _ & _ & _ & Hl & Hr).
  rewrite children_kids. apply Forall_app. split.
  - destruct l; cbn [kids]; constructor; [|constructor]. split; [discriminate|]. exists i.
    rewrite <- (Rep_link _ _ _ _ Hl). exact Hl.
  - destruct r; cbn [kids]; constructor; [|constructor]. split; [discriminate|]. exists i.
    rewrite <- (Rep_link _ _ _ _ Hr). exact Hr.
Qed.

Lemma good_children_all a level : Forall (good a) level -> Forall (good a) (flat_map children level).
Proof.
  induction 1 as [|u level Hu _ IH]; cbn [flat_map]; [constructor|]. apply Forall_app. split; [apply good_children; exact Hu|exact IH].
Qed.

Lemma root_slots_good a level : Forall (good a) level -> flat_map root_slots level = map rlink level.
Proof.
  induction 1 as [|u level (Hne & _) _ IH]; cbn [flat_map map]; [reflexivity|]. rewrite IH.
  destruct u; [congruence|reflexivity].
Qed.

Lemma bfs_nil b : bfs b [] = [].
Proof. destruct b; reflexivity. Qed.

Lemma bfs_step b lv : bfs (S b) lv = flat_map root_slots lv ++ bfs b (flat_map children lv).
Proof. destruct lv; [cbn [flat_map app]; rewrite !bfs_nil; reflexivity|reflexivity]. Qed.

(* the free list as the Rust Vec (oldest entry first) *)
Definition vec (p: pool) : list N := rev (unused p).

Lemma vec_put p x : vec (pool_put p x) = vec p ++ [x].
Proof. reflexivity. Qed.

Lemma vec_put_all l : forall p, vec (fold_left pool_put l p) = vec p ++ l.
Proof.
  induction l as [|x l IH]; intros p; cbn [fold_left]; [rewrite app_nil_r; reflexivity|].
  rewrite IH, vec_put, <- app_assoc. reflexivity.
Qed.

Lemma vec_len_length p : vec_len p = N.of_nat (length (vec p)).
Proof. unfold vec_len, vec. rewrite rev_length. reflexivity. Qed.

Lemma vec_get_at p A x B : vec p = A ++ x :: B -> vec_get p (N.of_nat (length A)) = Some x.
Proof.
  intros H. unfold vec_get. fold (vec p). rewrite H, Nat2N.id, nth_error_app2 by lia.
  rewrite Nat.sub_diag. reflexivity.
Qed.

(* one child link of the node being visited *)
Lemma push_kid a i y (ch: mtree) (P: pool) (n: N) : Rep a i y ch ->
  (if negb (N.eqb y EMPTY) then (pool_put P y, n + 1) else (P, n)) =
  (fold_left pool_put (flat_map root_slots (kids ch)) P, n + N.of_nat (length (kids ch))).
Proof.
  intros HR. destruct ch as [|c l j e r].
  - apply Rep_inv_E in HR. rewrite HR, N.eqb_refl. cbn [negb kids flat_map fold_left length].
    rewrite N.add_0_r. reflexivity.
  - apply Rep_inv_T in HR. destruct HR as (-> & Nj & _). apply N.eqb_neq in Nj. rewrite Nj. reflexivity.
Qed.

(* the [for] loop over one level: the children of the nodes of the level, left before right, are
   pushed; [n] counts them *)
Lemma clear_row_spec a : forall todo A B P i n,
  Forall (good a) todo -> vec P = A ++ map rlink todo ++ B -> i = N.of_nat (length A) ->
  clear_row (length todo) a P i n =
  Ret (fold_left pool_put (flat_map root_slots (flat_map children todo)) P,
       n + N.of_nat (length (flat_map children todo))).
Proof.
  induction todo as [|u todo IH]; intros A B P i n HG HV Hi; cbn [length clear_row flat_map fold_left].
  - rewrite N.add_0_r. reflexivity.
  - inversion HG as [|u' todo' (Hne & p & HR) HG']; subst u' todo'.
    destruct u as [|c l x e r]; [congruence|]. cbn [rlink map] in *.
    cbn [app] in HV. rewrite Hi, (vec_get_at P A x _ HV).
    apply Rep_inv_T in HR. destruct HR as (_ & Nx & _ & _ & _ & Hl & Hr).
    rewrite (push_kid a x _ l P n Hl).
    rewrite (push_kid a x _ r _ _ Hr).
    set (P2 := fold_left pool_put (flat_map root_slots (kids r)) (fold_left pool_put (flat_map root_slots (kids l)) P)).
    rewrite (IH (A ++ [x]) (B ++ flat_map root_slots (kids l) ++ flat_map root_slots (kids r)) P2).
    + f_equal. f_equal.
      * rewrite children_kids, !flat_map_app, !fold_left_app. reflexivity.
      * rewrite children_kids, !app_length. lia.
    + exact HG'.
    + unfold P2. rewrite !vec_put_all, HV. cbn [app]. rewrite <- !app_assoc. cbn [app]. rewrite <- !app_assoc. reflexivity.
    + rewrite app_length. cbn [length]. lia.
Qed.

(* the [while] loop: [level] is the level whose nodes were pushed last *)
Lemma clear_loop_spec a : forall bf level P n fuel B,
  Forall (good a) level -> (forall u, In u level -> (height u <= bf)%nat) ->
  vec P = B ++ map rlink level -> n = N.of_nat (length level) -> (bf < fuel)%nat ->
  clear_loop fuel a P n = Ret (fold_left pool_put (bfs bf (flat_map children level)) P).
Proof.
  induction bf as [|b IH]; intros level P n fuel B HG Hh HV Hn Hf; (destruct fuel as [|f]; [lia|]); cbn [clear_loop].
  - destruct level as [|u level].
    + subst n. reflexivity.
    + exfalso. inversion HG as [|u' l' (Hne & _) _]; subst. specialize (Hh u (or_introl eq_refl)).
      destruct u; [congruence|]. cbn [RBTree.height] in Hh. lia.
  - destruct level as [|u0 level0].
    + subst n. cbn [flat_map]. rewrite bfs_nil. reflexivity.
    + remember (u0 :: level0) as level eqn:Hlev.
      assert (Hpos: N.ltb 0 n = true) by (apply N.ltb_lt; subst n level; cbn [length]; lia).
      rewrite Hpos. rewrite vec_len_length, HV, app_length, map_length.
      assert (Hlt: N.ltb (N.of_nat (length B + length level)) n = false) by (apply N.ltb_ge; lia).
      rewrite Hlt. cbn [bind].
      replace (N.of_nat (length B + length level) - n) with (N.of_nat (length B)) by lia.
      replace (N.to_nat (N.of_nat (length B + length level) - N.of_nat (length B))) with (length level) by lia.
      rewrite (clear_row_spec a level B [] P _ 0 HG); [|rewrite app_nil_r; exact HV|reflexivity].
      cbn [bind fst snd]. rewrite N.add_0_l.
      pose proof (good_children_all a level HG) as HG'.
      rewrite (IH (flat_map children level) _ _ f (B ++ map rlink level)).
      * rewrite bfs_step, fold_left_app. reflexivity.
      * exact HG'.
      * intros u Hu. apply in_flat_map in Hu. destruct Hu as (w & Hw & Hu).
        pose proof (children_height ent (fun _ => 0%Z) w u Hu). specialize (Hh w Hw). lia.
      * rewrite vec_put_all, HV, (root_slots_good a _ HG'). reflexivity.
      * reflexivity.
      * lia.
Qed.

(* clear(): the pool of the tree-level model ([MapModel.m_clear], [KeyModel.k_clear]: the slots are
   pushed in level order, so the free list has the same ORDER), the root is EMPTY and no node is
   written; needs neither [NoDup] nor the pool invariant *)
Theorem arena_clear_refines a t p fuel :
  Rep a EMPTY (aroot a) t -> (height t < fuel)%nat ->
  exists a', arena_clear fuel (a, p) = Ret (a', fold_left pool_put (level_order t) p) /\
             aroot a' = EMPTY /\ (forall j, nodes a' j = nodes a j).
Proof.
  intros HR Hf. unfold arena_clear. destruct t as [|c l i e r].
  - apply Rep_inv_E in HR. rewrite HR, N.eqb_refl. exists a. repeat split; auto.
  - pose proof (Rep_inv_T _ _ _ _ _ _ _ _ HR) as (Hi & Ni & _). rewrite Hi. apply N.eqb_neq in Ni. rewrite Ni.
    set (t := T c l i e r) in *.
    assert (HG: Forall (good (set_root a EMPTY)) [t]).
    { constructor; [|constructor]. split; [discriminate|]. exists EMPTY. cbn [rlink t].
      rewrite Hi in HR. eapply Rep_frame; [exact HR|]. reflexivity. }
    rewrite (clear_loop_spec (set_root a EMPTY) (height t) [t] (pool_put p i) 1 fuel (vec p) HG).
    + cbn [bind]. exists (set_root a EMPTY). split; [|split; reflexivity].
      unfold RBTree.level_order. rewrite bfs_step. cbn [flat_map]. rewrite !app_nil_r. reflexivity.
    + intros u [<-|[]]. lia.
    + rewrite vec_put. reflexivity.
    + reflexivity.
    + exact Hf.
Qed.

(** *** the accessors: is_empty, value_by_index, the write through value_by_index_mut *)
Theorem arena_is_empty_refines a t : Rep a EMPTY (aroot a) t ->
  arena_is_empty a = match t with E => true | _ => false end.
Proof.
  intros HR. unfold arena_is_empty. destruct t as [|c l i e r].
  - apply Rep_inv_E in HR. rewrite HR. apply N.eqb_refl.
  - apply Rep_inv_T in HR. destruct HR as (-> & Ni & _). apply N.eqb_neq. exact Ni.
Qed.

Theorem arena_value_by_index_refines a t x : Rep a EMPTY (aroot a) t -> In x (mslots t) ->
  ent_at t x = Some (arena_value_by_index a x).
Proof. intros HR Hx. exact (ent_at_rep a _ _ t HR x Hx). Qed.

Lemma Rep_set_ent a h ne : forall p x t, Rep a p x t -> NoDup (mslots t) ->
  Rep (set_ent a h ne) p x (set_at ent t h ne).
Proof.
  induction 1 as [p|p i c l e r Hi Hp Hc He Hl IHl Hr IHr]; intros ND; cbn [set_at]; [constructor|].
  destruct (NoDup_node ent _ _ _ _ _ ND) as (NDl & NDr & Hil & Hir & Hlr). unfold set_ent in *.
  destruct (N.eqb_spec i h) as [->|Hne].
  - constructor; rewrite ?nodes_setn_same; cbn [par lft rgt red aent with_ent]; auto.
    + eapply Rep_frame; [exact Hl|]. intros j Hj. apply nodes_setn_other. intros ->. contradiction.
    + eapply Rep_frame; [exact Hr|]. intros j Hj. apply nodes_setn_other. intros ->. contradiction.
  - constructor; rewrite ?nodes_setn_other by exact Hne; auto.
Qed.

Theorem arena_update_value_refines a t x upd : Rep a EMPTY (aroot a) t -> NoDup (mslots t) ->
  forall e, ent_at t x = Some e ->
  let a' := arena_update_value a x upd in
  Rep a' EMPTY (aroot a') (set_at ent t x (upd e)).
Proof.
  intros HR ND e He a'. subst a'. unfold arena_update_value.
  assert (Hx: In x (mslots t)) by (eapply in_elements_slots; eapply ent_at_in; eauto).
  rewrite (ent_at_rep a _ _ t HR x Hx) in He. inversion He; subst e.
  apply (Rep_set_ent a x _ EMPTY (aroot a) t HR ND).
Qed.

(** *** the handles returned by the neighbour functions are stored slots *)
Lemma leftmost_in (t: mtree) : forall d y, leftmost t d = Some y -> In y (mslots t) \/ d = Some y.
Proof.
  induction t as [|c l IHl i e r _]; intros d y H; cbn [RBTree.leftmost] in H; [auto|].
  rewrite slots_T, in_app_iff. cbn [In]. destruct (IHl _ _ H) as [K|K]; [auto|inversion K; auto].
Qed.

Lemma rightmost_in (t: mtree) : forall d y, rightmost t d = Some y -> In y (mslots t) \/ d = Some y.
Proof.
  induction t as [|c l _ i e r IHr]; intros d y H; cbn [RBTree.rightmost] in H; [auto|].
  rewrite slots_T, in_app_iff. cbn [In]. destruct (IHr _ _ H) as [K|K]; [tauto|inversion K; tauto].
Qed.

Lemma after_in_slot (t: mtree) x : forall anc y, after_in t x anc = Some (Some y) -> In y (mslots t) \/ anc = Some y.
Proof.
  induction t as [|c l IHl i e r IHr]; intros anc y H; cbn [RBTree.after_in] in H; [discriminate|].
  rewrite slots_T, in_app_iff. cbn [In]. destruct (N.eqb i x).
  - injection H as H1. destruct (leftmost_in r _ _ H1); tauto.
  - destruct (RBTree.after_in ent l x (Some i)) as [o|] eqn:El.
    + inversion H; subst o. destruct (IHl _ _ El) as [K|K]; [tauto|inversion K; tauto].
    + destruct (IHr _ _ H); tauto.
Qed.

Lemma before_in_slot (t: mtree) x : forall anc y, before_in t x anc = Some (Some y) -> In y (mslots t) \/ anc = Some y.
Proof.
  induction t as [|c l IHl i e r IHr]; intros anc y H; cbn [RBTree.before_in] in H; [discriminate|].
  rewrite slots_T, in_app_iff. cbn [In]. destruct (N.eqb i x).
  - injection H as H1. destruct (rightmost_in l _ _ H1); tauto.
  - destruct (RBTree.before_in ent l x anc) as [o|] eqn:El.
    + inversion H; subst o. destruct (IHl _ _ El); tauto.
    + destruct (IHr _ _ H) as [K|K]; [tauto|inversion K; tauto].
Qed.

End ArenaQueryProofs.

(** ** the ordered export of the expiring-key tree (src/key/array.rs, create_ordered_list) *)
Section Export.
Variable a : karena.
Variable time : Z.

Definition out_tree (t: ktree) : list Z := map kval (filter (live time) (ents kent t)).

Lemma out_tree_T c l i e r :
  out_tree (T c l i e r) = out_tree l ++ (if live time e then [kval e] else []) ++ out_tree r.
Proof.
  unfold out_tree. rewrite ents_T, filter_app, map_app. cbn [filter]. destruct (live time e); reflexivity.
Qed.

(* the number of iterations of the loop between the push of the root of [t] and its pop *)
Fixpoint export_cost (t: ktree) : nat :=
  match t with
  | E => 0
  | T _ l _ _ r =>
    (match l with E => 0 | _ => S (export_cost l) end) + 1 + (match r with E => 0 | _ => S (export_cost r) end)
  end.

Lemma export_cost_size t : (export_cost t <= 3 * size kent t)%nat.
Proof.
  induction t as [|c l IHl i e r IHr]; cbn [export_cost size]; [lia|].
  destruct l, r; cbn [export_cost size] in *; lia.
Qed.

Definition sdone : snode := {| s_index := EMPTY; s_left := EMPTY; s_right := EMPTY |}.

(* the three kinds of iteration *)
Lemma step_left f s rest out : s_left s <> EMPTY ->
  export_loop (S f) a time (s :: rest) out =
  export_loop f a time (snode_new a (s_left s) :: {| s_index := s_index s; s_left := EMPTY; s_right := s_right s |} :: rest) out.
Proof. intros H. apply N.eqb_neq in H. cbn [export_loop]. rewrite H. reflexivity. Qed.

Lemma step_visit f i r rest out : i <> EMPTY ->
  export_loop (S f) a time ({| s_index := i; s_left := EMPTY; s_right := r |} :: rest) out =
  if negb (N.eqb r EMPTY)
  then export_loop f a time (snode_new a r :: sdone :: rest)
         (if not_expired a i time then out ++ [kval (aent (nodes a i))] else out)
  else export_loop f a time rest (if not_expired a i time then out ++ [kval (aent (nodes a i))] else out).
Proof.
  intros H. apply N.eqb_neq in H. cbn [export_loop s_left s_index s_right]. rewrite N.eqb_refl, H. cbn [negb s_right s_left s_index].
  reflexivity.
Qed.

Lemma step_pop f rest out : export_loop (S f) a time (sdone :: rest) out = export_loop f a time rest out.
Proof. cbn [export_loop sdone s_left s_index s_right]. rewrite N.eqb_refl. cbn [negb s_right]. rewrite N.eqb_refl. reflexivity. Qed.

(* from the push of the root of a subtree to its pop: its live values are appended in key order *)
Lemma export_node : forall (t: ktree) p x rest out m, Rep a p x t -> t <> E ->
  export_loop (export_cost t + m) a time (snode_new a x :: rest) out = export_loop m a time rest (out ++ out_tree t).
Proof.
  induction t as [|c l IHl i e r IHr]; intros p x rest out m HR Hne; [congruence|].
  apply Rep_inv_T in HR. destruct HR as (-> & Ni & _ & _ & He & Hl & Hr).
  (* after the left subtree *)
  assert (Hvisit: forall out0,
    export_loop (1 + (match r with E => 0 | _ => S (export_cost r) end) + m)%nat a time
      ({| s_index := i; s_left := EMPTY; s_right := rgt (nodes a i) |} :: rest) out0 =
    export_loop m a time rest (out0 ++ (if live time e then [kval e] else []) ++ out_tree r)).
  { intros out0. cbn [Nat.add]. rewrite (step_visit _ i _ rest out0 Ni).
    unfold not_expired. rewrite He.
    assert (Hout: (if live time e then out0 ++ [kval e] else out0) = out0 ++ (if live time e then [kval e] else [])).
    { destruct (live time e); [reflexivity|rewrite app_nil_r; reflexivity]. }
    rewrite Hout. destruct r as [|rc rl ri re rr].
    - apply Rep_inv_E in Hr. rewrite Hr, N.eqb_refl. cbn [negb Nat.add]. unfold out_tree. cbn [ents elements map filter].
      rewrite app_nil_r. reflexivity.
    - pose proof (Rep_inv_T _ _ _ _ _ _ _ _ Hr) as (Hri & Nri & _). rewrite Hri in *.
      pose proof Nri as Nri'. apply N.eqb_neq in Nri'. rewrite Nri'. cbn [negb].
      replace (S (export_cost (T rc rl ri re rr)) + m)%nat with (export_cost (T rc rl ri re rr) + S m)%nat by lia.
      rewrite (IHr i ri (sdone :: rest) _ (S m) Hr) by discriminate.
      rewrite step_pop, <- app_assoc. reflexivity. }
  rewrite out_tree_T. cbn [export_cost].
  destruct l as [|lc ll li le lr].
  - apply Rep_inv_E in Hl. unfold snode_new. rewrite Hl. cbn [Nat.add] in *. rewrite Hvisit.
    unfold out_tree at 1. cbn [ents elements map filter app]. reflexivity.
  - pose proof (Rep_inv_T _ _ _ _ _ _ _ _ Hl) as (Hli & Nli & _).
    replace (S (export_cost (T lc ll li le lr)) + 1 + match r with E => 0 | T _ _ _ _ _ => S (export_cost r) end + m)%nat
      with (S (export_cost (T lc ll li le lr) + (1 + match r with E => 0 | T _ _ _ _ _ => S (export_cost r) end + m)))%nat by lia.
    rewrite step_left by (unfold snode_new; cbn [s_left]; rewrite Hli; exact Nli).
    unfold snode_new at 2. cbn [s_left s_index s_right]. rewrite Hli in *.
    rewrite (IHl i li _ out _ Hl) by discriminate.
    rewrite Hvisit, <- app_assoc. reflexivity.
Qed.

(* create_ordered_list = the export of the tree-level model (KeyModel.k_export) *)
Theorem arena_export_refines (t: ktree) fuel :
  Rep a EMPTY (aroot a) t -> (export_cost t < fuel)%nat ->
  arena_export fuel a time = Ret (out_tree t).
Proof.
  intros HR Hf. unfold arena_export. destruct t as [|c l i e r].
  - apply Rep_inv_E in HR. rewrite HR, N.eqb_refl. reflexivity.
  - pose proof (Rep_inv_T _ _ _ _ _ _ _ _ HR) as (Hi & Ni & _). rewrite Hi in *. apply N.eqb_neq in Ni. rewrite Ni.
    replace fuel with (export_cost (T c l i e r) + S (fuel - export_cost (T c l i e r) - 1))%nat by lia.
    rewrite (export_node _ EMPTY i [] [] _ HR) by discriminate. reflexivity.
Qed.

End Export.

Corollary arena_k_export (a: karena) (s: kstate) (time: Z) fuel :
  Rep a EMPTY (aroot a) (kroot s) -> (3 * ksize s < fuel)%nat ->
  arena_export fuel a time = Ret (k_export s time).
Proof.
  intros HR Hf. apply arena_export_refines; [exact HR|].
  pose proof (export_cost_size (kroot s)). unfold ksize in Hf. lia.
Qed.

Require Import ITree.Proofs.MapProofs.
(** ** the steps of MapTree / SetTree on the arena ([ment], [mkey]): the read-only operations of
    Model/MapModel.v, delete by key, clear; and clear of the expiring-key tree *)
Section MapSteps.
Variable a : astate ment.
Variable s : mstate.
Hypothesis HR : Rep a EMPTY (aroot a) (root s).

(* MapTree::get_value / SetTree::get_value *)
Theorem arena_map_get k fuel : (height ment (root s) < fuel)%nat ->
  arena_search_value mkey fuel a k = Ret (m_get s k).
Proof. intros Hf. unfold m_get. apply arena_search_value_refines; assumption. Qed.

(* first_index_less_by / first_index_less *)
Theorem arena_map_first_by f fuel : (height ment (root s) < fuel)%nat ->
  arena_search_first_less_by mkey fuel a f = Ret (olink (m_first_by s f)).
Proof. intros Hf. unfold m_first_by. apply arena_search_first_less_by_refines; assumption. Qed.

Theorem arena_map_first k fuel : (height ment (root s) < fuel)%nat ->
  arena_search_first_less mkey fuel a k = Ret (olink (m_first s k)).
Proof. intros Hf. unfold m_first. apply arena_map_first_by. exact Hf. Qed.

(* SetTree::index_after / index_before of a stored handle *)
Theorem arena_map_after h fuel : NoDup (slots ment (root s)) -> In h (slots ment (root s)) ->
  (height ment (root s) <= fuel)%nat ->
  exists y, m_after s h = Ret y /\ arena_index_after fuel a h = Ret (olink y).
Proof.
  intros ND Hh Hf. destruct (arena_index_after_refines a (root s) h fuel HR ND Hh Hf) as (y & Hy & Ha).
  exists y. unfold m_after. rewrite Hy. auto.
Qed.

Theorem arena_map_before h fuel : NoDup (slots ment (root s)) -> In h (slots ment (root s)) ->
  (height ment (root s) <= fuel)%nat ->
  exists y, m_before s h = Ret y /\ arena_index_before fuel a h = Ret (olink y).
Proof.
  intros ND Hh Hf. destruct (arena_index_before_refines a (root s) h fuel HR ND Hh Hf) as (y & Hy & Ha).
  exists y. unfold m_before. rewrite Hy. auto.
Qed.

(* the handle returned by index_after is the successor in key order (Proofs/TreeLookup.v) *)
Corollary arena_map_after_list h fuel : NoDup (slots ment (root s)) -> In h (slots ment (root s)) ->
  (height ment (root s) <= fuel)%nat ->
  exists y, lnext ment h (elements ment (root s)) None = Some y /\ arena_index_after fuel a h = Ret (olink y).
Proof.
  intros ND Hh Hf. destruct (arena_index_after_refines a (root s) h fuel HR ND Hh Hf) as (y & Hy & Ha).
  exists y. rewrite <- (after_in_lnext ment mkey) by exact ND. auto.
Qed.

Corollary arena_map_before_list h fuel : NoDup (slots ment (root s)) -> In h (slots ment (root s)) ->
  (height ment (root s) <= fuel)%nat ->
  exists y, lprev ment h (elements ment (root s)) None = Some y /\ arena_index_before fuel a h = Ret (olink y).
Proof.
  intros ND Hh Hf. destruct (arena_index_before_refines a (root s) h fuel HR ND Hh Hf) as (y & Hy & Ha).
  exists y. rewrite <- (before_in_lprev ment mkey) by exact ND. auto.
Qed.

(* clear *)
Theorem arena_map_clear fuel : (height ment (root s) < fuel)%nat ->
  exists a', arena_clear fuel (a, pl s) = Ret (a', pl (m_clear s)) /\
             Rep a' EMPTY (aroot a') (root (m_clear s)) /\ (forall j, nodes a' j = nodes a j).
Proof.
  intros Hf. destruct (arena_clear_refines a (root s) (pl s) fuel HR Hf) as (a' & Ha & Hr & Hn).
  exists a'. split; [exact Ha|]. split; [|exact Hn]. cbn [m_clear root]. rewrite Hr. constructor.
Qed.

(* MapTree::delete / SetTree::delete (by key) *)
Theorem arena_map_delete k : MInv s ->
  exists s' a', m_delete s k = Ret s' /\
    arena_delete_key mkey (S (height ment (root s))) (height ment (root s)) (a, pl s) k = Ret (a', pl s') /\
    Rep a' EMPTY (aroot a') (root s') /\ MInv s'.
Proof.
  intros HI. pose proof HI as (ND & Hrb & Hbst & Hwf).
  unfold arena_delete_key, m_delete. cbn [fst snd].
  rewrite (arena_find_index_refines mkey a (root s) k _ HR (Nat.lt_succ_diag_r _)). cbn [bind].
  pose proof (find_slot_spec ment mkey (root s) k Hbst) as Hfs.
  destruct (find_slot ment mkey (root s) k) as [x|] eqn:Ex; cbn [olink].
  - destruct Hfs as (e & Hin & _).
    assert (Nx: x <> EMPTY) by (eapply Rep_slots_ne; [exact HR|]; eapply in_elements_slots; eauto).
    apply N.eqb_neq in Nx. rewrite Nx. cbn [negb].
    destruct (ArenaMap.arena_map_delete_at a s x e HI Hin HR) as (s' & a' & f & Hd & Ha & Hp & HR' & HI' & _).
    exists s', a'. split; [exact Hd|]. unfold arena_delete_put. cbn [fst snd]. rewrite Ha, Hp. auto.
  - rewrite N.eqb_refl. cbn [negb]. exists s, a. destruct s. auto.
Qed.

End MapSteps.

(* KeyExpTree::clear *)
Theorem arena_k_clear (a: karena) (s: kstate) fuel :
  Rep a EMPTY (aroot a) (kroot s) -> (height kent (kroot s) < fuel)%nat ->
  exists a', arena_clear fuel (a, kpl s) = Ret (a', kpl (k_clear s)) /\
             Rep a' EMPTY (aroot a') (kroot (k_clear s)) /\ (forall j, nodes a' j = nodes a j).
Proof.
  intros HR Hf. destruct (arena_clear_refines a (kroot s) (kpl s) fuel HR Hf) as (a' & Ha & Hr & Hn).
  exists a'. split; [exact Ha|]. split; [|exact Hn]. cbn [k_clear kroot]. rewrite Hr. constructor.
Qed.

(** ** one step of the whole MapCollection / SetCollection interface on the arena refines the step of
    Model/MapModel.v: same outputs, the arena represents the new tree, the pools are equal *)
Lemma handle_olink (y: option N) : (forall z, y = Some z -> z <> EMPTY) -> handle_of (olink y) = y.
Proof.
  intros H. destruct y as [z|]; cbn [olink]; unfold handle_of; [|rewrite N.eqb_refl; reflexivity].
  specialize (H z eq_refl). apply N.eqb_neq in H. rewrite H. reflexivity.
Qed.

Lemma arena_map_insert_fuel (a: astate ment) (s: mstate) (k v: Z) fuel :
  MInv s -> (forall e, In e (ments (root s)) -> fst e <> k) ->
  Rep a EMPTY (aroot a) (root s) -> blen (pl s) < EMPTY -> (2 * height ment (root s) + 2 <= fuel)%nat ->
  exists s' a', m_insert s k v = Ret s' /\ arena_m_insert fuel (a, pl s) k v = Ret (a', pl s') /\
    Rep a' EMPTY (aroot a') (root s') /\ MInv s'.
Proof.
  intros HI Habs HR Hb Hf. pose proof HI as (ND & Hrb & Hbst & Hwf).
  destruct (pool_get_wf _ _ Hwf) as (i & p' & Hg & Hni & Hi0 & Hwf').
  pose proof (ArenaMap.pool_get_slot_le _ _ _ _ Hwf Hg) as Hle.
  assert (Nie: i <> EMPTY) by lia.
  destruct (arena_insert_refines mkey a (root s) i (k, v) fuel HR ND Hni Nie Hf) as (a' & Ha' & HR').
  destruct (m_insert_spec s k v HI Habs) as (s2 & i2 & Hr2 & HI2 & _).
  pose proof Hr2 as Hr2'. unfold m_insert in Hr2'. rewrite Hg in Hr2'. inversion Hr2'; subst s2.
  eexists _, a'. split; [exact Hr2|]. unfold arena_m_insert. cbn [fst snd root pl]. rewrite Hg, Ha'. auto.
Qed.

Lemma arena_map_delete_at_fuel (a: astate ment) (s: mstate) (x: N) (e: ment) fuel :
  MInv s -> In (x, e) (mel (root s)) -> Rep a EMPTY (aroot a) (root s) -> (height ment (root s) <= fuel)%nat ->
  exists s' a', m_delete_at s x = Ret s' /\ arena_delete_put fuel (a, pl s) x = Ret (a', pl s') /\
    Rep a' EMPTY (aroot a') (root s') /\ MInv s'.
Proof.
  intros HI Hin HR Hf. pose proof HI as (ND & Hrb & Hbst & Hwf).
  assert (Hx: In x (mslots (root s))) by (eapply in_elements_slots; eauto).
  assert (H0: ~ In 0 (mslots (root s))).
  { intros K. destruct Hwf as (_ & Hrange & _). assert (K': In 0 (mslots (root s) ++ unused (pl s))) by (apply in_or_app; auto).
    apply Hrange in K'. lia. }
  destruct (arena_delete_refines_frame a (root s) x fuel HR ND H0 Hrb Hx Hf) as (t' & d & f & a' & Hd & Ha & HR' & _).
  destruct (m_delete_at_spec s x e HI Hin) as (s' & A & B & Hs' & HI' & _).
  pose proof Hs' as Hs2. unfold m_delete_at in Hs2. rewrite Hd in Hs2. inversion Hs2; subst s'. cbn [root pl] in *.
  eexists _, a'. split; [exact Hs'|]. unfold arena_delete_put. cbn [fst snd root pl]. rewrite Ha. auto.
Qed.

Theorem arena_m_step_refines (a: astate ment) (s: mstate) (o: mop) s' out fuel :
  MInv s -> Rep a EMPTY (aroot a) (root s) -> blen (pl s) < EMPTY ->
  (match o with MIns k _ => forall e, In e (ments (root s)) -> fst e <> k | _ => True end) ->
  (2 * height ment (root s) + 2 <= fuel)%nat ->
  m_step s o = Ret (s', out) ->
  exists a', arena_m_step fuel (a, pl s) o = Ret ((a', pl s'), out) /\
             Rep a' EMPTY (aroot a') (root s') /\ MInv s'.
Proof.
  intros HI HR Hb Hc Hf Hstep. pose proof HI as (ND & Hrb & Hbst & Hwf).
  assert (Hf1: (height ment (root s) < fuel)%nat) by lia.
  assert (Hf0: (height ment (root s) <= fuel)%nat) by lia.
  assert (Hne: forall z, In z (mslots (root s)) -> z <> EMPTY) by (intros z; eapply Rep_slots_ne; eauto).
  destruct o as [k v|k|h|k| |k|f|h|h v|h|h| ]; cbn [m_step arena_m_step fst snd] in *.
  - (* insert *)
    destruct (arena_map_insert_fuel a s k v fuel HI Hc HR Hb Hf) as (s2 & a' & Hm & Ha & HR' & HI').
    rewrite Hm in Hstep. cbn [bind] in Hstep. inversion Hstep; subst s' out.
    exists a'. rewrite Ha. cbn [bind]. auto.
  - (* delete by key *)
    unfold arena_delete_key, m_delete in *. cbn [fst snd].
    rewrite (arena_find_index_refines mkey a (root s) k _ HR Hf1). cbn [bind].
    pose proof (find_slot_spec ment mkey (root s) k Hbst) as Hfs.
    destruct (find_slot ment mkey (root s) k) as [x|] eqn:Ex; cbn [olink].
    + destruct Hfs as (e & Hin & _).
      assert (Nx: x <> EMPTY) by (apply Hne; eapply in_elements_slots; eauto).
      apply N.eqb_neq in Nx. rewrite Nx. cbn [negb].
      destruct (arena_map_delete_at_fuel a s x e fuel HI Hin HR Hf0) as (s2 & a' & Hm & Ha & HR' & HI').
      rewrite Hm in Hstep. cbn [bind] in Hstep. inversion Hstep; subst s' out.
      exists a'. rewrite Ha. cbn [bind]. auto.
    + rewrite N.eqb_refl. cbn [negb bind] in *. inversion Hstep; subst s' out. exists a. auto.
  - (* delete by handle *)
    destruct (m_delete_at s h) as [s2|err] eqn:Hm; cbn [bind] in Hstep; [|discriminate]. inversion Hstep; subst s' out.
    assert (Hin: exists e, In (h, e) (mel (root s))).
    { unfold m_delete_at in Hm. pose proof (del_spec ment (root s) h ND) as Hd.
      destruct (del ment (root s) h) as [| |t' d f]; try discriminate.
      destruct Hd as (A & e & B & Hel & _). exists e. rewrite Hel. apply in_or_app. right. left. reflexivity. }
    destruct Hin as (e & Hin).
    destruct (arena_map_delete_at_fuel a s h e fuel HI Hin HR Hf0) as (s3 & a' & Hm' & Ha & HR' & HI').
    rewrite Hm in Hm'. inversion Hm'; subst s3. exists a'. rewrite Ha. cbn [bind]. auto.
  - (* get *)
    inversion Hstep; subst s' out. exists a. rewrite (arena_map_get a s HR k fuel Hf1). cbn [bind]. auto.
  - (* is_empty *)
    inversion Hstep; subst s' out. exists a. rewrite (arena_is_empty_refines a (root s) HR). unfold m_is_empty. auto.
  - (* first *)
    inversion Hstep; subst s' out. exists a. rewrite (arena_map_first a s HR k fuel Hf1). cbn [bind].
    rewrite handle_olink; [auto|]. intros z Hz. unfold m_first, m_first_by in Hz.
    destruct (first_by_in mkey _ _ _ _ Hz) as [K|K]; [auto|discriminate].
  - (* first_by *)
    inversion Hstep; subst s' out. exists a. rewrite (arena_map_first_by a s HR f fuel Hf1). cbn [bind].
    rewrite handle_olink; [auto|]. intros z Hz. unfold m_first_by in Hz.
    destruct (first_by_in mkey _ _ _ _ Hz) as [K|K]; [auto|discriminate].
  - (* value_by_index *)
    unfold m_value_at in Hstep. destruct (ent_at ment (root s) h) as [e|] eqn:He; cbn [bind] in Hstep; [|discriminate].
    inversion Hstep; subst s' out. exists a.
    assert (Hx: In h (mslots (root s))) by (eapply in_elements_slots; eapply ent_at_in; eauto).
    rewrite (arena_value_by_index_refines a (root s) h HR Hx) in He. inversion He. auto.
  - (* write through value_by_index_mut *)
    unfold m_set_at in Hstep. destruct (ent_at ment (root s) h) as [e|] eqn:He; cbn [bind] in Hstep; [|discriminate].
    inversion Hstep; subst s' out. cbn [root pl].
    pose proof (ent_at_in ment (root s) h e He) as Hin.
    destruct (m_set_at_spec s h e v HI Hin) as (s2 & Hs2 & HI2 & _).
    unfold m_set_at in Hs2. rewrite He in Hs2. inversion Hs2; subst s2.
    eexists. split; [reflexivity|]. split; [|exact HI2]. cbn [root].
    exact (arena_update_value_refines a (root s) h (fun e0 => (fst e0, v)) HR ND e He).
  - (* index_after *)
    unfold m_after in Hstep. destruct (after_in ment (root s) h None) as [y|] eqn:Hy; cbn [bind] in Hstep; [|discriminate].
    inversion Hstep; subst s' out. exists a.
    assert (Hx: In h (mslots (root s))).
    { destruct (in_dec N.eq_dec h (mslots (root s))) as [K|K]; [exact K|]. rewrite after_in_notin in Hy by exact K. discriminate. }
    destruct (arena_index_after_refines a (root s) h fuel HR ND Hx Hf0) as (y' & Hy' & Ha).
    rewrite Hy in Hy'. inversion Hy'; subst y'. rewrite Ha. cbn [bind].
    rewrite handle_olink; [auto|]. intros z Hz. subst y.
    destruct (after_in_slot _ _ _ _ Hy) as [K|K]; [auto|discriminate].
  - (* index_before *)
    unfold m_before in Hstep. destruct (before_in ment (root s) h None) as [y|] eqn:Hy; cbn [bind] in Hstep; [|discriminate].
    inversion Hstep; subst s' out. exists a.
    assert (Hx: In h (mslots (root s))).
    { destruct (in_dec N.eq_dec h (mslots (root s))) as [K|K]; [exact K|]. rewrite before_in_notin in Hy by exact K. discriminate. }
    destruct (arena_index_before_refines a (root s) h fuel HR ND Hx Hf0) as (y' & Hy' & Ha).
    rewrite Hy in Hy'. inversion Hy'; subst y'. rewrite Ha. cbn [bind].
    rewrite handle_olink; [auto|]. intros z Hz. subst y.
    destruct (before_in_slot _ _ _ _ Hy) as [K|K]; [auto|discriminate].
  - (* clear *)
    inversion Hstep; subst s' out.
    destruct (arena_map_clear a s HR fuel Hf1) as (a' & Ha & HR' & _).
    exists a'. rewrite Ha. cbn [bind]. split; [reflexivity|]. split; [exact HR'|]. apply m_clear_inv. exact HI.
Qed.

(** histories: the side conditions of the step theorem along a run of the tree-level model (inserted
    keys are absent, the buffer stays below EMPTY_REF slots, the fuel covers twice the height) *)
Fixpoint run_ok (fuel: nat) (s: mstate) (h: list mop) : Prop :=
  match h with
  | [] => True
  | o :: h' =>
    blen (pl s) < EMPTY /\
    (match o with MIns k _ => forall e, In e (ments (root s)) -> fst e <> k | _ => True end) /\
    (2 * height ment (root s) + 2 <= fuel)%nat /\
    (forall s' out, m_step s o = Ret (s', out) -> run_ok fuel s' h')
  end.

Theorem arena_m_run_refines fuel : forall (h: list mop) (a: astate ment) (s: mstate) s' outs,
  MInv s -> Rep a EMPTY (aroot a) (root s) -> run_ok fuel s h ->
  m_run s h = Ret (s', outs) ->
  exists a', arena_m_run fuel (a, pl s) h = Ret ((a', pl s'), outs) /\
             Rep a' EMPTY (aroot a') (root s') /\ MInv s'.
Proof.
  induction h as [|o h IH]; intros a s s' outs HI HR Hok Hrun; cbn [m_run arena_m_run] in *.
  - inversion Hrun; subst s' outs. exists a. auto.
  - destruct Hok as (Hb & Hc & Hf & Hnext).
    destruct (m_step s o) as [[s1 out]|err] eqn:Hstep; cbn [bind fst snd] in Hrun; [|discriminate].
    destruct (m_run s1 h) as [[s2 outs2]|err] eqn:Hrun2; cbn [bind fst snd] in Hrun; [|discriminate].
    inversion Hrun; subst s' outs.
    destruct (arena_m_step_refines a s o s1 out fuel HI HR Hb Hc Hf Hstep) as (a1 & Ha1 & HR1 & HI1).
    destruct (IH a1 s1 s2 outs2 HI1 HR1 (Hnext s1 out eq_refl) Hrun2) as (a2 & Ha2 & HR2 & HI2).
    exists a2. rewrite Ha1. cbn [bind fst snd]. rewrite Ha2. cbn [bind fst snd]. auto.
Qed.

Require Import ITree.Proofs.KeyProofs.
(** ** the two capacity requests of create_ordered_list: height() and count *)
Lemma height_loop_spec (a: karena) : forall (t: ktree) p x fuel h, Rep a p x t -> t <> E ->
  (height kent t <= fuel)%nat -> height_loop fuel a x h = Ret (h + left_black_below t).
Proof.
  induction t as [|c l IHl i e r _]; intros p x fuel h HR Hne Hf; [congruence|].
  cbn [RBTree.height] in Hf. destruct fuel as [|f]; [lia|]. cbn [height_loop left_black_below].
  apply Rep_inv_T in HR. destruct HR as (-> & Ni & _ & _ & _ & Hl & _).
  destruct l as [|lc ll li le lr].
  - apply Rep_inv_E in Hl. rewrite Hl, N.eqb_refl. cbn [negb left_black_below]. f_equal. lia.
  - pose proof (Rep_inv_T _ _ _ _ _ _ _ _ Hl) as (Hli & Nli & _ & Hc & _). rewrite Hli in *.
    apply N.eqb_neq in Nli. rewrite Nli. cbn [negb]. rewrite Hc.
    rewrite (IHl i li f _ Hl) by (try discriminate; lia).
    f_equal. destruct lc; cbn [is_red negb]; lia.
Qed.

(* height() = the quantity of Model/KeyModel.v ([old_height]) *)
Theorem arena_height_refines (a: karena) (t: ktree) fuel :
  Rep a EMPTY (aroot a) t -> (height kent t <= fuel)%nat -> arena_height fuel a = Ret (old_height t).
Proof.
  intros HR Hf. unfold arena_height, old_height. destruct t as [|c l i e r].
  - apply Rep_inv_E in HR. rewrite HR, N.eqb_refl. reflexivity.
  - pose proof (Rep_inv_T _ _ _ _ _ _ _ _ HR) as (Hi & Ni & _). rewrite Hi in *. apply N.eqb_neq in Ni. rewrite Ni.
    rewrite (height_loop_spec a _ EMPTY i fuel 1 HR) by (try discriminate; exact Hf). cbn [bind].
    f_equal; try (rewrite N.shiftl_mul_pow2; change (2 ^ 1) with 2; lia).
Qed.

Lemma slots_length {ent} (t: tree ent) : length (slots ent t) = size ent t.
Proof.
  induction t as [|c l IHl i e r IHr]; [reflexivity|]. rewrite slots_T, app_length. cbn [length size]. lia.
Qed.

Lemma pool_count used p : pool_wf used p ->
  N.of_nat (length used) + N.of_nat (length (unused p)) + 1 = blen p.
Proof.
  intros (ND & Hin & _ & Hb).
  assert (HP: Permutation (used ++ unused p) (range 1 (N.to_nat (blen p) - 1))).
  { apply NoDup_Permutation; auto using range_nodup. intros x. rewrite Hin, range_in. lia. }
  apply Permutation_length in HP. rewrite app_length, range_length in HP. lia.
Qed.

(* count = the number of stored entries (KeyModel.k_export_capacity), from the pool invariant *)
Theorem export_count_refines (s: kstate) : KInv s -> export_count (kpl s) = Ret (k_export_capacity s).
Proof.
  intros (_ & Hwf). pose proof (pool_count _ _ Hwf) as Hc. rewrite slots_length in Hc.
  unfold export_count, k_export_capacity, vec_len, KeyModel.ksize.
  destruct (N.ltb_spec (blen (kpl s)) (N.of_nat (length (unused (kpl s))) + 1)) as [Hlt|Hge]; [lia|].
  f_equal. lia.
Qed.

(** ** non-vacuity: the hypotheses of the theorems hold of an arena built by fifteen insertions *)
Module NonVacuity.
Import ITree.Proofs.ArenaMap.

Lemma built_rep s : arena_inserts empty_arena 1 ks_a = Ret s ->
  Rep s EMPTY (aroot s) (tree_inserts E 1 ks_a) /\ NoDup (slots ment (tree_inserts E 1 ks_a)).
Proof.
  intros Hs. split.
  - apply (read_tree_sound 64). vm_compute in Hs. inversion Hs; subst s. vm_compute. reflexivity.
  - vm_compute. repeat constructor; cbn [In]; intuition discriminate.
Qed.

(* slot 9 holds the largest key but two; its successor is found by the climb, the successor of the
   last slot is EMPTY *)
Example index_after_applies : forall s, arena_inserts empty_arena 1 ks_a = Ret s ->
  arena_index_after 6 s 9 = Ret 10 /\ arena_index_after 6 s 14 = Ret EMPTY /\ arena_index_before 6 s 12 = Ret EMPTY.
Proof.
  intros s Hs. destruct (built_rep s Hs) as (HR & ND).
  assert (Hh: (RBTree.height ment (tree_inserts E 1 ks_a) <= 6)%nat) by (vm_compute; lia).
  repeat split.
  - destruct (arena_index_after_refines s _ 9 6 HR ND) as (y & Hy & Ha); [vm_compute; tauto|exact Hh|].
    vm_compute in Hy. inversion Hy; subst y. exact Ha.
  - destruct (arena_index_after_refines s _ 14 6 HR ND) as (y & Hy & Ha); [vm_compute; tauto|exact Hh|].
    vm_compute in Hy. inversion Hy; subst y. exact Ha.
  - destruct (arena_index_before_refines s _ 12 6 HR ND) as (y & Hy & Ha); [vm_compute; tauto|exact Hh|].
    vm_compute in Hy. inversion Hy; subst y. exact Ha.
Qed.

Example clear_applies : forall s p, arena_inserts empty_arena 1 ks_a = Ret s ->
  exists s', arena_clear 7 (s, p) =
             Ret (s', fold_left pool_put [7; 2; 10; 11; 6; 1; 13; 12; 4; 8; 5; 9; 3; 14; 15] p).
Proof.
  intros s p Hs. destruct (built_rep s Hs) as (HR & _).
  destruct (arena_clear_refines s _ p 7 HR) as (s' & Ha & _); [vm_compute; lia|].
  exists s'. exact Ha.
Qed.

End NonVacuity.
