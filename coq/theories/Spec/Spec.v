(** * Reference semantics ("abstract specifications") — meant to be read in minutes.

    - map / set: an association list; handles do not exist at this level, a handle query is
      specified by the entry it must designate.
    - expiring-key collections: the bag of entries inserted since the last clear; a query at time
      [t] looks only at the entries with [exp > t].
    - segment tree: the list of (range, value) inserted since the last clear; a query [a,b]@t
      yields the values with [exp >= t] whose bucket range meets that of [a,b]. *)
From Coq Require Import List NArith ZArith Bool Permutation.
Import ListNotations.
Require Import ITree.Model.MapModel ITree.Model.KeyModel ITree.Model.SegModel.
Local Open Scope Z_scope.

(** ** map / set *)
Definition amap := list ment.        (* no order assumed *)

Definition a_insert (m: amap) (k v: Z) : amap := (k, v) :: m.
Definition a_remove (m: amap) (k: Z) : amap := filter (fun e => negb (Z.eqb (fst e) k)) m.
Definition a_lookup (m: amap) (k: Z) : option ment := find (fun e => Z.eqb (fst e) k) m.
Definition a_update (m: amap) (k v: Z) : amap :=
  map (fun e => if Z.eqb (fst e) k then (k, v) else e) m.

(* the entry with the greatest key among those satisfying [ok] *)
Definition best (ok: ment -> bool) (m: amap) : option ment :=
  fold_right (fun e acc =>
    if ok e then match acc with
                 | Some b => if Z.ltb (fst b) (fst e) then Some e else acc
                 | None => Some e
                 end
    else acc) None m.

(* predecessor of a probe key: greatest key <= q *)
Definition a_pred (m: amap) (q: Z) : option ment := best (fun e => Z.leb (fst e) q) m.
(* predecessor under a comparator: an [Eq] entry if there is one, else the greatest [Lt] entry *)
Definition a_pred_by (m: amap) (f: Z -> comparison) : option ment :=
  match find (fun e => match f (fst e) with Eq => true | _ => false end) m with
  | Some e => Some e
  | None => best (fun e => match f (fst e) with Lt => true | _ => false end) m
  end.

(* neighbours in key order *)
Definition a_next (m: amap) (k: Z) : option ment :=
  fold_right (fun e acc =>
    if Z.ltb k (fst e) then match acc with
                            | Some b => if Z.ltb (fst e) (fst b) then Some e else acc
                            | None => Some e
                            end
    else acc) None m.
Definition a_prev (m: amap) (k: Z) : option ment := best (fun e => Z.ltb (fst e) k) m.

(** ** expiring-key collections *)
Definition bag := list kent.

Definition alive (t: Z) (b: bag) : bag := filter (live t) b.

Definition kbest (ok: kent -> bool) (b: bag) : option kent :=
  fold_right (fun e acc =>
    if ok e then match acc with
                 | Some x => if Z.ltb (kk x) (kk e) then Some e else acc
                 | None => Some e
                 end
    else acc) None b.

(* value of the greatest-keyed live entry satisfying the bound *)
Definition ref_less (b: bag) (t q: Z) : option Z :=
  option_map kval (kbest (fun e => Z.ltb (kk e) q) (alive t b)).
Definition ref_less_eq (b: bag) (t q: Z) : option Z :=
  option_map kval (kbest (fun e => Z.leb (kk e) q) (alive t b)).
Definition ref_less_eq_by (b: bag) (t: Z) (f: Z -> comparison) : option Z :=
  match find (fun e => match f (kk e) with Eq => true | _ => false end) (alive t b) with
  | Some e => Some (kval e)
  | None => option_map kval (kbest (fun e => match f (kk e) with Lt => true | _ => false end) (alive t b))
  end.
Definition ref_get (b: bag) (t q: Z) : option Z :=
  option_map kval (find (fun e => Z.eqb (kk e) q) (alive t b)).

(* ordered export: live entries by increasing key *)
Fixpoint kinsert_sorted (e: kent) (l: list kent) : list kent :=
  match l with
  | [] => [e]
  | x :: l' => if Z.ltb (kk e) (kk x) then e :: l else x :: kinsert_sorted e l'
  end.
Definition ksort (l: list kent) : list kent := fold_right kinsert_sorted [] l.
Definition ref_export (b: bag) (t: Z) : list Z := map kval (ksort (alive t b)).

(** ** segment tree *)
Definition sentry := (Z * Z * sval)%type.     (* (a, b, value) *)

Definition bucket_overlap (L: layout) (a b c d: Z) : bool :=
  (zindex L a <=? zindex L d) && (zindex L c <=? zindex L b).

Definition ref_query (L: layout) (ins: list sentry) (a b t: Z) : list sval :=
  map snd (filter (fun e => let '(c, d, v) := e in
                            (t <=? sexp v) && bucket_overlap L c d a b) ins).
