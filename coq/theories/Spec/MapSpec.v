(** * User-level histories of the ordered map / ordered set and their reference semantics.

    The operations are the ones the test harness issues (ops.rs): every handle is obtained inside
    the operation that uses it (predecessor handle of a probe key), so a history never carries a
    raw handle.  [u_step] runs an operation on the tree model (MapModel.v), [a_step] on the
    reference semantics (Spec.v: an association list without any order).  The refinement theorems
    (Properties/C04, C05, C08, C09) state that the two produce the same outputs for every valid
    history. *)
From Coq Require Import List NArith ZArith Bool.
Import ListNotations.
Require Import ITree.Model.Common ITree.Model.RBTree ITree.Model.Pool ITree.Model.MapModel ITree.Spec.Spec.
Local Open Scope Z_scope.

Inductive uop :=
| UIns (k v: Z)            (* insert; contract: k absent *)
| UDel (k: Z)              (* delete by key, present or absent *)
| UGet (k: Z)              (* get_value *)
| UIsEmpty
| UFirst (q: Z)            (* first_index_less(q), then read through the handle *)
| UFirstBy (f: Z -> comparison)
| UWrite (q v: Z)          (* first_index_less(q), then write v through the handle (if any) *)
| UDelAt (q: Z)            (* first_index_less(q), then delete_by_index (if any) *)
| UAfter (q: Z)            (* set only: first_index_less(q), index_after, read *)
| UBefore (q: Z)
| UClear.

Inductive uout := UNone | UEnt (e: option ment) | UBool (b: bool).

(* reading through an optional handle *)
Definition read_at (s: mstate) (h: option N) : res (option ment) :=
  match h with
  | None => Ret None
  | Some x => bind (m_value_at s x) (fun e => Ret (Some e))
  end.

Definition u_step (s: mstate) (o: uop) : res (mstate * uout) :=
  match o with
  | UIns k v => bind (m_insert s k v) (fun s' => Ret (s', UNone))
  | UDel k => bind (m_delete s k) (fun s' => Ret (s', UNone))
  | UGet k => Ret (s, UEnt (m_get s k))
  | UIsEmpty => Ret (s, UBool (m_is_empty s))
  | UFirst q => bind (read_at s (m_first s q)) (fun e => Ret (s, UEnt e))
  | UFirstBy f => bind (read_at s (m_first_by s f)) (fun e => Ret (s, UEnt e))
  | UWrite q v =>
    match m_first s q with
    | None => Ret (s, UNone)
    | Some x => bind (m_set_at s x v) (fun s' => Ret (s', UNone))
    end
  | UDelAt q =>
    match m_first s q with
    | None => Ret (s, UNone)
    | Some x => bind (m_delete_at s x) (fun s' => Ret (s', UNone))
    end
  | UAfter q =>
    match m_first s q with
    | None => Ret (s, UEnt None)
    | Some x => bind (m_after s x) (fun a => bind (read_at s a) (fun e => Ret (s, UEnt e)))
    end
  | UBefore q =>
    match m_first s q with
    | None => Ret (s, UEnt None)
    | Some x => bind (m_before s x) (fun a => bind (read_at s a) (fun e => Ret (s, UEnt e)))
    end
  | UClear => Ret (m_clear s, UNone)
  end.

Fixpoint u_run (s: mstate) (h: list uop) : res (mstate * list uout) :=
  match h with
  | [] => Ret (s, [])
  | o :: h' =>
    bind (u_step s o) (fun so =>
    bind (u_run (fst so) h') (fun sr => Ret (fst sr, snd so :: snd sr)))
  end.

(** ** Reference semantics *)
Definition a_step (m: amap) (o: uop) : amap * uout :=
  match o with
  | UIns k v => (a_insert m k v, UNone)
  | UDel k => (a_remove m k, UNone)
  | UGet k => (m, UEnt (a_lookup m k))
  | UIsEmpty => (m, UBool (match m with [] => true | _ => false end))
  | UFirst q => (m, UEnt (a_pred m q))
  | UFirstBy f => (m, UEnt (a_pred_by m f))
  | UWrite q v => (match a_pred m q with Some e => a_update m (fst e) v | None => m end, UNone)
  | UDelAt q => (match a_pred m q with Some e => a_remove m (fst e) | None => m end, UNone)
  | UAfter q => (m, UEnt (match a_pred m q with Some e => a_next m (fst e) | None => None end))
  | UBefore q => (m, UEnt (match a_pred m q with Some e => a_prev m (fst e) | None => None end))
  | UClear => ([], UNone)
  end.

Fixpoint a_run (m: amap) (h: list uop) : amap * list uout :=
  match h with
  | [] => (m, [])
  | o :: h' => let '(m1, out) := a_step m o in let '(m2, outs) := a_run m1 h' in (m2, out :: outs)
  end.

(** ** The contract *)
(* a comparator that, on the stored keys, is monotone in key order (Lt ... Lt [Eq] Gt ... Gt) and
   matches at most one of them *)
Definition monotone_on (P: Z -> Prop) (f: Z -> comparison) : Prop :=
  forall a b, P a -> P b -> a < b ->
    (f b = Lt -> f a = Lt) /\ (f a = Gt -> f b = Gt) /\ (f a = Eq -> f b = Gt).

Definition stored (m: amap) (k: Z) : Prop := In k (map fst m).

Definition valid_op (m: amap) (o: uop) : Prop :=
  match o with
  | UIns k _ => a_lookup m k = None
  | UFirstBy f => monotone_on (stored m) f
  | _ => True
  end.

Fixpoint valid_history (m: amap) (h: list uop) : Prop :=
  match h with
  | [] => True
  | o :: h' => valid_op m o /\ valid_history (fst (a_step m o)) h'
  end.
