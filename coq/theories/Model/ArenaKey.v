(** * Arena-level (parent-pointer) model of the loops of KeyExpTree that the tree-level model
    Model/KeyModel.v abstracts (src/key/tree.rs: expire_root, expire_left / expire_right,
    search_value, search_first_less, search_first_less_or_equal(_by), insert_entity with insert_root /
    insert_as_left / insert_as_right), statement by statement, over the generic arena of
    Model/ArenaModel.v / Model/ArenaDelete.v instantiated at the entity [kent].

    The state is the arena together with the slot pool (the tree-level [Pool] model: buffer length,
    free stack, its capacity): [delete_index] ends with [store.put_back(delete_index)], [insert_root] /
    [insert_new] begin with [store.get_free_index()].  Callbacks / events are not modelled here.
    Every [while] loop is structural recursion on explicit fuel ([Err ErrFuel] when exhausted):
    [dfuel] bounds the loops inside [delete_index], [efuel] the expire loops, [fuel] the search /
    descent loops, [ifuel] the repair recursion after linking.  The searches return [option Z]: [None]
    stands for the caller's [default] (as in Model/KeyModel.v).  Definitions only; the refinement
    proofs are Proofs/ArenaKeyProofs.v. *)
From Coq Require Import List NArith ZArith Bool.
Import ListNotations.
Require Import ITree.Model.Common ITree.Model.RBTree ITree.Model.Pool ITree.Model.MapModel ITree.Model.KeyModel.
Require Import ITree.Model.ArenaModel ITree.Model.ArenaDelete.
Local Open Scope N_scope.

Notation karena := (astate kent).
Definition kast := (karena * pool)%type.

(* delete_index(index): unlink (Model/ArenaDelete.v), then store.put_back(delete_index) *)
Definition arena_kdelete (dfuel: nat) (st: kast) (index: N) : res kast :=
  match arena_delete dfuel (fst st) index with
  | Ret (a', f) => Ret (a', pool_put (snd st) f)
  | Err e => Err e
  end.

(* node.is_not_expired(time) *)
Definition not_expired (a: karena) (index: N) (time: Z) : bool := live time (aent (nodes a index)).

(* expire_root(time): the state and the index returned *)
Fixpoint arena_expire_root (dfuel fuel: nat) (st: kast) (time: Z) : res (kast * N) :=
  match fuel with
  | O => Err ErrFuel
  | S f =>
    let index := aroot (fst st) in                       (* index = self.root *)
    if N.eqb index EMPTY then Ret (st, index)
    else if not_expired (fst st) index time then Ret (st, index)
    else bind (arena_kdelete dfuel st index) (fun st' => arena_expire_root dfuel f st' time)
  end.

(* node(n_index).left / node(n_index).right *)
Definition child_link (d: dir) (a: karena) (n_index: N) : N :=
  match d with L => lft (nodes a n_index) | R => rgt (nodes a n_index) end.

(* expire_left(n_index, time) / expire_right(n_index, time) *)
Fixpoint arena_expire_child (dfuel fuel: nat) (d: dir) (st: kast) (n_index: N) (time: Z) : res (kast * N) :=
  match fuel with
  | O => Err ErrFuel
  | S f =>
    let index := child_link d (fst st) n_index in        (* index = self.node(n_index).left *)
    if N.eqb index EMPTY then Ret (st, index)
    else if not_expired (fst st) index time then Ret (st, index)
    else bind (arena_kdelete dfuel st index) (fun st' => arena_expire_child dfuel f d st' n_index time)
  end.

(* the loops of search_first_less / search_first_less_or_equal / search_first_less_or_equal_by /
   search_value: [f] is applied to the stored key, [result] is the value remembered so far *)
Fixpoint arena_search (dfuel efuel fuel: nat) (q: qkind) (f: Z -> comparison) (st: kast) (index: N)
  (time: Z) (result: option Z) : res (kast * option Z) :=
  match fuel with
  | O => Err ErrFuel
  | S fu =>
    if N.eqb index EMPTY then Ret (st, result)
    else
      let entity := aent (nodes (fst st) index) in
      let go d result' :=
        bind (arena_expire_child dfuel efuel d st index time) (fun r =>
        arena_search dfuel efuel fu q f (fst r) (snd r) time result') in
      match q, f (kk entity) with
      | QLess, Lt => go R (Some (kval entity))
      | QLess, _ => go L result
      | QLessEq, Eq => Ret (st, Some (kval entity))
      | QLessEq, Lt => go R (Some (kval entity))
      | QLessEq, Gt => go L result
      | QGet, Eq => Ret (st, Some (kval entity))
      | QGet, Lt => go R result
      | QGet, Gt => go L result
      end
  end.

Definition arena_query (dfuel efuel fuel: nat) (q: qkind) (f: Z -> comparison) (st: kast) (time: Z)
  : res (kast * option Z) :=
  bind (arena_expire_root dfuel efuel st time) (fun r =>
  arena_search dfuel efuel fuel q f (fst r) (snd r) time None).

(* search_value / search_first_less / search_first_less_or_equal / search_first_less_or_equal_by *)
Definition arena_search_value (dfuel efuel fuel: nat) (st: kast) (time key: Z) :=
  arena_query dfuel efuel fuel QGet (cmp_to key) st time.
Definition arena_search_first_less (dfuel efuel fuel: nat) (st: kast) (time key: Z) :=
  arena_query dfuel efuel fuel QLess (cmp_to key) st time.
Definition arena_search_first_less_or_equal (dfuel efuel fuel: nat) (st: kast) (time key: Z) :=
  arena_query dfuel efuel fuel QLessEq (cmp_to key) st time.
Definition arena_search_first_less_or_equal_by (dfuel efuel fuel: nat) (st: kast) (time: Z) (f: Z -> comparison) :=
  arena_query dfuel efuel fuel QLessEq f st time.

(* insert_as_left(entity, p_index) / insert_as_right(entity, p_index), with the slot taken from the pool *)
Definition arena_link (ifuel: nat) (d: dir) (st: kast) (ne: kent) (p_index: N) : res kast :=
  match pool_get (snd st) with
  | None => Err ErrPool
  | Some (ni, p') =>
    match (match d with
           | L => insert_as_left ifuel (fst st) ni ne p_index
           | R => insert_as_right ifuel (fst st) ni ne p_index
           end) with
    | Ret a' => Ret (a', p')
    | Err e => Err e
    end
  end.

(* the loop of insert_entity *)
Fixpoint arena_ins_descend (dfuel efuel fuel ifuel: nat) (st: kast) (index: N) (time: Z) (ne: kent) : res kast :=
  match fuel with
  | O => Err ErrFuel
  | S fu =>
    let p_index := index in
    let d := if Z.ltb (kk ne) (kk (aent (nodes (fst st) index))) then L else R in
    bind (arena_expire_child dfuel efuel d st index time) (fun r =>
    if N.eqb (snd r) EMPTY then arena_link ifuel d (fst r) ne p_index
    else arena_ins_descend dfuel efuel fu ifuel (fst r) (snd r) time ne)
  end.

(* insert_entity(entity, time) *)
Definition arena_k_insert (dfuel efuel fuel ifuel: nat) (st: kast) (ne: kent) (time: Z) : res kast :=
  bind (arena_expire_root dfuel efuel st time) (fun r =>
  if N.eqb (snd r) EMPTY then
    match pool_get (snd (fst r)) with                      (* insert_root *)
    | None => Err ErrPool
    | Some (ni, p') => Ret (insert_root (fst (fst r)) ni ne, p')
    end
  else arena_ins_descend dfuel efuel fuel ifuel (fst r) (snd r) time ne).
