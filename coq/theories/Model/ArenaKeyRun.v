(** * The whole KeyExpTree interface on the parent-pointer arena: one step of Model/KeyModel.v
    ([k_step]) with the arena-level functions of Model/ArenaKey.v (insert_entity, the four searches)
    and Model/ArenaQuery.v (is_empty, clear, create_ordered_list); the state is the arena together
    with the slot pool.  A single [fuel] bounds every loop.  Definitions only; the refinement proofs
    are Proofs/ArenaKeyRunProofs.v. *)
From Coq Require Import List NArith ZArith Bool.
Import ListNotations.
Require Import ITree.Model.Common ITree.Model.RBTree ITree.Model.Pool ITree.Model.MapModel ITree.Model.KeyModel.
Require Import ITree.Model.ArenaModel ITree.Model.ArenaDelete ITree.Model.ArenaKey ITree.Model.ArenaQuery.
Local Open Scope N_scope.

Definition arena_k_step (fuel: nat) (st: kast) (o: kop) : res (kast * kout) :=
  match o with
  | KIns k e v time =>
    bind (arena_k_insert fuel fuel fuel fuel st {| kk := k; kexp := e; kval := v |} time)
         (fun st' => Ret (st', KONone))
  | KLess time key =>
    bind (ArenaKey.arena_search_first_less fuel fuel fuel st time key) (fun r => Ret (fst r, KOVal (snd r)))
  | KLessEq time key =>
    bind (ArenaKey.arena_search_first_less_or_equal fuel fuel fuel st time key) (fun r => Ret (fst r, KOVal (snd r)))
  | KLessEqBy time f =>
    bind (ArenaKey.arena_search_first_less_or_equal_by fuel fuel fuel st time f) (fun r => Ret (fst r, KOVal (snd r)))
  | KGet time key =>
    bind (ArenaKey.arena_search_value fuel fuel fuel st time key) (fun r => Ret (fst r, KOVal (snd r)))
  | KIsEmpty => Ret (st, KOBool (arena_is_empty (fst st)))
  | KClear => bind (arena_clear fuel st) (fun st' => Ret (st', KONone))
  | KExport time => bind (arena_export fuel (fst st) time) (fun l => Ret (st, KOList l))
  end.

Fixpoint arena_k_run (fuel: nat) (st: kast) (h: list kop) : res (kast * list kout) :=
  match h with
  | [] => Ret (st, [])
  | o :: h' =>
    bind (arena_k_step fuel st o) (fun so =>
    bind (arena_k_run fuel (fst so) h') (fun sr => Ret (fst sr, snd so :: snd sr)))
  end.
