(** * The slot pool (src/{map,set,key}/pool.rs): buffer length, free stack, free stack capacity. *)
From Coq Require Import List NArith Bool.
Import ListNotations.
Local Open Scope N_scope.

(* [unused]: top of the stack first.  [ucap] models Vec::capacity() of the free list, which the
   code uses as the growth increment; RawVec's amortised doubling is part of the trusted base and
   is compared with the implementation after every operation. *)
Record pool := { blen : N; unused : list N; ucap : N }.

Fixpoint range (a: N) (n: nat) : list N :=
  match n with O => [] | S n' => a :: range (a + 1) n' end.

Definition pool_new (capacity: N) : pool :=
  let c := N.max capacity 8 in
  {| blen := c; unused := range 0 (N.to_nat c); ucap := c |}.

(* get_free_index; None models popping an empty free list after reserve(0) *)
Definition pool_get (p: pool) : option (N * pool) :=
  match unused p with
  | x :: rest => Some (x, {| blen := blen p; unused := rest; ucap := ucap p |})
  | [] =>
    if N.eqb (ucap p) 0 then None
    else Some (blen p, {| blen := blen p + ucap p;
                          unused := range (blen p + 1) (N.to_nat (ucap p) - 1);
                          ucap := ucap p |})
  end.

Definition pool_put (p: pool) (i: N) : pool :=
  let len := N.of_nat (length (unused p)) in
  {| blen := blen p; unused := i :: unused p;
     ucap := if N.eqb len (ucap p) then 2 * ucap p else ucap p |}.
