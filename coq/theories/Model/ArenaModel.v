(** * Arena-level (parent-pointer) model of insertion into MapTree / SetTree
    (src/{map,set}/tree.rs: insert_entity, insert_root, insert_new, insert_as_left / insert_as_right,
    fix_red_black_properties_after_insert, get_uncle, rotate_left / rotate_right,
    replace_parents_child), statement by statement.

    A node is the Rust struct: three links (slot numbers, [EMPTY] = u32::MAX = "no node"), a colour and
    the entity.  The arena is a total function from slot numbers to nodes (reading a slot that was
    never written returns whatever the function holds there: the refinement theorem of
    Proofs/ArenaProofs.v shows that insertion only ever follows links of the represented tree).
    The recursion of the Rust code on the grandparent is structural recursion on explicit fuel. *)
From Coq Require Import List NArith ZArith Bool.
Import ListNotations.
Require Import ITree.Model.Common ITree.Model.RBTree.
Local Open Scope N_scope.

Definition EMPTY : N := 4294967295.

(** The model is generic in the entity stored in a node ([ent]) and in the key function that the
    descent of [insert_entity] compares ([key_of]): the map / set trees use [Z * Z] with [fst], the
    expiring-key tree uses [kent] with [kk]. *)
Section Arena.
Variable ent : Type.
Variable key_of : ent -> Z.

Record anode := { par : N; lft : N; rgt : N; red : bool; aent : ent }.

Record astate := { nodes : N -> anode; aroot : N }.

Definition setn (s: astate) (i: N) (n: anode) : astate :=
  {| nodes := fun j => if N.eqb j i then n else nodes s j; aroot := aroot s |}.
Definition set_root (s: astate) (r: N) : astate := {| nodes := nodes s; aroot := r |}.

Definition with_par (n: anode) (p: N) : anode := {| par := p; lft := lft n; rgt := rgt n; red := red n; aent := aent n |}.
Definition with_lft (n: anode) (l: N) : anode := {| par := par n; lft := l; rgt := rgt n; red := red n; aent := aent n |}.
Definition with_rgt (n: anode) (r: N) : anode := {| par := par n; lft := lft n; rgt := r; red := red n; aent := aent n |}.
Definition with_red (n: anode) (c: bool) : anode := {| par := par n; lft := lft n; rgt := rgt n; red := c; aent := aent n |}.

Definition set_par (s: astate) (i p: N) : astate := setn s i (with_par (nodes s i) p).
Definition set_lft (s: astate) (i l: N) : astate := setn s i (with_lft (nodes s i) l).
Definition set_rgt (s: astate) (i r: N) : astate := setn s i (with_rgt (nodes s i) r).
Definition set_red (s: astate) (i: N) (c: bool) : astate := setn s i (with_red (nodes s i) c).

(* replace_parents_child(parent, old_child, new_child) *)
Definition replace_parents_child (s: astate) (parent old_child new_child: N) : astate :=
  let s1 := set_par s new_child parent in
  if N.eqb parent EMPTY then set_root s1 new_child
  else if N.eqb (lft (nodes s1 parent)) old_child then set_lft s1 parent new_child
       else set_rgt s1 parent new_child.

(* rotate_right(index) *)
Definition rotate_right (s: astate) (index: N) : astate :=
  let n := nodes s index in
  let p := par n in
  let lt_index := lft n in
  let lt_right := rgt (nodes s lt_index) in
  let s1 := set_rgt s lt_index index in
  let s2 := if N.eqb lt_right EMPTY then s1 else set_par s1 lt_right index in
  let s3 := set_par (set_lft s2 index lt_right) index lt_index in
  replace_parents_child s3 p index lt_index.

(* rotate_left(index) *)
Definition rotate_left (s: astate) (index: N) : astate :=
  let n := nodes s index in
  let p := par n in
  let rt_index := rgt n in
  let rt_left := lft (nodes s rt_index) in
  let s1 := set_lft s rt_index index in
  let s2 := if N.eqb rt_left EMPTY then s1 else set_par s1 rt_left index in
  let s3 := set_par (set_rgt s2 index rt_left) index rt_index in
  replace_parents_child s3 p index rt_index.

(* get_uncle(p_index) *)
Definition get_uncle (s: astate) (p_index: N) : N :=
  let g := nodes s (par (nodes s p_index)) in
  if N.eqb (lft g) p_index then rgt g else lft g.

(* fix_red_black_properties_after_insert(n_index, p_origin): the parent is red *)
Fixpoint fix_insert (fuel: nat) (s: astate) (n_index p_index: N) : res astate :=
  match fuel with
  | O => Err ErrFuel
  | S f =>
    let g_index := par (nodes s p_index) in
    if N.eqb g_index EMPTY then Ret (set_red s p_index false)                     (* case 2 *)
    else
      let u_index := get_uncle s p_index in
      if negb (N.eqb u_index EMPTY) && red (nodes s u_index) then                  (* case 3 *)
        let s1 := set_red (set_red (set_red s p_index false) g_index true) u_index false in
        let gg_index := par (nodes s1 g_index) in
        if negb (N.eqb gg_index EMPTY) && red (nodes s1 gg_index) then fix_insert f s1 g_index gg_index
        else Ret s1
      else if N.eqb p_index (lft (nodes s g_index)) then
        let '(s1, p1) :=
          if N.eqb n_index (rgt (nodes s p_index)) then (rotate_left s p_index, n_index)      (* case 4a *)
          else (s, p_index) in
        let s2 := rotate_right s1 g_index in                                                  (* case 5a *)
        Ret (set_red (set_red s2 p1 false) g_index true)
      else
        let '(s1, p1) :=
          if N.eqb n_index (lft (nodes s p_index)) then (rotate_right s p_index, n_index)     (* case 4b *)
          else (s, p_index) in
        let s2 := rotate_left s1 g_index in                                                   (* case 5b *)
        Ret (set_red (set_red s2 p1 false) g_index true)
  end.

(* insert_new(entity, p_index): [ni] is the slot handed out by the pool *)
Definition insert_new (s: astate) (ni: N) (e: ent) (p_index: N) : astate :=
  setn s ni {| par := p_index; lft := EMPTY; rgt := EMPTY; red := true; aent := e |}.

Definition insert_as_left (fuel: nat) (s: astate) (ni: N) (e: ent) (p_index: N) : res astate :=
  let s1 := set_lft (insert_new s ni e p_index) p_index ni in
  if red (nodes s1 p_index) then fix_insert fuel s1 ni p_index else Ret s1.

Definition insert_as_right (fuel: nat) (s: astate) (ni: N) (e: ent) (p_index: N) : res astate :=
  let s1 := set_rgt (insert_new s ni e p_index) p_index ni in
  if red (nodes s1 p_index) then fix_insert fuel s1 ni p_index else Ret s1.

(* insert_root(entity) *)
Definition insert_root (s: astate) (ni: N) (e: ent) : astate :=
  set_root (setn s ni {| par := EMPTY; lft := EMPTY; rgt := EMPTY; red := false; aent := e |}) ni.

(* the descent loop of insert_entity *)
Fixpoint insert_descend (fuel: nat) (s: astate) (index: N) (ni: N) (e: ent) : res astate :=
  match fuel with
  | O => Err ErrFuel
  | S f =>
    let node := nodes s index in
    if Z.ltb (key_of e) (key_of (aent node)) then
      if N.eqb (lft node) EMPTY then insert_as_left f s ni e index
      else insert_descend f s (lft node) ni e
    else
      if N.eqb (rgt node) EMPTY then insert_as_right f s ni e index
      else insert_descend f s (rgt node) ni e
  end.

Definition arena_insert (fuel: nat) (s: astate) (ni: N) (e: ent) : res astate :=
  if N.eqb (aroot s) EMPTY then Ret (insert_root s ni e)
  else insert_descend fuel s (aroot s) ni e.

(** ** building an arena from a dump (used by the model runner) and reading it back *)
Definition arena_of_list (dflt: ent) (l: list anode) (root: N) : astate :=
  {| nodes := fun i => nth (N.to_nat i) l {| par := 0; lft := 0; rgt := 0; red := true; aent := dflt |};
     aroot := root |}.
Definition arena_to_list (s: astate) (len: nat) : list anode :=
  map (fun i => nodes s (N.of_nat i)) (seq 0 len).

(* an arena in which no slot has been written: every slot holds the default entity *)
Definition empty_arena (dflt: ent) : astate :=
  {| nodes := fun _ => {| par := 0; lft := 0; rgt := 0; red := true; aent := dflt |}; aroot := EMPTY |}.

End Arena.

Arguments Build_anode {ent} par lft rgt red aent.
Arguments par {ent} a.
Arguments lft {ent} a.
Arguments rgt {ent} a.
Arguments red {ent} a.
Arguments aent {ent} a.
Arguments Build_astate {ent} nodes aroot.
Arguments nodes {ent} a _.
Arguments aroot {ent} a.
Arguments setn {ent} s i n.
Arguments set_root {ent} s r.
Arguments with_par {ent} n p.
Arguments with_lft {ent} n l.
Arguments with_rgt {ent} n r.
Arguments with_red {ent} n c.
Arguments set_par {ent} s i p.
Arguments set_lft {ent} s i l.
Arguments set_rgt {ent} s i r.
Arguments set_red {ent} s i c.
Arguments replace_parents_child {ent} s parent old_child new_child.
Arguments rotate_right {ent} s index.
Arguments rotate_left {ent} s index.
Arguments get_uncle {ent} s p_index.
Arguments fix_insert {ent} fuel s n_index p_index.
Arguments insert_new {ent} s ni e p_index.
Arguments insert_as_left {ent} fuel s ni e p_index.
Arguments insert_as_right {ent} fuel s ni e p_index.
Arguments insert_root {ent} s ni e.
Arguments insert_descend {ent} key_of fuel s index ni e.
Arguments arena_insert {ent} key_of fuel s ni e.
Arguments arena_of_list {ent} dflt l root.
Arguments arena_to_list {ent} s len.
Arguments empty_arena {ent} dflt.
