(** * Bit masks over the 63-node implicit heap (src/seg/heap.rs, src/seg/bit.rs), loop for loop. *)
From Coq Require Import List NArith Bool.
Import ListNotations.
Local Open Scope N_scope.

Definition fill (start end_ : N) : N := N.shiftl (N.shiftl 1 (end_ - start + 1) - 1) start.
Definition order_to_heap_index (o: N) : N := o + 31.
Definition fill_mask (s e: N) : N := fill (order_to_heap_index s) (order_to_heap_index e).
Definition bit (w: N) (i: N) : N := N.land (N.shiftr w i) 1.

(* range_to_intersect_mask: the inner loop runs [cnt] times starting at [lt] *)
Fixpoint visit_inner (cnt: nat) (lt: N) (w: N) : N :=
  match cnt with
  | O => w
  | S c =>
    let rt := lt + 1 in let pt := N.shiftr lt 1 in
    let pb := N.lor (bit w lt) (bit w rt) in
    visit_inner c (lt + 2) (N.lor w (N.shiftl pb pt))
  end.
Fixpoint visit_outer (lv: nat) (shift: N) (w: N) : N :=
  match lv with
  | O => w
  | S l =>
    let lt := shift - 1 in let shift' := N.shiftr shift 1 in
    visit_outer l shift' (visit_inner (N.to_nat shift') lt w)
  end.
Definition visit_mask (s e: N) : N := visit_outer 6 32 (fill_mask s e).

(* range_to_place_mask *)
Fixpoint place_inner (cnt: nat) (lt: N) (wm: N * N) : N * N :=
  match cnt with
  | O => wm
  | S c =>
    let '(w, m) := wm in
    let rt := lt + 1 in let pt := N.shiftr lt 1 in
    let lb := bit w lt in let rb := bit w rt in
    let pb := N.land lb rb in
    let w' := N.lor w (N.shiftl pb pt) in
    let m' := N.lor (N.lor m (N.shiftl (N.lxor lb pb) lt)) (N.shiftl (N.lxor rb pb) rt) in
    place_inner c (lt + 2) (w', m')
  end.
Fixpoint place_outer (lv: nat) (shift: N) (wm: N * N) : N * N :=
  match lv with
  | O => wm
  | S l =>
    let lt := shift - 1 in let shift' := N.shiftr shift 1 in
    place_outer l shift' (place_inner (N.to_nat shift') lt wm)
  end.
Definition place_mask (s e: N) : N :=
  if N.eqb (e - s) 31 then 1 else snd (place_outer 6 32 (fill_mask s e, 0)).

(* BitIter: the set bits in ascending order; trailing_zeros: lowest set bit, 64 on zero *)
Fixpoint bits_from (fuel: nat) (i: N) (w: N) : list N :=
  match fuel with
  | O => []
  | S f => if N.testbit w i then i :: bits_from f (i + 1) w else bits_from f (i + 1) w
  end.
Definition bits (w: N) : list N := bits_from 64 0 w.
Definition lowbit (w: N) : N := match bits w with [] => 64 | b :: _ => b end.
