(** * The red-black core shared by MapTree, SetTree and KeyExpTree.

    Executable model of src/{map,set,key}/tree.rs (insert_entity / delete_index and the
    two repair procedures).  Nodes carry their arena slot number [s] and their entity [e].
    The parent-pointer loops of the Rust code are structural recursion that returns, next
    to the rebuilt subtree, the information the Rust code keeps in its loop variables
    (DESIGN.md section 3.1 / 13.1).  Definitions only; proofs live under Proofs/. *)
From Coq Require Import List NArith ZArith Bool.
Import ListNotations.
Local Open Scope N_scope.

Inductive color := Red | Black.
Definition color_eqb (a b: color) : bool :=
  match a, b with Red, Red | Black, Black => true | _, _ => false end.

Inductive dir := L | R.
Inductive status := Ok | NewRed | RedRed (d: dir).

Section RB.
Variable ent : Type.
Variable key_of : ent -> Z.

Inductive tree := E | T (c: color) (l: tree) (s: N) (e: ent) (r: tree).

Definition is_black (t: tree) : bool := match t with T Red _ _ _ _ => false | _ => true end.
Definition is_red_node (t: tree) : bool := match t with T Red _ _ _ _ => true | _ => false end.
Definition paint (c: color) (t: tree) : tree :=
  match t with E => E | T _ l s e r => T c l s e r end.

(** ** Insertion: fix_red_black_properties_after_insert seen from the grandparent. *)

(* p (red, left child of g) has a red child on side d2; u is the uncle. *)
Definition fix_ins_left (c: color) (p: tree) (gs: N) (ge: ent) (u: tree) (d2: dir) : tree * status :=
  if is_red_node u then (T Red (paint Black p) gs ge (paint Black u), NewRed)   (* case 3 *)
  else match p with
       | E => (T c p gs ge u, Ok) (* unreachable *)
       | T pc pl ps pe pr =>
         match d2 with
         | L => (T Black pl ps pe (T Red pr gs ge u), Ok)                         (* case 5a *)
         | R => match pr with
                | E => (T c p gs ge u, Ok) (* unreachable *)
                | T nc nl ns ne nr =>                                              (* case 4a + 5a *)
                  (T Black (T pc pl ps pe nl) ns ne (T Red nr gs ge u), Ok)
                end
         end
       end.

Definition fix_ins_right (c: color) (u: tree) (gs: N) (ge: ent) (p: tree) (d2: dir) : tree * status :=
  if is_red_node u then (T Red (paint Black u) gs ge (paint Black p), NewRed)
  else match p with
       | E => (T c u gs ge p, Ok)
       | T pc pl ps pe pr =>
         match d2 with
         | R => (T Black (T Red u gs ge pl) ps pe pr, Ok)                         (* case 5b *)
         | L => match pl with
                | E => (T c u gs ge p, Ok)
                | T nc nl ns ne nr =>                                              (* case 4b + 5b *)
                  (T Black (T Red u gs ge nl) ns ne (T pc nr ps pe pr), Ok)
                end
         end
       end.

(* what the parent (c,_,s,e,_) does with the status coming up from its left / right child *)
Definition up_left (c: color) (l': tree) (s: N) (e: ent) (r: tree) (st: status) : tree * status :=
  match st with
  | Ok => (T c l' s e r, Ok)
  | NewRed => match c with Black => (T c l' s e r, Ok) | Red => (T c l' s e r, RedRed L) end
  | RedRed d2 => fix_ins_left c l' s e r d2
  end.

Definition up_right (c: color) (l: tree) (s: N) (e: ent) (r': tree) (st: status) : tree * status :=
  match st with
  | Ok => (T c l s e r', Ok)
  | NewRed => match c with Black => (T c l s e r', Ok) | Red => (T c l s e r', RedRed R) end
  | RedRed d2 => fix_ins_right c l s e r' d2
  end.

(* insert_entity of the map / set: descend with [key < node.key] *)
Fixpoint ins (t: tree) (ns: N) (ne: ent) : tree * status :=
  match t with
  | E => (T Red E ns ne E, NewRed)
  | T c l s e r =>
    if Z.ltb (key_of ne) (key_of e) then
      let '(l', st) := ins l ns ne in up_left c l' s e r st
    else
      let '(r', st) := ins r ns ne in up_right c l s e r' st
  end.

Definition finish_insert (ts: tree * status) : tree :=
  match snd ts with RedRed _ => paint Black (fst ts) | _ => fst ts end.

Definition insert_tree (t: tree) (ns: N) (ne: ent) : tree :=
  match t with
  | E => T Black E ns ne E                                                          (* insert_root *)
  | _ => finish_insert (ins t ns ne)
  end.

(* insert_as_left / insert_as_right at the parent slot the caller holds (expiring-key tree):
   link a red node as the [d]-child of slot [p] (which must have no [d]-child), repair upwards *)
Fixpoint ins_at (t: tree) (p: N) (d: dir) (ns: N) (ne: ent) : option (tree * status) :=
  match t with
  | E => None
  | T c l s e r =>
    if N.eqb s p then
      match d, l, r with
      | L, E, _ => Some (up_left c (T Red E ns ne E) s e r NewRed)
      | R, _, E => Some (up_right c l s e (T Red E ns ne E) NewRed)
      | _, _, _ => None
      end
    else
      match ins_at l p d ns ne with
      | Some (l', st) => Some (up_left c l' s e r st)
      | None =>
        match ins_at r p d ns ne with
        | Some (r', st) => Some (up_right c l s e r' st)
        | None => None
        end
      end
  end.

(** ** Removal: fix_red_black_properties_after_delete seen from the parent. *)

(* cases 3-6, deficient node = left child l of (c,s,e), sibling r is black *)
Definition fixL36 (c: color) (l: tree) (s: N) (e: ent) (r: tree) : option (tree * bool) :=
  match r with
  | E => None
  | T sc sl ss se sr =>
    if is_black sl && is_black sr then
      Some (T Black l s e (T Red sl ss se sr), color_eqb c Black)                   (* cases 3 / 4 *)
    else if is_black sr then
      match sl with                                                                 (* case 5 then 6 *)
      | E => None
      | T _ sll sls sle slr =>
        Some (T c (T Black l s e sll) sls sle (T Black slr ss se sr), false)
      end
    else
      Some (T c (T Black l s e sl) ss se (paint Black sr), false)                   (* case 6 *)
  end.

Definition fixL (c: color) (l: tree) (s: N) (e: ent) (r: tree) : option (tree * bool) :=
  match r with
  | E => None
  | T Red sl ss se sr =>                                                            (* case 2 *)
    match fixL36 Red l s e sl with
    | None => None
    | Some (inner, d) => Some (T Black inner ss se sr, d)
    end
  | T Black _ _ _ _ => fixL36 c l s e r
  end.

Definition fixR36 (c: color) (l: tree) (s: N) (e: ent) (r: tree) : option (tree * bool) :=
  match l with
  | E => None
  | T sc sl ss se sr =>
    if is_black sl && is_black sr then
      Some (T Black (T Red sl ss se sr) s e r, color_eqb c Black)
    else if is_black sl then
      match sr with
      | E => None
      | T _ srl srs sre srr =>
        Some (T c (T Black sl ss se srl) srs sre (T Black srr s e r), false)
      end
    else
      Some (T c (paint Black sl) ss se (T Black sr s e r), false)
  end.

Definition fixR (c: color) (l: tree) (s: N) (e: ent) (r: tree) : option (tree * bool) :=
  match l with
  | E => None
  | T Red sl ss se sr =>
    match fixR36 Red sr s e r with
    | None => None
    | Some (inner, d) => Some (T Black sl ss se inner, d)
    end
  | T Black _ _ _ _ => fixR36 c l s e r
  end.

(* physically remove the leftmost node: (tree', deficient, its slot, its entity) *)
Fixpoint del_min (t: tree) : option (tree * bool * N * ent) :=
  match t with
  | E => None
  | T c E s e r =>
    match r with
    | E => Some (E, color_eqb c Black, s, e)
    | _ => Some (r, true, s, e)
    end
  | T c l s e r =>
    match del_min l with
    | None => None
    | Some (l', d, ms, me) =>
      if d then match fixL c l' s e r with
                | None => None
                | Some (t', d') => Some (t', d', ms, me)
                end
      else Some (T c l' s e r, false, ms, me)
    end
  end.

Inductive dres := NotFound | Stuck | Done (t: tree) (d: bool) (freed: N).

(* delete_index: remove the node stored in slot x *)
Fixpoint del (t: tree) (x: N) : dres :=
  match t with
  | E => NotFound
  | T c l s e r =>
    if N.eqb s x then
      match l, r with
      | E, E => Done E (color_eqb c Black) s
      | T _ _ _ _ _, E => Done l true s
      | E, T _ _ _ _ _ => Done r true s
      | _, _ =>
        match del_min r with
        | None => Stuck
        | Some (r', d, ms, me) =>
          if d then match fixR c l s me r' with
                    | None => Stuck
                    | Some (t', d') => Done t' d' ms
                    end
          else Done (T c l s me r') false ms
        end
      end
    else
      match del l x with
      | Stuck => Stuck
      | Done l' d f =>
        if d then match fixL c l' s e r with
                  | None => Stuck
                  | Some (t', d') => Done t' d' f
                  end
        else Done (T c l' s e r) false f
      | NotFound =>
        match del r x with
        | Stuck => Stuck
        | NotFound => NotFound
        | Done r' d f =>
          if d then match fixR c l s e r' with
                    | None => Stuck
                    | Some (t', d') => Done t' d' f
                    end
          else Done (T c l s e r') false f
        end
      end
  end.

(** ** Observations *)

Fixpoint elements (t: tree) : list (N * ent) :=
  match t with E => [] | T _ l s e r => elements l ++ (s, e) :: elements r end.
Definition slots (t: tree) : list N := map fst (elements t).
Definition ents (t: tree) : list ent := map snd (elements t).
Definition keys (t: tree) : list Z := map (fun p => key_of (snd p)) (elements t).

Fixpoint size (t: tree) : nat := match t with E => O | T _ l _ _ r => S (size l + size r) end.
Fixpoint height (t: tree) : nat :=
  match t with E => O | T _ l _ _ r => S (Nat.max (height l) (height r)) end.

(* the subtree whose root is stored in slot x *)
Fixpoint sub (t: tree) (x: N) : option tree :=
  match t with
  | E => None
  | T c l s e r =>
    if N.eqb s x then Some t
    else match sub l x with Some u => Some u | None => sub r x end
  end.

Definition ent_at (t: tree) (x: N) : option ent :=
  match sub t x with Some (T _ _ _ e _) => Some e | _ => None end.

(* value_by_index_mut: overwrite the entity stored in slot x *)
Fixpoint set_at (t: tree) (x: N) (ne: ent) : tree :=
  match t with
  | E => E
  | T c l s e r => if N.eqb s x then T c l s ne r else T c (set_at l x ne) s e (set_at r x ne)
  end.

Definition root_slot (t: tree) : option N := match t with E => None | T _ _ s _ _ => Some s end.

(* slots in level order, left before right: the order in which clear() pushes them *)
Definition root_slots (t: tree) : list N := match t with E => [] | T _ _ s _ _ => [s] end.
Definition children (t: tree) : list tree :=
  match t with
  | E => []
  | T _ l _ _ r => (match l with E => [] | _ => [l] end) ++ (match r with E => [] | _ => [r] end)
  end.
Fixpoint bfs (fuel: nat) (level: list tree) : list N :=
  match fuel with
  | O => []
  | S f => match level with
           | [] => []
           | _ => flat_map root_slots level ++ bfs f (flat_map children level)
           end
  end.
Definition level_order (t: tree) : list N := bfs (S (height t)) [t].

(* descents of the map / set *)
Fixpoint find_slot (t: tree) (k: Z) : option N :=
  match t with
  | E => None
  | T _ l s e r =>
    match Z.compare k (key_of e) with
    | Eq => Some s
    | Lt => find_slot l k
    | Gt => find_slot r k
    end
  end.

(* search_first_less_by: f is applied to the stored key *)
Fixpoint first_by (t: tree) (f: Z -> comparison) (res: option N) : option N :=
  match t with
  | E => res
  | T _ l s e r =>
    match f (key_of e) with
    | Eq => Some s
    | Lt => first_by r f (Some s)
    | Gt => first_by l f res
    end
  end.

Fixpoint leftmost (t: tree) (dflt: option N) : option N :=
  match t with E => dflt | T _ l s _ _ => leftmost l (Some s) end.
Fixpoint rightmost (t: tree) (dflt: option N) : option N :=
  match t with E => dflt | T _ _ s _ r => rightmost r (Some s) end.

(* index_after as the (repaired) code climbs: leftmost of the right subtree, otherwise the nearest
   ancestor reached from its left; [anc] is that ancestor for the subtree being searched *)
Fixpoint after_in (t: tree) (x: N) (anc: option N) : option (option N) :=
  match t with
  | E => None
  | T _ l s _ r =>
    if N.eqb s x then Some (leftmost r anc)
    else match after_in l x (Some s) with
         | Some a => Some a
         | None => after_in r x anc
         end
  end.
Fixpoint before_in (t: tree) (x: N) (anc: option N) : option (option N) :=
  match t with
  | E => None
  | T _ l s _ r =>
    if N.eqb s x then Some (rightmost l anc)
    else match before_in l x anc with
         | Some a => Some a
         | None => before_in r x (Some s)
         end
  end.

End RB.

Arguments E {ent}.
Arguments T {ent} c l s e r.
Arguments NotFound {ent}.
Arguments Stuck {ent}.
Arguments Done {ent} t d freed.
