(** * Boolean invariant checkers.
    Executable counterparts of the invariants the theorems are about; the model runner evaluates
    them on the abstracted snapshot of the IMPLEMENTATION after every operation.  Their
    equivalence with the propositional invariants is proved in Proofs/CheckersOk.v. *)
From Coq Require Import List NArith ZArith Bool Arith.
Import ListNotations.
Require Import ITree.Model.RBTree ITree.Model.Pool.

Section Chk.
Variable ent : Type.
Variable key_of : ent -> Z.
Notation tree := (tree ent).

(* black height if the subtree is a valid red-black tree (root colour free) *)
Fixpoint rb_bh (t: tree) : option nat :=
  match t with
  | E => Some O
  | T c l _ _ r =>
    match rb_bh l, rb_bh r with
    | Some a, Some b =>
      if Nat.eqb a b then
        match c with
        | Black => Some (S a)
        | Red => if is_black ent l && is_black ent r then Some a else None
        end
      else None
    | _, _ => None
    end
  end.
Definition rb_ok (t: tree) : bool := match rb_bh t with Some _ => true | None => false end.

Fixpoint strictly_increasing (l: list Z) : bool :=
  match l with
  | [] => true
  | x :: l' => match l' with [] => true | y :: _ => Z.ltb x y && strictly_increasing l' end
  end.
Definition bst_ok (t: tree) : bool := strictly_increasing (keys ent key_of t).

(* height <= 2*log2(n+1) + 1 *)
Definition height_ok (t: tree) : bool :=
  Nat.leb (height ent t) (2 * Nat.log2 (size ent t + 1) + 1).

Fixpoint nodupN (l: list N) : bool :=
  match l with
  | [] => true
  | x :: l' => negb (existsb (N.eqb x) l') && nodupN l'
  end.

(* every slot 1 .. blen-1 is in the tree or on the free list, exactly once; slot 0 in neither *)
Definition pool_ok (t: tree) (p: pool) : bool :=
  let all := slots ent t ++ unused p in
  nodupN all
  && forallb (fun x => N.ltb 0 x && N.ltb x (blen p)) all
  && N.eqb (N.of_nat (length all) + 1) (blen p)
  && N.leb (N.of_nat (length (unused p))) (ucap p).
End Chk.

(** ** Segment tree: the places of one insert tile its bucket range (C15) *)
Local Open Scope N_scope.
(* a place and its ancestors in the implicit heap: parent (i) = (i - 1) / 2 *)
Fixpoint ancestors (fuel: nat) (i: N) : list N :=
  i :: match fuel with
       | O => []
       | S f => if N.eqb i 0 then [] else ancestors f ((i - 1) / 2)
       end.
(* how many of the places [ps] lie on the path from bucket x (heap index x + 31) to the root *)
Definition covers (ps: list N) (x: N) : nat :=
  length (filter (fun p => existsb (N.eqb p) (ancestors 6 (x + 31))) ps).
Definition tiles_ok (ps: list N) (a b: N) : bool :=
  forallb (fun x => Nat.eqb (covers ps x) (if N.leb a x && N.leb x b then 1%nat else 0%nat))
          (map N.of_nat (seq 0 32))
  && Nat.leb (length ps) 8.
