(** * MapTree and SetTree (src/map/tree.rs, src/set/tree.rs).
    Both are the red-black core over entities [(key, value)]: for the set the "value" of the Rust
    code is the whole pair (a value that carries its own key), for the map the key is stored next to
    the value.  Handles are slot numbers; [None] is EMPTY_REF. *)
From Coq Require Import List NArith ZArith Bool.
Import ListNotations.
Require Import ITree.Model.Common ITree.Model.RBTree ITree.Model.Pool.
Local Open Scope N_scope.

Definition ment := (Z * Z)%type.
Definition mkey (e: ment) : Z := fst e.
Notation mtree := (tree ment).

Record mstate := { root : mtree; pl : pool }.

Definition tree_pool_new (cap: N) : pool :=
  let p := pool_new cap in
  match pool_get p with Some (_, p') => p' | None => p end.   (* slot 0 = sentinel *)

Definition m_new (cap: N) : mstate := {| root := E; pl := tree_pool_new cap |}.

Definition m_insert (s: mstate) (k v: Z) : res mstate :=
  match pool_get (pl s) with
  | None => Err ErrPool
  | Some (i, p') => Ret {| root := insert_tree ment mkey (root s) i (k, v); pl := p' |}
  end.

Definition m_delete_at (s: mstate) (x: N) : res mstate :=
  match del ment (root s) x with
  | Done t' _ f => Ret {| root := t'; pl := pool_put (pl s) f |}
  | NotFound => Err ErrHandle
  | Stuck => Err ErrStuck
  end.

Definition m_delete (s: mstate) (k: Z) : res mstate :=
  match find_slot ment mkey (root s) k with
  | None => Ret s
  | Some x => m_delete_at s x
  end.

Definition m_get (s: mstate) (k: Z) : option ment :=
  match find_slot ment mkey (root s) k with
  | None => None
  | Some x => ent_at ment (root s) x
  end.

Definition m_is_empty (s: mstate) : bool := match root s with E => true | _ => false end.

Definition m_first_by (s: mstate) (f: Z -> comparison) : option N := first_by ment mkey (root s) f None.
Definition cmp_to (k: Z) : Z -> comparison := fun stored => Z.compare stored k.
Definition m_first (s: mstate) (k: Z) : option N := m_first_by s (cmp_to k).

Definition m_value_at (s: mstate) (h: N) : res ment :=
  match ent_at ment (root s) h with Some e => Ret e | None => Err ErrHandle end.

Definition m_set_at (s: mstate) (h: N) (v: Z) : res mstate :=
  match ent_at ment (root s) h with
  | Some e => Ret {| root := set_at ment (root s) h (fst e, v); pl := pl s |}
  | None => Err ErrHandle
  end.

Definition m_after (s: mstate) (h: N) : res (option N) :=
  match after_in ment (root s) h None with Some a => Ret a | None => Err ErrHandle end.
Definition m_before (s: mstate) (h: N) : res (option N) :=
  match before_in ment (root s) h None with Some a => Ret a | None => Err ErrHandle end.

Definition m_clear (s: mstate) : mstate :=
  {| root := E; pl := fold_left pool_put (level_order ment (root s)) (pl s) |}.

(** ** Histories *)
Inductive mop :=
| MIns (k v: Z) | MDel (k: Z) | MDelAt (h: N) | MGet (k: Z) | MIsEmpty
| MFirst (k: Z) | MFirstBy (f: Z -> comparison) | MValAt (h: N) | MSetAt (h: N) (v: Z)
| MAfter (h: N) | MBefore (h: N) | MClear.

Inductive mout :=
| ONone | OEnt (e: option ment) | OBool (b: bool) | OHandle (h: option N).

Definition m_step (s: mstate) (o: mop) : res (mstate * mout) :=
  match o with
  | MIns k v => bind (m_insert s k v) (fun s' => Ret (s', ONone))
  | MDel k => bind (m_delete s k) (fun s' => Ret (s', ONone))
  | MDelAt h => bind (m_delete_at s h) (fun s' => Ret (s', ONone))
  | MGet k => Ret (s, OEnt (m_get s k))
  | MIsEmpty => Ret (s, OBool (m_is_empty s))
  | MFirst k => Ret (s, OHandle (m_first s k))
  | MFirstBy f => Ret (s, OHandle (m_first_by s f))
  | MValAt h => bind (m_value_at s h) (fun e => Ret (s, OEnt (Some e)))
  | MSetAt h v => bind (m_set_at s h v) (fun s' => Ret (s', ONone))
  | MAfter h => bind (m_after s h) (fun a => Ret (s, OHandle a))
  | MBefore h => bind (m_before s h) (fun a => Ret (s, OHandle a))
  | MClear => Ret (m_clear s, ONone)
  end.

Fixpoint m_run (s: mstate) (h: list mop) : res (mstate * list mout) :=
  match h with
  | [] => Ret (s, [])
  | o :: h' =>
    bind (m_step s o) (fun so =>
    bind (m_run (fst so) h') (fun sr => Ret (fst sr, snd so :: snd sr)))
  end.
