(** * SegExpTree (src/seg/tree.rs, layout.rs, chunk.rs): 32 buckets, 63 places, expiring values. *)
From Coq Require Import List NArith ZArith Bool.
Import ListNotations.
Require Import ITree.Model.Common ITree.Model.Heap.
Local Open Scope N_scope.

(* a value: (identifier, expiration); a stored copy: (value, place mask of its range) *)
Definition sval := (Z * Z)%type.
Definition sexp (v: sval) : Z := snd v.
Definition copy := (sval * N)%type.

Record layout := { lmin : Z; lmax : Z; lscale : Z }.

(* Layout::new; [len] is (max - min + 1) as usize, [p] is ilog2(len-1)+1 *)
Definition layout_new (lo hi: Z) : option layout :=
  let len := (hi - lo + 1)%Z in
  if (len <? 5)%Z then None else
  let p := (Z.log2 (len - 1) + 1)%Z in
  if (p <? 5)%Z then None else Some {| lmin := lo; lmax := hi; lscale := (p - 5)%Z |}.

Definition zindex (L: layout) (v: Z) : Z := Z.shiftr (v - lmin L) (lscale L).
Definition lindex (L: layout) (v: Z) : N := Z.to_N (zindex L v).
Definition lcount (L: layout) : N := order_to_heap_index (lindex L (lmax L)) + 1.

Record seg := { lay : layout; chunks : list (list copy) }.

Definition seg_new (lo hi: Z) : option seg :=
  match layout_new lo hi with
  | None => None
  | Some L => Some {| lay := L; chunks := repeat [] (N.to_nat (lcount L)) |}
  end.

Fixpoint upd {A} (l: list A) (i: nat) (f: A -> A) : list A :=
  match l, i with
  | [], _ => []
  | x :: xs, O => f x :: xs
  | x :: xs, S j => x :: upd xs j f
  end.

Definition push_copy (c: copy) (cs: list (list copy)) (i: N) : list (list copy) :=
  upd cs (N.to_nat i) (fun ch => ch ++ [c]).

Definition insert_mask (L: layout) (a b: Z) : N := place_mask (lindex L a) (lindex L b).
Definition intersect_mask (L: layout) (a b: Z) : N := visit_mask (lindex L a) (lindex L b).

(* every place an insert writes to / a query looks at must exist: chunk_mut / chunk are unchecked *)
Definition backed (cs: list (list copy)) (m: N) : bool :=
  forallb (fun i => N.ltb i (N.of_nat (length cs))) (bits m).

Definition seg_insert (s: seg) (a b: Z) (v: sval) : res seg :=
  let m := insert_mask (lay s) a b in
  if backed (chunks s) m
  then Ret {| lay := lay s; chunks := fold_left (push_copy (v, m)) (bits m) (chunks s) |}
  else Err ErrIndex.

(* Vec::swap_remove: position i is overwritten by the last element *)
Definition swap_remove {A} (l: list A) (i: nat) : list A :=
  match skipn i l with
  | [] => l
  | x :: rest =>
    match rest with
    | [] => firstn i l
    | y :: rest' => firstn i l ++ last rest y :: removelast rest
    end
  end.

Record iter := { i0 : option N; i1 : nat; qmask : N; rest : list N; itime : Z }.

Definition chunk_at (cs: list (list copy)) (p: N) : list copy := nth (N.to_nat p) cs [].

(* find_next_not_empty_chunk over the remaining bits of the query mask *)
Fixpoint next_nonempty (cs: list (list copy)) (bs: list N) : option N * list N :=
  match bs with
  | [] => (None, [])
  | b :: bs' => match chunk_at cs b with
                | [] => next_nonempty cs bs'
                | _ => (Some b, bs')
                end
  end.

(* the inner while-loop of next() on one place, from position i *)
Fixpoint scan (fuel: nat) (c: list copy) (i: nat) (place: N) (qm: N) (time: Z)
  : res (list copy * option (sval * nat)) :=
  match nth_error c i with
  | None => Ret (c, None)
  | Some (v, m) =>
    match fuel with
    | O => Err ErrFuel
    | S f =>
      if (sexp v <? time)%Z then scan f (swap_remove c i) i place qm time
      else if N.eqb (lowbit (N.land m qm)) place then Ret (c, Some (v, S i))
      else scan f c (S i) place qm time
    end
  end.

Definition set_iter (it: iter) (p: option N) (i: nat) (rs: list N) : iter :=
  {| i0 := p; i1 := i; qmask := qmask it; rest := rs; itime := itime it |}.

(* Iterator::next *)
Fixpoint next (fuel: nat) (cs: list (list copy)) (it: iter)
  : res (list (list copy) * iter * option sval) :=
  match i0 it with
  | None => Ret (cs, it, None)
  | Some p =>
    if N.leb (N.of_nat (length cs)) p then Ret (cs, it, None) else   (* while i0 < chunks.len() *)
    let c := chunk_at cs p in
    bind (scan (length c) c (i1 it) p (qmask it) (itime it)) (fun cr =>
    let cs' := upd cs (N.to_nat p) (fun _ => fst cr) in
    match snd cr with
    | Some (v, i') => Ret (cs', set_iter it (Some p) i' (rest it), Some v)
    | None =>
      match fuel with
      | O => Err ErrFuel
      | S f => let '(nx, rs) := next_nonempty cs' (rest it) in next f cs' (set_iter it nx O rs)
      end
    end)
  end.

Definition iter_new (s: seg) (a b: Z) (time: Z) : iter :=
  let qm := intersect_mask (lay s) a b in
  let '(nx, rs) := next_nonempty (chunks s) (bits qm) in
  {| i0 := nx; i1 := O; qmask := qm; rest := rs; itime := time |}.

Definition next_fuel (it: iter) : nat := S (length (rest it)).

(* up to n calls of next (an iterator that is dropped after n items made n calls; one that is
   exhausted made one more, which changes nothing any more) *)
Fixpoint take_n (n: nat) (cs: list (list copy)) (it: iter) : res (list (list copy) * list sval) :=
  match n with
  | O => Ret (cs, [])
  | S k =>
    bind (next (next_fuel it) cs it) (fun r =>
    match snd r with
    | None => Ret (fst (fst r), [])
    | Some v => bind (take_n k (fst (fst r)) (snd (fst r))) (fun r2 => Ret (fst r2, v :: snd r2))
    end)
  end.

Definition total_copies (cs: list (list copy)) : nat := fold_right (fun c n => (length c + n)%nat) O cs.

(* n = None: consume the iterator completely *)
Definition seg_query (s: seg) (a b: Z) (time: Z) (n: option nat) : res (seg * list sval) :=
  if negb (backed (chunks s) (intersect_mask (lay s) a b)) then Err ErrIndex else
  let k := match n with Some k => k | None => S (total_copies (chunks s)) end in
  bind (take_n k (chunks s) (iter_new s a b time)) (fun r =>
  Ret ({| lay := lay s; chunks := fst r |}, snd r)).

Definition seg_clear (s: seg) : seg := {| lay := lay s; chunks := map (fun _ => []) (chunks s) |}.

Inductive sop :=
| SIns (a b: Z) (v: sval) | SQuery (a b: Z) (time: Z) (n: option nat) | SClear.

Definition seg_step (s: seg) (o: sop) : res (seg * list sval) :=
  match o with
  | SIns a b v => bind (seg_insert s a b v) (fun s' => Ret (s', []))
  | SQuery a b time n => seg_query s a b time n
  | SClear => Ret (seg_clear s, [])
  end.

Fixpoint seg_run (s: seg) (h: list sop) : res (seg * list (list sval)) :=
  match h with
  | [] => Ret (s, [])
  | o :: h' =>
    bind (seg_step s o) (fun so =>
    bind (seg_run (fst so) h') (fun sr => Ret (fst sr, snd so :: snd sr)))
  end.
