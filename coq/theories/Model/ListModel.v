(** * The sorted-Vec variants: MapList, SetList (src/{map,set}/list.rs) and KeyExpList
    (src/key/list.rs).  Handles are positions.  [binary_search_by] is modelled by its contract on a
    slice that is sorted consistently with the comparator and holds at most one [Eq] element:
    [Ok i] for that element, otherwise [Err (number of Lt elements)]; std's probing order is in the
    trusted base. *)
From Coq Require Import List NArith ZArith Bool.
Import ListNotations.
Require Import ITree.Model.Common ITree.Model.MapModel ITree.Model.KeyModel.
Local Open Scope nat_scope.

Section BSearch.
Variable A : Type.
Variable key_of : A -> Z.

(* (found, index) *)
Fixpoint bsearch (f: Z -> comparison) (l: list A) : bool * nat :=
  match l with
  | [] => (false, 0)
  | x :: l' =>
    match f (key_of x) with
    | Lt => let '(b, i) := bsearch f l' in (b, S i)
    | Eq => (true, 0)
    | Gt => (false, 0)
    end
  end.

Fixpoint insert_at (l: list A) (i: nat) (x: A) : list A :=
  match i, l with
  | O, _ => x :: l
  | S j, [] => [x]                      (* Vec::insert panics for i > len; unreachable *)
  | S j, y :: l' => y :: insert_at l' j x
  end.

Fixpoint remove_at (l: list A) (i: nat) : list A :=
  match l, i with
  | [], _ => []
  | _ :: l', O => l'
  | y :: l', S j => y :: remove_at l' j
  end.

Fixpoint update_at (l: list A) (i: nat) (g: A -> A) : list A :=
  match l, i with
  | [], _ => []
  | y :: l', O => g y :: l'
  | y :: l', S j => y :: update_at l' j g
  end.

Definition l_insert (l: list A) (x: A) : list A :=
  insert_at l (snd (bsearch (cmp_to (key_of x)) l)) x.
Definition l_delete (l: list A) (k: Z) : list A :=
  let '(b, i) := bsearch (cmp_to k) l in if b then remove_at l i else l.
Definition l_get (l: list A) (k: Z) : option A :=
  let '(b, i) := bsearch (cmp_to k) l in if b then nth_error l i else None.
(* first_index_less(_by): Ok i => i; Err i => i-1 or EMPTY_REF *)
Definition l_first_by (l: list A) (f: Z -> comparison) : option nat :=
  let '(b, i) := bsearch f l in
  if b then Some i else match i with O => None | S j => Some j end.
End BSearch.

(** ** MapList / SetList *)
Definition lstate := list ment.

Definition ml_delete_at (l: lstate) (h: N) : res lstate :=
  if Nat.ltb (N.to_nat h) (length l) then Ret (remove_at ment l (N.to_nat h)) else Err ErrIndex.
Definition ml_value_at (l: lstate) (h: N) : res ment :=
  match nth_error l (N.to_nat h) with Some e => Ret e | None => Err ErrIndex end.
Definition ml_set_at (l: lstate) (h: N) (v: Z) : res lstate :=
  if Nat.ltb (N.to_nat h) (length l)
  then Ret (update_at ment l (N.to_nat h) (fun e => (fst e, v))) else Err ErrIndex.
(* SetList::index_after / index_before as repaired: EMPTY_REF past either end *)
Definition ml_after (l: lstate) (h: N) : res (option N) :=
  if Nat.ltb (N.to_nat h) (length l)
  then Ret (if Nat.ltb (S (N.to_nat h)) (length l) then Some (h + 1)%N else None)
  else Err ErrIndex.
Definition ml_before (l: lstate) (h: N) : res (option N) :=
  if Nat.ltb (N.to_nat h) (length l)
  then Ret (if N.eqb h 0 then None else Some (h - 1)%N)
  else Err ErrIndex.

Definition ml_step (l: lstate) (o: mop) : res (lstate * mout) :=
  match o with
  | MIns k v => Ret (l_insert ment mkey l (k, v), ONone)
  | MDel k => Ret (l_delete ment mkey l k, ONone)
  | MDelAt h => bind (ml_delete_at l h) (fun l' => Ret (l', ONone))
  | MGet k => Ret (l, OEnt (l_get ment mkey l k))
  | MIsEmpty => Ret (l, OBool (match l with [] => true | _ => false end))
  | MFirst k => Ret (l, OHandle (option_map N.of_nat (l_first_by ment mkey l (cmp_to k))))
  | MFirstBy f => Ret (l, OHandle (option_map N.of_nat (l_first_by ment mkey l f)))
  | MValAt h => bind (ml_value_at l h) (fun e => Ret (l, OEnt (Some e)))
  | MSetAt h v => bind (ml_set_at l h v) (fun l' => Ret (l', ONone))
  | MAfter h => bind (ml_after l h) (fun a => Ret (l, OHandle a))
  | MBefore h => bind (ml_before l h) (fun a => Ret (l, OHandle a))
  | MClear => Ret ([], ONone)
  end.

Fixpoint ml_run (l: lstate) (h: list mop) : res (lstate * list mout) :=
  match h with
  | [] => Ret (l, [])
  | o :: h' =>
    bind (ml_step l o) (fun so =>
    bind (ml_run (fst so) h') (fun sr => Ret (fst sr, snd so :: snd sr)))
  end.

(** ** KeyExpList *)
Record klstate := { kbuf : list kent; kmin : Z }.

Section KL.
Variable max_exp : Z.      (* E::max_expiration() *)

Definition kl_new : klstate := {| kbuf := []; kmin := max_exp |}.

Definition kl_clear_expired (s: klstate) (time: Z) : klstate :=
  if Z.ltb time (kmin s) then s
  else let b := filter (live time) (kbuf s) in
       {| kbuf := b; kmin := fold_left (fun m e => Z.min m (kexp e)) b max_exp |}.

Definition kl_insert (s: klstate) (ne: kent) (time: Z) : klstate :=
  let s1 := kl_clear_expired s time in
  {| kbuf := l_insert kent kk (kbuf s1) ne; kmin := Z.min (kmin s1) (kexp ne) |}.

Definition kl_get (s: klstate) (time key: Z) : klstate * option Z :=
  let s1 := kl_clear_expired s time in (s1, option_map kval (l_get kent kk (kbuf s1) key)).

(* first_less: index = Ok i or Err i alike; value at i-1 *)
Definition kl_first_less (s: klstate) (time key: Z) : klstate * option Z :=
  let s1 := kl_clear_expired s time in
  let i := snd (bsearch kent kk (cmp_to key) (kbuf s1)) in
  (s1, match i with O => None | S j => option_map kval (nth_error (kbuf s1) j) end).

Definition kl_first_less_or_equal_by (s: klstate) (time: Z) (f: Z -> comparison) : klstate * option Z :=
  let s1 := kl_clear_expired s time in
  (s1, match l_first_by kent kk (kbuf s1) f with
       | None => None
       | Some i => option_map kval (nth_error (kbuf s1) i)
       end).

Definition kl_export (s: klstate) (time: Z) : list Z := map kval (kbuf (kl_clear_expired s time)).

Definition kl_step (s: klstate) (o: kop) : klstate * kout :=
  match o with
  | KIns k e v time => (kl_insert s {| kk := k; kexp := e; kval := v |} time, KONone)
  | KLess time key => let '(s', r) := kl_first_less s time key in (s', KOVal r)
  | KLessEq time key => let '(s', r) := kl_first_less_or_equal_by s time (cmp_to key) in (s', KOVal r)
  | KLessEqBy time f => let '(s', r) := kl_first_less_or_equal_by s time f in (s', KOVal r)
  | KGet time key => let '(s', r) := kl_get s time key in (s', KOVal r)
  | KIsEmpty => (s, KOBool (match kbuf s with [] => true | _ => false end))
  | KClear => (kl_new, KONone)
  | KExport time => (s, KOList (kl_export s time))
  end.

Fixpoint kl_run (s: klstate) (h: list kop) : klstate * list kout :=
  match h with
  | [] => (s, [])
  | o :: h' => let '(s1, out) := kl_step s o in let '(s2, outs) := kl_run s1 h' in (s2, out :: outs)
  end.
End KL.
