(** * Error values shared by the models.
    Every place where the Rust code would index with EMPTY_REF, pop an empty free list, use a
    position outside a list, or loop past its termination measure returns one of these; the C10
    theorems state that no in-contract history produces one. *)
Inductive err :=
| ErrStuck    (* a sibling / nephew / successor the repair needs is missing: node(EMPTY_REF) *)
| ErrFuel     (* a while-loop did not finish within its termination measure *)
| ErrPool     (* the free list is empty after growing *)
| ErrHandle   (* a handle that does not designate a stored entry *)
| ErrIndex    (* a list position or place index outside its container *)
| ErrRange.   (* an intermediate value leaves its machine type *)

Inductive res (A: Type) := Ret (a: A) | Err (e: err).
Arguments Ret {A} a.
Arguments Err {A} e.

Definition bind {A B} (r: res A) (f: A -> res B) : res B :=
  match r with Ret a => f a | Err e => Err e end.
