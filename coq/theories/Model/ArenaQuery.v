(** * Arena-level (parent-pointer) model of the read-only operations of MapTree / SetTree / KeyExpTree,
    statement by statement, over the generic arena of Model/ArenaModel.v:

    - src/{map,set}/tree.rs: search_value, find_index (one loop, [arena_lookup]), search_first_less,
      search_first_less_by (one loop, [arena_first_loop]), delete (find_index, then delete_index);
    - src/set/tree.rs: index_after, index_before (they climb parent links), find_right_minimum
      (find_left_minimum is Model/ArenaDelete.v);
    - the accessors is_empty, value_by_index, value_by_index_mut; one step of the whole
      MapCollection / SetCollection interface ([arena_m_step]);
    - src/{map,set,key}/tree.rs: clear (the level-by-level walk that uses the free list itself as its
      queue); the state is the arena together with the tree-level [Pool] model, [put_back] = [pool_put];
    - src/key/array.rs: create_ordered_list (in-order traversal with an explicit stack).

    Every [while] loop is structural recursion on explicit fuel ([Err ErrFuel] when exhausted); the
    [for i in i0..len] loop of clear runs over a range fixed at its entry and is structural recursion on
    the number of iterations.  Definitions only; the refinement proofs are Proofs/ArenaQueryProofs.v. *)
From Coq Require Import List NArith ZArith Bool.
Import ListNotations.
Require Import ITree.Model.Common ITree.Model.RBTree ITree.Model.Pool ITree.Model.MapModel ITree.Model.KeyModel.
Require Import ITree.Model.ArenaModel ITree.Model.ArenaDelete ITree.Model.ArenaKey.
Local Open Scope N_scope.

Section ArenaQuery.
Variable ent : Type.
Variable key_of : ent -> Z.
Notation anode := (anode ent).
Notation astate := (astate ent).

(** ** the accessors *)

(* is_empty(): self.root == EMPTY_REF *)
Definition arena_is_empty (s: astate) : bool := N.eqb (aroot s) EMPTY.

(* value_by_index(index): &self.node(index).entity.val (map) / &self.node(index).value (set); the model
   returns the entity *)
Definition arena_value_by_index (s: astate) (index: N) : ent := aent (nodes s index).

(* value_by_index_mut(index), followed by the caller's write through the reference: the entity of the
   node becomes [upd] of what it was (the map overwrites the value and keeps the key) *)
Definition arena_update_value (s: astate) (index: N) (upd: ent -> ent) : astate :=
  set_ent s index (upd (aent (nodes s index))).

(** ** the descents *)

(* the loop of search_value / find_index:
     while index != EMPTY_REF { match key.cmp(&node.key) { Equal => return .., Less => index = node.left,
                                                            Greater => index = node.right } }
   [f] applied to the stored key is [key.cmp(stored)]; [hit] is what is returned on Equal (the value
   of the node, or its index), [miss] what is returned after the loop (None, or EMPTY_REF) *)
Fixpoint arena_lookup {A: Type} (fuel: nat) (s: astate) (index: N) (f: Z -> comparison)
  (hit: N -> A) (miss: A) : res A :=
  match fuel with
  | O => Err ErrFuel
  | S fu =>
    if N.eqb index EMPTY then Ret miss
    else
      let node := nodes s index in
      match f (key_of (aent node)) with
      | Eq => Ret (hit index)
      | Lt => arena_lookup fu s (lft node) f hit miss
      | Gt => arena_lookup fu s (rgt node) f hit miss
      end
  end.

(* key.cmp(stored) *)
Definition cmp_key (k: Z) : Z -> comparison := fun stored => Z.compare k stored.

(* search_value(key): Some(&node.entity.val) / Some(&node.value); the model returns the entity *)
Definition arena_search_value (fuel: nat) (s: astate) (k: Z) : res (option ent) :=
  arena_lookup fuel s (aroot s) (cmp_key k) (fun index => Some (aent (nodes s index))) None.

(* find_index(key) *)
Definition arena_find_index (fuel: nat) (s: astate) (k: Z) : res N :=
  arena_lookup fuel s (aroot s) (cmp_key k) (fun index => index) EMPTY.

(* the loop of search_first_less / search_first_less_by: [f] is applied to the stored key
   ([stored.cmp(key)] for search_first_less) *)
Fixpoint arena_first_loop (fuel: nat) (s: astate) (index: N) (f: Z -> comparison) (result: N) : res N :=
  match fuel with
  | O => Err ErrFuel
  | S fu =>
    if N.eqb index EMPTY then Ret result
    else
      let node := nodes s index in
      match f (key_of (aent node)) with
      | Eq => Ret index
      | Lt => arena_first_loop fu s (rgt node) f index       (* result = index; index = node.right *)
      | Gt => arena_first_loop fu s (lft node) f result      (* index = node.left *)
      end
  end.

Definition arena_search_first_less_by (fuel: nat) (s: astate) (f: Z -> comparison) : res N :=
  arena_first_loop fuel s (aroot s) f EMPTY.
Definition arena_search_first_less (fuel: nat) (s: astate) (k: Z) : res N :=
  arena_search_first_less_by fuel s (cmp_to k).

(* delete_index(index) together with its last statement store.put_back(delete_index) (the part before it
   is Model/ArenaDelete.v [arena_delete]; ArenaKey.arena_kdelete is this function at [kent]) *)
Definition arena_delete_put (dfuel: nat) (st: astate * pool) (index: N) : res (astate * pool) :=
  match arena_delete dfuel (fst st) index with
  | Ret (s', f) => Ret (s', pool_put (snd st) f)
  | Err e => Err e
  end.

(* delete(key): let index = self.find_index(key); if index != EMPTY_REF { self.delete_index(index); } *)
Definition arena_delete_key (fuel dfuel: nat) (st: astate * pool) (k: Z) : res (astate * pool) :=
  bind (arena_find_index fuel (fst st) k) (fun index =>
  if negb (N.eqb index EMPTY) then arena_delete_put dfuel st index else Ret st).

(** ** the neighbour steps of the set *)

(* find_right_minimum(i) *)
Fixpoint find_right_minimum (fuel: nat) (s: astate) (i: N) : res N :=
  match fuel with
  | O => Err ErrFuel
  | S f =>
    if negb (N.eqb (rgt (nodes s i)) EMPTY) then find_right_minimum f s (rgt (nodes s i))
    else Ret i
  end.

(* the loop of index_after:
     while parent_index != EMPTY_REF {
       let parent = self.node(parent_index);
       if parent.right != index { break; }
       index = parent_index; parent_index = parent.parent; }
     parent_index *)
Fixpoint climb_while_right (fuel: nat) (s: astate) (index parent_index: N) : res N :=
  match fuel with
  | O => Err ErrFuel
  | S f =>
    if N.eqb parent_index EMPTY then Ret parent_index
    else
      let parent := nodes s parent_index in
      if negb (N.eqb (rgt parent) index) then Ret parent_index
      else climb_while_right f s parent_index (par parent)
  end.

Fixpoint climb_while_left (fuel: nat) (s: astate) (index parent_index: N) : res N :=
  match fuel with
  | O => Err ErrFuel
  | S f =>
    if N.eqb parent_index EMPTY then Ret parent_index
    else
      let parent := nodes s parent_index in
      if negb (N.eqb (lft parent) index) then Ret parent_index
      else climb_while_left f s parent_index (par parent)
  end.

(* index_after(index) *)
Definition arena_index_after (fuel: nat) (s: astate) (index: N) : res N :=
  let node := nodes s index in
  if negb (N.eqb (rgt node) EMPTY) then find_left_minimum fuel s (rgt node)
  else climb_while_right fuel s index (par node).

(* index_before(index) *)
Definition arena_index_before (fuel: nat) (s: astate) (index: N) : res N :=
  let node := nodes s index in
  if negb (N.eqb (lft node) EMPTY) then find_right_minimum fuel s (lft node)
  else climb_while_left fuel s index (par node).

(** ** clear *)

(* the free list as the Rust Vec: [unused p] is top first, so position [i] of the Vec is position [i]
   of the reversed list; [None] = index out of bounds (a panic of the bounds-checked [unused[i]]) *)
Definition vec_len (p: pool) : N := N.of_nat (length (unused p)).
Definition vec_get (p: pool) (i: N) : option N := nth_error (rev (unused p)) (N.to_nat i).

(* the body of [for i in i0..len], [cnt] iterations left:
     let index = unused[i]; let node = self.node(index); let left = node.left; let right = node.right;
     if left != EMPTY_REF { put_back(left); n += 1 }  if right != EMPTY_REF { put_back(right); n += 1 } *)
Fixpoint clear_row (cnt: nat) (s: astate) (p: pool) (i: N) (n: N) : res (pool * N) :=
  match cnt with
  | O => Ret (p, n)
  | S c =>
    match vec_get p i with
    | None => Err ErrIndex
    | Some index =>
      let node := nodes s index in
      let left := lft node in
      let right := rgt node in
      let '(p1, n1) := if negb (N.eqb left EMPTY) then (pool_put p left, n + 1) else (p, n) in
      let '(p2, n2) := if negb (N.eqb right EMPTY) then (pool_put p1 right, n1 + 1) else (p1, n1) in
      clear_row c s p2 (i + 1) n2
    end
  end.

(* while n > 0 { let i0 = unused.len() - n; n = 0; for i in i0..unused.len() { .. } } *)
Fixpoint clear_loop (fuel: nat) (s: astate) (p: pool) (n: N) : res pool :=
  match fuel with
  | O => Err ErrFuel
  | S f =>
    if N.ltb 0 n then
      let len := vec_len p in
      if N.ltb len n then Err ErrRange                         (* unused.len() - n underflows *)
      else
        let i0 := len - n in
        bind (clear_row (N.to_nat (len - i0)) s p i0 0) (fun r => clear_loop f s (fst r) (snd r))
    else Ret p
  end.

(* clear() *)
Definition arena_clear (fuel: nat) (st: astate * pool) : res (astate * pool) :=
  let '(s, p) := st in
  if N.eqb (aroot s) EMPTY then Ret st
  else
    let p1 := pool_put p (aroot s) in                          (* self.store.put_back(self.root) *)
    let s1 := set_root s EMPTY in                              (* self.root = EMPTY_REF *)
    bind (clear_loop fuel s1 p1 1) (fun p' => Ret (s1, p')).

End ArenaQuery.

Arguments arena_is_empty {ent} s.
Arguments arena_value_by_index {ent} s index.
Arguments arena_update_value {ent} s index upd.
Arguments arena_lookup {ent} key_of {A} fuel s index f hit miss.
Arguments arena_search_value {ent} key_of fuel s k.
Arguments arena_find_index {ent} key_of fuel s k.
Arguments arena_first_loop {ent} key_of fuel s index f result.
Arguments arena_search_first_less_by {ent} key_of fuel s f.
Arguments arena_search_first_less {ent} key_of fuel s k.
Arguments arena_delete_put {ent} dfuel st index.
Arguments arena_delete_key {ent} key_of fuel dfuel st k.
Arguments find_right_minimum {ent} fuel s i.
Arguments climb_while_right {ent} fuel s index parent_index.
Arguments climb_while_left {ent} fuel s index parent_index.
Arguments arena_index_after {ent} fuel s index.
Arguments arena_index_before {ent} fuel s index.
Arguments clear_row {ent} cnt s p i n.
Arguments clear_loop {ent} fuel s p n.
Arguments arena_clear {ent} fuel st.

(** ** the MapCollection / SetCollection interface of MapTree / SetTree on the arena: one step of
    Model/MapModel.v ([m_step]) with the arena-level functions ([ment], [mkey]); the state is the arena
    with the slot pool *)
Definition mast := (astate ment * pool)%type.

(* a handle as the tree-level model reports it: None = EMPTY_REF *)
Definition handle_of (i: N) : option N := if N.eqb i EMPTY then None else Some i.

(* insert(key, val): the slot comes from store.get_free_index() (insert_root / insert_new) *)
Definition arena_m_insert (fuel: nat) (st: mast) (k v: Z) : res mast :=
  match pool_get (snd st) with
  | None => Err ErrPool
  | Some (ni, p') =>
    match arena_insert mkey fuel (fst st) ni (k, v) with
    | Ret a' => Ret (a', p')
    | Err e => Err e
    end
  end.

Definition arena_m_step (fuel: nat) (st: mast) (o: mop) : res (mast * mout) :=
  match o with
  | MIns k v => bind (arena_m_insert fuel st k v) (fun st' => Ret (st', ONone))
  | MDel k => bind (arena_delete_key mkey fuel fuel st k) (fun st' => Ret (st', ONone))
  | MDelAt h => bind (arena_delete_put fuel st h) (fun st' => Ret (st', ONone))
  | MGet k => bind (arena_search_value mkey fuel (fst st) k) (fun v => Ret (st, OEnt v))
  | MIsEmpty => Ret (st, OBool (arena_is_empty (fst st)))
  | MFirst k => bind (arena_search_first_less mkey fuel (fst st) k) (fun i => Ret (st, OHandle (handle_of i)))
  | MFirstBy f => bind (arena_search_first_less_by mkey fuel (fst st) f) (fun i => Ret (st, OHandle (handle_of i)))
  | MValAt h => Ret (st, OEnt (Some (arena_value_by_index (fst st) h)))
  | MSetAt h v => Ret ((arena_update_value (fst st) h (fun e => (fst e, v)), snd st), ONone)
  | MAfter h => bind (arena_index_after fuel (fst st) h) (fun i => Ret (st, OHandle (handle_of i)))
  | MBefore h => bind (arena_index_before fuel (fst st) h) (fun i => Ret (st, OHandle (handle_of i)))
  | MClear => bind (arena_clear fuel st) (fun st' => Ret (st', ONone))
  end.

Fixpoint arena_m_run (fuel: nat) (st: mast) (h: list mop) : res (mast * list mout) :=
  match h with
  | [] => Ret (st, [])
  | o :: h' =>
    bind (arena_m_step fuel st o) (fun so =>
    bind (arena_m_run fuel (fst so) h') (fun sr => Ret (fst sr, snd so :: snd sr)))
  end.

(** ** src/key/array.rs: create_ordered_list (KeyExpTree::into_ordered_vec) *)

(* struct StackNode { index, left, right } *)
Record snode := { s_index : N; s_left : N; s_right : N }.

(* StackNode::new(index, node) *)
Definition snode_new (a: karena) (index: N) : snode :=
  {| s_index := index; s_left := lft (nodes a index); s_right := rgt (nodes a index) |}.

(* the loop [while !stack.is_empty()]: the stack is top first, [out] is the Vec [list] being filled
   ([list.push(v)] = [out ++ [v]]) *)
Fixpoint export_loop (fuel: nat) (a: karena) (time: Z) (stack: list snode) (out: list Z) : res (list Z) :=
  match fuel with
  | O => Err ErrFuel
  | S f =>
    match stack with
    | [] => Ret out
    | s :: rest =>
      if negb (N.eqb (s_left s) EMPTY) then
        (* go down left *)
        let index := s_left s in
        let s' := {| s_index := s_index s; s_left := EMPTY; s_right := s_right s |} in
        export_loop f a time (snode_new a index :: s' :: rest) out
      else
        let '(s1, out1) :=
          if negb (N.eqb (s_index s) EMPTY) then
            let index := s_index s in
            ({| s_index := EMPTY; s_left := s_left s; s_right := s_right s |},
             if not_expired a index time then out ++ [kval (aent (nodes a index))] else out)
          else (s, out) in
        if negb (N.eqb (s_right s1) EMPTY) then
          (* go down right *)
          let index := s_right s1 in
          let s2 := {| s_index := s_index s1; s_left := s_left s1; s_right := EMPTY |} in
          export_loop f a time (snode_new a index :: s2 :: rest) out1
        else
          (* go up *)
          export_loop f a time rest out1
    end
  end.

(* height(): the loop down the left spine counting black nodes, then [height << 1]; only used as the
   capacity request of the stack *)
Fixpoint height_loop (fuel: nat) (a: karena) (index: N) (height: N) : res N :=
  match fuel with
  | O => Err ErrFuel
  | S f =>
    if negb (N.eqb (lft (nodes a index)) EMPTY) then
      let index' := lft (nodes a index) in                      (* node = self.node(node.left) *)
      height_loop f a index' (if negb (red (nodes a index')) then height + 1 else height)
    else Ret height
  end.
Definition arena_height (fuel: nat) (a: karena) : res N :=
  if N.eqb (aroot a) EMPTY then Ret 0
  else bind (height_loop fuel a (aroot a) 1) (fun h => Ret (N.shiftl h 1)).

(* count = self.store.buffer.len() - self.store.unused.len() - 1: the capacity request of the result *)
Definition export_count (p: pool) : res N :=
  if N.ltb (blen p) (vec_len p + 1) then Err ErrRange else Ret (blen p - vec_len p - 1).

(* create_ordered_list(time): the two capacity requests above do not influence the result *)
Definition arena_export (fuel: nat) (a: karena) (time: Z) : res (list Z) :=
  if N.eqb (aroot a) EMPTY then Ret []
  else export_loop fuel a time [snode_new a (aroot a)] [].
