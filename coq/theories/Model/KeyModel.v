(** * KeyExpTree (src/key/tree.rs, src/key/array.rs): red-black tree with lazy expiry.

    The search holds a SLOT number, as the Rust code does; [expire_root] / [expire_child]
    physically delete (full [del] + [pool_put]) while the root / the [d]-child of the held slot
    is not live, re-reading the link in the NEW tree after every deletion.  Every function also
    returns the list of its callback events: [EvExp] for each [expiration()] test, [EvCmp] for
    each call of the caller's ordering / comparator, with the entity handed to user code and
    the state of the collection at that moment (C18, C20). *)
From Coq Require Import List NArith ZArith Bool.
Import ListNotations.
Require Import ITree.Model.Common ITree.Model.RBTree ITree.Model.Pool ITree.Model.MapModel.
Local Open Scope N_scope.

Record kent := { kk: Z; kexp: Z; kval: Z }.
Notation ktree := (tree kent).
Definition live (time: Z) (e: kent) : bool := Z.ltb time (kexp e).

Record kstate := { kroot : ktree; kpl : pool }.

Inductive evkind := EvExp | EvCmp.
Definition event := (evkind * kent * kstate)%type.

Definition k_new (cap: N) : kstate := {| kroot := E; kpl := tree_pool_new cap |}.

Definition kdelete (s: kstate) (x: N) : res kstate :=
  match del kent (kroot s) x with
  | Done t' _ f => Ret {| kroot := t'; kpl := pool_put (kpl s) f |}
  | NotFound => Err ErrHandle
  | Stuck => Err ErrStuck
  end.

Definition ksize (s: kstate) : nat := size kent (kroot s).

Fixpoint expire_root (fuel: nat) (s: kstate) (time: Z) : res (kstate * list event) :=
  match kroot s with
  | E => Ret (s, [])
  | T _ _ x e _ =>
    let ev := (EvExp, e, s) in
    if live time e then Ret (s, [ev])
    else match fuel with
         | O => Err ErrFuel
         | S f => bind (kdelete s x) (fun s' =>
                  bind (expire_root f s' time) (fun r => Ret (fst r, ev :: snd r)))
         end
  end.

Definition child (d: dir) (t: ktree) (x: N) : option ktree :=
  match sub kent t x with
  | Some (T _ l _ _ r) => Some (match d with L => l | R => r end)
  | _ => None
  end.

(* expire_left / expire_right of node x: new state and the slot of its live child (None = EMPTY_REF) *)
Fixpoint expire_child (fuel: nat) (d: dir) (s: kstate) (x: N) (time: Z)
  : res (kstate * option N * list event) :=
  match child d (kroot s) x with
  | None => Err ErrHandle
  | Some E => Ret (s, None, [])
  | Some (T _ _ y e _) =>
    let ev := (EvExp, e, s) in
    if live time e then Ret (s, Some y, [ev])
    else match fuel with
         | O => Err ErrFuel
         | S f => bind (kdelete s y) (fun s' =>
                  bind (expire_child f d s' x time) (fun r =>
                  Ret (fst (fst r), snd (fst r), ev :: snd r)))
         end
  end.

Inductive qkind := QLess | QLessEq | QGet.

(* the loops of search_first_less / search_first_less_or_equal(_by) / search_value (as repaired);
   [f] is applied to the stored key; [res] is the value remembered so far *)
Fixpoint search (fuel: nat) (q: qkind) (f: Z -> comparison) (s: kstate) (x: N) (time: Z)
  (res0: option Z) : res (kstate * option Z * list event) :=
  match fuel with
  | O => Err ErrFuel
  | S fu =>
    match ent_at kent (kroot s) x with
    | None => Err ErrHandle
    | Some e =>
      let ev := (EvCmp, e, s) in
      let go d res' :=
        bind (expire_child (ksize s) d s x time) (fun r =>
        match snd (fst r) with
        | None => Ret (fst (fst r), res', ev :: snd r)
        | Some y => bind (search fu q f (fst (fst r)) y time res') (fun r2 =>
                    Ret (fst (fst r2), snd (fst r2), ev :: snd r ++ snd r2))
        end) in
      match q, f (kk e) with
      | QLess, Lt => go R (Some (kval e))
      | QLess, _ => go L res0
      | QLessEq, Eq => Ret (s, Some (kval e), [ev])
      | QLessEq, Lt => go R (Some (kval e))
      | QLessEq, Gt => go L res0
      | QGet, Eq => Ret (s, Some (kval e), [ev])
      | QGet, Lt => go R res0
      | QGet, Gt => go L res0
      end
    end
  end.

Definition k_query (q: qkind) (f: Z -> comparison) (s: kstate) (time: Z)
  : res (kstate * option Z * list event) :=
  bind (expire_root (ksize s) s time) (fun r1 =>
  let s1 := fst r1 in
  match kroot s1 with
  | E => Ret (s1, None, snd r1)
  | T _ _ x _ _ =>
    bind (search (S (ksize s1)) q f s1 x time None) (fun r2 =>
    Ret (fst (fst r2), snd (fst r2), snd r1 ++ snd r2))
  end).

Definition k_first_less (s: kstate) (time key: Z) := k_query QLess (cmp_to key) s time.
Definition k_first_less_or_equal (s: kstate) (time key: Z) := k_query QLessEq (cmp_to key) s time.
Definition k_first_less_or_equal_by (s: kstate) (time: Z) (f: Z -> comparison) := k_query QLessEq f s time.
Definition k_get_value (s: kstate) (time key: Z) := k_query QGet (cmp_to key) s time.

(* the descent of insert_entity: purge along the path the new key takes *)
Fixpoint ins_descend (fuel: nat) (s: kstate) (x: N) (time: Z) (ne: kent)
  : res (kstate * list event) :=
  match fuel with
  | O => Err ErrFuel
  | S fu =>
    match ent_at kent (kroot s) x with
    | None => Err ErrHandle
    | Some e =>
      let ev := (EvCmp, e, s) in
      let d := if Z.ltb (kk ne) (kk e) then L else R in
      bind (expire_child (ksize s) d s x time) (fun r =>
      match snd (fst r) with
      | None => Ret (fst (fst r), ev :: snd r)
      | Some y => bind (ins_descend fu (fst (fst r)) y time ne) (fun r2 =>
                  Ret (fst r2, ev :: snd r ++ snd r2))
      end)
    end
  end.

Definition k_link (s: kstate) (ne: kent) : res kstate :=
  match pool_get (kpl s) with
  | None => Err ErrPool
  | Some (i, p') => Ret {| kroot := insert_tree kent kk (kroot s) i ne; kpl := p' |}
  end.

Definition k_insert (s: kstate) (ne: kent) (time: Z) : res (kstate * list event) :=
  bind (expire_root (ksize s) s time) (fun r1 =>
  let s1 := fst r1 in
  match kroot s1 with
  | E => bind (k_link s1 ne) (fun s2 => Ret (s2, snd r1))
  | T _ _ x _ _ =>
    bind (ins_descend (S (ksize s1)) s1 x time ne) (fun r2 =>
    bind (k_link (fst r2) ne) (fun s3 => Ret (s3, snd r1 ++ snd r2)))
  end).

Definition k_is_empty (s: kstate) : bool := match kroot s with E => true | _ => false end.

Definition k_clear (s: kstate) : kstate :=
  {| kroot := E; kpl := fold_left pool_put (level_order kent (kroot s)) (kpl s) |}.

(* into_ordered_vec (as repaired): live entries in key order; requested capacity = stored entries *)
Definition k_export (s: kstate) (time: Z) : list Z :=
  map kval (filter (live time) (ents kent (kroot s))).
Definition k_export_capacity (s: kstate) : N := N.of_nat (ksize s).

(* the capacity request of the code before the repair: 8 << 2*(1 + black nodes below the root on
   the left spine); kept to state C19_old_refuted *)
Fixpoint left_black_below (t: ktree) : N :=
  match t with
  | E => 0
  | T c l _ _ _ => (match l with T Black _ _ _ _ => 1 | _ => 0 end) + left_black_below l
  end.
Definition old_height (t: ktree) : N :=
  match t with E => 0 | _ => 2 * (1 + left_black_below t) end.
Definition old_export_capacity (t: ktree) : N := N.shiftl 8 (old_height t).

(** ** Histories *)
Inductive kop :=
| KIns (k e v: Z) (time: Z)
| KLess (time key: Z) | KLessEq (time key: Z) | KLessEqBy (time: Z) (f: Z -> comparison)
| KGet (time key: Z) | KIsEmpty | KClear | KExport (time: Z).

Inductive kout := KONone | KOVal (v: option Z) | KOBool (b: bool) | KOList (l: list Z).

Definition k_step (s: kstate) (o: kop) : res (kstate * kout * list event) :=
  let q r := bind r (fun x : kstate * option Z * list event =>
                     Ret (fst (fst x), KOVal (snd (fst x)), snd x)) in
  match o with
  | KIns k e v time =>
    bind (k_insert s {| kk := k; kexp := e; kval := v |} time) (fun r => Ret (fst r, KONone, snd r))
  | KLess time key => q (k_first_less s time key)
  | KLessEq time key => q (k_first_less_or_equal s time key)
  | KLessEqBy time f => q (k_first_less_or_equal_by s time f)
  | KGet time key => q (k_get_value s time key)
  | KIsEmpty => Ret (s, KOBool (k_is_empty s), [])
  | KClear => Ret (k_clear s, KONone, [])
  | KExport time => Ret (s, KOList (k_export s time), [])
  end.

Fixpoint k_run (s: kstate) (h: list kop) : res (kstate * list kout) :=
  match h with
  | [] => Ret (s, [])
  | o :: h' =>
    bind (k_step s o) (fun so =>
    bind (k_run (fst (fst so)) h') (fun sr => Ret (fst sr, snd (fst so) :: snd sr)))
  end.
