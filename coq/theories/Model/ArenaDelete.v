(** * Arena-level (parent-pointer) model of removal from MapTree / SetTree
    (src/{map,set}/tree.rs: delete_index, find_left_minimum, fix_red_black_properties_after_delete,
    handle_red_sibling, handle_black_sibling_with_at_least_one_red_child, get_sibling, is_black,
    create_nil_node, set_nil_parents_child, fix_parents_nil_child, remove_parents_child), statement by
    statement, over the arena of Model/ArenaModel.v (rotate_left / rotate_right /
    replace_parents_child are shared with insertion).

    Slot [NIL] = 0 is the sentinel of the Rust code: never handed out by the pool, linked into the tree
    as a red leaf in place of a removed black leaf while the repair runs, unlinked afterwards.
    Loops / recursion run on explicit fuel ([Err ErrFuel] when exhausted).  Where the Rust code would
    index the arena with the sibling it has just read, the model returns [Err ErrStuck] if that link is
    EMPTY_REF (node(EMPTY_REF) is out of bounds in the Rust code).  Definitions only; the refinement
    proof is Proofs/ArenaDeleteProofs.v. *)
From Coq Require Import List NArith ZArith Bool.
Import ListNotations.
Require Import ITree.Model.Common ITree.Model.RBTree ITree.Model.ArenaModel.
Local Open Scope N_scope.

Definition NIL : N := 0.

(** Generic in the entity type, like Model/ArenaModel.v (removal never looks inside an entity). *)
Section ArenaDelete.
Variable ent : Type.
Notation anode := (anode ent).
Notation astate := (astate ent).

Definition with_ent (n: anode) (e: ent) : anode :=
  {| par := par n; lft := lft n; rgt := rgt n; red := red n; aent := e |}.
Definition set_ent (s: astate) (i: N) (e: ent) : astate := setn s i (with_ent (nodes s i) e).

(* is_black(index) *)
Definition is_black_idx (s: astate) (index: N) : bool :=
  N.eqb index EMPTY || negb (red (nodes s index)).

(* create_nil_node(parent) *)
Definition create_nil_node (s: astate) (parent: N) : astate :=
  let s1 := set_par s NIL parent in
  let s2 := set_lft s1 NIL EMPTY in
  let s3 := set_rgt s2 NIL EMPTY in
  set_red s3 NIL true.

(* find_left_minimum(i) *)
Fixpoint find_left_minimum (fuel: nat) (s: astate) (i: N) : res N :=
  match fuel with
  | O => Err ErrFuel
  | S f =>
    if negb (N.eqb (lft (nodes s i)) EMPTY) then find_left_minimum f s (lft (nodes s i))
    else Ret i
  end.

(* get_sibling(n_index) *)
Definition get_sibling (s: astate) (n_index: N) : N :=
  let p_index := par (nodes s n_index) in
  let parent := nodes s p_index in
  if N.eqb n_index (lft parent) then rgt parent else lft parent.

(* remove_parents_child(parent, old_child) *)
Definition remove_parents_child (s: astate) (parent old_child: N) : astate :=
  if N.eqb (lft (nodes s parent)) old_child then set_lft s parent EMPTY
  else set_rgt s parent EMPTY.

(* set_nil_parents_child(parent, old_child) *)
Definition set_nil_parents_child (s: astate) (parent old_child: N) : astate :=
  if N.eqb (lft (nodes s parent)) old_child then set_lft s parent NIL
  else set_rgt s parent NIL.

(* fix_parents_nil_child() *)
Definition fix_parents_nil_child (s: astate) : astate :=
  let p_index := par (nodes s NIL) in
  if N.eqb (lft (nodes s p_index)) NIL then set_lft s p_index EMPTY
  else set_rgt s p_index EMPTY.

(* handle_red_sibling(n_index, s_index) *)
Definition handle_red_sibling (s: astate) (n_index s_index: N) : astate :=
  let s1 := set_red s s_index false in
  let p_index := par (nodes s1 n_index) in
  let s2 := set_red s1 p_index true in
  if N.eqb n_index (lft (nodes s2 p_index)) then rotate_left s2 p_index
  else rotate_right s2 p_index.

(* handle_black_sibling_with_at_least_one_red_child(n_index, s_origin) *)
Definition handle_black_sibling (s: astate) (n_index s_origin: N) : astate :=
  let p_index := par (nodes s n_index) in
  let sibling_left0 := lft (nodes s s_origin) in
  let sibling_right0 := rgt (nodes s s_origin) in
  let node_is_left_child := N.eqb n_index (lft (nodes s p_index)) in
  (* case 5 *)
  let '(s3, s_index, sibling_left, sibling_right) :=
    if node_is_left_child && is_black_idx s sibling_right0 then
      let s1 := if negb (N.eqb sibling_left0 EMPTY) then set_red s sibling_left0 false else s in
      let s2 := set_red s1 s_origin true in
      let s3 := rotate_right s2 s_origin in
      let s_index := rgt (nodes s3 p_index) in
      (s3, s_index, lft (nodes s3 s_index), rgt (nodes s3 s_index))
    else if negb node_is_left_child && is_black_idx s sibling_left0 then
      let s1 := if negb (N.eqb sibling_right0 EMPTY) then set_red s sibling_right0 false else s in
      let s2 := set_red s1 s_origin true in
      let s3 := rotate_left s2 s_origin in
      let s_index := lft (nodes s3 p_index) in
      (s3, s_index, lft (nodes s3 s_index), rgt (nodes s3 s_index))
    else (s, s_origin, sibling_left0, sibling_right0) in
  (* case 6 *)
  let s4 := set_red s3 s_index (red (nodes s3 p_index)) in
  let s5 := set_red s4 p_index false in
  if node_is_left_child then
    let s6 := if negb (N.eqb sibling_right EMPTY) then set_red s5 sibling_right false else s5 in
    rotate_left s6 p_index
  else
    let s6 := if negb (N.eqb sibling_left EMPTY) then set_red s5 sibling_left false else s5 in
    rotate_right s6 p_index.

(* the part of fix_red_black_properties_after_delete that follows case 2 (cases 3 - 6);
   [rec] is the recursive call *)
Definition fix_delete_36 (rec: astate -> N -> res astate) (s: astate) (n_index s_index: N) : res astate :=
  if N.eqb s_index EMPTY then Err ErrStuck
  else
    let sibling := nodes s s_index in
    if is_black_idx s (lft sibling) && is_black_idx s (rgt sibling) then
      let s1 := set_red s s_index true in
      let p_index := par (nodes s1 n_index) in
      if red (nodes s1 p_index) then Ret (set_red s1 p_index false)          (* case 3 *)
      else rec s1 p_index                                                      (* case 4 *)
    else Ret (handle_black_sibling s n_index s_index).                         (* cases 5, 6 *)

(* one activation of fix_red_black_properties_after_delete(n_index) *)
Definition fix_delete_body (rec: astate -> N -> res astate) (s: astate) (n_index: N) : res astate :=
  if N.eqb n_index (aroot s) then Ret s                                        (* case 1 *)
  else
    let s_index := get_sibling s n_index in
    if N.eqb s_index EMPTY then Err ErrStuck
    else if red (nodes s s_index) then                                         (* case 2 *)
      let s1 := handle_red_sibling s n_index s_index in
      fix_delete_36 rec s1 n_index (get_sibling s1 n_index)
    else fix_delete_36 rec s n_index s_index.

Fixpoint fix_delete (fuel: nat) (s: astate) (n_index: N) : res astate :=
  match fuel with
  | O => Err ErrFuel
  | S f => fix_delete_body (fix_delete f) s n_index
  end.

(* the second half of delete_index: unlink the node [delete_index], which has at most one child *)
Definition unlink (fuel: nat) (s: astate) (delete_index nd_parent nd_left nd_right: N) (nd_red: bool)
  : res astate :=
  if negb (N.eqb nd_left EMPTY) then
    fix_delete fuel (replace_parents_child s nd_parent delete_index nd_left) nd_left
  else if negb (N.eqb nd_right EMPTY) then
    fix_delete fuel (replace_parents_child s nd_parent delete_index nd_right) nd_right
  else if N.eqb nd_parent EMPTY then Ret (set_root s EMPTY)
  else if negb nd_red then
    let s1 := create_nil_node s nd_parent in
    let s2 := set_nil_parents_child s1 nd_parent delete_index in
    match fix_delete fuel s2 NIL with
    | Ret s3 => Ret (fix_parents_nil_child s3)
    | Err e => Err e
    end
  else Ret (remove_parents_child s nd_parent delete_index).

(* delete_index(index): the new arena and the slot handed to put_back *)
Definition arena_delete (fuel: nat) (s: astate) (index: N) : res (astate * N) :=
  let node := nodes s index in
  let nd_left := lft node in
  let nd_right := rgt node in
  let nd_parent := par node in
  let nd_red := red node in
  if negb (N.eqb nd_left EMPTY) && negb (N.eqb nd_right EMPTY) then
    match find_left_minimum fuel s nd_right with
    | Err e => Err e
    | Ret successor_index =>
      let successor := nodes s successor_index in
      let s1 := set_ent s index (aent successor) in
      match unlink fuel s1 successor_index (par successor) (lft successor) (rgt successor) (red successor) with
      | Ret s' => Ret (s', successor_index)
      | Err e => Err e
      end
    end
  else
    match unlink fuel s index nd_parent nd_left nd_right nd_red with
    | Ret s' => Ret (s', index)
    | Err e => Err e
    end.

End ArenaDelete.

Arguments with_ent {ent} n e.
Arguments set_ent {ent} s i e.
Arguments is_black_idx {ent} s index.
Arguments create_nil_node {ent} s parent.
Arguments find_left_minimum {ent} fuel s i.
Arguments get_sibling {ent} s n_index.
Arguments remove_parents_child {ent} s parent old_child.
Arguments set_nil_parents_child {ent} s parent old_child.
Arguments fix_parents_nil_child {ent} s.
Arguments handle_red_sibling {ent} s n_index s_index.
Arguments handle_black_sibling {ent} s n_index s_origin.
Arguments fix_delete_36 {ent} rec s n_index s_index.
Arguments fix_delete_body {ent} rec s n_index.
Arguments fix_delete {ent} fuel s n_index.
Arguments unlink {ent} fuel s delete_index nd_parent nd_left nd_right nd_red.
Arguments arena_delete {ent} fuel s index.
