
val negb : bool -> bool

type nat =
| O
| S of nat

val option_map : ('a1 -> 'a2) -> 'a1 option -> 'a2 option

val fst : ('a1 * 'a2) -> 'a1

val snd : ('a1 * 'a2) -> 'a2

val length : 'a1 list -> nat

val app : 'a1 list -> 'a1 list -> 'a1 list

type comparison =
| Eq
| Lt
| Gt

val compOpp : comparison -> comparison

val add : nat -> nat -> nat

val mul : nat -> nat -> nat

val sub : nat -> nat -> nat

type err =
| ErrStuck
| ErrFuel
| ErrPool
| ErrHandle
| ErrIndex
| ErrRange

type 'a res =
| Ret of 'a
| Err of err

val bind : 'a1 res -> ('a1 -> 'a2 res) -> 'a2 res

module Nat :
 sig
  val pred : nat -> nat

  val eqb : nat -> nat -> bool

  val leb : nat -> nat -> bool

  val ltb : nat -> nat -> bool

  val max : nat -> nat -> nat

  val log2_iter : nat -> nat -> nat -> nat -> nat

  val log2 : nat -> nat
 end

val nth : nat -> 'a1 list -> 'a1 -> 'a1

val nth_error : 'a1 list -> nat -> 'a1 option

val last : 'a1 list -> 'a1 -> 'a1

val removelast : 'a1 list -> 'a1 list

val map : ('a1 -> 'a2) -> 'a1 list -> 'a2 list

val flat_map : ('a1 -> 'a2 list) -> 'a1 list -> 'a2 list

val fold_left : ('a1 -> 'a2 -> 'a1) -> 'a2 list -> 'a1 -> 'a1

val fold_right : ('a2 -> 'a1 -> 'a1) -> 'a1 -> 'a2 list -> 'a1

val existsb : ('a1 -> bool) -> 'a1 list -> bool

val forallb : ('a1 -> bool) -> 'a1 list -> bool

val filter : ('a1 -> bool) -> 'a1 list -> 'a1 list

val find : ('a1 -> bool) -> 'a1 list -> 'a1 option

val firstn : nat -> 'a1 list -> 'a1 list

val skipn : nat -> 'a1 list -> 'a1 list

val repeat : 'a1 -> nat -> 'a1 list

type positive =
| XI of positive
| XO of positive
| XH

type n =
| N0
| Npos of positive

type z =
| Z0
| Zpos of positive
| Zneg of positive

module Pos :
 sig
  type mask =
  | IsNul
  | IsPos of positive
  | IsNeg
 end

module Coq_Pos :
 sig
  val succ : positive -> positive

  val add : positive -> positive -> positive

  val add_carry : positive -> positive -> positive

  val pred_double : positive -> positive

  val pred_N : positive -> n

  type mask = Pos.mask =
  | IsNul
  | IsPos of positive
  | IsNeg

  val succ_double_mask : mask -> mask

  val double_mask : mask -> mask

  val double_pred_mask : positive -> mask

  val sub_mask : positive -> positive -> mask

  val sub_mask_carry : positive -> positive -> mask

  val mul : positive -> positive -> positive

  val iter : ('a1 -> 'a1) -> 'a1 -> positive -> 'a1

  val div2 : positive -> positive

  val div2_up : positive -> positive

  val size : positive -> positive

  val compare_cont : comparison -> positive -> positive -> comparison

  val compare : positive -> positive -> comparison

  val eqb : positive -> positive -> bool

  val coq_Nsucc_double : n -> n

  val coq_Ndouble : n -> n

  val coq_lor : positive -> positive -> positive

  val coq_land : positive -> positive -> n

  val coq_lxor : positive -> positive -> n

  val shiftl : positive -> n -> positive

  val testbit : positive -> n -> bool

  val iter_op : ('a1 -> 'a1 -> 'a1) -> positive -> 'a1 -> 'a1

  val to_nat : positive -> nat

  val of_succ_nat : nat -> positive
 end

module N :
 sig
  val add : n -> n -> n

  val sub : n -> n -> n

  val mul : n -> n -> n

  val compare : n -> n -> comparison

  val eqb : n -> n -> bool

  val leb : n -> n -> bool

  val ltb : n -> n -> bool

  val max : n -> n -> n

  val div2 : n -> n

  val coq_lor : n -> n -> n

  val coq_land : n -> n -> n

  val coq_lxor : n -> n -> n

  val shiftl : n -> n -> n

  val shiftr : n -> n -> n

  val testbit : n -> n -> bool

  val to_nat : n -> nat

  val of_nat : nat -> n
 end

module Z :
 sig
  val double : z -> z

  val succ_double : z -> z

  val pred_double : z -> z

  val pos_sub : positive -> positive -> z

  val add : z -> z -> z

  val opp : z -> z

  val sub : z -> z -> z

  val mul : z -> z -> z

  val compare : z -> z -> comparison

  val leb : z -> z -> bool

  val ltb : z -> z -> bool

  val eqb : z -> z -> bool

  val min : z -> z -> z

  val to_N : z -> n

  val div2 : z -> z

  val log2 : z -> z

  val shiftl : z -> z -> z

  val shiftr : z -> z -> z
 end

type color =
| Red
| Black

val color_eqb : color -> color -> bool

type dir =
| L
| R

type status =
| Ok
| NewRed
| RedRed of dir

type 'ent tree =
| E
| T of color * 'ent tree * n * 'ent * 'ent tree

val is_black : 'a1 tree -> bool

val is_red_node : 'a1 tree -> bool

val paint : color -> 'a1 tree -> 'a1 tree

val fix_ins_left :
  color -> 'a1 tree -> n -> 'a1 -> 'a1 tree -> dir -> 'a1 tree * status

val fix_ins_right :
  color -> 'a1 tree -> n -> 'a1 -> 'a1 tree -> dir -> 'a1 tree * status

val up_left :
  color -> 'a1 tree -> n -> 'a1 -> 'a1 tree -> status -> 'a1 tree * status

val up_right :
  color -> 'a1 tree -> n -> 'a1 -> 'a1 tree -> status -> 'a1 tree * status

val ins : ('a1 -> z) -> 'a1 tree -> n -> 'a1 -> 'a1 tree * status

val finish_insert : ('a1 tree * status) -> 'a1 tree

val insert_tree : ('a1 -> z) -> 'a1 tree -> n -> 'a1 -> 'a1 tree

val fixL36 :
  color -> 'a1 tree -> n -> 'a1 -> 'a1 tree -> ('a1 tree * bool) option

val fixL :
  color -> 'a1 tree -> n -> 'a1 -> 'a1 tree -> ('a1 tree * bool) option

val fixR36 :
  color -> 'a1 tree -> n -> 'a1 -> 'a1 tree -> ('a1 tree * bool) option

val fixR :
  color -> 'a1 tree -> n -> 'a1 -> 'a1 tree -> ('a1 tree * bool) option

val del_min : 'a1 tree -> ((('a1 tree * bool) * n) * 'a1) option

type 'ent dres =
| NotFound
| Stuck
| Done of 'ent tree * bool * n

val del : 'a1 tree -> n -> 'a1 dres

val elements : 'a1 tree -> (n * 'a1) list

val slots : 'a1 tree -> n list

val ents : 'a1 tree -> 'a1 list

val keys : ('a1 -> z) -> 'a1 tree -> z list

val size0 : 'a1 tree -> nat

val height : 'a1 tree -> nat

val sub0 : 'a1 tree -> n -> 'a1 tree option

val ent_at : 'a1 tree -> n -> 'a1 option

val set_at : 'a1 tree -> n -> 'a1 -> 'a1 tree

val root_slots : 'a1 tree -> n list

val children : 'a1 tree -> 'a1 tree list

val bfs : nat -> 'a1 tree list -> n list

val level_order : 'a1 tree -> n list

val find_slot : ('a1 -> z) -> 'a1 tree -> z -> n option

val first_by :
  ('a1 -> z) -> 'a1 tree -> (z -> comparison) -> n option -> n option

val leftmost : 'a1 tree -> n option -> n option

val rightmost : 'a1 tree -> n option -> n option

val after_in : 'a1 tree -> n -> n option -> n option option

val before_in : 'a1 tree -> n -> n option -> n option option

type pool = { blen : n; unused : n list; ucap : n }

val range : n -> nat -> n list

val pool_new : n -> pool

val pool_get : pool -> (n * pool) option

val pool_put : pool -> n -> pool

type ment = z * z

val mkey : ment -> z

type mstate = { root : ment tree; pl : pool }

val tree_pool_new : n -> pool

val m_new : n -> mstate

val m_insert : mstate -> z -> z -> mstate res

val m_delete_at : mstate -> n -> mstate res

val m_delete : mstate -> z -> mstate res

val m_get : mstate -> z -> ment option

val m_is_empty : mstate -> bool

val m_first_by : mstate -> (z -> comparison) -> n option

val cmp_to : z -> z -> comparison

val m_first : mstate -> z -> n option

val m_value_at : mstate -> n -> ment res

val m_set_at : mstate -> n -> z -> mstate res

val m_after : mstate -> n -> n option res

val m_before : mstate -> n -> n option res

val m_clear : mstate -> mstate

type mop =
| MIns of z * z
| MDel of z
| MDelAt of n
| MGet of z
| MIsEmpty
| MFirst of z
| MFirstBy of (z -> comparison)
| MValAt of n
| MSetAt of n * z
| MAfter of n
| MBefore of n
| MClear

type mout =
| ONone
| OEnt of ment option
| OBool of bool
| OHandle of n option

val m_step : mstate -> mop -> (mstate * mout) res

val m_run : mstate -> mop list -> (mstate * mout list) res

type kent = { kk : z; kexp : z; kval : z }

val live : z -> kent -> bool

type kstate = { kroot : kent tree; kpl : pool }

type evkind =
| EvExp
| EvCmp

type event = (evkind * kent) * kstate

val k_new : n -> kstate

val kdelete : kstate -> n -> kstate res

val ksize : kstate -> nat

val expire_root : nat -> kstate -> z -> (kstate * event list) res

val child : dir -> kent tree -> n -> kent tree option

val expire_child :
  nat -> dir -> kstate -> n -> z -> ((kstate * n option) * event list) res

type qkind =
| QLess
| QLessEq
| QGet

val search :
  nat -> qkind -> (z -> comparison) -> kstate -> n -> z -> z option ->
  ((kstate * z option) * event list) res

val k_query :
  qkind -> (z -> comparison) -> kstate -> z -> ((kstate * z option) * event
  list) res

val k_first_less : kstate -> z -> z -> ((kstate * z option) * event list) res

val k_first_less_or_equal :
  kstate -> z -> z -> ((kstate * z option) * event list) res

val k_first_less_or_equal_by :
  kstate -> z -> (z -> comparison) -> ((kstate * z option) * event list) res

val k_get_value : kstate -> z -> z -> ((kstate * z option) * event list) res

val ins_descend : nat -> kstate -> n -> z -> kent -> (kstate * event list) res

val k_link : kstate -> kent -> kstate res

val k_insert : kstate -> kent -> z -> (kstate * event list) res

val k_is_empty : kstate -> bool

val k_clear : kstate -> kstate

val k_export : kstate -> z -> z list

val k_export_capacity : kstate -> n

val left_black_below : kent tree -> n

val old_height : kent tree -> n

val old_export_capacity : kent tree -> n

type kop =
| KIns of z * z * z * z
| KLess of z * z
| KLessEq of z * z
| KLessEqBy of z * (z -> comparison)
| KGet of z * z
| KIsEmpty
| KClear
| KExport of z

type kout =
| KONone
| KOVal of z option
| KOBool of bool
| KOList of z list

val k_step : kstate -> kop -> ((kstate * kout) * event list) res

val k_run : kstate -> kop list -> (kstate * kout list) res

val bsearch : ('a1 -> z) -> (z -> comparison) -> 'a1 list -> bool * nat

val insert_at : 'a1 list -> nat -> 'a1 -> 'a1 list

val remove_at : 'a1 list -> nat -> 'a1 list

val update_at : 'a1 list -> nat -> ('a1 -> 'a1) -> 'a1 list

val l_insert : ('a1 -> z) -> 'a1 list -> 'a1 -> 'a1 list

val l_delete : ('a1 -> z) -> 'a1 list -> z -> 'a1 list

val l_get : ('a1 -> z) -> 'a1 list -> z -> 'a1 option

val l_first_by : ('a1 -> z) -> 'a1 list -> (z -> comparison) -> nat option

type lstate = ment list

val ml_delete_at : lstate -> n -> lstate res

val ml_value_at : lstate -> n -> ment res

val ml_set_at : lstate -> n -> z -> lstate res

val ml_after : lstate -> n -> n option res

val ml_before : lstate -> n -> n option res

val ml_step : lstate -> mop -> (lstate * mout) res

val ml_run : lstate -> mop list -> (lstate * mout list) res

type klstate = { kbuf : kent list; kmin : z }

val kl_new : z -> klstate

val kl_clear_expired : z -> klstate -> z -> klstate

val kl_insert : z -> klstate -> kent -> z -> klstate

val kl_get : z -> klstate -> z -> z -> klstate * z option

val kl_first_less : z -> klstate -> z -> z -> klstate * z option

val kl_first_less_or_equal_by :
  z -> klstate -> z -> (z -> comparison) -> klstate * z option

val kl_export : z -> klstate -> z -> z list

val kl_step : z -> klstate -> kop -> klstate * kout

val kl_run : z -> klstate -> kop list -> klstate * kout list

val fill : n -> n -> n

val order_to_heap_index : n -> n

val fill_mask : n -> n -> n

val bit : n -> n -> n

val visit_inner : nat -> n -> n -> n

val visit_outer : nat -> n -> n -> n

val visit_mask : n -> n -> n

val place_inner : nat -> n -> (n * n) -> n * n

val place_outer : nat -> n -> (n * n) -> n * n

val place_mask : n -> n -> n

val bits_from : nat -> n -> n -> n list

val bits : n -> n list

val lowbit : n -> n

type sval = z * z

val sexp : sval -> z

type copy = sval * n

type layout = { lmin : z; lmax : z; lscale : z }

val layout_new : z -> z -> layout option

val zindex : layout -> z -> z

val lindex : layout -> z -> n

val lcount : layout -> n

type seg = { lay : layout; chunks : copy list list }

val seg_new : z -> z -> seg option

val upd : 'a1 list -> nat -> ('a1 -> 'a1) -> 'a1 list

val push_copy : copy -> copy list list -> n -> copy list list

val insert_mask : layout -> z -> z -> n

val intersect_mask : layout -> z -> z -> n

val backed : copy list list -> n -> bool

val seg_insert : seg -> z -> z -> sval -> seg res

val swap_remove : 'a1 list -> nat -> 'a1 list

type iter0 = { i0 : n option; i1 : nat; qmask : n; rest : n list; itime : z }

val chunk_at : copy list list -> n -> copy list

val next_nonempty : copy list list -> n list -> n option * n list

val scan :
  nat -> copy list -> nat -> n -> n -> z -> (copy list * (sval * nat) option)
  res

val set_iter : iter0 -> n option -> nat -> n list -> iter0

val next :
  nat -> copy list list -> iter0 -> ((copy list list * iter0) * sval option)
  res

val iter_new : seg -> z -> z -> z -> iter0

val next_fuel : iter0 -> nat

val take_n :
  nat -> copy list list -> iter0 -> (copy list list * sval list) res

val total_copies : copy list list -> nat

val seg_query : seg -> z -> z -> z -> nat option -> (seg * sval list) res

val seg_clear : seg -> seg

type sop =
| SIns of z * z * sval
| SQuery of z * z * z * nat option
| SClear

val seg_step : seg -> sop -> (seg * sval list) res

val seg_run : seg -> sop list -> (seg * sval list list) res

val rb_bh : 'a1 tree -> nat option

val rb_ok : 'a1 tree -> bool

val strictly_increasing : z list -> bool

val bst_ok : ('a1 -> z) -> 'a1 tree -> bool

val height_ok : 'a1 tree -> bool

val nodupN : n list -> bool

val pool_ok : 'a1 tree -> pool -> bool

type amap = ment list

val a_insert : amap -> z -> z -> amap

val a_remove : amap -> z -> amap

val a_lookup : amap -> z -> ment option

val a_update : amap -> z -> z -> amap

val best : (ment -> bool) -> amap -> ment option

val a_pred : amap -> z -> ment option

val a_pred_by : amap -> (z -> comparison) -> ment option

val a_next : amap -> z -> ment option

val a_prev : amap -> z -> ment option

type bag = kent list

val alive : z -> bag -> bag

val kbest : (kent -> bool) -> bag -> kent option

val ref_less : bag -> z -> z -> z option

val ref_less_eq : bag -> z -> z -> z option

val ref_less_eq_by : bag -> z -> (z -> comparison) -> z option

val ref_get : bag -> z -> z -> z option

val kinsert_sorted : kent -> kent list -> kent list

val ksort : kent list -> kent list

val ref_export : bag -> z -> z list

type sentry = (z * z) * sval

val bucket_overlap : layout -> z -> z -> z -> z -> bool

val ref_query : layout -> sentry list -> z -> z -> z -> sval list
