//! Instrumented user types: every call of user code the collections make (Ord::cmp, `<`,
//! comparator closures, key(), expiration()) is counted, can be logged, and can be made to panic
//! at a chosen invocation index.

use i_tree::set::sort::KeyValue;
use i_tree::{ExpiredKey, ExpiredVal};
use std::cell::{Cell, RefCell};
use std::cmp::Ordering;

thread_local! {
    /// number of user-callback invocations so far in the current history
    pub static CALLS: Cell<u64> = const { Cell::new(0) };
    /// panic when CALLS reaches this value (u64::MAX: never)
    pub static INJECT_AT: Cell<u64> = const { Cell::new(u64::MAX) };
    /// stored keys handed to the caller's ordering / comparator during the current operation
    pub static SEEN: RefCell<Vec<(i32, i32)>> = const { RefCell::new(Vec::new()) };

    /// id of the key being inserted by the current operation (it is "the new key itself")
    pub static CURRENT_ID: Cell<u32> = const { Cell::new(0) };
}

pub const PROBE_ID: u32 = 0;

#[inline]
pub fn callback() {
    let c = CALLS.with(|c| {
        let v = c.get();
        c.set(v + 1);
        v
    });
    if c == INJECT_AT.with(|i| i.get()) {
        // one shot
        INJECT_AT.with(|i| i.set(u64::MAX));
        panic!("injected panic in user callback #{c}");
    }
}

pub fn reset_calls(inject: Option<u64>) {
    CALLS.with(|c| c.set(0));
    INJECT_AT.with(|i| i.set(inject.unwrap_or(u64::MAX)));
    SEEN.with(|s| s.borrow_mut().clear());
}

pub fn take_seen() -> Vec<(i32, i32)> {
    SEEN.with(|s| std::mem::take(&mut *s.borrow_mut()))
}

// ---------------------------------------------------------------- map / set keys

/// Key of the map and the set: plain ordering on `k`, instrumented.
#[derive(Clone, Copy, Default, Debug)]
pub struct MKey(pub i32);

impl PartialEq for MKey {
    fn eq(&self, o: &Self) -> bool {
        callback();
        self.0 == o.0
    }
}
impl Eq for MKey {}
impl PartialOrd for MKey {
    fn partial_cmp(&self, o: &Self) -> Option<Ordering> {
        Some(self.cmp(o))
    }
}
impl Ord for MKey {
    fn cmp(&self, o: &Self) -> Ordering {
        callback();
        self.0.cmp(&o.0)
    }
}

/// Value of the set: carries its own key and a heap-allocated payload.
#[derive(Clone, Default, Debug)]
pub struct SVal {
    pub key: MKey,
    pub payload: String,
}

impl KeyValue<MKey> for SVal {
    fn key(&self) -> &MKey {
        callback();
        &self.key
    }
}

// ---------------------------------------------------------------- expiring keys

/// Key of the expiring collections.  `id` identifies the inserted entry (0 for probes) and takes
/// no part in the ordering.
#[derive(Clone, Copy, Debug)]
pub struct KKey {
    pub k: i32,
    pub exp: i32,
    pub id: u32,
}

fn note(a: &KKey) {
    if a.id != PROBE_ID && a.id != CURRENT_ID.with(|c| c.get()) {
        SEEN.with(|s| s.borrow_mut().push((a.k, a.exp)));
    }
}

/// called by the harness' comparator closures
pub fn note_closure_arg(a: &KKey) {
    callback();
    note(a);
}

impl PartialEq for KKey {
    fn eq(&self, o: &Self) -> bool {
        callback();
        note(self);
        note(o);
        self.k == o.k
    }
}
impl Eq for KKey {}
impl PartialOrd for KKey {
    fn partial_cmp(&self, o: &Self) -> Option<Ordering> {
        Some(self.cmp(o))
    }
}
impl Ord for KKey {
    fn cmp(&self, o: &Self) -> Ordering {
        callback();
        note(self);
        note(o);
        self.k.cmp(&o.k)
    }
}
impl ExpiredKey<i32> for KKey {
    fn expiration(&self) -> i32 {
        callback();
        self.exp
    }
}

// ---------------------------------------------------------------- segment-tree values

#[derive(Clone, Copy, Debug)]
pub struct SegVal {
    pub id: i64,
    pub exp: i32,
}

impl ExpiredVal<i32> for SegVal {
    fn expiration(&self) -> i32 {
        callback();
        self.exp
    }
}
